/-
The fix-point of the repaired IR version < 10 format of function value info (`serializeM9 true`,
`deserializeM9`): `idempotent_ir9`.
-/
import IrVerif.Lemmas.ScopeFunc9Clear
import IrVerif.Lemmas.ScopeFunc9Inert
namespace IrVerif.Scope

theorem addVInfo_vinfo (E : List VInfoP) (g : GraphP) : (addVInfo E g).vinfo = g.vinfo ++ E := by
  cases g; rfl

theorem serializeM_inv {w w1 : MWorld} {q : ModelP} (h : serializeM w = .ok (w1, q)) :
    ∃ ws1 ws2, serGraph w.st.vals w.st.tdata w.root = .ok (q.graph, ws1) ∧
      serFuncs w.st.vals w.st.tdata w.funcs = .ok (q.funcs, ws2) := by
  simp only [serializeM] at h
  split at h
  · simp at h
  · rename_i p ws1 hp
    split at h
    · simp at h
    · rename_i fps ws2 hf
      simp only [Except.ok.injEq, Prod.mk.injEq] at h
      obtain ⟨_, rfl⟩ := h
      exact ⟨ws1, ws2, hp, hf⟩

theorem flatMap_treeRelFs (V : Nat → ValueS) (A : Assoc) (h1 h2 : FId × GraphT → List VInfoP) :
    ∀ (fs gs : List (FId × GraphT)), TreeRelFs V A fs gs →
      (∀ f ∈ fs, ∀ g ∈ gs, f.1 = g.1 → TreeRelG V A f.2 g.2 → h2 g = h1 f) → gs.flatMap h2 = fs.flatMap h1
  | [], [], _, _ => rfl
  | f :: fs, g :: gs, h, hp => by
    simp only [TreeRelFs] at h
    simp only [List.flatMap_cons, hp f (by simp) g (by simp) h.1 h.2.1,
      flatMap_treeRelFs V A h1 h2 fs gs h.2.2 (fun f' hf' g' hg' => hp f' (by simp [hf']) g' (by simp [hg']))]
  | [], _ :: _, h, _ => by simp [TreeRelFs] at h
  | _ :: _, [], h, _ => by simp [TreeRelFs] at h

/-- the experimental entries of a function and of its renamed image -/
theorem expOfFunc_pair (Vt Vm W : Nat → ValueS) (A : Assoc) (R : List Name) (k : FId) (g g' : GraphT)
    (ht : TreeRelG Vt A g g') (hlive : liveOuts Vt = liveOuts Vm)
    (hnt : ∀ v, nameTruthy (Vm v).name = false → expEntry Vm R k v = none)
    (hpw : k.overload = "" → ∀ v ∈ g.inputs ++ g.nodes.flatMap (liveOuts Vt), v ∈ A.map (·.1) →
      expEntry W R k (sig A v) = expEntry Vm R k v) :
    expOfFunc W R (k, g') = expOfFunc Vm R (k, g) := by
  obtain ⟨gid, ins, inits, nodes, outs⟩ := g
  obtain ⟨gid', ins', inits', nodes', outs'⟩ := g'
  simp only [TreeRelG] at ht
  obtain ⟨e1, k1, _, _, hN, _, _⟩ := ht
  obtain ⟨e2, k2⟩ := treeRelNs_outputs Vt A nodes nodes' hN
  simp only [GraphT.inputs, GraphT.nodes] at hpw
  simp only [expOfFunc]
  split
  · rfl
  · rename_i hov
    have hov' : k.overload = "" := by simpa using hov
    have hpw := hpw hov'
    rw [expVInfo_eq, expVInfo_eq, expVInfo_eq, expVInfo_eq, e1, e2,
      ← filterMap_live Vm (expEntry Vm R k) hnt nodes, ← hlive,
      filterMap_map_sig (sig A) (expEntry Vm R k) (expEntry W R k) ins
        (fun v hv => hpw v (List.mem_append_left _ hv) (k1 v hv)),
      filterMap_map_sig (sig A) (expEntry Vm R k) (expEntry W R k) (nodes.flatMap (liveOuts Vt))
        (fun v hv => hpw v (List.mem_append_right _ hv) (k2 v hv))]

/-- the post-pass at a value of a function that its certificate introduces -/
theorem post_at_of_new (w : MWorld) (hnd : (w.funcs.flatMap fun f => (replF w.st.vals f.2).new).Nodup)
    (hids : (w.funcs.map (·.1)).Nodup) (vi : List VInfoP) (fids : List FId) (f : FId × GraphT) (hf : f ∈ w.funcs)
    (c : Nat) (hc : c ∈ fvals f.2) (hcn : c ∈ (replF w.st.vals f.2).new)
    (hall : ∀ g ∈ w.funcs, c ∈ fvals g.2 → c ∈ (replF w.st.vals g.2).new) :
    (postFold vi fids w.funcs w.st).vals c = updInfo (tblOf vi fids f.1) (w.st.vals c) := by
  apply postFold_at vi fids c f w.funcs w.st hids hf hc
  intro g hg hne hcg
  exact flatMap_nodup_disjoint (fun f => (replF w.st.vals f.2).new) _ hnd f hf g hg (Ne.symm hne) c hcn (hall g hg hcg)

/-- after the post-pass, equally (truthy-)named values of a function still carry the same emitted info -/
theorem post_sameInfo (w : MWorld) (h : ReloadableM w) (vi : List VInfoP) (fids : List FId) (f : FId × GraphT)
    (hf : f ∈ w.funcs) (a b : Nat) (ha : a ∈ fvals f.2) (hb : b ∈ fvals f.2)
    (ht : nameTruthy (w.st.vals a).name = true) (hn : (w.st.vals a).name = (w.st.vals b).name) :
    ((postFold vi fids w.funcs w.st).vals a).info.emit = ((postFold vi fids w.funcs w.st).vals b).info.emit := by
  obtain ⟨_, hfok, hnd, hids⟩ := h
  rw [List.nodup_append] at hnd
  have htb : nameTruthy (w.st.vals b).name = true := by rw [← hn]; exact ht
  have hat : ∀ c ∈ fvals f.2, nameTruthy (w.st.vals c).name = true →
      (postFold vi fids w.funcs w.st).vals c = updInfo (tblOf vi fids f.1) (w.st.vals c) := fun c hc htc =>
    post_at_of_new w hnd.2.1 hids vi fids f hf c hc (fvals_truthy_new _ f.2 (hfok f hf) c hc htc)
      (fun g hg hcg => fvals_truthy_new _ g.2 (hfok g hg) c hcg htc)
  rw [hat a ha ht, hat b hb htb]
  have base := fvals_sameInfo w.st.vals f.2 (hfok f hf) a b ha hb ht hn
  obtain ⟨hna, _⟩ := name_some_of_truthy ht
  have hnb : (w.st.vals b).name = some (nm w.st.vals a) := by rw [← hn]; exact hna
  cases hl : (tblOf vi fids f.1).lookup (nm w.st.vals a) with
  | some i => rw [updInfo_some _ _ _ i hna hl, updInfo_some _ _ _ i hnb hl]
  | none => rw [updInfo_none _ _ _ hna hl, updInfo_none _ _ _ hnb hl]; exact base

end IrVerif.Scope

namespace IrVerif.Scope

theorem reservedNames_setInfo (V : Nat → ValueS) (I : Nat → Info) (g : GraphT) :
    reservedNames (setInfo V I) g = reservedNames V g := by
  cases g; rfl

theorem expEntry_none_of_cp (V : Nat → ValueS) (R : List Name) (k : FId) (v : Nat)
    (h : canParseBack R k ((V v).name.getD "") = false) : expEntry V R k v = none := by
  simp [expEntry, h]

theorem expEntry_none_of_sc (V : Nat → ValueS) (R : List Name) (k : FId) (v : Nat)
    (h : shouldCreate (V v) = false) : expEntry V R k v = none := by
  simp [expEntry, h]

theorem expEntry_eq (V W : Nat → ValueS) (R : List Name) (k : FId) (v c : Nat) (hn : (W c).name = (V v).name)
    (hs : shouldCreate (W c) = shouldCreate (V v))
    (hi : shouldCreate (V v) = true → (W c).info.emit = (V v).info.emit) : expEntry W R k c = expEntry V R k v := by
  by_cases hsc : shouldCreate (V v) = true
  · simp only [expEntry, hn, hs, hi hsc]
  · have hf : shouldCreate (V v) = false := by simpa using hsc
    rw [expEntry_none_of_sc V R k v hf, expEntry_none_of_sc W R k c (by rw [hs]; exact hf)]

theorem liveOuts_sub (V : Nat → ValueS) (nodes : List NodeT) (v : Nat) (h : v ∈ nodes.flatMap (liveOuts V)) :
    v ∈ nodes.flatMap NodeT.outputs := by
  simp only [List.mem_flatMap] at h ⊢
  obtain ⟨n, hn, hv⟩ := h
  obtain ⟨i, g, a, b, c⟩ := n
  exact ⟨_, hn, stripTrailing_sub V b v hv⟩

theorem fid_eq (a b : FId) (h1 : a.domain = b.domain) (h2 : a.name = b.name) (h3 : a.overload = b.overload) : a = b := by
  cases a; cases b; simp only at h1 h2 h3; simp [h1, h2, h3]

end IrVerif.Scope

namespace IrVerif.Scope

/-- the fix-point for a certified world whose function values carry any info that is a function of the name -/
theorem ir9_core (w0 : MWorld) (h0 : ReloadableM w0) (J : Nat → Info)
    (hJ : ∀ v, (∀ f ∈ w0.funcs, v ∉ fvals f.2) → J v = (w0.st.vals v).info)
    (hSI : ∀ f ∈ w0.funcs, ∀ a ∈ fvals f.2, ∀ b ∈ fvals f.2, nameTruthy (w0.st.vals a).name = true →
      (w0.st.vals a).name = (w0.st.vals b).name → (J a).emit = (J b).emit) :
    ∃ (m1 : MWorld) (Q : ModelP) (D m2 : MWorld),
      serializeM9 true (withInfo w0 J) = .ok (m1, Q) ∧ deserializeM9 Q = .ok D ∧ serializeM9 true D = .ok (m2, Q) := by
  have R' := clear_reloadable w0 h0 J hJ
  generalize hI : clearI w0.st.vals w0.funcs J = I at R'
  have hI_S : ∀ v, inSB w0.st.vals w0.funcs v = true → I v = {} := fun v hs => by
    rw [← hI]; simp only [clearI, hs, if_true]
  have hI_N : ∀ v, inSB w0.st.vals w0.funcs v = false → I v = J v := fun v hs => by
    rw [← hI]; simp [clearI, hs]
  obtain ⟨w1', Q', D', B, hQ', hD', hrs, hdom, htr, htf, hio, _⟩ := reloadableM_roundtrip (withInfo w0 I) R'
  -- the first serialization
  have hroot : ∀ v ∈ emitG (withInfo w0 I).st.vals (withInfo w0 I).root, J v = ((withInfo w0 I).st.vals v).info := by
    intro v hv
    have hnew := emitG_sub_new _ _ [] R'.1 v hv
    have hs : inSB w0.st.vals w0.funcs v = false := notS_root (withInfo w0 I) R' v hnew
    exact (hI_N v hs).symm
  have hsub : ∀ f ∈ (withInfo w0 I).funcs, ∀ v ∈ emitSubNs (withInfo w0 I).st.vals f.2.nodes,
      J v = ((withInfo w0 I).st.vals v).info := by
    intro f hf v hv
    obtain ⟨k, gid, ins, inits, nodes, outs⟩ := f
    have hok := R'.2.1 _ hf
    simp only [replF] at hok
    have hnew := emitSubNs_sub_new _ nodes [] _ hok.2.2.2.2.1 v hv
    have hs : inSB w0.st.vals w0.funcs v = false :=
      notS_nodes (withInfo w0 I) R' k gid ins inits nodes outs hf v hnew
    exact (hI_N v hs).symm
  obtain ⟨w2, Qm, hsm0, hg1, hf1⟩ := frame_serializeM (withInfo w0 I) J w1' Q' hroot hsub hQ'
  have hsm : serializeM (withInfo w0 J) = .ok (w2, Qm) := hsm0
  obtain ⟨ws1', ws2', _, hsf'⟩ := serializeM_inv hQ'
  have hnv : Q'.funcs.map eraseF = Q'.funcs := by
    refine serFuncs_no_vinfo _ _ _ _ _ (fun f hf v hv => ?_) hsf'
    by_cases ht : nameTruthy (w0.st.vals v).name = true
    · have := hI_S v ((inSB_iff _ _ _).mpr ⟨ht, f, hf, hv⟩)
      show ((I v).present && nameTruthy (w0.st.vals v).name) = false
      rw [this]; rfl
    · have hf' : nameTruthy (w0.st.vals v).name = false := by simpa using ht
      show ((I v).present && nameTruthy (w0.st.vals v).name) = false
      rw [hf']; simp
  obtain ⟨wsm1, wsm2, hsgm, _⟩ := serializeM_inv hsm
  have hkeys : ∀ kv ∈ (withInfo w0 J).root.inits, ((withInfo w0 J).st.vals kv.2).name = some kv.1 :=
    hkeys_of_ok w0.st.vals w0.root [] h0.1
  have hE0 : ∃ E, E = (withInfo w0 J).funcs.flatMap (expOfFunc (withInfo w0 J).st.vals
      (reservedNames (withInfo w0 J).st.vals (withInfo w0 J).root)) := ⟨_, rfl⟩
  obtain ⟨E, hE⟩ := hE0
  have h9 : serializeM9 true (withInfo w0 J) = .ok (w2, ⟨addVInfo E Qm.graph, Qm.funcs.map eraseF⟩) := by
    simp only [serializeM9, hsm, hE]; rfl
  obtain ⟨q, hq, hde⟩ := ir9_entries_inert (withInfo w0 J) w2 _ h9 hkeys
  have hqm : q = Qm := by
    rw [hsm] at hq
    simp only [Except.ok.injEq, Prod.mk.injEq] at hq
    exact hq.2.symm
  have hde0 : deserGraph {} [] (addVInfo E Qm.graph) = deserGraph {} [] Q'.graph := by
    have := hde {} []
    rw [hqm] at this
    exact this.trans (congrArg (deserGraph {} []) hg1)
  have hload : deserializeM ⟨addVInfo E Qm.graph, Qm.funcs.map eraseF⟩ = .ok D' := by
    rw [← hD']
    simp only [deserializeM, hde0, hf1, hnv]
  have hvi0 : ∃ vi', vi' = Qm.graph.vinfo ++ E := ⟨_, rfl⟩
  obtain ⟨vi', hvi'⟩ := hvi0
  have h9D : deserializeM9 ⟨addVInfo E Qm.graph, Qm.funcs.map eraseF⟩ =
      .ok { D' with st := postFold vi' (D'.funcs.map (·.1)) D'.funcs D'.st } := by
    simp only [deserializeM9, hload, addVInfo_vinfo, hvi']; rfl
  -- the reloaded world
  have RD := deserializeM_reloadable_all Q' D' hD'
  have x3 : ∃ b, serializeM D' = .ok (b, Q') := by
    obtain ⟨a, Qx, Dx, b, x1, x2, x3⟩ := reloadableM_fixpoint (withInfo w0 I) R'
    rw [hQ'] at x1
    simp only [Except.ok.injEq, Prod.mk.injEq] at x1
    obtain ⟨_, rfl⟩ := x1
    rw [hD'] at x2
    simp only [Except.ok.injEq] at x2
    subst x2
    exact ⟨b, x3⟩
  obtain ⟨b, x3⟩ := x3
  have hnB : ∀ v ∈ B.map (·.1), (D'.st.vals (sig B v)).name = (w0.st.vals v).name := fun v hv => hrs.sig_name hv
  have liveD : ∀ f' ∈ D'.funcs, ∀ n' ∈ f'.2.nodes, liveOuts D'.st.vals n' = n'.outputs := by
    intro f' hf' n' hn'
    obtain ⟨f, hf, _, htg⟩ := (treeRelFs_mem _ B _ _ htf).1 f' hf'
    obtain ⟨k, gid, ins, inits, nodes, outs⟩ := f
    obtain ⟨k', gid', ins', inits', nodes', outs'⟩ := f'
    simp only [TreeRelG] at htg
    exact treeRelNs_live (withInfo w0 I).st.vals D'.st.vals B (fun v hv => hrs.sig_name hv) nodes nodes'
      htg.2.2.2.2.1 n' hn'
  have ndD := RD.2.2.1
  rw [List.nodup_append] at ndD
  have flD : ∀ f' ∈ D'.funcs, ∀ v ∈ fvals f'.2,
      v ∈ (replF D'.st.vals f'.2).new ∧ v ∉ emitSubNs D'.st.vals f'.2.nodes := fun f' hf' v hv =>
    fvals_live _ f'.2 (RD.2.1 f' hf') (flatMap_nodup_each (fun f => (replF D'.st.vals f.2).new) _ ndD.2.1 f' hf')
      (liveD f' hf') v hv
  have hJD0 : ∃ JD : Nat → Info, JD = fun v => ((postFold vi' (D'.funcs.map (·.1)) D'.funcs D'.st).vals v).info := ⟨_, rfl⟩
  obtain ⟨JD, hJD⟩ := hJD0
  have hDw : ({ D' with st := postFold vi' (D'.funcs.map (·.1)) D'.funcs D'.st } : MWorld) = withInfo D' JD := by
    have := postFold_setInfo vi' (D'.funcs.map (·.1)) D'.funcs D'.st
    rw [hJD]
    exact congrArg (fun s => MWorld.mk s D'.root D'.funcs) this
  have hWval : ∀ c, (withInfo D' JD).st.vals c = (postFold vi' (D'.funcs.map (·.1)) D'.funcs D'.st).vals c := by
    intro c
    rw [← hDw]
  have hJDout : ∀ v, (∀ g' ∈ D'.funcs, v ∉ fvals g'.2) → JD v = (D'.st.vals v).info := fun v h => by
    rw [hJD]
    show ((postFold vi' (D'.funcs.map (·.1)) D'.funcs D'.st).vals v).info = _
    rw [postFold_out _ _ v _ _ h]
  have hrootD : ∀ v ∈ emitG D'.st.vals D'.root, JD v = (D'.st.vals v).info := by
    intro v hv
    apply hJDout
    intro g' hg' hvg
    have h1 := emitG_sub_new _ _ [] RD.1 v hv
    have h2 := (flD g' hg' v hvg).1
    exact ndD.2.2 v h1 v (List.mem_flatMap.mpr ⟨g', hg', h2⟩) rfl
  have hsubD : ∀ f' ∈ D'.funcs, ∀ v ∈ emitSubNs D'.st.vals f'.2.nodes, JD v = (D'.st.vals v).info := by
    intro f' hf' v hv
    apply hJDout
    intro g' hg' hvg
    by_cases he : g' = f'
    · subst he; exact (flD g' hg' v hvg).2 hv
    · have h1 : v ∈ (replF D'.st.vals f'.2).new := by
        obtain ⟨k, gid, ins, inits, nodes, outs⟩ := f'
        have hok := RD.2.1 _ hf'
        simp only [replF] at hok
        rw [replF_new_eq]
        exact List.mem_append_right _ (emitSubNs_sub_new _ nodes [] _ hok.2.2.2.2.1 v hv)
      exact flatMap_nodup_disjoint (fun f => (replF D'.st.vals f.2).new) _ ndD.2.1 g' hg' f' hf' he v
        (flD g' hg' v hvg).1 h1
  obtain ⟨w4, QD, hsD, hg2, hf2⟩ := frame_serializeM D' JD b Q' hrootD hsubD x3
  -- the entries written the second time are the entries written the first time
  have hR : reservedNames (withInfo D' JD).st.vals (withInfo D' JD).root =
      reservedNames (withInfo w0 J).st.vals (withInfo w0 J).root := by
    have := reservedNames_rel (withInfo w0 I).st.vals (withInfo D' JD).st.vals B (fun v hv => hnB v hv) w0.root D'.root htr
    rw [show (withInfo D' JD).root = D'.root from rfl, this]
    exact (reservedNames_setInfo w0.st.vals I w0.root).trans (reservedNames_setInfo w0.st.vals J w0.root).symm
  have hEE : (withInfo D' JD).funcs.flatMap (expOfFunc (withInfo D' JD).st.vals
      (reservedNames (withInfo D' JD).st.vals (withInfo D' JD).root)) = E := by
    rw [hR, hE]
    generalize hRdef : reservedNames (withInfo w0 J).st.vals (withInfo w0 J).root = R at hE ⊢
    apply flatMap_treeRelFs (withInfo w0 I).st.vals B _ _ w0.funcs D'.funcs htf
    intro f hf g' hg' hkk htg
    obtain ⟨k, g⟩ := f
    obtain ⟨k', gg'⟩ := g'
    simp only at hkk htg
    subst hkk
    apply expOfFunc_pair (withInfo w0 I).st.vals (withInfo w0 J).st.vals (withInfo D' JD).st.vals B R k g gg' htg
    · show liveOuts (setInfo w0.st.vals I) = liveOuts (setInfo w0.st.vals J)
      rw [liveOuts_setInfo, liveOuts_setInfo]
    · exact expEntry_of_not_truthy _ R k
    · intro hk v hv hvB
      -- v is a value of the function
      have hvf : v ∈ fvals g := by
        obtain ⟨gid, ins, inits, nodes, outs⟩ := g
        simp only [GraphT.inputs, GraphT.nodes, List.mem_append] at hv
        simp only [fvals, GraphT.inputs, GraphT.nodes, List.mem_append]
        rcases hv with hv | hv
        · exact .inl hv
        · exact .inr (liveOuts_sub _ nodes v hv)
      have hsvf : sig B v ∈ fvals gg' := by
        obtain ⟨gid, ins, inits, nodes, outs⟩ := g
        obtain ⟨gid', ins', inits', nodes', outs'⟩ := gg'
        simp only [TreeRelG] at htg
        obtain ⟨e1, _, _, _, hN, _, _⟩ := htg
        obtain ⟨e2, _⟩ := treeRelNs_outputs _ B nodes nodes' hN
        simp only [GraphT.inputs, GraphT.nodes, List.mem_append] at hv
        simp only [fvals, GraphT.inputs, GraphT.nodes, List.mem_append, e1, e2]
        rcases hv with hv | hv
        · exact .inl (List.mem_map_of_mem hv)
        · exact .inr (List.mem_map_of_mem hv)
      have hname : ((withInfo D' JD).st.vals (sig B v)).name = ((withInfo w0 J).st.vals v).name := hnB v hvB
      by_cases ht : nameTruthy (w0.st.vals v).name = true
      · obtain ⟨hnv, hne⟩ := name_some_of_truthy ht
        by_cases hcp : canParseBack R k (nm w0.st.vals v) = true
        · -- the interesting case
          have hcp' := hcp
          simp only [canParseBack, Bool.and_eq_true, Bool.not_eq_true', beq_iff_eq] at hcp'
          obtain ⟨hres, hparse⟩ := hcp'
          have hS : inSB w0.st.vals w0.funcs v = true := (inSB_iff _ _ _).mpr ⟨ht, _, hf, hvf⟩
          -- the value after the post-pass
          have hc1 : (withInfo D' JD).st.vals (sig B v) =
              updInfo (tblOf vi' (D'.funcs.map (·.1)) k) (D'.st.vals (sig B v)) := by
            rw [hWval]
            exact post_at_of_new D' ndD.2.1 RD.2.2.2 vi' _ (k, gg') hg' (sig B v) hsvf (flD _ hg' _ hsvf).1
              (fun g'' hg'' h => (flD g'' hg'' _ h).1)
          have hc2 : (D'.st.vals (sig B v)).info = {} := by
            have hem : v ∈ emitM (withInfo w0 I) := by
              simp only [emitM, List.mem_append, List.mem_flatMap]
              right
              refine ⟨(k, g), hf, ?_⟩
              obtain ⟨gid, ins, inits, nodes, outs⟩ := g
              simp only [GraphT.inputs, GraphT.nodes, List.mem_append] at hv
              simp only [emitF, List.mem_append, List.mem_filter]
              rcases hv with hv | hv
              · exact .inl (.inl ⟨hv, ht⟩)
              · exact .inl (.inr ⟨hv, ht⟩)
            have := (hio v hem).2
            rw [this]
            show (I v).emit = {}
            rw [hI_S v hS]; rfl
          have hc3 : (D'.st.vals (sig B v)).name = some (nm w0.st.vals v) := by rw [hnB v hvB, hnv]
          have hfid : (D'.funcs.map (·.1)).contains k = true := by
            rw [List.contains_iff_mem]
            exact List.mem_map_of_mem (f := (·.1)) hg'
          -- the entries that can be looked up under the name of `v`
          have hent : ∀ e ∈ vi', parseExp e.name = some (k.domain, k.name, nm w0.st.vals v) →
              ∃ u ∈ fvals g, shouldCreate ((withInfo w0 J).st.vals u) = true ∧
                (w0.st.vals v).name = (w0.st.vals u).name ∧ e.info = (J u).emit := by
            intro e he hp
            have hname' := parseExp_eq _ _ _ _ hp
            rw [hvi', List.mem_append] at he
            rcases he with he | he
            · have := vinfo_reserved (withInfo w0 J).st.vals _ (withInfo w0 J).root Qm.graph wsm1 hkeys hsgm e he
              rw [hRdef, hname'] at this
              rw [← List.contains_iff_mem] at this
              rw [hres] at this
              cases this
            · rw [hE, List.mem_flatMap] at he
              obtain ⟨f2, hf2m, he2⟩ := he
              obtain ⟨hov2, u, hu, tu, scu, cpu, rfl⟩ := (mem_expOfFunc _ _ f2 e).mp he2
              simp only [canParseBack, Bool.and_eq_true, Bool.not_eq_true', beq_iff_eq] at cpu
              have hp2 := cpu.2
              simp only at hname'
              rw [hname', hparse] at hp2
              simp only [Option.some.injEq, Prod.mk.injEq] at hp2
              obtain ⟨d1, d2, d3⟩ := hp2
              have hk2 : f2.1 = k := fid_eq _ _ d1.symm d2.symm (by rw [hov2, hk])
              have hf2e : f2 = (k, g) := keys_inj w0.funcs h0.2.2.2 f2 hf2m (k, g) hf hk2
              subst hf2e
              refine ⟨u, hu, scu, ?_, rfl⟩
              have hu1 := (name_some_of_truthy (V := w0.st.vals) tu).1
              rw [hnv, hu1]
              exact congrArg some d3
          by_cases hsc : shouldCreate ((withInfo w0 J).st.vals v) = true
          · -- an entry was written for `v`: it is read back
            have hlook : (tblOf vi' (D'.funcs.map (·.1)) k).lookup (nm w0.st.vals v) = some (J v).emit := by
              apply tblOf_lookup_some vi' _ k _ _ hk hfid
              · intro e he hp
                obtain ⟨u, hu, _, hnu, hiu⟩ := hent e he hp
                rw [hiu]
                exact (hSI (k, g) hf v hvf u hu ht hnu).symm
              · refine ⟨⟨formatExp k.domain k.name (nm w0.st.vals v), (J v).emit⟩, ?_, hparse⟩
                rw [hvi', List.mem_append]
                right
                rw [hE, List.mem_flatMap]
                exact ⟨(k, g), hf, (mem_expOfFunc _ _ _ _).mpr ⟨hk, v, hvf, ht, hsc, hcp, rfl⟩⟩
            have hinfo : ((withInfo D' JD).st.vals (sig B v)).info = (J v).emit := by
              rw [hc1]; exact updInfo_some _ _ _ _ hc3 hlook
            apply expEntry_eq _ _ R k v (sig B v) hname
            · show (((withInfo D' JD).st.vals (sig B v)).info.present &&
                nameTruthy ((withInfo D' JD).st.vals (sig B v)).name) = ((J v).present && nameTruthy (w0.st.vals v).name)
              rw [hinfo, hname, present_emit]; rfl
            · intro _
              rw [hinfo, emit_emit]; rfl
          · -- nothing was written for `v`: nothing is read back
            have hscf : shouldCreate ((withInfo w0 J).st.vals v) = false := by simpa using hsc
            have hlook : (tblOf vi' (D'.funcs.map (·.1)) k).lookup (nm w0.st.vals v) = none := by
              apply tblOf_lookup_none
              intro e he hp
              obtain ⟨u, hu, scu, hnu, _⟩ := hent e he hp
              have hem := hSI (k, g) hf v hvf u hu ht hnu
              have hp1 : (J u).present = true := by
                have : ((J u).present && nameTruthy (w0.st.vals u).name) = true := scu
                simp only [Bool.and_eq_true] at this; exact this.1
              have hp2 : (J v).present = true := by rw [← present_emit, hem, present_emit]; exact hp1
              have : shouldCreate ((withInfo w0 J).st.vals v) = true := by
                show ((J v).present && nameTruthy (w0.st.vals v).name) = true
                rw [hp2, ht]; rfl
              rw [hscf] at this
              cases this
            have hval : (withInfo D' JD).st.vals (sig B v) = D'.st.vals (sig B v) := by
              rw [hc1]; exact updInfo_none _ _ _ hc3 hlook
            rw [expEntry_none_of_sc _ R k v hscf]
            apply expEntry_none_of_sc
            rw [hval]
            show ((D'.st.vals (sig B v)).info.present && nameTruthy (D'.st.vals (sig B v)).name) = false
            rw [hc2]; rfl
        · have hcpf : canParseBack R k (nm w0.st.vals v) = false := by simpa using hcp
          rw [expEntry_none_of_cp (withInfo w0 J).st.vals R k v hcpf]
          apply expEntry_none_of_cp
          rw [hname]
          exact hcpf
      · have hf' : nameTruthy (w0.st.vals v).name = false := by simpa using ht
        rw [expEntry_of_not_truthy (withInfo w0 J).st.vals R k v hf']
        apply expEntry_of_not_truthy
        rw [hname]
        exact hf'
  have h9D2 : serializeM9 true (withInfo D' JD) = .ok (w4, ⟨addVInfo E QD.graph, QD.funcs.map eraseF⟩) := by
    simp only [serializeM9, hsD, if_true, hEE]; rfl
  refine ⟨w2, _, _, w4, h9, h9D, ?_⟩
  rw [hDw, h9D2, hg2, hf2, hg1, hf1]

/-- **idempotent_ir9**: the IR version < 10 format (with the repair of D320) is a fix-point of
    deserialize-then-serialize, for every proto that deserializes -/
theorem idempotent_ir9 (P : ModelP) (m : MWorld) (hd : deserializeM9 P = .ok m) :
    ∃ (m1 : MWorld) (Q : ModelP) (D m2 : MWorld),
      serializeM9 true m = .ok (m1, Q) ∧ deserializeM9 Q = .ok D ∧ serializeM9 true D = .ok (m2, Q) := by
  simp only [deserializeM9] at hd
  split at hd
  · simp at hd
  · rename_i m0 hm0
    simp only [Except.ok.injEq] at hd
    have h0 := deserializeM_reloadable_all P m0 hm0
    have hpost := postFold_setInfo P.graph.vinfo (m0.funcs.map (·.1)) m0.funcs m0.st
    have hJ0 : ∃ J : Nat → Info,
        J = fun v => ((postFold P.graph.vinfo (m0.funcs.map (·.1)) m0.funcs m0.st).vals v).info := ⟨_, rfl⟩
    obtain ⟨J, hJdef⟩ := hJ0
    have e1 : m0.funcs.foldl (applyExpFunc P.graph.vinfo (m0.funcs.map (·.1))) m0.st =
        postFold P.graph.vinfo (m0.funcs.map (·.1)) m0.funcs m0.st := rfl
    rw [e1, hpost] at hd
    have hm : m = withInfo m0 J := by
      rw [← hd, hJdef]
      rfl
    rw [hm]
    apply ir9_core m0 h0 J
    · intro v h
      rw [hJdef]
      show ((postFold P.graph.vinfo (m0.funcs.map (·.1)) m0.funcs m0.st).vals v).info = _
      rw [postFold_out _ _ v _ _ h]
    · intro f hf a ha b hb ht hn
      have := post_sameInfo m0 h0 P.graph.vinfo (m0.funcs.map (·.1)) f hf a b ha hb ht hn
      rw [hJdef]
      exact this

end IrVerif.Scope

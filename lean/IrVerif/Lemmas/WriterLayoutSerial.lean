/-
C09 on top of C07: the serial image of the planned single-file configuration IS C07's serial image
`Layout.serialImage (Layout.writesOf …)` of the same tensors — so C07's read-back theorems
(`C07_roundtrip`, `C07_readback_layout`) speak about the file the concurrent writer leaves.
-/
import IrVerif.Lemmas.WriterPlanWF
namespace IrVerif.WriterN
open IrVerif.Layout (Info computeInfos computeInfosFrom)

/-- the two models of `seek; write` agree (C07 pads up to the offset, C09 up to the end of the write) -/
theorem writeAt_eq_layout (f : List Nat) (off : Nat) (d : List Nat) :
    writeAt f off d = Layout.writeAt f off d := by
  by_cases hd : d = []
  · subst hd; simp [writeAt, Layout.writeAt]
  · have hlen : (writeAt f off d).length = (Layout.writeAt f off d).length := by
      rw [writeAt_length f off d hd, Layout.writeAt_length]; simp [hd]
    apply List.ext_getElem hlen
    intro k h1 h2
    have e1 : getB (writeAt f off d) k = (writeAt f off d)[k] := by simp [getB, h1]
    have e2 : (Layout.writeAt f off d).getD k 0 = (Layout.writeAt f off d)[k] := by
      simp [List.getD_eq_getElem?_getD, h2]
    rw [← e1, ← e2, writeAt_getB f off d k hd, Layout.writeAt_getD]
    simp only [getB, List.getD_eq_getElem?_getD]

theorem placeZip_get_od (file : Nat) (jobOf : Nat → Nat) :
    ∀ (infs : List Info) (sh : List TSpec) (k i : Nat) (t : Tensor),
      (placeZip file jobOf k infs sh)[i]? = some t →
        ∃ inf x, infs[i]? = some inf ∧ sh[i]? = some x ∧ t.off = inf.offset ∧ t.data = x.data ∧ t.file = file
  | [], _, _, _, _, h => by simp [placeZip] at h
  | _ :: _, [], _, _, _, h => by simp [placeZip] at h
  | inf :: infs, x :: sh, k, 0, t, h => by
      simp only [placeZip, List.getElem?_cons_zero, Option.some.injEq] at h
      subst h; exact ⟨inf, x, rfl, rfl, rfl, rfl, rfl⟩
  | inf :: infs, x :: sh, k, i + 1, t, h => by
      simp only [placeZip, List.getElem?_cons_succ] at h
      obtain ⟨inf', y, h1, h2, h3⟩ := placeZip_get_od file jobOf infs sh (k + 1) i t h
      exact ⟨inf', y, by simpa using h1, by simpa using h2, h3⟩

section single
variable (ts : List TSpec) (al : Option Nat) (athr workers capacity : Nat)

theorem cfgEmpty_single_files :
    (cfgEmpty (planSingle ts al athr workers capacity)).files = [[]] := by
  simp [cfgEmpty, planSingle]

/-- after the first `m` tensors the serial writer's file is C07's image of the first `m` writes -/
theorem single_serial_prefix : ∀ m, m ≤ ts.length →
    (List.range m).foldl (writeTask (cfgEmpty (planSingle ts al athr workers capacity))) [[]] =
      [Layout.applyWrites [] ((Layout.writesOf al athr (ts.map (·.data))).take m)]
  | 0, _ => by simp [Layout.applyWrites]
  | m + 1, hm => by
      rw [List.range_succ, List.foldl_append, single_serial_prefix m (by omega)]
      have hml : m < ts.length := by omega
      -- the m-th tensor of the configuration
      have hlen : m < (placeFile al athr 0 (fun k => k) ts).length := by rw [placeFile_length]; exact hml
      have hget : (placeFile al athr 0 (fun k => k) ts)[m]? = some (placeFile al athr 0 (fun k => k) ts)[m] :=
        List.getElem?_eq_getElem hlen
      obtain ⟨inf, x, h1, h2, h3, h4, h5⟩ := placeZip_get_od 0 (fun k => k) _ ts 0 m _ hget
      have hd : (cfgEmpty (planSingle ts al athr workers capacity)).tensors.getD m default =
          (placeFile al athr 0 (fun k => k) ts)[m] := by
        simp [cfgEmpty, planSingle, List.getD_eq_getElem?_getD, hget]
      -- the m-th write of C07's list
      have hw : (Layout.writesOf al athr (ts.map (·.data)))[m]? = some (inf.offset, x.data) := by
        have h1' : (computeInfos al athr ((ts.map (·.data)).map List.length))[m]? = some inf := by
          have : (ts.map (·.data)).map List.length = ts.map TSpec.nbytes := by
            simp [TSpec.nbytes, Function.comp_def]
          rw [this]; exact h1
        have h2' : (ts.map (·.data))[m]? = some x.data := by simp [h2]
        have hz : ((computeInfos al athr ((ts.map (·.data)).map List.length)).zip (ts.map (·.data)))[m]? =
            some (inf, x.data) := List.getElem?_zip_eq_some.2 ⟨h1', h2'⟩
        simp only [Layout.writesOf, List.getElem?_map, hz, Option.map_some]
      have htake : (Layout.writesOf al athr (ts.map (·.data))).take (m + 1) =
          (Layout.writesOf al athr (ts.map (·.data))).take m ++ [(inf.offset, x.data)] := by
        rw [List.take_add_one, hw]; rfl
      rw [htake]
      simp only [List.foldl_cons, List.foldl_nil, writeTask, hd, h5, h3, h4, Layout.applyWrites,
        List.foldl_append]
      simp [writeAt_eq_layout]

/-- **the serial image of the planned configuration is C07's serial image of the same tensors** -/
theorem planSingle_serial_eq_C07 :
    serialFiles (cfgEmpty (planSingle ts al athr workers capacity)) =
      [Layout.serialImage (Layout.writesOf al athr (ts.map (·.data)))] := by
  have hn : (cfgEmpty (planSingle ts al athr workers capacity)).n = ts.length := by
    simp [cfgEmpty, Cfg.n, planSingle, placeFile_length]
  unfold serialFiles
  rw [hn, cfgEmpty_single_files, single_serial_prefix ts al athr workers capacity ts.length (Nat.le_refl _)]
  have : (Layout.writesOf al athr (ts.map (·.data))).length ≤ ts.length := by
    simp [Layout.writesOf, Layout.computeInfos, Layout.computeInfosFrom_length]
  rw [List.take_of_length_le this]
  rfl

end single

end IrVerif.WriterN

import IrVerif.Lemmas.ScopeSerdeBridgeModel9e
/-!
The C02 bridge for models in the IR version < 10 format, part 6: `GOKM9` of every model deserialized from the fragment
`sharedSM9` (`C03_bridge_gok_model9`) and both directions (`C03_bridge_serde_model9`).
-/
namespace IrVerif.Bridge
open IrVerif.Proto IrVerif.Serde

theorem okG_mapTable (u : IRValue → IRValue) (lens : List Nat) (G : IRGraph)
    (hu : ∀ v ∈ G.table, (valOK (u v) && tensOK (u v)) = true) (hok : okG lens G = true) :
    okG lens (mapTable u G) = true := by
  cases G with
  | mk tbl inputs inits nodes outs name doc ops mp =>
  simp only [okG, Bool.and_eq_true] at hok
  obtain ⟨⟨⟨⟨_, h2⟩, h3⟩, h4⟩, h5⟩ := hok
  simp only [mapTable, okG, Bool.and_eq_true, List.length_map, h2, h3, h4, h5, and_true]
  rw [List.all_map, List.all_eq_true]
  intro v hv
  exact hu v hv

theorem mem_experimentalFor (V : List ValueInfoP) (d n : String) (e : String × ValueInfoP)
    (he : e ∈ experimentalFor V d n) : e.2 ∈ V := by
  simp only [experimentalFor, List.mem_filterMap] at he
  obtain ⟨vi, hvi, hh⟩ := he
  split at hh
  · split at hh
    · cases hh; exact hvi
    · cases hh
  · cases hh

theorem okF_postF (V : List ValueInfoP) (hV : ∀ vi ∈ V, wfType vi.type = true ∧ vi.metadata = []) (x : IRFunction)
    (hok : okF x = true) (hT : ∀ v ∈ x.graph.table, v = IRValue.blank v.name) : okF (postF V x) = true := by
  unfold postF
  split
  · simp only [okF, Bool.and_eq_true] at hok ⊢
    refine ⟨okG_mapTable _ [] x.graph ?_ hok.1, ?_⟩
    · intro v hv
      have hb := hT v hv
      unfold expUpd
      cases hf : findLast? (fun e => e.1 = v.name) (experimentalFor V x.domain x.name) with
      | none =>
        rw [hb]
        exact (OKv_blank v.name).val
      | some e =>
        obtain ⟨a, b⟩ := hV e.2 (mem_experimentalFor V _ _ e (findLast?_mem hf).1)
        rw [hb]
        exact (OKv_applyInfoT (v := IRValue.blank v.name) rfl rfl a b).val
    · cases hg : x.graph with
      | mk tbl inputs inits nodes outs name doc ops mp =>
        have := hok.2
        rw [hg] at this
        simpa [mapTable, IRGraph.outputs] using this
  · exact hok

theorem fnFacts_table {G : IRGraph} (h : FnFacts G) : ∀ v ∈ G.table, v = IRValue.blank v.name := by
  obtain ⟨T, n, xs, gouts, gname, doc, ops, mp, rfl, _, hT, _⟩ := h
  exact hT

/-- a model of the fragment in the IR version < 10 format: the main graph calls the function `d::f` and carries the
    experimental entry `d::f/b` for the function's node output `b` -/
def exampleModel9 : ModelP :=
  { irVersion := 9, producerName := "p", producerVersion := "", domain := "", modelVersion := 0, doc := "",
    opsetImport := [], metadata := [],
    graph := .mk "g" "" [.mk ["x"] ["y"] "n" "f" "d" "" "" [] [] []] []
      [⟨"x", .tensor (some 1) none "", "", []⟩] [⟨"y", .tensor (some 1) none "", "", []⟩]
      [⟨"d::f/b", .tensor (some 1) (some [⟨.value 2, ""⟩]) "", "", []⟩] [] [],
    functions := [{ name := "f", domain := "d", overload := "", doc := "", inputs := ["a"], outputs := ["b"],
                    attrNames := [], attrProtos := [],
                    nodes := [.mk ["a"] ["b", ""] "n" "Relu" "" "" "" [] [] []], opsetImport := [],
                    valueInfo := [], metadata := [] }],
    configuration := [] }

example : sharedSM9 exampleModel9 = true := by decide

end IrVerif.Bridge

namespace IrVerif.Scope
open IrVerif.Proto

/-- on the fragment `sharedSM9` every model C02 deserializes satisfies the hypothesis `GOKM9` of
    `C03_bridge_serialize_model9` -/
theorem C03_bridge_gok_model9 (m : Proto.ModelP) (h : Bridge.sharedSM9 m = true) (x : Serde.IRModel)
    (hx : Serde.desModel m = .ok x) : Bridge.GOKM9 x = true := by
  simp only [Bridge.sharedSM9, Bridge.sharedM9, Bridge.noValueMetaFull, Bridge.canonTensorsFull, Bool.and_eq_true,
    decide_eq_true_eq] at h
  obtain ⟨⟨⟨⟨⟨hwf, hver⟩, _⟩, hnm⟩, hct⟩, hside⟩ := h
  simp only [Serde.wfModel, Bool.and_eq_true] at hwf
  obtain ⟨⟨⟨⟨⟨⟨hg, hf⟩, _⟩, _⟩, hkeys⟩, _⟩, _⟩ := hwf
  have hV : m.graph.valueInfo.all Serde.wfVI = true := by
    cases hmg : m.graph with
    | mk name doc nodes inits inputs outputs vis quant md =>
      rw [hmg] at hg
      exact (Serde.graphWF_of_wf [] name doc nodes inits inputs outputs vis quant md hg).1.wfVis
  have hVm : ∀ vi ∈ m.graph.valueInfo, Serde.wfType vi.type = true ∧ vi.metadata = [] := by
    intro vi hvi
    have a := List.all_eq_true.1 hV vi hvi
    simp only [Serde.wfVI, Bool.and_eq_true] at a
    refine ⟨a.1, ?_⟩
    cases hmg : m.graph with
    | mk name doc nodes inits inputs outputs vis quant md =>
      rw [hmg] at hnm hvi
      simp only [Bridge.allG, Bridge.noValueMeta, Proto.GraphP.valueInfo, Bool.and_eq_true] at hnm
      have := List.all_eq_true.1 hnm.1.2 vi hvi
      simpa using this
  have hvis : ∀ f ∈ m.functions, f.valueInfo = [] := by
    intro f hfm
    have := List.all_eq_true.1 hf f hfm
    simp only [Serde.wfFunction, Bool.and_eq_true, Bool.or_eq_true, decide_eq_true_eq,
      List.isEmpty_iff] at this
    rcases this.2 with h10 | h10
    · omega
    · exact h10
  obtain ⟨g, g1, okg⟩ := Bridge.graph_gok [] [] rfl m.graph hg hnm hct
  obtain ⟨fs, f1, okfs, f4⟩ := Bridge.funcs_gok m.irVersion m.functions hf hside
  obtain ⟨fs', e1, e2, _, e4⟩ := Bridge.funcs_facts m.irVersion m.graph.valueInfo hV m.functions hf hvis
  rw [f1] at e1
  cases e1
  have hknd := Serde.nodupKeys_iff.1 hkeys
  have hdict : Serde.functionDict [] fs = fs := by
    rw [Serde.functionDict_append fs [] (by simpa [f4] using hknd)]; simp
  simp only [Serde.desModel, g1, f1, hdict, hver, if_true, e4, bind, Except.bind, Except.ok.injEq] at hx
  subst hx
  have hpost : (fs.map (Bridge.postF m.graph.valueInfo)).all Bridge.okF = true := by
    rw [List.all_map, List.all_eq_true]
    intro y hy
    exact Bridge.okF_postF m.graph.valueInfo hVm y (List.all_eq_true.1 okfs y hy)
      (Bridge.fnFacts_table (e2 y hy))
  simp only [Bridge.GOKM9, Bridge.GOKFull, (Bridge.setOpsets_inv g _).2.2.2.2, okg, hpost, Bool.and_self,
    Bool.true_and, decide_eq_true_eq]
  exact hver

/-- **C02 bridge for models in the IR version < 10 format, both directions**: for every model `m` of the decidable
    fragment `sharedSM9` the Scope model (`deserializeM9` / `serializeM9 true`, the code as it is) deserializes
    `absM m` to the abstraction of C02's IR model and serializes it to `absM` of C02's documented normal form
    `normModel m` (`C02_model`). -/
theorem C03_bridge_serde_model9 (m : Proto.ModelP) (h : Bridge.sharedSM9 m = true) :
    ∃ x w w', Serde.desModel m = .ok x ∧ Serde.serModel x = .ok (Serde.normModel m) ∧
      deserializeM9 (Bridge.absM m) = .ok w ∧ Bridge.coreOfM w = Bridge.absIRM x ∧
      serializeM9 true w = .ok (w', Bridge.absM (Serde.normModel m)) := by
  have hM : Bridge.sharedM9 m = true := by
    simp only [Bridge.sharedSM9, Bool.and_eq_true] at h; exact h.1.1.1
  have hwf : Serde.wfModel m = true := by
    simp only [Bridge.sharedM9, Bool.and_eq_true] at hM; exact hM.1.1
  obtain ⟨x, w, h1, h2, h3⟩ := C03_bridge_deserialize_model9 m hM
  obtain ⟨x', r1, r2⟩ := Serde.model_rt m hwf
  rw [h1] at r1
  cases r1
  obtain ⟨w', h4⟩ := C03_bridge_serialize_model9 x _ w (C03_bridge_gok_model9 m h x h1) r2 h3
  exact ⟨x, w, w', h1, r2, h2, h3, h4⟩

end IrVerif.Scope

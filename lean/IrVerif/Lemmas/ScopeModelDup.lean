/-
Models with functions whose identifiers are NOT distinct: `{func.identifier(): func for func in functions}`
keeps, for every identifier, the position of its first function and the graph of its last one.  Every
function is deserialized (its values stay in the store); the dict keeps a sub-family of them.  This file
shows that what `deserializeM` returns is `ReloadableM` with no hypothesis on the identifiers of the proto.
-/
import IrVerif.Lemmas.ScopeModel
namespace IrVerif.Scope

/-- the functions dict after inserting `l`, in order, into `d` -/
def fdictFold (d : List (FId × GraphT)) (l : List (FId × GraphT)) : List (FId × GraphT) :=
  l.foldl (fun d f => fdictInsert d f.1 f.2) d

theorem fdictFold_cons (d : List (FId × GraphT)) (f : FId × GraphT) (l : List (FId × GraphT)) :
    fdictFold d (f :: l) = fdictFold (fdictInsert d f.1 f.2) l := rfl

theorem fdictInsert_keys (d : List (FId × GraphT)) (k : FId) (g : GraphT) :
    (fdictInsert d k g).map (·.1) = if k ∈ d.map (·.1) then d.map (·.1) else d.map (·.1) ++ [k] := by
  induction d with
  | nil => simp [fdictInsert]
  | cons e r ih =>
    obtain ⟨k', g'⟩ := e
    by_cases h : k' = k
    · subst h
      simp [fdictInsert]
    · have h' : ¬ k = k' := fun e => h e.symm
      simp only [fdictInsert, h, if_false, List.map_cons, ih, List.mem_cons, h', false_or]
      split <;> simp

theorem fdictInsert_keys_nodup (d : List (FId × GraphT)) (k : FId) (g : GraphT)
    (h : (d.map (·.1)).Nodup) : ((fdictInsert d k g).map (·.1)).Nodup := by
  rw [fdictInsert_keys]
  split
  · exact h
  · rename_i hk
    rw [List.nodup_append]
    exact ⟨h, by simp, fun a ha b hb e => by simp at hb; subst hb; subst e; exact hk ha⟩

theorem fdictFold_keys_nodup : ∀ (l d : List (FId × GraphT)), (d.map (·.1)).Nodup →
    ((fdictFold d l).map (·.1)).Nodup
  | [], _, h => h
  | f :: l, d, h => by
    rw [fdictFold_cons]
    exact fdictFold_keys_nodup l _ (fdictInsert_keys_nodup d f.1 f.2 h)

/-- every entry of the dict after an insertion holds a graph that was there before, or the new graph -/
theorem fdictInsert_mem (d : List (FId × GraphT)) (k : FId) (g : GraphT) (f : FId × GraphT)
    (hf : f ∈ fdictInsert d k g) : (∃ f' ∈ d, f'.2 = f.2) ∨ f.2 = g := by
  induction d with
  | nil =>
    simp only [fdictInsert, List.mem_singleton] at hf
    subst hf
    exact .inr rfl
  | cons e r ih =>
    obtain ⟨k', g'⟩ := e
    simp only [fdictInsert] at hf
    split at hf
    · simp only [List.mem_cons] at hf
      rcases hf with rfl | hf
      · exact .inr rfl
      · exact .inl ⟨f, by simp [hf], rfl⟩
    · simp only [List.mem_cons] at hf
      rcases hf with rfl | hf
      · exact .inl ⟨(k', g'), by simp, rfl⟩
      · rcases ih hf with ⟨f', hf', e⟩ | e
        · exact .inl ⟨f', by simp [hf'], e⟩
        · exact .inr e

theorem fdictFold_mem : ∀ (l d : List (FId × GraphT)) (f : FId × GraphT), f ∈ fdictFold d l →
    (∃ f' ∈ d, f'.2 = f.2) ∨ (∃ f' ∈ l, f'.2 = f.2)
  | [], _, f, hf => .inl ⟨f, hf, rfl⟩
  | a :: l, d, f, hf => by
    rw [fdictFold_cons] at hf
    rcases fdictFold_mem l _ f hf with ⟨f', hf', e⟩ | ⟨f', hf', e⟩
    · rcases fdictInsert_mem d a.1 a.2 f' hf' with ⟨f'', hf'', e'⟩ | e'
      · exact .inl ⟨f'', hf'', e'.trans e⟩
      · exact .inr ⟨a, by simp, e'.symm.trans e⟩
    · exact .inr ⟨f', by simp [hf'], e⟩

section
variable (h : GraphT → List Nat)

theorem fdictInsert_flat_mem (d : List (FId × GraphT)) (k : FId) (g : GraphT) (x : Nat)
    (hx : x ∈ (fdictInsert d k g).flatMap fun f => h f.2) : x ∈ (d.flatMap fun f => h f.2) ∨ x ∈ h g := by
  simp only [List.mem_flatMap] at hx ⊢
  obtain ⟨f, hf, hx⟩ := hx
  rcases fdictInsert_mem d k g f hf with ⟨f', hf', e⟩ | e
  · exact .inl ⟨f', hf', e ▸ hx⟩
  · exact .inr (e ▸ hx)

theorem fdictInsert_flat_nodup (d : List (FId × GraphT)) (k : FId) (g : GraphT)
    (hn : ((d.flatMap fun f => h f.2) ++ h g).Nodup) : ((fdictInsert d k g).flatMap fun f => h f.2).Nodup := by
  induction d with
  | nil => simpa [fdictInsert] using hn
  | cons e r ih =>
    obtain ⟨k', g'⟩ := e
    simp only [List.flatMap_cons, List.append_assoc] at hn
    rw [List.nodup_append] at hn
    obtain ⟨n1, n2, n3⟩ := hn
    simp only [fdictInsert]
    split
    · simp only [List.flatMap_cons]
      rw [List.nodup_append] at n2
      rw [List.nodup_append]
      exact ⟨n2.2.1, n2.1, fun a ha b hb e => n2.2.2 b hb a ha e.symm⟩
    · simp only [List.flatMap_cons]
      rw [List.nodup_append]
      refine ⟨n1, ih n2, fun a ha b hb e => ?_⟩
      rcases fdictInsert_flat_mem h r k g b hb with hb | hb
      · exact n3 a ha b (by simp [hb]) e
      · exact n3 a ha b (by simp [hb]) e

theorem fdictFold_flat_mem : ∀ (l d : List (FId × GraphT)) (x : Nat),
    x ∈ ((fdictFold d l).flatMap fun f => h f.2) →
    x ∈ (d.flatMap fun f => h f.2) ∨ x ∈ (l.flatMap fun f => h f.2) := by
  intro l d x hx
  simp only [List.mem_flatMap] at hx ⊢
  obtain ⟨f, hf, hx⟩ := hx
  rcases fdictFold_mem l d f hf with ⟨f', hf', e⟩ | ⟨f', hf', e⟩
  · exact .inl ⟨f', hf', e ▸ hx⟩
  · exact .inr ⟨f', hf', e ▸ hx⟩

theorem fdictFold_flat_nodup : ∀ (l d : List (FId × GraphT)),
    ((d.flatMap fun f => h f.2) ++ (l.flatMap fun f => h f.2)).Nodup →
    ((fdictFold d l).flatMap fun f => h f.2).Nodup
  | [], d, hn => by simpa [fdictFold] using hn
  | a :: l, d, hn => by
    rw [fdictFold_cons]
    simp only [List.flatMap_cons] at hn
    rw [← List.append_assoc, List.nodup_append] at hn
    obtain ⟨n1, n2, n3⟩ := hn
    apply fdictFold_flat_nodup l
    rw [List.nodup_append]
    refine ⟨fdictInsert_flat_nodup h d a.1 a.2 n1, n2, fun x hx y hy e => ?_⟩
    rcases fdictInsert_flat_mem h d a.1 a.2 x hx with hx | hx
    · exact n3 x (by simp [hx]) y hy e
    · exact n3 x (by simp [hx]) y hy e
end

/-- `deser_repl_funcs` without the hypothesis that the identifiers are distinct: the dict is the fold of
    ALL deserialized functions, each of which is certified, and their values are allocated in order -/
theorem deser_all_funcs :
    ∀ (fps : List FuncP) (st : Store) (d0 : List (FId × GraphT)) (st' : Store) (d' : List (FId × GraphT)),
      Fresh st → deserFuncs st d0 fps = .ok (st', d') →
      Fresh st' ∧ st.nv ≤ st'.nv ∧ (∀ v, v < st.nv → (st'.vals v).name = (st.vals v).name) ∧ Prim st.nv st st' ∧
      ∀ (V : Nat → ValueS), NamesAgree V st' → (∀ v, st.nv ≤ v → v < st'.nv → CellAgree V st' v) →
        ∃ all, d' = fdictFold d0 all ∧ all.map (·.1) = fps.map (·.id) ∧ (∀ f ∈ all, (replF V f.2).ok) ∧
          Incr st.nv st'.nv (all.flatMap fun f => (replF V f.2).new)
  | [], st, d0, st', d', hf, h => by
    simp only [deserFuncs, Except.ok.injEq, Prod.mk.injEq] at h
    obtain ⟨rfl, rfl⟩ := h
    exact ⟨hf, Nat.le_refl _, fun _ _ => rfl, Prim.refl _ _, fun V _ _ => ⟨[], rfl, rfl, by simp, Incr.nil _ _⟩⟩
  | f :: fps, st, d0, st', d', hf, h => by
    simp only [deserFuncs] at h
    split at h
    · simp at h
    · rename_i st1 g h1
      obtain ⟨f1, le1, keep1, p1⟩ := deserFunction_frame f st st1 g hf h1
      obtain ⟨f2, le2, keep2, p2, rest⟩ := deser_all_funcs fps st1 (fdictInsert d0 f.id g) st' d' f1 h
      refine ⟨f2, Nat.le_trans le1 le2, fun v hv => by rw [keep2 v (Nat.lt_of_lt_of_le hv le1), keep1 v hv],
        p1.trans (p2.weaken le1), fun V hV hC => ?_⟩
      have hV1 : NamesAgree V st1 := fun v hv => by rw [hV v (Nat.lt_of_lt_of_le hv le2), keep2 v hv]
      obtain ⟨a1, a2⟩ := deser_repl_func f st st1 g hf h1 V hV1 (fun v hge hlt => by
        have := hC v hge (Nat.lt_of_lt_of_le hlt le2)
        rw [CellAgree, (p2.cell v hlt).1, (p2.cell v hlt).2] at this
        exact this)
      obtain ⟨all, e1, e2, e3, e4⟩ := rest V hV (fun v hge hlt => hC v (Nat.le_trans le1 hge) hlt)
      refine ⟨(f.id, g) :: all, by rw [e1]; rfl, by simp [e2], fun f' hf' => ?_, ?_⟩
      · simp only [List.mem_cons] at hf'
        rcases hf' with rfl | hf'
        · exact a1
        · exact e3 f' hf'
      · simp only [List.flatMap_cons]
        exact a2.append e4 le1 le2

/-- every deserialized model is reloadable — also when several `FunctionProto`s carry the same identifier
    (the functions the dict dropped leave their values in the store; the certificate only speaks about the
    functions that are kept) -/
theorem deserializeM_reloadable_all (P : ModelP) (m : MWorld) (h : deserializeM P = .ok m) : ReloadableM m := by
  simp only [deserializeM] at h
  split at h
  · simp at h
  · rename_i st g hg
    split at h
    · simp at h
    · rename_i st1 fs hfs
      simp only [Except.ok.injEq] at h
      subst h
      obtain ⟨f0, m0⟩ := deserGraph_struct P.graph {} [] st g (fun _ _ => rfl) (fun _ ht => by simp at ht) hg
      obtain ⟨f1, le1, keep1, p1, rest⟩ := deser_all_funcs P.funcs st [] st1 fs f0 hfs
      obtain ⟨all, e1, e2, e3, e4⟩ := rest st1.vals (fun _ _ => rfl) (fun _ _ _ => ⟨rfl, rfl⟩)
      subst e1
      obtain ⟨h1, h2⟩ := deser_repl_graph P.graph {} [] st g (fun _ _ => rfl) (fun _ ht => by simp at ht)
        (fun _ ht => by simp at ht) hg st1.vals (fun v hv => keep1 v hv)
        (fun v _ hlt => ⟨(p1.cell v hlt).1, (p1.cell v hlt).2⟩)
      have hnd := (h2.append e4 (Nat.zero_le _) le1).nodup
      rw [List.nodup_append] at hnd
      refine ⟨h1, fun f hf => ?_, ?_, fdictFold_keys_nodup all [] (by simp)⟩
      · rcases fdictFold_mem all [] f hf with ⟨f', hf', _⟩ | ⟨f', hf', e⟩
        · simp at hf'
        · exact e ▸ e3 f' hf'
      · show ((replG st1.vals [] g).new ++
          (fdictFold [] all).flatMap fun f => (replF st1.vals f.2).new).Nodup
        rw [List.nodup_append]
        refine ⟨hnd.1, fdictFold_flat_nodup (fun g => (replF st1.vals g).new) all [] (by simpa using hnd.2.1),
          fun a ha b hb e => ?_⟩
        rcases fdictFold_flat_mem (fun g => (replF st1.vals g).new) all [] b hb with hb | hb
        · simp at hb
        · exact hnd.2.2 a ha b hb e

end IrVerif.Scope

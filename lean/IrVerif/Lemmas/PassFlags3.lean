/-
C14 (deepening): flag honesty and idempotence of OutputFixPass on C05's pass model.
-/
import IrVerif.Model.PassFlags2
import IrVerif.Lemmas.SemOutputFix
namespace IrVerif.PassFlags
open IrVerif.Sem IrVerif.Passes

/-! ## no Identity node inserted: nothing changes -/

theorem ofixMulti_len0 : ∀ (outs seen : List VId) (next : Nat),
    (ofixMulti seen outs next).2.1.length = 0 → ofixMulti seen outs next = (outs, [], next)
  | [], _, _, _ => rfl
  | o :: rest, seen, next, h => by
    simp only [ofixMulti] at h ⊢
    split at h
    · simp at h
    · next hc =>
      have ih := ofixMulti_len0 rest (o :: seen) next h
      simp only [hc, Bool.false_eq_true, if_false, ih]

theorem ofixDirect_len0 (gi : List VId) : ∀ (outs : List VId) (next : Nat),
    (ofixDirect gi outs next).2.1.length = 0 → ofixDirect gi outs next = (outs, [], next)
  | [], _, _ => rfl
  | o :: rest, next, h => by
    simp only [ofixDirect] at h ⊢
    split at h
    · simp at h
    · next hc =>
      have ih := ofixDirect_len0 gi rest next h
      simp only [hc, Bool.false_eq_true, if_false, ih]

mutual
theorem ofixG_cnt0 (gi : List VId) : ∀ (g : Graph) (next : Nat),
    ofixCntG gi next g = 0 → ofixG gi next g = (g, next)
  | .mk inputs outputs inits nodes, next, h => by
    simp only [ofixCntG] at h
    have hn := ofixNodes_cnt0 gi nodes next (by omega)
    simp only [hn] at h
    have h1 := ofixMulti_len0 outputs [] next (by omega)
    simp only [h1, List.length_nil, Nat.add_zero] at h
    have h2 := ofixDirect_len0 gi outputs next (by omega)
    simp only [ofixG, hn, h1, h2, fixedInputs, List.filterMap_nil, List.foldl_nil, List.append_nil]
theorem ofixNodes_cnt0 (gi : List VId) : ∀ (ns : List Node) (next : Nat),
    ofixCntNodes gi next ns = 0 → ofixNodes gi next ns = (ns, next)
  | [], _, _ => rfl
  | .mk op attrs ins outs bodies :: ns, next, h => by
    simp only [ofixCntNodes] at h
    have hb := ofixBodies_cnt0 gi bodies next (by omega)
    simp only [hb] at h
    have hn := ofixNodes_cnt0 gi ns next (by omega)
    simp only [ofixNodes, hb, hn]
theorem ofixBodies_cnt0 (gi : List VId) : ∀ (bs : List Graph) (next : Nat),
    ofixCntBodies gi next bs = 0 → ofixBodies gi next bs = (bs, next)
  | [], _, _ => rfl
  | b :: bs, next, h => by
    simp only [ofixCntBodies] at h
    have hg := ofixG_cnt0 gi b next (by omega)
    simp only [hg] at h
    have hb := ofixBodies_cnt0 gi bs next (by omega)
    simp only [ofixBodies, hg, hb]
end

/-! ## after the pass every output list is duplicate free and holds no graph input -/

theorem multi_mem : ∀ (outs seen : List VId) (next : Nat) (x : VId),
    x ∈ (ofixMulti seen outs next).1 → x ∈ outs ∨ next ≤ x
  | [], _, _, x, h => by simp [ofixMulti] at h
  | o :: rest, seen, next, x, h => by
    simp only [ofixMulti] at h
    split at h
    · rcases List.mem_cons.1 h with h | h
      · right; exact Nat.le_of_eq h.symm
      · rcases multi_mem rest seen (next + 1) x h with h | h
        · left; exact List.mem_cons_of_mem _ h
        · right; exact Nat.le_of_succ_le h
    · rcases List.mem_cons.1 h with h | h
      · left; rw [h]; exact List.mem_cons_self
      · rcases multi_mem rest (o :: seen) next x h with h | h
        · left; exact List.mem_cons_of_mem _ h
        · right; exact h

theorem multi_clean : ∀ (outs seen : List VId) (next : Nat), (∀ o ∈ outs, o < next) → (∀ s ∈ seen, s < next) →
    (ofixMulti seen outs next).1.Nodup ∧ ∀ x ∈ (ofixMulti seen outs next).1, x ∉ seen
  | [], _, _, _, _ => by simp [ofixMulti]
  | o :: rest, seen, next, ho, hs => by
    have hrest : ∀ o' ∈ rest, o' < next := fun o' h => ho o' (List.mem_cons_of_mem _ h)
    simp only [ofixMulti]
    split
    · next hc =>
      have ih := multi_clean rest seen (next + 1) (fun o' h => Nat.lt_succ_of_lt (hrest o' h))
        (fun s h => Nat.lt_succ_of_lt (hs s h))
      have hnot : next ∉ (ofixMulti seen rest (next + 1)).1 := by
        intro hm
        rcases multi_mem rest seen (next + 1) next hm with h | h
        · exact absurd (hrest next h) (Nat.lt_irrefl _)
        · omega
      refine ⟨List.nodup_cons.2 ⟨hnot, ih.1⟩, fun x hx => ?_⟩
      rcases List.mem_cons.1 hx with hx | hx
      · intro hm; rw [hx] at hm; exact absurd (hs next hm) (Nat.lt_irrefl _)
      · exact ih.2 x hx
    · next hc =>
      have ih := multi_clean rest (o :: seen) next hrest (fun s h => by
        rcases List.mem_cons.1 h with h | h
        · rw [h]; exact ho o List.mem_cons_self
        · exact hs s h)
      refine ⟨List.nodup_cons.2 ⟨fun hm => ih.2 o hm List.mem_cons_self, ih.1⟩, fun x hx => ?_⟩
      rcases List.mem_cons.1 hx with hx | hx
      · rw [hx]; intro hm; exact hc (by simpa using hm)
      · intro hm; exact ih.2 x hx (List.mem_cons_of_mem _ hm)

theorem multi_of_clean : ∀ (l seen : List VId) (n : Nat), l.Nodup → (∀ x ∈ l, x ∉ seen) →
    ofixMulti seen l n = (l, [], n)
  | [], _, _, _, _ => rfl
  | o :: rest, seen, n, hnd, hd => by
    have hnd' := List.nodup_cons.1 hnd
    have ho : seen.contains o = false := by
      have := hd o List.mem_cons_self
      simpa using this
    have ih := multi_of_clean rest (o :: seen) n hnd'.2 (fun x hx hm => by
      rcases List.mem_cons.1 hm with hm | hm
      · rw [hm] at hx; exact hnd'.1 hx
      · exact hd x (List.mem_cons_of_mem _ hx) hm)
    simp only [ofixMulti, ho, Bool.false_eq_true, if_false, ih]

theorem direct_mem (gi : List VId) : ∀ (outs : List VId) (next : Nat) (x : VId),
    x ∈ (ofixDirect gi outs next).1 → (x ∈ outs ∧ x ∉ gi) ∨ next ≤ x
  | [], _, x, h => by simp [ofixDirect] at h
  | o :: rest, next, x, h => by
    simp only [ofixDirect] at h
    split at h
    · rcases List.mem_cons.1 h with h | h
      · right; exact Nat.le_of_eq h.symm
      · rcases direct_mem gi rest (next + 1) x h with h | h
        · left; exact ⟨List.mem_cons_of_mem _ h.1, h.2⟩
        · right; exact Nat.le_of_succ_le h
    · next hc =>
      rcases List.mem_cons.1 h with h | h
      · left; rw [h]; exact ⟨List.mem_cons_self, by simpa using hc⟩
      · rcases direct_mem gi rest next x h with h | h
        · left; exact ⟨List.mem_cons_of_mem _ h.1, h.2⟩
        · right; exact h

theorem direct_nodup (gi : List VId) : ∀ (outs : List VId) (next : Nat), outs.Nodup → (∀ o ∈ outs, o < next) →
    (ofixDirect gi outs next).1.Nodup
  | [], _, _, _ => by simp [ofixDirect]
  | o :: rest, next, hnd, ho => by
    have hnd' := List.nodup_cons.1 hnd
    have hrest : ∀ o' ∈ rest, o' < next := fun o' h => ho o' (List.mem_cons_of_mem _ h)
    simp only [ofixDirect]
    split
    · have ih := direct_nodup gi rest (next + 1) hnd'.2 (fun o' h => Nat.lt_succ_of_lt (hrest o' h))
      refine List.nodup_cons.2 ⟨fun hm => ?_, ih⟩
      rcases direct_mem gi rest (next + 1) next hm with h | h
      · exact absurd (hrest next h.1) (Nat.lt_irrefl _)
      · omega
    · have ih := direct_nodup gi rest next hnd'.2 hrest
      refine List.nodup_cons.2 ⟨fun hm => ?_, ih⟩
      rcases direct_mem gi rest next o hm with h | h
      · exact hnd'.1 h.1
      · exact absurd (Nat.lt_of_lt_of_le (ho o List.mem_cons_self) h) (Nat.lt_irrefl _)

theorem direct_of_clean (gi : List VId) : ∀ (l : List VId) (n : Nat), (∀ x ∈ l, x ∉ gi) →
    ofixDirect gi l n = (l, [], n)
  | [], _, _ => rfl
  | o :: rest, n, hd => by
    have ho : gi.contains o = false := by
      have := hd o List.mem_cons_self
      simpa using this
    have ih := direct_of_clean gi rest n (fun x hx => hd x (List.mem_cons_of_mem _ hx))
    simp only [ofixDirect, ho, Bool.false_eq_true, if_false, ih]

theorem multi_nobodies : ∀ (outs seen : List VId) (next : Nat), ∀ n ∈ (ofixMulti seen outs next).2.1, n.bodies = []
  | [], _, _, n, h => by simp [ofixMulti] at h
  | o :: rest, seen, next, n, h => by
    simp only [ofixMulti] at h
    split at h
    · rcases List.mem_cons.1 h with h | h
      · rw [h]; rfl
      · exact multi_nobodies rest seen (next + 1) n h
    · exact multi_nobodies rest (o :: seen) next n h

theorem direct_nobodies (gi : List VId) : ∀ (outs : List VId) (next : Nat), ∀ n ∈ (ofixDirect gi outs next).2.1, n.bodies = []
  | [], _, n, h => by simp [ofixDirect] at h
  | o :: rest, next, n, h => by
    simp only [ofixDirect] at h
    split at h
    · rcases List.mem_cons.1 h with h | h
      · rw [h]; rfl
      · exact direct_nobodies gi rest (next + 1) n h
    · exact direct_nobodies gi rest next n h

theorem ofixNodes_nobodies (gi : List VId) : ∀ (ns : List Node) (n' : Nat), (∀ n ∈ ns, n.bodies = []) →
    ofixCntNodes gi n' ns = 0 ∧ ofixNodes gi n' ns = (ns, n')
  | [], _, _ => ⟨rfl, rfl⟩
  | .mk op attrs ins outs bodies :: ns, n', h => by
    have hb : bodies = [] := h (.mk op attrs ins outs bodies) List.mem_cons_self
    subst hb
    have ih := ofixNodes_nobodies gi ns n' (fun n hn => h n (List.mem_cons_of_mem _ hn))
    refine ⟨?_, ?_⟩ <;> simp [ofixCntNodes, ofixCntBodies, ofixBodies, ofixNodes, ih.1, ih.2]

theorem ofixCntNodes_append (gi : List VId) : ∀ (a b : List Node) (n : Nat),
    ofixCntNodes gi n (a ++ b) = ofixCntNodes gi n a + ofixCntNodes gi (ofixNodes gi n a).2 b
  | [], b, n => by simp [ofixCntNodes, ofixNodes]
  | .mk op attrs ins outs bodies :: a, b, n => by
    simp only [List.cons_append, ofixCntNodes, ofixNodes, ofixCntNodes_append gi a b]
    omega

mutual
theorem ofixG_clean (gi : List VId) : ∀ (g : Graph) (next : Nat), (∀ v ∈ gi, v < next) →
    (∀ v ∈ boutsG g, v < next) → ∀ n', ofixCntG gi n' (ofixG gi next g).1 = 0
  | .mk inputs outputs inits nodes, next, hgi, hb, n' => by
    have hbo : ∀ v ∈ outputs, v < next := fun v hv => hb v (by simp [boutsG, hv])
    have hbn : ∀ v ∈ boutsNodes nodes, v < next := fun v hv => hb v (by simp [boutsG, hv])
    have hm := ofixNodes_mono gi nodes next
    have ho1 : ∀ o ∈ outputs, o < (ofixNodes gi next nodes).2 := fun o ho => Nat.lt_of_lt_of_le (hbo o ho) hm
    have hmm := ofixMulti_mono outputs [] (ofixNodes gi next nodes).2
    have hc1 := multi_clean outputs [] (ofixNodes gi next nodes).2 ho1 (by simp)
    have hlt1 := ofixMulti_lt outputs [] (ofixNodes gi next nodes).2 ho1
    have hnd2 := direct_nodup gi _ _ hc1.1 hlt1
    have hng : ∀ x ∈ (ofixDirect gi (ofixMulti [] outputs (ofixNodes gi next nodes).2).1
        (ofixMulti [] outputs (ofixNodes gi next nodes).2).2.2).1, x ∉ gi := by
      intro x hx hg
      rcases direct_mem gi _ _ x hx with h | h
      · exact h.2 hg
      · exact absurd (Nat.lt_of_lt_of_le (hgi x hg) (Nat.le_trans hm (Nat.le_trans hmm h))) (Nat.lt_irrefl _)
    have ihn := ofixNodes_clean gi nodes next hgi hbn
    -- the node list of the result
    have hcn : ∀ n'', ofixCntNodes gi n'' (ofixG gi next (.mk inputs outputs inits nodes)).1.nodes = 0 ∧
        ofixNodes gi n'' (ofixG gi next (.mk inputs outputs inits nodes)).1.nodes =
          ((ofixG gi next (.mk inputs outputs inits nodes)).1.nodes, n'') := by
      intro n''
      have hz : ofixCntNodes gi n'' (ofixG gi next (.mk inputs outputs inits nodes)).1.nodes = 0 := by
        simp only [ofixG, Graph.nodes, List.append_assoc]
        rw [ofixCntNodes_append, ihn n'', ofixNodes_cnt0 gi _ n'' (ihn n'')]
        simp only [Nat.zero_add]
        exact (ofixNodes_nobodies gi _ n'' (fun n hn => by
          rcases List.mem_append.1 hn with hn | hn
          · exact multi_nobodies _ _ _ n hn
          · exact direct_nobodies gi _ _ n hn)).1
      exact ⟨hz, ofixNodes_cnt0 gi _ n'' hz⟩
    have hg : (ofixG gi next (.mk inputs outputs inits nodes)).1 =
        .mk inputs (ofixDirect gi (ofixMulti [] outputs (ofixNodes gi next nodes).2).1
            (ofixMulti [] outputs (ofixNodes gi next nodes).2).2.2).1
          (ofixG gi next (.mk inputs outputs inits nodes)).1.inits
          (ofixG gi next (.mk inputs outputs inits nodes)).1.nodes := by
      simp only [ofixG, Graph.inits, Graph.nodes]
    rw [hg]
    simp only [ofixCntG, (hcn n').1, (hcn n').2, multi_of_clean _ [] n' hnd2 (by simp),
      direct_of_clean gi _ n' hng]
    rfl
theorem ofixNodes_clean (gi : List VId) : ∀ (ns : List Node) (next : Nat), (∀ v ∈ gi, v < next) →
    (∀ v ∈ boutsNodes ns, v < next) → ∀ n', ofixCntNodes gi n' (ofixNodes gi next ns).1 = 0
  | [], _, _, _, _ => rfl
  | .mk op attrs ins outs bodies :: ns, next, hgi, hb, n' => by
    have hm := ofixBodies_mono gi bodies next
    have ihb := ofixBodies_clean gi bodies next hgi (fun v hv => hb v (by simp [boutsNodes, boutsN, hv]))
    have ihn := ofixNodes_clean gi ns (ofixBodies gi next bodies).2
      (fun v hv => Nat.lt_of_lt_of_le (hgi v hv) hm)
      (fun v hv => Nat.lt_of_lt_of_le (hb v (by simp [boutsNodes, hv])) hm)
    simp only [ofixNodes, ofixCntNodes, ihb n', ihn]
theorem ofixBodies_clean (gi : List VId) : ∀ (bs : List Graph) (next : Nat), (∀ v ∈ gi, v < next) →
    (∀ v ∈ boutsBodies bs, v < next) → ∀ n', ofixCntBodies gi n' (ofixBodies gi next bs).1 = 0
  | [], _, _, _, _ => rfl
  | b :: bs, next, hgi, hb, n' => by
    have hm := ofixG_mono gi b next
    have ihg := ofixG_clean gi b next hgi (fun v hv => hb v (by simp [boutsBodies, hv]))
    have ihb := ofixBodies_clean gi bs (ofixG gi next b).2
      (fun v hv => Nat.lt_of_lt_of_le (hgi v hv) hm)
      (fun v hv => Nat.lt_of_lt_of_le (hb v (by simp [boutsBodies, hv])) hm)
    simp only [ofixBodies, ofixCntBodies, ihg n', ihb]
end

/-! ## graph inputs are untouched -/

theorem ginsNodes_append : ∀ (a b : List Node), ginsNodes (a ++ b) = ginsNodes a ++ ginsNodes b
  | [], _ => rfl
  | .mk op attrs ins outs bodies :: a, b => by
    simp only [List.cons_append, ginsNodes, ginsNodes_append a b, List.append_assoc]

theorem ginsNodes_nobodies : ∀ (ns : List Node), (∀ n ∈ ns, n.bodies = []) → ginsNodes ns = []
  | [], _ => rfl
  | .mk op attrs ins outs bodies :: ns, h => by
    have hb : bodies = [] := h (.mk op attrs ins outs bodies) List.mem_cons_self
    subst hb
    simp only [ginsNodes, ginsBodies, List.nil_append]
    exact ginsNodes_nobodies ns (fun n hn => h n (List.mem_cons_of_mem _ hn))

mutual
theorem ofixG_gins (gi : List VId) : ∀ (g : Graph) (next : Nat), ginsG (ofixG gi next g).1 = ginsG g
  | .mk inputs outputs inits nodes, next => by
    have h1 : ginsNodes (ofixMulti [] outputs (ofixNodes gi next nodes).2).2.1 = [] :=
      ginsNodes_nobodies _ (multi_nobodies _ _ _)
    have h2 : ginsNodes (ofixDirect gi (ofixMulti [] outputs (ofixNodes gi next nodes).2).1
        (ofixMulti [] outputs (ofixNodes gi next nodes).2).2.2).2.1 = [] :=
      ginsNodes_nobodies _ (direct_nobodies gi _ _)
    simp only [ofixG, ginsG, ginsNodes_append, ofixNodes_gins gi nodes next, h1, h2, List.append_nil]
theorem ofixNodes_gins (gi : List VId) : ∀ (ns : List Node) (next : Nat), ginsNodes (ofixNodes gi next ns).1 = ginsNodes ns
  | [], _ => rfl
  | .mk op attrs ins outs bodies :: ns, next => by
    simp only [ofixNodes, ginsNodes, ofixBodies_gins gi bodies next, ofixNodes_gins gi ns]
theorem ofixBodies_gins (gi : List VId) : ∀ (bs : List Graph) (next : Nat), ginsBodies (ofixBodies gi next bs).1 = ginsBodies bs
  | [], _ => rfl
  | b :: bs, next => by
    simp only [ofixBodies, ginsBodies, ofixG_gins gi b next, ofixBodies_gins gi bs]
end

mutual
theorem ginsG_sub_defs {v : VId} : ∀ g : Graph, v ∈ ginsG g → v ∈ defsG g
  | .mk inputs outputs inits nodes, h => by
    simp only [ginsG, List.mem_append] at h
    simp only [defsG, List.mem_append]
    rcases h with h | h
    · exact Or.inl (Or.inl h)
    · exact Or.inr (ginsNodes_sub_defs nodes h)
theorem ginsNodes_sub_defs {v : VId} : ∀ ns : List Node, v ∈ ginsNodes ns → v ∈ defsNodes ns
  | [], h => by simp [ginsNodes] at h
  | .mk op attrs ins outs bodies :: ns, h => by
    simp only [ginsNodes, List.mem_append] at h
    simp only [defsNodes, defsN, List.mem_append]
    rcases h with h | h
    · exact Or.inl (Or.inr (ginsBodies_sub_defs bodies h))
    · exact Or.inr (ginsNodes_sub_defs ns h)
theorem ginsBodies_sub_defs {v : VId} : ∀ bs : List Graph, v ∈ ginsBodies bs → v ∈ defsBodies bs
  | [], h => by simp [ginsBodies] at h
  | b :: bs, h => by
    simp only [ginsBodies, List.mem_append] at h
    simp only [defsBodies, List.mem_append]
    rcases h with h | h
    · exact Or.inl (ginsG_sub_defs b h)
    · exact Or.inr (ginsBodies_sub_defs bs h)
end

end IrVerif.PassFlags

/-
Iteration over a well-formed structure: a cursor parked on a node (root or live box) yields the
values of the boxes that follow it; `toList` is the value list of the live boxes.
-/
import IrVerif.Lemmas.LinkedSetOps
namespace IrVerif.LinkedSet

/-- value stored in a box (0 when erased; only used on live boxes) -/
def vl (s : LSet) (b : Nat) : Nat := (val s b).getD 0

/-- one-directional links -/
def HopLinks (s : LSet) (d : Dir) : List Nat → Prop
  | x :: y :: r => hop s d x = y ∧ HopLinks s d (y :: r)
  | _ => True

theorem HopLinks_cons2 (s : LSet) (d : Dir) (x y : Nat) (r : List Nat) :
    HopLinks s d (x :: y :: r) ↔ hop s d x = y ∧ HopLinks s d (y :: r) := by simp [HopLinks]

theorem Links.hopFwd {s : LSet} : ∀ (l : List Nat), Links s l → HopLinks s .fwd l
  | [], _ => by simp [HopLinks]
  | [_], _ => by simp [HopLinks]
  | x :: y :: r, h => by
      rw [Links_cons2] at h
      rw [HopLinks_cons2]
      exact ⟨h.1, Links.hopFwd (y :: r) h.2.2⟩

theorem HopLinks_append_rev {s : LSet} : ∀ (l : List Nat) (x y : Nat),
    HopLinks s .rev (l ++ [x]) → pv s x = y → HopLinks s .rev (l ++ [x, y])
  | [], x, y, _, e => by simp [HopLinks, hop, e]
  | [a], x, y, h, e => by
      simp only [List.cons_append, List.nil_append, HopLinks_cons2] at h ⊢
      exact ⟨h.1, by simp [HopLinks, hop, e]⟩
  | a :: b :: l, x, y, h, e => by
      simp only [List.cons_append, HopLinks_cons2] at h ⊢
      exact ⟨h.1, by simpa using HopLinks_append_rev (b :: l) x y (by simpa using h.2) e⟩

theorem Links.hopRev {s : LSet} : ∀ (l : List Nat), Links s l → HopLinks s .rev l.reverse
  | [], _ => by simp [HopLinks]
  | [_], _ => by simp [HopLinks]
  | x :: y :: r, h => by
      rw [Links_cons2] at h
      have ih := Links.hopRev (y :: r) h.2.2
      simp only [List.reverse_cons, List.append_assoc, List.cons_append, List.nil_append] at ih ⊢
      exact HopLinks_append_rev r.reverse y x ih h.2.1

/-- the live boxes in the order direction `d` visits them -/
def seqD (d : Dir) (bs : List Nat) : List Nat :=
  match d with
  | .fwd => bs
  | .rev => bs.reverse

theorem Inv.hopLinks {s : LSet} {bs : List Nat} (h : Inv s bs) (d : Dir) :
    HopLinks s d (0 :: seqD d bs ++ [0]) := by
  cases d with
  | fwd => exact Links.hopFwd _ h.links
  | rev =>
    have := Links.hopRev _ h.links
    simpa [seqD] using this

theorem scan_node {s : LSet} {bs : List Nat} (h : Inv s bs) (d : Dir) (f y : Nat) (hy : y ∈ bs) :
    scan s d (f + 1) y = (.at y, .yield (vl s y)) := by
  have hl := h.live y hy
  have hy0 : y ≠ 0 := by omega
  obtain ⟨v, hv⟩ := Option.isSome_iff_exists.mp hl.2.2
  simp [scan, hy0, h.owned y, hv, vl]

theorem scan_root (s : LSet) (d : Dir) (f : Nat) : scan s d (f + 1) 0 = (.done, .stop) := by
  simp [scan]

theorem iterNext_of_pos (s : LSet) (d : Dir) (c : Cursor) (hc : c ≠ .done) :
    iterNext s d c = scan s d (size s + 1) (hop s d c.pos) := by
  cases c <;> simp_all [iterNext]

/-- a cursor parked on `x` whose successors are the live boxes `l` yields exactly their values -/
theorem drain_links {s : LSet} {bs : List Nat} (h : Inv s bs) (d : Dir) :
    ∀ (l : List Nat) (c : Cursor) (f : Nat), c ≠ .done →
      HopLinks s d (c.pos :: l ++ [0]) → (∀ y ∈ l, y ∈ bs) → l.length < f →
      drain s d f c = (l.map (vl s), .stop)
  | [], c, f, hc, hl, _, hf => by
      obtain ⟨f, rfl⟩ : ∃ g, f = g + 1 := ⟨f - 1, by simp at hf; omega⟩
      simp only [List.cons_append, List.nil_append, HopLinks_cons2] at hl
      simp [drain, iterNext_of_pos s d c hc, hl.1, scan_root]
  | y :: l, c, f, hc, hl, hm, hf => by
      obtain ⟨f, rfl⟩ : ∃ g, f = g + 1 := ⟨f - 1, by simp at hf; omega⟩
      simp only [List.cons_append, HopLinks_cons2] at hl
      have ih := drain_links h d l (.at y) f (by simp) (by simpa [Cursor.pos] using hl.2)
        (fun z hz => hm z (by simp [hz])) (by simp at hf; omega)
      simp [drain, iterNext_of_pos s d c hc, hl.1, scan_node h d (size s) y (hm y (by simp)), ih]

theorem Inv.length_le {s : LSet} {bs : List Nat} (h : Inv s bs) : bs.length < size s + 1 := by
  have := h.clk; have := h.len; omega

theorem Inv.rest_notStarted {s : LSet} {bs : List Nat} (h : Inv s bs) (d : Dir) :
    drain s d (size s + 1) .notStarted = ((seqD d bs).map (vl s), .stop) := by
  apply drain_links h d (seqD d bs) .notStarted _ (by simp) (by simpa [Cursor.pos] using h.hopLinks d)
  · intro y hy; cases d <;> simpa [seqD] using hy
  · have := h.length_le; cases d <;> simpa [seqD] using this

theorem Inv.toList_eq {s : LSet} {bs : List Nat} (h : Inv s bs) : toList s = bs.map (vl s) := by
  simp [toList, rest, h.rest_notStarted .fwd, seqD]

theorem Inv.toListRev_eq {s : LSet} {bs : List Nat} (h : Inv s bs) :
    toListRev s = (bs.map (vl s)).reverse := by
  simp [toListRev, rest, h.rest_notStarted .rev, seqD, List.map_reverse]

theorem nodup_map_of_inj_on {f : Nat → Nat} : ∀ (l : List Nat), l.Nodup →
    (∀ a ∈ l, ∀ b ∈ l, f a = f b → a = b) → (l.map f).Nodup
  | [], _, _ => by simp
  | x :: l, hn, hi => by
      simp only [List.nodup_cons] at hn
      simp only [List.map_cons, List.nodup_cons, List.mem_map, not_exists, not_and]
      refine ⟨?_, nodup_map_of_inj_on l hn.2 (fun a ha b hb => hi a (by simp [ha]) b (by simp [hb]))⟩
      intro y hy e
      have := hi y (by simp [hy]) x (by simp) e
      subst this; exact hn.1 hy

/-- values of distinct live boxes are distinct -/
theorem Inv.vals_nodup {s : LSet} {bs : List Nat} (h : Inv s bs) : (bs.map (vl s)).Nodup := by
  apply nodup_map_of_inj_on _ h.nodup
  intro a ha b hb e
  obtain ⟨va, hva⟩ := Option.isSome_iff_exists.mp (h.live a ha).2.2
  obtain ⟨vb, hvb⟩ := Option.isSome_iff_exists.mp (h.live b hb).2.2
  simp only [vl, hva, hvb, Option.getD_some] at e
  subst e
  exact h.val_inj ha hb hva hvb

theorem Inv.val_eq_vl {s : LSet} {bs : List Nat} (h : Inv s bs) {b : Nat} (hb : b ∈ bs) :
    val s b = some (vl s b) := by
  obtain ⟨v, hv⟩ := Option.isSome_iff_exists.mp (h.live b hb).2.2
  simp [vl, hv]

theorem Inv.mem_toList {s : LSet} {bs : List Nat} (h : Inv s bs) (v : Nat) :
    v ∈ toList s ↔ ∃ b ∈ bs, val s b = some v := by
  rw [h.toList_eq, List.mem_map]
  constructor
  · rintro ⟨b, hb, rfl⟩; exact ⟨b, hb, h.val_eq_vl hb⟩
  · rintro ⟨b, hb, hv⟩; exact ⟨b, hb, by simp [vl, hv]⟩

end IrVerif.LinkedSet

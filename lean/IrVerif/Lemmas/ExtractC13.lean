/-
C18 follow-up: the clone stage of `extract` against C13's scope walker.

`cloneGO` (Model/Extract.lean) is C18's model of `GraphView.clone()` as far as it decides "raised": the keys of
the cloner's value map, the generation of the clone a key maps to, the clones a finished graph owns.  C13 has
the full heap-level model of the cloner and the decidable scope walker `cloneVerdict` with
`C13_clone_succeeds` (walker accepts => the heap-level clone returns).  This file proves that on every C13 heap
that REPRESENTS the view (`RepG`: same value ids, same lists, graph-valued attributes in order), is regular
(`RegG`: values are value cells with their metadata containers and a non-empty name, initializer names
distinct) and on which no node output is already a key of the value map when its node is cloned (`nrG`:
C13's walker makes no claim there), acceptance by `cloneGO` implies acceptance by the walker.
-/
import IrVerif.Model.Clone
import IrVerif.Lemmas.ExtractSucceeds
import IrVerif.Lemmas.ExtractHyp
namespace IrVerif.Extract
open IrVerif.Clone (Sc WRes wFold wAll)

abbrev Heap := Clone.World

@[simp] theorem wres_ok_bind {α β : Type} (a : α) (f : α → WRes β) : (WRes.ok a).bind f = f a := rfl

/-! ## regular values -/

/-- `v` is a value cell whose shape / type / metadata containers are cells of the right kind, with a
    non-empty name -/
def RegVal (w : Heap) (v : Nat) : Prop :=
  ∃ vs, w[v]? = some (Clone.Cell.val vs) ∧ Clone.wOptShape w vs.shape = .ok () ∧
    Clone.wOptType w vs.type = .ok () ∧ Clone.wDict w vs.props = .ok () ∧ Clone.wDict w vs.mstore = .ok () ∧
    ∃ nm, vs.name = some nm ∧ nm ≠ ""

theorem wCloneOrGet_reg {w : Heap} {v : Nat} (h : RegVal w v) (A : Sc) :
    Clone.wCloneOrGet w v A = .ok (if A.bound.contains v then A else { A with bound := v :: A.bound }) := by
  obtain ⟨vs, hc, h1, h2, h3, h4, _⟩ := h
  unfold Clone.wCloneOrGet
  by_cases hb : A.bound.contains v = true
  · rw [if_pos hb, if_pos hb]
  · rw [if_neg hb, if_neg hb]
    simp only [Clone.wVal, Clone.wCell, hc, wres_ok_bind, h1, h2, h3, h4]

theorem wOutput_reg {w : Heap} {o : Nat} (h : RegVal w o) (A : Sc) (hb : A.bound.contains o = false) :
    Clone.wOutput w o A = .ok { A with bound := o :: A.bound, pend := A.pend.filter (· != o) } := by
  obtain ⟨vs, hc, h1, h2, h3, h4, _⟩ := h
  unfold Clone.wOutput
  simp only [Clone.wVal, Clone.wCell, hc, wres_ok_bind, h1, h2, h3, h4, hb, Bool.false_eq_true, if_false]

theorem wName_reg {w : Heap} {v : Nat} (h : RegVal w v) : ∃ nm, Clone.wName w v = some nm ∧ nm ≠ "" := by
  obtain ⟨vs, hc, _, _, _, _, nm, hn, hne⟩ := h
  exact ⟨nm, by simp [Clone.wName, hc, hn], hne⟩

theorem wFold_cloneOrGet {w : Heap} : ∀ (l : List Nat) (A : Sc), (∀ v, v ∈ l → RegVal w v) →
    ∃ A', wFold (Clone.wCloneOrGet w) l A = .ok A' ∧ (∀ v, v ∈ A'.bound ↔ v ∈ A.bound ∨ v ∈ l) ∧
      A'.owned = A.owned ∧ A'.produced = A.produced
  | [], A, _ => ⟨A, rfl, by simp, rfl, rfl⟩
  | a :: l, A, h => by
    have ha := wCloneOrGet_reg (h a List.mem_cons_self) A
    obtain ⟨A', h1, h2, h3, h4⟩ := wFold_cloneOrGet l
      (if A.bound.contains a then A else { A with bound := a :: A.bound })
      (fun v hv => h v (List.mem_cons_of_mem _ hv))
    refine ⟨A', by rw [wFold, ha]; exact h1, ?_, ?_, ?_⟩
    · intro v
      rw [h2 v]
      by_cases hb : A.bound.contains a = true
      · simp only [hb, if_true, List.mem_cons]
        have : a ∈ A.bound := by simpa using hb
        constructor
        · rintro (h' | h')
          · exact Or.inl h'
          · exact Or.inr (Or.inr h')
        · rintro (h' | rfl | h')
          · exact Or.inl h'
          · exact Or.inl this
          · exact Or.inr h'
      · simp only [hb, Bool.false_eq_true, if_false, List.mem_cons]
        constructor
        · rintro ((rfl | h') | h')
          · exact Or.inr (Or.inl rfl)
          · exact Or.inl h'
          · exact Or.inr (Or.inr h')
        · rintro (h' | rfl | h')
          · exact Or.inl (Or.inr h')
          · exact Or.inl (Or.inl rfl)
          · exact Or.inr h'
    · rw [h3]; split <;> rfl
    · rw [h4]; split <;> rfl

theorem wFold_output {w : Heap} : ∀ (l : List Nat) (A : Sc), (∀ o, o ∈ l → RegVal w o) → l.Nodup →
    (∀ o, o ∈ l → ¬ o ∈ A.bound) →
    ∃ A', wFold (Clone.wOutput w) l A = .ok A' ∧ (∀ v, v ∈ A'.bound ↔ v ∈ A.bound ∨ v ∈ l) ∧
      A'.owned = A.owned ∧ A'.produced = A.produced
  | [], A, _, _, _ => ⟨A, rfl, by simp, rfl, rfl⟩
  | a :: l, A, h, hnd, hnb => by
    have hb : A.bound.contains a = false := by simpa using hnb a List.mem_cons_self
    have ha := wOutput_reg (h a List.mem_cons_self) A hb
    obtain ⟨A', h1, h2, h3, h4⟩ := wFold_output l
      { A with bound := a :: A.bound, pend := A.pend.filter (· != a) }
      (fun v hv => h v (List.mem_cons_of_mem _ hv)) (List.nodup_cons.mp hnd).2
      (by
        intro o ho hmem
        simp only [List.mem_cons] at hmem
        rcases hmem with rfl | hmem
        · exact (List.nodup_cons.mp hnd).1 ho
        · exact hnb o (List.mem_cons_of_mem _ ho) hmem)
    refine ⟨A', by rw [wFold, ha]; exact h1, ?_, h3, h4⟩
    intro v
    rw [h2 v]
    simp only [List.mem_cons]
    constructor
    · rintro ((rfl | h') | h')
      · exact Or.inr (Or.inl rfl)
      · exact Or.inl h'
      · exact Or.inr (Or.inr h')
    · rintro (h' | rfl | h')
      · exact Or.inl (Or.inr h')
      · exact Or.inl (Or.inl rfl)
      · exact Or.inr h'

theorem wFold_append {α : Type} (f : α → Sc → WRes Sc) : ∀ (l1 l2 : List α) (A : Sc),
    wFold f (l1 ++ l2) A = (wFold f l1 A).bind (wFold f l2)
  | [], l2, A => rfl
  | a :: l1, l2, A => by
    simp only [List.cons_append, wFold]
    cases f a A with
    | ok A1 => simp only [wres_ok_bind]; exact wFold_append f l1 l2 A1
    | err e => rfl
    | irregular why => rfl

theorem wAll_of {α : Type} {f : α → WRes Unit} : ∀ {l : List α}, (∀ a, a ∈ l → f a = .ok ()) → wAll f l = .ok ()
  | [], _ => rfl
  | a :: l, h => by
    rw [wAll, h a List.mem_cons_self]
    simp only [wres_ok_bind]
    exact wAll_of (fun b hb => h b (List.mem_cons_of_mem _ hb))

theorem wMapInputs_ok (A : Sc) : ∀ (l : List (Option Nat)), (∀ v, some v ∈ l → v ∈ A.bound) →
    Clone.wMapInputs false A l = .ok ()
  | [], _ => rfl
  | none :: l, h => by
    rw [Clone.wMapInputs]; exact wMapInputs_ok A l (fun v hv => h v (List.mem_cons_of_mem _ hv))
  | some v :: l, h => by
    have : A.bound.contains v = true := by simpa using h v List.mem_cons_self
    rw [Clone.wMapInputs, if_pos this]
    exact wMapInputs_ok A l (fun v hv => h v (List.mem_cons_of_mem _ hv))

theorem wPassthrough_ok (w : Heap) (A : Sc) : ∀ (l : List (Option Nat)), (∀ v, some v ∈ l → v ∈ A.bound) →
    Clone.wPassthrough w A l = .ok ()
  | [], _ => rfl
  | none :: l, h => by
    rw [Clone.wPassthrough]; exact wPassthrough_ok w A l (fun v hv => h v (List.mem_cons_of_mem _ hv))
  | some v :: l, h => by
    have : A.bound.contains v = true := by simpa using h v List.mem_cons_self
    rw [Clone.wPassthrough, if_pos this]
    exact wPassthrough_ok w A l (fun v hv => h v (List.mem_cons_of_mem _ hv))

/-! ## graph-valued attributes of a node cell, in attribute order -/

def attrGraphs (w : Heap) : List (String × Nat) → Option (List Nat)
  | [] => some []
  | ka :: rest =>
    match w[ka.2]? with
    | some (Clone.Cell.attr as) =>
      (attrGraphs w rest).map (fun r =>
        (match as.v with
         | .graph g => [g]
         | .graphs gs => gs
         | _ => []) ++ r)
    | _ => none

theorem wFold_attrs (w : Heap) (rec : Nat → Sc → WRes Sc) : ∀ (attrs : List (String × Nat)) (gl : List Nat) (A : Sc),
    attrGraphs w attrs = some gl →
    wFold (fun (ka : String × Nat) => Clone.wAttr w rec ka.2) attrs A = wFold rec gl A
  | [], gl, A, h => by
    simp only [attrGraphs, Option.some.injEq] at h
    subst h; rfl
  | ka :: rest, gl, A, h => by
    rw [attrGraphs] at h
    split at h
    · rename_i as hc
      cases hr : attrGraphs w rest with
      | none => rw [hr] at h; simp at h
      | some r =>
        rw [hr] at h
        simp only [Option.map_some, Option.some.injEq] at h
        subst h
        rw [wFold, wFold_append]
        have ih := fun A1 => wFold_attrs w rec rest r A1 hr
        have hattr : Clone.wAttr w rec ka.2 A = wFold rec (match as.v with
            | .graph g => [g]
            | .graphs gs => gs
            | _ => []) A := by
          unfold Clone.wAttr
          simp only [Clone.wAttrCell, Clone.wCell, hc, wres_ok_bind]
          cases as.v with
          | graph g => simp only [wFold]; cases rec g A <;> rfl
          | graphs gs => rfl
          | plain p => rfl
          | ref p => rfl
        rw [hattr]
        cases wFold rec (match as.v with
            | .graph g => [g]
            | .graphs gs => gs
            | _ => []) A with
        | ok A1 => simp only [wres_ok_bind]; exact ih A1
        | err e => rfl
        | irregular why => rfl
    · cases h

/-! ## a heap represents a tree; regularity; depth; no re-binding -/

mutual
  /-- the graph cell `g` of the heap is the tree: same value ids in the input / initializer / output lists, its
      node cells represent the nodes in order -/
  def RepG (w : Heap) : GraphT → Nat → Prop
    | .mk _ ins inits outs ns, g =>
      ∃ gs, w[g]? = some (Clone.Cell.graph gs) ∧ gs.inputs = ins ∧ gs.inits.map (·.2) = inits ∧
        gs.outputs = outs ∧ Clone.wDict w gs.props = .ok () ∧ Clone.wDict w gs.mstore = .ok () ∧
        RepNs w ns gs.nodes
  def RepNs (w : Heap) : List NodeT → List Nat → Prop
    | [], is => is = []
    | n :: ns, is => ∃ i rest, is = i :: rest ∧ RepN w n i ∧ RepNs w ns rest
  /-- the node cell: same inputs and outputs, its graph-valued attributes (GRAPH: one, GRAPHS: its members,
      other attributes: none) are, in order, the cells of the bodies; no device configuration -/
  def RepN (w : Heap) : NodeT → Nat → Prop
    | .mk ins outs bs, i =>
      ∃ nsr gl, w[i]? = some (Clone.Cell.node nsr) ∧ nsr.inputs = ins ∧ nsr.outputs = outs ∧
        attrGraphs w nsr.attrs = some gl ∧ nsr.dev = [] ∧ Clone.wDict w nsr.props = .ok () ∧
        Clone.wDict w nsr.mstore = .ok () ∧ RepGs w bs gl
  def RepGs (w : Heap) : List GraphT → List Nat → Prop
    | [], gl => gl = []
    | b :: bs, gl => ∃ g rest, gl = g :: rest ∧ RepG w b g ∧ RepGs w bs rest
end

mutual
  /-- graph inputs, initializers and node outputs at any depth are regular values; initializer names of a
      graph are pairwise distinct -/
  def RegG (w : Heap) : GraphT → Prop
    | .mk _ ins inits _ ns =>
      (∀ v, v ∈ ins ++ inits → RegVal w v) ∧ Clone.distinct (inits.filterMap (Clone.wName w)) = true ∧
      RegNs w ns
  def RegNs (w : Heap) : List NodeT → Prop
    | [] => True
    | n :: ns => RegN w n ∧ RegNs w ns
  def RegN (w : Heap) : NodeT → Prop
    | .mk _ outs bs => (∀ o, o ∈ outs → RegVal w o) ∧ RegGs w bs
  def RegGs (w : Heap) : List GraphT → Prop
    | [] => True
    | b :: bs => RegG w b ∧ RegGs w bs
end

mutual
  def depthG : GraphT → Nat
    | .mk _ _ _ _ ns => depthNs ns + 1
  def depthNs : List NodeT → Nat
    | [] => 0
    | n :: ns => max (depthN n) (depthNs ns)
  def depthN : NodeT → Nat
    | .mk _ _ bs => depthGs bs
  def depthGs : List GraphT → Nat
    | [] => 0
    | b :: bs => max (depthG b) (depthGs bs)
end

mutual
  /-- no node output is already a key of the value map when its node is cloned (the map threaded as `cloneG`
      does), and a node lists an output once: where this fails C13's walker makes no claim (the cloner binds a
      second clone for the key) -/
  def nrG (m : List VId) : GraphT → Prop
    | .mk _ ins inits _ ns => nrNs (m ++ ins ++ inits) ns
  def nrNs (m : List VId) : List NodeT → Prop
    | [] => True
    | n :: ns => nrN m n ∧ (∀ m1, cloneN m n = .ok m1 → nrNs m1 ns)
  def nrN (m : List VId) : NodeT → Prop
    | .mk _ outs bs => nrGs m bs ∧ outs.Nodup ∧ (∀ m1, cloneGs m bs = .ok m1 → ∀ o, o ∈ outs → ¬ o ∈ m1)
  def nrGs (m : List VId) : List GraphT → Prop
    | [] => True
    | b :: bs => nrG m b ∧ (∀ m1, cloneG m b = .ok m1 → nrGs m1 bs)
end

/-! ## the simulation -/

structure SimSt (s : CSt) (A : Sc) : Prop where
  bnd : ∀ v, v ∈ A.bound ↔ v ∈ s.m
  own : ∀ v, v ∈ A.owned ↔ (v, s.outs.count v) ∈ s.owned
  cur : ∀ c, c ∈ s.owned → c.2 = s.outs.count c.1
  prod : ∀ v, v ∈ A.produced ↔ v ∈ s.outs
  ownB : ∀ v, v ∈ A.owned → v ∈ s.m

/-- what a traversal keeps: keys stay keys, and the clone of a key that was bound is not replaced -/
def Ext (s s' : CSt) : Prop :=
  (∀ v, v ∈ s.m → v ∈ s'.m) ∧ (∀ v, v ∈ s.m → s'.outs.count v = s.outs.count v)

theorem Ext.refl (s : CSt) : Ext s s := ⟨fun _ h => h, fun _ _ => rfl⟩
theorem Ext.trans {a b c : CSt} (h1 : Ext a b) (h2 : Ext b c) : Ext a c :=
  ⟨fun v hv => h2.1 v (h1.1 v hv), fun v hv => by rw [h2.2 v (h1.1 v hv), h1.2 v hv]⟩

theorem cloneGO_m {s s' : CSt} {g : GraphT} (h : cloneGO s g = .ok s') : cloneG s.m g = .ok s'.m := by
  have := cloneGO_rel g s; rw [h] at this; exact this
theorem cloneGsO_m {s s' : CSt} {gs : List GraphT} (h : cloneGsO s gs = .ok s') : cloneGs s.m gs = .ok s'.m := by
  have := cloneGsO_rel gs s; rw [h] at this; exact this
theorem cloneNO_m {s s' : CSt} {n : NodeT} (h : cloneNO s n = .ok s') : cloneN s.m n = .ok s'.m := by
  have := cloneNO_rel n s; rw [h] at this; exact this

theorem wAllOutputs_rep {w : Heap} : ∀ (ns : List NodeT) (is : List Nat), RepNs w ns is →
    ∃ l, Clone.wAllOutputs w is = .ok l
  | [], is, h => by
    simp only [RepNs] at h; subst h; exact ⟨[], rfl⟩
  | n :: ns, is, h => by
    simp only [RepNs] at h
    obtain ⟨i, rest, rfl, hn, hrest⟩ := h
    obtain ⟨l, hl⟩ := wAllOutputs_rep ns rest hrest
    cases n with
    | mk ins outs bs =>
      simp only [RepN] at hn
      obtain ⟨nsr, gl, hc, _⟩ := hn
      exact ⟨nsr.outputs ++ l, by
        simp only [Clone.wAllOutputs, Clone.wNodeCell, Clone.wCell, hc, wres_ok_bind, hl]⟩

theorem nodesNamed_rep {w : Heap} : ∀ (ns : List NodeT) (is : List Nat), RepNs w ns is → RegNs w ns →
    wAll (fun n => (Clone.wNodeCell w n).bind fun nsr =>
      wAll (fun o => if (Clone.wName w o).isNone then WRes.err (.unsupported "unnamed value (name authority)")
        else WRes.ok ()) nsr.outputs) is = .ok ()
  | [], is, h, _ => by
    simp only [RepNs] at h; subst h; rfl
  | n :: ns, is, h, hr => by
    simp only [RepNs] at h
    obtain ⟨i, rest, rfl, hn, hrest⟩ := h
    simp only [RegNs] at hr
    have ih := nodesNamed_rep ns rest hrest hr.2
    cases n with
    | mk ins outs bs =>
      simp only [RepN] at hn
      obtain ⟨nsr, gl, hc, _, houts, _⟩ := hn
      simp only [RegN] at hr
      rw [wAll]
      simp only [Clone.wNodeCell, Clone.wCell, hc, wres_ok_bind]
      have : wAll (fun o => if (Clone.wName w o).isNone then WRes.err (.unsupported "unnamed value (name authority)")
          else WRes.ok ()) nsr.outputs = .ok () := by
        apply wAll_of
        intro o ho
        rw [houts] at ho
        obtain ⟨nm, hn, _⟩ := wName_reg (hr.1.1 o ho)
        simp [hn]
      rw [this]
      simp only [wres_ok_bind]
      exact ih


theorem wMkGraph_ok {w : Heap} {gs : Clone.GraphS} {A : Sc}
    (hreg : ∀ v, v ∈ gs.inputs ++ gs.inits.map (·.2) → RegVal w v)
    (hdist : Clone.distinct ((gs.inits.map (·.2)).filterMap (Clone.wName w)) = true)
    (hd1 : Clone.wDict w gs.props = .ok ()) (hd2 : Clone.wDict w gs.mstore = .ok ())
    (hin : ∀ v, v ∈ gs.inputs → ¬ v ∈ A.owned ∧ ¬ v ∈ A.produced)
    (hout : ∀ v, v ∈ gs.outputs → ¬ v ∈ A.owned)
    (hinit : ∀ v, v ∈ gs.inits.map (·.2) → ¬ v ∈ A.owned ∧ ¬ v ∈ A.produced)
    (hnamed : wAll (fun n => (Clone.wNodeCell w n).bind fun nsr =>
      wAll (fun o => if (Clone.wName w o).isNone then WRes.err (.unsupported "unnamed value (name authority)")
        else WRes.ok ()) nsr.outputs) gs.nodes = .ok ()) :
    Clone.wMkGraph w gs A =
      .ok { A with owned := A.owned ++ gs.inputs ++ gs.outputs ++ gs.inits.map (·.2) } := by
  have e2 : wAll (fun v => if A.owned.contains v then WRes.err (.raised "input owned by a different graph")
      else if A.produced.contains v then WRes.err (.raised "input is produced by a node") else WRes.ok ())
      gs.inputs = .ok () := by
    apply wAll_of
    intro v hv
    have := hin v hv
    simp [this.1, this.2]
  have e3 : wAll (fun v => if A.owned.contains v then WRes.err (.raised "value owned by a different graph")
      else WRes.ok ()) gs.outputs = .ok () := by
    apply wAll_of
    intro v hv
    simp [hout v hv]
  have e4 : wAll (fun v => if A.owned.contains v then WRes.err (.raised "value owned by a different graph")
      else WRes.ok ()) (gs.inits.map (·.2)) = .ok () := by
    apply wAll_of
    intro v hv
    simp [(hinit v hv).1]
  have e5 : wAll (fun v => if Clone.wName w v = some "" then WRes.err (.raised "initializer with an empty name")
      else if A.produced.contains v then WRes.err (.raised "initializer produced by a node") else WRes.ok ())
      (gs.inits.map (·.2)) = .ok () := by
    apply wAll_of
    intro v hv
    obtain ⟨nm, hn, hne⟩ := wName_reg (hreg v (List.mem_append_right _ hv))
    have h1 : ¬ (Clone.wName w v = some "") := by rw [hn]; simpa using hne
    simp [h1, (hinit v hv).2]
  have e6 : wAll (fun v => if (Clone.wName w v).isNone then WRes.err (.unsupported "unnamed value (name authority)")
      else WRes.ok ()) gs.inputs = .ok () := by
    apply wAll_of
    intro v hv
    obtain ⟨nm, hn, _⟩ := wName_reg (hreg v (List.mem_append_left _ hv))
    simp [hn]
  have key : ∀ (F : Nat → WRes Unit), (∀ v, v ∈ gs.inits.map (·.2) → F v = .ok ()) →
      ∀ k : Unit → WRes Sc, (wAll F (gs.inits.map (·.2))).bind k = k () := by
    intro F hF k; rw [wAll_of hF]; rfl
  unfold Clone.wMkGraph
  simp only [e2, e3, e4, e5, e6, hnamed, hdist, hd1, hd2, wres_ok_bind, if_true]
  refine Eq.trans (key _ ?_ _) rfl
  intro v hv
  obtain ⟨nm, hn, _⟩ := wName_reg (hreg v (List.mem_append_right _ hv))
  simp [hn]


theorem count_append_of_not_mem {v : Nat} {l outs : List Nat} (h : ¬ v ∈ outs) :
    (l ++ outs).count v = l.count v := by
  rw [List.count_append, List.count_eq_zero_of_not_mem h, Nat.add_zero]

/-- what the first five steps of `wGraphStep` and of `cloneGO` establish (shared by the success and the error
    simulation): inputs and initializers are keys, the pending outputs are read off the node cells -/
theorem simG_prefix {w : Heap} {gs : Clone.GraphS} {ns : List NodeT} {inits : List VId} {s : CSt} {A : Sc}
    (hinits : gs.inits.map (·.2) = inits) (hns : RepNs w ns gs.nodes)
    (hrv : ∀ v, v ∈ gs.inputs ++ inits → RegVal w v) (hsim : SimSt s A) :
    ∃ A1 A2 ol, wFold (Clone.wCloneOrGet w) gs.inputs A = .ok A1 ∧
      wFold (Clone.wCloneOrGet w) (gs.inits.map (·.2)) A1 = .ok A2 ∧ Clone.wAllOutputs w gs.nodes = .ok ol ∧
      SimSt { s with m := s.m ++ gs.inputs ++ inits } { A2 with pend := A2.pend ++ ol } := by
  have hrv1 : ∀ v, v ∈ gs.inputs → RegVal w v := fun v hv => hrv v (List.mem_append_left _ hv)
  have hrv2 : ∀ v, v ∈ gs.inits.map (·.2) → RegVal w v :=
    fun v hv => hrv v (List.mem_append_right _ (by rw [← hinits]; exact hv))
  obtain ⟨A1, hA1, hb1, ho1, hp1⟩ := wFold_cloneOrGet (w := w) gs.inputs A hrv1
  obtain ⟨A2, hA2, hb2, ho2, hp2⟩ := wFold_cloneOrGet (w := w) (gs.inits.map (·.2)) A1 hrv2
  obtain ⟨ol, hol⟩ := wAllOutputs_rep ns gs.nodes hns
  refine ⟨A1, A2, ol, hA1, hA2, hol, ?_, ?_, ?_, ?_, ?_⟩
  · intro v
    show v ∈ A2.bound ↔ v ∈ s.m ++ gs.inputs ++ inits
    rw [hb2 v, hb1 v, hsim.bnd v, hinits]
    simp only [List.mem_append]
  · intro v
    show v ∈ A2.owned ↔ (v, s.outs.count v) ∈ s.owned
    rw [ho2, ho1]; exact hsim.own v
  · exact hsim.cur
  · intro v
    show v ∈ A2.produced ↔ v ∈ s.outs
    rw [hp2, hp1]; exact hsim.prod v
  · intro v hv
    have : v ∈ A.owned := by
      have : v ∈ A2.owned := hv
      rw [ho2, ho1] at this; exact this
    show v ∈ s.m ++ gs.inputs ++ inits
    simp only [List.mem_append]
    exact Or.inl (Or.inl (hsim.ownB v this))

/-- the node-output step of `wNode` and of `cloneNO` -/
theorem simN_outputs {s s1 : CSt} {A A1 A2 : Sc} {outs outsr : List Nat} (houts : outsr = outs)
    (hsim1 : SimSt s1 A1) (hext1 : Ext s s1)
    (hnb : ∀ o, o ∈ outs → ¬ o ∈ s1.m)
    (hb2 : ∀ v, v ∈ A2.bound ↔ v ∈ A1.bound ∨ v ∈ outsr) (ho2 : A2.owned = A1.owned)
    (hp2 : A2.produced = A1.produced) :
    SimSt { s1 with m := s1.m ++ outs, outs := s1.outs ++ outs }
      { A2 with produced := outsr.reverse ++ A2.produced } ∧
    Ext s { s1 with m := s1.m ++ outs, outs := s1.outs ++ outs } := by
  subst houts
  have hcurv : ∀ c, c ∈ s1.owned → ¬ c.1 ∈ outsr := by
    intro c hc ho
    have hcc := hsim1.cur c hc
    have : (c.1, s1.outs.count c.1) ∈ s1.owned := by rw [← hcc]; exact hc
    exact hnb c.1 ho (hsim1.ownB c.1 ((hsim1.own c.1).mpr this))
  refine ⟨⟨?_, ?_, ?_, ?_, ?_⟩, ?_, ?_⟩
  · intro v
    show v ∈ A2.bound ↔ v ∈ s1.m ++ outsr
    rw [hb2 v, hsim1.bnd v, List.mem_append]
  · intro v
    show v ∈ A2.owned ↔ (v, (s1.outs ++ outsr).count v) ∈ s1.owned
    rw [ho2]
    constructor
    · intro hv1
      have hno : ¬ v ∈ outsr := fun ho => hnb v ho (hsim1.ownB v hv1)
      rw [count_append_of_not_mem hno]
      exact (hsim1.own v).mp hv1
    · intro hv1
      have hno : ¬ v ∈ outsr := hcurv _ hv1
      rw [count_append_of_not_mem hno] at hv1
      exact (hsim1.own v).mpr hv1
  · intro c hc
    show c.2 = (s1.outs ++ outsr).count c.1
    rw [count_append_of_not_mem (hcurv c hc)]
    exact hsim1.cur c hc
  · intro v
    show v ∈ outsr.reverse ++ A2.produced ↔ v ∈ s1.outs ++ outsr
    rw [List.mem_append, List.mem_reverse, hp2, List.mem_append, hsim1.prod v]
    constructor
    · rintro (h | h)
      · exact Or.inr h
      · exact Or.inl h
    · rintro (h | h)
      · exact Or.inr h
      · exact Or.inl h
  · intro v hv
    have hv1 : v ∈ A1.owned := by
      have : v ∈ A2.owned := hv
      rw [ho2] at this; exact this
    show v ∈ s1.m ++ outsr
    exact List.mem_append_left _ (hsim1.ownB v hv1)
  · intro v hv
    show v ∈ s1.m ++ outsr
    exact List.mem_append_left _ (hext1.1 v hv)
  · intro v hv
    show (s1.outs ++ outsr).count v = s.outs.count v
    have hno : ¬ v ∈ outsr := fun ho => hnb v ho (hext1.1 v hv)
    rw [count_append_of_not_mem hno]
    exact hext1.2 v hv

/-- the model's ownership condition against the walker's, at the construction of a graph -/
theorem bad_iff {s s2 : CSt} {A4 : Sc} {ins inits outs : List Nat} (hsim4 : SimSt s2 A4)
    (hcnt : ∀ v, v ∈ ins ++ inits → s2.outs.count v = s.outs.count v) :
    (∀ v, v ∈ ins ++ inits → ((s2.owned.contains (s.cur v) || (s.cur v).2 != 0) = true ↔
        (v ∈ A4.owned ∨ v ∈ A4.produced))) ∧
    (∀ v, v ∈ outs → (s2.owned.contains (s2.cur v) = true ↔ v ∈ A4.owned)) := by
  constructor
  · intro v hv
    have hc := hcnt v hv
    simp only [Bool.or_eq_true, List.contains_eq_mem, decide_eq_true_eq, bne_iff_ne, ne_eq, CSt.cur]
    rw [hsim4.own v, hsim4.prod v, hc]
    constructor
    · rintro (h | h)
      · exact Or.inl h
      · right
        rw [← hc] at h
        exact List.count_pos_iff.mp (Nat.pos_of_ne_zero h)
    · rintro (h | h)
      · exact Or.inl h
      · right
        rw [← hc]
        exact Nat.pos_iff_ne_zero.mp (List.count_pos_iff.mpr h)
  · intro v _
    simp only [List.contains_eq_mem, decide_eq_true_eq, CSt.cur]
    exact (hsim4.own v).symm

mutual
  theorem simG (w : Heap) : ∀ (t : GraphT) (fuel g : Nat) (s s' : CSt) (A : Sc),
      RepG w t g → RegG w t → depthG t ≤ fuel → nrG s.m t → SimSt s A → cloneGO s t = .ok s' →
      ∃ A', Clone.wGraph w false fuel g A = .ok A' ∧ SimSt s' A' ∧ Ext s s'
    | .mk gid ins inits outs ns, fuel, g, s, s', A, hrep, hreg, hd, hnr, hsim, h => by
      cases fuel with
      | zero => simp [depthG] at hd
      | succ f =>
        simp only [RepG] at hrep
        obtain ⟨gs, hc, hins, hinits, houts, hd1, hd2, hns⟩ := hrep
        simp only [RegG] at hreg
        obtain ⟨hrv, hdist, hrns⟩ := hreg
        simp only [depthG] at hd
        simp only [nrG] at hnr
        rw [cloneGO] at h
        simp only [] at h
        cases hN : cloneNsO { s with m := s.m ++ ins ++ inits } ns with
        | error e => rw [hN] at h; cases h
        | ok s2 =>
          rw [hN] at h
          simp only [] at h
          split at h
          · rename_i hall
            split at h
            · cases h
            · rename_i hgood
              cases h
              subst hins houts
              obtain ⟨A1, A2, ol, hA1, hA2, hol, hsim1⟩ := simG_prefix hinits hns hrv hsim
              obtain ⟨A4, hA4, hsim4, hext⟩ := simNs w ns gs.nodes f { s with m := s.m ++ gs.inputs ++ inits } s2
                { A2 with pend := A2.pend ++ ol } hns hrns (by omega) hnr hsim1 hN
              -- the clone of a listed input / initializer is the one captured at the start
              have hcnt : ∀ v, v ∈ gs.inputs ++ inits → s2.outs.count v = s.outs.count v := by
                intro v hv
                apply hext.2 v
                show v ∈ s.m ++ gs.inputs ++ inits
                simp only [List.mem_append] at hv ⊢
                rcases hv with hv | hv
                · exact Or.inl (Or.inr hv)
                · exact Or.inr hv
              obtain ⟨hbi, hbo⟩ := bad_iff (s := s) (outs := gs.outputs) hsim4 hcnt
              have hg : ((∀ x, x ∈ gs.inputs → ¬ s.cur x ∈ s2.owned ∧ (s.cur x).2 = 0) ∧
                  (∀ x, x ∈ gs.outputs → ¬ s2.cur x ∈ s2.owned)) ∧
                  (∀ x, x ∈ inits → ¬ s.cur x ∈ s2.owned ∧ (s.cur x).2 = 0) := by
                simpa [Bool.or_eq_false_iff, Bool.or_eq_true, not_or] using hgood
              have hin : ∀ v, v ∈ gs.inputs ++ inits → ¬ v ∈ A4.owned ∧ ¬ v ∈ A4.produced := by
                intro v hv
                have hgv : ¬ s.cur v ∈ s2.owned ∧ (s.cur v).2 = 0 := by
                  rcases List.mem_append.mp hv with hv' | hv'
                  · exact hg.1.1 v hv'
                  · exact hg.2 v hv'
                have hnot : ¬ (v ∈ A4.owned ∨ v ∈ A4.produced) := by
                  intro hbad
                  have := (hbi v hv).mpr hbad
                  simp only [Bool.or_eq_true, List.contains_eq_mem, decide_eq_true_eq, bne_iff_ne, ne_eq] at this
                  rcases this with h' | h'
                  · exact hgv.1 h'
                  · exact h' hgv.2
                exact ⟨fun h' => hnot (Or.inl h'), fun h' => hnot (Or.inr h')⟩
              have hmk := wMkGraph_ok (w := w) (gs := gs) (A := A4)
                (by intro v hv; rw [hinits] at hv; exact hrv v hv)
                (by rw [hinits]; exact hdist) hd1 hd2
                (fun v hv => hin v (List.mem_append_left _ hv))
                (by
                  intro v hv ho
                  exact hg.1.2 v hv (by simpa using (hbo v hv).mpr ho))
                (fun v hv => hin v (List.mem_append_right _ (by rw [← hinits]; exact hv)))
                (nodesNamed_rep ns gs.nodes hns hrns)
              have houtsB : wAll (fun v => if A4.bound.contains v then WRes.ok ()
                  else WRes.err (.raised "graph output is not in the value map")) gs.outputs = .ok () := by
                apply wAll_of
                intro v hv
                have : v ∈ s2.m := by simpa using List.all_eq_true.mp hall v hv
                have : v ∈ A4.bound := (hsim4.bnd v).mpr this
                simp [this]
              refine ⟨{ A4 with owned := A4.owned ++ gs.inputs ++ gs.outputs ++ gs.inits.map (·.2) }, ?_, ?_, ?_⟩
              · rw [Clone.wGraph]
                simp only [Clone.wGraphStep, Clone.wGraphCell, Clone.wCell, hc, wres_ok_bind, hA1, hA2, hol, hA4,
                  houtsB]
                exact hmk
              · refine ⟨hsim4.bnd, ?_, ?_, hsim4.prod, ?_⟩
                · intro v
                  show v ∈ A4.owned ++ gs.inputs ++ gs.outputs ++ gs.inits.map (·.2) ↔
                    (v, s2.outs.count v) ∈ s2.owned ++ gs.inputs.map s.cur ++ gs.outputs.map s2.cur ++ inits.map s.cur
                  rw [hinits]
                  simp only [List.mem_append, List.mem_map, CSt.cur, Prod.mk.injEq]
                  constructor
                  · rintro (((hv' | hv') | hv') | hv')
                    · exact Or.inl (Or.inl (Or.inl ((hsim4.own v).mp hv')))
                    · exact Or.inl (Or.inl (Or.inr ⟨v, hv', rfl, (hcnt v (List.mem_append_left _ hv')).symm⟩))
                    · exact Or.inl (Or.inr ⟨v, hv', rfl, rfl⟩)
                    · exact Or.inr ⟨v, hv', rfl, (hcnt v (List.mem_append_right _ hv')).symm⟩
                  · rintro (((hv' | ⟨v', hv', rfl, _⟩) | ⟨v', hv', rfl, _⟩) | ⟨v', hv', rfl, _⟩)
                    · exact Or.inl (Or.inl (Or.inl ((hsim4.own v).mpr hv')))
                    · exact Or.inl (Or.inl (Or.inr hv'))
                    · exact Or.inl (Or.inr hv')
                    · exact Or.inr hv'
                · intro c hc'
                  have hc2 : c ∈ s2.owned ++ gs.inputs.map s.cur ++ gs.outputs.map s2.cur ++ inits.map s.cur := hc'
                  show c.2 = s2.outs.count c.1
                  simp only [List.mem_append, List.mem_map, CSt.cur] at hc2
                  rcases hc2 with ((hc2 | ⟨v, hv, rfl⟩) | ⟨v, hv, rfl⟩) | ⟨v, hv, rfl⟩
                  · exact hsim4.cur c hc2
                  · exact (hcnt v (List.mem_append_left _ hv)).symm
                  · rfl
                  · exact (hcnt v (List.mem_append_right _ hv)).symm
                · intro v hv
                  show v ∈ s2.m
                  have hv' : v ∈ A4.owned ++ gs.inputs ++ gs.outputs ++ gs.inits.map (·.2) := hv
                  simp only [List.mem_append] at hv'
                  rcases hv' with ((hv' | hv') | hv') | hv'
                  · exact hsim4.ownB v hv'
                  · apply hext.1 v
                    show v ∈ s.m ++ gs.inputs ++ inits
                    simp only [List.mem_append]; exact Or.inl (Or.inr hv')
                  · simpa using List.all_eq_true.mp hall v hv'
                  · rw [hinits] at hv'
                    apply hext.1 v
                    show v ∈ s.m ++ gs.inputs ++ inits
                    simp only [List.mem_append]; exact Or.inr hv'
              · constructor
                · intro v hv
                  apply hext.1 v
                  show v ∈ s.m ++ gs.inputs ++ inits
                  simp only [List.mem_append]; exact Or.inl (Or.inl hv)
                · intro v hv
                  apply hext.2 v
                  show v ∈ s.m ++ gs.inputs ++ inits
                  simp only [List.mem_append]; exact Or.inl (Or.inl hv)
          · cases h
  theorem simNs (w : Heap) : ∀ (ns : List NodeT) (is : List Nat) (f : Nat) (s s' : CSt) (A : Sc),
      RepNs w ns is → RegNs w ns → depthNs ns ≤ f → nrNs s.m ns → SimSt s A → cloneNsO s ns = .ok s' →
      ∃ A', wFold (Clone.wNode w false (Clone.wGraph w false f)) is A = .ok A' ∧ SimSt s' A' ∧ Ext s s'
    | [], is, f, s, s', A, hrep, _, _, _, hsim, h => by
      simp only [RepNs] at hrep
      subst hrep
      rw [cloneNsO] at h
      cases h
      exact ⟨A, rfl, hsim, Ext.refl s⟩
    | n :: ns, is, f, s, s', A, hrep, hreg, hd, hnr, hsim, h => by
      simp only [RepNs] at hrep
      obtain ⟨i, rest, rfl, hn, hrest⟩ := hrep
      simp only [RegNs] at hreg
      simp only [depthNs] at hd
      simp only [nrNs] at hnr
      rw [cloneNsO] at h
      cases hN : cloneNO s n with
      | error e => rw [hN] at h; cases h
      | ok s1 =>
        rw [hN] at h
        simp only [] at h
        obtain ⟨A1, hA1, hsim1, hext1⟩ := simN w n i f s s1 A hn hreg.1 (by omega) hnr.1 hsim hN
        obtain ⟨A2, hA2, hsim2, hext2⟩ := simNs w ns rest f s1 s' A1 hrest hreg.2 (by omega)
          (hnr.2 s1.m (cloneNO_m hN)) hsim1 h
        exact ⟨A2, by rw [wFold, hA1]; exact hA2, hsim2, hext1.trans hext2⟩
  theorem simN (w : Heap) : ∀ (n : NodeT) (i f : Nat) (s s' : CSt) (A : Sc),
      RepN w n i → RegN w n → depthN n ≤ f → nrN s.m n → SimSt s A → cloneNO s n = .ok s' →
      ∃ A', Clone.wNode w false (Clone.wGraph w false f) i A = .ok A' ∧ SimSt s' A' ∧ Ext s s'
    | .mk ins outs bs, i, f, s, s', A, hrep, hreg, hd, hnr, hsim, h => by
      simp only [RepN] at hrep
      obtain ⟨nsr, gl, hc, hins, houts, hattrs, hdev, hd1, hd2, hbs⟩ := hrep
      simp only [RegN] at hreg
      simp only [depthN] at hd
      simp only [nrN] at hnr
      obtain ⟨hnrG, hnd, hnb⟩ := hnr
      rw [cloneNO] at h
      split at h
      · rename_i hin
        cases hG : cloneGsO s bs with
        | error e => rw [hG] at h; cases h
        | ok s1 =>
          rw [hG] at h
          simp only [] at h
          cases h
          obtain ⟨A1, hA1, hsim1, hext1⟩ := simGs w bs gl f s s1 A hbs hreg.2 hd hnrG hsim hG
          have hbound : ∀ v, some v ∈ nsr.inputs → v ∈ A.bound := by
            intro v hv
            rw [hins] at hv
            have : v ∈ ins.filterMap id := by simpa [List.mem_filterMap] using hv
            have := List.all_eq_true.mp hin v this
            exact (hsim.bnd v).mpr (by simpa using this)
          have hnb1 : ∀ o, o ∈ nsr.outputs → ¬ o ∈ A1.bound := by
            intro o ho hb
            rw [houts] at ho
            exact hnb s1.m (cloneGsO_m hG) o ho ((hsim1.bnd o).mp hb)
          obtain ⟨A2, hA2, hb2, ho2, hp2⟩ := wFold_output (w := w) nsr.outputs A1
            (fun o ho => hreg.1 o (by rw [← houts]; exact ho)) (by rw [houts]; exact hnd) hnb1
          obtain ⟨hsimF, hextF⟩ := simN_outputs (s := s) (A := A) houts hsim1 hext1
            (fun o ho => hnb s1.m (cloneGsO_m hG) o ho) hb2 ho2 hp2
          refine ⟨{ A2 with produced := nsr.outputs.reverse ++ A2.produced }, ?_, hsimF, hextF⟩
          unfold Clone.wNode
          simp only [Clone.wNodeCell, Clone.wCell, hc, wres_ok_bind, wMapInputs_ok A nsr.inputs hbound,
            wFold_attrs w _ nsr.attrs gl A hattrs, hA1, hd1, hd2, hA2, hdev, List.any_nil, Bool.and_false,
            Bool.false_eq_true, if_false, wPassthrough_ok w A nsr.inputs hbound]
      · cases h
  theorem simGs (w : Heap) : ∀ (bs : List GraphT) (gl : List Nat) (f : Nat) (s s' : CSt) (A : Sc),
      RepGs w bs gl → RegGs w bs → depthGs bs ≤ f → nrGs s.m bs → SimSt s A → cloneGsO s bs = .ok s' →
      ∃ A', wFold (Clone.wGraph w false f) gl A = .ok A' ∧ SimSt s' A' ∧ Ext s s'
    | [], gl, f, s, s', A, hrep, _, _, _, hsim, h => by
      simp only [RepGs] at hrep
      subst hrep
      rw [cloneGsO] at h
      cases h
      exact ⟨A, rfl, hsim, Ext.refl s⟩
    | b :: bs, gl, f, s, s', A, hrep, hreg, hd, hnr, hsim, h => by
      simp only [RepGs] at hrep
      obtain ⟨g, rest, rfl, hb, hrest⟩ := hrep
      simp only [RegGs] at hreg
      simp only [depthGs] at hd
      simp only [nrGs] at hnr
      rw [cloneGsO] at h
      cases hG : cloneGO s b with
      | error e => rw [hG] at h; cases h
      | ok s1 =>
        rw [hG] at h
        simp only [] at h
        obtain ⟨A1, hA1, hsim1, hext1⟩ := simG w b f g s s1 A hb hreg.1 (by omega) hnr.1 hsim hG
        obtain ⟨A2, hA2, hsim2, hext2⟩ := simGs w bs rest f s1 s' A1 hrest hreg.2 (by omega)
          (hnr.2 s1.m (cloneGO_m hG)) hsim1 h
        exact ⟨A2, by rw [wFold, hA1]; exact hA2, hsim2, hext1.trans hext2⟩
end

/-! ## the error direction: where `cloneGO` raises, the walker answers a clear error -/

theorem wAll_dich {α : Type} {f : α → WRes Unit} : ∀ {l : List α},
    (∀ a, a ∈ l → f a = .ok () ∨ ∃ why, f a = .err (.raised why)) →
    wAll f l = .ok () ∨ ∃ why, wAll f l = .err (.raised why)
  | [], _ => Or.inl rfl
  | a :: l, h => by
    rcases h a List.mem_cons_self with ha | ⟨why, ha⟩
    · rcases wAll_dich (l := l) (fun b hb => h b (List.mem_cons_of_mem _ hb)) with hl | ⟨why, hl⟩
      · left; rw [wAll, ha]; exact hl
      · right; exact ⟨why, by rw [wAll, ha]; exact hl⟩
    · right; exact ⟨why, by rw [wAll, ha]; rfl⟩

theorem wAll_ok' {α : Type} {f : α → WRes Unit} : ∀ {l : List α}, wAll f l = .ok () → ∀ a, a ∈ l → f a = .ok ()
  | [], _, a, ha => by cases ha
  | b :: l, h, a, ha => by
    rw [wAll] at h
    cases hb : f b with
    | ok u =>
      rw [hb] at h
      rcases List.mem_cons.mp ha with rfl | ha
      · cases u; exact hb
      · exact wAll_ok' (l := l) h a ha
    | err e => rw [hb] at h; cases h
    | irregular why => rw [hb] at h; cases h

theorem wMapInputs_err (A : Sc) : ∀ (l : List (Option Nat)), (∃ v, some v ∈ l ∧ ¬ v ∈ A.bound) →
    Clone.wMapInputs false A l = .err (.raised "outer-scope value")
  | [], ⟨v, hv, _⟩ => by cases hv
  | none :: l, ⟨v, hv, hb⟩ => by
    rw [Clone.wMapInputs]
    exact wMapInputs_err A l ⟨v, by simpa using hv, hb⟩
  | some u :: l, ⟨v, hv, hb⟩ => by
    rw [Clone.wMapInputs]
    by_cases hu : A.bound.contains u = true
    · rw [if_pos hu]
      refine wMapInputs_err A l ⟨v, ?_, hb⟩
      rcases List.mem_cons.mp hv with h' | h'
      · cases h'
        exact absurd (by simpa using hu) hb
      · exact h'
    · rw [if_neg hu]
      rfl

theorem exists_bind_of {x : WRes Unit} {k : Unit → WRes Sc} (hx : x = .ok ())
    (h : ∃ why, k () = .err (.raised why)) : ∃ why, x.bind k = .err (.raised why) := by
  subst hx; exact h

theorem wMkGraph_err {w : Heap} {gs : Clone.GraphS} {A : Sc}
    (hreg : ∀ v, v ∈ gs.inputs ++ gs.inits.map (·.2) → RegVal w v)
    (hdist : Clone.distinct ((gs.inits.map (·.2)).filterMap (Clone.wName w)) = true)
    (hd1 : Clone.wDict w gs.props = .ok ()) (hd2 : Clone.wDict w gs.mstore = .ok ())
    (hbad : (∃ v, v ∈ gs.inputs ∧ (v ∈ A.owned ∨ v ∈ A.produced)) ∨ (∃ v, v ∈ gs.outputs ∧ v ∈ A.owned) ∨
      (∃ v, v ∈ gs.inits.map (·.2) ∧ (v ∈ A.owned ∨ v ∈ A.produced))) :
    ∃ why, Clone.wMkGraph w gs A = .err (.raised why) := by
  have d2 : wAll (fun v => if A.owned.contains v then WRes.err (.raised "input owned by a different graph")
      else if A.produced.contains v then WRes.err (.raised "input is produced by a node") else WRes.ok ())
      gs.inputs = .ok () ∨ ∃ why, wAll (fun v => if A.owned.contains v then WRes.err (.raised "input owned by a different graph")
      else if A.produced.contains v then WRes.err (.raised "input is produced by a node") else WRes.ok ())
      gs.inputs = .err (.raised why) := by
    apply wAll_dich
    intro v _
    by_cases h1 : A.owned.contains v = true
    · right; exact ⟨"input owned by a different graph", by rw [if_pos h1]⟩
    · by_cases h2 : A.produced.contains v = true
      · right; exact ⟨"input is produced by a node", by rw [if_neg h1, if_pos h2]⟩
      · left; rw [if_neg h1, if_neg h2]
  have d3 : wAll (fun v => if A.owned.contains v then WRes.err (.raised "value owned by a different graph")
      else WRes.ok ()) gs.outputs = .ok () ∨ ∃ why, wAll (fun v => if A.owned.contains v then
      WRes.err (.raised "value owned by a different graph") else WRes.ok ()) gs.outputs = .err (.raised why) := by
    apply wAll_dich
    intro v _
    by_cases h1 : A.owned.contains v = true
    · right; exact ⟨"value owned by a different graph", by rw [if_pos h1]⟩
    · left; rw [if_neg h1]
  have d4 : wAll (fun v => if A.owned.contains v then WRes.err (.raised "value owned by a different graph")
      else WRes.ok ()) (gs.inits.map (·.2)) = .ok () ∨ ∃ why, wAll (fun v => if A.owned.contains v then
      WRes.err (.raised "value owned by a different graph") else WRes.ok ()) (gs.inits.map (·.2)) =
      .err (.raised why) := by
    apply wAll_dich
    intro v _
    by_cases h1 : A.owned.contains v = true
    · right; exact ⟨"value owned by a different graph", by rw [if_pos h1]⟩
    · left; rw [if_neg h1]
  have d5 : wAll (fun v => if Clone.wName w v = some "" then WRes.err (.raised "initializer with an empty name")
      else if A.produced.contains v then WRes.err (.raised "initializer produced by a node") else WRes.ok ())
      (gs.inits.map (·.2)) = .ok () ∨ ∃ why, wAll (fun v => if Clone.wName w v = some "" then
      WRes.err (.raised "initializer with an empty name")
      else if A.produced.contains v then WRes.err (.raised "initializer produced by a node") else WRes.ok ())
      (gs.inits.map (·.2)) = .err (.raised why) := by
    apply wAll_dich
    intro v _
    by_cases h1 : Clone.wName w v = some ""
    · right; exact ⟨"initializer with an empty name", by rw [if_pos h1]⟩
    · by_cases h2 : A.produced.contains v = true
      · right; exact ⟨"initializer produced by a node", by rw [if_neg h1, if_pos h2]⟩
      · left; rw [if_neg h1, if_neg h2]
  unfold Clone.wMkGraph
  simp only [hdist, hd1, hd2, wres_ok_bind, if_true]
  refine exists_bind_of (wAll_of ?_) ?_
  · intro v hv
    obtain ⟨nm, hn, _⟩ := wName_reg (hreg v (List.mem_append_right _ hv))
    simp [hn]
  rcases d2 with h2 | ⟨why, h2⟩
  · rcases d3 with h3 | ⟨why, h3⟩
    · rcases d4 with h4 | ⟨why, h4⟩
      · rcases d5 with h5 | ⟨why, h5⟩
        · exfalso
          rcases hbad with ⟨v, hv, hb⟩ | ⟨v, hv, hb⟩ | ⟨v, hv, hb⟩
          · have := wAll_ok' h2 v hv
            rcases hb with hb | hb
            · have hb' : A.owned.contains v = true := by simpa using hb
              rw [if_pos hb'] at this; cases this
            · have hb' : A.produced.contains v = true := by simpa using hb
              by_cases h1 : A.owned.contains v = true
              · rw [if_pos h1] at this; cases this
              · rw [if_neg h1, if_pos hb'] at this; cases this
          · have := wAll_ok' h3 v hv
            have hb' : A.owned.contains v = true := by simpa using hb
            rw [if_pos hb'] at this; cases this
          · rcases hb with hb | hb
            · have := wAll_ok' h4 v hv
              have hb' : A.owned.contains v = true := by simpa using hb
              rw [if_pos hb'] at this; cases this
            · have := wAll_ok' h5 v hv
              have hb' : A.produced.contains v = true := by simpa using hb
              by_cases h1 : Clone.wName w v = some ""
              · rw [if_pos h1] at this; cases this
              · rw [if_neg h1, if_pos hb'] at this; cases this
        · exact ⟨why, by simp only [h2, h3, h4, h5, wres_ok_bind]; rfl⟩
      · exact ⟨why, by simp only [h2, h3, h4, wres_ok_bind]; rfl⟩
    · exact ⟨why, by simp only [h2, h3, wres_ok_bind]; rfl⟩
  · exact ⟨why, by simp only [h2]; rfl⟩

theorem exists_of_not_all {p : Nat → Bool} : ∀ {l : List Nat}, ¬ (l.all p = true) → ∃ v, v ∈ l ∧ p v = false
  | [], h => absurd rfl h
  | a :: l, h => by
    cases hp : p a with
    | false => exact ⟨a, List.mem_cons_self, hp⟩
    | true =>
      have : ¬ (l.all p = true) := by
        intro hl
        apply h
        simp [List.all_cons, hp, hl]
      obtain ⟨v, hv, hpv⟩ := exists_of_not_all this
      exact ⟨v, List.mem_cons_of_mem _ hv, hpv⟩

theorem wres_err_bind {α β : Type} (e : Clone.Err) (f : α → WRes β) : (WRes.err e : WRes α).bind f = .err e := rfl

mutual
  theorem errG (w : Heap) : ∀ (t : GraphT) (fuel g : Nat) (s : CSt) (A : Sc) (e : Err),
      RepG w t g → RegG w t → depthG t ≤ fuel → nrG s.m t → SimSt s A → cloneGO s t = .error e →
      ∃ why, Clone.wGraph w false fuel g A = .err (.raised why)
    | .mk gid ins inits outs ns, fuel, g, s, A, e, hrep, hreg, hd, hnr, hsim, h => by
      cases fuel with
      | zero => simp [depthG] at hd
      | succ f =>
        simp only [RepG] at hrep
        obtain ⟨gs, hc, hins, hinits, houts, hd1, hd2, hns⟩ := hrep
        simp only [RegG] at hreg
        obtain ⟨hrv, hdist, hrns⟩ := hreg
        simp only [depthG] at hd
        simp only [nrG] at hnr
        subst hins houts
        obtain ⟨A1, A2, ol, hA1, hA2, hol, hsim1⟩ := simG_prefix hinits hns hrv hsim
        rw [cloneGO] at h
        simp only [] at h
        cases hN : cloneNsO { s with m := s.m ++ gs.inputs ++ inits } ns with
        | error e' =>
          obtain ⟨why, hw⟩ := errNs w ns gs.nodes f { s with m := s.m ++ gs.inputs ++ inits }
            { A2 with pend := A2.pend ++ ol } e' hns hrns (by omega) hnr hsim1 hN
          refine ⟨why, ?_⟩
          rw [Clone.wGraph]
          simp only [Clone.wGraphStep, Clone.wGraphCell, Clone.wCell, hc, wres_ok_bind, hA1, hA2, hol, hw,
            wres_err_bind]
        | ok s2 =>
          rw [hN] at h
          simp only [] at h
          obtain ⟨A4, hA4, hsim4, hext⟩ := simNs w ns gs.nodes f { s with m := s.m ++ gs.inputs ++ inits } s2
            { A2 with pend := A2.pend ++ ol } hns hrns (by omega) hnr hsim1 hN
          by_cases hall : gs.outputs.all (fun v => s2.m.contains v) = true
          · rw [if_pos hall] at h
            have houtsB : wAll (fun v => if A4.bound.contains v then WRes.ok ()
                else WRes.err (.raised "graph output is not in the value map")) gs.outputs = .ok () := by
              apply wAll_of
              intro v hv
              have : v ∈ s2.m := by simpa using List.all_eq_true.mp hall v hv
              have : v ∈ A4.bound := (hsim4.bnd v).mpr this
              simp [this]
            have hcnt : ∀ v, v ∈ gs.inputs ++ inits → s2.outs.count v = s.outs.count v := by
              intro v hv
              apply hext.2 v
              show v ∈ s.m ++ gs.inputs ++ inits
              simp only [List.mem_append] at hv ⊢
              rcases hv with hv | hv
              · exact Or.inl (Or.inr hv)
              · exact Or.inr hv
            obtain ⟨hbi, hbo⟩ := bad_iff (s := s) (outs := gs.outputs) hsim4 hcnt
            split at h
            · rename_i hbad
              have hbadW : (∃ v, v ∈ gs.inputs ∧ (v ∈ A4.owned ∨ v ∈ A4.produced)) ∨
                  (∃ v, v ∈ gs.outputs ∧ v ∈ A4.owned) ∨
                  (∃ v, v ∈ gs.inits.map (·.2) ∧ (v ∈ A4.owned ∨ v ∈ A4.produced)) := by
                simp only [Bool.or_eq_true, List.any_eq_true, List.mem_map] at hbad
                rcases hbad with (⟨c, ⟨v, hv, rfl⟩, hcb⟩ | ⟨c, ⟨v, hv, rfl⟩, hcb⟩) | ⟨c, ⟨v, hv, rfl⟩, hcb⟩
                · exact Or.inl ⟨v, hv, (hbi v (List.mem_append_left _ hv)).mp (by simpa using hcb)⟩
                · exact Or.inr (Or.inl ⟨v, hv, (hbo v hv).mp hcb⟩)
                · exact Or.inr (Or.inr ⟨v, by rw [hinits]; exact hv,
                    (hbi v (List.mem_append_right _ hv)).mp (by simpa using hcb)⟩)
              obtain ⟨why, hw⟩ := wMkGraph_err (w := w) (gs := gs) (A := A4)
                (by intro v hv; rw [hinits] at hv; exact hrv v hv)
                (by rw [hinits]; exact hdist) hd1 hd2 hbadW
              refine ⟨why, ?_⟩
              rw [Clone.wGraph]
              simp only [Clone.wGraphStep, Clone.wGraphCell, Clone.wCell, hc, wres_ok_bind, hA1, hA2, hol, hA4,
                houtsB]
              exact hw
            · cases h
          · have hex : ∃ v, v ∈ gs.outputs ∧ ¬ v ∈ A4.bound := by
              obtain ⟨v, hv, hnm⟩ := exists_of_not_all hall
              exact ⟨v, hv, fun hb => by
                have := (hsim4.bnd v).mp hb
                simp [this] at hnm⟩
            have hd : wAll (fun v => if A4.bound.contains v then WRes.ok ()
                else WRes.err (.raised "graph output is not in the value map")) gs.outputs = .ok () ∨
                ∃ why, wAll (fun v => if A4.bound.contains v then WRes.ok ()
                else WRes.err (.raised "graph output is not in the value map")) gs.outputs = .err (.raised why) := by
              apply wAll_dich
              intro v _
              by_cases hb : A4.bound.contains v = true
              · left; rw [if_pos hb]
              · right; exact ⟨"graph output is not in the value map", by rw [if_neg hb]⟩
            rcases hd with hd | ⟨why, hd⟩
            · exfalso
              obtain ⟨v, hv, hnb⟩ := hex
              have := wAll_ok' hd v hv
              have hb : ¬ (A4.bound.contains v = true) := by simpa using hnb
              rw [if_neg hb] at this
              cases this
            · refine ⟨why, ?_⟩
              rw [Clone.wGraph]
              simp only [Clone.wGraphStep, Clone.wGraphCell, Clone.wCell, hc, wres_ok_bind, hA1, hA2, hol, hA4, hd,
                wres_err_bind]
  theorem errNs (w : Heap) : ∀ (ns : List NodeT) (is : List Nat) (f : Nat) (s : CSt) (A : Sc) (e : Err),
      RepNs w ns is → RegNs w ns → depthNs ns ≤ f → nrNs s.m ns → SimSt s A → cloneNsO s ns = .error e →
      ∃ why, wFold (Clone.wNode w false (Clone.wGraph w false f)) is A = .err (.raised why)
    | [], is, f, s, A, e, _, _, _, _, _, h => by rw [cloneNsO] at h; cases h
    | n :: ns, is, f, s, A, e, hrep, hreg, hd, hnr, hsim, h => by
      simp only [RepNs] at hrep
      obtain ⟨i, rest, rfl, hn, hrest⟩ := hrep
      simp only [RegNs] at hreg
      simp only [depthNs] at hd
      simp only [nrNs] at hnr
      rw [cloneNsO] at h
      cases hN : cloneNO s n with
      | error e' =>
        obtain ⟨why, hw⟩ := errN w n i f s A e' hn hreg.1 (by omega) hnr.1 hsim hN
        exact ⟨why, by rw [wFold, hw]; rfl⟩
      | ok s1 =>
        rw [hN] at h
        simp only [] at h
        obtain ⟨A1, hA1, hsim1, _⟩ := simN w n i f s s1 A hn hreg.1 (by omega) hnr.1 hsim hN
        obtain ⟨why, hw⟩ := errNs w ns rest f s1 A1 e hrest hreg.2 (by omega) (hnr.2 s1.m (cloneNO_m hN)) hsim1 h
        exact ⟨why, by rw [wFold, hA1]; exact hw⟩
  theorem errN (w : Heap) : ∀ (n : NodeT) (i f : Nat) (s : CSt) (A : Sc) (e : Err),
      RepN w n i → RegN w n → depthN n ≤ f → nrN s.m n → SimSt s A → cloneNO s n = .error e →
      ∃ why, Clone.wNode w false (Clone.wGraph w false f) i A = .err (.raised why)
    | .mk ins outs bs, i, f, s, A, e, hrep, hreg, hd, hnr, hsim, h => by
      simp only [RepN] at hrep
      obtain ⟨nsr, gl, hc, hins, houts, hattrs, hdev, hd1, hd2, hbs⟩ := hrep
      simp only [RegN] at hreg
      simp only [depthN] at hd
      simp only [nrN] at hnr
      obtain ⟨hnrG, _, _⟩ := hnr
      rw [cloneNO] at h
      by_cases hin : (ins.filterMap id).all (fun v => s.m.contains v) = true
      · rw [if_pos hin] at h
        cases hG : cloneGsO s bs with
        | error e' =>
          obtain ⟨why, hw⟩ := errGs w bs gl f s A e' hbs hreg.2 hd hnrG hsim hG
          have hbound : ∀ v, some v ∈ nsr.inputs → v ∈ A.bound := by
            intro v hv
            rw [hins] at hv
            have : v ∈ ins.filterMap id := by simpa [List.mem_filterMap] using hv
            have := List.all_eq_true.mp hin v this
            exact (hsim.bnd v).mpr (by simpa using this)
          refine ⟨why, ?_⟩
          unfold Clone.wNode
          simp only [Clone.wNodeCell, Clone.wCell, hc, wres_ok_bind, wMapInputs_ok A nsr.inputs hbound,
            wFold_attrs w _ nsr.attrs gl A hattrs, hw, wres_err_bind]
        | ok s1 => rw [hG] at h; cases h
      · have hex : ∃ v, some v ∈ nsr.inputs ∧ ¬ v ∈ A.bound := by
          obtain ⟨v, hv, hnm⟩ := exists_of_not_all hin
          refine ⟨v, ?_, fun hb => by
            have := (hsim.bnd v).mp hb
            simp [this] at hnm⟩
          rw [hins]
          simpa [List.mem_filterMap] using hv
        refine ⟨"outer-scope value", ?_⟩
        unfold Clone.wNode
        simp only [Clone.wNodeCell, Clone.wCell, hc, wres_ok_bind, wMapInputs_err A nsr.inputs hex, wres_err_bind]
  theorem errGs (w : Heap) : ∀ (bs : List GraphT) (gl : List Nat) (f : Nat) (s : CSt) (A : Sc) (e : Err),
      RepGs w bs gl → RegGs w bs → depthGs bs ≤ f → nrGs s.m bs → SimSt s A → cloneGsO s bs = .error e →
      ∃ why, wFold (Clone.wGraph w false f) gl A = .err (.raised why)
    | [], gl, f, s, A, e, _, _, _, _, _, h => by rw [cloneGsO] at h; cases h
    | b :: bs, gl, f, s, A, e, hrep, hreg, hd, hnr, hsim, h => by
      simp only [RepGs] at hrep
      obtain ⟨g, rest, rfl, hb, hrest⟩ := hrep
      simp only [RegGs] at hreg
      simp only [depthGs] at hd
      simp only [nrGs] at hnr
      rw [cloneGsO] at h
      cases hG : cloneGO s b with
      | error e' =>
        obtain ⟨why, hw⟩ := errG w b f g s A e' hb hreg.1 (by omega) hnr.1 hsim hG
        exact ⟨why, by rw [wFold, hw]; rfl⟩
      | ok s1 =>
        rw [hG] at h
        simp only [] at h
        obtain ⟨A1, hA1, hsim1, _⟩ := simG w b f g s s1 A hb hreg.1 (by omega) hnr.1 hsim hG
        obtain ⟨why, hw⟩ := errGs w bs rest f s1 A1 e hrest hreg.2 (by omega) (hnr.2 s1.m (cloneGO_m hG)) hsim1 h
        exact ⟨why, by rw [wFold, hA1]; exact hw⟩
end

mutual
  theorem nrG_of_B : ∀ (t : GraphT) (m : List VId), nrGB m t = true → nrG m t
    | .mk _ ins inits _ ns, m, h => by
      rw [nrGB] at h; rw [nrG]; exact nrNs_of_B ns _ h
  theorem nrNs_of_B : ∀ (ns : List NodeT) (m : List VId), nrNsB m ns = true → nrNs m ns
    | [], _, _ => by rw [nrNs]; trivial
    | n :: ns, m, h => by
      rw [nrNsB, Bool.and_eq_true] at h
      rw [nrNs]
      refine ⟨nrN_of_B n m h.1, ?_⟩
      intro m1 hm1
      have h2 := h.2
      rw [hm1] at h2
      exact nrNs_of_B ns m1 h2
  theorem nrN_of_B : ∀ (n : NodeT) (m : List VId), nrNB m n = true → nrN m n
    | .mk _ outs bs, m, h => by
      rw [nrNB, Bool.and_eq_true, Bool.and_eq_true] at h
      rw [nrN]
      refine ⟨nrGs_of_B bs m h.1.1, nodup_of_B h.1.2, ?_⟩
      intro m1 hm1 o ho
      have h2 := h.2
      rw [hm1] at h2
      have := List.all_eq_true.mp h2 o ho
      simpa using this
  theorem nrGs_of_B : ∀ (bs : List GraphT) (m : List VId), nrGsB m bs = true → nrGs m bs
    | [], _, _ => by rw [nrGs]; trivial
    | b :: bs, m, h => by
      rw [nrGsB, Bool.and_eq_true] at h
      rw [nrGs]
      refine ⟨nrG_of_B b m h.1, ?_⟩
      intro m1 hm1
      have h2 := h.2
      rw [hm1] at h2
      exact nrGs_of_B bs m1 h2
end

end IrVerif.Extract

/-
C18 follow-up: the clone stage of `extract` against C13's scope walker.

`cloneGO` (Model/Extract.lean) is C18's model of `GraphView.clone()` as far as it decides "raised": the keys of
the cloner's value map, the generation of the clone a key maps to, the clones a finished graph owns.  C13 has
the full heap-level model of the cloner and the decidable scope walker `cloneVerdict` with
`C13_clone_succeeds` (walker accepts => the heap-level clone returns).  This file proves that on every C13 heap
that REPRESENTS the view (`RepG`: same value ids, same lists, graph-valued attributes in order), is regular
(`RegG`: values are value cells with their metadata containers and a non-empty name, initializer names
distinct) and on which no node output is already a key of the value map when its node is cloned (`nrG`:
C13's walker makes no claim there), acceptance by `cloneGO` implies acceptance by the walker.
-/
import IrVerif.Model.Clone
import IrVerif.Lemmas.ExtractSucceeds
import IrVerif.Lemmas.ExtractHyp
namespace IrVerif.Extract
open IrVerif.Clone (Sc WRes wFold wAll)

abbrev Heap := Clone.World

@[simp] theorem wres_ok_bind {α β : Type} (a : α) (f : α → WRes β) : (WRes.ok a).bind f = f a := rfl

/-! ## regular values -/

/-- `v` is a value cell whose shape / type / metadata containers are cells of the right kind, with a
    non-empty name -/
def RegVal (w : Heap) (v : Nat) : Prop :=
  ∃ vs, w[v]? = some (Clone.Cell.val vs) ∧ Clone.wOptShape w vs.shape = .ok () ∧
    Clone.wOptType w vs.type = .ok () ∧ Clone.wDict w vs.props = .ok () ∧ Clone.wDict w vs.mstore = .ok () ∧
    ∃ nm, vs.name = some nm ∧ nm ≠ ""

theorem wCloneOrGet_reg {w : Heap} {v : Nat} (h : RegVal w v) (A : Sc) :
    Clone.wCloneOrGet w v A = .ok (if A.bound.contains v then A else { A with bound := v :: A.bound }) := by
  obtain ⟨vs, hc, h1, h2, h3, h4, _⟩ := h
  unfold Clone.wCloneOrGet
  by_cases hb : A.bound.contains v = true
  · rw [if_pos hb, if_pos hb]
  · rw [if_neg hb, if_neg hb]
    simp only [Clone.wVal, Clone.wCell, hc, wres_ok_bind, h1, h2, h3, h4]

theorem wOutput_reg {w : Heap} {o : Nat} (h : RegVal w o) (A : Sc) (hb : A.bound.contains o = false) :
    Clone.wOutput w o A = .ok { A with bound := o :: A.bound, pend := A.pend.filter (· != o) } := by
  obtain ⟨vs, hc, h1, h2, h3, h4, _⟩ := h
  unfold Clone.wOutput
  simp only [Clone.wVal, Clone.wCell, hc, wres_ok_bind, h1, h2, h3, h4, hb, Bool.false_eq_true, if_false]

theorem wName_reg {w : Heap} {v : Nat} (h : RegVal w v) : ∃ nm, Clone.wName w v = some nm ∧ nm ≠ "" := by
  obtain ⟨vs, hc, _, _, _, _, nm, hn, hne⟩ := h
  exact ⟨nm, by simp [Clone.wName, hc, hn], hne⟩

theorem wFold_cloneOrGet {w : Heap} : ∀ (l : List Nat) (A : Sc), (∀ v, v ∈ l → RegVal w v) →
    ∃ A', wFold (Clone.wCloneOrGet w) l A = .ok A' ∧ (∀ v, v ∈ A'.bound ↔ v ∈ A.bound ∨ v ∈ l) ∧
      A'.owned = A.owned ∧ A'.produced = A.produced
  | [], A, _ => ⟨A, rfl, by simp, rfl, rfl⟩
  | a :: l, A, h => by
    have ha := wCloneOrGet_reg (h a List.mem_cons_self) A
    obtain ⟨A', h1, h2, h3, h4⟩ := wFold_cloneOrGet l
      (if A.bound.contains a then A else { A with bound := a :: A.bound })
      (fun v hv => h v (List.mem_cons_of_mem _ hv))
    refine ⟨A', by rw [wFold, ha]; exact h1, ?_, ?_, ?_⟩
    · intro v
      rw [h2 v]
      by_cases hb : A.bound.contains a = true
      · simp only [hb, if_true, List.mem_cons]
        have : a ∈ A.bound := by simpa using hb
        constructor
        · rintro (h' | h')
          · exact Or.inl h'
          · exact Or.inr (Or.inr h')
        · rintro (h' | rfl | h')
          · exact Or.inl h'
          · exact Or.inl this
          · exact Or.inr h'
      · simp only [hb, Bool.false_eq_true, if_false, List.mem_cons]
        constructor
        · rintro ((rfl | h') | h')
          · exact Or.inr (Or.inl rfl)
          · exact Or.inl h'
          · exact Or.inr (Or.inr h')
        · rintro (h' | rfl | h')
          · exact Or.inl (Or.inr h')
          · exact Or.inl (Or.inl rfl)
          · exact Or.inr h'
    · rw [h3]; split <;> rfl
    · rw [h4]; split <;> rfl

theorem wFold_output {w : Heap} : ∀ (l : List Nat) (A : Sc), (∀ o, o ∈ l → RegVal w o) → l.Nodup →
    (∀ o, o ∈ l → ¬ o ∈ A.bound) →
    ∃ A', wFold (Clone.wOutput w) l A = .ok A' ∧ (∀ v, v ∈ A'.bound ↔ v ∈ A.bound ∨ v ∈ l) ∧
      A'.owned = A.owned ∧ A'.produced = A.produced
  | [], A, _, _, _ => ⟨A, rfl, by simp, rfl, rfl⟩
  | a :: l, A, h, hnd, hnb => by
    have hb : A.bound.contains a = false := by simpa using hnb a List.mem_cons_self
    have ha := wOutput_reg (h a List.mem_cons_self) A hb
    obtain ⟨A', h1, h2, h3, h4⟩ := wFold_output l
      { A with bound := a :: A.bound, pend := A.pend.filter (· != a) }
      (fun v hv => h v (List.mem_cons_of_mem _ hv)) (List.nodup_cons.mp hnd).2
      (by
        intro o ho hmem
        simp only [List.mem_cons] at hmem
        rcases hmem with rfl | hmem
        · exact (List.nodup_cons.mp hnd).1 ho
        · exact hnb o (List.mem_cons_of_mem _ ho) hmem)
    refine ⟨A', by rw [wFold, ha]; exact h1, ?_, h3, h4⟩
    intro v
    rw [h2 v]
    simp only [List.mem_cons]
    constructor
    · rintro ((rfl | h') | h')
      · exact Or.inr (Or.inl rfl)
      · exact Or.inl h'
      · exact Or.inr (Or.inr h')
    · rintro (h' | rfl | h')
      · exact Or.inl (Or.inr h')
      · exact Or.inl (Or.inl rfl)
      · exact Or.inr h'

theorem wFold_append {α : Type} (f : α → Sc → WRes Sc) : ∀ (l1 l2 : List α) (A : Sc),
    wFold f (l1 ++ l2) A = (wFold f l1 A).bind (wFold f l2)
  | [], l2, A => rfl
  | a :: l1, l2, A => by
    simp only [List.cons_append, wFold]
    cases f a A with
    | ok A1 => simp only [wres_ok_bind]; exact wFold_append f l1 l2 A1
    | err e => rfl
    | irregular why => rfl

theorem wAll_of {α : Type} {f : α → WRes Unit} : ∀ {l : List α}, (∀ a, a ∈ l → f a = .ok ()) → wAll f l = .ok ()
  | [], _ => rfl
  | a :: l, h => by
    rw [wAll, h a List.mem_cons_self]
    simp only [wres_ok_bind]
    exact wAll_of (fun b hb => h b (List.mem_cons_of_mem _ hb))

theorem wMapInputs_ok (A : Sc) : ∀ (l : List (Option Nat)), (∀ v, some v ∈ l → v ∈ A.bound) →
    Clone.wMapInputs false A l = .ok ()
  | [], _ => rfl
  | none :: l, h => by
    rw [Clone.wMapInputs]; exact wMapInputs_ok A l (fun v hv => h v (List.mem_cons_of_mem _ hv))
  | some v :: l, h => by
    have : A.bound.contains v = true := by simpa using h v List.mem_cons_self
    rw [Clone.wMapInputs, if_pos this]
    exact wMapInputs_ok A l (fun v hv => h v (List.mem_cons_of_mem _ hv))

theorem wPassthrough_ok (w : Heap) (A : Sc) : ∀ (l : List (Option Nat)), (∀ v, some v ∈ l → v ∈ A.bound) →
    Clone.wPassthrough w A l = .ok ()
  | [], _ => rfl
  | none :: l, h => by
    rw [Clone.wPassthrough]; exact wPassthrough_ok w A l (fun v hv => h v (List.mem_cons_of_mem _ hv))
  | some v :: l, h => by
    have : A.bound.contains v = true := by simpa using h v List.mem_cons_self
    rw [Clone.wPassthrough, if_pos this]
    exact wPassthrough_ok w A l (fun v hv => h v (List.mem_cons_of_mem _ hv))

/-! ## graph-valued attributes of a node cell, in attribute order -/

def attrGraphs (w : Heap) : List (String × Nat) → Option (List Nat)
  | [] => some []
  | ka :: rest =>
    match w[ka.2]? with
    | some (Clone.Cell.attr as) =>
      (attrGraphs w rest).map (fun r =>
        (match as.v with
         | .graph g => [g]
         | .graphs gs => gs
         | _ => []) ++ r)
    | _ => none

theorem wFold_attrs (w : Heap) (rec : Nat → Sc → WRes Sc) : ∀ (attrs : List (String × Nat)) (gl : List Nat) (A : Sc),
    attrGraphs w attrs = some gl →
    wFold (fun (ka : String × Nat) => Clone.wAttr w rec ka.2) attrs A = wFold rec gl A
  | [], gl, A, h => by
    simp only [attrGraphs, Option.some.injEq] at h
    subst h; rfl
  | ka :: rest, gl, A, h => by
    rw [attrGraphs] at h
    split at h
    · rename_i as hc
      cases hr : attrGraphs w rest with
      | none => rw [hr] at h; simp at h
      | some r =>
        rw [hr] at h
        simp only [Option.map_some, Option.some.injEq] at h
        subst h
        rw [wFold, wFold_append]
        have ih := fun A1 => wFold_attrs w rec rest r A1 hr
        have hattr : Clone.wAttr w rec ka.2 A = wFold rec (match as.v with
            | .graph g => [g]
            | .graphs gs => gs
            | _ => []) A := by
          unfold Clone.wAttr
          simp only [Clone.wAttrCell, Clone.wCell, hc, wres_ok_bind]
          cases as.v with
          | graph g => simp only [wFold]; cases rec g A <;> rfl
          | graphs gs => rfl
          | plain p => rfl
          | ref p => rfl
        rw [hattr]
        cases wFold rec (match as.v with
            | .graph g => [g]
            | .graphs gs => gs
            | _ => []) A with
        | ok A1 => simp only [wres_ok_bind]; exact ih A1
        | err e => rfl
        | irregular why => rfl
    · cases h

/-! ## a heap represents a tree; regularity; depth; no re-binding -/

mutual
  /-- the graph cell `g` of the heap is the tree: same value ids in the input / initializer / output lists, its
      node cells represent the nodes in order -/
  def RepG (w : Heap) : GraphT → Nat → Prop
    | .mk _ ins inits outs ns, g =>
      ∃ gs, w[g]? = some (Clone.Cell.graph gs) ∧ gs.inputs = ins ∧ gs.inits.map (·.2) = inits ∧
        gs.outputs = outs ∧ Clone.wDict w gs.props = .ok () ∧ Clone.wDict w gs.mstore = .ok () ∧
        RepNs w ns gs.nodes
  def RepNs (w : Heap) : List NodeT → List Nat → Prop
    | [], is => is = []
    | n :: ns, is => ∃ i rest, is = i :: rest ∧ RepN w n i ∧ RepNs w ns rest
  /-- the node cell: same inputs and outputs, its graph-valued attributes (GRAPH: one, GRAPHS: its members,
      other attributes: none) are, in order, the cells of the bodies; no device configuration -/
  def RepN (w : Heap) : NodeT → Nat → Prop
    | .mk ins outs bs, i =>
      ∃ nsr gl, w[i]? = some (Clone.Cell.node nsr) ∧ nsr.inputs = ins ∧ nsr.outputs = outs ∧
        attrGraphs w nsr.attrs = some gl ∧ nsr.dev = [] ∧ Clone.wDict w nsr.props = .ok () ∧
        Clone.wDict w nsr.mstore = .ok () ∧ RepGs w bs gl
  def RepGs (w : Heap) : List GraphT → List Nat → Prop
    | [], gl => gl = []
    | b :: bs, gl => ∃ g rest, gl = g :: rest ∧ RepG w b g ∧ RepGs w bs rest
end

mutual
  /-- graph inputs, initializers and node outputs at any depth are regular values; initializer names of a
      graph are pairwise distinct -/
  def RegG (w : Heap) : GraphT → Prop
    | .mk _ ins inits _ ns =>
      (∀ v, v ∈ ins ++ inits → RegVal w v) ∧ Clone.distinct (inits.filterMap (Clone.wName w)) = true ∧
      RegNs w ns
  def RegNs (w : Heap) : List NodeT → Prop
    | [] => True
    | n :: ns => RegN w n ∧ RegNs w ns
  def RegN (w : Heap) : NodeT → Prop
    | .mk _ outs bs => (∀ o, o ∈ outs → RegVal w o) ∧ RegGs w bs
  def RegGs (w : Heap) : List GraphT → Prop
    | [] => True
    | b :: bs => RegG w b ∧ RegGs w bs
end

mutual
  def depthG : GraphT → Nat
    | .mk _ _ _ _ ns => depthNs ns + 1
  def depthNs : List NodeT → Nat
    | [] => 0
    | n :: ns => max (depthN n) (depthNs ns)
  def depthN : NodeT → Nat
    | .mk _ _ bs => depthGs bs
  def depthGs : List GraphT → Nat
    | [] => 0
    | b :: bs => max (depthG b) (depthGs bs)
end

mutual
  /-- no node output is already a key of the value map when its node is cloned (the map threaded as `cloneG`
      does), and a node lists an output once: where this fails C13's walker makes no claim (the cloner binds a
      second clone for the key) -/
  def nrG (m : List VId) : GraphT → Prop
    | .mk _ ins inits _ ns => nrNs (m ++ ins ++ inits) ns
  def nrNs (m : List VId) : List NodeT → Prop
    | [] => True
    | n :: ns => nrN m n ∧ (∀ m1, cloneN m n = .ok m1 → nrNs m1 ns)
  def nrN (m : List VId) : NodeT → Prop
    | .mk _ outs bs => nrGs m bs ∧ outs.Nodup ∧ (∀ m1, cloneGs m bs = .ok m1 → ∀ o, o ∈ outs → ¬ o ∈ m1)
  def nrGs (m : List VId) : List GraphT → Prop
    | [] => True
    | b :: bs => nrG m b ∧ (∀ m1, cloneG m b = .ok m1 → nrGs m1 bs)
end

/-! ## the simulation -/

structure SimSt (s : CSt) (A : Sc) : Prop where
  bnd : ∀ v, v ∈ A.bound ↔ v ∈ s.m
  own : ∀ v, v ∈ A.owned → (v, s.outs.count v) ∈ s.owned
  prod : ∀ v, v ∈ A.produced → v ∈ s.outs
  ownB : ∀ v, v ∈ A.owned → v ∈ s.m

/-- what a traversal keeps: keys stay keys, and the clone of a key that was bound is not replaced -/
def Ext (s s' : CSt) : Prop :=
  (∀ v, v ∈ s.m → v ∈ s'.m) ∧ (∀ v, v ∈ s.m → s'.outs.count v = s.outs.count v)

theorem Ext.refl (s : CSt) : Ext s s := ⟨fun _ h => h, fun _ _ => rfl⟩
theorem Ext.trans {a b c : CSt} (h1 : Ext a b) (h2 : Ext b c) : Ext a c :=
  ⟨fun v hv => h2.1 v (h1.1 v hv), fun v hv => by rw [h2.2 v (h1.1 v hv), h1.2 v hv]⟩

theorem cloneGO_m {s s' : CSt} {g : GraphT} (h : cloneGO s g = .ok s') : cloneG s.m g = .ok s'.m := by
  have := cloneGO_rel g s; rw [h] at this; exact this
theorem cloneGsO_m {s s' : CSt} {gs : List GraphT} (h : cloneGsO s gs = .ok s') : cloneGs s.m gs = .ok s'.m := by
  have := cloneGsO_rel gs s; rw [h] at this; exact this
theorem cloneNO_m {s s' : CSt} {n : NodeT} (h : cloneNO s n = .ok s') : cloneN s.m n = .ok s'.m := by
  have := cloneNO_rel n s; rw [h] at this; exact this

theorem wAllOutputs_rep {w : Heap} : ∀ (ns : List NodeT) (is : List Nat), RepNs w ns is →
    ∃ l, Clone.wAllOutputs w is = .ok l
  | [], is, h => by
    simp only [RepNs] at h; subst h; exact ⟨[], rfl⟩
  | n :: ns, is, h => by
    simp only [RepNs] at h
    obtain ⟨i, rest, rfl, hn, hrest⟩ := h
    obtain ⟨l, hl⟩ := wAllOutputs_rep ns rest hrest
    cases n with
    | mk ins outs bs =>
      simp only [RepN] at hn
      obtain ⟨nsr, gl, hc, _⟩ := hn
      exact ⟨nsr.outputs ++ l, by
        simp only [Clone.wAllOutputs, Clone.wNodeCell, Clone.wCell, hc, wres_ok_bind, hl]⟩

theorem nodesNamed_rep {w : Heap} : ∀ (ns : List NodeT) (is : List Nat), RepNs w ns is → RegNs w ns →
    wAll (fun n => (Clone.wNodeCell w n).bind fun nsr =>
      wAll (fun o => if (Clone.wName w o).isNone then WRes.err (.unsupported "unnamed value (name authority)")
        else WRes.ok ()) nsr.outputs) is = .ok ()
  | [], is, h, _ => by
    simp only [RepNs] at h; subst h; rfl
  | n :: ns, is, h, hr => by
    simp only [RepNs] at h
    obtain ⟨i, rest, rfl, hn, hrest⟩ := h
    simp only [RegNs] at hr
    have ih := nodesNamed_rep ns rest hrest hr.2
    cases n with
    | mk ins outs bs =>
      simp only [RepN] at hn
      obtain ⟨nsr, gl, hc, _, houts, _⟩ := hn
      simp only [RegN] at hr
      rw [wAll]
      simp only [Clone.wNodeCell, Clone.wCell, hc, wres_ok_bind]
      have : wAll (fun o => if (Clone.wName w o).isNone then WRes.err (.unsupported "unnamed value (name authority)")
          else WRes.ok ()) nsr.outputs = .ok () := by
        apply wAll_of
        intro o ho
        rw [houts] at ho
        obtain ⟨nm, hn, _⟩ := wName_reg (hr.1.1 o ho)
        simp [hn]
      rw [this]
      simp only [wres_ok_bind]
      exact ih


theorem wMkGraph_ok {w : Heap} {gs : Clone.GraphS} {A : Sc}
    (hreg : ∀ v, v ∈ gs.inputs ++ gs.inits.map (·.2) → RegVal w v)
    (hdist : Clone.distinct ((gs.inits.map (·.2)).filterMap (Clone.wName w)) = true)
    (hd1 : Clone.wDict w gs.props = .ok ()) (hd2 : Clone.wDict w gs.mstore = .ok ())
    (hin : ∀ v, v ∈ gs.inputs → ¬ v ∈ A.owned ∧ ¬ v ∈ A.produced)
    (hout : ∀ v, v ∈ gs.outputs → ¬ v ∈ A.owned)
    (hinit : ∀ v, v ∈ gs.inits.map (·.2) → ¬ v ∈ A.owned ∧ ¬ v ∈ A.produced)
    (hnamed : wAll (fun n => (Clone.wNodeCell w n).bind fun nsr =>
      wAll (fun o => if (Clone.wName w o).isNone then WRes.err (.unsupported "unnamed value (name authority)")
        else WRes.ok ()) nsr.outputs) gs.nodes = .ok ()) :
    Clone.wMkGraph w gs A =
      .ok { A with owned := A.owned ++ gs.inputs ++ gs.outputs ++ gs.inits.map (·.2) } := by
  have e2 : wAll (fun v => if A.owned.contains v then WRes.err (.raised "input owned by a different graph")
      else if A.produced.contains v then WRes.err (.raised "input is produced by a node") else WRes.ok ())
      gs.inputs = .ok () := by
    apply wAll_of
    intro v hv
    have := hin v hv
    simp [this.1, this.2]
  have e3 : wAll (fun v => if A.owned.contains v then WRes.err (.raised "value owned by a different graph")
      else WRes.ok ()) gs.outputs = .ok () := by
    apply wAll_of
    intro v hv
    simp [hout v hv]
  have e4 : wAll (fun v => if A.owned.contains v then WRes.err (.raised "value owned by a different graph")
      else WRes.ok ()) (gs.inits.map (·.2)) = .ok () := by
    apply wAll_of
    intro v hv
    simp [(hinit v hv).1]
  have e5 : wAll (fun v => if Clone.wName w v = some "" then WRes.err (.raised "initializer with an empty name")
      else if A.produced.contains v then WRes.err (.raised "initializer produced by a node") else WRes.ok ())
      (gs.inits.map (·.2)) = .ok () := by
    apply wAll_of
    intro v hv
    obtain ⟨nm, hn, hne⟩ := wName_reg (hreg v (List.mem_append_right _ hv))
    have h1 : ¬ (Clone.wName w v = some "") := by rw [hn]; simpa using hne
    simp [h1, (hinit v hv).2]
  have e6 : wAll (fun v => if (Clone.wName w v).isNone then WRes.err (.unsupported "unnamed value (name authority)")
      else WRes.ok ()) gs.inputs = .ok () := by
    apply wAll_of
    intro v hv
    obtain ⟨nm, hn, _⟩ := wName_reg (hreg v (List.mem_append_left _ hv))
    simp [hn]
  have key : ∀ (F : Nat → WRes Unit), (∀ v, v ∈ gs.inits.map (·.2) → F v = .ok ()) →
      ∀ k : Unit → WRes Sc, (wAll F (gs.inits.map (·.2))).bind k = k () := by
    intro F hF k; rw [wAll_of hF]; rfl
  unfold Clone.wMkGraph
  simp only [e2, e3, e4, e5, e6, hnamed, hdist, hd1, hd2, wres_ok_bind, if_true]
  refine Eq.trans (key _ ?_ _) rfl
  intro v hv
  obtain ⟨nm, hn, _⟩ := wName_reg (hreg v (List.mem_append_right _ hv))
  simp [hn]


theorem count_append_of_not_mem {v : Nat} {l outs : List Nat} (h : ¬ v ∈ outs) :
    (l ++ outs).count v = l.count v := by
  rw [List.count_append, List.count_eq_zero_of_not_mem h, Nat.add_zero]

mutual
  theorem simG (w : Heap) : ∀ (t : GraphT) (fuel g : Nat) (s s' : CSt) (A : Sc),
      RepG w t g → RegG w t → depthG t ≤ fuel → nrG s.m t → SimSt s A → cloneGO s t = .ok s' →
      ∃ A', Clone.wGraph w false fuel g A = .ok A' ∧ SimSt s' A' ∧ Ext s s'
    | .mk gid ins inits outs ns, fuel, g, s, s', A, hrep, hreg, hd, hnr, hsim, h => by
      cases fuel with
      | zero => simp [depthG] at hd
      | succ f =>
        simp only [RepG] at hrep
        obtain ⟨gs, hc, hins, hinits, houts, hd1, hd2, hns⟩ := hrep
        simp only [RegG] at hreg
        obtain ⟨hrv, hdist, hrns⟩ := hreg
        simp only [depthG] at hd
        simp only [nrG] at hnr
        rw [cloneGO] at h
        simp only [] at h
        cases hN : cloneNsO { s with m := s.m ++ ins ++ inits } ns with
        | error e => rw [hN] at h; cases h
        | ok s2 =>
          rw [hN] at h
          simp only [] at h
          split at h
          · rename_i hall
            split at h
            · cases h
            · rename_i hgood
              cases h
              subst hins houts
              have hrv1 : ∀ v, v ∈ gs.inputs → RegVal w v := fun v hv => hrv v (List.mem_append_left _ hv)
              have hrv2 : ∀ v, v ∈ gs.inits.map (·.2) → RegVal w v :=
                fun v hv => hrv v (List.mem_append_right _ (by rw [← hinits]; exact hv))
              obtain ⟨A1, hA1, hb1, ho1, hp1⟩ := wFold_cloneOrGet (w := w) gs.inputs A hrv1
              obtain ⟨A2, hA2, hb2, ho2, hp2⟩ := wFold_cloneOrGet (w := w) (gs.inits.map (·.2)) A1 hrv2
              obtain ⟨ol, hol⟩ := wAllOutputs_rep ns gs.nodes hns
              have hsim1 : SimSt { s with m := s.m ++ gs.inputs ++ inits } { A2 with pend := A2.pend ++ ol } := by
                refine ⟨?_, ?_, ?_, ?_⟩
                · intro v
                  show v ∈ A2.bound ↔ v ∈ s.m ++ gs.inputs ++ inits
                  rw [hb2 v, hb1 v, hsim.bnd v, hinits]
                  simp only [List.mem_append]
                · intro v hv
                  have : v ∈ A.owned := by
                    have : v ∈ A2.owned := hv
                    rw [ho2, ho1] at this; exact this
                  exact hsim.own v this
                · intro v hv
                  have : v ∈ A.produced := by
                    have : v ∈ A2.produced := hv
                    rw [hp2, hp1] at this; exact this
                  exact hsim.prod v this
                · intro v hv
                  have : v ∈ A.owned := by
                    have : v ∈ A2.owned := hv
                    rw [ho2, ho1] at this; exact this
                  show v ∈ s.m ++ gs.inputs ++ inits
                  simp only [List.mem_append]
                  exact Or.inl (Or.inl (hsim.ownB v this))
              obtain ⟨A4, hA4, hsim4, hext⟩ := simNs w ns gs.nodes f { s with m := s.m ++ gs.inputs ++ inits } s2
                { A2 with pend := A2.pend ++ ol } hns hrns (by omega) hnr hsim1 hN
              -- the clone of a listed input / initializer is the one captured at the start
              have hcnt : ∀ v, v ∈ gs.inputs ++ inits → s2.outs.count v = s.outs.count v := by
                intro v hv
                apply hext.2 v
                show v ∈ s.m ++ gs.inputs ++ inits
                simp only [List.mem_append] at hv ⊢
                rcases hv with hv | hv
                · exact Or.inl (Or.inr hv)
                · exact Or.inr hv
              have hg : ((∀ x, x ∈ gs.inputs → ¬ s.cur x ∈ s2.owned ∧ (s.cur x).2 = 0) ∧
                  (∀ x, x ∈ gs.outputs → ¬ s2.cur x ∈ s2.owned)) ∧
                  (∀ x, x ∈ inits → ¬ s.cur x ∈ s2.owned ∧ (s.cur x).2 = 0) := by
                simpa [Bool.or_eq_false_iff, Bool.or_eq_true, not_or] using hgood
              have hgood' : ∀ v, v ∈ gs.inputs ++ inits → ¬ s.cur v ∈ s2.owned ∧ (s.cur v).2 = 0 := by
                intro v hv
                rcases List.mem_append.mp hv with hv | hv
                · exact hg.1.1 v hv
                · exact hg.2 v hv
              have hgoodO : ∀ v, v ∈ gs.outputs → ¬ s2.cur v ∈ s2.owned := hg.1.2
              have hin : ∀ v, v ∈ gs.inputs ++ inits → ¬ v ∈ A4.owned ∧ ¬ v ∈ A4.produced := by
                intro v hv
                have hg := hgood' v hv
                constructor
                · intro ho
                  have := hsim4.own v ho
                  rw [hcnt v hv] at this
                  exact hg.1 this
                · intro hp
                  have hm := hsim4.prod v hp
                  have : s2.outs.count v ≠ 0 := by
                    intro h0
                    exact (List.count_eq_zero.mp h0) hm
                  rw [hcnt v hv] at this
                  exact this hg.2
              have hmk := wMkGraph_ok (w := w) (gs := gs) (A := A4)
                (by intro v hv; rw [hinits] at hv; exact hrv v hv)
                (by rw [hinits]; exact hdist) hd1 hd2
                (fun v hv => hin v (List.mem_append_left _ hv))
                (by
                  intro v hv ho
                  exact hgoodO v hv (hsim4.own v ho))
                (fun v hv => hin v (List.mem_append_right _ (by rw [← hinits]; exact hv)))
                (nodesNamed_rep ns gs.nodes hns hrns)
              have houtsB : wAll (fun v => if A4.bound.contains v then WRes.ok ()
                  else WRes.err (.raised "graph output is not in the value map")) gs.outputs = .ok () := by
                apply wAll_of
                intro v hv
                have : v ∈ s2.m := by simpa using List.all_eq_true.mp hall v hv
                have : v ∈ A4.bound := (hsim4.bnd v).mpr this
                simp [this]
              refine ⟨{ A4 with owned := A4.owned ++ gs.inputs ++ gs.outputs ++ gs.inits.map (·.2) }, ?_, ?_, ?_⟩
              · rw [Clone.wGraph]
                simp only [Clone.wGraphStep, Clone.wGraphCell, Clone.wCell, hc, wres_ok_bind, hA1, hA2, hol, hA4,
                  houtsB]
                exact hmk
              · refine ⟨hsim4.bnd, ?_, hsim4.prod, ?_⟩
                · intro v hv
                  show (v, s2.outs.count v) ∈ s2.owned ++ gs.inputs.map s.cur ++ gs.outputs.map s2.cur ++ inits.map s.cur
                  have hv' : v ∈ A4.owned ++ gs.inputs ++ gs.outputs ++ gs.inits.map (·.2) := hv
                  simp only [List.mem_append] at hv' ⊢
                  rcases hv' with ((hv' | hv') | hv') | hv'
                  · exact Or.inl (Or.inl (Or.inl (hsim4.own v hv')))
                  · refine Or.inl (Or.inl (Or.inr (List.mem_map.mpr ⟨v, hv', ?_⟩)))
                    show (v, s.outs.count v) = _
                    rw [hcnt v (List.mem_append_left _ hv')]
                  · exact Or.inl (Or.inr (List.mem_map.mpr ⟨v, hv', rfl⟩))
                  · rw [hinits] at hv'
                    refine Or.inr (List.mem_map.mpr ⟨v, hv', ?_⟩)
                    show (v, s.outs.count v) = _
                    rw [hcnt v (List.mem_append_right _ hv')]
                · intro v hv
                  show v ∈ s2.m
                  have hv' : v ∈ A4.owned ++ gs.inputs ++ gs.outputs ++ gs.inits.map (·.2) := hv
                  simp only [List.mem_append] at hv'
                  rcases hv' with ((hv' | hv') | hv') | hv'
                  · exact hsim4.ownB v hv'
                  · apply hext.1 v
                    show v ∈ s.m ++ gs.inputs ++ inits
                    simp only [List.mem_append]; exact Or.inl (Or.inr hv')
                  · simpa using List.all_eq_true.mp hall v hv'
                  · rw [hinits] at hv'
                    apply hext.1 v
                    show v ∈ s.m ++ gs.inputs ++ inits
                    simp only [List.mem_append]; exact Or.inr hv'
              · constructor
                · intro v hv
                  apply hext.1 v
                  show v ∈ s.m ++ gs.inputs ++ inits
                  simp only [List.mem_append]; exact Or.inl (Or.inl hv)
                · intro v hv
                  apply hext.2 v
                  show v ∈ s.m ++ gs.inputs ++ inits
                  simp only [List.mem_append]; exact Or.inl (Or.inl hv)
          · cases h
  theorem simNs (w : Heap) : ∀ (ns : List NodeT) (is : List Nat) (f : Nat) (s s' : CSt) (A : Sc),
      RepNs w ns is → RegNs w ns → depthNs ns ≤ f → nrNs s.m ns → SimSt s A → cloneNsO s ns = .ok s' →
      ∃ A', wFold (Clone.wNode w false (Clone.wGraph w false f)) is A = .ok A' ∧ SimSt s' A' ∧ Ext s s'
    | [], is, f, s, s', A, hrep, _, _, _, hsim, h => by
      simp only [RepNs] at hrep
      subst hrep
      rw [cloneNsO] at h
      cases h
      exact ⟨A, rfl, hsim, Ext.refl s⟩
    | n :: ns, is, f, s, s', A, hrep, hreg, hd, hnr, hsim, h => by
      simp only [RepNs] at hrep
      obtain ⟨i, rest, rfl, hn, hrest⟩ := hrep
      simp only [RegNs] at hreg
      simp only [depthNs] at hd
      simp only [nrNs] at hnr
      rw [cloneNsO] at h
      cases hN : cloneNO s n with
      | error e => rw [hN] at h; cases h
      | ok s1 =>
        rw [hN] at h
        simp only [] at h
        obtain ⟨A1, hA1, hsim1, hext1⟩ := simN w n i f s s1 A hn hreg.1 (by omega) hnr.1 hsim hN
        obtain ⟨A2, hA2, hsim2, hext2⟩ := simNs w ns rest f s1 s' A1 hrest hreg.2 (by omega)
          (hnr.2 s1.m (cloneNO_m hN)) hsim1 h
        exact ⟨A2, by rw [wFold, hA1]; exact hA2, hsim2, hext1.trans hext2⟩
  theorem simN (w : Heap) : ∀ (n : NodeT) (i f : Nat) (s s' : CSt) (A : Sc),
      RepN w n i → RegN w n → depthN n ≤ f → nrN s.m n → SimSt s A → cloneNO s n = .ok s' →
      ∃ A', Clone.wNode w false (Clone.wGraph w false f) i A = .ok A' ∧ SimSt s' A' ∧ Ext s s'
    | .mk ins outs bs, i, f, s, s', A, hrep, hreg, hd, hnr, hsim, h => by
      simp only [RepN] at hrep
      obtain ⟨nsr, gl, hc, hins, houts, hattrs, hdev, hd1, hd2, hbs⟩ := hrep
      simp only [RegN] at hreg
      simp only [depthN] at hd
      simp only [nrN] at hnr
      obtain ⟨hnrG, hnd, hnb⟩ := hnr
      rw [cloneNO] at h
      split at h
      · rename_i hin
        cases hG : cloneGsO s bs with
        | error e => rw [hG] at h; cases h
        | ok s1 =>
          rw [hG] at h
          simp only [] at h
          cases h
          obtain ⟨A1, hA1, hsim1, hext1⟩ := simGs w bs gl f s s1 A hbs hreg.2 hd hnrG hsim hG
          have hbound : ∀ v, some v ∈ nsr.inputs → v ∈ A.bound := by
            intro v hv
            rw [hins] at hv
            have : v ∈ ins.filterMap id := by simpa [List.mem_filterMap] using hv
            have := List.all_eq_true.mp hin v this
            exact (hsim.bnd v).mpr (by simpa using this)
          have hnb1 : ∀ o, o ∈ nsr.outputs → ¬ o ∈ A1.bound := by
            intro o ho hb
            rw [houts] at ho
            exact hnb s1.m (cloneGsO_m hG) o ho ((hsim1.bnd o).mp hb)
          obtain ⟨A2, hA2, hb2, ho2, hp2⟩ := wFold_output (w := w) nsr.outputs A1
            (fun o ho => hreg.1 o (by rw [← houts]; exact ho)) (by rw [houts]; exact hnd) hnb1
          refine ⟨{ A2 with produced := nsr.outputs.reverse ++ A2.produced }, ?_, ?_, ?_⟩
          · unfold Clone.wNode
            simp only [Clone.wNodeCell, Clone.wCell, hc, wres_ok_bind, wMapInputs_ok A nsr.inputs hbound,
              wFold_attrs w _ nsr.attrs gl A hattrs, hA1, hd1, hd2, hA2, hdev, List.any_nil, Bool.and_false,
              Bool.false_eq_true, if_false, wPassthrough_ok w A nsr.inputs hbound]
          · refine ⟨?_, ?_, ?_, ?_⟩
            · intro v
              show v ∈ A2.bound ↔ v ∈ s1.m ++ outs
              rw [hb2 v, hsim1.bnd v, houts, List.mem_append]
            · intro v hv
              have hv1 : v ∈ A1.owned := by
                have : v ∈ A2.owned := hv
                rw [ho2] at this; exact this
              show (v, (s1.outs ++ outs).count v) ∈ s1.owned
              have hno : ¬ v ∈ outs := fun ho =>
                hnb s1.m (cloneGsO_m hG) v ho (hsim1.ownB v hv1)
              rw [count_append_of_not_mem hno]
              exact hsim1.own v hv1
            · intro v hv
              show v ∈ s1.outs ++ outs
              have hv' : v ∈ nsr.outputs.reverse ++ A2.produced := hv
              rw [List.mem_append, List.mem_reverse, hp2, houts] at hv'
              rw [List.mem_append]
              rcases hv' with hv' | hv'
              · exact Or.inr hv'
              · exact Or.inl (hsim1.prod v hv')
            · intro v hv
              have hv1 : v ∈ A1.owned := by
                have : v ∈ A2.owned := hv
                rw [ho2] at this; exact this
              show v ∈ s1.m ++ outs
              exact List.mem_append_left _ (hsim1.ownB v hv1)
          · constructor
            · intro v hv
              show v ∈ s1.m ++ outs
              exact List.mem_append_left _ (hext1.1 v hv)
            · intro v hv
              show (s1.outs ++ outs).count v = s.outs.count v
              have hno : ¬ v ∈ outs := fun ho => hnb s1.m (cloneGsO_m hG) v ho (hext1.1 v hv)
              rw [count_append_of_not_mem hno]
              exact hext1.2 v hv
      · cases h
  theorem simGs (w : Heap) : ∀ (bs : List GraphT) (gl : List Nat) (f : Nat) (s s' : CSt) (A : Sc),
      RepGs w bs gl → RegGs w bs → depthGs bs ≤ f → nrGs s.m bs → SimSt s A → cloneGsO s bs = .ok s' →
      ∃ A', wFold (Clone.wGraph w false f) gl A = .ok A' ∧ SimSt s' A' ∧ Ext s s'
    | [], gl, f, s, s', A, hrep, _, _, _, hsim, h => by
      simp only [RepGs] at hrep
      subst hrep
      rw [cloneGsO] at h
      cases h
      exact ⟨A, rfl, hsim, Ext.refl s⟩
    | b :: bs, gl, f, s, s', A, hrep, hreg, hd, hnr, hsim, h => by
      simp only [RepGs] at hrep
      obtain ⟨g, rest, rfl, hb, hrest⟩ := hrep
      simp only [RegGs] at hreg
      simp only [depthGs] at hd
      simp only [nrGs] at hnr
      rw [cloneGsO] at h
      cases hG : cloneGO s b with
      | error e => rw [hG] at h; cases h
      | ok s1 =>
        rw [hG] at h
        simp only [] at h
        obtain ⟨A1, hA1, hsim1, hext1⟩ := simG w b f g s s1 A hb hreg.1 (by omega) hnr.1 hsim hG
        obtain ⟨A2, hA2, hsim2, hext2⟩ := simGs w bs rest f s1 s' A1 hrest hreg.2 (by omega)
          (hnr.2 s1.m (cloneGO_m hG)) hsim1 h
        exact ⟨A2, by rw [wFold, hA1]; exact hA2, hsim2, hext1.trans hext2⟩
end


mutual
  theorem nrG_of_B : ∀ (t : GraphT) (m : List VId), nrGB m t = true → nrG m t
    | .mk _ ins inits _ ns, m, h => by
      rw [nrGB] at h; rw [nrG]; exact nrNs_of_B ns _ h
  theorem nrNs_of_B : ∀ (ns : List NodeT) (m : List VId), nrNsB m ns = true → nrNs m ns
    | [], _, _ => by rw [nrNs]; trivial
    | n :: ns, m, h => by
      rw [nrNsB, Bool.and_eq_true] at h
      rw [nrNs]
      refine ⟨nrN_of_B n m h.1, ?_⟩
      intro m1 hm1
      have h2 := h.2
      rw [hm1] at h2
      exact nrNs_of_B ns m1 h2
  theorem nrN_of_B : ∀ (n : NodeT) (m : List VId), nrNB m n = true → nrN m n
    | .mk _ outs bs, m, h => by
      rw [nrNB, Bool.and_eq_true, Bool.and_eq_true] at h
      rw [nrN]
      refine ⟨nrGs_of_B bs m h.1.1, nodup_of_B h.1.2, ?_⟩
      intro m1 hm1 o ho
      have h2 := h.2
      rw [hm1] at h2
      have := List.all_eq_true.mp h2 o ho
      simpa using this
  theorem nrGs_of_B : ∀ (bs : List GraphT) (m : List VId), nrGsB m bs = true → nrGs m bs
    | [], _, _ => by rw [nrGs]; trivial
    | b :: bs, m, h => by
      rw [nrGsB, Bool.and_eq_true] at h
      rw [nrGs]
      refine ⟨nrG_of_B b m h.1, ?_⟩
      intro m1 hm1
      have h2 := h.2
      rw [hm1] at h2
      exact nrGs_of_B bs m1 h2
end

end IrVerif.Extract

/-
C10 helper lemmas: what running the statement lists of the five entry points (`body`) amounts to.
`callSpec` is a closed form used only in proofs; `call_eq_spec` shows that executing the bodies
computes it.
-/
import IrVerif.Model.Path
namespace IrVerif.Path

/-- the events of a check followed (when it does not reject) by an open of the tensor's path -/
def guardedEvents (fs : FS) (kfuel fuel : Nat) (cwdS : Str) (cwd : Loc) (base loc : Str) : List Ev :=
  let v := checkContainment fs kfuel fuel cwdS cwd base loc
  if rejecting v then [Ev.check v]
  else [Ev.check v, Ev.openEv (tensorPath base loc) ((openFile fs kfuel cwd (tensorPath base loc)).map Prod.fst)]

/-- the inode (and its regular flag) a check-then-open reaches -/
def guardedOpen (fs : FS) (kfuel fuel : Nat) (cwdS : Str) (cwd : Loc) (base loc : Str) : Option (Nat × Bool) :=
  if rejecting (checkContainment fs kfuel fuel cwdS cwd base loc) then none
  else openFile fs kfuel cwd (tensorPath base loc)

/-- closed form of `_load`: (completed?, state afterwards) -/
def loadSpec (fs : FS) (kfuel fuel : Nat) (cwdS : Str) (cwd : Loc) (base loc : Str) (offset length : Nat)
    (st : TState) : Bool × TState :=
  match guardedOpen fs kfuel fuel cwdS cwd base loc with
  | none => (false, st)
  | some (i, reg) =>
    if reg = false ∨ fs.data i = [] then (false, st)
    else if (fs.data i).length < offset + length then (false, { raw := some i, arr := false })
    else (true, { raw := some i, arr := true })

def callSpec (fs : FS) (kfuel fuel : Nat) (cwdS : Str) (cwd : Loc) (base loc : Str) (offset length : Nat)
    (ep : EntryPoint) (st : TState) : ReadResult × List Ev × TState :=
  let ge := guardedEvents fs kfuel fuel cwdS cwd base loc
  let ls := loadSpec fs kfuel fuel cwdS cwd base loc offset length st
  let viaLoad (fin : TState → TState) : ReadResult × List Ev × TState :=
    match ls.1, ls.2.raw with
    | true, some i => (ReadResult.ok (sliceOf (fs.data i) offset length), ge, fin ls.2)
    | _, _ => (ReadResult.raised, ge, ls.2)
  match ep with
  | EntryPoint.tofile =>
    match guardedOpen fs kfuel fuel cwdS cwd base loc with
    | none => (ReadResult.raised, ge, st)
    | some (i, _) =>
      if 0 < length ∧ (fs.data i).length < offset + length then (ReadResult.raised, ge, st)
      else (ReadResult.ok (sliceOf (fs.data i) offset length), ge, st)
  | EntryPoint.tobytes =>
    match st.arr, st.raw with
    | true, some j => (ReadResult.ok (sliceOf (fs.data j) offset length), [], st)
    | _, _ => viaLoad id
  | EntryPoint.serializeRaw =>
    match st.arr, st.raw with
    | true, some j => (ReadResult.ok (sliceOf (fs.data j) offset length), [], TState.fresh)
    | true, none => (ReadResult.raised, [], st)
    | false, _ => viaLoad (fun _ => TState.fresh)
  | _ =>
    match st.arr, st.raw with
    | true, some j => (ReadResult.ok (sliceOf (fs.data j) offset length), [], st)
    | true, none => (ReadResult.raised, [], st)
    | false, _ => viaLoad id

/-- executing `_load`'s statements from a run that has not raised -/
theorem exec_loadBody (e : Env) (r : Run) (hr : r.raised = false) :
    execPrims e r loadBody =
      { st := (loadSpec e.fs e.kfuel e.fuel e.cwdS e.cwd e.base e.loc e.offset e.length r.st).2,
        events := r.events ++ guardedEvents e.fs e.kfuel e.fuel e.cwdS e.cwd e.base e.loc,
        pending := r.pending,
        raised := !(loadSpec e.fs e.kfuel e.fuel e.cwdS e.cwd e.base e.loc e.offset e.length r.st).1 } := by
  obtain ⟨st, events, pending, raised⟩ := r
  simp only at hr
  subst hr
  unfold loadBody loadSpec guardedOpen guardedEvents
  by_cases hv : rejecting (checkContainment e.fs e.kfuel e.fuel e.cwdS e.cwd e.base e.loc) = true
  · simp [execPrims, execPrim, hv]
  · have hv' : rejecting (checkContainment e.fs e.kfuel e.fuel e.cwdS e.cwd e.base e.loc) = false := by
      simpa using hv
    cases ho : openFile e.fs e.kfuel e.cwd (tensorPath e.base e.loc) with
    | none => simp [execPrims, execPrim, hv', ho]
    | some ir =>
      obtain ⟨i, reg⟩ := ir
      by_cases h1 : reg = false ∨ e.fs.data i = []
      · simp [execPrims, execPrim, hv', ho, h1]
      · by_cases h2 : (e.fs.data i).length < e.offset + e.length
        · simp [execPrims, execPrim, hv', ho, h1, h2]
        · simp [execPrims, execPrim, hv', ho, h1, h2]

theorem loadSpec_ok (fs : FS) (kfuel fuel : Nat) (cwdS : Str) (cwd : Loc) (base loc : Str)
    (offset length : Nat) (st : TState)
    (h : (loadSpec fs kfuel fuel cwdS cwd base loc offset length st).1 = true) :
    ∃ i, guardedOpen fs kfuel fuel cwdS cwd base loc = some (i, true) ∧
      (loadSpec fs kfuel fuel cwdS cwd base loc offset length st).2 = { raw := some i, arr := true } := by
  unfold loadSpec at h ⊢
  cases hg : guardedOpen fs kfuel fuel cwdS cwd base loc with
  | none => simp [hg] at h
  | some ir =>
    obtain ⟨i, reg⟩ := ir
    simp only [hg] at h ⊢
    by_cases h1 : reg = false ∨ fs.data i = []
    · simp [h1] at h
    · by_cases h2 : (fs.data i).length < offset + length
      · simp [h1, h2] at h
      · have hreg : reg = true := by
          cases reg <;> simp_all
        subst hreg
        have h1' : ¬ fs.data i = [] := fun e => h1 (Or.inr e)
        exact ⟨i, rfl, by simp [h1', h2]⟩

theorem call_eq_spec (fs : FS) (kfuel fuel : Nat) (cwdS : Str) (cwd : Loc) (base loc : Str)
    (offset length : Nat) (ep : EntryPoint) (st : TState) :
    call fs kfuel fuel cwdS cwd base loc offset length ep st =
      callSpec fs kfuel fuel cwdS cwd base loc offset length ep st := by
  obtain ⟨raw, arr⟩ := st
  unfold call runBody callSpec
  cases ep with
  | tofile =>
    simp only [body, execStmts, execStmt, execPrim, guardedOpen, guardedEvents]
    by_cases hv : rejecting (checkContainment fs kfuel fuel cwdS cwd base loc) = true
    · simp [hv]
    · have hv' : rejecting (checkContainment fs kfuel fuel cwdS cwd base loc) = false := by simpa using hv
      cases ho : openFile fs kfuel cwd (tensorPath base loc) with
      | none => simp [hv', ho]
      | some ir =>
        obtain ⟨i, reg⟩ := ir
        by_cases h2 : 0 < length ∧ (fs.data i).length < offset + length
        · simp [hv', ho, h2]
        · simp [hv', ho, h2]
  | tobytes =>
    cases arr with
    | true =>
      cases raw with
      | some j => simp [body, execStmts, execStmt, execPrim]
      | none =>
        simp only [body, execStmts, execStmt, true_or, if_true, Bool.false_eq_true, if_false]
        rw [exec_loadBody _ _ rfl]
        simp only [List.nil_append]
        cases hl1 : (loadSpec fs kfuel fuel cwdS cwd base loc offset length { raw := none, arr := true }).1 with
        | false => simp [hl1]
        | true =>
          obtain ⟨i, _, hst⟩ := loadSpec_ok _ _ _ _ _ _ _ _ _ _ hl1
          simp [hl1, hst, execPrim]
    | false =>
      simp only [body, execStmts, execStmt, or_true, if_true, Bool.false_eq_true, if_false]
      rw [exec_loadBody _ _ rfl]
      simp only [List.nil_append]
      cases hl1 : (loadSpec fs kfuel fuel cwdS cwd base loc offset length { raw := raw, arr := false }).1 with
      | false => simp [hl1]
      | true =>
        obtain ⟨i, _, hst⟩ := loadSpec_ok _ _ _ _ _ _ _ _ _ _ hl1
        simp [hl1, hst, execPrim]
  | numpy =>
    cases arr with
    | true =>
      cases raw <;> simp [body, execStmts, execStmt, execPrim]
    | false =>
      simp only [body, execStmts, execStmt, if_true, Bool.false_eq_true, if_false]
      rw [exec_loadBody _ _ rfl]
      simp only [List.nil_append]
      cases hl1 : (loadSpec fs kfuel fuel cwdS cwd base loc offset length { raw := raw, arr := false }).1 with
      | false => simp [hl1]
      | true =>
        obtain ⟨i, _, hst⟩ := loadSpec_ok _ _ _ _ _ _ _ _ _ _ hl1
        simp [hl1, hst, execPrim, TState.fresh]
  | array =>
    cases arr with
    | true =>
      cases raw <;> simp [body, execStmts, execStmt, execPrim]
    | false =>
      simp only [body, execStmts, execStmt, if_true, Bool.false_eq_true, if_false]
      rw [exec_loadBody _ _ rfl]
      simp only [List.nil_append]
      cases hl1 : (loadSpec fs kfuel fuel cwdS cwd base loc offset length { raw := raw, arr := false }).1 with
      | false => simp [hl1]
      | true =>
        obtain ⟨i, _, hst⟩ := loadSpec_ok _ _ _ _ _ _ _ _ _ _ hl1
        simp [hl1, hst, execPrim, TState.fresh]
  | serializeRaw =>
    cases arr with
    | true =>
      cases raw <;> simp [body, execStmts, execStmt, execPrim]
    | false =>
      simp only [body, execStmts, execStmt, if_true, Bool.false_eq_true, if_false]
      rw [exec_loadBody _ _ rfl]
      simp only [List.nil_append]
      cases hl1 : (loadSpec fs kfuel fuel cwdS cwd base loc offset length { raw := raw, arr := false }).1 with
      | false => simp [hl1]
      | true =>
        obtain ⟨i, _, hst⟩ := loadSpec_ok _ _ _ _ _ _ _ _ _ _ hl1
        simp [hl1, hst, execPrim, TState.fresh]

theorem guardedEvents_head (fs : FS) (kfuel fuel : Nat) (cwdS : Str) (cwd : Loc) (base loc : Str) :
    (guardedEvents fs kfuel fuel cwdS cwd base loc).head? =
      some (Ev.check (checkContainment fs kfuel fuel cwdS cwd base loc)) := by
  unfold guardedEvents
  simp only
  split <;> rfl

theorem guardedEvents_rej (fs : FS) (kfuel fuel : Nat) (cwdS : Str) (cwd : Loc) (base loc : Str)
    (h : rejecting (checkContainment fs kfuel fuel cwdS cwd base loc) = true) :
    guardedEvents fs kfuel fuel cwdS cwd base loc =
      [Ev.check (checkContainment fs kfuel fuel cwdS cwd base loc)] ∧
    guardedOpen fs kfuel fuel cwdS cwd base loc = none := by
  unfold guardedEvents guardedOpen
  simp [h]

theorem guardedEvents_open (fs : FS) (kfuel fuel : Nat) (cwdS : Str) (cwd : Loc) (base loc : Str)
    (p : Str) (oi : Option Nat) (h : Ev.openEv p oi ∈ guardedEvents fs kfuel fuel cwdS cwd base loc) :
    p = tensorPath base loc ∧ rejecting (checkContainment fs kfuel fuel cwdS cwd base loc) = false ∧
      oi = (guardedOpen fs kfuel fuel cwdS cwd base loc).map Prod.fst := by
  unfold guardedEvents at h
  unfold guardedOpen
  by_cases hv : rejecting (checkContainment fs kfuel fuel cwdS cwd base loc) = true
  · simp [hv] at h
  · have hv' : rejecting (checkContainment fs kfuel fuel cwdS cwd base loc) = false := by simpa using hv
    simp [hv'] at h
    simp [hv', h.1, h.2]

theorem guardedOpen_event (fs : FS) (kfuel fuel : Nat) (cwdS : Str) (cwd : Loc) (base loc : Str)
    (i : Nat) (reg : Bool) (h : guardedOpen fs kfuel fuel cwdS cwd base loc = some (i, reg)) :
    Ev.openEv (tensorPath base loc) (some i) ∈ guardedEvents fs kfuel fuel cwdS cwd base loc ∧
      rejecting (checkContainment fs kfuel fuel cwdS cwd base loc) = false ∧
      openFile fs kfuel cwd (tensorPath base loc) = some (i, reg) := by
  unfold guardedOpen at h
  unfold guardedEvents
  by_cases hv : rejecting (checkContainment fs kfuel fuel cwdS cwd base loc) = true
  · simp [hv] at h
  · have hv' : rejecting (checkContainment fs kfuel fuel cwdS cwd base loc) = false := by simpa using hv
    simp only [hv', Bool.false_eq_true, if_false] at h
    simp [hv', h]

/-- events of a call: none (only a non-`tofile` entry point on a tensor with cached state), or the
check-then-open events -/
theorem callSpec_events (fs : FS) (kfuel fuel : Nat) (cwdS : Str) (cwd : Loc) (base loc : Str)
    (offset length : Nat) (ep : EntryPoint) (st : TState) :
    ((callSpec fs kfuel fuel cwdS cwd base loc offset length ep st).2.1 = [] ∧
        ep ≠ EntryPoint.tofile ∧ st ≠ TState.fresh) ∨
    (callSpec fs kfuel fuel cwdS cwd base loc offset length ep st).2.1 =
        guardedEvents fs kfuel fuel cwdS cwd base loc := by
  obtain ⟨raw, arr⟩ := st
  unfold callSpec
  cases ep with
  | tofile =>
    right
    simp only
    split
    · rfl
    · split <;> rfl
  | tobytes =>
    cases arr <;> cases raw <;> simp only
    · right; split <;> rfl
    · right; split <;> rfl
    · right; split <;> rfl
    · left; simp [TState.fresh]
  | numpy =>
    cases arr <;> cases raw <;> simp only
    · right; split <;> rfl
    · right; split <;> rfl
    · left; simp [TState.fresh]
    · left; simp [TState.fresh]
  | array =>
    cases arr <;> cases raw <;> simp only
    · right; split <;> rfl
    · right; split <;> rfl
    · left; simp [TState.fresh]
    · left; simp [TState.fresh]
  | serializeRaw =>
    cases arr <;> cases raw <;> simp only
    · right; split <;> rfl
    · right; split <;> rfl
    · left; simp [TState.fresh]
    · left; simp [TState.fresh]

/-- a fresh tensor always performs the check-then-open events, whatever the entry point -/
theorem callSpec_fresh_events (fs : FS) (kfuel fuel : Nat) (cwdS : Str) (cwd : Loc) (base loc : Str)
    (offset length : Nat) (ep : EntryPoint) :
    (callSpec fs kfuel fuel cwdS cwd base loc offset length ep TState.fresh).2.1 =
      guardedEvents fs kfuel fuel cwdS cwd base loc := by
  rcases callSpec_events fs kfuel fuel cwdS cwd base loc offset length ep TState.fresh with ⟨_, _, h⟩ | h
  · exact absurd rfl h
  · exact h

/-- the bytes a call returns, and the inode it maps afterwards -/
theorem callSpec_result (fs : FS) (kfuel fuel : Nat) (cwdS : Str) (cwd : Loc) (base loc : Str)
    (offset length : Nat) (ep : EntryPoint) (st : TState) :
    (∀ bytes, (callSpec fs kfuel fuel cwdS cwd base loc offset length ep st).1 = ReadResult.ok bytes →
      ∃ i, bytes = sliceOf (fs.data i) offset length ∧
        ((∃ reg, guardedOpen fs kfuel fuel cwdS cwd base loc = some (i, reg) ∧
            (callSpec fs kfuel fuel cwdS cwd base loc offset length ep st).2.1 =
              guardedEvents fs kfuel fuel cwdS cwd base loc) ∨
          ((callSpec fs kfuel fuel cwdS cwd base loc offset length ep st).2.1 = [] ∧ st.raw = some i))) ∧
    (∀ i, (callSpec fs kfuel fuel cwdS cwd base loc offset length ep st).2.2.raw = some i →
      st.raw = some i ∨ (guardedOpen fs kfuel fuel cwdS cwd base loc = some (i, true) ∧
        (callSpec fs kfuel fuel cwdS cwd base loc offset length ep st).2.1 =
          guardedEvents fs kfuel fuel cwdS cwd base loc)) := by
  obtain ⟨raw, arr⟩ := st
  -- facts about a completed / uncompleted load
  have hload : ∀ st0 : TState, ∀ i,
      (loadSpec fs kfuel fuel cwdS cwd base loc offset length st0).2.raw = some i →
      st0.raw = some i ∨ guardedOpen fs kfuel fuel cwdS cwd base loc = some (i, true) := by
    intro st0 i h
    unfold loadSpec at h
    cases hg : guardedOpen fs kfuel fuel cwdS cwd base loc with
    | none => simp only [hg] at h; exact Or.inl h
    | some ir =>
      obtain ⟨j, reg⟩ := ir
      simp only [hg] at h
      by_cases h1 : reg = false ∨ fs.data j = []
      · simp only [h1, if_true] at h; exact Or.inl h
      · have hreg : reg = true := by cases reg <;> simp_all
        subst hreg
        have h1' : ¬ fs.data j = [] := fun e => h1 (Or.inr e)
        by_cases h2 : (fs.data j).length < offset + length
        · simp [h1', h2] at h; subst h; exact Or.inr rfl
        · simp [h1', h2] at h; subst h; exact Or.inr rfl
  have hvia : ∀ (st0 : TState) (fin : TState → TState),
      (∀ s i, (fin s).raw = some i → s.raw = some i) →
      let ls := loadSpec fs kfuel fuel cwdS cwd base loc offset length st0
      let out : ReadResult × List Ev × TState :=
        match ls.1, ls.2.raw with
        | true, some i => (ReadResult.ok (sliceOf (fs.data i) offset length),
            guardedEvents fs kfuel fuel cwdS cwd base loc, fin ls.2)
        | _, _ => (ReadResult.raised, guardedEvents fs kfuel fuel cwdS cwd base loc, ls.2)
      (∀ bytes, out.1 = ReadResult.ok bytes → ∃ i, bytes = sliceOf (fs.data i) offset length ∧
          ∃ reg, guardedOpen fs kfuel fuel cwdS cwd base loc = some (i, reg) ∧
            out.2.1 = guardedEvents fs kfuel fuel cwdS cwd base loc) ∧
      (∀ i, out.2.2.raw = some i →
        st0.raw = some i ∨ (guardedOpen fs kfuel fuel cwdS cwd base loc = some (i, true) ∧
          out.2.1 = guardedEvents fs kfuel fuel cwdS cwd base loc)) := by
    intro st0 fin hfin
    simp only
    cases hl1 : (loadSpec fs kfuel fuel cwdS cwd base loc offset length st0).1 with
    | false =>
      refine ⟨by intro bytes h; simp at h, ?_⟩
      intro i h
      rcases hload st0 i (by simpa using h) with h' | h'
      · exact Or.inl h'
      · exact Or.inr ⟨h', (by first | rfl | trivial)⟩
    | true =>
      obtain ⟨j, hg, hst⟩ := loadSpec_ok _ _ _ _ _ _ _ _ _ _ hl1
      rw [hst]
      simp only
      refine ⟨?_, ?_⟩
      · intro bytes h
        simp only [ReadResult.ok.injEq] at h
        exact ⟨j, h.symm, true, hg, (by first | rfl | trivial)⟩
      · intro i h
        have := hfin _ _ h
        simp only [Option.some.injEq] at this
        subst this
        exact Or.inr ⟨hg, (by first | rfl | trivial)⟩
  have hid : ∀ (s : TState) (i : Nat), (id s).raw = some i → s.raw = some i := fun _ _ h => h
  have hfresh : ∀ (s : TState) (i : Nat), ((fun _ => TState.fresh) s).raw = some i → s.raw = some i := by
    intro s i h; simp [TState.fresh] at h
  unfold callSpec
  cases ep with
  | tofile =>
    simp only
    cases hg : guardedOpen fs kfuel fuel cwdS cwd base loc with
    | none => exact ⟨by intro b h; simp at h, fun i h => Or.inl h⟩
    | some ir =>
      obtain ⟨j, reg⟩ := ir
      simp only
      by_cases h2 : 0 < length ∧ (fs.data j).length < offset + length
      · simp only [h2, and_self, if_true]
        exact ⟨by intro b h; simp at h, fun i h => Or.inl h⟩
      · simp only [h2, if_false]
        refine ⟨?_, fun i h => Or.inl h⟩
        intro bytes h
        simp only [ReadResult.ok.injEq] at h
        exact ⟨j, h.symm, Or.inl ⟨reg, (by first | rfl | trivial), (by first | rfl | trivial)⟩⟩
  | tobytes =>
    have hgen : ∀ st0 : TState,
        let out : ReadResult × List Ev × TState :=
          match (loadSpec fs kfuel fuel cwdS cwd base loc offset length st0).1,
              (loadSpec fs kfuel fuel cwdS cwd base loc offset length st0).2.raw with
          | true, some i => (ReadResult.ok (sliceOf (fs.data i) offset length),
              guardedEvents fs kfuel fuel cwdS cwd base loc, id (loadSpec fs kfuel fuel cwdS cwd base loc offset length st0).2)
          | _, _ => (ReadResult.raised, guardedEvents fs kfuel fuel cwdS cwd base loc,
              (loadSpec fs kfuel fuel cwdS cwd base loc offset length st0).2)
        (∀ bytes, out.1 = ReadResult.ok bytes →
          ∃ i, bytes = sliceOf (fs.data i) offset length ∧
            ((∃ reg, guardedOpen fs kfuel fuel cwdS cwd base loc = some (i, reg) ∧
                out.2.1 = guardedEvents fs kfuel fuel cwdS cwd base loc) ∨
              (out.2.1 = [] ∧ st0.raw = some i))) ∧
        (∀ i, out.2.2.raw = some i →
          st0.raw = some i ∨ (guardedOpen fs kfuel fuel cwdS cwd base loc = some (i, true) ∧
            out.2.1 = guardedEvents fs kfuel fuel cwdS cwd base loc)) := by
      intro st0
      obtain ⟨h1, h2⟩ := hvia st0 id hid
      refine ⟨?_, h2⟩
      intro bytes h
      obtain ⟨i, hb, reg, hg, he⟩ := h1 bytes h
      exact ⟨i, hb, Or.inl ⟨reg, hg, he⟩⟩
    cases arr with
    | true =>
      cases raw with
      | some j =>
        simp only
        refine ⟨?_, fun i h => Or.inl h⟩
        intro bytes h
        simp only [ReadResult.ok.injEq] at h
        exact ⟨j, h.symm, Or.inr ⟨(by first | rfl | trivial), (by first | rfl | trivial)⟩⟩
      | none => exact hgen { raw := none, arr := true }
    | false => exact hgen { raw := raw, arr := false }
  | numpy =>
    cases arr with
    | true =>
      cases raw with
      | some j =>
        simp only
        refine ⟨?_, fun i h => Or.inl h⟩
        intro bytes h
        simp only [ReadResult.ok.injEq] at h
        exact ⟨j, h.symm, Or.inr ⟨(by first | rfl | trivial), (by first | rfl | trivial)⟩⟩
      | none => simp only; exact ⟨by intro b h; simp at h, fun i h => Or.inl h⟩
    | false =>
      simp only
      obtain ⟨h1, h2⟩ := hvia { raw := raw, arr := false } id hid
      refine ⟨?_, h2⟩
      intro bytes h
      obtain ⟨i, hb, reg, hg, he⟩ := h1 bytes h
      exact ⟨i, hb, Or.inl ⟨reg, hg, he⟩⟩
  | array =>
    cases arr with
    | true =>
      cases raw with
      | some j =>
        simp only
        refine ⟨?_, fun i h => Or.inl h⟩
        intro bytes h
        simp only [ReadResult.ok.injEq] at h
        exact ⟨j, h.symm, Or.inr ⟨(by first | rfl | trivial), (by first | rfl | trivial)⟩⟩
      | none => simp only; exact ⟨by intro b h; simp at h, fun i h => Or.inl h⟩
    | false =>
      simp only
      obtain ⟨h1, h2⟩ := hvia { raw := raw, arr := false } id hid
      refine ⟨?_, h2⟩
      intro bytes h
      obtain ⟨i, hb, reg, hg, he⟩ := h1 bytes h
      exact ⟨i, hb, Or.inl ⟨reg, hg, he⟩⟩
  | serializeRaw =>
    cases arr with
    | true =>
      cases raw with
      | some j =>
        simp only
        refine ⟨?_, fun i h => by simp [TState.fresh] at h⟩
        intro bytes h
        simp only [ReadResult.ok.injEq] at h
        exact ⟨j, h.symm, Or.inr ⟨(by first | rfl | trivial), (by first | rfl | trivial)⟩⟩
      | none => simp only; exact ⟨by intro b h; simp at h, fun i h => Or.inl h⟩
    | false =>
      simp only
      obtain ⟨h1, h2⟩ := hvia { raw := raw, arr := false } (fun _ => TState.fresh) hfresh
      refine ⟨?_, h2⟩
      intro bytes h
      obtain ⟨i, hb, reg, hg, he⟩ := h1 bytes h
      exact ⟨i, hb, Or.inl ⟨reg, hg, he⟩⟩

end IrVerif.Path

/-
Helper lemmas for C15, part B (NameFixPass): generated-name shapes, the initializer dictionary
invariant `InitsOk`, and the step lemmas for `World.setName` / `processValue`.  Core Lean only.
-/
import IrVerif.Model.Names
import IrVerif.Lemmas.Names
namespace IrVerif.Names

/-! ### generated-name shapes -/

theorem sufName_inj_k (p : String) {a b : Nat} (h : sufName p a = sufName p b) : a = b := by
  unfold sufName at h
  apply toString_nat_inj
  apply string_append_left_cancel (p := p ++ "_")
  simpa [String.append_assoc] using h

theorem sufName_toList (p : String) (k : Nat) :
    (sufName p k).toList = p.toList ++ '_' :: Nat.toDigits 10 k := by
  simp [sufName, String.toList_append]

theorem split_last_underscore : ∀ (l1 l2 d1 d2 : List Char), '_' ∉ d1 → '_' ∉ d2 →
    l1 ++ '_' :: d1 = l2 ++ '_' :: d2 → l1 = l2 ∧ d1 = d2
  | [], [], d1, d2, _, _, h => by simpa using h
  | [], y :: l2, d1, d2, h1, _, h => by
      simp only [List.nil_append, List.cons_append, List.cons.injEq] at h
      exact absurd (h.2 ▸ (by simp : '_' ∈ l2 ++ '_' :: d2)) h1
  | x :: l1, [], d1, d2, _, h2, h => by
      simp only [List.nil_append, List.cons_append, List.cons.injEq] at h
      exact absurd (h.2 ▸ (by simp : '_' ∈ l1 ++ '_' :: d1)) h2
  | x :: l1, y :: l2, d1, d2, h1, h2, h => by
      simp only [List.cons_append, List.cons.injEq] at h
      obtain ⟨e1, e2⟩ := split_last_underscore l1 l2 d1 d2 h1 h2 h.2
      exact ⟨by rw [h.1, e1], e2⟩

/-- `base_k` determines both the base and `k`: the decimal suffix contains no underscore -/
theorem sufName_inj {p q : String} {a b : Nat} (h : sufName p a = sufName q b) : p = q ∧ a = b := by
  have h1 := congrArg String.toList h
  rw [sufName_toList, sufName_toList] at h1
  obtain ⟨e1, _⟩ := split_last_underscore _ _ _ _ Nat.underscore_not_in_toDigits
    Nat.underscore_not_in_toDigits h1
  have hp : p = q := String.toList_inj.mp e1
  subst hp
  exact ⟨rfl, sufName_inj_k p h⟩

theorem sufName_ne_v (p : String) (k : Nat) : sufName p k ≠ "v" := by
  intro h
  have h1 := congrArg String.toList h
  rw [sufName_toList] at h1
  have : '_' ∈ "v".toList := h1 ▸ (by simp)
  simp at this

theorem sufName_ne_empty (p : String) (k : Nat) : sufName p k ≠ "" := by
  intro h
  have h1 := congrArg String.toList h
  rw [sufName_toList] at h1
  simp at h1

/-- result of `_find_and_record_next_unique_name` (before `used.add`) -/
theorem findUnique_spec (p : String) (used res : List String) (c : Nat) :
    (findUnique p used res c).1 ∉ used ∧ (findUnique p used res c).1 ∉ res ∧
    (((findUnique p used res c) = (p, c) ∧ p ∉ used ∧ p ∉ res) ∨
     (∃ k, c < k ∧ (findUnique p used res c) = (sufName p k, k) ∧ (p ∈ used ∨ p ∈ res))) := by
  unfold findUnique
  split
  · rename_i hc
    obtain ⟨k, hk, he, hn, _⟩ := uniqueFrom_spec (sufName p) (fun _ _ => sufName_inj_k p) (used ++ res) (c + 1)
    have hn' : sufName p k ∉ used ∧ sufName p k ∉ res := by simpa using hn
    simp only [he]
    refine ⟨hn'.1, hn'.2, Or.inr ⟨k, by omega, by simp, ?_⟩⟩
    simpa using hc
  · rename_i hc
    have : p ∉ used ∧ p ∉ res := by simpa using hc
    exact ⟨this.1, this.2, Or.inl ⟨rfl, this.1, this.2⟩⟩

/-! ### dictionaries -/

theorem mem_dictErase {d : List (String × Nat)} {k : String} {e : String × Nat} :
    e ∈ dictErase d k ↔ e ∈ d ∧ e.1 ≠ k := by
  simp [dictErase]

theorem dictHas_iff {d : List (String × Nat)} {k : String} : dictHas d k = true ↔ ∃ v, (k, v) ∈ d := by
  simp only [dictHas, List.any_eq_true, beq_iff_eq]
  constructor
  · rintro ⟨⟨k', v⟩, h1, h2⟩; exact ⟨v, by simpa [← h2] using h1⟩
  · rintro ⟨v, h⟩; exact ⟨(k, v), h, rfl⟩

theorem lookup_none_iff {d : List (String × Nat)} {k : String} : d.lookup k = none ↔ ∀ v, (k, v) ∉ d := by
  induction d with
  | nil => simp
  | cons e d ih =>
    obtain ⟨k', v'⟩ := e
    simp only [List.lookup_cons, List.mem_cons, Prod.mk.injEq, not_or, not_and]
    by_cases hk : k = k'
    · subst hk; simp
      exact ⟨v', fun h => absurd rfl h⟩
    · have : (k == k') = false := by simpa using hk
      simp only [this, ih]
      constructor
      · intro h v; exact ⟨fun e => absurd e hk, h v⟩
      · intro h v; exact (h v).2

theorem lookup_some_mem {d : List (String × Nat)} {k : String} {v : Nat} (h : d.lookup k = some v) : (k, v) ∈ d := by
  induction d with
  | nil => simp at h
  | cons e d ih =>
    obtain ⟨k', v'⟩ := e
    simp only [List.lookup_cons] at h
    by_cases hk : k = k'
    · subst hk; simp at h; simp [h]
    · have : (k == k') = false := by simpa using hk
      simp only [this] at h
      exact List.mem_cons_of_mem _ (ih h)

/-- with unique keys, a key determines its value -/
theorem keys_nodup_unique {d : List (String × Nat)} (hn : (d.map (·.1)).Nodup) {k : String} {u v : Nat}
    (hu : (k, u) ∈ d) (hv : (k, v) ∈ d) : u = v := by
  induction d with
  | nil => simp at hu
  | cons e d ih =>
    simp only [List.map_cons, List.nodup_cons, List.mem_map, not_exists, not_and] at hn
    rcases List.mem_cons.mp hu with hu | hu <;> rcases List.mem_cons.mp hv with hv | hv
    · have := hu.trans hv.symm; simpa using this
    · exact absurd (by rw [← hu]) (hn.1 _ hv)
    · exact absurd (by rw [← hv]) (hn.1 _ hu)
    · exact ih hn.2 hu hv

/-- the dictionaries of all graphs are keyed by the current names of their values (kernel
invariant `I_key`), both ways -/
structure InitsOk (w : World) : Prop where
  key_name : ∀ g k v, (k, v) ∈ w.dicts g → w.vname v = some k ∧ k ≠ "" ∧ w.initOf v = some g
  keys_nodup : ∀ g, ((w.dicts g).map (·.1)).Nodup
  complete : ∀ v g, w.initOf v = some g → ∃ k, (k, v) ∈ w.dicts g

theorem InitsOk.name_of_init {w : World} (h : InitsOk w) {v g : Nat} (hv : w.initOf v = some g) :
    ∃ k, w.vname v = some k ∧ k ≠ "" ∧ (k, v) ∈ w.dicts g := by
  obtain ⟨k, hk⟩ := h.complete v g hv
  exact ⟨k, (h.key_name g k v hk).1, (h.key_name g k v hk).2.1, hk⟩

theorem InitsOk.mem_iff {w : World} (h : InitsOk w) (g u : Nat) :
    u ∈ (w.dicts g).map (·.2) ↔ w.initOf u = some g := by
  constructor
  · intro hu
    obtain ⟨⟨k, u'⟩, he, rfl⟩ := List.mem_map.mp hu
    exact (h.key_name g k u' he).2.2
  · intro hu
    obtain ⟨k, hk⟩ := h.complete u g hu
    exact List.mem_map.mpr ⟨(k, u), hk, rfl⟩


theorem upd_same {α : Type} (f : Nat → α) (i : Nat) : upd f i (f i) = f := by
  funext j; simp only [upd]; split <;> simp_all

@[simp] theorem upd_eq {α : Type} (f : Nat → α) (i : Nat) (x : α) : upd f i x i = x := by simp [upd]
theorem upd_ne {α : Type} (f : Nat → α) {i j : Nat} (x : α) (h : j ≠ i) : upd f i x j = f j := by simp [upd, h]

/-- `Value.name = new` goes through and keeps the dictionaries keyed by names, provided the new
name is non-empty and no *other* initializer of the same graph holds it -/
theorem setName_ok {w : World} (h : InitsOk w) (v : Nat) (new : String) (hne : new ≠ "")
    (hfree : ∀ g k u, w.initOf v = some g → (k, u) ∈ w.dicts g → u ≠ v → k ≠ new) :
    (w.setName v new).2 = false ∧ InitsOk (w.setName v new).1 ∧
    (w.setName v new).1.vname = upd w.vname v (some new) ∧ (w.setName v new).1.nname = w.nname ∧
    (w.setName v new).1.initOf = w.initOf := by
  unfold World.setName
  split
  · rename_i heq
    exact ⟨rfl, h, by rw [← heq, upd_same], rfl, rfl⟩
  · rename_i hneq
    split
    · rename_i hio
      refine ⟨rfl, ⟨?_, h.keys_nodup, h.complete⟩, rfl, rfl, rfl⟩
      intro g k u hm
      have hk := h.key_name g k u hm
      have huv : u ≠ v := by intro e; subst e; rw [hio] at hk; exact absurd hk.2.2 (by simp)
      exact ⟨by simp [upd_ne _ _ huv, hk.1], hk.2.1, hk.2.2⟩
    · rename_i g hio
      obtain ⟨old, hold, holdne, holdmem⟩ := h.name_of_init hio
      have hlook : (w.dicts g).lookup new = none := by
        rw [lookup_none_iff]
        intro u hu
        by_cases huv : u = v
        · subst huv
          have := (h.key_name g new u hu).1
          exact hneq this
        · exact hfree g new u hio hu huv rfl
      simp only [hlook, hold]
      have hhas : dictHas (w.dicts g) old = true := dictHas_iff.mpr ⟨v, holdmem⟩
      simp only [hhas, if_true, Bool.false_eq_true, if_false]
      have hnewnot : ∀ e ∈ dictErase (w.dicts g) old, e.1 ≠ new := by
        intro e he
        have := (mem_dictErase.mp he).1
        intro e1
        exact (lookup_none_iff.mp hlook e.2) (by rw [← e1]; exact this)
      have hset : dictSet (dictErase (w.dicts g) old) new v = dictErase (w.dicts g) old ++ [(new, v)] := by
        unfold dictSet
        have : (dictErase (w.dicts g) old).any (fun e => e.1 == new) = false := by
          rw [List.any_eq_false]
          intro e he; simpa using hnewnot e he
        simp [this]
      rw [hset]
      refine ⟨?a, ⟨?kn, ?nd, ?cp⟩, ?b, ?c, ?d⟩
      case a => trivial
      case b => trivial
      case c => trivial
      case d => trivial
      case kn =>
        intro g' k u hm
        by_cases hg : g' = g
        · subst hg
          simp only [upd_eq, List.mem_append, List.mem_singleton] at hm
          rcases hm with hm | hm
          · obtain ⟨hm1, hm2⟩ := mem_dictErase.mp hm
            have hk := h.key_name g' k u hm1
            have huv : u ≠ v := by
              intro e; subst e
              rw [hold] at hk
              exact hm2 (by simpa using hk.1.symm)
            exact ⟨by simp [upd_ne _ _ huv, hk.1], hk.2.1, hk.2.2⟩
          · simp only [Prod.mk.injEq] at hm
            obtain ⟨rfl, rfl⟩ := hm
            exact ⟨by simp, hne, hio⟩
        · simp only [upd_ne _ _ hg] at hm
          have hk := h.key_name g' k u hm
          have huv : u ≠ v := by
            intro e; subst e
            rw [hio] at hk
            exact hg (by simpa using hk.2.2.symm)
          exact ⟨by simp [upd_ne _ _ huv, hk.1], hk.2.1, hk.2.2⟩
      case nd =>
        intro g'
        by_cases hg : g' = g
        · subst hg
          simp only [upd_eq, List.map_append, List.map_cons, List.map_nil]
          rw [List.nodup_append]
          refine ⟨?_, by simp, ?_⟩
          · exact (List.Sublist.map _ (List.filter_sublist)).nodup (h.keys_nodup g')
          · intro a ha b hb
            simp only [List.mem_singleton] at hb
            subst hb
            obtain ⟨e, he, rfl⟩ := List.mem_map.mp ha
            exact hnewnot e he
        · simpa only [upd_ne _ _ hg] using h.keys_nodup g'
      case cp =>
        intro u g' hu
        by_cases hg : g' = g
        · subst hg
          simp only [upd_eq]
          by_cases huv : u = v
          · subst huv; exact ⟨new, by simp⟩
          · obtain ⟨k, hk⟩ := h.complete u g' hu
            refine ⟨k, List.mem_append_left _ (mem_dictErase.mpr ⟨hk, ?_⟩)⟩
            intro e
            simp only at e
            subst e
            exact huv (keys_nodup_unique (h.keys_nodup g') hk holdmem)
        · simp only [upd_ne _ _ hg]
          exact h.complete u g' hu


/-! ### the invariant that rules out exceptions -/

/-- a name the pass generated: not reserved, and either the bare "v" or `base_k` with `k` within
the counter of `base` -/
def Gen (resV : List String) (vcnt : String → Nat) (n : Option String) : Prop :=
  ∃ s, n = some s ∧ s ∉ resV ∧ (s = "v" ∨ ∃ b k, s = sufName b k ∧ 1 ≤ k ∧ k ≤ vcnt b)

/-- what is fixed during one `_fix_graph_names` call: the names at its start, the set `C` of values
the call can meet, the initializer links, the reserved names -/
structure Cfg where
  orig : Nat → Option String
  C : Nat → Prop
  io : Nat → Option Nat
  resV : List String

structure Cfg.OK (c : Cfg) : Prop where
  /-- the pre-pass reserved every truthy name of every value the call can meet -/
  res : ∀ u s, c.C u → c.orig u = some s → s ≠ "" → s ∈ c.resV
  /-- if the call can meet an initializer it can meet all initializers of that graph -/
  closed : ∀ v g u, c.C v → c.io v = some g → c.io u = some g → c.C u
  /-- different initializers of one graph had different names when the call started -/
  inj : ∀ g u v, c.io u = some g → c.io v = some g → c.orig u = c.orig v → u = v

structure TInv (c : Cfg) (st : FixSt) : Prop where
  nr : st.raised = false
  ok : InitsOk st.toWorld
  io : st.initOf = c.io
  res : st.resV = c.resV
  j1 : ∀ u, st.vname u = c.orig u ∨ Gen c.resV st.vcnt (st.vname u)
  unseen : ∀ u, u ∉ st.seen → st.vname u = c.orig u
  /-- values the call cannot meet keep their names -/
  outside : ∀ u, ¬ c.C u → st.vname u = c.orig u

theorem pushTop_eq (stk : List (List String)) (n : String) :
    pushTop stk n = (n :: topOf stk) :: stk.tail := by
  cases stk <;> simp [pushTop, topOf]

theorem truthy_iff {o : Option String} : truthy o = true ↔ ∃ s, o = some s ∧ s ≠ "" := by
  cases o <;> simp [truthy]

/-- everything `_process_value` does to a state that satisfies the invariant -/
structure PV (c : Cfg) (st : FixSt) (v : Nat) (st' : FixSt) : Prop where
  inv : TInv c st'
  seen_iff : ∀ u, u ∈ st'.seen ↔ (u ∈ st.seen ∨ u = v)
  others : ∀ u, u ≠ v → st'.vname u = st.vname u
  noop : v ∈ st.seen → st' = st
  fresh : v ∉ st.seen → ∃ n, st'.vname v = some n ∧ n ≠ "" ∧ n ∉ topOf st.vstack ∧
            st'.vstack = (n :: topOf st.vstack) :: st.vstack.tail ∧
            (st.vname v = some n ∨ n ∉ c.resV) ∧
            (∀ s, st.vname v = some s → s ≠ "" → s ∉ topOf st.vstack → n = s)
  nodes : st'.nname = st.nname ∧ st'.nstack = st.nstack ∧ st'.ncnt = st.ncnt ∧ st'.resN = st.resN
  vcnt : ∀ b, st.vcnt b ≤ st'.vcnt b
  modified : st.modified = true → st'.modified = true
  unchanged : st'.vname = st.vname → st'.toWorld = st.toWorld ∧ st'.modified = st.modified

theorem Gen.mono {resV : List String} {c1 c2 : String → Nat} (h : ∀ b, c1 b ≤ c2 b) {n : Option String}
    (g : Gen resV c1 n) : Gen resV c2 n := by
  obtain ⟨s, h1, h2, h3⟩ := g
  refine ⟨s, h1, h2, ?_⟩
  rcases h3 with h3 | ⟨b, k, e, k1, k2⟩
  · exact Or.inl h3
  · exact Or.inr ⟨b, k, e, k1, Nat.le_trans k2 (h b)⟩

/-- the renaming branch of `_process_value` (`_assign_value_name` / the duplicate branch of
`_fix_duplicate_value_name`) under the invariant -/
theorem renameTo_PV {c : Cfg} (hc : c.OK) {st : FixSt} (inv : TInv c st) {v : Nat} (hC : c.C v)
    (hv : v ∉ st.seen) (p : String)
    (hp : (¬ truthy (st.vname v) ∧ p = "v") ∨ (st.vname v = some p ∧ p ≠ "" ∧ p ∈ topOf st.vstack)) :
    PV c st v (renameTo st v p) := by
  have hspec := findUnique_spec p (topOf st.vstack) st.resV (st.vcnt p)
  obtain ⟨hf1, hf2, hf3⟩ := hspec
  -- the generated name
  generalize hr : findUnique p (topOf st.vstack) st.resV (st.vcnt p) = r at hf1 hf2 hf3
  have hle : st.vcnt p ≤ r.2 := by
    rcases hf3 with ⟨e, _⟩ | ⟨k, hk, e, _⟩ <;> simp [e] <;> omega
  have hne : r.1 ≠ "" := by
    rcases hf3 with ⟨e, _⟩ | ⟨k, hk, e, _⟩
    · rcases hp with ⟨_, rfl⟩ | ⟨_, h2, _⟩
      · simp [e]
      · simpa [e] using h2
    · simp [e, sufName_ne_empty]
  have hgen : Gen c.resV (updS st.vcnt p r.2) (some r.1) := by
    refine ⟨r.1, rfl, inv.res ▸ hf2, ?_⟩
    rcases hf3 with ⟨e, h1, _⟩ | ⟨k, hk, e, _⟩
    · rcases hp with ⟨_, rfl⟩ | ⟨_, _, h3⟩
      · exact Or.inl (by simp [e])
      · exact absurd h3 h1
    · exact Or.inr ⟨p, k, by simp [e], by omega, by simp [e, updS]⟩
  have hvcnt : ∀ b, st.vcnt b ≤ updS st.vcnt p r.2 b := by
    intro b; simp only [updS]; split
    · rename_i e; subst e; exact hle
    · exact Nat.le_refl _
  -- the setter goes through
  have hfree : ∀ g k u, st.initOf v = some g → (k, u) ∈ st.dicts g → u ≠ v → k ≠ r.1 := by
    intro g k u hio hm huv hk
    -- `v` is an initializer: it has a truthy name, so this is the duplicate branch
    obtain ⟨old, hold, holdne, _⟩ := inv.ok.name_of_init hio
    have hsuf : ∃ kk, st.vcnt p < kk ∧ r = (sufName p kk, kk) := by
      rcases hp with ⟨h1, _⟩ | ⟨_, _, h3⟩
      · exact absurd (truthy_iff.mpr ⟨old, hold, holdne⟩) h1
      · rcases hf3 with ⟨_, h1, _⟩ | ⟨kk, hk1, e, _⟩
        · exact absurd h3 h1
        · exact ⟨kk, hk1, e⟩
    obtain ⟨kk, hkk, er⟩ := hsuf
    have hku := inv.ok.key_name g k u hm
    have hCu : c.C u := hc.closed v g u hC (inv.io ▸ hio) (inv.io ▸ hku.2.2)
    rcases inv.j1 u with h | ⟨s, h1, h2, h3⟩
    · have : k ∈ c.resV := hc.res u k hCu (h ▸ hku.1) hku.2.1
      exact hf2 (inv.res ▸ hk ▸ this)
    · have hs : s = k := by rw [hku.1] at h1; exact (Option.some.inj h1).symm
      subst hs
      rcases h3 with h3 | ⟨b, k', e, _, k2⟩
      · rw [er] at hk; exact sufName_ne_v p kk (by simpa [h3] using hk.symm)
      · rw [er, e] at hk
        obtain ⟨rfl, rfl⟩ := sufName_inj (show sufName b k' = sufName p kk from hk)
        omega
  have hset := setName_ok inv.ok v r.1 hne hfree
  obtain ⟨hs1, hs2, hs3, hs4, hs5⟩ := hset
  -- unfold the model step
  have hstep : renameTo st v p =
      { st with toWorld := (st.toWorld.setName v r.1).1, vcnt := updS st.vcnt p r.2,
                vstack := pushTop st.vstack r.1, modified := true, seen := v :: st.seen } := by
    simp only [renameTo, hr, hs1]
    rfl
  rw [hstep]
  have hout : ∀ u, ¬ c.C u → (st.toWorld.setName v r.1).1.vname u = c.orig u := by
    intro u hu
    have huv : u ≠ v := fun e => hu (e ▸ hC)
    rw [hs3, upd_ne _ _ huv]
    exact inv.outside u hu
  refine ⟨⟨inv.nr, hs2, ?_, inv.res, ?_, ?_, hout⟩, ?_, ?_, fun h => absurd h hv, ?_, ⟨hs4, rfl, rfl, rfl⟩, hvcnt,
    fun _ => rfl, ?_⟩
  · exact hs5.trans inv.io
  · intro u
    show (st.toWorld.setName v r.1).1.vname u = c.orig u ∨ Gen c.resV (updS st.vcnt p r.2) ((st.toWorld.setName v r.1).1.vname u)
    rw [hs3]
    by_cases huv : u = v
    · subst huv; simp only [upd_eq]; exact Or.inr hgen
    · rw [upd_ne _ _ huv]
      rcases inv.j1 u with h | h
      · exact Or.inl h
      · exact Or.inr (h.mono hvcnt)
  · intro u hu
    show (st.toWorld.setName v r.1).1.vname u = c.orig u
    have huv : u ≠ v := fun e => hu (e ▸ List.mem_cons_self)
    rw [hs3, upd_ne _ _ huv]
    exact inv.unseen u (fun h => hu (List.mem_cons_of_mem _ h))
  · intro u; simp only [List.mem_cons]; exact ⟨fun h => h.symm.imp_right id |>.symm.symm, fun h => h.symm.imp_left id |>.symm.symm⟩
  · intro u huv
    show (st.toWorld.setName v r.1).1.vname u = st.vname u
    rw [hs3, upd_ne _ _ huv]
  · intro _
    refine ⟨r.1, ?_, hne, hf1, by rw [pushTop_eq], ?_, ?_⟩
    · show (st.toWorld.setName v r.1).1.vname v = some r.1
      rw [hs3]; simp
    · exact Or.inr (inv.res ▸ hf2)
    · intro s hs hsne hstop
      rcases hp with ⟨h1, _⟩ | ⟨h1, _, h3⟩
      · exact absurd (truthy_iff.mpr ⟨s, hs, hsne⟩) h1
      · rw [h1] at hs; cases hs; exact absurd h3 hstop
  · intro h
    exfalso
    have : (st.toWorld.setName v r.1).1.vname v = st.vname v := congrFun h v
    rw [hs3] at this
    simp only [upd_eq] at this
    rcases hp with ⟨h1, _⟩ | ⟨h1, _, h3⟩
    · exact h1 (truthy_iff.mpr ⟨r.1, this.symm, hne⟩)
    · rw [h1] at this; cases this; exact hf1 h3


theorem processValue_PV {c : Cfg} (hc : c.OK) {st : FixSt} (inv : TInv c st) {v : Nat} (hC : c.C v) :
    PV c st v (processValue st v) := by
  unfold processValue
  simp only [inv.nr, Bool.false_eq_true, if_false]
  by_cases hv : v ∈ st.seen
  · have : st.seen.contains v = true := by simpa using hv
    simp only [this, if_true]
    exact ⟨inv, fun u => ⟨Or.inl, fun h => h.elim id (fun e => e ▸ hv)⟩, fun _ _ => rfl, fun _ => rfl,
      fun h => absurd hv h, ⟨rfl, rfl, rfl, rfl⟩, fun _ => Nat.le_refl _, id, fun _ => ⟨rfl, rfl⟩⟩
  · have : st.seen.contains v = false := by simpa using hv
    simp only [this, Bool.false_eq_true, if_false]
    by_cases ht : truthy (st.vname v) = true
    · obtain ⟨s, hs, hsne⟩ := truthy_iff.mp ht
      have ht2 : truthy (some s) = true := hs ▸ ht
      simp only [hs, ht2, Bool.not_true, Bool.false_eq_true, if_false, Option.getD_some]
      by_cases htop : s ∈ topOf st.vstack
      · have : (topOf st.vstack).contains s = true := by simpa using htop
        simp only [this, Bool.not_true, Bool.false_eq_true, if_false]
        exact renameTo_PV hc inv hC hv s (Or.inr ⟨hs, hsne, htop⟩)
      · have : (topOf st.vstack).contains s = false := by simpa using htop
        simp only [this, Bool.not_false, if_true]
        refine ⟨⟨by first | rfl | exact inv.nr, inv.ok, inv.io, inv.res, inv.j1, ?_, inv.outside⟩, ?_, fun _ _ => rfl, fun h => absurd h hv, ?_,
          ⟨rfl, rfl, rfl, rfl⟩, fun _ => Nat.le_refl _, id, fun _ => ⟨rfl, rfl⟩⟩
        · intro u hu
          exact inv.unseen u (fun h => hu (List.mem_cons_of_mem _ h))
        · intro u; simp only [List.mem_cons]
          exact ⟨fun h => h.elim Or.inr Or.inl, fun h => h.elim Or.inr Or.inl⟩
        · intro _
          exact ⟨s, hs, hsne, htop, by rw [pushTop_eq], Or.inl hs, fun s' hs' _ _ => by rw [hs] at hs'; exact Option.some.inj hs'⟩
    · have ht' : truthy (st.vname v) = false := by simpa using ht
      simp only [ht', Bool.not_false, if_true]
      exact renameTo_PV hc inv hC hv "v" (Or.inl ⟨ht, rfl⟩)

end IrVerif.Names

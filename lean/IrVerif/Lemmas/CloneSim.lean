/-
Helper development for C13_faithful: the observation of an object (what serialization and every
public accessor except the use-def back links can see), the simulation relation "clone and
original are observationally the same", and the proof that the cloner establishes it.
-/
import IrVerif.Lemmas.Clone
namespace IrVerif.Clone

/-- pointwise relation of two lists of equal length -/
inductive All2 {α β : Type} (R : α → β → Prop) : List α → List β → Prop
  | nil : All2 R [] []
  | cons {a : α} {b : β} {as : List α} {bs : List β} : R a b → All2 R as bs → All2 R (a :: as) (b :: bs)

/-! ### cores: a cell without the back links (users, owning graph, ownership flags, producer) -/

/-- every cell of `w1` is still there in `w2` with the same core -/
def CoreLe (w1 w2 : World) : Prop := ∀ (i : Nat) (c : Cell), coreAt w1 i = some c → coreAt w2 i = some c

theorem CoreLe.refl (w : World) : CoreLe w w := fun _ _ h => h
theorem CoreLe.trans {a b c : World} (h1 : CoreLe a b) (h2 : CoreLe b c) : CoreLe a c :=
  fun i x h => h2 i x (h1 i x h)

theorem coreAt_lt {w : World} {i : Nat} {c : Cell} (h : coreAt w i = some c) : i < w.length := by
  unfold coreAt at h
  rcases Nat.lt_or_ge i w.length with h' | h'
  · exact h'
  · rw [List.getElem?_eq_none h'] at h; cases h

theorem CoreLe.append (w : World) (c : Cell) : CoreLe w (w ++ [c]) := by
  intro i x h
  have := coreAt_lt h
  unfold coreAt at *
  rw [List.getElem?_append_left this]
  exact h

/-- overwriting a cell by one with the same core -/
theorem CoreLe.set {w : World} {i : Nat} {c c' : Cell} (h : w[i]? = some c) (hc : c'.core = c.core) :
    CoreLe w (w.set i c') := by
  intro j x hx
  unfold coreAt at *
  by_cases hij : i = j
  · subst hij
    have hl : i < w.length := by
      rcases Nat.lt_or_ge i w.length with h' | h'
      · exact h'
      · rw [List.getElem?_eq_none h'] at h; cases h
    rw [List.getElem?_set_self hl]
    rw [h] at hx
    simp only [Option.map_some] at hx ⊢
    rw [hc]; exact hx
  · rw [List.getElem?_set_ne hij]; exact hx

theorem coreAt_append_new (w : World) (c : Cell) : coreAt (w ++ [c]) w.length = some c.core := by
  unfold coreAt
  simp

/-! ### observations -/

/-- two values with the same observation -/
def ValSim (w : World) (v v' : Nat) : Prop := ∃ i, vinfo w v = some i ∧ vinfo w v' = some i

/-- a reference is kept as it is (`None`, an outer-scope value) or replaced by a value with the
    same observation (in particular the same name) -/
def RefSim (w : World) (r r' : Option Nat) : Prop :=
  r' = r ∨ ∃ v v', r = some v ∧ r' = some v' ∧ ValSim w v v'

/-- same entries (`metadata_props`) -/
def PropsSim (w : World) (d d' : Nat) : Prop :=
  ∃ x x', cDict w d = some x ∧ cDict w d' = some x' ∧ x'.data = x.data
/-- same entries and same invalidated keys (`meta`) -/
def MetaSim (w : World) (d d' : Nat) : Prop :=
  ∃ x x', cDict w d = some x ∧ cDict w d' = some x' ∧ x'.data = x.data ∧ x'.invalid = x.invalid

def SpecSim (w : World) (sp sp' : DevSpec) : Prop :=
  sp'.payload = sp.payload ∧ RefSim w sp.value sp'.value
def DevSim (w : World) (d d' : List DevCfg) : Prop :=
  All2 (fun c c' => c'.cfg = c.cfg ∧ All2 (SpecSim w) c.specs c'.specs) d d'

/-- the initializer dictionary Python builds from a list of values
    (`{initializer.name: initializer for ...}`) -/
def initDict (w : World) (vs : List Nat) : List (String × Nat) :=
  vs.foldl (fun acc v => match cVal w v with
    | some x => match x.name with
      | some nm => dictSet acc nm v
      | none => acc
    | none => acc) []

mutual
/-- an attribute entry of the original and the entry made from it: the same attribute object
    (graph-free attributes are shared), filed under its own name; or a new attribute object with
    the same name and doc string holding observationally equal graphs -/
inductive AttrSim (w : World) : String × Nat → String × Nat → Prop
  | shared (k : String) (a : Nat) (as : AttrS) :
      cAttr w a = some as → as.v.isGraphy = false → AttrSim w (k, a) (as.name, a)
  | graph (k : String) (a a' : Nat) (as : AttrS) (g g' : Nat) :
      cAttr w a = some as → as.v = .graph g →
      cAttr w a' = some { name := k, doc := as.doc, v := .graph g' } →
      GraphSim w g g' → AttrSim w (k, a) (k, a')
  | graphs (k : String) (a a' : Nat) (as : AttrS) (gs gs' : List Nat) :
      cAttr w a = some as → as.v = .graphs gs →
      cAttr w a' = some { name := k, doc := as.doc, v := .graphs gs' } →
      GraphsSim w gs gs' → AttrSim w (k, a) (k, a')
inductive AttrsSim (w : World) : List (String × Nat) → List (String × Nat) → Prop
  | nil : AttrsSim w [] []
  | cons {x y : String × Nat} {xs ys : List (String × Nat)} :
      AttrSim w x y → AttrsSim w xs ys → AttrsSim w (x :: xs) (y :: ys)
/-- nodes with the same operator fields, pairwise related inputs, outputs and attributes (the
    attribute container of the copy is the Python `dict` built from the copied attributes), equal
    metadata and related device annotations -/
inductive NodeSim (w : World) : Nat → Nat → Prop
  | mk (n n' : Nat) (ns ns' : NodeS) (newAttrs : List (String × Nat)) :
      cNode w n = some ns → cNode w n' = some ns' →
      ns'.name = ns.name → ns'.doc = ns.doc → ns'.domain = ns.domain → ns'.opType = ns.opType →
      ns'.overload = ns.overload → ns'.version = ns.version →
      All2 (RefSim w) ns.inputs ns'.inputs →
      All2 (ValSim w) ns.outputs ns'.outputs →
      AttrsSim w ns.attrs newAttrs → ns'.attrs = dictOf newAttrs →
      PropsSim w ns.props ns'.props → MetaSim w ns.mstore ns'.mstore →
      DevSim w ns.dev ns'.dev → NodeSim w n n'
inductive NodesSim (w : World) : List Nat → List Nat → Prop
  | nil : NodesSim w [] []
  | cons {x y : Nat} {xs ys : List Nat} : NodeSim w x y → NodesSim w xs ys → NodesSim w (x :: xs) (y :: ys)
/-- graphs with the same name, doc string and opset imports, pairwise observationally equal
    inputs, initializers, nodes and outputs, and equal metadata -/
inductive GraphSim (w : World) : Nat → Nat → Prop
  | mk (g g' : Nat) (gs gs' : GraphS) (inits' : List Nat) :
      cGraph w g = some gs → cGraph w g' = some gs' →
      gs'.name = gs.name → gs'.doc = gs.doc → gs'.opsets = gs.opsets →
      All2 (ValSim w) gs.inputs gs'.inputs →
      All2 (ValSim w) (gs.inits.map (·.2)) inits' → gs'.inits = initDict w inits' →
      NodesSim w gs.nodes gs'.nodes →
      All2 (ValSim w) gs.outputs gs'.outputs →
      PropsSim w gs.props gs'.props → MetaSim w gs.mstore gs'.mstore → GraphSim w g g'
inductive GraphsSim (w : World) : List Nat → List Nat → Prop
  | nil : GraphsSim w [] []
  | cons {x y : Nat} {xs ys : List Nat} : GraphSim w x y → GraphsSim w xs ys → GraphsSim w (x :: xs) (y :: ys)
end

/-! ### everything above is stable when the heap grows and back links change -/

theorem All2.mono {α β : Type} {R S : α → β → Prop} (h : ∀ a b, R a b → S a b) :
    ∀ {l : List α} {l' : List β}, All2 R l l' → All2 S l l'
  | _, _, .nil => .nil
  | _, _, .cons r rs => .cons (h _ _ r) (All2.mono h rs)

section
variable {w1 w2 : World} (hle : CoreLe w1 w2)
include hle

theorem cType_mono {i : Nat} {t : TypeS} (h : cType w1 i = some t) : cType w2 i = some t := by
  unfold cType at *
  cases hc : coreAt w1 i with
  | none => rw [hc] at h; cases h
  | some c => rw [hle i c hc]; rw [hc] at h; exact h

theorem cShape_mono {i : Nat} {t : ShapeS} (h : cShape w1 i = some t) : cShape w2 i = some t := by
  unfold cShape at *
  cases hc : coreAt w1 i with
  | none => rw [hc] at h; cases h
  | some c => rw [hle i c hc]; rw [hc] at h; exact h

theorem cDict_mono {i : Nat} {t : DictS} (h : cDict w1 i = some t) : cDict w2 i = some t := by
  unfold cDict at *
  cases hc : coreAt w1 i with
  | none => rw [hc] at h; cases h
  | some c => rw [hle i c hc]; rw [hc] at h; exact h

theorem cVal_mono {i : Nat} {t : ValueS} (h : cVal w1 i = some t) : cVal w2 i = some t := by
  unfold cVal at *
  cases hc : coreAt w1 i with
  | none => rw [hc] at h; cases h
  | some c => rw [hle i c hc]; rw [hc] at h; exact h

theorem cNode_mono {i : Nat} {t : NodeS} (h : cNode w1 i = some t) : cNode w2 i = some t := by
  unfold cNode at *
  cases hc : coreAt w1 i with
  | none => rw [hc] at h; cases h
  | some c => rw [hle i c hc]; rw [hc] at h; exact h

theorem cGraph_mono {i : Nat} {t : GraphS} (h : cGraph w1 i = some t) : cGraph w2 i = some t := by
  unfold cGraph at *
  cases hc : coreAt w1 i with
  | none => rw [hc] at h; cases h
  | some c => rw [hle i c hc]; rw [hc] at h; exact h

theorem cAttr_mono {i : Nat} {t : AttrS} (h : cAttr w1 i = some t) : cAttr w2 i = some t := by
  unfold cAttr at *
  cases hc : coreAt w1 i with
  | none => rw [hc] at h; cases h
  | some c => rw [hle i c hc]; rw [hc] at h; exact h

theorem optType_mono {o : Option Nat} {t : Option TypeS} (h : optType w1 o = some t) :
    optType w2 o = some t := by
  cases o with
  | none => exact h
  | some i =>
    simp only [optType] at *
    cases hc : cType w1 i with
    | none => rw [hc] at h; cases h
    | some x => rw [cType_mono hle hc]; rw [hc] at h; exact h

theorem optShape_mono {o : Option Nat} {t : Option (List Dim × List (Option String))}
    (h : optShape w1 o = some t) : optShape w2 o = some t := by
  cases o with
  | none => exact h
  | some i =>
    simp only [optShape] at *
    cases hc : cShape w1 i with
    | none => rw [hc] at h; cases h
    | some x => rw [cShape_mono hle hc]; rw [hc] at h; exact h

theorem vinfo_mono {v : Nat} {i : VInfo} (h : vinfo w1 v = some i) : vinfo w2 v = some i := by
  unfold vinfo at *
  cases hv : cVal w1 v with
  | none => rw [hv] at h; cases h
  | some vs =>
    rw [hv] at h
    rw [cVal_mono hle hv]
    simp only at h ⊢
    cases ht : optType w1 vs.type with
    | none => rw [ht] at h; cases h
    | some ty =>
      cases hs : optShape w1 vs.shape with
      | none => rw [ht, hs] at h; cases h
      | some sh =>
        cases hp : cDict w1 vs.props with
        | none => rw [ht, hs, hp] at h; cases h
        | some p =>
          cases hm : cDict w1 vs.mstore with
          | none => rw [ht, hs, hp, hm] at h; cases h
          | some m =>
            rw [ht, hs, hp, hm] at h
            rw [optType_mono hle ht, optShape_mono hle hs, cDict_mono hle hp, cDict_mono hle hm]
            exact h

theorem ValSim.mono {v v' : Nat} (h : ValSim w1 v v') : ValSim w2 v v' := by
  obtain ⟨i, a, b⟩ := h
  exact ⟨i, vinfo_mono hle a, vinfo_mono hle b⟩

theorem RefSim.mono {r r' : Option Nat} (h : RefSim w1 r r') : RefSim w2 r r' := by
  rcases h with h | ⟨v, v', a, b, c⟩
  · exact .inl h
  · exact .inr ⟨v, v', a, b, c.mono hle⟩

theorem PropsSim.mono {d d' : Nat} (h : PropsSim w1 d d') : PropsSim w2 d d' := by
  obtain ⟨x, x', a, b, c⟩ := h
  exact ⟨x, x', cDict_mono hle a, cDict_mono hle b, c⟩

theorem MetaSim.mono {d d' : Nat} (h : MetaSim w1 d d') : MetaSim w2 d d' := by
  obtain ⟨x, x', a, b, c⟩ := h
  exact ⟨x, x', cDict_mono hle a, cDict_mono hle b, c⟩

theorem DevSim.mono {d d' : List DevCfg} (h : DevSim w1 d d') : DevSim w2 d d' :=
  All2.mono (fun _ _ ⟨a, b⟩ => ⟨a, All2.mono (fun _ _ ⟨x, y⟩ => ⟨x, y.mono hle⟩) b⟩) h

theorem initDict_mono_aux (vs : List Nat) (hv : ∀ v ∈ vs, ∃ x, cVal w1 v = some x) :
    ∀ acc, vs.foldl (fun acc v => match cVal w2 v with
      | some x => match x.name with
        | some nm => dictSet acc nm v
        | none => acc
      | none => acc) acc =
    vs.foldl (fun acc v => match cVal w1 v with
      | some x => match x.name with
        | some nm => dictSet acc nm v
        | none => acc
      | none => acc) acc := by
  induction vs with
  | nil => intro acc; rfl
  | cons v vs ih =>
    intro acc
    simp only [List.foldl_cons]
    obtain ⟨x, hx⟩ := hv v List.mem_cons_self
    rw [cVal_mono hle hx, hx]
    exact ih (fun v' hv' => hv v' (List.mem_cons_of_mem _ hv')) _

theorem initDict_mono {vs : List Nat} (hv : ∀ v ∈ vs, ∃ x, cVal w1 v = some x) :
    initDict w2 vs = initDict w1 vs := initDict_mono_aux hle vs hv []

end

theorem ValSim.readable_right {w : World} {v v' : Nat} (h : ValSim w v v') : ∃ x, cVal w v' = some x := by
  obtain ⟨i, _, b⟩ := h
  unfold vinfo at b
  cases hv : cVal w v' with
  | none => rw [hv] at b; cases b
  | some x => exact ⟨x, rfl⟩

theorem All2.right_forall {α β : Type} {R : α → β → Prop} {P : β → Prop} (h : ∀ a b, R a b → P b) :
    ∀ {l : List α} {l' : List β}, All2 R l l' → ∀ b ∈ l', P b
  | _, _, .nil => by simp
  | _, _, .cons r rs => by
    intro b hb
    rcases List.mem_cons.mp hb with rfl | hb
    · exact h _ _ r
    · exact All2.right_forall h rs b hb

mutual
theorem AttrSim.mono {w1 w2 : World} (hle : CoreLe w1 w2) : ∀ {x y : String × Nat}, AttrSim w1 x y → AttrSim w2 x y
  | _, _, .shared k a as h1 h2 => .shared k a as (cAttr_mono hle h1) h2
  | _, _, .graph k a a' as g g' h1 h2 h3 h4 =>
      .graph k a a' as g g' (cAttr_mono hle h1) h2 (cAttr_mono hle h3) (GraphSim.mono hle h4)
  | _, _, .graphs k a a' as gs gs' h1 h2 h3 h4 =>
      .graphs k a a' as gs gs' (cAttr_mono hle h1) h2 (cAttr_mono hle h3) (GraphsSim.mono hle h4)
theorem AttrsSim.mono {w1 w2 : World} (hle : CoreLe w1 w2) : ∀ {x y : List (String × Nat)}, AttrsSim w1 x y → AttrsSim w2 x y
  | _, _, .nil => .nil
  | _, _, .cons a b => .cons (AttrSim.mono hle a) (AttrsSim.mono hle b)
theorem NodeSim.mono {w1 w2 : World} (hle : CoreLe w1 w2) : ∀ {x y : Nat}, NodeSim w1 x y → NodeSim w2 x y
  | _, _, .mk n n' ns ns' na h1 h2 a b c d e f hin hout hat hd hp hm hdev =>
      .mk n n' ns ns' na (cNode_mono hle h1) (cNode_mono hle h2) a b c d e f
        (All2.mono (fun _ _ h => h.mono hle) hin) (All2.mono (fun _ _ h => h.mono hle) hout)
        (AttrsSim.mono hle hat) hd (hp.mono hle) (hm.mono hle) (hdev.mono hle)
theorem NodesSim.mono {w1 w2 : World} (hle : CoreLe w1 w2) : ∀ {x y : List Nat}, NodesSim w1 x y → NodesSim w2 x y
  | _, _, .nil => .nil
  | _, _, .cons a b => .cons (NodeSim.mono hle a) (NodesSim.mono hle b)
theorem GraphSim.mono {w1 w2 : World} (hle : CoreLe w1 w2) : ∀ {x y : Nat}, GraphSim w1 x y → GraphSim w2 x y
  | _, _, .mk g g' gs gs' inits' h1 h2 a b c hin hinit hd hn hout hp hm =>
      .mk g g' gs gs' inits' (cGraph_mono hle h1) (cGraph_mono hle h2) a b c
        (All2.mono (fun _ _ h => h.mono hle) hin) (All2.mono (fun _ _ h => h.mono hle) hinit)
        (by rw [hd]; exact (initDict_mono hle (All2.right_forall (fun _ _ h => h.readable_right) hinit)).symm)
        (NodesSim.mono hle hn) (All2.mono (fun _ _ h => h.mono hle) hout) (hp.mono hle) (hm.mono hle)
theorem GraphsSim.mono {w1 w2 : World} (hle : CoreLe w1 w2) : ∀ {x y : List Nat}, GraphsSim w1 x y → GraphsSim w2 x y
  | _, _, .nil => .nil
  | _, _, .cons a b => .cons (GraphSim.mono hle a) (GraphsSim.mono hle b)
end

/-! ### third Hoare layer: the cloner establishes the simulation -/

/-- every binding of the value map relates observationally equal values -/
def K (s : St) : Prop := ∀ p ∈ s.vm, ValSim s.w p.1 p.2

/-- when `m` returns normally from `s`: the value map is still sound, every cell that existed is
    still there with the same core, and the result satisfies `Q`.  (Nothing is claimed when `m`
    raises: an abandoned clone is taken apart again.) -/
def SGoodAt (m : M α) (s : St) (Q : α → St → Prop) : Prop :=
  ∀ a, (m s).1 = .ok a → K (m s).2 ∧ CoreLe s.w (m s).2.w ∧ Q a (m s).2

theorem SGoodAt.pure {a : α} {s : St} {Q : α → St → Prop} (hK : K s) (hQ : Q a s) :
    SGoodAt (Pure.pure a : M α) s Q := by
  intro b hb; cases hb; exact ⟨hK, CoreLe.refl _, hQ⟩

theorem SGoodAt.fail {e : Err} {s : St} {Q : α → St → Prop} :
    SGoodAt (Clone.fail e : M α) s Q := by
  intro b hb; cases hb

theorem SGoodAt.raise {why : String} {s : St} {Q : α → St → Prop} :
    SGoodAt (Clone.raise why : M α) s Q := SGoodAt.fail

theorem SGoodAt.unsupported {why : String} {s : St} {Q : α → St → Prop} :
    SGoodAt (Clone.unsupported why : M α) s Q := SGoodAt.fail

theorem SGoodAt.bind {m : M α} {f : α → M β} {s : St} {Q : α → St → Prop} {R : β → St → Prop}
    (hm : SGoodAt m s Q)
    (hf : ∀ a s1, K s1 → CoreLe s.w s1.w → Q a s1 → SGoodAt (f a) s1 R) :
    SGoodAt (m >>= f) s R := by
  show SGoodAt (M.bind m f) s R
  unfold SGoodAt M.bind
  intro b hb
  rcases hms : m s with ⟨r, s1⟩
  rw [hms] at hb
  cases r with
  | error e => cases hb
  | ok a =>
    have := hm a (by rw [hms])
    rw [hms] at this
    obtain ⟨hK1, hl1, hq1⟩ := this
    obtain ⟨hK2, hl2, hq2⟩ := hf a s1 hK1 hl1 hq1 b hb
    exact ⟨hK2, hl1.trans hl2, hq2⟩

theorem SGoodAt.mono {m : M α} {s : St} {Q R : α → St → Prop} (hm : SGoodAt m s Q)
    (h : ∀ a s1, K s1 → CoreLe s.w s1.w → Q a s1 → R a s1) : SGoodAt m s R := by
  intro a ha
  obtain ⟨x, y, z⟩ := hm a ha
  exact ⟨x, y, h a _ x y z⟩

macro "sbind " h:term " with " a:ident s1:ident hK:ident hl:ident hq:ident : tactic =>
  `(tactic| (refine SGoodAt.bind $h ?_; intro $a $s1 $hK $hl $hq))

theorem K.mono {s s' : St} (hK : K s) (hle : CoreLe s.w s'.w) (hvm : s'.vm = s.vm) : K s' := by
  intro p hp
  rw [hvm] at hp
  exact (hK p hp).mono hle

theorem SGoodAt.alloc {s : St} (c : Cell) (hK : K s) :
    SGoodAt (Clone.alloc c) s (fun r s1 => r = s.w.length ∧ coreAt s1.w r = some c.core ∧ s1.vm = s.vm) := by
  intro a ha
  simp only [Clone.alloc, Except.ok.injEq] at ha
  subst ha
  exact ⟨hK.mono (CoreLe.append _ _) rfl, CoreLe.append _ _, rfl, coreAt_append_new _ _, rfl⟩

/-- a write that only changes back links -/
theorem SGoodAt.setNonCore {s : St} {i : Nat} {c c' : Cell} (hK : K s) (h : s.w[i]? = some c)
    (hc : c'.core = c.core) : SGoodAt (setCell i c') s (fun _ _ => True) :=
  fun _ _ => ⟨hK.mono (CoreLe.set h hc) rfl, CoreLe.set h hc, trivial⟩

/-- an operation on the cloner's bookkeeping (pending outputs, created nodes) -/
theorem SGoodAt.bookkeeping {m : M α} {s : St} (hK : K s)
    (h : ∀ s, (m s).2.w = s.w ∧ (m s).2.vm = s.vm) : SGoodAt m s (fun _ s1 => s1.w = s.w) := by
  intro a _
  obtain ⟨hw, hvm⟩ := h s
  refine ⟨?_, by rw [hw]; exact CoreLe.refl _, hw⟩
  intro p hp
  rw [hvm] at hp
  rw [hw]
  exact hK p hp

theorem SGoodAt.readVal {s : St} {i : Nat} (hK : K s) :
    SGoodAt (Clone.readVal i) s (fun r s1 => s1 = s ∧ s.w[i]? = some (.val r)) := by
  unfold SGoodAt Clone.readVal
  split
  · next v h => intro a ha; cases ha; exact ⟨hK, CoreLe.refl _, rfl, h⟩
  · intro a ha; cases ha

theorem SGoodAt.readNode {s : St} {i : Nat} (hK : K s) :
    SGoodAt (Clone.readNode i) s (fun r s1 => s1 = s ∧ s.w[i]? = some (.node r)) := by
  unfold SGoodAt Clone.readNode
  split
  · next v h => intro a ha; cases ha; exact ⟨hK, CoreLe.refl _, rfl, h⟩
  · intro a ha; cases ha

theorem SGoodAt.readGraph {s : St} {i : Nat} (hK : K s) :
    SGoodAt (Clone.readGraph i) s (fun r s1 => s1 = s ∧ s.w[i]? = some (.graph r)) := by
  unfold SGoodAt Clone.readGraph
  split
  · next v h => intro a ha; cases ha; exact ⟨hK, CoreLe.refl _, rfl, h⟩
  · intro a ha; cases ha

theorem SGoodAt.readType {s : St} {i : Nat} (hK : K s) :
    SGoodAt (Clone.readType i) s (fun r s1 => s1 = s ∧ s.w[i]? = some (.type r)) := by
  unfold SGoodAt Clone.readType
  split
  · next v h => intro a ha; cases ha; exact ⟨hK, CoreLe.refl _, rfl, h⟩
  · intro a ha; cases ha

theorem SGoodAt.readShape {s : St} {i : Nat} (hK : K s) :
    SGoodAt (Clone.readShape i) s (fun r s1 => s1 = s ∧ s.w[i]? = some (.shape r)) := by
  unfold SGoodAt Clone.readShape
  split
  · next v h => intro a ha; cases ha; exact ⟨hK, CoreLe.refl _, rfl, h⟩
  · intro a ha; cases ha

theorem SGoodAt.readDict {s : St} {i : Nat} (hK : K s) :
    SGoodAt (Clone.readDict i) s (fun r s1 => s1 = s ∧ s.w[i]? = some (.dict r)) := by
  unfold SGoodAt Clone.readDict
  split
  · next v h => intro a ha; cases ha; exact ⟨hK, CoreLe.refl _, rfl, h⟩
  · intro a ha; cases ha

theorem SGoodAt.readAttr {s : St} {i : Nat} (hK : K s) :
    SGoodAt (Clone.readAttr i) s (fun r s1 => s1 = s ∧ s.w[i]? = some (.attr r)) := by
  unfold SGoodAt Clone.readAttr
  split
  · next v h => intro a ha; cases ha; exact ⟨hK, CoreLe.refl _, rfl, h⟩
  · intro a ha; cases ha

theorem SGoodAt.vmGet {s : St} {v : Nat} (hK : K s) :
    SGoodAt (Clone.vmGet v) s (fun r s1 => s1 = s ∧ r = s.vm.lookup v) := by
  intro a ha
  simp only [Clone.vmGet, Except.ok.injEq] at ha
  exact ⟨hK, CoreLe.refl _, rfl, ha.symm⟩

theorem SGoodAt.getVm {s : St} (hK : K s) :
    SGoodAt Clone.getVm s (fun r s1 => s1 = s ∧ r = s.vm) := by
  intro a ha
  simp only [Clone.getVm, Except.ok.injEq] at ha
  exact ⟨hK, CoreLe.refl _, rfl, ha.symm⟩

theorem SGoodAt.pendHas {s : St} {v : Nat} (hK : K s) :
    SGoodAt (Clone.pendHas v) s (fun _ s1 => s1 = s) :=
  fun _ _ => ⟨hK, CoreLe.refl _, rfl⟩

theorem SGoodAt.vmSet {s : St} {a b : Nat} (hK : K s) (hab : ValSim s.w a b) :
    SGoodAt (Clone.vmSet a b) s (fun _ s1 => s1.w = s.w) := by
  intro _ _
  refine ⟨?_, CoreLe.refl _, rfl⟩
  intro p hp
  simp only [Clone.vmSet, List.mem_cons] at hp
  rcases hp with h | h
  · subst h; exact hab
  · exact hK p h

theorem guarded_ok {body : M Nat} {s s' : St} {x : Nat} (h : body s = (.ok x, s')) :
    guarded body s = (.ok x, s') := by
  simp [guarded, onError, h]

theorem guarded_err {body : M Nat} {s s' : St} {e : Err} (h : body s = (.error e, s')) :
    (guarded body s).1 = .error e := by
  simp [guarded, onError, h]

/-- `try ... except: detach; raise`: nothing changes on the normal path -/
theorem guarded_sim {body : M Nat} {Q : Nat → St → Prop} {s : St} (hb : SGoodAt body s Q) :
    SGoodAt (guarded body) s Q := by
  intro a ha
  rcases hbs : body s with ⟨r, s'⟩
  cases r with
  | ok x =>
    rw [guarded_ok hbs] at ha ⊢
    have := hb x (by rw [hbs])
    rw [hbs] at this
    cases ha
    exact this
  | error e =>
    rw [guarded_err hbs] at ha
    cases ha

/-! reading cells through their cores -/

theorem cVal_of {w : World} {i : Nat} {v : ValueS} (h : w[i]? = some (.val v)) :
    cVal w i = some { v with uses := [], graph := none, isIn := false, isOut := false,
                             isInit := false, producer := none } := by
  simp [cVal, coreAt, h, Cell.core]
theorem cNode_of {w : World} {i : Nat} {v : NodeS} (h : w[i]? = some (.node v)) :
    cNode w i = some { v with graph := none } := by
  simp [cNode, coreAt, h, Cell.core]
theorem cGraph_of {w : World} {i : Nat} {v : GraphS} (h : w[i]? = some (.graph v)) :
    cGraph w i = some v := by
  simp [cGraph, coreAt, h, Cell.core]
theorem cType_of {w : World} {i : Nat} {v : TypeS} (h : w[i]? = some (.type v)) :
    cType w i = some v := by
  simp [cType, coreAt, h, Cell.core]
theorem cShape_of {w : World} {i : Nat} {v : ShapeS} (h : w[i]? = some (.shape v)) :
    cShape w i = some v := by
  simp [cShape, coreAt, h, Cell.core]
theorem cDict_of {w : World} {i : Nat} {v : DictS} (h : w[i]? = some (.dict v)) :
    cDict w i = some v := by
  simp [cDict, coreAt, h, Cell.core]
theorem cAttr_of {w : World} {i : Nat} {v : AttrS} (h : w[i]? = some (.attr v)) :
    cAttr w i = some v := by
  simp [cAttr, coreAt, h, Cell.core]

theorem cVal_ofCore {w : World} {i : Nat} {v : ValueS} (h : coreAt w i = some (Cell.val v).core) :
    cVal w i = some { v with uses := [], graph := none, isIn := false, isOut := false,
                             isInit := false, producer := none } := by
  simp [cVal, h, Cell.core]
theorem cNode_ofCore {w : World} {i : Nat} {v : NodeS} (h : coreAt w i = some (Cell.node v).core) :
    cNode w i = some { v with graph := none } := by
  simp [cNode, h, Cell.core]
theorem cGraph_ofCore {w : World} {i : Nat} {v : GraphS} (h : coreAt w i = some (Cell.graph v).core) :
    cGraph w i = some v := by
  simp [cGraph, h, Cell.core]
theorem cType_ofCore {w : World} {i : Nat} {v : TypeS} (h : coreAt w i = some (Cell.type v).core) :
    cType w i = some v := by
  simp [cType, h, Cell.core]
theorem cShape_ofCore {w : World} {i : Nat} {v : ShapeS} (h : coreAt w i = some (Cell.shape v).core) :
    cShape w i = some v := by
  simp [cShape, h, Cell.core]
theorem cDict_ofCore {w : World} {i : Nat} {v : DictS} (h : coreAt w i = some (Cell.dict v).core) :
    cDict w i = some v := by
  simp [cDict, h, Cell.core]
theorem cAttr_ofCore {w : World} {i : Nat} {v : AttrS} (h : coreAt w i = some (Cell.attr v).core) :
    cAttr w i = some v := by
  simp [cAttr, h, Cell.core]

/-! the copies -/

theorem copyShape_sim {s : St} (o : Option Nat) (hK : K s) :
    SGoodAt (copyShape o) s (fun r s1 => ∃ sh, optShape s1.w o = some sh ∧ optShape s1.w r = some sh) := by
  cases o with
  | none => exact SGoodAt.pure hK ⟨none, rfl, rfl⟩
  | some a =>
    unfold copyShape
    sbind (SGoodAt.readShape hK) with ss s1 hK1 hl1 hq1
    obtain ⟨rfl, hss⟩ := hq1
    sbind (SGoodAt.alloc _ hK1) with i s2 hK2 hl2 hq2
    refine SGoodAt.pure hK2 ⟨some (ss.dims, ss.denots), ?_, ?_⟩
    · simp [optShape, cShape_mono hl2 (cShape_of hss)]
    · simp [optShape, cShape_ofCore hq2.2.1]

theorem copyType_sim {s : St} (o : Option Nat) (hK : K s) :
    SGoodAt (copyType o) s (fun r s1 => ∃ ty, optType s1.w o = some ty ∧ optType s1.w r = some ty) := by
  cases o with
  | none => exact SGoodAt.pure hK ⟨none, rfl, rfl⟩
  | some a =>
    unfold copyType
    sbind (SGoodAt.readType hK) with ts s1 hK1 hl1 hq1
    obtain ⟨rfl, hts⟩ := hq1
    sbind (SGoodAt.alloc _ hK1) with i s2 hK2 hl2 hq2
    refine SGoodAt.pure hK2 ⟨some ts, ?_, ?_⟩
    · simp [optType, cType_mono hl2 (cType_of hts)]
    · simp [optType, cType_ofCore hq2.2.1]

theorem copyProps_sim {s : St} (old : Nat) (hK : K s) :
    SGoodAt (copyProps old) s (fun r s1 => ∃ d, cDict s1.w old = some d ∧
      cDict s1.w r = some { data := d.data, invalid := [] }) := by
  unfold copyProps
  sbind (SGoodAt.readDict hK) with d s1 hK1 hl1 hq1
  obtain ⟨rfl, hd⟩ := hq1
  refine (SGoodAt.alloc _ hK1).mono ?_
  intro r s2 _ hl2 hq2
  exact ⟨d, cDict_mono hl2 (cDict_of hd), cDict_ofCore hq2.2.1⟩

theorem copyMeta_sim {s : St} (old : Nat) (hK : K s) :
    SGoodAt (copyMeta old) s (fun r s1 => ∃ d, cDict s1.w old = some d ∧
      cDict s1.w r = some { data := d.data, invalid := d.invalid }) := by
  unfold copyMeta
  sbind (SGoodAt.readDict hK) with d s1 hK1 hl1 hq1
  obtain ⟨rfl, hd⟩ := hq1
  refine (SGoodAt.alloc _ hK1).mono ?_
  intro r s2 _ hl2 hq2
  exact ⟨d, cDict_mono hl2 (cDict_of hd), cDict_ofCore hq2.2.1⟩

/-- assembling the observation of a value from its parts -/
theorem vinfo_of_parts {w : World} {v : Nat} {vs : ValueS} {ty : Option TypeS}
    {sh : Option (List Dim × List (Option String))} {p m : DictS}
    (hv : cVal w v = some vs) (ht : optType w vs.type = some ty) (hs : optShape w vs.shape = some sh)
    (hp : cDict w vs.props = some p) (hm : cDict w vs.mstore = some m) :
    vinfo w v = some { name := vs.name, doc := vs.doc, const := vs.const, type := ty, shape := sh,
                       props := p.data, mdata := m.data, minvalid := m.invalid } := by
  simp [vinfo, hv, ht, hs, hp, hm]

theorem valSim_of_copy {w : World} {v v' : Nat} {vs vs' : ValueS}
    (hv : cVal w v = some vs) (hv' : cVal w v' = some vs')
    (hname : vs'.name = vs.name) (hdoc : vs'.doc = vs.doc) (hconst : vs'.const = vs.const)
    (ht : ∃ t, optType w vs.type = some t ∧ optType w vs'.type = some t)
    (hs : ∃ t, optShape w vs.shape = some t ∧ optShape w vs'.shape = some t)
    (hp : ∃ d, cDict w vs.props = some d ∧ cDict w vs'.props = some { data := d.data, invalid := [] })
    (hm : ∃ d, cDict w vs.mstore = some d ∧
      cDict w vs'.mstore = some { data := d.data, invalid := d.invalid }) : ValSim w v v' := by
  obtain ⟨ty, t1, t2⟩ := ht
  obtain ⟨sh, s1, s2⟩ := hs
  obtain ⟨p, p1, p2⟩ := hp
  obtain ⟨m, m1, m2⟩ := hm
  refine ⟨_, vinfo_of_parts hv t1 s1 p1 m1, ?_⟩
  rw [vinfo_of_parts hv' t2 s2 p2 m2, hname, hdoc, hconst]

theorem optType_mono' {w1 w2 : World} (hle : CoreLe w1 w2) {a b : Option Nat}
    (h : ∃ t, optType w1 a = some t ∧ optType w1 b = some t) :
    ∃ t, optType w2 a = some t ∧ optType w2 b = some t := by
  obtain ⟨t, x, y⟩ := h
  exact ⟨t, optType_mono hle x, optType_mono hle y⟩

theorem optShape_mono' {w1 w2 : World} (hle : CoreLe w1 w2) {a b : Option Nat}
    (h : ∃ t, optShape w1 a = some t ∧ optShape w1 b = some t) :
    ∃ t, optShape w2 a = some t ∧ optShape w2 b = some t := by
  obtain ⟨t, x, y⟩ := h
  exact ⟨t, optShape_mono hle x, optShape_mono hle y⟩

theorem cDictPair_mono {w1 w2 : World} (hle : CoreLe w1 w2) {a b : Nat} {f : DictS → DictS}
    (h : ∃ d, cDict w1 a = some d ∧ cDict w1 b = some (f d)) :
    ∃ d, cDict w2 a = some d ∧ cDict w2 b = some (f d) := by
  obtain ⟨t, x, y⟩ := h
  exact ⟨t, cDict_mono hle x, cDict_mono hle y⟩

theorem mem_of_lookup' {v x : Nat} : ∀ {l : List (Nat × Nat)}, l.lookup v = some x → (v, x) ∈ l :=
  mem_of_lookup

theorem cloneOrGetValue_sim {s : St} (v : Nat) (hK : K s) :
    SGoodAt (cloneOrGetValue v) s (fun r s1 => ValSim s1.w v r) := by
  unfold cloneOrGetValue
  sbind (SGoodAt.vmGet hK) with o s1 hK1 hl1 hq1
  obtain ⟨rfl, rfl⟩ := hq1
  cases hlk : s1.vm.lookup v with
  | some v' => exact SGoodAt.pure hK1 (hK1 (v, v') (mem_of_lookup hlk))
  | none =>
    simp only
    sbind (SGoodAt.readVal hK1) with vs s2 hK2 hl2 hq2
    obtain ⟨rfl, hvs⟩ := hq2
    sbind (copyShape_sim vs.shape hK2) with sh s3 hK3 hl3 hsh
    sbind (copyType_sim vs.type hK3) with ty s4 hK4 hl4 hty
    sbind (copyProps_sim vs.props hK4) with pr s5 hK5 hl5 hpr
    sbind (copyMeta_sim vs.mstore hK5) with me s6 hK6 hl6 hme
    sbind (SGoodAt.alloc _ hK6) with v' s7 hK7 hl7 hv'
    have hle27 : CoreLe s2.w s7.w := hl3.trans (hl4.trans (hl5.trans (hl6.trans hl7)))
    have hsim : ValSim s7.w v v' :=
      valSim_of_copy (cVal_mono hle27 (cVal_of hvs)) (cVal_ofCore hv'.2.1) rfl rfl rfl
        (optType_mono' (hl5.trans (hl6.trans hl7)) hty)
        (optShape_mono' (hl4.trans (hl5.trans (hl6.trans hl7))) hsh)
        (cDictPair_mono (f := fun d => { data := d.data, invalid := [] }) (hl6.trans hl7) hpr)
        (cDictPair_mono (f := fun d => { data := d.data, invalid := d.invalid }) hl7 hme)
    sbind (SGoodAt.vmSet hK7 hsim) with u s8 hK8 hl8 hq8
    exact SGoodAt.pure hK8 (by rw [hq8]; exact hsim)

theorem cloneOutput_sim {s : St} (i o : Nat) (hK : K s) :
    SGoodAt (cloneOutput i o) s (fun r s1 => ValSim s1.w o r) := by
  unfold cloneOutput
  sbind (SGoodAt.readVal hK) with vs s2 hK2 hl2 hq2
  obtain ⟨rfl, hvs⟩ := hq2
  sbind (copyShape_sim vs.shape hK2) with sh s3 hK3 hl3 hsh
  sbind (copyType_sim vs.type hK3) with ty s4 hK4 hl4 hty
  sbind (copyProps_sim vs.props hK4) with pr s5 hK5 hl5 hpr
  sbind (copyMeta_sim vs.mstore hK5) with me s6 hK6 hl6 hme
  sbind (SGoodAt.alloc _ hK6) with v' s7 hK7 hl7 hv'
  have hle27 : CoreLe s2.w s7.w := hl3.trans (hl4.trans (hl5.trans (hl6.trans hl7)))
  have hsim : ValSim s7.w o v' :=
    valSim_of_copy (cVal_mono hle27 (cVal_of hvs)) (cVal_ofCore hv'.2.1) rfl rfl rfl
      (optType_mono' (hl5.trans (hl6.trans hl7)) hty)
      (optShape_mono' (hl4.trans (hl5.trans (hl6.trans hl7))) hsh)
      (cDictPair_mono (f := fun d => { data := d.data, invalid := [] }) (hl6.trans hl7) hpr)
      (cDictPair_mono (f := fun d => { data := d.data, invalid := d.invalid }) hl7 hme)
  sbind (SGoodAt.vmSet hK7 hsim) with u s8 hK8 hl8 hq8
  sbind (SGoodAt.bookkeeping (m := pendDiscard o) hK8 (fun _ => ⟨rfl, rfl⟩)) with u2 s9 hK9 hl9 hq9
  exact SGoodAt.pure hK9 (by rw [hq9, hq8]; exact hsim)

theorem cloneOutputs_sim :
    ∀ (os : List Nat) (i : Nat) (s : St), K s →
      SGoodAt (cloneOutputs i os) s (fun r s1 => All2 (ValSim s1.w) os r)
  | [], i, s, hK => by unfold cloneOutputs; exact SGoodAt.pure hK .nil
  | o :: os, i, s, hK => by
    unfold cloneOutputs
    sbind (cloneOutput_sim i o hK) with o' s1 hK1 hl1 ho'
    sbind (cloneOutputs_sim os (i + 1) s1 hK1) with rest s2 hK2 hl2 hrest
    exact SGoodAt.pure hK2 (.cons (ho'.mono hl2) hrest)

/-- the general list rule -/
theorem mapM'_sim {α β : Type} {f : α → M β} {R : α → β → St → Prop}
    (hR : ∀ a b s s', R a b s → CoreLe s.w s'.w → R a b s') :
    ∀ (l : List α) (s : St), K s → (∀ a ∈ l, ∀ s1, K s1 → SGoodAt (f a) s1 (R a)) →
      SGoodAt (mapM' f l) s (fun r s1 => All2 (fun a b => R a b s1) l r)
  | [], s, hK, _ => SGoodAt.pure hK .nil
  | a :: as, s, hK, hf => by
    unfold mapM'
    sbind (hf a List.mem_cons_self s hK) with b s1 hK1 hl1 hb
    sbind (mapM'_sim hR as s1 hK1 (fun a' ha' s2 hK2 => hf a' (List.mem_cons_of_mem _ ha') s2 hK2))
      with bs s2 hK2 hl2 hbs
    exact SGoodAt.pure hK2 (.cons (hR _ _ _ _ hb hl2) hbs)

theorem forM'_sim {α : Type} {f : α → M Unit} :
    ∀ (l : List α) (s : St), K s → (∀ a ∈ l, ∀ s1, K s1 → SGoodAt (f a) s1 (fun _ _ => True)) →
      SGoodAt (forM' f l) s (fun _ _ => True)
  | [], s, hK, _ => SGoodAt.pure hK trivial
  | a :: as, s, hK, hf => by
    unfold forM'
    sbind (hf a List.mem_cons_self s hK) with b s1 hK1 hl1 hb
    exact forM'_sim as s1 hK1 (fun a' ha' s2 hK2 => hf a' (List.mem_cons_of_mem _ ha') s2 hK2)

/-! writes that only touch back links -/

theorem addUse_sim {s : St} (v n i : Nat) (hK : K s) : SGoodAt (addUse v n i) s (fun _ _ => True) := by
  unfold addUse
  sbind (SGoodAt.readVal hK) with vs s1 hK1 hl1 hq1
  obtain ⟨rfl, h⟩ := hq1
  exact SGoodAt.setNonCore hK1 h rfl

theorem addUses_sim (n : Nat) : ∀ (l : List (Option Nat)) (i : Nat) (s : St), K s →
    SGoodAt (addUses n i l) s (fun _ _ => True)
  | [], i, s, hK => SGoodAt.pure hK trivial
  | none :: rest, i, s, hK => by unfold addUses; exact addUses_sim n rest (i + 1) s hK
  | some v :: rest, i, s, hK => by
    unfold addUses
    sbind (addUse_sim v n i hK) with u s1 hK1 hl1 hq1
    exact addUses_sim n rest (i + 1) s1 hK1

theorem setProducer_sim {s : St} (n v : Nat) (hK : K s) :
    SGoodAt (setProducer n v) s (fun _ _ => True) := by
  unfold setProducer
  sbind (SGoodAt.readVal hK) with vs s1 hK1 hl1 hq1
  obtain ⟨rfl, h⟩ := hq1
  exact SGoodAt.setNonCore hK1 h rfl

theorem setValueOwner_sim {s : St} (g : Nat) (f : ValueS → ValueS) (v : Nat)
    (hf : ∀ x, (Cell.val (f x)).core = (Cell.val x).core) (hK : K s) :
    SGoodAt (setValueOwner g f v) s (fun _ _ => True) := by
  unfold setValueOwner
  sbind (SGoodAt.readVal hK) with vs s1 hK1 hl1 hq1
  obtain ⟨rfl, h⟩ := hq1
  exact SGoodAt.setNonCore hK1 h (by rw [hf]; rfl)

theorem checkInput_sim {s : St} (g v : Nat) (hK : K s) : SGoodAt (checkInput g v) s (fun _ _ => True) := by
  unfold checkInput
  sbind (SGoodAt.readVal hK) with vs s1 hK1 hl1 hq1
  split
  · exact SGoodAt.raise
  · split
    · exact SGoodAt.raise
    · exact SGoodAt.pure hK1 trivial

theorem checkOwned_sim {s : St} (g v : Nat) (hK : K s) : SGoodAt (checkOwned g v) s (fun _ _ => True) := by
  unfold checkOwned
  sbind (SGoodAt.readVal hK) with vs s1 hK1 hl1 hq1
  split
  · exact SGoodAt.raise
  · exact SGoodAt.pure hK1 trivial

theorem checkNamed_sim {s : St} (v : Nat) (hK : K s) : SGoodAt (checkNamed v) s (fun _ _ => True) := by
  unfold checkNamed
  sbind (SGoodAt.readVal hK) with vs s1 hK1 hl1 hq1
  split
  · exact SGoodAt.unsupported
  · exact SGoodAt.pure hK1 trivial

theorem checkNodeFree_sim {s : St} (g n : Nat) (hK : K s) :
    SGoodAt (checkNodeFree g n) s (fun _ _ => True) := by
  unfold checkNodeFree
  sbind (SGoodAt.readNode hK) with ns s1 hK1 hl1 hq1
  split
  · exact SGoodAt.raise
  · exact SGoodAt.pure hK1 trivial

theorem checkInitEntry_sim {s : St} (e : String × Nat) (hK : K s) :
    SGoodAt (checkInitEntry e) s (fun _ _ => True) := by
  unfold checkInitEntry
  sbind (SGoodAt.readVal hK) with vs s1 hK1 hl1 hq1
  split
  · exact SGoodAt.raise
  · split
    · exact SGoodAt.raise
    · exact SGoodAt.pure hK1 trivial

theorem setNodeGraph_sim {s : St} (g n : Nat) (hK : K s) :
    SGoodAt (setNodeGraph g n) s (fun _ _ => True) := by
  unfold setNodeGraph
  sbind (SGoodAt.readNode hK) with ns s1 hK1 hl1 hq1
  obtain ⟨rfl, h⟩ := hq1
  sbind (forM'_sim ns.outputs s1 hK1 (fun v _ s2 hK2 => checkNamed_sim v hK2)) with u s2 hK2 hl2 hq2
  -- the node cell is unchanged (as far as its core goes) by the read-only checks
  have : ∃ c, s2.w[n]? = some c ∧ c.core = (Cell.node ns).core := by
    have h1 : coreAt s1.w n = some (Cell.node ns).core := by simp [coreAt, h]
    have h2 := hl2 n _ h1
    unfold coreAt at h2
    cases hc : s2.w[n]? with
    | none => rw [hc] at h2; cases h2
    | some c => rw [hc] at h2; exact ⟨c, rfl, by simpa using h2⟩
  obtain ⟨c, hc, hcore⟩ := this
  exact SGoodAt.setNonCore hK2 hc (by rw [hcore]; rfl)

/-! inputs, attributes, nodes -/

theorem mapInputs_sim {allow : Bool} : ∀ (l : List (Option Nat)) (s : St), K s →
    SGoodAt (mapInputs allow l) s (fun r s1 => s1 = s ∧ All2 (RefSim s.w) l r)
  | [], s, hK => SGoodAt.pure hK ⟨rfl, .nil⟩
  | none :: rest, s, hK => by
    unfold mapInputs
    sbind (mapInputs_sim rest s hK) with r s1 hK1 hl1 hq1
    obtain ⟨rfl, hq1⟩ := hq1
    exact SGoodAt.pure hK1 ⟨rfl, .cons (.inl rfl) hq1⟩
  | some v :: rest, s, hK => by
    unfold mapInputs
    sbind (SGoodAt.vmGet hK) with o s1 hK1 hl1 hq1
    obtain ⟨rfl, rfl⟩ := hq1
    cases hlk : s1.vm.lookup v with
    | some v' =>
      simp only
      sbind (mapInputs_sim rest s1 hK1) with r s2 hK2 hl2 hq2
      obtain ⟨rfl, hq2⟩ := hq2
      exact SGoodAt.pure hK2 ⟨rfl, .cons (.inr ⟨v, v', rfl, rfl, hK2 (v, v') (mem_of_lookup hlk)⟩) hq2⟩
    | none =>
      simp only
      split
      · sbind (SGoodAt.pendHas (v := v) hK1) with b s1' hK1' hl1' hq1'
        subst hq1'
        split
        · exact SGoodAt.raise
        · sbind (mapInputs_sim rest s1' hK1') with r s2 hK2 hl2 hq2
          obtain ⟨rfl, hq2⟩ := hq2
          exact SGoodAt.pure hK2 ⟨rfl, .cons (.inl rfl) hq2⟩
      · exact SGoodAt.raise

theorem graphsSim_of_all2 {w : World} : ∀ {l l' : List Nat}, All2 (GraphSim w) l l' → GraphsSim w l l'
  | _, _, .nil => .nil
  | _, _, .cons a b => .cons a (graphsSim_of_all2 b)
theorem nodesSim_of_all2 {w : World} : ∀ {l l' : List Nat}, All2 (NodeSim w) l l' → NodesSim w l l'
  | _, _, .nil => .nil
  | _, _, .cons a b => .cons a (nodesSim_of_all2 b)
theorem attrsSim_of_all2 {w : World} : ∀ {l l' : List (String × Nat)}, All2 (AttrSim w) l l' → AttrsSim w l l'
  | _, _, .nil => .nil
  | _, _, .cons a b => .cons a (attrsSim_of_all2 b)

theorem cloneAttr_sim {rec : Nat → M Nat}
    (hrec : ∀ g s, K s → SGoodAt (rec g) s (fun g' s1 => GraphSim s1.w g g'))
    (key : String) (a : Nat) {s : St} (hK : K s) :
    SGoodAt (cloneAttr rec key a) s (fun r s1 => AttrSim s1.w (key, a) r) := by
  unfold cloneAttr
  sbind (SGoodAt.readAttr hK) with as s1 hK1 hl1 hq1
  obtain ⟨rfl, ha⟩ := hq1
  split
  · next g hg =>
    sbind (hrec g s1 hK1) with g' s2 hK2 hl2 hg'
    sbind (SGoodAt.alloc _ hK2) with a' s3 hK3 hl3 ha'
    exact SGoodAt.pure hK3 (.graph key a a' as g g' (cAttr_mono (hl2.trans hl3) (cAttr_of ha)) hg
      (cAttr_ofCore ha'.2.1) (hg'.mono hl3))
  · next gs hg =>
    sbind (mapM'_sim (R := fun g g' s => GraphSim s.w g g') (fun _ _ _ _ h hle => h.mono hle) gs s1 hK1
      (fun g _ s2 hK2 => hrec g s2 hK2)) with gs' s2 hK2 hl2 hgs'
    sbind (SGoodAt.alloc _ hK2) with a' s3 hK3 hl3 ha'
    exact SGoodAt.pure hK3 (.graphs key a a' as gs gs' (cAttr_mono (hl2.trans hl3) (cAttr_of ha)) hg
      (cAttr_ofCore ha'.2.1) (graphsSim_of_all2 (All2.mono (fun _ _ h => h.mono hl3) hgs')))
  · next h1 h2 =>
    refine SGoodAt.pure hK1 (.shared key a as (cAttr_of ha) ?_)
    cases hv : as.v with
    | plain p => rfl
    | ref p => rfl
    | graph g => exact absurd hv (h1 g)
    | graphs gs => exact absurd hv (h2 gs)

theorem remapSpec_sim {s : St} (hK : K s) (sp : DevSpec) : SpecSim s.w sp (remapSpec s.vm sp) := by
  unfold remapSpec
  split
  · exact ⟨rfl, .inl rfl⟩
  · next v hv =>
    split
    · exact ⟨rfl, .inl rfl⟩
    · next v' hv' => exact ⟨rfl, .inr ⟨v, v', hv, rfl, hK (v, v') (mem_of_lookup hv')⟩⟩

theorem all2_map_right {α β : Type} {R : α → β → Prop} {f : α → β} (h : ∀ a, R a (f a)) :
    ∀ l : List α, All2 R l (l.map f)
  | [] => .nil
  | a :: as => .cons (h a) (all2_map_right h as)

theorem remapDev_sim {s : St} (hK : K s) (d : List DevCfg) : DevSim s.w d (remapDev s.vm d) :=
  all2_map_right (fun c => ⟨rfl, all2_map_right (fun sp => remapSpec_sim hK sp) c.specs⟩) d

/-- every pair of a remapping relates a value to itself or to an equally observed value -/
def PairsSim (w : World) (m : List (Nat × Nat)) : Prop := ∀ p ∈ m, p.2 = p.1 ∨ ValSim w p.1 p.2

theorem pairsSim_append {w : World} {m1 m2 : List (Nat × Nat)} (h1 : PairsSim w m1) (h2 : PairsSim w m2) :
    PairsSim w (m1 ++ m2) := by
  intro p hp
  rcases List.mem_append.mp hp with h | h
  · exact h1 p h
  · exact h2 p h

theorem remapSpec_simP {w : World} {m : List (Nat × Nat)} (h : PairsSim w m) (sp : DevSpec) :
    SpecSim w sp (remapSpec m sp) := by
  unfold remapSpec
  split
  · exact ⟨rfl, .inl rfl⟩
  · next v hv =>
    split
    · exact ⟨rfl, .inl rfl⟩
    · next v' hv' =>
      rcases h (v, v') (mem_of_lookup hv') with h1 | h1
      · simp only at h1; subst h1; exact ⟨rfl, .inl hv.symm⟩
      · exact ⟨rfl, .inr ⟨v, v', hv, rfl, h1⟩⟩

theorem remapDev_simP {w : World} {m : List (Nat × Nat)} (h : PairsSim w m) (d : List DevCfg) :
    DevSim w d (remapDev m d) :=
  all2_map_right (fun c => ⟨rfl, all2_map_right (fun sp => remapSpec_simP h sp) c.specs⟩) d

theorem all2_zip {α β : Type} {R : α → β → Prop} : ∀ {l : List α} {l' : List β}, All2 R l l' →
    ∀ p ∈ l.zip l', R p.1 p.2
  | _, _, .nil, p, hp => by simp at hp
  | _, _, .cons h t, p, hp => by
    rw [List.zip_cons_cons] at hp
    rcases List.mem_cons.mp hp with h1 | h1
    · subst h1; exact h
    · exact all2_zip t p h1

theorem ioMap_pairs {w : World} {ins newIns : List (Option Nat)} {outs newOuts : List Nat}
    (hins : All2 (RefSim w) ins newIns) (houts : All2 (ValSim w) outs newOuts) :
    PairsSim w (ioMap ins newIns outs newOuts) := by
  intro p hp
  unfold ioMap at hp
  rcases List.mem_append.mp hp with h1 | h1
  · exact .inr (all2_zip houts p h1)
  · obtain ⟨q, hq, hqp⟩ := List.mem_filterMap.mp h1
    have hr := all2_zip hins q hq
    rcases q with ⟨qa, qb⟩
    cases qa with
    | none => simp at hqp
    | some a =>
      cases qb with
      | none => simp at hqp
      | some b =>
        simp at hqp
        subst hqp
        rcases hr with h2 | ⟨v, v', e1, e2, h2⟩
        · simp at h2; exact .inl h2
        · simp at e1 e2; subst e1 e2; exact .inr h2

theorem allocNode_sim {s : St} (c : NodeS) (hK : K s) :
    SGoodAt (allocNode c) s (fun r s1 => coreAt s1.w r = some (Cell.node c).core) := by
  unfold allocNode
  sbind (SGoodAt.alloc _ hK) with n' s1 hK1 hl1 hn'
  sbind (SGoodAt.bookkeeping (m := createdAdd n') hK1 (fun _ => ⟨rfl, rfl⟩)) with u s2 hK2 hl2 hq2
  exact SGoodAt.pure hK2 (by rw [hq2]; exact hn'.2.1)

theorem cloneNode_sim {allow : Bool} {rec : Nat → M Nat}
    (hrec : ∀ g s, K s → SGoodAt (rec g) s (fun g' s1 => GraphSim s1.w g g'))
    (n : Nat) {s : St} (hK : K s) :
    SGoodAt (cloneNode allow rec n) s (fun r s1 => NodeSim s1.w n r) := by
  unfold cloneNode
  sbind (SGoodAt.readNode hK) with ns s1 hK1 hl1 hq1
  obtain ⟨rfl, hns⟩ := hq1
  sbind (mapInputs_sim ns.inputs s1 hK1) with ins s2 hK2 hl2 hins
  obtain ⟨rfl, hins⟩ := hins
  sbind (mapM'_sim (R := fun ka r s => AttrSim s.w ka r) (fun _ _ _ _ h hle => h.mono hle) ns.attrs s2 hK2
    (fun ka _ s3 hK3 => cloneAttr_sim hrec ka.1 ka.2 hK3)) with attrs s3 hK3 hl3 hattrs
  sbind (copyProps_sim ns.props hK3) with pr s4 hK4 hl4 hpr
  sbind (copyMeta_sim ns.mstore hK4) with me s5 hK5 hl5 hme
  sbind (cloneOutputs_sim ns.outputs 0 s5 hK5) with outs s6 hK6 hl6 houts
  sbind (SGoodAt.getVm hK6) with vm s7 hK7 hl7 hq7
  obtain ⟨rfl, rfl⟩ := hq7
  sbind (SGoodAt.bookkeeping (m := checkSpecs allow ns s7.vm) hK7
    (fun s => by rw [checkSpecs_state]; exact ⟨rfl, rfl⟩)) with u0 s7' hK7' hl7' hq7'
  sbind (allocNode_sim _ hK7') with n' s8 hK8 hl8 hn'
  sbind (forM'_sim outs s8 hK8 (fun v _ s9 hK9 => setProducer_sim n' v hK9)) with u s9 hK9 hl9 hq9
  sbind (addUses_sim n' ins 0 s9 hK9) with u2 s10 hK10 hl10 hq10
  have l2 : CoreLe s2.w s10.w := hl3.trans (hl4.trans (hl5.trans (hl6.trans (hl7'.trans (hl8.trans (hl9.trans hl10))))))
  have l3 : CoreLe s3.w s10.w := hl4.trans (hl5.trans (hl6.trans (hl7'.trans (hl8.trans (hl9.trans hl10)))))
  have l4 : CoreLe s4.w s10.w := hl5.trans (hl6.trans (hl7'.trans (hl8.trans (hl9.trans hl10))))
  have l5 : CoreLe s5.w s10.w := hl6.trans (hl7'.trans (hl8.trans (hl9.trans hl10)))
  have l7 : CoreLe s7.w s10.w := hl7'.trans (hl8.trans (hl9.trans hl10))
  have l8 : CoreLe s8.w s10.w := hl9.trans hl10
  have hattrs' : All2 (AttrSim s10.w) ns.attrs attrs :=
    All2.mono (R := fun (ka : String × Nat) r => AttrSim s3.w ka r) (fun _ _ h => AttrSim.mono l3 h) hattrs
  refine SGoodAt.pure hK10 (NodeSim.mk n n' _ _ attrs (cNode_mono l2 (cNode_of hns))
    (cNode_mono l8 (cNode_ofCore hn')) rfl rfl rfl rfl rfl rfl
    (All2.mono (fun _ _ h => RefSim.mono l2 h) hins) (All2.mono (fun _ _ h => ValSim.mono l7 h) houts)
    (attrsSim_of_all2 hattrs') rfl ?_ ?_ (remapDev_simP (pairsSim_append (ioMap_pairs
      (All2.mono (fun _ _ h => RefSim.mono l2 h) hins) (All2.mono (fun _ _ h => ValSim.mono l7 h) houts))
      (fun p hp => .inr ((hK7 p hp).mono l7))) ns.dev))
  · obtain ⟨d, a, b⟩ := hpr
    exact ⟨d, _, cDict_mono l4 a, cDict_mono l4 b, rfl⟩
  · obtain ⟨d, a, b⟩ := hme
    exact ⟨d, _, cDict_mono l5 a, cDict_mono l5 b, rfl, rfl⟩

/-! graphs -/

theorem getMapped_sim {s : St} (v : Nat) (hK : K s) :
    SGoodAt (getMapped v) s (fun r s1 => ValSim s1.w v r) := by
  unfold getMapped
  sbind (SGoodAt.vmGet hK) with o s1 hK1 hl1 hq1
  obtain ⟨rfl, rfl⟩ := hq1
  cases hlk : s1.vm.lookup v with
  | some v' => exact SGoodAt.pure hK1 (hK1 (v, v') (mem_of_lookup hlk))
  | none => exact SGoodAt.raise

def initStep (w : World) (acc : List (String × Nat)) (v : Nat) : List (String × Nat) :=
  match cVal w v with
  | some x => match x.name with
    | some nm => dictSet acc nm v
    | none => acc
  | none => acc

theorem initDict_eq (w : World) (vs : List Nat) : initDict w vs = vs.foldl (initStep w) [] := rfl

theorem initEntries_sim : ∀ (l : List Nat) (acc : List (String × Nat)) (s : St), K s →
    SGoodAt (initEntries acc l) s (fun r s1 => s1 = s ∧ r = l.foldl (initStep s.w) acc ∧
      ∀ v ∈ l, ∃ x, cVal s.w v = some x)
  | [], acc, s, hK => by unfold initEntries; exact SGoodAt.pure hK ⟨rfl, rfl, by simp⟩
  | v :: rest, acc, s, hK => by
    unfold initEntries
    sbind (SGoodAt.readVal hK) with vs s1 hK1 hl1 hq1
    obtain ⟨rfl, hvs⟩ := hq1
    split
    · exact SGoodAt.raise
    · next nm hnm =>
      refine (initEntries_sim rest (dictSet acc nm v) s1 hK1).mono ?_
      intro r s2 _ _ ⟨h1, h2, h3⟩
      refine ⟨h1, ?_, ?_⟩
      · rw [h2]
        simp only [List.foldl_cons]
        congr 1
        simp [initStep, cVal_of hvs, hnm]
      · intro x hx
        rcases List.mem_cons.mp hx with rfl | hx
        · exact ⟨_, cVal_of hvs⟩
        · exact h3 x hx

theorem mkGraph_sim (src : GraphS) (inputs outputs nodes inits : List Nat) {s : St} (hK : K s) :
    SGoodAt (mkGraph src inputs outputs nodes inits) s (fun r s1 => ∃ gs', cGraph s1.w r = some gs' ∧
      gs'.name = src.name ∧ gs'.doc = src.doc ∧ gs'.opsets = src.opsets ∧ gs'.inputs = inputs ∧
      gs'.outputs = outputs ∧ gs'.nodes = nodes ∧ gs'.inits = initDict s1.w inits ∧
      PropsSim s1.w src.props gs'.props ∧ MetaSim s1.w src.mstore gs'.mstore) := by
  unfold mkGraph
  sbind (initEntries_sim inits [] s hK) with entries s0 hK0 hl0 hent
  obtain ⟨rfl, hent, hread⟩ := hent
  sbind (copyProps_sim src.props hK0) with pr s3 hK3 hl3 hpr
  sbind (copyMeta_sim src.mstore hK3) with me s4 hK4 hl4 hme
  sbind (SGoodAt.alloc _ hK4) with g s5 hK5 hl5 hg
  sbind (forM'_sim inputs s5 hK5 (fun v _ s6 hK6 => checkInput_sim g v hK6)) with u s6 hK6 hl6 hq6
  sbind (forM'_sim inputs s6 hK6 (fun v _ s7 hK7 =>
    setValueOwner_sim g (fun v => { v with isIn := true }) v (fun _ => rfl) hK7)) with u2 s7 hK7 hl7 hq7
  sbind (forM'_sim outputs s7 hK7 (fun v _ s8 hK8 => checkOwned_sim g v hK8)) with u3 s8 hK8 hl8 hq8
  sbind (forM'_sim outputs s8 hK8 (fun v _ s9 hK9 =>
    setValueOwner_sim g (fun v => { v with isOut := true }) v (fun _ => rfl) hK9)) with u4 s9 hK9 hl9 hq9
  sbind (forM'_sim (entries.map (fun e => e.2)) s9 hK9 (fun v _ s10 hK10 => checkOwned_sim g v hK10))
    with u5 s10 hK10 hl10 hq10
  sbind (forM'_sim (entries.map (fun e => e.2)) s10 hK10 (fun v _ s11 hK11 =>
    setValueOwner_sim g (fun v => { v with isInit := true }) v (fun _ => rfl) hK11)) with u6 s11 hK11 hl11 hq11
  sbind (forM'_sim entries s11 hK11 (fun e _ s12 hK12 => checkInitEntry_sim e hK12)) with u7 s12 hK12 hl12 hq12
  sbind (forM'_sim inputs s12 hK12 (fun v _ s13 hK13 => checkNamed_sim v hK13)) with u8 s13 hK13 hl13 hq13
  sbind (forM'_sim nodes s13 hK13 (fun v _ s14 hK14 => checkNodeFree_sim g v hK14)) with u9 s14 hK14 hl14 hq14
  sbind (forM'_sim nodes s14 hK14 (fun v _ s15 hK15 => setNodeGraph_sim g v hK15)) with u10 s15 hK15 hl15 hq15
  have l5 : CoreLe s5.w s15.w :=
    hl6.trans (hl7.trans (hl8.trans (hl9.trans (hl10.trans (hl11.trans (hl12.trans (hl13.trans (hl14.trans hl15))))))))
  have l0 : CoreLe s0.w s15.w := hl3.trans (hl4.trans (hl5.trans l5))
  refine SGoodAt.pure hK15 ⟨_, cGraph_mono l5 (cGraph_ofCore hg.2.1), rfl, rfl, rfl, rfl, rfl, rfl, ?_, ?_, ?_⟩
  · show entries = initDict s15.w inits
    rw [initDict_mono l0 hread, hent, initDict_eq]
  · obtain ⟨d, a, b⟩ := hpr
    exact ⟨d, _, cDict_mono (hl4.trans (hl5.trans l5)) a, cDict_mono (hl4.trans (hl5.trans l5)) b, rfl⟩
  · obtain ⟨d, a, b⟩ := hme
    exact ⟨d, _, cDict_mono (hl5.trans l5) a, cDict_mono (hl5.trans l5) b, rfl, rfl⟩

theorem allOutputs_sim : ∀ (l : List Nat) (s : St), K s →
    SGoodAt (allOutputs l) s (fun _ s1 => s1 = s)
  | [], s, hK => SGoodAt.pure hK rfl
  | n :: ns, s, hK => by
    unfold allOutputs
    sbind (SGoodAt.readNode hK) with x s1 hK1 hl1 hq1
    obtain ⟨rfl, _⟩ := hq1
    sbind (allOutputs_sim ns s1 hK1) with r s2 hK2 hl2 hq2
    subst hq2
    exact SGoodAt.pure hK2 rfl

theorem cloneGraphStep_sim {allow : Bool} {rec : Nat → M Nat}
    (hrec : ∀ g s, K s → SGoodAt (rec g) s (fun g' s1 => GraphSim s1.w g g'))
    (g : Nat) {s : St} (hK : K s) :
    SGoodAt (cloneGraphStep allow rec g) s (fun g' s1 => GraphSim s1.w g g') := by
  unfold cloneGraphStep
  sbind (SGoodAt.readGraph hK) with gs s1 hK1 hl1 hq1
  obtain ⟨rfl, hgs⟩ := hq1
  sbind (mapM'_sim (R := fun v r s => ValSim s.w v r) (fun _ _ _ _ h hle => h.mono hle) gs.inputs s1 hK1
    (fun v _ s2 hK2 => cloneOrGetValue_sim v hK2)) with inputs s2 hK2 hl2 hin
  sbind (mapM'_sim (R := fun v r s => ValSim s.w v r) (fun _ _ _ _ h hle => h.mono hle)
    (gs.inits.map (fun e => e.2)) s2 hK2 (fun v _ s3 hK3 => cloneOrGetValue_sim v hK3))
    with inits s3a hK3a hl3a hinits
  sbind (allOutputs_sim gs.nodes s3a hK3a) with pouts s3b hK3b hl3b hq3b
  subst hq3b
  sbind (SGoodAt.bookkeeping (m := pendAdd pouts) hK3b (fun _ => ⟨rfl, rfl⟩)) with u0 s3 hK3 hl3c hq3c
  have hl3 : CoreLe s2.w s3.w := hl3a.trans hl3c
  have hinits : All2 (fun a b => ValSim s3.w a b) (gs.inits.map (fun e => e.2)) inits :=
    All2.mono (fun _ _ h => ValSim.mono hl3c h) hinits
  sbind (mapM'_sim (R := fun n r s => NodeSim s.w n r) (fun _ _ _ _ h hle => h.mono hle) gs.nodes s3 hK3
    (fun n _ s4 hK4 => cloneNode_sim hrec n hK4)) with nodes s4 hK4 hl4 hnodes
  sbind (mapM'_sim (R := fun v r s => ValSim s.w v r) (fun _ _ _ _ h hle => h.mono hle) gs.outputs s4 hK4
    (fun v _ s5 hK5 => getMapped_sim v hK5)) with outputs s5 hK5 hl5 hout
  refine (mkGraph_sim gs inputs outputs nodes inits hK5).mono ?_
  intro g' s6 _ hl6 ⟨gs', hg', e1, e2, e3, e4, e5, e6, e7, e8, e9⟩
  refine .mk g g' gs gs' inits (cGraph_mono (hl2.trans (hl3.trans (hl4.trans (hl5.trans hl6)))) (cGraph_of hgs))
    hg' e1 e2 e3 ?_ ?_ e7 ?_ ?_ e8 e9
  · rw [e4]; exact All2.mono (fun _ _ h => ValSim.mono (hl3.trans (hl4.trans (hl5.trans hl6))) h) hin
  · exact All2.mono (fun _ _ h => ValSim.mono (hl4.trans (hl5.trans hl6)) h) hinits
  · rw [e6]; exact nodesSim_of_all2 (All2.mono (fun _ _ h => NodeSim.mono (hl5.trans hl6) h) hnodes)
  · rw [e5]; exact All2.mono (fun _ _ h => ValSim.mono hl6 h) hout

theorem cloneGraph_sim {allow : Bool} : ∀ (fuel g : Nat) (s : St), K s →
    SGoodAt (cloneGraph allow fuel g) s (fun g' s1 => GraphSim s1.w g g')
  | 0, _, s, hK => SGoodAt.fail
  | f + 1, g, s, hK => guarded_sim (cloneGraphStep_sim (fun g' s' hK' => cloneGraph_sim f g' s' hK') g hK)

theorem withFreshMap_sim {m : M α} {Q : α → St → Prop} {s : St} (hK : K s)
    (hm : ∀ s1, K s1 → s1.w = s.w → SGoodAt m s1 Q)
    (hQ : ∀ a s1 vm pd cr, Q a s1 → Q a { s1 with vm := vm, pend := pd, created := cr }) :
    SGoodAt (withFreshMap m) s Q := by
  have hK0 : K { s with vm := [], pend := [], created := [] } := by intro p hp; cases hp
  have h := hm _ hK0 rfl
  intro a ha
  unfold withFreshMap at ha ⊢
  rcases hms : m { s with vm := [], pend := [], created := [] } with ⟨r, s'⟩
  rw [hms] at ha
  simp only at ha ⊢
  subst ha
  obtain ⟨h1, h2, h3⟩ := h a (by rw [hms])
  rw [hms] at h1 h2 h3
  refine ⟨?_, h2, hQ a s' s.vm s.pend s.created h3⟩
  intro p hp
  exact (hK p hp).mono h2

theorem graphClone_sim {allow : Bool} (fuel g : Nat) {s : St} (hK : K s) :
    SGoodAt (graphClone fuel allow g) s (fun g' s1 => GraphSim s1.w g g') :=
  withFreshMap_sim hK (fun s1 hK1 _ => cloneGraph_sim fuel g s1 hK1) (fun _ _ _ _ _ h => h)

/-! functions and models -/

/-- same identifier, observationally equal bodies, attribute parameters related like node
    attributes -/
def FuncSim (w : World) (f f' : Nat) : Prop :=
  ∃ fs fs' newAttrs, cFunc w f = some fs ∧ cFunc w f' = some fs' ∧ fs'.domain = fs.domain ∧
    fs'.name = fs.name ∧ fs'.overload = fs.overload ∧ GraphSim w fs.graph fs'.graph ∧
    All2 (fun (ka : String × Nat) r => ∃ as, cAttr w ka.2 = some as ∧ AttrSim w (as.name, ka.2) r)
      fs.attrs newAttrs ∧
    fs'.attrs = dictOf newAttrs

/-- same header fields and device configurations, observationally equal graph and functions,
    equal `metadata_props` -/
def ModelSim (w : World) (m m' : Nat) : Prop :=
  ∃ ms ms', cModel w m = some ms ∧ cModel w m' = some ms' ∧ ms'.header = ms.header ∧
    ms'.dev = ms.dev ∧ GraphSim w ms.graph ms'.graph ∧ All2 (FuncSim w) ms.funcs ms'.funcs ∧
    PropsSim w ms.props ms'.props

theorem cFunc_mono {w1 w2 : World} (hle : CoreLe w1 w2) {i : Nat} {t : FuncS}
    (h : cFunc w1 i = some t) : cFunc w2 i = some t := by
  unfold cFunc at *
  cases hc : coreAt w1 i with
  | none => rw [hc] at h; cases h
  | some c => rw [hle i c hc]; rw [hc] at h; exact h

theorem cModel_mono {w1 w2 : World} (hle : CoreLe w1 w2) {i : Nat} {t : ModelS}
    (h : cModel w1 i = some t) : cModel w2 i = some t := by
  unfold cModel at *
  cases hc : coreAt w1 i with
  | none => rw [hc] at h; cases h
  | some c => rw [hle i c hc]; rw [hc] at h; exact h

theorem FuncSim.mono {w1 w2 : World} (hle : CoreLe w1 w2) {f f' : Nat} (h : FuncSim w1 f f') :
    FuncSim w2 f f' := by
  obtain ⟨fs, fs', na, a, b, c, d, e, g, hat, hd⟩ := h
  exact ⟨fs, fs', na, cFunc_mono hle a, cFunc_mono hle b, c, d, e, g.mono hle,
    All2.mono (fun _ _ ⟨as, x, y⟩ => ⟨as, cAttr_mono hle x, y.mono hle⟩) hat, hd⟩

theorem SGoodAt.readFunc {s : St} {i : Nat} (hK : K s) :
    SGoodAt (Clone.readFunc i) s (fun r s1 => s1 = s ∧ s.w[i]? = some (.func r)) := by
  unfold SGoodAt Clone.readFunc
  split
  · next v h => intro a ha; cases ha; exact ⟨hK, CoreLe.refl _, rfl, h⟩
  · intro a ha; cases ha

theorem SGoodAt.readModel {s : St} {i : Nat} (hK : K s) :
    SGoodAt (Clone.readModel i) s (fun r s1 => s1 = s ∧ s.w[i]? = some (.model r)) := by
  unfold SGoodAt Clone.readModel
  split
  · next v h => intro a ha; cases ha; exact ⟨hK, CoreLe.refl _, rfl, h⟩
  · intro a ha; cases ha

theorem cFunc_of {w : World} {i : Nat} {v : FuncS} (h : w[i]? = some (.func v)) : cFunc w i = some v := by
  simp [cFunc, coreAt, h, Cell.core]
theorem cModel_of {w : World} {i : Nat} {v : ModelS} (h : w[i]? = some (.model v)) : cModel w i = some v := by
  simp [cModel, coreAt, h, Cell.core]
theorem cFunc_ofCore {w : World} {i : Nat} {v : FuncS} (h : coreAt w i = some (Cell.func v).core) :
    cFunc w i = some v := by
  simp [cFunc, h, Cell.core]
theorem cModel_ofCore {w : World} {i : Nat} {v : ModelS} (h : coreAt w i = some (Cell.model v).core) :
    cModel w i = some v := by
  simp [cModel, h, Cell.core]

theorem funcClone_sim (fuel f : Nat) {s : St} (hK : K s) :
    SGoodAt (funcClone fuel f) s (fun f' s1 => FuncSim s1.w f f') := by
  refine withFreshMap_sim hK (fun s1 hK1 _ => ?_) (fun _ _ _ _ _ h => h)
  sbind (SGoodAt.readFunc hK1) with fs s2 hK2 hl2 hq2
  obtain ⟨rfl, hfs⟩ := hq2
  sbind (cloneGraph_sim fuel fs.graph s2 hK2) with g' s3 hK3 hl3 hg'
  sbind (mapM'_sim (R := fun (ka : String × Nat) r s => ∃ as, cAttr s.w ka.2 = some as ∧ AttrSim s.w (as.name, ka.2) r)
    (fun _ _ _ _ ⟨as, x, y⟩ hle => ⟨as, cAttr_mono hle x, y.mono hle⟩) fs.attrs s3 hK3
    (fun ka _ s4 hK4 => by
      sbind (SGoodAt.readAttr hK4) with as s5 hK5 hl5 hq5
      obtain ⟨rfl, has⟩ := hq5
      refine (cloneAttr_sim (fun g s hK => cloneGraph_sim fuel g s hK) as.name ka.2 hK5).mono ?_
      intro r s6 _ hl6 hr
      exact ⟨as, cAttr_mono hl6 (cAttr_of has), hr⟩)) with attrs s4 hK4 hl4 hattrs
  refine (SGoodAt.alloc _ hK4).mono ?_
  intro f' s5 _ hl5 hf'
  exact ⟨fs, _, attrs, cFunc_mono (hl3.trans (hl4.trans hl5)) (cFunc_of hfs), cFunc_ofCore hf'.2.1,
    rfl, rfl, rfl, hg'.mono (hl4.trans hl5),
    All2.mono (fun _ _ ⟨as, x, y⟩ => ⟨as, cAttr_mono hl5 x, y.mono hl5⟩) hattrs, rfl⟩

theorem modelClone_sim (fuel m : Nat) {s : St} (hK : K s) :
    SGoodAt (modelClone fuel m) s (fun m' s1 => ModelSim s1.w m m') := by
  unfold modelClone
  sbind (SGoodAt.readModel hK) with ms s1 hK1 hl1 hq1
  obtain ⟨rfl, hms⟩ := hq1
  sbind (graphClone_sim fuel ms.graph hK1) with g' s2 hK2 hl2 hg'
  sbind (mapM'_sim (R := fun f r s => FuncSim s.w f r) (fun _ _ _ _ h hle => h.mono hle) ms.funcs s2 hK2
    (fun f _ s3 hK3 => funcClone_sim fuel f hK3)) with fs s3 hK3 hl3 hfs
  sbind (copyProps_sim ms.props hK3) with pr s4 hK4 hl4 hpr
  sbind (SGoodAt.alloc _ hK4) with me s5 hK5 hl5 hme
  refine (SGoodAt.alloc _ hK5).mono ?_
  intro m' s6 _ hl6 hm'
  refine ⟨ms, _, cModel_mono (hl2.trans (hl3.trans (hl4.trans (hl5.trans hl6)))) (cModel_of hms),
    cModel_ofCore hm'.2.1, rfl, rfl, hg'.mono (hl3.trans (hl4.trans (hl5.trans hl6))),
    All2.mono (fun _ _ h => FuncSim.mono (hl4.trans (hl5.trans hl6)) h) hfs, ?_⟩
  obtain ⟨d, a, b⟩ := hpr
  exact ⟨d, _, cDict_mono (hl5.trans hl6) a, cDict_mono (hl5.trans hl6) b, rfl⟩

end IrVerif.Clone

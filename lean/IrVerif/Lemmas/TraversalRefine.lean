/-
The two models of `RecursiveGraphIterator` agree while attributes are not edited: the lazily
reading step machine `tStep` (Model/Traversal.lean) is a stuttering refinement of `recStep`
(Model/LinkedSet.lean, all attributes of a node read in one go) under the frame map `TFrame.toR`.
Every `next()` / drain of the fine model that does not run out of its step bound is the same
`next()` / drain of the coarse model, with the same step bound.
-/
import IrVerif.Lemmas.TraversalRun
namespace IrVerif.LinkedSet

/-! ### the coarse world seen through `toR` -/

theorem toR_setOf (w : TWorld) (g : Nat) : w.toR.setOf g = w.setOf g := rfl

theorem toR_recurse (w : TWorld) (v : Nat) : w.toR.recurse v = w.recurse v := rfl

theorem lookup_map_snd {β γ : Type} (f : β → γ) (v : Nat) : ∀ (l : List (Nat × β)),
    (l.map (fun p => (p.1, f p.2))).lookup v = (l.lookup v).map f
  | [] => rfl
  | (k, b) :: l => by
      simp only [List.map_cons, List.lookup_cons]
      cases v == k
      · exact lookup_map_snd f v l
      · rfl

theorem flatMap_toAttr (d : Dir) : ∀ (l : List (Nat × AVal)),
    (l.filterMap (fun e => e.2.toAttr)).flatMap (fun a =>
      match a with
      | .graph h => [h]
      | .graphs hs => if d = .rev then hs.reverse else hs) = l.flatMap (fun e => e.2.graphsOf d)
  | [] => rfl
  | (k, a) :: l => by
      have ih := flatMap_toAttr d l
      cases a with
      | graph h => simp only [List.filterMap_cons, AVal.toAttr, List.flatMap_cons, AVal.graphsOf]; exact congrArg ([h] ++ ·) ih
      | graphs hs => simp only [List.filterMap_cons, AVal.toAttr, List.flatMap_cons, AVal.graphsOf]; exact congrArg ((if d = .rev then hs.reverse else hs) ++ ·) ih
      | other => simp only [List.filterMap_cons, AVal.toAttr, List.flatMap_cons, AVal.graphsOf]; exact ih

theorem toR_visit (w : TWorld) (d : Dir) (v : Nat) : w.toR.visit d v = w.visit d v := by
  simp only [RWorld.visit, RWorld.attrsOf, TWorld.toR, TWorld.visit, TWorld.dictOf]
  rw [lookup_map_snd (fun (p : PyDict) => p.live.filterMap (fun e => e.2.toAttr)) v w.attrs]
  cases w.attrs.lookup v with
  | none => simp [PyDict.empty, PyDict.live]
  | some dct => exact flatMap_toAttr d dct.live

theorem toR_kids (w : TWorld) (d : Dir) (g : Nat) : w.toR.kids d g = w.kids d g := by
  simp only [RWorld.kids, RWorld.kidsOf, TWorld.kids, toR_setOf]
  congr 1
  funext v
  exact toR_visit w d v

theorem toR_acyclic (w : TWorld) (d : Dir) : w.toR.acyclic d = w.acyclic d := by
  simp only [RWorld.acyclic, TWorld.acyclic]
  have : w.toR.kids d = w.kids d := funext (toR_kids w d)
  rw [this]; rfl

theorem toR_applyAt (w : TWorld) (g : Nat) (op : Op) :
    (w.applyAt g op).1.toR = (w.toR.applyAt g op).1 ∧ (w.applyAt g op).2 = (w.toR.applyAt g op).2 := ⟨rfl, rfl⟩

theorem dictOf_applyAt (w : TWorld) (g : Nat) (op : Op) (v : Nat) : (w.applyAt g op).1.dictOf v = w.dictOf v := rfl

theorem toR_frame_applyAt (w : TWorld) (d : Dir) (g : Nat) (op : Op) (fr : TFrame) :
    fr.toR (w.applyAt g op).1 d = fr.toR w d := by
  unfold TFrame.toR
  cases fr.mode <;> simp [dictOf_applyAt]

theorem synced_applyAt (w : TWorld) (g : Nat) (op : Op) (fr : TFrame) :
    fr.synced (w.applyAt g op).1 = fr.synced w := by
  unfold TFrame.synced
  cases fr.mode <;> simp [dictOf_applyAt]

theorem toR_fresh (w : TWorld) (d : Dir) (h : Nat) : (TFrame.fresh h).toR w d = RFrame.fresh h := rfl

/-! ### the specifications coincide -/

theorem toR_specAfter (V : Nat → List Out) (w : TWorld) (d : Dir) (v : Nat) :
    specAfter V w.toR d v = tAfter V w d v := by
  simp only [specAfter, tAfter, toR_recurse, toR_visit]; rfl

theorem toR_specLoop (V : Nat → List Out) (w : TWorld) (d : Dir) (g : Nat) (nodes : List Nat) :
    specLoop V w.toR d g nodes = tLoop V w d g nodes := by
  simp only [specLoop, tLoop, toR_specAfter]

theorem toR_specVisit (w : TWorld) (d : Dir) : ∀ (k h : Nat), specVisit w.toR d k h = tVisit w d k h
  | 0, _ => rfl
  | k + 1, h => by
      have : specVisit w.toR d k = tVisit w d k := funext (toR_specVisit w d k)
      simp only [specVisit, tVisit, this, toR_specLoop, RWorld.nodesOf, toR_setOf]

/-! ### one step -/

theorem map_isEmpty {α β : Type} (f : α → β) (l : List α) : (l.map f).isEmpty = l.isEmpty := by
  cases l <;> rfl

/-- **one step of the fine model is one step of the coarse model, or nothing**: a step that only
    advances the dict iterator over an entry that opens no subgraph (a non-graph attribute, a
    `GRAPHS` tuple that is being unpacked, the end of the entries) leaves the coarse frame
    unchanged; every other step is the coarse step, with the same events and the same result.
    In-step dict iterators stay in step (nothing edits the attributes here). -/
theorem tStep_sim (w : TWorld) (d : Dir) (st : List TFrame) (hs : ∀ fr ∈ st, fr.synced w = true) :
    (∀ fr ∈ (tStep w d st).1, fr.synced w = true) ∧
    (((tStep w d st).1.map (TFrame.toR w d) = st.map (TFrame.toR w d) ∧ (tStep w d st).2.1 = [] ∧
        (tStep w d st).2.2 = none) ∨
     recStep w.toR d (st.map (TFrame.toR w d)) =
       ((tStep w d st).1.map (TFrame.toR w d), (tStep w d st).2.1, (tStep w d st).2.2)) := by
  cases st with
  | nil => exact ⟨by simp [tStep], Or.inr (by simp [tStep, recStep])⟩
  | cons fr rest =>
    have hsr : ∀ x ∈ rest, x.synced w = true := fun x hx => hs x (by simp [hx])
    have hsf := hs fr (by simp)
    cases hm : fr.mode with
    | last v =>
      rw [tStep_last w d fr rest v hm]
      have eR : fr.toR w d = ⟨fr.g, fr.c, some v, []⟩ := by simp [TFrame.toR, hm]
      refine ⟨?_, Or.inr ?_⟩
      · intro x hx
        simp only [List.mem_cons] at hx
        rcases hx with rfl | hx
        · split
          · simpa [TFrame.synced] using (start_synced (w.dictOf v)).1
          · simp [TFrame.synced]
        · exact hsr x hx
      · simp only [List.map_cons, eR]
        rw [recStep_last _ d _ _ v rfl]
        simp only [toR_recurse, toR_visit]
        by_cases hr : w.recurse v = true
        · simp [hr, TFrame.toR, (start_synced (w.dictOf v)).2, TWorld.visit, TWorld.toR]
          try rfl
        · simp [hr, TFrame.toR, TWorld.toR]
          try rfl
    | expand v it pend =>
      have hok : itOk (w.dictOf v) it = true := by simpa [TFrame.synced, hm] using hsf
      cases pend with
      | cons h ps =>
        rw [tStep_pend w d fr rest v it h ps hm]
        refine ⟨?_, Or.inr ?_⟩
        · intro x hx
          simp only [List.mem_cons] at hx
          rcases hx with rfl | rfl | hx
          · simp [TFrame.synced, TFrame.fresh]
          · simpa [TFrame.synced] using hok
          · exact hsr x hx
        · have eR : fr.toR w d = ⟨fr.g, fr.c, none,
              h :: (ps ++ (itRest (w.dictOf v) it).flatMap (fun e => e.2.graphsOf d))⟩ := by
            simp [TFrame.toR, hm]
          have e2 : TFrame.toR w d { fr with mode := .expand v it ps } = ⟨fr.g, fr.c, none,
              ps ++ (itRest (w.dictOf v) it).flatMap (fun e => e.2.graphsOf d)⟩ := by simp [TFrame.toR]
          simp only [List.map_cons, eR]
          rw [recStep_pending _ d _ _ h _ rfl rfl]
          simp only [toR_fresh, e2]
      | nil =>
        have hn := next_synced hok
        cases hl : itRest (w.dictOf v) it with
        | nil =>
          rw [hl] at hn
          rw [tStep_entries_end w d fr rest v it hm hn]
          refine ⟨?_, Or.inl ⟨?_, rfl, rfl⟩⟩
          · intro x hx
            simp only [List.mem_cons] at hx
            rcases hx with rfl | hx
            · simp [TFrame.synced]
            · exact hsr x hx
          · simp [TFrame.toR, hm, hl]
        | cons e tl =>
          rw [hl] at hn
          obtain ⟨it', hnx, hok', hl'⟩ := hn
          rw [tStep_entry w d fr rest v it it' e.1 e.2 hm hnx]
          obtain ⟨k, a⟩ := e
          cases a with
          | graph h =>
            refine ⟨?_, Or.inr ?_⟩
            · intro x hx
              simp only [List.mem_cons] at hx
              rcases hx with rfl | rfl | hx
              · simp [TFrame.synced, TFrame.fresh]
              · simpa [TFrame.synced] using hok'
              · exact hsr x hx
            · have eR : fr.toR w d = ⟨fr.g, fr.c, none, h :: tl.flatMap (fun e => e.2.graphsOf d)⟩ := by
                simp [TFrame.toR, hm, hl, AVal.graphsOf]
              have e2 : TFrame.toR w d { fr with mode := .expand v it' [] } = ⟨fr.g, fr.c, none,
                  tl.flatMap (fun e => e.2.graphsOf d)⟩ := by simp [TFrame.toR, hl']
              simp only [List.map_cons, eR]
              rw [recStep_pending _ d _ _ h _ rfl rfl]
              simp only [toR_fresh, e2]
          | graphs hs' =>
            refine ⟨?_, Or.inl ⟨?_, rfl, rfl⟩⟩
            · intro x hx
              simp only [List.mem_cons] at hx
              rcases hx with rfl | hx
              · simpa [TFrame.synced] using hok'
              · exact hsr x hx
            · simp [TFrame.toR, hm, hl, hl', AVal.graphsOf]
          | other =>
            refine ⟨?_, Or.inl ⟨?_, rfl, rfl⟩⟩
            · intro x hx
              simp only [List.mem_cons] at hx
              rcases hx with rfl | hx
              · simpa [TFrame.synced] using hok'
              · exact hsr x hx
            · simp [TFrame.toR, hm, hl, hl', AVal.graphsOf]
    | loop =>
      have eR : fr.toR w d = ⟨fr.g, fr.c, none, []⟩ := by simp [TFrame.toR, hm]
      cases hres : iterNext (w.setOf fr.g) d fr.c with
      | mk c' res =>
        cases res with
        | yield v =>
          rw [tStep_yield w d fr rest c' v hm hres]
          refine ⟨?_, Or.inr ?_⟩
          · intro x hx
            simp only [List.mem_cons] at hx
            rcases hx with rfl | hx
            · simp [TFrame.synced]
            · exact hsr x hx
          · simp only [List.map_cons, eR]
            rw [recStep_yield _ d _ _ c' v rfl rfl (by simpa [toR_setOf] using hres)]
            simp [TFrame.toR]
        | stop =>
          rw [tStep_stop w d fr rest c' hm hres]
          refine ⟨hsr, Or.inr ?_⟩
          simp only [List.map_cons, eR]
          rw [recStep_stop _ d _ _ c' rfl rfl (by simpa [toR_setOf] using hres)]
          simp [map_isEmpty]
        | raised =>
          refine ⟨?_, Or.inr ?_⟩
          · intro x hx
            simp only [tStep, hm, hres, List.mem_cons] at hx
            rcases hx with rfl | hx
            · simp [TFrame.synced, hm]
            · exact hsr x hx
          · simp only [List.map_cons, eR]
            simp [tStep, recStep, hm, hres, toR_setOf, TFrame.toR]
        | fuel =>
          refine ⟨?_, Or.inr ?_⟩
          · intro x hx
            simp only [tStep, hm, hres, List.mem_cons] at hx
            rcases hx with rfl | hx
            · simp [TFrame.synced, hm]
            · exact hsr x hx
          · simp only [List.map_cons, eR]
            simp [tStep, recStep, hm, hres, toR_setOf, TFrame.toR]

/-! ### `next()` and drains -/

theorem recNext_succ (w : RWorld) (d : Dir) : ∀ (f : Nat) (st : List RFrame),
    (recNext w d f st).2.2 ≠ .fuel → recNext w d (f + 1) st = recNext w d f st
  | 0, st, h => by simp [recNext] at h
  | f + 1, st, h => by
      cases hs : recStep w d st with
      | mk st' p =>
        obtain ⟨o, r⟩ := p
        cases r with
        | some r => simp [recNext, hs]
        | none =>
          have h' : (recNext w d f st').2.2 ≠ .fuel := by simpa [recNext, hs] using h
          have ih := recNext_succ w d f st' h'
          rw [show recNext w d (f + 1 + 1) st = (let r := recNext w d (f + 1) st'; (r.1, o ++ r.2.1, r.2.2)) by
            simp [recNext, hs]]
          rw [ih]
          simp [recNext, hs]

theorem recDrain_succ' (w : RWorld) (d : Dir) : ∀ (f : Nat) (st : List RFrame),
    (recDrain w d f st).2 ≠ .fuel → recDrain w d (f + 1) st = recDrain w d f st
  | 0, st, h => by simp [recDrain] at h
  | f + 1, st, h => by
      cases hs : recStep w d st with
      | mk st' p =>
        obtain ⟨o, r⟩ := p
        rcases step_cases r with hr | ⟨r', rfl, hr⟩
        · rw [recDrain_cont w d f hs hr] at h
          rw [recDrain_cont w d (f + 1) hs hr, recDrain_cont w d f hs hr, recDrain_succ' w d f st' h]
        · rw [recDrain_end w d (f + 1) hs hr, recDrain_end w d f hs hr]

/-- **a `next()` of the fine model is the same `next()` of the coarse model** (same step bound;
    same events, same result, corresponding new stacks), provided it does not exhaust the bound -/
theorem tNext_refines (w : TWorld) (d : Dir) : ∀ (f : Nat) (st : List TFrame),
    (∀ fr ∈ st, fr.synced w = true) → (tNext w d f st).2.2 ≠ .fuel →
    (∀ fr ∈ (tNext w d f st).1, fr.synced w = true) ∧
    recNext w.toR d f (st.map (TFrame.toR w d)) =
      ((tNext w d f st).1.map (TFrame.toR w d), (tNext w d f st).2.1, (tNext w d f st).2.2)
  | 0, st, _, h => by simp [tNext] at h
  | f + 1, st, hs, h => by
      obtain ⟨hs', sim⟩ := tStep_sim w d st hs
      cases hst : tStep w d st with
      | mk st1 p =>
        obtain ⟨o, r⟩ := p
        rw [hst] at hs' sim
        simp only at hs' sim
        cases r with
        | some r =>
          rcases sim with ⟨_, _, h3⟩ | sim
          · cases h3
          · simp only [tNext, hst]
            exact ⟨hs', by simp [recNext, sim]⟩
        | none =>
          have h' : (tNext w d f st1).2.2 ≠ .fuel := by simpa [tNext, hst] using h
          obtain ⟨ih1, ih2⟩ := tNext_refines w d f st1 hs' h'
          simp only [tNext, hst]
          refine ⟨ih1, ?_⟩
          rcases sim with ⟨e1, e2, _⟩ | sim
          · subst e2
            rw [← e1, recNext_succ _ d f _ (by rw [ih2]; exact h'), ih2]
            simp
          · simp [recNext, sim, ih2]

theorem tDrain_refines (w : TWorld) (d : Dir) : ∀ (f : Nat) (st : List TFrame),
    (∀ fr ∈ st, fr.synced w = true) → (tDrain w d f st).2 ≠ .fuel →
    recDrain w.toR d f (st.map (TFrame.toR w d)) = tDrain w d f st
  | 0, st, _, h => by simp [tDrain] at h
  | f + 1, st, hs, h => by
      obtain ⟨hs', sim⟩ := tStep_sim w d st hs
      cases hst : tStep w d st with
      | mk st1 p =>
        obtain ⟨o, r⟩ := p
        rw [hst] at hs' sim
        simp only at hs' sim
        rcases step_cases r with hr | ⟨r', rfl, hr⟩
        · have hd : tDrain w d (f + 1) st = (o ++ (tDrain w d f st1).1, (tDrain w d f st1).2) := by
            rcases hr with rfl | ⟨v, rfl⟩ <;> simp only [tDrain, hst]
          rw [hd] at h ⊢
          have ih := tDrain_refines w d f st1 hs' h
          rcases sim with ⟨e1, e2, _⟩ | sim
          · subst e2
            rw [← e1, recDrain_succ' _ d f _ (by rw [ih]; exact h), ih]
            simp
          · rw [recDrain_cont _ d f sim hr, ih]
        · rcases sim with ⟨_, _, h3⟩ | sim
          · cases h3
          · have hd : tDrain w d (f + 1) st = (o, r') := by
              cases r' with
              | yield v => exact absurd rfl (hr v)
              | stop => simp only [tDrain, hst]
              | raised => simp only [tDrain, hst]
              | fuel => simp only [tDrain, hst]
            rw [hd, recDrain_end _ d f sim hr]

/-! ### histories without attribute edits -/

/-- the answers (events and result) of the `next()` calls of a history, fine model -/
def tRunHist (d : Dir) (fuel : Nat) : TWorld → List TFrame → List TEv → List (List Out × Res)
  | _, _, [] => []
  | w, st, .next :: es =>
      ((tNext w d fuel st).2.1, (tNext w d fuel st).2.2) :: tRunHist d fuel w (tNext w d fuel st).1 es
  | w, st, .edit g op :: es => tRunHist d fuel (w.applyAt g op).1 st es
  | w, st, .setAttr v k a :: es => tRunHist d fuel (w.setAttr v k a) st es
  | w, st, .delAttr v k :: es => tRunHist d fuel (w.delAttr v k).1 st es

/-- the same for the coarse model -/
def recRunHist (d : Dir) (fuel : Nat) : RWorld → List RFrame → List REv → List (List Out × Res)
  | _, _, [] => []
  | w, st, .next :: es =>
      ((recNext w d fuel st).2.1, (recNext w d fuel st).2.2) :: recRunHist d fuel w (recNext w d fuel st).1 es
  | w, st, .edit g op :: es => recRunHist d fuel (w.applyAt g op).1 st es

/-- the events the coarse model knows: `next()` and edits of node sequences -/
def TEv.toREv : TEv → Option REv
  | .edit g op => some (.edit g op)
  | .next => some .next
  | _ => none

/-- no attribute is edited -/
def TEv.noAttr : TEv → Bool
  | .setAttr _ _ _ => false
  | .delAttr _ _ => false
  | _ => true

theorem trav_refines_rec (d : Dir) (fuel : Nat) : ∀ (es : List TEv) (w : TWorld) (st : List TFrame),
    (∀ e ∈ es, e.noAttr = true) → (∀ fr ∈ st, fr.synced w = true) →
    (∀ a ∈ tRunHist d fuel w st es, a.2 ≠ .fuel) →
    recRunHist d fuel w.toR (st.map (TFrame.toR w d)) (es.filterMap TEv.toREv) = tRunHist d fuel w st es
  | [], _, _, _, _, _ => rfl
  | .next :: es, w, st, hn, hs, hf => by
      have h0 : (tNext w d fuel st).2.2 ≠ .fuel := hf _ (by simp [tRunHist])
      obtain ⟨hs', e⟩ := tNext_refines w d fuel st hs h0
      have ih := trav_refines_rec d fuel es w (tNext w d fuel st).1 (fun x hx => hn x (by simp [hx])) hs'
        (fun a ha => hf a (by simp [tRunHist, ha]))
      simp only [List.filterMap_cons, TEv.toREv, recRunHist, tRunHist, e, ih]
  | .edit g op :: es, w, st, hn, hs, hf => by
      have ih := trav_refines_rec d fuel es (w.applyAt g op).1 st (fun x hx => hn x (by simp [hx]))
        (fun fr hfr => by rw [synced_applyAt]; exact hs fr hfr)
        (fun a ha => hf a (by simpa [tRunHist] using ha))
      simp only [List.filterMap_cons, TEv.toREv, recRunHist, tRunHist]
      rw [← ih, (toR_applyAt w g op).1]
      congr 1
  | .setAttr v k a :: es, w, st, hn, _, _ => by
      have := hn (.setAttr v k a) (by simp)
      simp [TEv.noAttr] at this
  | .delAttr v k :: es, w, st, hn, _, _ => by
      have := hn (.delAttr v k) (by simp)
      simp [TEv.noAttr] at this

end IrVerif.LinkedSet

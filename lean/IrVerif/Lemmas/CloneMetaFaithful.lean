import IrVerif.Model.CloneMeta

/-! # `copy.deepcopy` is faithful: the copy observes to the same tree as the source

The final memo of one `deepcopy` call is a graph isomorphism from the reachable source cells onto
the new cells.  (Helper development for `IrVerif.Clone.Meta.deep_copy_meta_faithful` in
Lemmas/CloneMeta.lean; its own namespace because the invariant lemmas have the same names as the
freshness ones there.) -/
namespace IrVerif.Clone.Meta.Faithful

/-- renaming of a value through a memo -/
def ren (m : List (Nat × Nat)) : PyVal → PyVal
  | .atom s => .atom s
  | .ref i =>
    match m.lookup i with
    | some j => .ref j
    | none => .ref i

/-- the value is an atom or a key of the memo -/
def InDom (m : List (Nat × Nat)) : PyVal → Prop
  | .atom _ => True
  | .ref i => ∃ j, m.lookup i = some j

def Mono (m m' : List (Nat × Nat)) : Prop :=
  ∀ a a', m.lookup a = some a' → m'.lookup a = some a'

theorem ren_stable {m m' : List (Nat × Nat)} {c : PyVal} (hd : InDom m c) (hm : Mono m m') :
    ren m' c = ren m c ∧ InDom m' c := by
  cases c with
  | atom s => exact ⟨rfl, trivial⟩
  | ref i =>
    obtain ⟨j, hj⟩ := hd
    have h2 := hm _ _ hj
    exact ⟨by simp [ren, hj, h2], ⟨j, h2⟩⟩

theorem map_ren_stable {m m' : List (Nat × Nat)} {vs : List PyVal}
    (hd : ∀ c ∈ vs, InDom m c) (hm : Mono m m') :
    vs.map (ren m') = vs.map (ren m) ∧ ∀ c ∈ vs, InDom m' c :=
  ⟨List.map_congr_left fun c hc => (ren_stable (hd c hc) hm).1,
   fun c hc => (ren_stable (hd c hc) hm).2⟩

/-- no cell holds a dangling reference -/
def Closed (h : PyHeap) : Prop :=
  ∀ (i : Nat) (o : PyObj), h[i]? = some o → ∀ j, PyVal.ref j ∈ o.vals → j < h.length

/-- the value is not a dangling reference -/
def SrcOk (h : PyHeap) (v : PyVal) : Prop := ∀ j, v = .ref j → j < h.length

structure Ext (st st' : DSt) : Prop where
  len : st.h.length ≤ st'.h.length
  mono : Mono st.memo st'.memo
  new : ∀ a a', st'.memo.lookup a = some a' → st.memo.lookup a = some a' ∨ st.h.length ≤ a'

theorem Ext.refl (st : DSt) : Ext st st :=
  ⟨Nat.le_refl _, fun _ _ h => h, fun _ _ h => Or.inl h⟩

theorem Ext.trans {a b c : DSt} (h1 : Ext a b) (h2 : Ext b c) : Ext a c := by
  refine ⟨Nat.le_trans h1.len h2.len, fun x y h => h2.mono _ _ (h1.mono _ _ h), ?_⟩
  intro x y h
  rcases h2.new _ _ h with h | h
  · exact h1.new _ _ h
  · exact Or.inr (Nat.le_trans h1.len h)

/-- invariant of one `deepcopy` call on the source heap `h`; `P`: allocated, not yet filled cells -/
structure InvF (h : PyHeap) (P : List Nat) (st : DSt) : Prop where
  len : h.length ≤ st.h.length
  old : ∀ i, i < h.length → st.h[i]? = h[i]?
  rng : ∀ a a', st.memo.lookup a = some a' → h.length ≤ a' ∧ a' < st.h.length
  fin : ∀ a a', st.memo.lookup a = some a' → a' ∉ P →
    ∃ o, h[a]? = some o ∧ st.h[a']? = some (o.withVals (o.vals.map (ren st.memo))) ∧
      ∀ c ∈ o.vals, InDom st.memo c
  cov : ∀ j, h.length ≤ j → j < st.h.length → ∃ a, st.memo.lookup a = some j

def Spec (h : PyHeap) (rec : PyVal → DM PyVal) : Prop :=
  ∀ P v st v' st', rec v st = .ok (v', st') → SrcOk h v → InvF h P st →
    InvF h P st' ∧ Ext st st' ∧ v' = ren st'.memo v ∧ InDom st'.memo v

theorem dcList_spec {h : PyHeap} {rec : PyVal → DM PyVal} (hrec : Spec h rec) :
    ∀ vs P st vs' st', dcList rec vs st = .ok (vs', st') → (∀ c ∈ vs, SrcOk h c) → InvF h P st →
      InvF h P st' ∧ Ext st st' ∧ vs' = vs.map (ren st'.memo) ∧ ∀ c ∈ vs, InDom st'.memo c := by
  intro vs
  induction vs with
  | nil =>
    intro P st vs' st' hc _ hi
    simp only [dcList, Except.ok.injEq, Prod.mk.injEq] at hc
    obtain ⟨rfl, rfl⟩ := hc
    exact ⟨hi, Ext.refl _, rfl, by simp⟩
  | cons a as ih =>
    intro P st vs' st' hc hs hi
    simp only [dcList] at hc
    split at hc
    · cases hc
    · rename_i a' s1 h1
      split at hc
      · cases hc
      · rename_i as' s2 h2
        simp only [Except.ok.injEq, Prod.mk.injEq] at hc
        obtain ⟨rfl, rfl⟩ := hc
        obtain ⟨i1, e1, ra, da⟩ := hrec P a st a' s1 h1 (hs a (by simp)) hi
        obtain ⟨i2, e2, ras, das⟩ := ih P s1 as' s2 h2 (fun c hc => hs c (by simp [hc])) i1
        have := ren_stable da e2.mono
        refine ⟨i2, e1.trans e2, ?_, ?_⟩
        · simp [ra, ras, this.1]
        · intro c hc
          rcases List.mem_cons.1 hc with rfl | hc
          · exact this.2
          · exact das c hc

theorem dcStep_spec {h : PyHeap} (hcl : Closed h) {rec : PyVal → DM PyVal} (hrec : Spec h rec) :
    Spec h (dcStep rec) := by
  intro P v st v' st' hc hv hi
  cases v with
  | atom s =>
    simp only [dcStep, Except.ok.injEq, Prod.mk.injEq] at hc
    obtain ⟨rfl, rfl⟩ := hc
    exact ⟨hi, Ext.refl _, rfl, trivial⟩
  | ref i =>
    have hin : i < h.length := hv i rfl
    simp only [dcStep] at hc
    split at hc
    · rename_i j hj
      simp only [Except.ok.injEq, Prod.mk.injEq] at hc
      obtain ⟨rfl, rfl⟩ := hc
      exact ⟨hi, Ext.refl _, by simp [ren, hj], ⟨j, hj⟩⟩
    · rename_i hmiss
      split at hc
      · cases hc
      · rename_i o ho
        have hho : h[i]? = some o := by rw [← hi.old i hin]; exact ho
        split at hc
        · cases hc
        · rename_i ys st2 hl
          simp only [Except.ok.injEq, Prod.mk.injEq] at hc
          obtain ⟨rfl, rfl⟩ := hc
          -- the state after allocation
          have hmono1 : Mono st.memo ((i, st.h.length) :: st.memo) := by
            intro a a' ha
            have : a ≠ i := by rintro rfl; rw [hmiss] at ha; cases ha
            have hb : (a == i) = false := by simp [this]
            simp [List.lookup_cons, hb, ha]
          have i1 : InvF h (st.h.length :: P)
              { h := st.h ++ [o.empty], memo := (i, st.h.length) :: st.memo } := by
            refine ⟨by simp; have := hi.len; omega, ?_, ?_, ?_, ?_⟩
            · intro k hk
              have := hi.len
              simp only
              rw [List.getElem?_append_left (by omega)]
              exact hi.old k hk
            · intro a a' ha
              simp only [List.lookup_cons] at ha
              simp only [List.length_append, List.length_singleton]
              split at ha
              · cases ha
                have := hi.len
                omega
              · have := hi.rng a a' ha
                omega
            · intro a a' ha hP
              simp only [List.lookup_cons] at ha
              split at ha
              · cases ha
                simp at hP
              · obtain ⟨o0, h0, hc0, hd0⟩ := hi.fin a a' ha (fun hh => hP (List.mem_cons_of_mem _ hh))
                have hst := map_ren_stable hd0 hmono1
                refine ⟨o0, h0, ?_, hst.2⟩
                simp only
                rw [hst.1, List.getElem?_append_left (hi.rng a a' ha).2]
                exact hc0
            · intro j hj1 hj2
              simp only [List.length_append, List.length_singleton] at hj2
              by_cases hjy : j = st.h.length
              · exact ⟨i, by simp [hjy]⟩
              · obtain ⟨a, ha⟩ := hi.cov j hj1 (by omega)
                exact ⟨a, hmono1 _ _ ha⟩
          have e1 : Ext st { h := st.h ++ [o.empty], memo := (i, st.h.length) :: st.memo } := by
            refine ⟨by simp, hmono1, ?_⟩
            intro a a' ha
            simp only [List.lookup_cons] at ha
            split at ha
            · cases ha
              exact Or.inr (Nat.le_refl _)
            · exact Or.inl ha
          have hch : ∀ c ∈ o.vals, SrcOk h c := by
            intro c hc j hj
            subst hj
            exact hcl i o hho j hc
          obtain ⟨i2, e2, rys, dys⟩ := dcList_spec hrec _ _ _ _ _ hl hch i1
          have hiy : st2.memo.lookup i = some st.h.length :=
            e2.mono _ _ (by simp)
          have hylt : st.h.length < st2.h.length := by
            have := e2.len
            simp only [List.length_append, List.length_singleton] at this
            omega
          have hkey : ∀ a, st2.memo.lookup a = some st.h.length → a = i := by
            intro a ha
            rcases e2.new _ _ ha with h1 | h1
            · simp only [List.lookup_cons] at h1
              split at h1
              · rename_i hai
                simpa using hai
              · have := (hi.rng _ _ h1).2
                omega
            · simp only [List.length_append, List.length_singleton] at h1
              omega
          refine ⟨⟨?_, ?_, ?_, ?_, ?_⟩, ?_, ?_, ⟨_, hiy⟩⟩
          · simpa using i2.len
          · intro k hk
            have := hi.len
            simp only
            rw [List.getElem?_set_ne (by omega)]
            exact i2.old k hk
          · intro a a' ha
            simpa using i2.rng a a' ha
          · intro a a' ha hP
            simp only at ha
            by_cases hy : a' = st.h.length
            · subst hy
              have := hkey a ha
              subst this
              refine ⟨o, hho, ?_, dys⟩
              simp only
              rw [List.getElem?_set_self hylt, rys]
            · obtain ⟨o0, h0, hc0, hd0⟩ := i2.fin a a' ha (by simp [hy, hP])
              refine ⟨o0, h0, ?_, hd0⟩
              simp only
              rw [List.getElem?_set_ne (fun hh => hy hh.symm)]
              exact hc0
          · intro j hj1 hj2
            simp only [List.length_set] at hj2
            exact i2.cov j hj1 hj2
          · have e := e1.trans e2
            exact ⟨by simpa using e.len, e.mono, e.new⟩
          · simp [ren, hiy]

theorem dc_spec {h : PyHeap} (hcl : Closed h) : ∀ f, Spec h (dc f) := by
  intro f
  induction f with
  | zero =>
    intro P v st v' st' hc hv hi
    cases v with
    | atom s =>
      simp only [dc, Except.ok.injEq, Prod.mk.injEq] at hc
      obtain ⟨rfl, rfl⟩ := hc
      exact ⟨hi, Ext.refl _, rfl, trivial⟩
    | ref i => simp [dc] at hc
  | succ f ih =>
    intro P v st v' st' hc hv hi
    cases v with
    | atom s =>
      simp only [dc, Except.ok.injEq, Prod.mk.injEq] at hc
      obtain ⟨rfl, rfl⟩ := hc
      exact ⟨hi, Ext.refl _, rfl, trivial⟩
    | ref i =>
      simp only [dc] at hc
      exact dcStep_spec hcl ih P _ st v' st' hc hv hi

theorem zip_withVals (kv : List (String × PyVal)) (f : PyVal → PyVal) :
    (kv.map (·.1)).zip ((kv.map (·.2)).map f) = kv.map (fun e => (e.1, f e.2)) := by
  rw [List.map_map, List.zip_map']
  rfl

theorem vals_withVals_map (o : PyObj) (f : PyVal → PyVal) :
    (o.withVals (o.vals.map f)).vals = o.vals.map f := by
  cases o with
  | list xs => rfl
  | dict kv =>
    simp only [PyObj.withVals, PyObj.vals]
    rw [zip_withVals]
    simp [List.map_map, Function.comp_def]

/-- with no pending cell, the memo is an isomorphism: renamed values observe the same -/
theorem obs_ren {h : PyHeap} {st : DSt} (hi : InvF h [] st) :
    ∀ k v, InDom st.memo v → obs k st.h (ren st.memo v) = obs k h v := by
  intro k
  induction k with
  | zero =>
    intro v hd
    cases v with
    | atom s => simp [ren, obs]
    | ref a =>
      obtain ⟨j, hj⟩ := hd
      simp [ren, hj, obs]
  | succ k ih =>
    intro v hd
    cases v with
    | atom s => simp [ren, obs]
    | ref a =>
      obtain ⟨j, hj⟩ := hd
      obtain ⟨o, ho, hc, hdc⟩ := hi.fin a j hj (by simp)
      simp only [ren, hj, obs, ho, hc]
      cases o with
      | list xs =>
        simp only [PyObj.withVals, PyObj.vals, List.map_map]
        have : xs.map (obs k st.h ∘ ren st.memo) = xs.map (obs k h) :=
          List.map_congr_left fun c hc => ih c (hdc c hc)
        rw [this]
      | dict kv =>
        simp only [PyObj.withVals, PyObj.vals]
        rw [zip_withVals]
        simp only [List.map_map]
        have : kv.map ((fun e => obs k st.h e.2) ∘ fun e => (e.1, ren st.memo e.2))
            = kv.map (fun e => obs k h e.2) :=
          List.map_congr_left fun e he => ih e.2 (hdc e.2 (by
            simp only [PyObj.vals, List.mem_map]; exact ⟨e, he, rfl⟩))
        rw [this]
        have : ((fun e : String × PyVal => e.1) ∘ fun e => (e.1, ren st.memo e.2))
            = (fun e : String × PyVal => e.1) := rfl
        rw [this]

theorem deepcopy_inv (fuel : Nat) (v v' : PyVal) (h h' : PyHeap) (hwf : Closed h)
    (hc : deepcopy fuel v h = .ok (v', h')) :
    ∃ st : DSt, st.h = h' ∧ InvF h [] st ∧ v' = ren st.memo v ∧ InDom st.memo v := by
  unfold deepcopy at hc
  split at hc
  · cases hc
  · rename_i w st hdc
    simp only [Except.ok.injEq, Prod.mk.injEq] at hc
    obtain ⟨rfl, rfl⟩ := hc
    have hv : SrcOk h v := by
      intro j hj
      subst hj
      refine Classical.byContradiction fun hge => ?_
      have hn : h[j]? = none := by simp; omega
      cases fuel with
      | zero => simp [dc] at hdc
      | succ f => simp [dc, dcStep, hn] at hdc
    have h0 : InvF h [] { h := h, memo := [] } :=
      ⟨Nat.le_refl _, fun _ _ => rfl, by simp, by simp, by intro j h1 h2; simp at h2; omega⟩
    obtain ⟨i1, _, r, d⟩ := dc_spec hwf fuel [] v _ w st hdc hv h0
    exact ⟨st, rfl, i1, r, d⟩

/-- the deep copy of a value observes to the same tree as the source value, to every depth
    (`hwf`: no cell of the source heap holds a dangling reference; otherwise a dangling slot could
    point INTO the copy under construction and the copy would be observable deeper than the source) -/
theorem deepcopy_faithful (fuel : Nat) (v v' : PyVal) (h h' : PyHeap) (hwf : Closed h)
    (hc : deepcopy fuel v h = .ok (v', h')) : ∀ k, obs k h' v' = obs k h v := by
  obtain ⟨st, rfl, hi, rfl, hd⟩ := deepcopy_inv fuel v v' h h' hwf hc
  exact fun k => obs_ren hi k v hd

/-- frame: `deepcopy` only appends; the result heap is closed again; the copy is not dangling -/
theorem deepcopy_frame (fuel : Nat) (v v' : PyVal) (h h' : PyHeap) (hwf : Closed h)
    (hc : deepcopy fuel v h = .ok (v', h')) :
    h.length ≤ h'.length ∧ (∀ i, i < h.length → h'[i]? = h[i]?) ∧ Closed h' ∧ SrcOk h' v' := by
  obtain ⟨st, rfl, hi, rfl, hd⟩ := deepcopy_inv fuel v v' h h' hwf hc
  refine ⟨hi.len, hi.old, ?_, ?_⟩
  · intro a' o' ho' j hj
    by_cases hlt : a' < h.length
    · rw [hi.old a' hlt] at ho'
      have := hwf a' o' ho' j hj
      have := hi.len
      omega
    · have hlt2 : a' < st.h.length := by
        apply Classical.byContradiction
        intro hge
        have : st.h[a']? = none := by simp; omega
        rw [this] at ho'
        cases ho'
      obtain ⟨a, ha⟩ := hi.cov a' (by omega) hlt2
      obtain ⟨o, _, hc0, hd0⟩ := hi.fin a a' ha (by simp)
      rw [hc0] at ho'
      cases ho'
      rw [vals_withVals_map, List.mem_map] at hj
      obtain ⟨c, hc1, hc2⟩ := hj
      have hdc := hd0 c hc1
      cases c with
      | atom s => simp [ren] at hc2
      | ref b =>
        obtain ⟨j', hj'⟩ := hdc
        simp [ren, hj'] at hc2
        subst hc2
        exact (hi.rng b j' hj').2
  · intro j hj
    cases v with
    | atom s => simp [ren] at hj
    | ref b =>
      obtain ⟨j', hj'⟩ := hd
      simp [ren, hj'] at hj
      subst hj
      exact (hi.rng b j' hj').2

/-- on a closed heap, extending the heap does not change what a non-dangling value observes to -/
theorem obs_ext {h h2 : PyHeap} (hwf : Closed h) (hpre : ∀ i, i < h.length → h2[i]? = h[i]?) :
    ∀ k v, SrcOk h v → obs k h2 v = obs k h v := by
  intro k
  induction k with
  | zero => intro v _; cases v <;> simp [obs]
  | succ k ih =>
    intro v hv
    cases v with
    | atom s => simp [obs]
    | ref j =>
      have hj : j < h.length := hv j rfl
      have ho : h[j]? = some h[j] := List.getElem?_eq_getElem hj
      have ho2 := hpre j hj
      rw [ho] at ho2
      have hch : ∀ c ∈ (h[j]).vals, SrcOk h c := by
        intro c hc b hb
        subst hb
        exact hwf j _ ho b hc
      simp only [obs, ho, ho2]
      generalize h[j] = o at hch
      cases o with
      | list xs =>
        have : xs.map (obs k h2) = xs.map (obs k h) :=
          List.map_congr_left fun c hc => ih c (hch c hc)
        simp only [this]
      | dict kv =>
        have : kv.map (fun e => obs k h2 e.2) = kv.map (fun e => obs k h e.2) :=
          List.map_congr_left fun e he => ih e.2 (hch e.2 (by
            simp only [PyObj.vals, List.mem_map]; exact ⟨e, he, rfl⟩))
        simp only [this]

theorem cloneData_faithful (fuel : Nat) :
    ∀ (data data' : List (String × PyVal)) (h h' : PyHeap), Closed h →
      (∀ e ∈ data, SrcOk h e.2) → cloneData true fuel data h = .ok (data', h') →
      data'.map (·.1) = data.map (·.1) ∧ h.length ≤ h'.length ∧
      (∀ i, i < h.length → h'[i]? = h[i]?) ∧
      ∀ k, data'.map (fun e => obs k h' e.2) = data.map (fun e => obs k h e.2) := by
  intro data
  induction data with
  | nil =>
    intro data' h h' _ _ hc
    simp only [cloneData, Except.ok.injEq, Prod.mk.injEq] at hc
    obtain ⟨rfl, rfl⟩ := hc
    exact ⟨rfl, Nat.le_refl _, fun _ _ => rfl, fun _ => rfl⟩
  | cons e rest ih =>
    intro data' h h' hwf hst hc
    obtain ⟨key, v⟩ := e
    simp only [cloneData, if_true] at hc
    split at hc
    · cases hc
    · rename_i v' h1 hd
      split at hc
      · cases hc
      · rename_i rest' h2 hr
        simp only [Except.ok.injEq, Prod.mk.injEq] at hc
        obtain ⟨rfl, rfl⟩ := hc
        have hf := deepcopy_faithful fuel v v' h h1 hwf hd
        obtain ⟨hlen, hpre, hwf1, hv'⟩ := deepcopy_frame fuel v v' h h1 hwf hd
        have hst1 : ∀ e ∈ rest, SrcOk h1 e.2 := by
          intro e he j hj
          have := hst e (List.mem_cons_of_mem _ he) j hj
          omega
        obtain ⟨hk, hlen2, hpre2, hobs⟩ := ih rest' h1 h2 hwf1 hst1 hr
        refine ⟨by simp [hk], by omega, ?_, ?_⟩
        · intro i hi
          rw [hpre2 i (by omega), hpre i hi]
        · intro k
          simp only [List.map_cons]
          rw [hobs k, obs_ext hwf1 hpre2 k v' hv', hf k]
          congr 1
          exact List.map_congr_left fun e he =>
            obs_ext hwf hpre k e.2 (hst e (List.mem_cons_of_mem _ he))

/-- a deep-copied store observes to the same trees as the source store, to every depth (`hwf`: the
    heap is closed; `hst`: no value of the store is a dangling reference -- a dangling one could be
    "repaired" by the cells that the copies of earlier keys append) -/
theorem deep_copy_meta_faithful (fuel : Nat) (st st' : Store) (h h' : PyHeap) (hwf : Closed h)
    (hst : ∀ e ∈ st.data, SrcOk h e.2)
    (hc : cloneMeta true fuel st h = .ok (st', h')) :
    ∀ k, obsStore k h' st' = obsStore k h st := by
  unfold cloneMeta at hc
  split at hc
  · cases hc
  · rename_i d h2 hd
    simp only [Except.ok.injEq, Prod.mk.injEq] at hc
    obtain ⟨rfl, rfl⟩ := hc
    obtain ⟨hk, _, _, hobs⟩ := cloneData_faithful fuel st.data d h h2 hwf hst hd
    intro k
    simp only [obsStore, hk, hobs k]

/-- non-vacuity: a closed cyclic heap (a list that contains itself and a dict that points back to
    it) is deep-copied successfully -/
example :
    let h : PyHeap := [.list [.ref 0, .ref 1, .atom "a"], .dict [("x", .ref 0), ("y", .atom "b")]]
    Closed h ∧ (deepcopy 5 (.ref 0) h).toBool = true ∧
      (cloneMeta true 5 { data := [("k", .ref 0), ("l", .ref 1)], invalid := [] } h).toBool = true := by
  refine ⟨?_, by decide, by decide⟩
  intro i o ho j hj
  match i, ho with
  | 0, ho => cases ho; simp [PyObj.vals] at hj; simp; omega
  | 1, ho => cases ho; simp [PyObj.vals] at hj; simp; omega

/-- `hwf` is needed: a cell with a dangling slot (`ref 1` in a one-cell heap) makes `deepcopy` copy
    the cell it has just allocated; the copy then observes deeper than the source -/
example :
    let h : PyHeap := [.list [.ref 1]]
    ∃ v' h', deepcopy 5 (.ref 0) h = .ok (v', h') ∧ obs 2 h' v' ≠ obs 2 h (.ref 0) :=
  ⟨.ref 1, [.list [.ref 1], .list [.ref 2], .list []], rfl, by decide⟩

/-- `hst` is needed: a dangling value of a later key is "repaired" by the copy of an earlier key -/
example :
    let h : PyHeap := [.list []]
    let st : Store := { data := [("a", .ref 0), ("b", .ref 1)], invalid := [] }
    Closed h ∧ ∃ st' h', cloneMeta true 5 st h = .ok (st', h') ∧ obsStore 1 h' st' ≠ obsStore 1 h st := by
  refine ⟨?_, { data := [("a", .ref 1), ("b", .ref 2)], invalid := [] },
    [.list [], .list [], .list []], rfl, by decide⟩
  intro i o ho j hj
  match i, ho with
  | 0, ho => cases ho; simp [PyObj.vals] at hj

end IrVerif.Clone.Meta.Faithful

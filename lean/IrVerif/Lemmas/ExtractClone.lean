/-
Helper development for C18: what the success of the clone of the view (keys of the cloner's value map,
model functions `cloneG/cloneNs/cloneN/cloneGs`) implies.
-/
import IrVerif.Lemmas.Extract
namespace IrVerif.Extract

mutual
  /-- `v` is defined in `g` or in a graph nested in `g`: graph input, initializer or node output -/
  inductive DefInG : GraphT → VId → Prop
    | input {g : GraphT} {v : VId} : v ∈ g.inputs → DefInG g v
    | init {g : GraphT} {v : VId} : v ∈ g.inits → DefInG g v
    | node {g : GraphT} {n : NodeT} {v : VId} : n ∈ g.nodes → DefInN n v → DefInG g v
  inductive DefInN : NodeT → VId → Prop
    | out {n : NodeT} {v : VId} : v ∈ n.outputs → DefInN n v
    | nested {n : NodeT} {b : GraphT} {v : VId} : b ∈ n.bodies → DefInG b v → DefInN n v
end

mutual
  theorem cloneG_spec : ∀ (g : GraphT) (m m' : List VId), cloneG m g = .ok m' →
      (∀ v, v ∈ m → v ∈ m') ∧ (∀ v, v ∈ m' → v ∈ m ∨ DefInG g v) ∧ (∀ v, UsedInG g v → v ∈ m') ∧
      (∀ v, v ∈ g.outputs → v ∈ m')
    | .mk gid ins inits outs ns, m, m', h => by
      rw [cloneG] at h
      split at h
      · cases h
      · rename_i m1 h1
        split at h
        · rename_i hout
          cases h
          have ih := cloneNs_spec ns _ _ h1
          refine ⟨?_, ?_, ?_, ?_⟩
          · intro v hv; exact ih.1 v (by simp [hv])
          · intro v hv
            rcases ih.2.1 v hv with h' | ⟨n, hn, hd⟩
            · rcases List.mem_append.mp h' with h' | h'
              · rcases List.mem_append.mp h' with h' | h'
                · exact Or.inl h'
                · exact Or.inr (DefInG.input (g := .mk gid ins inits outs ns) h')
              · exact Or.inr (DefInG.init (g := .mk gid ins inits outs ns) h')
            · exact Or.inr (DefInG.node (g := .mk gid ins inits outs ns) hn hd)
          · intro v hv
            cases hv with
            | node hn hu => exact ih.2.2 v ⟨_, hn, hu⟩
          · intro v hv
            have := List.all_eq_true.mp hout v hv
            simpa using this
        · cases h
  theorem cloneNs_spec : ∀ (ns : List NodeT) (m m' : List VId), cloneNs m ns = .ok m' →
      (∀ v, v ∈ m → v ∈ m') ∧ (∀ v, v ∈ m' → v ∈ m ∨ ∃ n, n ∈ ns ∧ DefInN n v) ∧
      (∀ v, (∃ n, n ∈ ns ∧ UsedInN n v) → v ∈ m')
    | [], m, m', h => by
      rw [cloneNs] at h
      cases h
      exact ⟨fun _ h => h, fun _ h => Or.inl h, fun v ⟨n, hn, _⟩ => by cases hn⟩
    | n :: ns, m, m', h => by
      rw [cloneNs] at h
      split at h
      · cases h
      · rename_i m1 h1
        have i1 := cloneN_spec n _ _ h1
        have i2 := cloneNs_spec ns _ _ h
        refine ⟨fun v hv => i2.1 v (i1.1 v hv), ?_, ?_⟩
        · intro v hv
          rcases i2.2.1 v hv with h' | ⟨k, hk, hd⟩
          · rcases i1.2.1 v h' with h'' | h''
            · exact Or.inl h''
            · exact Or.inr ⟨n, List.mem_cons_self, h''⟩
          · exact Or.inr ⟨k, List.mem_cons_of_mem _ hk, hd⟩
        · rintro v ⟨k, hk, hu⟩
          rcases List.mem_cons.mp hk with rfl | hk
          · exact i2.1 v (i1.2.2 v hu)
          · exact i2.2.2 v ⟨k, hk, hu⟩
  theorem cloneN_spec : ∀ (n : NodeT) (m m' : List VId), cloneN m n = .ok m' →
      (∀ v, v ∈ m → v ∈ m') ∧ (∀ v, v ∈ m' → v ∈ m ∨ DefInN n v) ∧ (∀ v, UsedInN n v → v ∈ m')
    | .mk ins outs bs, m, m', h => by
      rw [cloneN] at h
      split at h
      · rename_i hin
        split at h
        · cases h
        · rename_i m1 h1
          cases h
          have ih := cloneGs_spec bs _ _ h1
          refine ⟨fun v hv => List.mem_append_left _ (ih.1 v hv), ?_, ?_⟩
          · intro v hv
            rcases List.mem_append.mp hv with h' | h'
            · rcases ih.2.1 v h' with h'' | ⟨b, hb, hd⟩
              · exact Or.inl h''
              · exact Or.inr (DefInN.nested (n := .mk ins outs bs) hb hd)
            · exact Or.inr (DefInN.out (n := .mk ins outs bs) h')
          · intro v hv
            cases hv with
            | direct hd =>
              have : v ∈ ins.filterMap id := by simpa [List.mem_filterMap] using hd
              have := List.all_eq_true.mp hin v this
              exact List.mem_append_left _ (ih.1 v (by simpa using this))
            | nested hb hu => exact List.mem_append_left _ (ih.2.2 v ⟨_, hb, hu⟩)
      · cases h
  theorem cloneGs_spec : ∀ (gs : List GraphT) (m m' : List VId), cloneGs m gs = .ok m' →
      (∀ v, v ∈ m → v ∈ m') ∧ (∀ v, v ∈ m' → v ∈ m ∨ ∃ g, g ∈ gs ∧ DefInG g v) ∧
      (∀ v, (∃ g, g ∈ gs ∧ UsedInG g v) → v ∈ m')
    | [], m, m', h => by
      rw [cloneGs] at h
      cases h
      exact ⟨fun _ h => h, fun _ h => Or.inl h, fun v ⟨n, hn, _⟩ => by cases hn⟩
    | g :: gs, m, m', h => by
      rw [cloneGs] at h
      split at h
      · cases h
      · rename_i m1 h1
        have i1 := cloneG_spec g _ _ h1
        have i2 := cloneGs_spec gs _ _ h
        refine ⟨fun v hv => i2.1 v (i1.1 v hv), ?_, ?_⟩
        · intro v hv
          rcases i2.2.1 v hv with h' | ⟨k, hk, hd⟩
          · rcases i1.2.1 v h' with h'' | h''
            · exact Or.inl h''
            · exact Or.inr ⟨g, List.mem_cons_self, h''⟩
          · exact Or.inr ⟨k, List.mem_cons_of_mem _ hk, hd⟩
        · rintro v ⟨k, hk, hu⟩
          rcases List.mem_cons.mp hk with rfl | hk
          · exact i2.1 v (i1.2.2.1 v hu)
          · exact i2.2.2 v ⟨k, hk, hu⟩
end

theorem viewInits_mem {W : World} : ∀ (vs : List VId) (m im : NameMap), viewInits W vs m = .ok im →
    ∀ v, v ∈ im.map (·.2) → v ∈ vs ∨ v ∈ m.map (·.2)
  | [], m, im, h => by
    rw [viewInits] at h; cases h; exact fun v hv => Or.inr hv
  | x :: vs, m, im, h => by
    rw [viewInits] at h
    split at h
    · cases h
    · intro v hv
      rcases viewInits_mem vs _ im h v hv with h' | h'
      · exact Or.inl (List.mem_cons_of_mem _ h')
      · split at h'
        · simp only [List.map_map, List.mem_map, Function.comp] at h'
          obtain ⟨kv, hkv, he⟩ := h'
          split at he
          · simp at he; subst he; exact Or.inl List.mem_cons_self
          · exact Or.inr (List.mem_map.mpr ⟨kv, hkv, he⟩)
        · simp only [List.map_append, List.map_cons, List.map_nil, List.mem_append,
            List.mem_singleton] at h'
          rcases h' with h' | rfl
          · exact Or.inr h'
          · exact Or.inl List.mem_cons_self

end IrVerif.Extract

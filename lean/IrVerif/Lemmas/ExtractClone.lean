/-
Helper development for C18: what the success of the clone of the view (keys of the cloner's value map,
model functions `cloneG/cloneNs/cloneN/cloneGs`) implies.
-/
import IrVerif.Lemmas.Extract
namespace IrVerif.Extract

mutual
  theorem cloneG_spec : ∀ (g : GraphT) (m m' : List VId), cloneG m g = .ok m' →
      (∀ v, v ∈ m → v ∈ m') ∧ (∀ v, v ∈ m' → v ∈ m ∨ DefInG g v) ∧ (∀ v, UsedInG g v → v ∈ m') ∧
      (∀ v, v ∈ g.outputs → v ∈ m')
    | .mk gid ins inits outs ns, m, m', h => by
      rw [cloneG] at h
      split at h
      · cases h
      · rename_i m1 h1
        split at h
        · rename_i hout
          cases h
          have ih := cloneNs_spec ns _ _ h1
          refine ⟨?_, ?_, ?_, ?_⟩
          · intro v hv; exact ih.1 v (by simp [hv])
          · intro v hv
            rcases ih.2.1 v hv with h' | ⟨n, hn, hd⟩
            · rcases List.mem_append.mp h' with h' | h'
              · rcases List.mem_append.mp h' with h' | h'
                · exact Or.inl h'
                · exact Or.inr (DefInG.input (g := .mk gid ins inits outs ns) h')
              · exact Or.inr (DefInG.init (g := .mk gid ins inits outs ns) h')
            · exact Or.inr (DefInG.node (g := .mk gid ins inits outs ns) hn hd)
          · intro v hv
            cases hv with
            | node hn hu => exact ih.2.2 v ⟨_, hn, hu⟩
          · intro v hv
            have := List.all_eq_true.mp hout v hv
            simpa using this
        · cases h
  theorem cloneNs_spec : ∀ (ns : List NodeT) (m m' : List VId), cloneNs m ns = .ok m' →
      (∀ v, v ∈ m → v ∈ m') ∧ (∀ v, v ∈ m' → v ∈ m ∨ ∃ n, n ∈ ns ∧ DefInN n v) ∧
      (∀ v, (∃ n, n ∈ ns ∧ UsedInN n v) → v ∈ m')
    | [], m, m', h => by
      rw [cloneNs] at h
      cases h
      exact ⟨fun _ h => h, fun _ h => Or.inl h, fun v ⟨n, hn, _⟩ => by cases hn⟩
    | n :: ns, m, m', h => by
      rw [cloneNs] at h
      split at h
      · cases h
      · rename_i m1 h1
        have i1 := cloneN_spec n _ _ h1
        have i2 := cloneNs_spec ns _ _ h
        refine ⟨fun v hv => i2.1 v (i1.1 v hv), ?_, ?_⟩
        · intro v hv
          rcases i2.2.1 v hv with h' | ⟨k, hk, hd⟩
          · rcases i1.2.1 v h' with h'' | h''
            · exact Or.inl h''
            · exact Or.inr ⟨n, List.mem_cons_self, h''⟩
          · exact Or.inr ⟨k, List.mem_cons_of_mem _ hk, hd⟩
        · rintro v ⟨k, hk, hu⟩
          rcases List.mem_cons.mp hk with rfl | hk
          · exact i2.1 v (i1.2.2 v hu)
          · exact i2.2.2 v ⟨k, hk, hu⟩
  theorem cloneN_spec : ∀ (n : NodeT) (m m' : List VId), cloneN m n = .ok m' →
      (∀ v, v ∈ m → v ∈ m') ∧ (∀ v, v ∈ m' → v ∈ m ∨ DefInN n v) ∧ (∀ v, UsedInN n v → v ∈ m')
    | .mk ins outs bs, m, m', h => by
      rw [cloneN] at h
      split at h
      · rename_i hin
        split at h
        · cases h
        · rename_i m1 h1
          cases h
          have ih := cloneGs_spec bs _ _ h1
          refine ⟨fun v hv => List.mem_append_left _ (ih.1 v hv), ?_, ?_⟩
          · intro v hv
            rcases List.mem_append.mp hv with h' | h'
            · rcases ih.2.1 v h' with h'' | ⟨b, hb, hd⟩
              · exact Or.inl h''
              · exact Or.inr (DefInN.nested (n := .mk ins outs bs) hb hd)
            · exact Or.inr (DefInN.out (n := .mk ins outs bs) h')
          · intro v hv
            cases hv with
            | direct hd =>
              have : v ∈ ins.filterMap id := by simpa [List.mem_filterMap] using hd
              have := List.all_eq_true.mp hin v this
              exact List.mem_append_left _ (ih.1 v (by simpa using this))
            | nested hb hu => exact List.mem_append_left _ (ih.2.2 v ⟨_, hb, hu⟩)
      · cases h
  theorem cloneGs_spec : ∀ (gs : List GraphT) (m m' : List VId), cloneGs m gs = .ok m' →
      (∀ v, v ∈ m → v ∈ m') ∧ (∀ v, v ∈ m' → v ∈ m ∨ ∃ g, g ∈ gs ∧ DefInG g v) ∧
      (∀ v, (∃ g, g ∈ gs ∧ UsedInG g v) → v ∈ m')
    | [], m, m', h => by
      rw [cloneGs] at h
      cases h
      exact ⟨fun _ h => h, fun _ h => Or.inl h, fun v ⟨n, hn, _⟩ => by cases hn⟩
    | g :: gs, m, m', h => by
      rw [cloneGs] at h
      split at h
      · cases h
      · rename_i m1 h1
        have i1 := cloneG_spec g _ _ h1
        have i2 := cloneGs_spec gs _ _ h
        refine ⟨fun v hv => i2.1 v (i1.1 v hv), ?_, ?_⟩
        · intro v hv
          rcases i2.2.1 v hv with h' | ⟨k, hk, hd⟩
          · rcases i1.2.1 v h' with h'' | h''
            · exact Or.inl h''
            · exact Or.inr ⟨g, List.mem_cons_self, h''⟩
          · exact Or.inr ⟨k, List.mem_cons_of_mem _ hk, hd⟩
        · rintro v ⟨k, hk, hu⟩
          rcases List.mem_cons.mp hk with rfl | hk
          · exact i2.1 v (i1.2.2.1 v hu)
          · exact i2.2.2 v ⟨k, hk, hu⟩
end

theorem viewInits_mem {W : World} : ∀ (vs : List VId) (m im : NameMap), viewInits W vs m = .ok im →
    ∀ v, v ∈ im.map (·.2) → v ∈ vs ∨ v ∈ m.map (·.2)
  | [], m, im, h => by
    rw [viewInits] at h; cases h; exact fun v hv => Or.inr hv
  | x :: vs, m, im, h => by
    rw [viewInits] at h
    split at h
    · cases h
    · intro v hv
      rcases viewInits_mem vs _ im h v hv with h' | h'
      · exact Or.inl (List.mem_cons_of_mem _ h')
      · split at h'
        · simp only [List.map_map, List.mem_map, Function.comp] at h'
          obtain ⟨kv, hkv, he⟩ := h'
          split at he
          · simp at he; subst he; exact Or.inl List.mem_cons_self
          · exact Or.inr (List.mem_map.mpr ⟨kv, hkv, he⟩)
        · simp only [List.map_append, List.map_cons, List.map_nil, List.mem_append,
            List.mem_singleton] at h'
          rcases h' with h' | rfl
          · exact Or.inr h'
          · exact Or.inl List.mem_cons_self

mutual
  /-- the clone only raises its own two errors -/
  theorem cloneG_err : ∀ (g : GraphT) (m : List VId) (e : Err), cloneG m g = .error e →
      e = .cloneOuter ∨ e = .cloneOutput
    | .mk gid ins inits outs ns, m, e, h => by
      rw [cloneG] at h
      split at h
      · rename_i e' he; cases h; exact cloneNs_err ns _ _ he
      · split at h
        · cases h
        · cases h; exact Or.inr rfl
  theorem cloneNs_err : ∀ (ns : List NodeT) (m : List VId) (e : Err), cloneNs m ns = .error e →
      e = .cloneOuter ∨ e = .cloneOutput
    | [], m, e, h => by rw [cloneNs] at h; cases h
    | n :: ns, m, e, h => by
      rw [cloneNs] at h
      split at h
      · rename_i e' he; cases h; exact cloneN_err n _ _ he
      · exact cloneNs_err ns _ _ h
  theorem cloneN_err : ∀ (n : NodeT) (m : List VId) (e : Err), cloneN m n = .error e →
      e = .cloneOuter ∨ e = .cloneOutput
    | .mk ins outs bs, m, e, h => by
      rw [cloneN] at h
      split at h
      · split at h
        · rename_i e' he; cases h; exact cloneGs_err bs _ _ he
        · cases h
      · cases h; exact Or.inl rfl
  theorem cloneGs_err : ∀ (gs : List GraphT) (m : List VId) (e : Err), cloneGs m gs = .error e →
      e = .cloneOuter ∨ e = .cloneOutput
    | [], m, e, h => by rw [cloneGs] at h; cases h
    | g :: gs, m, e, h => by
      rw [cloneGs] at h
      split at h
      · rename_i e' he; cases h; exact cloneG_err g _ _ he
      · exact cloneGs_err gs _ _ h
end

theorem lookup_isSome_mem {m : NameMap} {nm : String} (h : (m.lookup nm).isSome = true) :
    ∃ x, (nm, x) ∈ m := by
  induction m with
  | nil => simp at h
  | cons kv t ih =>
    obtain ⟨k, x⟩ := kv
    by_cases hk : nm = k
    · subst hk; exact ⟨x, List.mem_cons_self⟩
    · have : (nm == k) = false := by simpa using hk
      simp only [List.lookup_cons, this] at h
      obtain ⟨y, hy⟩ := ih h
      exact ⟨y, List.mem_cons_of_mem _ hy⟩

/-- with pairwise distinct names nothing is dropped when the view's initializer dict is built -/
theorem viewInits_complete {W : World} : ∀ (vs : List VId) (m im : NameMap), viewInits W vs m = .ok im →
    (∀ kv, kv ∈ m → kv.1 = (W.val kv.2).name) →
    (∀ u u', (u ∈ vs ∨ u ∈ m.map (·.2)) → (u' ∈ vs ∨ u' ∈ m.map (·.2)) →
      (W.val u).name = (W.val u').name → u = u') →
    (∀ x, x ∈ m.map (·.2) → x ∈ im.map (·.2)) ∧ (∀ v, v ∈ vs → v ∈ im.map (·.2))
  | [], m, im, h, _, _ => by
    rw [viewInits] at h; cases h
    exact ⟨fun _ hx => hx, fun _ hv => by cases hv⟩
  | v :: vs, m, im, h, hP, hinj => by
    rw [viewInits] at h
    split at h
    · cases h
    · split at h
      · rename_i hlook
        -- an entry with that name exists: it already holds `v`
        obtain ⟨x, hx⟩ := lookup_isSome_mem hlook
        have hxv : x = v := by
          apply hinj x v (Or.inr (List.mem_map.mpr ⟨_, hx, rfl⟩)) (Or.inl List.mem_cons_self)
          exact (hP _ hx).symm
        subst hxv
        have hmap : m.map (fun kv => if kv.1 == (W.val x).name then ((W.val x).name, x) else kv) = m := by
          have hcongr : m.map (fun kv => if kv.1 == (W.val x).name then ((W.val x).name, x) else kv)
              = m.map id := by
            apply List.map_congr_left
            intro kv hkv
            show (if kv.1 == (W.val x).name then ((W.val x).name, x) else kv) = kv
            by_cases hk : kv.1 = (W.val x).name
            · have : kv.2 = x := by
                apply hinj kv.2 x (Or.inr (List.mem_map.mpr ⟨_, hkv, rfl⟩)) (Or.inl List.mem_cons_self)
                rw [← hP kv hkv]; exact hk
              obtain ⟨k, y⟩ := kv
              simp only at hk this
              subst hk; subst this
              simp
            · have : (kv.1 == (W.val x).name) = false := by simpa using hk
              simp [this]
          rw [hcongr, List.map_id]
        rw [hmap] at h
        have ih := viewInits_complete vs m im h hP (fun u u' hu hu' =>
          hinj u u' (hu.imp (List.mem_cons_of_mem _) id) (hu'.imp (List.mem_cons_of_mem _) id))
        refine ⟨ih.1, ?_⟩
        intro w hw
        rcases List.mem_cons.mp hw with rfl | hw
        · exact ih.1 w (List.mem_map.mpr ⟨_, hx, rfl⟩)
        · exact ih.2 w hw
      · have ih := viewInits_complete vs (m ++ [((W.val v).name, v)]) im h
          (by
            intro kv hkv
            rcases List.mem_append.mp hkv with hkv | hkv
            · exact hP kv hkv
            · simp at hkv; subst hkv; rfl)
          (by
            intro u u' hu hu'
            apply hinj u u'
            · rcases hu with hu | hu
              · exact Or.inl (List.mem_cons_of_mem _ hu)
              · simp only [List.map_append, List.map_cons, List.map_nil, List.mem_append,
                  List.mem_singleton] at hu
                rcases hu with hu | rfl
                · exact Or.inr hu
                · exact Or.inl List.mem_cons_self
            · rcases hu' with hu | hu
              · exact Or.inl (List.mem_cons_of_mem _ hu)
              · simp only [List.map_append, List.map_cons, List.map_nil, List.mem_append,
                  List.mem_singleton] at hu
                rcases hu with hu | rfl
                · exact Or.inr hu
                · exact Or.inl List.mem_cons_self)
        refine ⟨fun x hx => ih.1 x (by simp [hx]), ?_⟩
        intro w hw
        rcases List.mem_cons.mp hw with rfl | hw
        · exact ih.1 w (by simp)
        · exact ih.2 w hw

end IrVerif.Extract

/-!
# Model/Sem.lean — denotational semantics of the SSA graph IR (property C05)

A model is a nest of graphs.  Values are identified by natural numbers (the Python side sends object
identities as creation indices); nodes carry an operator id, non-graph attributes, optional inputs,
outputs and the list of their graph-valued attributes ("bodies", in attribute order; Python:
`Attr.type in (GRAPH, GRAPHS)`, src/onnx_ir/_core.py).

The semantics is parameterised by an arbitrary interpretation `Interp Val`:
`sem op attrs bodies args tag` is ANY function (determinism is exactly "it is a function"; the tag lets
the stochastic operators of `isStochasticOp` differ from node to node); the bodies it
receives are the denotations of the node's graph attributes under the environment that holds at the
node (captured outer values are visible to them).  Two operators are fixed: `Identity` (domain "")
returns its argument, `Constant` (domain "" / the pass's spelling "onnx.ai") returns the tensor
denoted by its single attribute.

Evaluation is total (no fuel): nodes are evaluated in list order, an unbound value reads `none`.
Total evaluation is chosen on purpose: with a higher-order `sem` a fuel-bounded evaluator would make
"out of fuel" observable to `sem`.  Independence of the node order is a theorem (Lemmas/SemPerm.lean:
any two dependency-respecting orders of an SSA graph give the same denotation), not a definition.
Core Lean only.
-/
namespace IrVerif.Sem

abbrev VId := Nat

/-- `Node.op_identifier()` = (domain, op_type, overload) -/
structure OpId where
  domain : String
  name : String
  overload : String
deriving DecidableEq, Repr, Inhabited

/-- A constant tensor: dtype code (onnx TensorProto.DataType), shape, raw little-endian bytes for
    numeric dtypes, element byte strings for STRING tensors. -/
structure Tensor where
  dtype : Nat
  shape : List Nat
  bytes : List Nat
  strs : List (List Nat)
deriving DecidableEq, Repr, Inhabited

/-- Non-graph attribute values.  Floats are IEEE-754 binary32 bit patterns (an ONNX FLOAT attribute
    is a float32; the harness checks that the Python float round-trips through float32).  Strings
    are UTF-8 byte lists.  `opaque tag uid`: any other attribute kind (sparse tensor, type proto,
    reference attribute ...); `uid` is the harness-assigned class under Python `==`. -/
inductive AttrData where
  | int (i : Int)
  | float (bits : Nat)
  | str (s : List Nat)
  | ints (l : List Int)
  | floats (l : List Nat)
  | strs (l : List (List Nat))
  | tensor (t : Tensor)
  | opaque (tag : Nat) (uid : Nat)
deriving DecidableEq, Repr, Inhabited

mutual
/-- `Graph` / `Function` body: inputs, outputs, initializers (value id, constant), nodes in order. -/
inductive Graph where
  | mk (inputs : List VId) (outputs : List VId) (inits : List (VId × Tensor)) (nodes : List Node)
/-- `Node`: operator id, non-graph attributes, inputs (`none` = omitted optional input), outputs,
    graph attributes in attribute order. -/
inductive Node where
  | mk (op : OpId) (attrs : List (String × AttrData)) (ins : List (Option VId)) (outs : List VId)
       (bodies : List Graph)
end

instance : Inhabited Graph := ⟨.mk [] [] [] []⟩
instance : Inhabited Node := ⟨.mk default [] [] [] []⟩

namespace Graph
def inputs : Graph → List VId | .mk i _ _ _ => i
def outputs : Graph → List VId | .mk _ o _ _ => o
def inits : Graph → List (VId × Tensor) | .mk _ _ t _ => t
def nodes : Graph → List Node | .mk _ _ _ n => n
/-- graph inputs that are not backed by an initializer: the values a caller has to supply -/
def freeInputs (g : Graph) : List VId := g.inputs.filter (fun v => !(g.inits.map Prod.fst).contains v)
end Graph

namespace Node
def op : Node → OpId | .mk o _ _ _ _ => o
def attrs : Node → List (String × AttrData) | .mk _ a _ _ _ => a
def ins : Node → List (Option VId) | .mk _ _ i _ _ => i
def outs : Node → List VId | .mk _ _ _ o _ => o
def bodies : Node → List Graph | .mk _ _ _ _ b => b
end Node

/-- `ir.Model`: main graph + model-local function bodies (a function body is a graph without
    initializers whose reference attributes are opaque attribute values). -/
structure Model where
  graph : Graph
  funcs : List Graph
deriving Inhabited

/-! ## operator interpretation -/

/-- Denotation of a graph attribute: body inputs ↦ body outputs. -/
abbrev BodyFn (Val : Type) := List Val → List (Option Val)

structure Interp (Val : Type) where
  /-- any function: operator id, attributes, body denotations, arguments (trailing omitted
      inputs stripped), node tag ↦ results.  The tag is `[]` for every operator except the stochastic
      ones (`isStochasticOp`), for which it is the node's output ids: two nodes of a stochastic
      operator may produce different values on equal arguments (a per-node oracle), every other
      operator is deterministic (a function of operator, attributes, bodies and arguments). -/
  sem : OpId → List (String × AttrData) → List (BodyFn Val) → List (Option Val) → List VId → List Val
  /-- value of a constant tensor -/
  tv : Tensor → Val

abbrev Env (Val : Type) := VId → Option Val

variable {Val : Type}

/-- bind `vs[i] := rs[i]` (first occurrence wins; an output without a result reads `none`) -/
def Env.bind (ρ : Env Val) (vs : List VId) (rs : List (Option Val)) : Env Val :=
  fun u => if u ∈ vs then (rs[vs.idxOf u]?).join else ρ u

def Env.empty : Env Val := fun _ => none

/-- ONNX: "trailing optional arguments may simply be omitted": an omitted trailing input and an
    empty one are the same input list (also unused_removal.py:77-85). -/
def trimNone : List (Option VId) → List (Option VId)
  | [] => []
  | a :: rest => if a.isNone && (trimNone rest).isEmpty then [] else a :: trimNone rest

def isIdentityOp (op : OpId) : Bool := op.name == "Identity" && op.domain == ""
/-- constant_manipulation.py:41 `node.op_type != "Constant" or node.domain not in ("", "onnx.ai")` -/
def isConstantOp (op : OpId) : Bool := op.name == "Constant" && (op.domain == "" || op.domain == "onnx.ai")

def le_bytes (n : Nat) : Nat → List Nat
  | 0 => []
  | k + 1 => n % 256 :: le_bytes (n / 256) k

/-- two's complement little-endian int64 -/
def int64Bytes (i : Int) : List Nat := le_bytes (i % (2 ^ 64 : Int)).toNat 8
def f32Bytes (bits : Nat) : List Nat := le_bytes bits 4

/-- The tensor denoted by a `Constant` attribute (ONNX operator spec for Constant; dtype codes
    FLOAT = 1, INT64 = 7, STRING = 8).  `sparse_value` and unknown names: not fixed (left to `sem`). -/
def constTensor (name : String) (a : AttrData) : Option Tensor :=
  match name, a with
  | "value", .tensor t => some t
  | "value_int", .int i => some ⟨7, [], int64Bytes i, []⟩
  | "value_ints", .ints l => some ⟨7, [l.length], l.flatMap int64Bytes, []⟩
  | "value_float", .float b => some ⟨1, [], f32Bytes b, []⟩
  | "value_floats", .floats l => some ⟨1, [l.length], l.flatMap f32Bytes, []⟩
  | "value_string", .str s => some ⟨8, [], [], [s]⟩
  | "value_strings", .strs l => some ⟨8, [l.length], [], l⟩
  | _, _ => none

def constOf (op : OpId) (attrs : List (String × AttrData)) : Option Tensor :=
  if isConstantOp op then
    match attrs with
    | [(k, a)] => constTensor k a
    | _ => none
  else none

/-- ONNX operators that draw random numbers (without a `seed` attribute every node draws its own):
    RandomUniform, RandomNormal, RandomUniformLike, RandomNormalLike, Multinomial, Bernoulli -/
def isStochasticOp (op : OpId) : Bool :=
  ["RandomUniform", "RandomNormal", "RandomUniformLike", "RandomNormalLike", "Multinomial", "Bernoulli"].contains
    op.name && op.domain == ""

/-- results of one node (with outputs `outs`) given its evaluated arguments and body denotations -/
def nodeResults (I : Interp Val) (op : OpId) (attrs : List (String × AttrData)) (outs : List VId)
    (bodies : List (BodyFn Val)) (args : List (Option Val)) : List (Option Val) :=
  if isIdentityOp op && args.length == 1 then args
  else match constOf op attrs with
    | some t => [some (I.tv t)]
    | none => (I.sem op attrs bodies args (if isStochasticOp op then outs else [])).map some

def evalArgs (ρ : Env Val) (ins : List (Option VId)) : List (Option Val) :=
  ins.map (fun o => o.bind ρ)

def bindInits (I : Interp Val) (ρ : Env Val) (inits : List (VId × Tensor)) : Env Val :=
  ρ.bind (inits.map Prod.fst) (inits.map (fun p => some (I.tv p.2)))

mutual
/-- denotation of a graph under the environment `ρ` of the enclosing scopes, applied to the values
    of its non-initializer inputs -/
def evalG (I : Interp Val) : Graph → Env Val → List Val → List (Option Val)
  | .mk inputs outputs inits nodes, ρ, xs =>
    let ρ0 := bindInits I ρ inits
    let free := inputs.filter (fun v => !(inits.map Prod.fst).contains v)
    let ρ1 := ρ0.bind free (xs.map some)
    outputs.map (evalNodes I nodes ρ1)
def evalNodes (I : Interp Val) : List Node → Env Val → Env Val
  | [], ρ => ρ
  | n :: ns, ρ => evalNodes I ns (evalN I n ρ)
def evalN (I : Interp Val) : Node → Env Val → Env Val
  | .mk op attrs ins outs bodies, ρ =>
    ρ.bind outs (nodeResults I op attrs outs (evalBodies I bodies ρ) (evalArgs ρ (trimNone ins)))
def evalBodies (I : Interp Val) : List Graph → Env Val → List (BodyFn Val)
  | [], _ => []
  | b :: bs, ρ => (fun xs => evalG I b ρ xs) :: evalBodies I bs ρ
end

/-- what the model computes: outputs (position by position) as a function of the values supplied
    for the non-initializer graph inputs (position by position) -/
def denote (I : Interp Val) (m : Model) (xs : List Val) : List (Option Val) :=
  evalG I m.graph Env.empty xs

/-- the same for the `k`-th model-local function body (call sites are interpreted by `sem`) -/
def denoteFunc (I : Interp Val) (m : Model) (k : Nat) (ρ : Env Val) (xs : List Val) : List (Option Val) :=
  match m.funcs[k]? with
  | some f => evalG I f ρ xs
  | none => []

/-! ## syntactic measures used by the pass models and the validity predicate -/

mutual
/-- every value id defined anywhere inside the graph (inputs, initializers, node outputs; deep) -/
def defsG : Graph → List VId
  | .mk inputs _ inits nodes => inputs ++ inits.map Prod.fst ++ defsNodes nodes
def defsNodes : List Node → List VId
  | [] => []
  | n :: ns => defsN n ++ defsNodes ns
def defsN : Node → List VId
  | .mk _ _ _ outs bodies => outs ++ defsBodies bodies
def defsBodies : List Graph → List VId
  | [] => []
  | b :: bs => defsG b ++ defsBodies bs
end

mutual
/-- every value id read anywhere inside the graph (node inputs and graph outputs; deep) -/
def refsG : Graph → List VId
  | .mk _ outputs _ nodes => outputs ++ refsNodes nodes
def refsNodes : List Node → List VId
  | [] => []
  | n :: ns => refsN n ++ refsNodes ns
def refsN : Node → List VId
  | .mk _ _ ins _ bodies => ins.filterMap id ++ refsBodies bodies
def refsBodies : List Graph → List VId
  | [] => []
  | b :: bs => refsG b ++ refsBodies bs
end

mutual
/-- `Value.uses()` seen from outside: ids that occur as a node input anywhere inside (deep);
    graph outputs are not uses -/
def usesG : Graph → List VId
  | .mk _ _ _ nodes => usesNodes nodes
def usesNodes : List Node → List VId
  | [] => []
  | n :: ns => usesN n ++ usesNodes ns
def usesN : Node → List VId
  | .mk _ _ ins _ bodies => ins.filterMap id ++ usesBodies bodies
def usesBodies : List Graph → List VId
  | [] => []
  | b :: bs => usesG b ++ usesBodies bs
end

/-- outputs of the nodes of one node list (not descending into bodies) -/
def outsTop : List Node → List VId
  | [] => []
  | n :: ns => n.outs ++ outsTop ns

/-- values bound at the top level of a graph: inputs, initializers, node outputs -/
def topDefs (g : Graph) : List VId := g.inputs ++ g.inits.map Prod.fst ++ outsTop g.nodes

/-! ## validity (decidable; the driver evaluates it on every generated model)

`ssa*`: value ids are identities — every value is bound exactly once in the whole nest (an
initializer may also be listed as an input of the same graph).  `closed*`: the outputs of every graph
are bound at the top level of that graph (ONNX: a subgraph output is produced in the subgraph). -/

def disj (a b : List VId) : Bool := a.all (fun x => !b.contains x)
def nodupB : List VId → Bool
  | [] => true
  | x :: xs => !xs.contains x && nodupB xs

mutual
def ssaG : Graph → Bool
  | .mk inputs _ inits nodes =>
    nodupB inputs && nodupB (inits.map Prod.fst) &&
    disj (inputs ++ inits.map Prod.fst) (defsNodes nodes) && ssaNodes nodes
def ssaNodes : List Node → Bool
  | [] => true
  | n :: ns => ssaN n && disj (defsN n) (defsNodes ns) && ssaNodes ns
def ssaN : Node → Bool
  | .mk _ _ _ outs bodies => nodupB outs && disj outs (defsBodies bodies) && ssaBodies bodies
def ssaBodies : List Graph → Bool
  | [] => true
  | b :: bs => ssaG b && disj (defsG b) (defsBodies bs) && ssaBodies bs
end

mutual
def closedG : Graph → Bool
  | .mk inputs outputs inits nodes =>
    outputs.all (fun v => (inputs ++ inits.map Prod.fst ++ outsTop nodes).contains v) && closedNodes nodes
def closedNodes : List Node → Bool
  | [] => true
  | n :: ns => closedN n && closedNodes ns
def closedN : Node → Bool
  | .mk _ _ _ _ bodies => closedBodies bodies
def closedBodies : List Graph → Bool
  | [] => true
  | b :: bs => closedG b && closedBodies bs
end

/-! `noFwd*`: no node reads a value that is bound by itself, inside its own bodies or by a later node
of the same node list, and its bodies do not read the node's own outputs or values bound by later
nodes (ONNX: nodes are topologically sorted; subgraphs capture values that are already computed). -/
mutual
def noFwdG : Graph → Bool
  | .mk _ _ _ nodes => noFwdNodes nodes
def noFwdNodes : List Node → Bool
  | [] => true
  | n :: ns => disj (n.ins.filterMap id) (defsNodes (n :: ns)) &&
    disj (refsBodies n.bodies) (n.outs ++ defsNodes ns) && noFwdN n && noFwdNodes ns
def noFwdN : Node → Bool
  | .mk _ _ _ _ bodies => noFwdBodies bodies
def noFwdBodies : List Graph → Bool
  | [] => true
  | b :: bs => noFwdG b && noFwdBodies bs
end

/-! `scoped* D`: every value a node reads is in scope — bound in an enclosing graph before the
enclosing node (`D`), or an input / initializer / earlier node output of its own graph. -/
mutual
def scopedG (D : List VId) : Graph → Bool
  | .mk inputs _ inits nodes => scopedNodes (D ++ inputs ++ inits.map Prod.fst) nodes
def scopedNodes : List VId → List Node → Bool
  | _, [] => true
  | D, n :: ns => (n.ins.filterMap id).all (fun v => D.contains v) && scopedN D n && scopedNodes (D ++ n.outs) ns
def scopedN (D : List VId) : Node → Bool
  | .mk _ _ _ _ bodies => scopedBodies D bodies
def scopedBodies (D : List VId) : List Graph → Bool
  | [] => true
  | b :: bs => scopedG D b && scopedBodies D bs
end

/-- hypotheses of the pass theorems, evaluated by the driver on every generated model -/
def validG (g : Graph) : Bool := ssaG g && closedG g && noFwdG g && scopedG [] g
def validModel (m : Model) : Bool := validG m.graph && m.funcs.all validG

end IrVerif.Sem

/-
Model of `Graph.sort` (src/onnx_ir/_core.py:3913-4013), of the node universe built by
`RecursiveGraphIterator` (src/onnx_ir/traversal.py:64-110, forward direction, no `recursive`
callback) and of the re-linking done by `Graph.extend` -> `DoublyLinkedSet.extend/append`
(src/onnx_ir/_core.py:3825-3837, src/onnx_ir/_linked_list.py:170-248).

Objects are identified by creation indices: a node by `id`, a graph by `gid`.  A value is
represented by what `Graph.sort` reads from it: `input_value.producer()` -- `none` stands for a
`None` input or a value without producer (graph input / initializer), `some p` for "produced by
the node with id `p`" (which may or may not be in the universe).

Only core Lean is imported (linked into `irdriver`).
-/
namespace IrVerif.Sort

/-- A node with the attribute graphs it owns.  `subs` lists the graphs of all `GRAPH` / `GRAPHS`
    attributes flattened in `node.attributes.values()` order (a `GRAPHS` attribute contributes its
    graphs in order); a graph is `(gid, nodes in their current order)`. -/
inductive MNode where
  | mk (id : Nat) (inputs : List (Option Nat)) (subs : List (Nat × List MNode)) : MNode

abbrev MGraph := Nat × List MNode

namespace MNode
def id : MNode → Nat | .mk i _ _ => i
def inputs : MNode → List (Option Nat) | .mk _ ins _ => ins
def subs : MNode → List MGraph | .mk _ _ s => s
end MNode

/-- ids of the nodes directly contained in the attribute graphs of a node, in the order in which
    `Graph.sort` visits them (`for attr in node.attributes.values(): for predecessor_node in
    attr.value` resp. `for attribute_graph in attr.value: for predecessor_node in attribute_graph`,
    _core.py:3965-3979). -/
def subNodeIds (subs : List MGraph) : List Nat :=
  subs.flatMap (fun g => g.2.map MNode.id)

/-- What `Graph.sort` knows about one node of the universe: its identity, `node.graph`, the
    producers of its inputs and the direct nodes of its attribute graphs. -/
structure Ent where
  id : Nat
  gid : Nat
  inputs : List (Option Nat)
  subNodes : List Nat
deriving Repr, DecidableEq

mutual
/-- `RecursiveGraphIterator._recursive_node_iter` for one node of graph `gid`: yield the node,
    then `_iterate_subgraphs(node)` (traversal.py:73-77). -/
def entsN (gid : Nat) : MNode → List Ent
  | .mk i ins subs => ⟨i, gid, ins, subNodeIds subs⟩ :: entsGs subs
/-- `_iterate_subgraphs`: the attribute graphs in order, each iterated recursively
    (traversal.py:82-110). -/
def entsGs : List (Nat × List MNode) → List Ent
  | [] => []
  | (g, ns) :: gs => entsNs g ns ++ entsGs gs
/-- `for node in graph:` (traversal.py:73). -/
def entsNs (gid : Nat) : List MNode → List Ent
  | [] => []
  | n :: ns => entsN gid n ++ entsNs gid ns
end

/-- `nodes = list(RecursiveGraphIterator(self))` (_core.py:3924): pre-order. -/
def nodesOf (g : MGraph) : List Ent := entsNs g.1 g.2

mutual
/-- every graph of the tree below a node (pre-order) -/
def subgraphsN : MNode → List MGraph
  | .mk _ _ subs => subgraphsGs subs
def subgraphsGs : List (Nat × List MNode) → List MGraph
  | [] => []
  | (g, ns) :: gs => (g, ns) :: subgraphsNs ns ++ subgraphsGs gs
def subgraphsNs : List MNode → List MGraph
  | [] => []
  | n :: ns => subgraphsN n ++ subgraphsNs ns
end

/-- the sorted graph and every graph nested in it at any depth -/
def allGraphs (g : MGraph) : List MGraph := g :: subgraphsNs g.2

/-- `list(graph)` as node ids -/
def orderOf (h : MGraph) : Nat × List Nat := (h.1, h.2.map MNode.id)

/-- the current node order of every graph of the tree: `(gid, node ids in order)` -/
def graphsOf (g : MGraph) : List (Nat × List Nat) := (allGraphs g).map orderOf

/-! ### The dictionaries of `Graph.sort`, over positions in the universe

`neg_node_index[node] = -i` (_core.py:3939): a node is represented by its position `i`. -/

/-- `predecessor not in node_depth` lookup (_core.py:3945): the position of the node with id `p`
    in the universe, if it is there. -/
def indexOfId (u : List Ent) (p : Nat) : Option Nat := u.findIdx? (fun e => e.id == p)

/-- `node_predecessors[node]` (_core.py:3957-3979) as positions: producers of the inputs that are
    in the universe (one entry per input occurrence), then all direct nodes of attribute graphs. -/
def predsOfEnt (u : List Ent) (e : Ent) : List Nat :=
  e.inputs.filterMap (fun o => o.bind (indexOfId u)) ++ e.subNodes.filterMap (indexOfId u)

def predsAt (u : List Ent) (i : Nat) : List Nat :=
  match u[i]? with
  | some e => predsOfEnt u e
  | none => []

/-- `node_depth[predecessor] += 1` (_core.py:3949) -/
def bump (d : List Nat) (p : Nat) : List Nat := d.set p (d.getD p 0 + 1)

/-- step 1 (_core.py:3957-3979): `node_depth` after all `add_predecessor` calls -/
def initDepth (n : Nat) (preds : Nat → List Nat) : List Nat :=
  (List.range n).foldl (fun d c => (preds c).foldl bump d) (List.replicate n 0)

/-- step 2 (_core.py:3985-3988): the nodes with `node_depth == 0`.  The heap of
    `(neg index, node)` pairs is modelled as the list of positions it contains; `heappop` returns
    the entry with the smallest negative index, i.e. the largest position. -/
def initHeap (n : Nat) (depth : List Nat) : List Nat :=
  (List.range n).filter (fun i => depth.getD i 0 == 0)

/-- largest element of a list (`heappop` on distinct keys `-i`) -/
def maxOf : List Nat → Option Nat
  | [] => none
  | x :: xs => match maxOf xs with
    | none => some x
    | some m => some (if m ≤ x then x else m)

/-- loop state: `node_depth`, the heap content, and the popped positions most recent first
    (so `reversed(sorted_nodes)` of a bucket is a `filter` of `out`). -/
structure KState where
  depth : List Nat
  heap : List Nat
  out : List Nat
deriving Repr

/-- `node_depth[p] -= 1; if node_depth[p] == 0: heappush` (_core.py:3999-4004) -/
def relax1 (s : List Nat × List Nat) (p : Nat) : List Nat × List Nat :=
  let d' := s.1.set p (s.1.getD p 0 - 1)
  if d'.getD p 0 == 0 then (d', p :: s.2) else (d', s.2)

/-- one iteration of `while priority_queue:` (_core.py:3992-4004); `none` when the queue is empty -/
def step (preds : Nat → List Nat) (s : KState) : Option KState :=
  match maxOf s.heap with
  | none => none
  | some x =>
    let r := (preds x).foldl relax1 (s.depth, s.heap.erase x)
    some ⟨r.1, r.2, x :: s.out⟩

/-- the `while` loop with fuel (`C12_fuel_suffices`: `n` iterations always empty the queue) -/
def loop (preds : Nat → List Nat) : Nat → KState → KState
  | 0, s => s
  | f + 1, s => match step preds s with
    | none => s
    | some s' => loop preds f s'

/-- steps 1-3 on `n` nodes with predecessor lists `preds`: the final loop state -/
def kahnState (n : Nat) (preds : Nat → List Nat) : KState :=
  let d := initDepth n preds
  loop preds n ⟨d, initHeap n d, []⟩

/-- popped positions, most recent first -/
def kahn (n : Nat) (preds : Nat → List Nat) : List Nat := (kahnState n preds).out

/-- `DoublyLinkedSet.append` of a value (`_insert_one_after(self._root.prev, value)`,
    _linked_list.py:170-248): nothing happens when it already is the last element, otherwise it
    is removed first if present and linked at the end. -/
def appendMove (l : List Nat) (x : Nat) : List Nat :=
  if l.getLast? = some x then l else l.erase x ++ [x]

/-- `graph.extend(reversed(sorted_nodes))` (_core.py:4013) on a graph whose node ids are `cur` -/
def relink (cur : List Nat) (xs : List Nat) : List Nat := xs.foldl appendMove cur

/-- `reversed(sorted_nodes_by_graph[graph])` as node ids -/
def bucket (u : List Ent) (out : List Nat) (gid : Nat) : List Nat :=
  (out.filterMap (fun i => u[i]?)).filter (fun e => e.gid == gid) |>.map Ent.id

/-- A Graph object reachable through two attributes (or twice in one `GRAPHS` attribute) makes
    `RecursiveGraphIterator` yield its nodes, and everything nested in them, once per path: the
    universe then lists some node twice. -/
def sharedGraph (u : List Ent) : Bool := !decide ((u.map Ent.id).Nodup)

/-- `Graph.sort()`: `none` = `ValueError` (nothing is re-linked, _core.py:4006-4008),
    `some r` = the new node order of the graph and of every nested graph.

    Shared Graph objects (`sharedGraph`): `nodes` (a list) holds the shared nodes several times,
    while `node_depth` / `node_predecessors` / `neg_node_index` (dicts keyed by node) hold them
    once.  Every duplicated node is a direct node of an attribute graph whose owner is in the
    universe, so its depth is positive and it is not in the initial queue; afterwards a node is
    pushed only when its counter reaches 0, i.e. at most once.  Hence every distinct node is
    popped at most once, `num_of_sorted_nodes <= #distinct nodes < len(nodes)`, and the cycle test
    raises `ValueError` before any re-linking.  The model returns `none` in that case.  This
    branch is a summary; the argument above is machine-checked on the line-by-line transcription
    with identity-keyed dicts (`Model/SortIds.lean`, `C12_ids_shared_raises`), and both are
    compared with the real code on generated shared-graph trees on every run.  All C12 theorems
    about successful sorts assume `WF` (distinct ids), under which this branch is dead. -/
def sortModel (g : MGraph) : Option (List (Nat × List Nat)) :=
  let u := nodesOf g
  let out := kahn u.length (predsAt u)
  if sharedGraph u then none
  else if out.length != u.length then none
  else some ((graphsOf g).map (fun gc => (gc.1, relink gc.2 (bucket u out gc.1))))

/-! ### Steps 4-5 as a sequence of effects on the node containers

`sortModel` above gives the result of a successful sort as a value.  What a caller *observes*
(also when the call raises) is the state of the node containers, which the code changes one
`graph.extend` at a time.  The effects are listed in the order the code performs them: the cycle
test (`raise`) first, then one re-link per entry of `sorted_nodes_by_graph` — a dict created from
a *set* of graphs (_core.py:4027-4029, 4113), so its iteration order is arbitrary: `order` below is
any arrangement of the graphs of the tree. -/

/-- one observable effect of steps 4-5 -/
inductive Eff where
  /-- `graph.extend(xs)` on the graph object with id `gid` (_core.py:4113) -/
  | relink (gid : Nat) (xs : List Nat)
  /-- `raise ValueError` (_core.py:4106-4108); nothing after it is executed -/
  | raise
deriving Repr, DecidableEq

/-- the effects of steps 4-5 when `sorted_nodes_by_graph` is iterated in the order `order` -/
def sortTraceIn (order : List (Nat × List Nat)) (g : MGraph) : List Eff :=
  let u := nodesOf g
  let out := kahn u.length (predsAt u)
  if sharedGraph u then [Eff.raise]
  else if out.length != u.length then [Eff.raise]
  else order.map (fun gc => Eff.relink gc.1 (bucket u out gc.1))

/-- the effects with the graphs visited in pre-order -/
def sortTrace (g : MGraph) : List Eff := sortTraceIn (graphsOf g) g

/-- one effect on the containers (`gid -> node sequence`, one entry per occurrence of a graph in
    the tree); `none` = the call raises here and the containers stay as they are at this point -/
def applyEff (st : List (Nat × List Nat)) : Eff → Option (List (Nat × List Nat))
  | .raise => none
  | .relink k xs => some (st.map (fun gc => if gc.1 = k then (gc.1, relink gc.2 xs) else gc))

/-- run the effects in order; `(raised, containers afterwards)` -/
def runEffs : List (Nat × List Nat) → List Eff → Bool × List (Nat × List Nat)
  | st, [] => (false, st)
  | st, e :: es => match applyEff st e with
    | none => (true, st)
    | some st' => runEffs st' es

/-- what a caller observes: `(raised, node order of every graph afterwards)` -/
def sortEffect (g : MGraph) : Bool × List (Nat × List Nat) := runEffs (graphsOf g) (sortTrace g)

/-! ### `TopologicalSortPass.call` (passes/common/topological_sort.py, with fix D201)

The pass records the node order of every graph-like (main graph, functions, all nested graphs),
sorts the main graph and then each function in `model.functions` order (`Function.sort` is
`self._graph.sort()`, _core.py:4814-4816, i.e. the same `sortEffect` on the function's graph) and,
when one of the sorts raises, re-extends every recorded graph with its recorded order before
re-raising. -/

/-- the sorts in sequence: `(raised, containers of every graph-like at that point)`; the graphs
    after the one that raised have not been touched -/
def passSorts : List MGraph → Bool × List (List (Nat × List Nat))
  | [] => (false, [])
  | g :: rest =>
    let e := sortEffect g
    if e.1 then (true, e.2 :: rest.map graphsOf)
    else let r := passSorts rest; (r.1, e.2 :: r.2)

/-- `for original_nodes, graph_like in zip(original_orders, graph_likes): graph_like.extend(original_nodes)` -/
def passRestore (orig cur : List (List (Nat × List Nat))) : List (List (Nat × List Nat)) :=
  List.zipWith (fun o c => List.zipWith (fun og cg => (cg.1, relink cg.2 og.2)) o c) orig cur

/-- the pass on `[main] ++ functions`: `(raised, containers of every graph-like afterwards)` -/
def passEffect (gs : List MGraph) : Bool × List (List (Nat × List Nat)) :=
  let orig := gs.map graphsOf
  let r := passSorts gs
  if r.1 then (true, passRestore orig r.2) else r

/-! ### Specification predicates

Used in the hypotheses / conclusions of the C12 theorems.  They are executable (decidable) so that
the harness can compare them, on every generated case, with its own independent reading of
"well scoped" and "already in order" on the real objects (driver command `sort.hyp`). -/

/-- `a` occurs strictly before `b` in `l` -/
def Before {α : Type} (l : List α) (a b : α) : Prop := ∃ l1 l2, l = l1 ++ a :: l2 ∧ b ∈ l2

/-- executable form of `Before` -/
def beforeB {α : Type} [DecidableEq α] : List α → α → α → Bool
  | [], _, _ => false
  | x :: t, a, b => (decide (x = a) && decide (b ∈ t)) || beforeB t a b

theorem beforeB_iff {α : Type} [DecidableEq α] (l : List α) (a b : α) :
    beforeB l a b = true ↔ Before l a b := by
  induction l with
  | nil => simp [beforeB, Before]
  | cons x t ih =>
    simp only [beforeB, Bool.or_eq_true, Bool.and_eq_true, decide_eq_true_eq, ih]
    constructor
    · rintro (⟨rfl, hb⟩ | ⟨l1, l2, rfl, hb⟩)
      · exact ⟨[], t, rfl, hb⟩
      · exact ⟨x :: l1, l2, rfl, hb⟩
    · rintro ⟨l1, l2, heq, hb⟩
      cases l1 with
      | nil => simp at heq; exact Or.inl ⟨heq.1, heq.2 ▸ hb⟩
      | cons y l1 => simp at heq; exact Or.inr ⟨l1, l2, heq.2, hb⟩

instance {α : Type} [DecidableEq α] (l : List α) (a b : α) : Decidable (Before l a b) :=
  decidable_of_iff _ (beforeB_iff l a b)

/-- **well-scoped**: a value produced by a node `x` of graph `h` is used only by nodes of `h` or
    nodes nested (at any depth) in nodes of `h` — i.e. inside the span of `h`. -/
def WellScoped (g : MGraph) : Prop :=
  ∀ h ∈ allGraphs g, ∀ x ∈ h.2, ∀ u ∈ nodesOf g, some x.id ∈ u.inputs → u ∈ entsNs h.1 h.2

/-- **already ordered** (the property's order clause for one graph `h`): whenever node `p` of `h`
    produces a value used by node `c` of `h` or by a node nested at any depth inside `c`
    (`u ∈ entsN h.1 c`, the span of `c`), `p` comes before `c` in the node sequence of `h`. -/
def OrderedG (h : MGraph) : Prop :=
  ∀ p ∈ h.2, ∀ c ∈ h.2, (∃ u ∈ entsN h.1 c, some p.id ∈ u.inputs) →
    Before (h.2.map MNode.id) p.id c.id

instance (g : MGraph) : Decidable (WellScoped g) := by unfold WellScoped; infer_instance
instance (h : MGraph) : Decidable (OrderedG h) := by unfold OrderedG; infer_instance

end IrVerif.Sort

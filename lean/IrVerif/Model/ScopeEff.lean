/-
`to_proto` as a program that MUTATES the IR: the writes that the `serialize_*` functions of
`src/onnx_ir/serde.py` perform on IR objects, at the granularity of one attribute assignment.

The vocabulary is deliberately larger than what the serializer uses: an `Effect` can be a write to any observable
slot of the extended IR model (a value's name / type-shape-doc / const_value / metadata_props / quantization
annotation, a tensor's name / payload, a node's device configurations), and `Effect.apply` implements every one
of them — so the model COULD express an impure serializer.  `writeSites` is the list of (object kind, attribute)
pairs at which serde.py's `serialize_*` functions assign to an IR object; the harness recomputes that list from
the AST of the imported `onnx_ir.serde` on every run and compares (a new write site is a broken correspondence).
At present there is exactly one: `value.const_value.name = value.name` in `serialize_graph_into`
(serde.py 1944), for every initializer that has a tensor.

`serializeEff` is the extended serializer of `Model/ScopeExt.lean` returning the proto and the log of effects in
program order; `runEffects` replays a log on a heap.
Core Lean only.
-/
import IrVerif.Model.ScopeExt
namespace IrVerif.Scope

/-- the kinds of IR objects the deep-snapshot oracle of `harness/c03.py` observes -/
inductive ObjKind where
  | value | node | graph | tensor | function | model
deriving DecidableEq, Repr, Inhabited

def ObjKind.str : ObjKind → String
  | .value => "value" | .node => "node" | .graph => "graph" | .tensor => "tensor"
  | .function => "function" | .model => "model"

/-- a place of serde.py's `serialize_*` functions where an attribute of an IR object is assigned -/
structure WriteSite where
  kind : ObjKind
  attr : String
deriving DecidableEq, Repr, Inhabited

/-- every assignment to an attribute of an IR object inside the `serialize_*` functions of serde.py -/
def writeSites : List WriteSite := [⟨.tensor, "name"⟩]

inductive Payload where
  | optName (n : Option Name)
  | info (i : Info)
  | optNat (n : Option Nat)
  | ss (m : SS)
  | optSS (m : Option SS)
  | str (s : String)
  | devs (d : List DevR)
deriving Repr, Inhabited

/-- one attribute assignment on the IR object `id` of kind `kind` -/
structure Effect where
  kind : ObjKind
  id : Nat
  attr : String
  val : Payload
deriving Repr, Inhabited

def Effect.site (e : Effect) : WriteSite := ⟨e.kind, e.attr⟩

/-- the semantics of an assignment: every observable slot of the extended model can be written -/
def Effect.apply (e : Effect) (w : WorldE) : WorldE :=
  match e.kind, e.attr, e.val with
  | .tensor, "name", .optName n => { w with st := w.st.setTensorName e.id n }
  | .tensor, "data", .str s =>
    { w with st := { w.st with tens := fun i => if i = e.id then { w.st.tens i with data := s } else w.st.tens i } }
  | .value, "name", .optName n => { w with st := w.st.modify e.id fun c => { c with name := n } }
  | .value, "info", .info i => { w with st := w.st.modify e.id fun c => { c with info := i } }
  | .value, "const_value", .optNat t => { w with st := w.st.modify e.id fun c => { c with const := t } }
  | .value, "metadata_props", .ss m => { w with ext := w.ext.setMeta e.id m }
  | .value, "quant_parameter_tensor_names", .optSS q => { w with ext := w.ext.setQuant e.id q }
  | .node, "device_configurations", .devs d => { w with ext := w.ext.setDevs e.id d }
  | _, _, _ => w

def runEffects (es : List Effect) (w : WorldE) : WorldE := es.foldl (fun w e => e.apply w) w

/-- the effect of `value.const_value.name = value.name` on tensor `t` -/
def nameWrite (tn : Nat × Option Name) : Effect := ⟨.tensor, tn.1, "name", .optName tn.2⟩

/-- `serialize_graph(graph)` as a function of the heap that returns the proto and the effects in program order -/
def serializeEff (ver : Option Int) (w : WorldE) : Except EErr (List Effect × GraphE) :=
  match serGraphE w.st.vals w.ext w.st.tdata ver w.root with
  | .error e => .error e
  | .ok (p, ws) => .ok (ws.map nameWrite, p)

end IrVerif.Scope

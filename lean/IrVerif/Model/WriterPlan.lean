/-
From the arguments of a save to the configuration of the concurrent writer (C09 on top of C07).

`planCfg` builds the configuration of the general writer model `IrVerif.WriterN` from nothing but the
arguments of `_write_external_tensors` (`src/onnx_ir/external_data.py`): the tensors (object identity,
bytes, reservation, failure flags), `max_shard_size_bytes`, `alignment`, `align_threshold`,
`max_workers`, `max_in_flight_bytes`:

* shards: `_shard_tensors` = `Layout.shardRaw` (Model/Layout.lean, C07's model);
* offsets inside every data file: the running-offset loop of `convert_tensors_to_external` =
  `Layout.computeInfos` (C07's model);
* which writer writes a file and from which start image:
  - `_ExternalDataWriter.write`: parallel iff `max_workers > 1 and len(tensors) > 1`;
  - `_write_parallel`: `open(path, "wb")` then `truncate(total_size)` with
    `total_size = max(offset + length, default=0)` (`Layout.totalSize`) BEFORE the executor exists:
    `preallocImage`;
  - `_write_serial`: `open(path, "wb")`: the empty file;
* the pool tree of the sharded path: `shard_workers = min(max_workers, len(shard_jobs))`,
  `workers_per_shard = max(1, (max_workers - shard_workers) // shard_workers)`, one driver job per shard,
  a driver runs `_write_parallel` (an inner pool, own callback lock) iff `workers_per_shard > 1` and the
  shard has more than one tensor.

Numbering: shard `j` is job `j` of pool 0 and data file `j`; inner pools are numbered 1, 2, ... and inner
jobs `S, S+1, ...` in shard order.  Only core Lean is imported (linked into `irdriver`).
-/
import IrVerif.Model.Layout
import IrVerif.Model.WriterN
namespace IrVerif.WriterN

/-- one tensor argument of the save (one use of a tensor object by one initializer) -/
structure TSpec where
  /-- identity of the Python object -/
  obj : Nat
  /-- `_reservation_bytes(tensor, length)` -/
  size : Nat
  fails : Bool
  cbFails : Bool
  /-- `tensor.tobytes()`; `nbytes` is its length (C04) -/
  data : List Nat
deriving Repr, DecidableEq, Inhabited

def TSpec.nbytes (t : TSpec) : Nat := t.data.length

/-! ### file operations of the preallocation step -/

/-- `open(path, "wb")`: whatever was there, the file is now empty -/
def openWb (_old : List Nat) : List Nat := []

/-- `file.truncate(n)`: cut, or extend with zeros (a hole reads back as zeros) -/
def truncate (f : List Nat) (n : Nat) : List Nat := f.take n ++ List.replicate (n - f.length) 0

/-- the infos of the tensors of one data file (758-766) -/
def fileInfos (al : Option Nat) (athr : Nat) (sh : List TSpec) : List Layout.Info :=
  Layout.computeInfos al athr (sh.map TSpec.nbytes)

/-- `_write_parallel` 599-606: `total_size`, `open(…, "wb")`, `truncate(total_size)`; `old` is whatever
    the path held before (nothing: the file lives in a fresh temporary directory) -/
def preallocImage (al : Option Nat) (athr : Nat) (sh : List TSpec) (old : List Nat := []) : List Nat :=
  truncate (openWb old) (Layout.totalSize (fileInfos al athr sh))

/-- pair the infos with the tensors (`zip(tensors, external_data_infos, strict=True)`), position `k`
    onwards; `jobOf k` is the job of the `k`-th tensor of the file -/
def placeZip (file : Nat) (jobOf : Nat → Nat) : Nat → List Layout.Info → List TSpec → List Tensor
  | k, inf :: infs, t :: ts =>
    { obj := t.obj, size := t.size, fails := t.fails, cbFails := t.cbFails
      job := jobOf k, file := file, off := inf.offset, data := t.data } :: placeZip file jobOf (k + 1) infs ts
  | _, _, _ => []

/-- the tensors of one data file, with the offsets of the running-offset loop (`Layout.computeInfos`) -/
def placeFile (al : Option Nat) (athr : Nat) (file : Nat) (jobOf : Nat → Nat) (sh : List TSpec) :
    List Tensor :=
  placeZip file jobOf 0 (fileInfos al athr sh) sh

/-- what the loop over the shards contributes -/
structure Parts where
  tensors : List Tensor := []
  /-- job `j` of pool 0, one per shard -/
  outer : List JobCfg := []
  /-- jobs of the inner pools -/
  inner : List JobCfg := []
  /-- inner pools -/
  pools : List PoolCfg := []
  files : List (List Nat) := []
deriving Repr, Inhabited

/-- the shard loop of `_write_external_tensors` 858-895: shard index `j`, index `st` of the shard's first
    tensor, `np` inner pools and `nj` inner jobs created so far; `S` shards in total -/
def planShards (al : Option Nat) (athr : Nat) (S wps : Nat) :
    Nat → Nat → Nat → Nat → List (List TSpec) → Parts
  | _, _, _, _, [] => {}
  | j, st, np, nj, sh :: rest =>
    if 1 < wps ∧ 1 < sh.length then
      -- the driver of this shard runs `_write_parallel`
      let r := planShards al athr S wps (j + 1) (st + sh.length) (np + 1) (nj + sh.length) rest
      { tensors := placeFile al athr j (fun k => S + nj + k) sh ++ r.tensors
        outer := ⟨0, st, some (1 + np)⟩ :: r.outer
        inner := (List.range sh.length).map (fun k => ⟨1 + np, st + k, none⟩) ++ r.inner
        pools := ⟨wps, true, (List.range sh.length).map (fun k => S + nj + k), true, some j⟩ :: r.pools
        files := preallocImage al athr sh :: r.files }
    else
      -- the driver writes the shard serially
      let r := planShards al athr S wps (j + 1) (st + sh.length) np nj rest
      { tensors := placeFile al athr j (fun _ => j) sh ++ r.tensors
        outer := ⟨0, st, none⟩ :: r.outer
        inner := r.inner
        pools := r.pools
        files := openWb [] :: r.files }

/-- number of tensor objects: largest identity + 1 -/
def nObjsOf (ts : List TSpec) : Nat := ts.foldr (fun t m => max (t.obj + 1) m) 0

/-- `_shard_tensors` (206-252) when a limit is given; one file otherwise -/
def shardsOf (ts : List TSpec) (maxShard : Option Nat) (al : Option Nat) (athr : Nat) :
    List (List TSpec) :=
  match maxShard with
  | none => [ts]
  | some m => Layout.shardRaw TSpec.nbytes m al athr ts

/-- the single-file parallel writer (`_write_parallel` of the one `_ExternalDataWriter`) -/
def planSingle (ts : List TSpec) (al : Option Nat) (athr : Nat) (workers capacity : Nat) : Cfg :=
  { capacity := max capacity 1
    nObjs := nObjsOf ts
    tensors := placeFile al athr 0 (fun k => k) ts
    pools := [⟨workers, true, List.range ts.length, false, none⟩]
    jobs := (List.range ts.length).map fun k => ⟨0, k, none⟩
    files := [preallocImage al athr ts] }

/-- the sharded path with concurrent shard drivers -/
def planSharded (ts : List TSpec) (shards : List (List TSpec)) (al : Option Nat) (athr : Nat)
    (workers capacity : Nat) : Cfg :=
  let S := shards.length
  let sw := min workers S
  let wps := max 1 ((workers - sw) / sw)
  let p := planShards al athr S wps 0 0 0 0 shards
  { capacity := max capacity 1
    nObjs := nObjsOf ts
    tensors := p.tensors
    pools := ⟨sw, false, List.range S, false, none⟩ :: p.pools
    jobs := p.outer ++ p.inner
    files := p.files }

/-- `_write_external_tensors` (785-911): the configuration of the concurrent writer, `none` when the
    save is not concurrent at all (everything is written by the calling thread) -/
def planCfg (ts : List TSpec) (maxShard : Option Nat) (al : Option Nat) (athr : Nat)
    (workers capacity : Nat) : Option Cfg :=
  let shards := shardsOf ts maxShard al athr
  if shards.length ≤ 1 then
    if 1 < workers ∧ 1 < ts.length then some (planSingle ts al athr workers capacity) else none
  else if 1 < workers then some (planSharded ts shards al athr workers capacity)
  else none

/-! ### the reservation of a tensor and what a write holds in memory (deepening round 2) -/

/-- `_core._EXTERNAL_TENSOR_COPY_CHUNK_SIZE` (`_core.py` 405) -/
def copyChunkSize : Nat := 1024 * 1024

/-- one tensor argument of the save BEFORE its reservation is computed -/
structure TArg where
  obj : Nat
  /-- `isinstance(tensor, ExternalTensor)` -/
  external : Bool
  fails : Bool
  cbFails : Bool
  /-- `tensor.tobytes()`; `info.length` = `nbytes` is its length (C04) -/
  data : List Nat
deriving Repr, DecidableEq, Inhabited

/-- `_reservation_bytes(tensor, tensor_length)` (external_data.py 378-382); `chunk` is
    `_EXTERNAL_TENSOR_COPY_CHUNK_SIZE`.  `_ByteBudget.acquire` then takes `max(nbytes, 0)`: the identity here. -/
def reservationBytes (chunk : Nat) (external : Bool) (length : Nat) : Nat :=
  if external then min length chunk else length

def TArg.spec (chunk : Nat) (a : TArg) : TSpec :=
  ⟨a.obj, reservationBytes chunk a.external a.data.length, a.fails, a.cbFails, a.data⟩

/-- the userspace copy loop of `ExternalTensor.tofile` (`_core.py` 1012-1026), taken when `copy_file_range`
    is not available / not applicable: sizes of the successive buffers `src.read(min(CHUNK, bytes_to_copy))`
    with `remaining` bytes to go (the source is long enough, every read returns what was asked; `src.read(0)`
    returns nothing and the loop raises).  `fuel` bounds the recursion. -/
def copyReads (chunk : Nat) : Nat → Nat → List Nat
  | 0, _ => []
  | fuel + 1, remaining =>
    if remaining = 0 then []
    else if min chunk remaining = 0 then []
    else min chunk remaining :: copyReads chunk fuel (remaining - min chunk remaining)

/-- bytes of a tensor held in a userspace buffer by the thread that writes it, at most: the whole
    `tobytes()` for an in-memory tensor (`file.write(tensor.tobytes())`, numpy `tofile`), ONE buffer of the copy
    loop for an ExternalTensor (nothing when the kernel copies).  Not counted: the previous buffer, which CPython
    keeps alive until the assignment `chunk = src.read(..)` has completed (finding D331). -/
def peakBytes (chunk : Nat) (a : TArg) : Nat :=
  if a.external then (copyReads chunk a.data.length a.data.length).foldr max 0 else a.data.length

/-- `planCfg` on tensor arguments whose reservations are computed by `_reservation_bytes` -/
def planArgs (chunk : Nat) (args : List TArg) (maxShard : Option Nat) (al : Option Nat) (athr : Nat)
    (workers capacity : Nat) : Option Cfg :=
  planCfg (args.map (TArg.spec chunk)) maxShard al athr workers capacity

end IrVerif.WriterN

/-
`heapq` as `Graph.sort` uses it (`heapify`, `heappush`, `heappop` on a Python list of `(negative position, node)`
pairs, src/onnx_ir/_core.py:4165-4181), transcribed from CPython's Lib/heapq.py (`_siftdown`, `_siftup`; the C
accelerator implements the same algorithm).  No two entries of the queue carry the same position
(`C12_ids_shared_raises` / `C12_ids_refines`: no node is queued twice), so the tuples are compared on their first
component only: the model keeps the keys, as natural numbers (`key = offset - position`), min-heap order.
The `while` loops run with the list length as fuel (each iteration moves `pos` strictly up resp. down).

Only core Lean is imported (linked into `irdriver`).
-/
namespace IrVerif.Sort.Heap

/-- the `while pos > startpos` loop of `_siftdown`: returns the list and the final `pos` -/
def siftdownLoop (newitem startpos : Nat) : Nat → List Nat → Nat → List Nat × Nat
  | 0, h, pos => (h, pos)
  | f + 1, h, pos =>
    if pos > startpos then
      let parentpos := (pos - 1) / 2
      let parent := h.getD parentpos 0
      if newitem < parent then siftdownLoop newitem startpos f (h.set pos parent) parentpos
      else (h, pos)
    else (h, pos)

/-- `_siftdown(heap, startpos, pos)` -/
def siftdown (h : List Nat) (startpos pos : Nat) : List Nat :=
  let newitem := h.getD pos 0
  let r := siftdownLoop newitem startpos h.length h pos
  r.1.set r.2 newitem

/-- the `while childpos < endpos` loop of `_siftup` -/
def siftupLoop (endpos : Nat) : Nat → List Nat → Nat → List Nat × Nat
  | 0, h, pos => (h, pos)
  | f + 1, h, pos =>
    let childpos := 2 * pos + 1
    if childpos < endpos then
      let rightpos := childpos + 1
      let c := if rightpos < endpos && !(h.getD childpos 0 < h.getD rightpos 0) then rightpos else childpos
      siftupLoop endpos f (h.set pos (h.getD c 0)) c
    else (h, pos)

/-- `_siftup(heap, pos)` -/
def siftup (h : List Nat) (pos : Nat) : List Nat :=
  let newitem := h.getD pos 0
  let r := siftupLoop h.length h.length h pos
  siftdown (r.1.set r.2 newitem) pos r.2

/-- `heapq.heappush(heap, item)` -/
def heappush (h : List Nat) (x : Nat) : List Nat := siftdown (h ++ [x]) 0 h.length

/-- `heapq.heappop(heap)`: `(returned item, heap afterwards)`; `none` = `IndexError` -/
def heappop (h : List Nat) : Option Nat × List Nat :=
  match h.getLast? with
  | none => (none, [])
  | some last =>
    let h' := h.dropLast
    if h'.isEmpty then (some last, []) else (some (h'.getD 0 0), siftup (h'.set 0 last) 0)

/-- `heapq.heapify(x)` -/
def heapify (x : List Nat) : List Nat := (List.range (x.length / 2)).reverse.foldl siftup x

/-- the heap invariant: `heap[(i-1)>>1] <= heap[i]` for every `i > 0` -/
def isHeap (h : List Nat) : Bool :=
  (List.range h.length).all (fun i => i == 0 || decide (h.getD ((i - 1) / 2) 0 ≤ h.getD i 0))

/-- smallest element -/
def minOf : List Nat → Option Nat
  | [] => none
  | x :: xs => match minOf xs with
    | none => some x
    | some m => some (if x ≤ m then x else m)

/-- the abstract priority queue `heapq` implements: `pop` removes one smallest key of the multiset (`none` = empty) -/
def absPop (q : List Nat) : Option Nat × List Nat :=
  match minOf q with
  | none => (none, [])
  | some m => (some m, q.erase m)

/-- a sequence of `heappush(heap, v)` (`some v`) and `heappop(heap)` (`none`) on the binary heap: what the pops
    return (`none` = IndexError) -/
def runHeap (h : List Nat) : List (Option Nat) → List (Option Nat)
  | [] => []
  | some v :: os => runHeap (heappush h v) os
  | none :: os => (heappop h).1 :: runHeap (heappop h).2 os

/-- the same sequence on the abstract priority queue -/
def runAbs (q : List Nat) : List (Option Nat) → List (Option Nat)
  | [] => []
  | some v :: os => runAbs (v :: q) os
  | none :: os => (absPop q).1 :: runAbs (absPop q).2 os

end IrVerif.Sort.Heap

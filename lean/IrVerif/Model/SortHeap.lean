/-
Steps 2-3 of `Graph.sort` (src/onnx_ir/_core.py:4186-4213) with the priority queue as it is: a Python list handled by
`heapq.heapify` / `heappop` / `heappush` (`Model/Heap.lean`, the transcription of CPython's heapq.py), instead of the
`maxKey` / `erase` of `Model/SortIds.lean`.  The queue holds the tuples `(neg_node_index[node], node)`; the model keeps
the first components, as natural numbers `len(nodes) - position` (same order as `-position`), and recovers the node of
a popped entry as `nodes[position]` (`neg_node_index[node]` is a position at which `node` stands).
`C12_heap_kahn_refines` (Props/C12.lean): for EVERY universe this loop pops the same nodes as the loop of
`Model/SortIds.lean` -- `heappop` returning the queued node with the largest position is derived, not assumed.

Only core Lean is imported (linked into `irdriver`).
-/
import IrVerif.Model.SortIds
import IrVerif.Model.Heap

namespace IrVerif.Sort

/-- identity of `nodes[i]` -/
def nodeAtPos (u : List Ent) (i : Nat) : Nat :=
  match u[i]? with
  | some e => e.id
  | none => 0

structure HState where
  depth : Nat → Int
  /-- `priority_queue`: keys `len(nodes) - position` in `heapq`'s list layout -/
  heap : List Nat
  sorted : List Nat

/-- `node_depth[p] -= 1; if node_depth[p] == 0: heapq.heappush(priority_queue, (neg_node_index[p], p))` -/
def relaxH (n : Nat) (idx : Nat → Nat) (s : (Nat → Int) × List Nat) (p : Nat) : (Nat → Int) × List Nat :=
  let d' : Nat → Int := fun x => if x = p then s.1 x - 1 else s.1 x
  if d' p = 0 then (d', Heap.heappush s.2 (n - idx p)) else (d', s.2)

/-- one iteration of `while priority_queue:`: `_, current_node = heapq.heappop(priority_queue)` ... -/
def stepH (u : List Ent) (preds : Nat → List Nat) (idx : Nat → Nat) (s : HState) : Option HState :=
  match Heap.heappop s.heap with
  | (none, _) => none
  | (some k, h') =>
    let x := nodeAtPos u (u.length - k)
    let r := (preds x).foldl (relaxH u.length idx) (s.depth, h')
    some ⟨r.1, r.2, x :: s.sorted⟩

def loopH (u : List Ent) (preds : Nat → List Nat) (idx : Nat → Nat) : Nat → HState → HState
  | 0, s => s
  | f + 1, s => match stepH u preds idx s with
    | none => s
    | some s' => loopH u preds idx f s'

/-- the state before `while priority_queue:`: `heapq.heapify(priority_queue)` on the list of step 2 -/
def kahnHeapInit (u : List Ent) : HState :=
  let d := step1 u
  ⟨d.depth, Heap.heapify ((initHeapD u d.depth (nodeIndex u)).map (fun x => u.length - x.1)), []⟩

/-- steps 1-3 -/
def kahnHeap (u : List Ent) : HState :=
  loopH u (step1 u).preds (nodeIndex u) u.length (kahnHeapInit u)

/-- `Graph.sort()` with the binary heap: `none` = `ValueError` of step 4 -/
def sortHeap (g : MGraph) : Option (List (Nat × List Nat)) :=
  let u := nodesOf g
  let s := kahnHeap u
  if s.sorted.length != u.length then none
  else some ((graphsOf g).map (fun gc => (gc.1, relink gc.2 (bucketD u s.sorted gc.1))))

end IrVerif.Sort

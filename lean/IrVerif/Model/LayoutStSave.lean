/-
Model of a whole `save_safetensors` at the level of INITIALIZER POSITIONS (property C07, third
deepening round): the declaration-ordered initializer list of the main graph and of every
subgraph (`model.graphs()`), each with name, dtype, shape, bytes and the flags the threshold split
looks at; what every position holds after `_save_file` + `_replace_tensors`; the files; what
`ir.load` of the saved model holds; the safetensors backend as a `Backend` of the sequence model;
the `finally` restore loop cut short by an asynchronous exception.

Transcribed from `src/onnx_ir/_safetensors/__init__.py`:
* 424-456 (`save_safetensors`: the values with a non-string tensor, in `model.graphs()` order; name
  checks), 458-471 (`try: _save_file; ir.save finally: restore`),
* 203-216 (`_save_file`: `nbytes < size_threshold_bytes` stays in the proto, a small external tensor
  is loaded to memory; `tensors_to_save` / `values_to_save` in declaration order),
* 220-304 (shards built and written into a temporary directory, `os.replace` of every staged file
  after the LAST shard was written, fix D432 = /repo 0e97fc5; `_IR_DTYPE_TO_SAFETENSORS_DTYPE[tensor.dtype]`
  raises `KeyError` for a dtype without table entry, i.e. COMPLEX128, while the shard dictionary of
  its shard is built: no destination file has been replaced at that point),
* 323-325 (`_replace_tensors` per written file), 140-161 (by name), 522-555 (dtype/shape migration),
and `src/onnx_ir/_io.py` 207-210 / `_safetensors/__init__.py` 468-471 (the `finally` loops).
Core Lean only.
-/
import IrVerif.Model.LayoutSt
import IrVerif.Model.LayoutSeq
namespace IrVerif.Layout
open IrVerif.TensorRepr (DType)

/-! ## Initializer positions -/

/-- one initializer value as `save_safetensors` sees it: the VALUE's name (UTF-8 bytes), the flags
    of the threshold split, and dtype / shape / `tobytes()` of the tensor it holds -/
structure StInit where
  name : List Nat
  init : Init
  dtype : DType
  shape : List Nat
  bytes : List Nat
deriving Repr, DecidableEq, Inhabited

def StInit.tensor (v : StInit) : StTensor := ⟨v.name, v.dtype, v.shape, v.bytes⟩

/-- the values `save_safetensors` (424-456) hands to `_save_file`: those holding a non-string tensor -/
def stSnapshotB (v : StInit) : Bool := v.init.hasConst && !v.init.isString

/-- `tensors_to_save` zipped with `values_to_save` (203-216), in declaration order: the entry is keyed
    by the VALUE's name (266-268) -/
def stSaved (vs : List StInit) (thr : Int) : List StTensor :=
  (splitSt thr (vs.map (·.init))).1.map fun k => (vs.getD k default).tensor

/-- a value of `values_to_save` that `_replace_tensors` did not reach keeps its tensor (cannot happen
    once the names passed the up-front check) -/
def newConstOfRecord : Option Placement → NewConst
  | some p => .external p
  | none => .same

/-- the state of every initializer position after `_save_file` (what `ir.save` serializes): the
    threshold split of `splitSt`, the RECORDS of `stReplace` over the real file images (offset =
    `begin + N + 8`), small external tensors loaded to memory -/
def unloadStV (vs : List StInit) (thr : Int) (mx : Option Nat) : List NewConst :=
  let (ext, mem) := splitSt thr (vs.map (·.init))
  let saved := stSaved vs thr
  let recs := stReplace (saved.map (·.name)) (stAssignments (stShardViewsD saved mx))
  let st := List.replicate vs.length NewConst.same
  let st := assignZip st ext (recs.map newConstOfRecord)
  assignZip st mem (mem.map fun _ => NewConst.memory)

/-- the `.safetensors` files a save moves into place (none when nothing is saved) -/
def stSaveFiles (vs : List StInit) (thr : Int) (mx : Option Nat) : List (List Nat) :=
  (stShardViewsD (stSaved vs thr) mx).map stFile

/-- the save gets past `_IR_DTYPE_TO_SAFETENSORS_DTYPE[tensor.dtype]` (269) for every tensor it saves;
    `false`: `KeyError`, raised while the shard dictionary of that tensor's shard is built; every shard
    written so far is in the temporary directory, which the `finally` (303-304) removes: no destination
    file is created or replaced, no index file is written, nothing is re-pointed by `_replace_tensors` -/
def stSaveOk (vs : List StInit) (thr : Int) : Bool := dtypesOk (stSaved vs thr)

/-- the header entry `_replace_tensors` finds under a name (`tensors[name]`, all files of the save) -/
def stEntryFor (shards : List (List StView)) (name : List Nat) : Option StEntry :=
  (shards.flatMap stEntries).find? (fun e => e.name = name)

/-- what a loaded model holds at one initializer position -/
structure Loaded where
  external : Bool
  dtype : DType
  shape : List Nat
  bytes : List Nat
deriving Repr, DecidableEq, Inhabited

/-- `ir.load` of the model `save_safetensors` wrote, position `k`: an externalised position is an
    `ExternalTensor` with the record's (file, offset, length) and the dtype / shape
    `_migrate_tensor_shape_dtype` gave it (the proto round trip of location / offset / length / dtype /
    dims is C02/C03's); every other position with a tensor is inline with the tensor's own dtype, shape
    and bytes; a value without tensor is no initializer of the saved proto -/
def stLoadedAt (vs : List StInit) (thr : Int) (mx : Option Nat) (k : Nat) : Option Loaded :=
  let v := vs.getD k default
  match (unloadStV vs thr mx)[k]? with
  | some (.external p) =>
    (stEntryFor (stShardViewsD (stSaved vs thr) mx) v.name).bind fun e =>
      (reloadedDtypeShape v.tensor e).map fun ds =>
        ⟨true, ds.1, ds.2, readAt ((stSaveFiles vs thr mx).getD p.shard []) p.offset p.length⟩
  | some _ => if v.init.hasConst then some ⟨false, v.dtype, v.shape, v.bytes⟩ else none
  | none => none

/-! ## The safetensors backend inside call sequences -/

/-- what does not change along a call sequence: name, dtype and shape of every initializer -/
structure StMeta where
  name : List Nat
  dtype : DType
  shape : List Nat
deriving Repr, DecidableEq, Inhabited

/-- the initializer list `save_safetensors` sees in a sequence state: position `k` holds a (non-string)
    tensor with the bytes it currently reads.  A position without meta entry (the lists have the same
    length in every use; this only makes the function total) is a value without tensor. -/
def stVS : List StMeta → List (Ref FileKey) → List (List Nat) → List StInit
  | _, [], _ => []
  | _, _ :: _, [] => []
  | [], r :: rs, bs :: bss =>
    ⟨[], { nbytes := bs.length, isExternal := r.isExt, hasConst := false }, default, [], bs⟩ ::
      stVS [] rs bss
  | m :: ms, r :: rs, bs :: bss =>
    ⟨m.name, { nbytes := bs.length, isExternal := r.isExt }, m.dtype, m.shape, bs⟩ :: stVS ms rs bss

/-- `save_safetensors(model, path, size_threshold_bytes=thr, max_shard_size_bytes=mx)` as a backend of
    the sequence model: the files are computed from the values READ BEFORE anything is moved into
    place (staged shards, fix D432), keyed (base, shard, shard count) -/
def stBackend (base : Nat) (thr : Int) (mx : Option Nat) (metas : List StMeta) : Backend FileKey :=
  fun refs vals =>
    let vs := stVS metas refs vals
    let files := stSaveFiles vs thr mx
    let consts := unloadStV vs thr mx
    { files := keyedFiles base files
      refs := List.zipWith (fun c bs =>
        match c with
        | .external p => .ext (base, p.shard, files.length) p.offset p.length
        | _ => .inline bs) consts vals }

/-- one call of a sequence, as the harness (and a user) writes it: both backends with their parameters -/
inductive OpSpec
  | rawSave (base : Nat) (thr : Int) (mx al : Option Nat) (athr : Nat)    -- `ir.save(external_data=)`
  | rawUnload (base : Nat) (thr : Int) (mx al : Option Nat) (athr : Nat)  -- `unload_from_model`
  | stSave (base : Nat) (thr : Int) (mx : Option Nat)                     -- `ir.save_safetensors`
  | load
  | loadToModel
  | convert (k : Nat)
deriving Repr, DecidableEq, Inhabited

def OpSpec.toOp (metas : List StMeta) : OpSpec → SeqOp FileKey
  | .rawSave base thr mx al athr => .save (rawBackend base thr mx al athr)
  | .rawUnload base thr mx al athr => .unload (rawBackend base thr mx al athr)
  | .stSave base thr mx => .save (stBackend base thr mx metas)
  | .load => .load
  | .loadToModel => .loadToModel
  | .convert k => .convertFromExternal k

/-- is this call a save that can be followed by `ir.load` -/
def OpSpec.isSave : OpSpec → Bool
  | .rawSave .. => true
  | .stSave .. => true
  | _ => false

/-! ## The restore loop and asynchronous exceptions -/

/-- The `finally` loop when an ASYNCHRONOUS exception (`KeyboardInterrupt`, an exception raised by a
    signal handler or injected with `PyThreadState_SetAsyncExc`) is delivered while it runs, after
    `n` assignments have completed.  The setter's only effect is the single attribute store
    `self._const_value = value` (`_core.py` 3418-3428), so "after `n` completed stores" covers every
    delivery point inside the loop.  `cut = none`: no asynchronous exception.  Returns the store and
    whether the `finally` block was left by an exception. -/
def restoreLoopCut (debug : Bool) (isProto : Nat → Bool) (st : Store)
    (ps : List (Nat × Option Nat)) (cut : Option Nat) : Store × Bool :=
  match cut with
  | none => restoreLoop debug isProto st ps
  | some n =>
    let r := restoreLoop debug isProto st (ps.take n)
    (r.1, r.2 || decide (n < ps.length))

/-- `saveRunChecked` with an asynchronous exception inside the `finally` loop -/
def saveRunAsync (debug : Bool) (isProto : Nat → Bool) (st : Store) (plan : SavePlan)
    (stop : Option Nat) (cut : Option Nat) : Store × Store × Bool :=
  let done := match stop with
    | none => plan.prog
    | some n => plan.prog.take n
  let mid := execSteps st done
  let r := restoreLoopCut debug isProto mid (plan.snapshot.map fun v => (v, st v)) cut
  (mid, r.1, r.2)

end IrVerif.Layout

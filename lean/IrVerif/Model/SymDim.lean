/-
Model for C16 (deepening): the glue between Python operators and expressions.

* `Dim`: a `SymbolicDim` object as its arithmetic sees it (`src/onnx_ir/_core.py` 1452-1523):
  `_value is None` (unknown dimension), a text with its lazily parsed expression `_expr`, or a text
  the parser rejects (`_expr` raises ValueError at the first use).
* `dunder` / `rdunder` / `unop`: the operator overloads `__add__ ... __neg__` (1525-1663)
  transcribed with their order of tests (`self._expr is None` first, then `isinstance(other, int)`,
  then `isinstance(other, SymbolicDim)` with `other._value is None`, else `NotImplemented`), and the
  tree each one builds.  The SymPy operators the overloads call are read by their documented
  meaning: `a // b` is `floor(a / b)`, `a % b` is `Mod(a, b)`, `Rational(1, n) * a` for `a / n`.
* `binop`: what the Python expression `x op y` does with these methods (the forward method of a
  left `SymbolicDim`, the reflected method of a right one when the left operand is an `int` or a
  foreign object; `TypeError` when the answer is `NotImplemented`).  There is no `__pow__`,
  `__abs__`, `__pos__`, `__round__`, `__divmod__`: those raise `TypeError`.
* `Dim.evaluate` (1684-1711), `Dim.freeSymbols` (1713-1721), `Dim.simplify` (1665-1682, SymPy's
  `simplify` and the printability of its result are parameters), `dimEq` / `dimHashKey`
  (1484-1497).
* `Shape.evaluate` (2030-2059, the `for` loop with `result.append`), `Shape.simplify` (2061-2075),
  `Shape.freeSymbols` (2077-2087), `Shape.isStatic` / `Shape.isDynamic` (1983-2005).

Core Lean only (linked into the `irdriver` executable).
-/
import IrVerif.Model.SymExpr
namespace IrVerif.SymExpr

/-- a `SymbolicDim` object -/
inductive Dim where
  /-- `SymbolicDim(None)` -/
  | unknown
  /-- a text the parser accepts, with the expression `_expr` -/
  | expr (e : Expr)
  /-- a text the parser rejects: every use of `_expr` raises ValueError -/
  | bad
  deriving Repr, DecidableEq, Inhabited

/-- `SymbolicDim(text)` -/
def Dim.ofText (cs : List Char) : Dim :=
  match parseChars cs with
  | some e => .expr e
  | none => .bad

/-- the other operand of an operator -/
inductive Operand where
  | int (n : Int)
  /-- `True` / `False`: an `int` for `isinstance(other, int)` (so it goes down the `int` branches of
      the overloads), but SymPy's own operators refuse it (`Symbol + True` is a TypeError raised
      inside the method); only `sympy.Rational(1, other)` of `__truediv__` reads it as 1 / 0 -/
  | bool (b : Bool)
  | dim (d : Dim)
  /-- neither `int` nor `SymbolicDim`: float, str, None, Fraction, ... -/
  | other
  deriving Repr, DecidableEq, Inhabited

/-- what a special method returns -/
inductive Out where
  | ok (d : Dim)
  /-- `return NotImplemented` -/
  | notImpl
  /-- ValueError out of the lazy parse -/
  | raised
  /-- TypeError raised INSIDE the method (SymPy refuses a bool operand); no reflected fallback -/
  | typeErr
  deriving Repr, DecidableEq, Inhabited

inductive BOp where
  | add | sub | mul | truediv | floordiv | mod | pow
  deriving Repr, DecidableEq, Inhabited

inductive UOp where
  | neg | floor | ceil | trunc
  deriving Repr, DecidableEq, Inhabited

/-- the tree `self._expr <op> other._expr` is (SymPy's `Expr.__floordiv__` is `floor(self / other)`,
    `Expr.__mod__` is `Mod(self, other)`); `pow` has no overload and is never built -/
def fwdTree : BOp → Expr → Expr → Expr
  | .add, a, b => .bin .add a b
  | .sub, a, b => .bin .sub a b
  | .mul, a, b => .bin .mul a b
  | .truediv, a, b => .bin .div a b
  | .floordiv, a, b => .un .floor (.bin .div a b)
  | .mod, a, b => .bin .mod a b
  | .pow, a, b => .bin .pow a b

/-- the tree for an `int` right operand: as `fwdTree` with the literal, except `__truediv__`,
    which multiplies by `sympy.Rational(1, other)` (line 1606) -/
def fwdTreeInt : BOp → Expr → Int → Expr
  | .truediv, a, n => .bin .mul (.bin .div (.num 1) (.num n)) a
  | o, a, n => fwdTree o a (.num n)

/-- the tree of a reflected method, `other <op> self._expr` with an `int` on the left -/
def revTree (o : BOp) (n : Int) (a : Expr) : Expr := fwdTree o (.num n) a

/-- `__add__`, `__sub__`, `__mul__`, `__truediv__`, `__floordiv__`, `__mod__` (one shape):
    `self._expr is None` is tested first (this is where a bad text raises), then `int`, then
    `SymbolicDim` (`other._value is None` before `other._expr`), else NotImplemented. -/
def dunder (o : BOp) (self : Dim) (oth : Operand) : Out :=
  match o with
  | .pow => .notImpl
  | _ =>
    match self with
    | .bad => .raised
    | .unknown => .ok .unknown
    | .expr a =>
      match oth with
      | .int n => .ok (.expr (fwdTreeInt o a n))
      /- `isinstance(True, int)`: the `int` branch; `self._expr + True` raises TypeError, but
         `sympy.Rational(1, True) * self._expr` (line 1606) is `1 * self._expr`, and
         `Rational(1, False)` is `zoo` (no finite value, like `Rational(1, 0)`) -/
      | .bool b =>
        match o with
        | .truediv => .ok (.expr (fwdTreeInt .truediv a (if b then 1 else 0)))
        | _ => .typeErr
      | .dim .unknown => .ok .unknown
      | .dim .bad => .raised
      | .dim (.expr b) => .ok (.expr (fwdTree o a b))
      | .other => .notImpl

/-- the reflected methods.  `__radd__` and `__rmul__` test `isinstance(other, int)` first and
    delegate to the forward method with the operands swapped (`int + dim` builds `dim + int`);
    `__rsub__`, `__rtruediv__`, `__rfloordiv__`, `__rmod__` test `self._expr is None` first. -/
def rdunder (o : BOp) (self : Dim) (oth : Operand) : Out :=
  match o with
  | .pow => .notImpl
  | .add | .mul =>
    match oth with
    | .int n => dunder o self (.int n)
    | .bool b => dunder o self (.bool b)
    | _ => .notImpl
  | _ =>
    match self with
    | .bad => .raised
    | .unknown => .ok .unknown
    | .expr a =>
      match oth with
      | .int n => .ok (.expr (revTree o n a))
      /- `True - self._expr` etc.: SymPy's reflected operator refuses the bool -/
      | .bool _ => .typeErr
      | _ => .notImpl

def unTree : UOp → Expr → Expr
  | .neg, a => .un .neg a
  | .floor, a => .un .floor a
  | .ceil, a => .un .ceil a
  /- `sympy.sign(e) * sympy.floor(sympy.Abs(e))` (line 1657) -/
  | .trunc, a => .bin .mul (.un .sign a) (.un .floor (.un .abs a))

/-- `__neg__`, `__floor__`, `__ceil__`, `__trunc__` -/
def unop (u : UOp) (self : Dim) : Out :=
  match self with
  | .bad => .raised
  | .unknown => .ok .unknown
  | .expr a => .ok (.expr (unTree u a))

/-- result of a Python expression -/
inductive PyRes where
  | ok (d : Dim)
  | typeError
  | valueError
  deriving Repr, DecidableEq, Inhabited

def Out.toPy : Out → PyRes
  | .ok d => .ok d
  | .notImpl => .typeError
  | .raised => .valueError
  | .typeErr => .typeError

/-- the Python expression `x op y` with a `SymbolicDim` on at least one side: a left `SymbolicDim`
    answers with its forward method (the right operand's reflected method is not consulted: for a
    `SymbolicDim` it has the same type, an `int` / foreign object knows nothing about dimensions);
    with an `int` or a foreign object on the left, its own method returns NotImplemented and the
    right dimension's reflected method answers.  No dimension at all is outside the model. -/
def binop (o : BOp) (x y : Operand) : PyRes :=
  match x, y with
  | .dim a, y => (dunder o a y).toPy
  | x, .dim b => (rdunder o b x).toPy
  | _, _ => .typeError

/-- `-x`, `math.floor(x)`, `math.ceil(x)`, `math.trunc(x)` on a `SymbolicDim` -/
def pyUnop (u : UOp) (x : Dim) : PyRes := (unop u x).toPy

/-! ## evaluate, free_symbols, simplify, equality -/

inductive EvalOut where
  /-- `return int(result)` -/
  | int (z : Int)
  /-- `return SymbolicDim(result)` -/
  | dim (d : Dim)
  | raised
  deriving Repr, DecidableEq, Inhabited

/-- `SymbolicDim.evaluate(bindings)`: substitute the bound names; an integer number comes back as
    `int`, everything else (symbols left, a non-integer rational, no finite value) as a dimension
    holding the substituted expression.

    Binding is by NAME: a symbol of the model is its name (`Expr.sym : String`), `Env` maps names to
    integers and `subst` replaces every occurrence of a bound name.  That is what the Python does
    (`_core.py` 1737-1743: the substitution map is built from `self._expr.free_symbols`, matching
    `str(symbol)` against the keys of `bindings`), and it matters because SymPy itself tells symbols
    apart by name AND assumptions: a dimension constructed from a user SymPy expression
    (`SymbolicDim(sympy.Symbol("N") + 1)`, `sympy.symbols("H W", integer=True)`: a documented
    constructor input) carries symbols that are different SymPy objects from the parser's
    `Symbol(name, integer=True, positive=True)`, even two different symbols of one name in one
    expression; `evaluate`, `free_symbols` and the printed text identify all of them by the name.
    The model therefore has no assumptions at all; the harness family `sympy-built` (SympyDimCase in
    harness/c16.py) builds such dimensions with plain / integer-only / positive-only / real /
    nonnegative symbols, alone and mixed with text-built ones, and compares `evaluate` (complete and
    partial bindings) and `Shape.evaluate` with this function on the flavour-erased program. -/
def Dim.evaluate (b : Env) : Dim → EvalOut
  | .unknown => .dim .unknown
  | .bad => .raised
  | .expr e =>
    let r := subst b e
    match eval Env.empty r with
    | some q => if q.den = 1 then .int q.num else .dim (.expr r)
    | none => .dim (.expr r)

/-- `SymbolicDim.free_symbols()`; `none` = raises -/
def Dim.freeSymbols : Dim → Option (List String)
  | .unknown => some []
  | .bad => none
  | .expr e => some (free e).eraseDups

/-- `SymbolicDim.simplify()`; `simp` is `sympy.simplify`, `printable` says whether the text of the
    simplified expression parses (the original expression is kept otherwise). `none` = raises. -/
def Dim.simplify (simp : Expr → Expr) (printable : Expr → Bool) : Dim → Option Dim
  | .unknown => some .unknown
  | .bad => none
  | .expr e => if printable (simp e) then some (.expr (simp e)) else some (.expr e)

/-- the right operand of `==` -/
inductive EqOperand where
  | dim (v : Option String)
  | str (s : String)
  | none
  | other
  deriving Repr, DecidableEq, Inhabited

/-- `SymbolicDim.__eq__` on the `_value` text -/
def dimEq (v : Option String) : EqOperand → Bool
  | .dim w => v == w
  | .str s => v == some s
  | .none => v.isNone
  | .other => false

/-- `__hash__` is `hash(self._value)`: the key that is hashed -/
def dimHashKey (v : Option String) : Option String := v

/-! ## Shape -/

inductive SDim where
  | int (n : Int)
  | dim (d : Dim)
  deriving Repr, DecidableEq, Inhabited

abbrev Shape := List SDim

/-- one dimension of `Shape.evaluate`; `none` = raises -/
def SDim.evaluate (b : Env) : SDim → Option SDim
  | .int n => some (.int n)
  | .dim d =>
    match d.evaluate b with
    | .int z => some (.int z)
    | .dim d' => some (.dim d')
    | .raised => none

/-- the loop of `Shape.evaluate`: `result.append(...)` per dimension, in order -/
def Shape.evaluateLoop (b : Env) : List SDim → List SDim → Option (List SDim)
  | acc, [] => some acc
  | acc, d :: rest =>
    match d.evaluate b with
    | some d' => Shape.evaluateLoop b (acc ++ [d']) rest
    | none => none

def Shape.evaluate (b : Env) (sh : Shape) : Option Shape := Shape.evaluateLoop b [] sh

def SDim.simplify (simp : Expr → Expr) (printable : Expr → Bool) : SDim → Option SDim
  | .int n => some (.int n)
  | .dim d => (d.simplify simp printable).map .dim

def Shape.simplifyLoop (simp : Expr → Expr) (printable : Expr → Bool) :
    List SDim → List SDim → Option (List SDim)
  | acc, [] => some acc
  | acc, d :: rest =>
    match d.simplify simp printable with
    | some d' => Shape.simplifyLoop simp printable (acc ++ [d']) rest
    | none => none

def Shape.simplify (simp : Expr → Expr) (printable : Expr → Bool) (sh : Shape) : Option Shape :=
  Shape.simplifyLoop simp printable [] sh

/-- the loop of `Shape.free_symbols`: `symbols.update(dim.free_symbols())`; `none` = raises -/
def Shape.freeLoop : List String → List SDim → Option (List String)
  | acc, [] => some acc
  | acc, .int _ :: rest => Shape.freeLoop acc rest
  | acc, .dim d :: rest =>
    match d.freeSymbols with
    | some l => Shape.freeLoop (acc ++ l) rest
    | none => none

def Shape.freeSymbols (sh : Shape) : Option (List String) :=
  (Shape.freeLoop [] sh).map List.eraseDups

def SDim.isInt : SDim → Bool
  | .int _ => true
  | .dim _ => false

/-- `Shape.is_static()` -/
def Shape.isStatic (sh : Shape) : Bool := sh.all SDim.isInt
/-- `Shape.is_dynamic()` -/
def Shape.isDynamic (sh : Shape) : Bool := !Shape.isStatic sh
/-- `Shape.is_static(i)` / `Shape.is_dynamic(i)`; `none` = IndexError -/
def Shape.isStaticAt (sh : Shape) (i : Nat) : Option Bool := (sh[i]?).map SDim.isInt
def Shape.isDynamicAt (sh : Shape) (i : Nat) : Option Bool := (sh[i]?).map (fun d => !d.isInt)

/-! ## small programs over the operators (what the harness builds through the real overloads) -/

inductive PyVal where
  | int (n : Int)
  | bool (b : Bool)
  | dim (d : Dim)
  | other
  deriving Repr, DecidableEq, Inhabited

def PyVal.toOperand : PyVal → Operand
  | .int n => .int n
  | .bool b => .bool b
  | .dim d => .dim d
  | .other => .other

inductive Prog where
  | int (n : Int)
  /-- `True` / `False` -/
  | bool (b : Bool)
  /-- `SymbolicDim(text)` -/
  | text (cs : List Char)
  /-- `SymbolicDim(None)` -/
  | unknown
  | other
  | bin (o : BOp) (x y : Prog)
  | un (u : UOp) (x : Prog)
  /-- `SymbolicDim("max(<x>, <y>)")` / `min` built from the operands' texts (the harness's way to
      reach `max` / `min`, which have no overload) -/
  | lat (isMax : Bool) (x y : Prog)
  deriving Repr, Inhabited

inductive ProgRes where
  | val (v : PyVal)
  | typeError
  | valueError
  deriving Repr, DecidableEq, Inhabited

def latTree (isMax : Bool) (a b : Expr) : Expr := .bin (if isMax then .max else .min) a b

def PyVal.asExpr : PyVal → Option Expr
  | .int n => some (.num n)
  | .dim (.expr e) => some e
  | _ => none

/-- run a program; operators with no `SymbolicDim` operand are outside the model (`typeError`) -/
def Prog.run : Prog → ProgRes
  | .int n => .val (.int n)
  | .bool b => .val (.bool b)
  | .text cs => .val (.dim (Dim.ofText cs))
  | .unknown => .val (.dim .unknown)
  | .other => .val .other
  | .bin o x y =>
    match x.run, y.run with
    | .val vx, .val vy =>
      match binop o vx.toOperand vy.toOperand with
      | .ok d => .val (.dim d)
      | .typeError => .typeError
      | .valueError => .valueError
    | .val _, r => r
    | r, _ => r
  | .un u x =>
    match x.run with
    | .val (.dim d) =>
      match pyUnop u d with
      | .ok d' => .val (.dim d')
      | .typeError => .typeError
      | .valueError => .valueError
    | .val _ => .typeError
    | r => r
  | .lat m x y =>
    match x.run, y.run with
    | .val vx, .val vy =>
      match vx.asExpr, vy.asExpr with
      | some a, some b => .val (.dim (.expr (latTree m a b)))
      | _, _ => .valueError
    | .val _, r => r
    | r, _ => r

end IrVerif.SymExpr

/-
Model of `ir.tensor(value, dtype)` on PLAIN PYTHON DATA (property C04, second deepening round):
`_convenience/_constructors.py` 26-57 (`_maybe_string_tensor`) and 131-169 (the inference chain and
`np.array(value, dtype=numpy_dtype)`), with the parts of numpy / ml_dtypes it relies on:

* shape discovery of nested sequences (`np.array`: every sequence at the same depth must have the
  same length and the same nesting below it, otherwise `ValueError: inhomogeneous shape`);
* dtype discovery when no dtype is given (bool < int64 < float64 < complex128, Python ints beyond
  int64 become uint64, beyond uint64 `object`; `None` gives `object`; text mixed with numbers gives
  a fixed-width text dtype);
* conversion of one Python scalar into one array element of a given dtype (numpy: a Python int
  must fit, a Python float is truncated by `int()` first; ml_dtypes 2/4-bit ints: a Python int goes
  through a C long and wraps, a float must fit; binary floats: round to nearest even, a Python int
  through `float()` (double rounding) except for bfloat16 which goes through a C long and float32).

A value is a tree: leaves `None`, `bool`, `int`, `float` (IEEE binary64 bit pattern), `complex`
(two bit patterns), `str`, `bytes`; inner nodes are lists / tuples.  The answer is the tensor the
call returns: a `_core.Tensor` over the numpy array (`Rep.array`), a `StringTensor`, the DEGENERATE
`Tensor` that reports STRING over an object / text array (observation D382), or the exception.
Conversions into the 8-bit and 4-bit float types of ml_dtypes (third deepening round): `encF8`,
round to nearest even from binary64 directly (a Python int through a C long and float32), with the
per-type treatment of overflow, infinity, NaN, signed zero and subnormals.  `None` converts to NaN
(numpy float / complex types), `False` (bool) or raises; text converts to its truthiness for bool and
raises `TypeError` for every ml_dtypes type; only text PARSED into the numpy int / float / complex
types stays outside (`unmodelled`).  Core Lean only; all arithmetic is on `Nat` / `Int`.
-/
import IrVerif.Model.StrTensor
namespace IrVerif.PyTensor
open IrVerif.Pack IrVerif.TensorRepr

/-! ## Python values -/

inductive Leaf where
  | none
  | bool (b : Bool)
  | int (i : Int)
  /-- a Python `float`: its IEEE binary64 bit pattern -/
  | float (bits : Nat)
  /-- a Python `complex`: the bit patterns of the real and the imaginary part -/
  | complex (re im : Nat)
  | str (s : String)
  | bytes (b : List Nat)
  deriving Repr, DecidableEq

/-- the bit patterns are 64-bit patterns, bytes are bytes -/
def Leaf.wf : Leaf → Bool
  | .float b => b < 2 ^ 64
  | .complex re im => re < 2 ^ 64 && im < 2 ^ 64
  | .bytes b => b.all (· < 256)
  | _ => true

mutual
  inductive PyVal where
    | leaf (l : Leaf)
    /-- a `list` or a `tuple` -/
    | seq (xs : PyList)
  inductive PyList where
    | nil
    | cons (x : PyVal) (xs : PyList)
end

def PyList.toList : PyList → List PyVal
  | .nil => []
  | .cons x xs => x :: xs.toList

def PyList.ofList : List PyVal → PyList
  | [] => .nil
  | x :: xs => .cons x (PyList.ofList xs)

/-! ## numpy: shape discovery, flattening, indexing -/

mutual
  /-- the shape `np.array(value)` discovers; `none`: the nesting is inhomogeneous -/
  def npShape : PyVal → Option (List Nat)
    | .leaf _ => some []
    | .seq xs =>
      match npShapes xs with
      | none => none
      | some [] => some [0]
      | some (s :: ss) => if ss.all (· == s) then some ((ss.length + 1) :: s) else none
  /-- the shapes of the items of a sequence (`none` when one of them is inhomogeneous) -/
  def npShapes : PyList → Option (List (List Nat))
    | .nil => some []
    | .cons x xs =>
      match npShape x, npShapes xs with
      | some s, some ss => some (s :: ss)
      | _, _ => none
end

mutual
  /-- the scalars in the order `np.array` assigns them (depth first = C order of the result) -/
  def leaves : PyVal → List Leaf
    | .leaf l => [l]
    | .seq xs => leavesL xs
  def leavesL : PyList → List Leaf
    | .nil => []
    | .cons x xs => leaves x ++ leavesL xs
end

/-- `value[i0][i1]...`: the scalar at a multi-index (`none`: no such item / not a scalar there) -/
def getAt : PyVal → List Nat → Option Leaf
  | .leaf l, [] => some l
  | .leaf _, _ :: _ => none
  | .seq _, [] => none
  | .seq xs, i :: is =>
    match xs.toList[i]? with
    | some x => getAt x is
    | none => none

/-! ## IEEE binary formats: round to nearest, ties to even -/

/-- bit length of a natural number (0 for 0); `fuel` bounds the recursion -/
def bitLenF : Nat → Nat → Nat
  | 0, _ => 0
  | fuel + 1, m => if m = 0 then 0 else 1 + bitLenF fuel (m / 2)

def bitLen (m : Nat) : Nat := bitLenF m m

/-- round `m * 2^e` (`m > 0`) to the binary format with `eb` exponent bits and `mb` fraction bits,
    ties to even; the magnitude bits of the result, the exponent field saturating at all-ones
    (infinity).  `q` is the exponent of the unit in the last place that applies. -/
def roundMag (eb mb : Nat) (m : Nat) (e : Int) : Nat :=
  let bias : Int := 2 ^ (eb - 1) - 1
  let qmin : Int := 1 - bias - mb
  let q : Int := max (e + bitLen m - 1 - mb) qmin
  let r : Nat :=
    if q ≤ e then m * 2 ^ (e - q).toNat
    else
      let s := (q - e).toNat
      let fl := m / 2 ^ s
      let rem := m % 2 ^ s
      let half := 2 ^ (s - 1)
      if rem > half ∨ (rem = half ∧ fl % 2 = 1) then fl + 1 else fl
  let enc := (q - qmin).toNat * 2 ^ mb + r
  min enc ((2 ^ eb - 1) * 2 ^ mb)

/-- decoded binary64: sign, and zero / finite `m * 2^e` / infinity / NaN -/
inductive F64 where
  | zero (neg : Bool)
  | fin (neg : Bool) (m : Nat) (e : Int)
  | inf (neg : Bool)
  | nan (neg : Bool)
  deriving Repr

def decode64 (b : Nat) : F64 :=
  let neg := b / 2 ^ 63 % 2 = 1
  let ex : Nat := b / 2 ^ 52 % 2 ^ 11
  let fr : Nat := b % 2 ^ 52
  if ex = 2047 then (if fr = 0 then .inf neg else .nan neg)
  else if ex = 0 then (if fr = 0 then .zero neg else .fin neg fr (-1074))
  else .fin neg (2 ^ 52 + fr) ((ex : Int) - 1075)

def decode32 (b : Nat) : F64 :=
  let neg := b / 2 ^ 31 % 2 = 1
  let ex : Nat := b / 2 ^ 23 % 2 ^ 8
  let fr : Nat := b % 2 ^ 23
  if ex = 255 then (if fr = 0 then .inf neg else .nan neg)
  else if ex = 0 then (if fr = 0 then .zero neg else .fin neg fr (-149))
  else .fin neg (2 ^ 23 + fr) ((ex : Int) - 150)

/-- narrow a decoded value into the format (`eb`, `mb`): the C cast `(float) double`, numpy's
    `npy_double_to_half`, Eigen's `float_to_bfloat16_rtne`; a NaN becomes the canonical quiet NaN
    with the sign kept (only canonical NaNs are generated) -/
def encodeF (eb mb : Nat) : F64 → Nat
  | .zero neg => if neg then 2 ^ (eb + mb) else 0
  | .fin neg m e => (if neg then 2 ^ (eb + mb) else 0) + roundMag eb mb m e
  | .inf neg => (if neg then 2 ^ (eb + mb) else 0) + (2 ^ eb - 1) * 2 ^ mb
  | .nan neg => (if neg then 2 ^ (eb + mb) else 0) + (2 ^ eb - 1) * 2 ^ mb + 2 ^ (mb - 1)

/-- an integer as a decoded value -/
def ofInt (i : Int) : F64 := if i = 0 then .zero false else .fin (i < 0) i.natAbs 0

/-- `float(i)` for a Python int: correctly rounded, `OverflowError` when the result is not finite -/
def pyFloatOfInt (i : Int) : Option Nat :=
  let b := encodeF 11 52 (ofInt i)
  if b % 2 ^ 63 ≥ 2047 * 2 ^ 52 then none else some b

/-- `int(x)` for a Python float: truncation; `ValueError` for NaN, `OverflowError` for infinity -/
def pyIntOfFloat (b : Nat) : Except String Int :=
  match decode64 b with
  | .zero _ => .ok 0
  | .nan _ => .error "ValueError"
  | .inf _ => .error "OverflowError"
  | .fin neg m e =>
    let mag : Nat := if 0 ≤ e then m * 2 ^ e.toNat else m / 2 ^ (-e).toNat
    .ok (if neg then -(mag : Int) else mag)

/-- is the Python float non-zero (NaN is) -/
def floatTruthy (b : Nat) : Bool := b % 2 ^ 63 ≠ 0

/-! ## one Python scalar into one array element -/

inductive Cast where
  | ok (x : Nat)
  | err (e : String)
  /-- outside the model -/
  | unmodelled
  deriving Repr, DecidableEq

/-- the real-valued scalar as a binary64 bit pattern (`float(x)`), for the float targets of numpy -/
def leafToF64 : Leaf → Cast
  | .bool b => .ok (if b then 0x3FF0000000000000 else 0)
  | .int i => match pyFloatOfInt i with
    | some b => .ok b
    | none => .err "OverflowError"
  | .float b => .ok b
  | .complex _ _ => .err "TypeError"
  -- `float(None)` inside numpy's setitem: NaN (the canonical quiet NaN, sign clear)
  | .none => .ok 0x7FF8000000000000
  | _ => .unmodelled

/-- the two's complement of an integer that fits the type, `OverflowError` otherwise -/
def intLo (bits : Nat) (signed : Bool) : Int := if signed then -(2 ^ (bits - 1)) else 0
def intHi (bits : Nat) (signed : Bool) : Int := if signed then 2 ^ (bits - 1) - 1 else 2 ^ bits - 1
def inRange (bits : Nat) (signed : Bool) (i : Int) : Bool := intLo bits signed ≤ i && i ≤ intHi bits signed

def fitInt (bits : Nat) (signed : Bool) (i : Int) : Cast :=
  if inRange bits signed i then .ok (wrap bits i) else .err "OverflowError"

/-- numpy integer types: `int(x)` must fit (numpy >= 2: `OverflowError` otherwise) -/
def castNpInt (bits : Nat) (signed : Bool) (l : Leaf) : Cast :=
  match l with
  | .bool b => .ok (if b then 1 else 0)
  | .int i => fitInt bits signed i
  | .float b => match pyIntOfFloat b with
    | .ok i => fitInt bits signed i
    | .error e => .err e
  | .complex _ _ => .err "TypeError"
  | .none => .err "TypeError"
  | _ => .unmodelled

/-- is the finite Python float an integer, and is it negative -/
def floatExactNeg (b : Nat) : Bool × Bool :=
  match decode64 b with
  | .fin neg m e => (if 0 ≤ e then true else m % 2 ^ (-e).toNat = 0, neg)
  | .zero neg => (true, neg)
  | .inf neg => (true, neg)
  | .nan neg => (true, neg)

/-- a non-integral float that truncates to the upper (lower) bound of the type from above (below)
    lies outside the range -/
def edgeOk (bits : Nat) (signed : Bool) (i : Int) (en : Bool × Bool) : Bool :=
  !(i == intHi bits signed && !en.1 && !en.2) && !(i == intLo bits signed && !en.1 && en.2)

/-- ml_dtypes `int4` / `uint4` / `int2` / `uint2`: a Python int goes through a C long
    (`OverflowError` beyond int64) and WRAPS; a Python float must lie in the range of the type
    (compared as a real number, BEFORE it is truncated: `1.5` does not fit `int2`, `-0.5` does not
    fit `uint4`) -/
def castMlInt (bits : Nat) (signed : Bool) (l : Leaf) : Cast :=
  match l with
  | .bool b => .ok (if b then 1 else 0)
  | .int i => if -(2 ^ 63 : Int) ≤ i ∧ i < 2 ^ 63 then .ok (wrap bits i) else .err "OverflowError"
  | .float b => match pyIntOfFloat b with
    | .ok i =>
      if edgeOk bits signed i (floatExactNeg b) then fitInt bits signed i else .err "OverflowError"
    | .error e => .err e
  | .complex _ _ => .err "TypeError"
  -- ml_dtypes: `expected number, got NoneType / str / bytes`
  | _ => .err "TypeError"

def castBool : Leaf → Cast
  | .bool b => .ok (if b then 1 else 0)
  | .int i => .ok (if i = 0 then 0 else 1)
  | .float b => .ok (if floatTruthy b then 1 else 0)
  | .complex re im => .ok (if floatTruthy re || floatTruthy im then 1 else 0)
  -- `bool(None)`, `bool(text)`: the truth value of the Python object
  | .none => .ok 0
  | .str s => .ok (if s = "" then 0 else 1)
  | .bytes b => .ok (if b = [] then 0 else 1)

/-- binary16 / binary32 / binary64 of numpy: through `float(x)`, then one narrowing -/
def castNpFloat (eb mb : Nat) (l : Leaf) : Cast :=
  match leafToF64 l with
  | .ok b => .ok (if eb = 11 then b else encodeF eb mb (decode64 b))
  | c => c

/-- bfloat16 of ml_dtypes: a Python float is narrowed to float32 and then to bfloat16 (two
    roundings); a Python int goes through a C long (`TypeError` beyond int64) and float32 -/
def castBf16 : Leaf → Cast
  | .bool b => .ok (if b then 0x3F80 else 0)
  | .int i =>
    if -(2 ^ 63 : Int) ≤ i ∧ i < 2 ^ 63 then .ok (encodeF 8 7 (decode32 (encodeF 8 23 (ofInt i))))
    else .err "TypeError"
  | .float b => .ok (encodeF 8 7 (decode32 (encodeF 8 23 (decode64 b))))
  | .complex _ _ => .err "TypeError"
  -- ml_dtypes: `expected number, got NoneType / str / bytes`
  | _ => .err "TypeError"

/-! ## the 8-bit and 4-bit float types of ml_dtypes -/

/-- round `m * 2^e` (`m > 0`) to a format with `mb` fraction bits whose smallest subnormal is
    `2^qmin`, ties to even, WITHOUT any saturation: `(exponent field) * 2^mb + fraction`, the carry
    of the rounding running into the exponent field (and beyond the largest field value) -/
def roundU (mb : Nat) (qmin : Int) (m : Nat) (e : Int) : Nat :=
  let q : Int := max (e + bitLen m - 1 - mb) qmin
  let r : Nat :=
    if q ≤ e then m * 2 ^ (e - q).toNat
    else
      let s := (q - e).toNat
      let fl := m / 2 ^ s
      let rem := m % 2 ^ s
      let half := 2 ^ (s - 1)
      if rem > half ∨ (rem = half ∧ fl % 2 = 1) then fl + 1 else fl
  (q - qmin).toNat * 2 ^ mb + r

/-- the two halves of `roundU`, named for the specification theorem `C04_pytensor_f8_halfulp`:
    the exponent `q` of the unit in the last place, and the rounded significand `r` (in units of `2^q`) -/
def roundQ (mb : Nat) (qmin : Int) (m : Nat) (e : Int) : Int := max (e + bitLen m - 1 - mb) qmin

def roundR (mb : Nat) (qmin : Int) (m : Nat) (e : Int) : Nat :=
  let q := roundQ mb qmin m e
  if q ≤ e then m * 2 ^ (e - q).toNat
  else
    let s := (q - e).toNat
    let fl := m / 2 ^ s
    let rem := m % 2 ^ s
    let half := 2 ^ (s - 1)
    if rem > half ∨ (rem = half ∧ fl % 2 = 1) then fl + 1 else fl

/-- the six narrow float types -/
inductive F8 where
  | e4m3fn | e4m3fnuz | e5m2 | e5m2fnuz | e8m0 | e2m1
  deriving Repr, DecidableEq

def sgn8 (neg : Bool) : Nat := if neg then 128 else 0

/-- `T(double)` of ml_dtypes 0.6 (`float8_internal::ConvertImpl`, no saturation flag), as observed on
    every binary16 value and on boundary binary32 / binary64 values:
    * FLOAT8E4M3FN (bias 7, no infinity, `S.1111.111` is NaN): beyond 448 after rounding, and
      infinity, become NaN with the sign kept;
    * FLOAT8E5M2 (bias 15, IEEE-like): overflow becomes infinity `0x7C`, NaN `0x7E`, sign kept;
    * FLOAT8E4M3FNUZ / FLOAT8E5M2FNUZ (bias 8 / 16; one zero, `0x80` is the only NaN): overflow,
      infinity and NaN become `0x80`; `-0.0` and every negative value that rounds to zero become `0x00`;
    * FLOAT8E8M0 (an unsigned power of two `2^(E-127)`, `0xFF` NaN): zero, negative values, infinity
      and NaN become `0xFF`; the field `E = 0` is treated like the zero / subnormal field of an IEEE
      format (everything up to `2^-127` gives `0x00`, anything above it `0x01`); a value whose
      leading bit is `2^129` or more is NaN, but a value in `[1.5 * 2^128, 2^129)` rounds up to the
      field 256, which WRAPS to `0x00` (observation D384);
    * FLOAT4E2M1 (bias 1, no infinity, no NaN): overflow and infinity SATURATE to 6.0 with the sign;
      NaN becomes `-0.0` (`0x8`), a NaN with the sign set `+0.0` (`0x0`). -/
def encF8 (k : F8) (f : F64) : Nat :=
  match k, f with
  | .e4m3fn, .zero neg => sgn8 neg
  | .e4m3fn, .fin neg m e => sgn8 neg + (if roundU 3 (-9) m e ≤ 0x7E then roundU 3 (-9) m e else 0x7F)
  | .e4m3fn, .inf neg => sgn8 neg + 0x7F
  | .e4m3fn, .nan neg => sgn8 neg + 0x7F
  | .e5m2, .zero neg => sgn8 neg
  | .e5m2, .fin neg m e => sgn8 neg + min (roundU 2 (-16) m e) 0x7C
  | .e5m2, .inf neg => sgn8 neg + 0x7C
  | .e5m2, .nan neg => sgn8 neg + 0x7E
  | .e4m3fnuz, .fin neg m e =>
    if roundU 3 (-10) m e > 0x7F then 0x80
    else if roundU 3 (-10) m e = 0 then 0 else sgn8 neg + roundU 3 (-10) m e
  | .e5m2fnuz, .fin neg m e =>
    if roundU 2 (-17) m e > 0x7F then 0x80
    else if roundU 2 (-17) m e = 0 then 0 else sgn8 neg + roundU 2 (-17) m e
  | .e4m3fnuz, .zero _ => 0
  | .e5m2fnuz, .zero _ => 0
  | .e4m3fnuz, _ => 0x80
  | .e5m2fnuz, _ => 0x80
  | .e8m0, .fin false m e => if e + bitLen m - 1 ≥ 129 then 0xFF else roundU 0 (-126) m e % 256
  | .e8m0, _ => 0xFF
  | .e2m1, .zero neg => if neg then 8 else 0
  | .e2m1, .fin neg m e => (if neg then 8 else 0) + min (roundU 1 (-1) m e) 7
  | .e2m1, .inf neg => (if neg then 8 else 0) + 7
  | .e2m1, .nan neg => if neg then 0 else 8

/-- the fields of an IEEE-like pattern with `eb` exponent bits, `mb` fraction bits and the given
    bias, without special values: sign, zero / subnormal `fr * 2^(1-bias-mb)` / normal -/
def decFields (eb mb : Nat) (bias : Int) (p : Nat) : F64 :=
  let neg := p / 2 ^ (eb + mb) % 2 = 1
  let ex : Nat := p / 2 ^ mb % 2 ^ eb
  let fr : Nat := p % 2 ^ mb
  if ex = 0 then (if fr = 0 then .zero neg else .fin neg fr (1 - bias - mb))
  else .fin neg (2 ^ mb + fr) ((ex : Int) - bias - mb)

/-- the VALUE of a bit pattern of the narrow float types, as the ONNX operator documentation (and
    the OCP 8-bit / microscaling formats) define it: the specification `encF8` is measured against
    (`C04_pytensor_f8_roundtrip`), compared with ml_dtypes' own `float(pattern)` on every run -/
def decF8 (k : F8) (p : Nat) : F64 :=
  match k with
  | .e4m3fn => if p % 128 = 0x7F then .nan (p / 128 % 2 = 1) else decFields 4 3 7 p
  | .e5m2 =>
    if p % 128 = 0x7C then .inf (p / 128 % 2 = 1)
    else if p % 128 > 0x7C then .nan (p / 128 % 2 = 1) else decFields 5 2 15 p
  | .e4m3fnuz => if p = 0x80 then .nan true else decFields 4 3 8 p
  | .e5m2fnuz => if p = 0x80 then .nan true else decFields 5 2 16 p
  | .e8m0 => if p = 0xFF then .nan false else .fin false 1 ((p : Int) - 127)
  | .e2m1 => decFields 2 1 1 p

/-- the pattern a conversion produces for the value of pattern `p`: `p` itself, except that the
    three NaNs of each sign of FLOAT8E5M2 collapse into the quiet one -/
def canonF8 (k : F8) (p : Nat) : Nat :=
  if k = .e5m2 ∧ p % 128 > 0x7C then p / 128 * 128 + 0x7E else p

def F8.bits : F8 → Nat
  | .e2m1 => 4
  | _ => 8

def F8.dtype : F8 → DType
  | .e4m3fn => .float8e4m3fn | .e4m3fnuz => .float8e4m3fnuz | .e5m2 => .float8e5m2
  | .e5m2fnuz => .float8e5m2fnuz | .e8m0 => .float8e8m0 | .e2m1 => .float4e2m1

/-- the scalars ml_dtypes accepts for its float types: bool, an int that fits a C long, float -/
def Leaf.isReal64 : Leaf → Bool
  | .bool _ => true
  | .int i => decide (-(2 ^ 63 : Int) ≤ i ∧ i < 2 ^ 63)
  | .float _ => true
  | _ => false

/-- ml_dtypes `CastToCustomFloat`: a Python float converts directly (one rounding); a Python int
    (and a bool, which is one) goes through a C long (`TypeError: expected number` beyond int64) and
    float32 (two roundings); everything else is `TypeError` -/
def castF8 (k : F8) : Leaf → Cast
  | .bool b => .ok (encF8 k (if b then .fin false 1 0 else .zero false))
  | .int i =>
    if -(2 ^ 63 : Int) ≤ i ∧ i < 2 ^ 63 then .ok (encF8 k (decode32 (encodeF 8 23 (ofInt i))))
    else .err "TypeError"
  | .float b => .ok (encF8 k (decode64 b))
  | _ => .err "TypeError"

/-- complex64 / complex128: the parts converted like floats; a real scalar gets `+0.0` -/
def castComplex (eb mb half : Nat) (l : Leaf) : Cast :=
  let part (b : Nat) : Nat := if eb = 11 then b else encodeF eb mb (decode64 b)
  match l with
  | .complex re im => .ok (part re + part im * 2 ^ half)
  -- `None` becomes NaN in BOTH parts
  | .none => .ok (part 0x7FF8000000000000 + part 0x7FF8000000000000 * 2 ^ half)
  | _ => match leafToF64 l with
    | .ok b => .ok (part b)
    | c => c

/-- `np.array(scalar, dtype=d.numpy())` for one scalar -/
def castLeaf (d : DType) (l : Leaf) : Cast :=
  match d with
  | .bool => castBool l
  | .int8 => castNpInt 8 true l | .int16 => castNpInt 16 true l
  | .int32 => castNpInt 32 true l | .int64 => castNpInt 64 true l
  | .uint8 => castNpInt 8 false l | .uint16 => castNpInt 16 false l
  | .uint32 => castNpInt 32 false l | .uint64 => castNpInt 64 false l
  | .int4 => castMlInt 4 true l | .uint4 => castMlInt 4 false l
  | .int2 => castMlInt 2 true l | .uint2 => castMlInt 2 false l
  | .float16 => castNpFloat 5 10 l
  | .float => castNpFloat 8 23 l
  | .double => castNpFloat 11 52 l
  | .bfloat16 => castBf16 l
  | .complex64 => castComplex 8 23 32 l
  | .complex128 => castComplex 11 52 64 l
  | .float8e4m3fn => castF8 .e4m3fn l
  | .float8e4m3fnuz => castF8 .e4m3fnuz l
  | .float8e5m2 => castF8 .e5m2 l
  | .float8e5m2fnuz => castF8 .e5m2fnuz l
  | .float8e8m0 => castF8 .e8m0 l
  | .float4e2m1 => castF8 .e2m1 l
  | _ => .unmodelled

/-- convert the scalars in order; the first one that fails decides -/
def castAll (d : DType) : List Leaf → Except Cast (List Nat)
  | [] => .ok []
  | l :: ls =>
    match castLeaf d l with
    | .ok x => match castAll d ls with
      | .ok xs => .ok (x :: xs)
      | .error c => .error c
    | c => .error c

/-! ## numpy: dtype discovery without a dtype -/

/-- what numpy finds for one scalar -/
inductive Kind where
  | bool | int64 | uint64 | float64 | complex128
  /-- `object` (None, Python ints beyond 64 bits) -/
  | object
  /-- a text dtype (`<U..` / `|S..`) -/
  | text
  deriving Repr, DecidableEq

def Leaf.kind : Leaf → Kind
  | .none => .object
  | .bool _ => .bool
  | .int i => if -(2 ^ 63 : Int) ≤ i ∧ i < 2 ^ 63 then .int64 else if 0 ≤ i ∧ i < 2 ^ 64 then .uint64 else .object
  | .float _ => .float64
  | .complex _ _ => .complex128
  | .str _ => .text
  | .bytes _ => .text

/-- numpy's promotion of two discovered dtypes -/
def Kind.join : Kind → Kind → Kind
  | .object, _ => .object
  | _, .object => .object
  | .text, _ => .text
  | _, .text => .text
  | .complex128, _ => .complex128
  | _, .complex128 => .complex128
  | .float64, _ => .float64
  | _, .float64 => .float64
  | .uint64, .int64 => .float64
  | .int64, .uint64 => .float64
  | .uint64, _ => .uint64
  | _, .uint64 => .uint64
  | .int64, _ => .int64
  | _, .int64 => .int64
  | .bool, .bool => .bool

/-- the dtype of `np.array(value)`: `float64` when there is no scalar at all -/
def discover : List Leaf → Kind
  | [] => .float64
  | l :: ls => ls.foldl (fun k x => k.join x.kind) l.kind

def Kind.dtype : Kind → Option DType
  | .bool => some .bool
  | .int64 => some .int64
  | .uint64 => some .uint64
  | .float64 => some .double
  | .complex128 => some .complex128
  | _ => none

/-! ## `ir.tensor` -/

inductive PyResult where
  /-- `_core.Tensor(np.array(...), dtype=d, shape=dims)`: the array-backed representation -/
  | numeric (d : DType) (dims : List Nat) (elems : List Nat)
  /-- `StringTensor` over the encoded object array -/
  | str (r : StrTensor.SRep)
  /-- a `_core.Tensor` that reports STRING over an object / text array whose elements are not the
      byte strings of a string tensor (observation D382) -/
  | degenerate (dims : Option (List Nat))
  | raised (e : String)
  | unmodelled
  deriving Repr

def Leaf.isText : Leaf → Bool
  | .str _ => true
  | .bytes _ => true
  | _ => false

def Leaf.encode : Leaf → StrTensor.Elem
  | .str s => StrTensor.utf8 s
  | .bytes b => b
  | _ => []

def PyVal.isIntLeaf : PyVal → Bool
  | .leaf (.int _) => true
  | _ => false

def PyVal.isFloatLeaf : PyVal → Bool
  | .leaf (.float _) => true
  | _ => false

/-- `leaf = value; while isinstance(leaf, Sequence) and not str/bytes and leaf: leaf = leaf[0]`
    then `isinstance(leaf, (str, bytes))` (`_constructors.py` 41-45) -/
def firstIsText : PyVal → Bool
  | .leaf l => l.isText
  | .seq .nil => false
  | .seq (.cons x _) => firstIsText x

/-- `_maybe_string_tensor` (`_constructors.py` 26-57): `none` is its `return None` -/
def maybeString (v : PyVal) (dt : Option DType) : Option StrTensor.SRep :=
  if dt.isSome && dt != some .string then none
  else if !firstIsText v && dt != some .string then none
  else
    -- array = np.array(value, dtype=object); an inhomogeneous nesting leaves lists among the elements
    match npShape v with
    | none => none
    | some dims =>
      if (leaves v).all Leaf.isText then some (.objArr ((leaves v).map Leaf.encode) dims) else none

/-- the numpy dtype chosen by the inference chain (`_constructors.py` 138-159) when no dtype is
    given: `some d` is an explicit choice, `none` leaves it to numpy; `.error` is the ValueError -/
def inferChain (v : PyVal) : Except String (Option DType) :=
  match v with
  | .seq .nil => .error "ValueError"
  | .leaf (.int _) => .ok (some .int64)
  | .leaf (.float _) => .ok (some .float)
  | .seq xs =>
    if xs.toList.all PyVal.isIntLeaf then .ok (some .int64)
    else if xs.toList.all PyVal.isFloatLeaf then .ok (some .float)
    else .ok none
  | _ => .ok none

/-- `np.array(value, dtype=d.numpy())` wrapped in `_core.Tensor(..., dtype=d)` -/
def build (v : PyVal) (d : DType) : PyResult :=
  match npShape v with
  | none => .raised "ValueError"
  | some dims =>
    match castAll d (leaves v) with
    | .ok xs => .numeric d dims xs
    | .error (.err e) => .raised e
    | .error _ => .unmodelled

/-- `ir.tensor(value, dtype=dt)` for plain Python data -/
def pyTensor (v : PyVal) (dt : Option DType) : PyResult :=
  match maybeString v dt with
  | some r => .str r
  | none =>
    match dt with
    | some .undefined => .raised "TypeError"          -- dtype.numpy()
    | some .string =>
      -- np.array(value, dtype=object) is never inhomogeneous; the Tensor reports STRING
      .degenerate (npShape v)
    | some d => build v d
    | none =>
      match inferChain v with
      | .error e => .raised e
      | .ok (some d) => build v d
      | .ok none =>
        match npShape v with
        | none => .raised "ValueError"
        | some dims =>
          match (discover (leaves v)).dtype with
          | some d => build v d
          | none => .degenerate (some dims)

/-- all scalars are Python floats -/
def allFloat (ls : List Leaf) : Bool := ls.all (fun l => match l with | .float _ => true | _ => false)

/-- all scalars are Python ints inside the int64 range -/
def allInt64 (ls : List Leaf) : Bool :=
  ls.all (fun l => match l with | .int i => decide (-(2 ^ 63 : Int) ≤ i ∧ i < 2 ^ 63) | _ => false)

def Leaf.floatBits : Leaf → Nat
  | .float b => b
  | _ => 0

def Leaf.intValue : Leaf → Int
  | .int i => i
  | _ => 0

/-- the decidable hypotheses of the inference theorems (`C04_pytensor_float_depth` third part,
    `C04_pytensor_int_depth`, `C04_pytensor_string`, `C04_pytensor_errors` second part), evaluated by
    the driver on every generated case -/
def hypNestedFloat (v : PyVal) (dt : Option DType) : Bool :=
  dt.isNone && (match npShape v with | some (_ :: _ :: _) => true | _ => false) && !(leaves v).isEmpty &&
    allFloat (leaves v)

def hypInt64 (v : PyVal) (dt : Option DType) : Bool :=
  dt.isNone && (npShape v).isSome && !(leaves v).isEmpty && allInt64 (leaves v)

def hypText (v : PyVal) (dt : Option DType) : Bool :=
  (npShape v).isSome && (leaves v).all Leaf.isText && (dt.isNone || dt == some .string) &&
    (!(leaves v).isEmpty || dt == some .string)

def hypRagged (v : PyVal) (dt : Option DType) : Bool :=
  (npShape v).isNone && dt != some .string && dt != some .undefined

/-! ## `_core.Tensor.__init__` on a numpy array with an explicit dtype: `_check_numpy_representation_type`

(`_core.py` 275-344).  The array's dtype is named by `np.dtype.name` (`"str"` / `"bytes"` stand for
any `<U..` / `|S..` dtype, every other name outside the table for a dtype ONNX does not know). -/

/-- `_NON_NUMPY_NATIVE_TYPES` (`_core.py` 87-101) -/
def nonNative (d : DType) : Bool :=
  d ∈ [DType.bfloat16, .float8e4m3fn, .float8e4m3fnuz, .float8e5m2, .float8e5m2fnuz, .float8e8m0,
       .int4, .uint4, .float4e2m1, .int2, .uint2]

/-- `DataType.from_numpy(array.dtype)` (`_enums.py` 74-106) by dtype name; `none` is the TypeError -/
def fromNumpyName (arr : String) : Option DType :=
  match DType.ofNpName arr with
  | some d => some d
  | none => if arr = "str" ∨ arr = "bytes" then some .string else none

/-- does `Tensor(array, dtype=d)` accept the array (`true`) or raise `TypeError` (`false`):
    the raw-bits forms (uint16 for BFLOAT16, uint8 for every 8-bit float -- and ANY ml_dtypes 8-bit
    float for any other --, int8 / uint8 for INT4 / INT2, uint8 for UINT4 / UINT2 / FLOAT4E2M1) or the
    type's own ml_dtypes dtype; for the numpy-native types `from_numpy(array.dtype)` must be `d` -/
def ctorAccepts (arr : String) (d : DType) : Bool :=
  if nonNative d then
    !(d.bitwidth == some 16 && !(arr ∈ ["uint16", "bfloat16"])) &&
    !(d.bitwidth == some 8 &&
        !(arr ∈ ["uint8", "float8_e4m3fnuz", "float8_e4m3fn", "float8_e5m2fnuz", "float8_e5m2", "float8_e8m0fnu"])) &&
    !(d == .int4 && !(arr ∈ ["int8", "uint8", "int4"])) &&
    !(d == .uint4 && !(arr ∈ ["uint8", "uint4"])) &&
    !(d == .float4e2m1 && !(arr ∈ ["uint8", "float4_e2m1fn"])) &&
    !(d == .int2 && !(arr ∈ ["int8", "uint8", "int2"])) &&
    !(d == .uint2 && !(arr ∈ ["uint8", "uint2"]))
  else fromNumpyName arr == some d

end IrVerif.PyTensor

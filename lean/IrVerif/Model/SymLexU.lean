/-
Model for C16 (deepening): the tokenizer of `_symbolic_shapes.py` (32-107) over ALL of Unicode.

`_ExpressionTokenizer` classifies characters with CPython's `str.isspace`, `str.isdigit`,
`str.isalpha`, `str.isalnum`, `str.isidentifier` (since the repair D440, fix commit 47a2c19: an
identifier starts on `isalpha() or '_' or isidentifier()` and continues on `isalnum() or '_' or '.'
or ("_" + ch).isidentifier()`) and reads a digit run with `int()`; `parse_symbolic_expression`
asks `str.isidentifier` of the whole text first.  Those tables are CPython's (external): here they are a parameter
`cls : Char → CClass` (and a flag for `isidentifier`), the tokenizer is transcribed over them, and
`Props/C16.lean` proves that with the ASCII classification it IS the ASCII tokenizer `tokenize` all
the C16 theorems are about.

Core Lean only.
-/
import IrVerif.Model.SymExpr
namespace IrVerif.SymExpr

/-- what the `str` predicates say about one character -/
inductive CClass where
  /-- `isspace()` -/
  | space
  /-- `isdigit()`; the value `int()` reads, `none` when `int()` refuses the character
      (superscript digits and other No digits) -/
  | digit (v : Option Nat)
  /-- starts (and continues) an identifier: `isalpha()` or `isidentifier()` (letters; letter
      numbers and the other XID_Start characters) -/
  | alpha
  /-- continues an identifier but cannot start a token: `isalnum()` or `("_" + ch).isidentifier()`
      and none of the above (vulgar fractions, combining marks, the other XID_Continue characters) -/
  | numeric
  | other
  deriving Repr, DecidableEq, Inhabited

def CClass.isSpace : CClass → Bool
  | .space => true | _ => false
def CClass.isDigit : CClass → Bool
  | .digit _ => true | _ => false
def CClass.isAlpha : CClass → Bool
  | .alpha => true | _ => false
def CClass.isAlnum : CClass → Bool
  | .alpha => true | .digit _ => true | .numeric => true | _ => false

/-- the ASCII classification (what `isSpace`, `isDigit`, `isAlpha` of Model/SymExpr.lean say) -/
def asciiClass (c : Char) : CClass :=
  if isSpace c then .space
  else if isDigit c then .digit (some (digitVal c))
  else if isAlpha c then .alpha
  else .other

/-- the digit run and `int()` of it: `none` in the first component = `int()` raises ValueError -/
def takeDigitsK (cls : Char → CClass) : Option Nat → List Char → Option Nat × List Char
  | acc, [] => (acc, [])
  | acc, c :: cs =>
    match cls c with
    | .digit v =>
      takeDigitsK cls (match acc, v with
        | some a, some d => some (a * 10 + d)
        | _, _ => none) cs
    | _ => (acc, c :: cs)

def takeIdentK (cls : Char → CClass) : List Char → List Char → List Char × List Char
  | acc, [] => (acc.reverse, [])
  | acc, c :: cs =>
    if (cls c).isAlnum || c == '_' || c == '.' then takeIdentK cls (c :: acc) cs
    else (acc.reverse, c :: cs)

/-- `get_token` until the end of the text over the classification `cls`; `none` = raises -/
def tokenizeAuxK (cls : Char → CClass) : Nat → List Char → Option (List Tok)
  | 0, _ => none
  | _ + 1, [] => some []
  | f + 1, c :: cs =>
    if (cls c).isSpace then tokenizeAuxK cls f cs
    else if (cls c).isDigit then
      match takeDigitsK cls (some 0) (c :: cs) with
      | (some n, rest) => (tokenizeAuxK cls f rest).map (Tok.num n :: ·)
      | (none, _) => none
    else if (cls c).isAlpha || c == '_' then
      let (name, rest) := takeIdentK cls [] (c :: cs)
      (tokenizeAuxK cls f rest).map (Tok.ident (String.ofList name) :: ·)
    else
      match c, cs with
      | '/', '/' :: rest => (tokenizeAuxK cls f rest).map (Tok.op .dslash :: ·)
      | '*', '*' :: rest => (tokenizeAuxK cls f rest).map (Tok.op .dstar :: ·)
      | '+', rest => (tokenizeAuxK cls f rest).map (Tok.op .plus :: ·)
      | '-', rest => (tokenizeAuxK cls f rest).map (Tok.op .minus :: ·)
      | '*', rest => (tokenizeAuxK cls f rest).map (Tok.op .star :: ·)
      | '/', rest => (tokenizeAuxK cls f rest).map (Tok.op .slash :: ·)
      | '%', rest => (tokenizeAuxK cls f rest).map (Tok.op .percent :: ·)
      | '(', rest => (tokenizeAuxK cls f rest).map (Tok.lparen :: ·)
      | ')', rest => (tokenizeAuxK cls f rest).map (Tok.rparen :: ·)
      | ',', rest => (tokenizeAuxK cls f rest).map (Tok.comma :: ·)
      | _, _ => none

def tokenizeK (cls : Char → CClass) (cs : List Char) : Option (List Tok) :=
  tokenizeAuxK cls (cs.length + 1) cs

/-- `parse_symbolic_expression` over the classification; `isIdent` is `value.isidentifier()` -/
def parseCharsK (cls : Char → CClass) (isIdent : Bool) (cs : List Char) : Option Expr :=
  if isIdent then some (.sym (String.ofList cs))
  else
    match tokenizeK cls cs with
    | some ts => parseTokens ts
    | none => none

end IrVerif.SymExpr

import IrVerif.Model.Serde
/-!
C02, scalar level: dimensions and INT / FLOAT / STRING attributes with every field TYPED, so that
what `harness/c02.py` used to do "by construction of the rendering" (int64 payloads as unbounded
JSON numbers, float32 <-> double conversion and UTF-8 decoding inside the trusted renderer) is
part of the model and under theorems (`IrVerif/Lemmas/SerdeScalar.lean`).

Proto side (what protobuf stores): `dim_value` / `i` are int64, `f` is a float32 BIT PATTERN
(`Nat < 2^32`), `s` is a list of bytes, `dim_param` / `denotation` / `doc_string` are strings;
optional fields carry their presence bit (`Option` = `HasField`).
IR side (what `_core.py` holds): Python `int` = unbounded `Int`, Python `float` = IEEE double bit
pattern (`Nat < 2^64`), Python `str` = list of code points (lone surrogates are possible), or `bytes`.

Observed on the real code (onnx 1.22.0, protobuf 7.36.1 upb, CPython 3.12, x86-64) and transcribed:
* `dim_proto.dim_value = n` / `attribute_proto.i = n` with `n` outside int64 RAISES
  `ValueError("Value out of range: n")` (no wrapping); `_capture_errors` (serde.py:99-114) re-raises it
  as `SerdeError` (a RuntimeError) `from` the ValueError.  The model's error kind is the ROOT cause.
* `attribute_proto.f = x` never raises: the double is narrowed by a C cast (IEEE round to nearest,
  ties to even; overflow gives an infinity - `struct.pack("<f")` would raise OverflowError there;
  underflow gives subnormals / signed zero); a NaN keeps sign and the top 22 payload bits and gets
  the quiet bit.  `proto.f` widens exactly; a signalling NaN gets the quiet bit (so the float32
  patterns 0x7F800001..0x7FBFFFFF / 0xFF800001..0xFFBFFFFF do NOT survive proto -> IR -> proto
  bit for bit: `quiet32`).
* `value.encode("utf-8")` raises UnicodeEncodeError for a lone surrogate; `proto.s` that is not
  UTF-8 is kept as `bytes` (serde.py:1241-1253) and written back unchanged (serde.py:2280-2291).
Only core Lean is imported (linked into `irdriver`).
-/
namespace IrVerif.Serde
open IrVerif.Proto

/-! ## int64 -/

def int64Min : Int := -9223372036854775808
def int64Max : Int := 9223372036854775807

/-- the value fits a protobuf `int64` field -/
def inInt64 (n : Int) : Bool := decide (int64Min ≤ n) && decide (n ≤ int64Max)

/-! ## dimensions (serde.py:1046-1062, 1143-1162, 2444-2493) -/

/-- `TensorShapeProto.Dimension`, every field typed: the `value` oneof (`WhichOneof("value")`:
None / `dim_value` with an int64 / `dim_param` with a string - an EMPTY `dim_param` that was
assigned is still the selected member) and the optional `denotation` with its presence bit. -/
structure DimF where
  val : DimVal
  den : Option String
deriving DecidableEq, Repr, Inhabited

/-- what protobuf can hold: `dim_value` is an int64 -/
def wfDimF (d : DimF) : Bool :=
  match d.val with
  | .value v => inInt64 v
  | _ => true

/-- one entry of `_core.Shape`: `int` (unbounded) or `SymbolicDim(str | None)`, and the
denotation `str | None` (`Shape._denotations`, _core.py:1845-1850) -/
structure IRDimF where
  dim : IRDim
  den : Option String
deriving DecidableEq, Repr, Inhabited

/-- `deserialize_dimension` serde.py:1143-1162: `value_field = proto.WhichOneof("value")`,
`denotation = _get_field(proto, "denotation")` (None unless `HasField`, serde.py:560-563) -/
def desDimF (d : DimF) : IRDimF := ⟨desDimVal d.val, d.den⟩

/-- `if denotation:` (serde.py:2481): None and the empty string write nothing -/
def normDen : Option String → Option String
  | some s => if s.isEmpty then none else some s
  | none => none

/-- `serialize_dimension_into` serde.py:2475-2493 into a fresh Dimension: the denotation first,
then `dim_proto.dim_value = dim` (ValueError outside int64) / `dim_proto.dim_param = str(dim.value)`
/ nothing for `SymbolicDim(None)` -/
def serDimC (d : IRDimF) : Except Err DimF :=
  match d.dim with
  | .int v => if inInt64 v then .ok ⟨.value v, normDen d.den⟩ else .error "ValueError"
  | .sym (some s) => .ok ⟨.param s, normDen d.den⟩
  | .sym none => .ok ⟨.unset, normDen d.den⟩

/-- the only thing the round trip changes: a `denotation` that is present but empty becomes absent -/
def normDimF (d : DimF) : DimF := { d with den := normDen d.den }

/-- forget the presence bit (the rendering convention of `Model/Proto.lean`: unset = "") -/
def DimF.toP (d : DimF) : DimP := ⟨d.val, d.den.getD ""⟩
def IRDimF.toPair (d : IRDimF) : IRDim × String := (d.dim, d.den.getD "")

abbrev ShapeF := List DimF
abbrev IRShapeF := List IRDimF

/-- `deserialize_tensor_shape` serde.py:1046-1062 -/
def desShapeF (s : ShapeF) : IRShapeF := s.map desDimF

/-- the loop of `serialize_shape_into` serde.py:2470-2472 (`tensor_type.shape.dim.add()` per
dimension, in order; the first dimension that raises aborts) -/
def serShapeC : IRShapeF → Except Err ShapeF
  | [] => .ok []
  | d :: ds => do
    let p ← serDimC d
    let ps ← serShapeC ds
    .ok (p :: ps)

/-- every `int` entry of an IR shape fits int64 -/
def irShapeInRange (s : IRShapeF) : Bool :=
  s.all fun d => match d.dim with
    | .int v => inInt64 v
    | .sym _ => true

/-! ## float32 <-> double on bit patterns -/

def f32Exp (b : Nat) : Nat := b / 2 ^ 23 % 256
def f32Man (b : Nat) : Nat := b % 2 ^ 23
def isNaN32 (b : Nat) : Bool := f32Exp b == 255 && f32Man b != 0

/-- a float32 pattern with the quiet bit (mantissa bit 22) forced on NaNs -/
def quiet32 (b : Nat) : Nat := if isNaN32 b && decide (f32Man b < 2 ^ 22) then b + 2 ^ 22 else b

/-- NaN mantissa with the quiet bit set: `p ||| 2^(w-1)` for `p < 2^w`, written arithmetically -/
def quietMan (p half : Nat) : Nat := if half ≤ p then p else p + half

/-- `proto.f` read as a Python float (C conversion float -> double, exact).  Subnormal float32
values `m * 2^-149` are normal doubles: `k = log2 m`, exponent field `874 + k`.  NaN: sign and
payload kept (shifted by 29), quiet bit set. -/
def f32ToF64 (b : Nat) : Nat :=
  let s := b / 2 ^ 31
  let e := f32Exp b
  let m := f32Man b
  if e = 255 then
    if m = 0 then s * 2 ^ 63 + 2047 * 2 ^ 52
    else s * 2 ^ 63 + 2047 * 2 ^ 52 + quietMan m (2 ^ 22) * 2 ^ 29
  else if e = 0 then
    if m = 0 then s * 2 ^ 63
    else s * 2 ^ 63 + (874 + m.log2) * 2 ^ 52 + (m - 2 ^ m.log2) * 2 ^ (52 - m.log2)
  else s * 2 ^ 63 + (e + 896) * 2 ^ 52 + m * 2 ^ 29

/-- round to nearest, ties to even, of `sig / 2^sh` -/
def rneShift (sig sh : Nat) : Nat :=
  let q := sig / 2 ^ sh
  let r := sig % 2 ^ sh
  if 2 ^ sh < 2 * r ∨ (2 * r = 2 ^ sh ∧ q % 2 = 1) then q + 1 else q

def inf32 : Nat := 255 * 2 ^ 23

/-- `attribute_proto.f = x` (C conversion double -> float under the default rounding mode).
Finite `x` with exponent field `e >= 897` are candidates for a normal float32: the 53-bit
significand is rounded to 24 bits and ADDED to `(e - 897) * 2^23`, so that a carry out of the
mantissa increments the exponent; everything at or above the pattern of infinity is infinity.
`e <= 896`: the result is subnormal (or rounds up to the least normal, the same pattern
arithmetic) - the significand is shifted by `926 - e` (`e = 0`, double subnormals: as `e = 1`
without hidden bit). -/
def f64ToF32 (x : Nat) : Nat :=
  let s := x / 2 ^ 63
  let e := x / 2 ^ 52 % 2048
  let m := x % 2 ^ 52
  if e = 2047 then
    if m = 0 then s * 2 ^ 31 + inf32
    else s * 2 ^ 31 + inf32 + quietMan (m / 2 ^ 29) (2 ^ 22)
  else if 897 ≤ e then
    let c := (e - 897) * 2 ^ 23 + rneShift (2 ^ 52 + m) 29
    s * 2 ^ 31 + (if c < inf32 then c else inf32)
  else if e = 0 then s * 2 ^ 31 + rneShift m 925
  else s * 2 ^ 31 + rneShift (2 ^ 52 + m) (926 - e)

/-! ## UTF-8 (CPython `bytes.decode("utf-8")` / `str.encode("utf-8")`, both strict) -/

def isSurrogate (c : Nat) : Bool := decide (0xD800 ≤ c) && decide (c ≤ 0xDFFF)
def isCont (b : Nat) : Bool := decide (0x80 ≤ b) && decide (b < 0xC0)

/-- one code point (`c < 0x110000`, not a surrogate) -/
def utf8Enc1 (c : Nat) : List Nat :=
  if c < 0x80 then [c]
  else if c < 0x800 then [0xC0 + c / 64, 0x80 + c % 64]
  else if c < 0x10000 then [0xE0 + c / 4096, 0x80 + c / 64 % 64, 0x80 + c % 64]
  else [0xF0 + c / 262144, 0x80 + c / 4096 % 64, 0x80 + c / 64 % 64, 0x80 + c % 64]

/-- `str.encode("utf-8")`: a lone surrogate raises UnicodeEncodeError -/
def utf8Enc : List Nat → Except Err (List Nat)
  | [] => .ok []
  | c :: cs =>
    if isSurrogate c then .error "UnicodeEncodeError" else do
      let r ← utf8Enc cs
      .ok (utf8Enc1 c ++ r)

/-- decode the first code point: `(code point, number of bytes)`; `none` = UnicodeDecodeError.
Well-formed UTF-8 (Unicode table 3-7): shortest form only, no surrogates, at most U+10FFFF. -/
def utf8Dec1 : List Nat → Option (Nat × Nat)
  | [] => none
  | b0 :: rest =>
    if b0 < 0x80 then some (b0, 1)
    else if b0 < 0xC2 then none
    else if b0 < 0xE0 then
      match rest with
      | b1 :: _ => if isCont b1 then some ((b0 - 0xC0) * 64 + (b1 - 0x80), 2) else none
      | _ => none
    else if b0 < 0xF0 then
      match rest with
      | b1 :: b2 :: _ =>
        let c := (b0 - 0xE0) * 4096 + (b1 - 0x80) * 64 + (b2 - 0x80)
        if isCont b1 && isCont b2 && decide (0x800 ≤ c) && !isSurrogate c then some (c, 3) else none
      | _ => none
    else if b0 < 0xF5 then
      match rest with
      | b1 :: b2 :: b3 :: _ =>
        let c := (b0 - 0xF0) * 262144 + (b1 - 0x80) * 4096 + (b2 - 0x80) * 64 + (b3 - 0x80)
        if isCont b1 && isCont b2 && isCont b3 && decide (0x10000 ≤ c) && decide (c ≤ 0x10FFFF)
        then some (c, 4) else none
      | _ => none
    else none

/-- `bytes.decode("utf-8")` with `fuel >= length` -/
def utf8DecFuel : Nat → List Nat → Option (List Nat)
  | _, [] => some []
  | 0, _ :: _ => none
  | fuel + 1, b :: bs =>
    match utf8Dec1 (b :: bs) with
    | none => none
    | some (c, n) => (utf8DecFuel fuel ((b :: bs).drop n)).map (c :: ·)

def utf8Dec (bs : List Nat) : Option (List Nat) := utf8DecFuel bs.length bs

/-! ## INT / FLOAT / STRING attributes (serde.py:1223-1253, 2241-2291; _core.py:5052-5090) -/

/-- the value of a STRING attribute in the IR: `str`, or `bytes` when `proto.s` was not UTF-8 -/
inductive PyStrVal where
  | str (cps : List Nat)
  | bytes (bs : List Nat)
deriving DecidableEq, Repr, Inhabited

/-- payload field of a scalar `AttributeProto` with its presence bit: `i` int64, `f` float32 bit
pattern, `s` bytes -/
inductive ScalarP where
  | int (i : Option Int)
  | float (bits : Option Nat)
  | string (s : Option (List Nat))
deriving DecidableEq, Repr, Inhabited

/-- `AttributeProto` of type INT / FLOAT / STRING without `ref_attr_name` -/
structure AttrScalarP where
  name : String
  doc : Option String
  val : ScalarP
deriving DecidableEq, Repr, Inhabited

/-- `Attr._value`: Python int / float (double bit pattern) / str or bytes -/
inductive IRScalar where
  | int (v : Int)
  | float (bits : Nat)
  | string (v : PyStrVal)
deriving DecidableEq, Repr, Inhabited

/-- `_core.Attr(name, type, value, doc_string=...)` -/
structure IRAttrScalar where
  name : String
  doc : Option String
  val : IRScalar
deriving DecidableEq, Repr, Inhabited

def wfScalarP : ScalarP → Bool
  | .int (some i) => inInt64 i
  | .float (some b) => decide (b < 2 ^ 32)
  | .string (some bs) => bs.all fun b => decide (b < 256)
  | _ => true

def wfIRScalar : IRScalar → Bool
  | .int _ => true
  | .float x => decide (x < 2 ^ 64)
  | .string (.str cps) => cps.all fun c => decide (c < 0x110000)
  | .string (.bytes bs) => bs.all fun b => decide (b < 256)

/-- `AttrInt64(name, proto.i)` (serde.py:1236-1237; an absent `i` reads as 0) -/
def desAttrInt (i : Option Int) : Int := i.getD 0

/-- `AttrFloat32(name, proto.f)` (serde.py:1238-1239; `float(value)` in `Attr.__init__`) -/
def desAttrFloat (bits : Option Nat) : Nat := f32ToF64 (bits.getD 0)

/-- `proto.s.decode("utf-8")`, on UnicodeDecodeError the bytes themselves (serde.py:1240-1253) -/
def desAttrString (s : Option (List Nat)) : PyStrVal :=
  match utf8Dec (s.getD []) with
  | some cps => .str cps
  | none => .bytes (s.getD [])

/-- `attribute_proto.i = value` serde.py:2262-2265: ValueError outside int64 -/
def serAttrIntC (n : Int) : Except Err Int := if inInt64 n then .ok n else .error "ValueError"

/-- `attribute_proto.f = value` serde.py:2266-2269: never raises -/
def serAttrFloatC (x : Nat) : Except Err Nat := .ok (f64ToF32 x)

/-- `attribute_proto.s = value.encode("utf-8")`, or the bytes unchanged (serde.py:2270-2291) -/
def serAttrStringC : PyStrVal → Except Err (List Nat)
  | .str cps => utf8Enc cps
  | .bytes bs => .ok bs

/-- `_deserialize_attribute` serde.py:1223-1253 for the three scalar types -/
def desAttrScalar (a : AttrScalarP) : IRAttrScalar :=
  { name := a.name, doc := a.doc,
    val := match a.val with
      | .int i => .int (desAttrInt i)
      | .float b => .float (desAttrFloat b)
      | .string s => .string (desAttrString s) }

/-- `serialize_attribute_into` serde.py:2241-2253 + `_fill_in_value_for_attribute` 2255-2291:
name, `if from_.doc_string:`, then the payload (always assigned, so always present afterwards) -/
def serAttrScalarC (a : IRAttrScalar) : Except Err AttrScalarP := do
  let v ← match a.val with
    | .int n => (serAttrIntC n).map fun i => ScalarP.int (some i)
    | .float x => (serAttrFloatC x).map fun b => ScalarP.float (some b)
    | .string v => (serAttrStringC v).map fun s => ScalarP.string (some s)
  .ok { name := a.name, doc := normDen a.doc, val := v }

/-- what the round trip turns a scalar attribute into: an empty `doc_string` becomes absent, an
absent payload field becomes present with its default value, a signalling NaN gets the quiet bit -/
def normAttrScalarP (a : AttrScalarP) : AttrScalarP :=
  { name := a.name, doc := normDen a.doc,
    val := match a.val with
      | .int i => .int (some (i.getD 0))
      | .float b => .float (some (quiet32 (b.getD 0)))
      | .string s => .string (some (s.getD [])) }

/-! ### consistency with the rendering of `Model/Proto.lean` (`BStr`, `AttrP`) -/

def hexDigit (n : Nat) : Char := if n < 10 then Char.ofNat (48 + n) else Char.ofNat (87 + n)
def hexOfBytes (bs : List Nat) : String := String.ofList (bs.flatMap fun b => [hexDigit (b / 16), hexDigit (b % 16)])

/-- what the trusted renderer `r_bstr` of harness/c02.py produces for these bytes: the decoded text
or the hex token.  Computed here by the model's own decoder and compared on every run. -/
def bstrOfBytes (bs : List Nat) : BStr :=
  match utf8Dec bs with
  | some cps => .utf8 (String.ofList (cps.map Char.ofNat))
  | none => .raw (hexOfBytes bs)

/-- the `AttrP` of `Model/Proto.lean` that `r_attr` renders for this attribute -/
def AttrScalarP.toAttrP (a : AttrScalarP) : AttrP :=
  match a.val with
  | .int i => .int a.name (a.doc.getD "") (i.getD 0)
  | .float b => .float a.name (a.doc.getD "") (b.getD 0)
  | .string s => .string a.name (a.doc.getD "") (bstrOfBytes (s.getD []))

end IrVerif.Serde

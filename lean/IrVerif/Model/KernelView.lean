import IrVerif.Model.Kernel
/-!
# `GraphView` on top of the IR kernel model (C01 / C06, round 4)

`GraphView` (`src/onnx_ir/_core.py:4289-4420`) is "a read-only view on a graph": its constructor stores
`tuple(inputs)`, `tuple(outputs)`, `tuple(nodes)` and a plain `dict` built from the initializers
(`self.initializers[initializer.name] = initializer`, `ValueError` for an initializer without a name) and calls no
method of any value, node or graph; its slots `inputs` / `outputs` / `initializers` are plain attributes that can be
re-assigned, and `view.initializers` is a plain `dict` (no `_check_item`, no ownership).  No `Value` / `Node` / `Graph`
record carries a reference to a view, so dropping the last reference to a view writes nothing either.

The model keeps the views NEXT TO the kernel world (`VWorld`), so that the frame can be stated as an equation on the
whole kernel world: a view operation returns the kernel world it was given (`C01_view_frame`), a kernel operation
returns the views it was given, and a history with view operations interleaved leaves the kernel world of the same
history with the view operations erased (`C01_views_erasable`).  What a view lists are object ids: "if the underlying
nodes / connections are mutated, the mutation will be reflected in all views" is the statement that the records are
read from the (one) kernel world.
-/
namespace IrVerif.Kernel

/-- one `GraphView` object: the tuples / the plain dict it stores; `alive` = a reference to it still exists -/
structure ViewS where
  inputs : List Nat := []
  outputs : List Nat := []
  inits : List (String × Nat) := []
  nodes : List Nat := []
  alive : Bool := true
  deriving DecidableEq, Repr

instance : Inhabited ViewS := ⟨{}⟩

/-- the kernel world and the views created so far (by creation index) -/
structure VWorld where
  w : World := {}
  views : List ViewS := []
  deriving DecidableEq, Repr

def VWorld.view (vw : VWorld) (i : Nat) : ViewS := lget vw.views i

/-- the public ways to create, edit and drop a view -/
inductive ViewOp where
  /-- `GraphView(inputs, outputs, nodes=…, initializers=…)` (`_core.py:4336-4363`) -/
  | newView (inputs outputs nodes inits : List Nat)
  /-- `view.inputs = (…)` (a plain slot) -/
  | setInputs (i : Nat) (vs : List Nat)
  /-- `view.outputs = (…)` -/
  | setOutputs (i : Nat) (vs : List Nat)
  /-- `view.initializers = {…}` (any plain dict) -/
  | setInits (i : Nat) (kvs : List (String × Nat))
  /-- `view.initializers[key] = v`: plain dict assignment, nothing is checked and nothing is owned -/
  | initPut (i : Nat) (key : String) (v : Nat)
  /-- `del view.initializers[key]` (`KeyError` for an absent key) -/
  | initDel (i : Nat) (key : String)
  /-- the last reference to the view goes away -/
  | drop (i : Nat)
  deriving Repr

/-- an operation on view `i` when that view exists and is alive (anything else is not expressible in Python: there is
no object to call it on; the model refuses it without touching anything) -/
def onView (vw : VWorld) (i : Nat) (f : ViewS → ViewS) : VWorld × Outcome :=
  if i < vw.views.length ∧ (vw.view i).alive = true then
    ({ vw with views := lset vw.views i (f (vw.view i)) }, .ok)
  else (vw, .raised "model")

def viewStep (vw : VWorld) : ViewOp → VWorld × Outcome
  | .newView inputs outputs nodes inits =>
    -- `if not initializer.name: raise ValueError` inside the loop that fills the new object's own dict: the object
    -- under construction is never returned, nothing else was written
    if inits.any (fun v => falsy (vw.w.val v).name) then (vw, .raised "ValueError")
    else ({ vw with views := vw.views ++
      [{ inputs := inputs, outputs := outputs, inits := initDict vw.w inits, nodes := nodes }] }, .ok)
  | .setInputs i vs => onView vw i (fun r => { r with inputs := vs })
  | .setOutputs i vs => onView vw i (fun r => { r with outputs := vs })
  | .setInits i kvs => onView vw i (fun r => { r with inits := kvs.foldl (fun d p => dictSet d p.1 p.2) [] })
  | .initPut i key v => onView vw i (fun r => { r with inits := dictSet r.inits key v })
  | .initDel i key =>
    if (lookupInit (vw.view i).inits key).isNone then
      (vw, .raised (if i < vw.views.length ∧ (vw.view i).alive = true then "KeyError" else "model"))
    else onView vw i (fun r => { r with inits := dictDel r.inits key })
  | .drop i => onView vw i (fun r => { r with alive := false })

/-- the alphabet with views: every kernel call (single or composite) and every view operation -/
inductive VOp where
  | kernel (op : AnyOp)
  | view (op : ViewOp)
  deriving Repr

def vstep (vw : VWorld) : VOp → VWorld × Outcome
  | .kernel op => ({ vw with w := (stepAny vw.w op).1 }, (stepAny vw.w op).2)
  | .view op => viewStep vw op

def runV (ops : List VOp) : VWorld := ops.foldl (fun s o => (vstep s o).1) {}

/-- the history with the view operations erased -/
def kernelOps : List VOp → List AnyOp
  | [] => []
  | .kernel op :: rest => op :: kernelOps rest
  | .view _ :: rest => kernelOps rest

end IrVerif.Kernel

/-
Transition-system model of the concurrent external-data writer of
`src/onnx_ir/external_data.py`:

* `_ByteBudget` (336-375): `inFlight`, `oversized` flag, an explicit wait set (tasks whose
  program counter is `waiting`) and `notify_all` (`wake` mapped over all tasks), so that a lost
  wake-up is expressible: a waiting task only becomes runnable again by a notify.
* `_write_tensor_with_budget_at` (400-416): reservation taken before the write, released in the
  `finally` whether or not the write raised.
* `_create_tensor_write_locks` / `_write_tensor` (419-423, 562-571): one lock per tensor *object*.
* `_write_parallel` (599-650): worker pool, FIFO work queue, futures, callback lock,
  `as_completed` + `result()`, `shutdown(wait=True, cancel_futures=True)` on error.
* `_write_external_tensors` (858-895): shard drivers (one job = the tensors of one shard written
  by `_write_serial` 573-586) sharing one budget, one callback lock and the tensor locks; futures
  are collected in submission order and the pool is shut down *without* cancelling.

Threads: the main thread and `workers` pool threads.  Pool threads are interchangeable, so an idle
pool thread has no identity in the model: the schedule labels are `main c` (the main thread;
`c` resolves which completed future `as_completed` yields), `take` (some idle pool thread dequeues
a job), `exit` (some idle pool thread leaves after shutdown), and `task i` (the pool thread that is
currently running tensor `i` performs its next step).  A schedule is any list of labels each of
which is enabled (`step` returns `some`).

Granularity: one step per blocking operation (lock acquire, condition acquire / wait, queue get,
future wait, join) and one per user-code body (callback body, tensor `tofile` body).  Releases are
non-blocking and are part of the step that precedes them.  The condition's own lock is never held
across such a point (`wait` releases it), so budget acquire / recheck / release are atomic steps.

Only core Lean is imported (linked into `irdriver`).
-/
namespace IrVerif.Writer

/-- one tensor to be written (one use of a tensor object by one initializer) -/
structure Tensor where
  /-- identity of the Python object (two entries with equal `obj` are the same object) -/
  obj : Nat
  /-- `_reservation_bytes(tensor, length)` (378-382), already `max(nbytes, 0)` -/
  size : Nat
  /-- `tofile` raises -/
  fails : Bool
  /-- the progress callback raises for this tensor -/
  cbFails : Bool
  /-- index of the job (future) this tensor belongs to -/
  job : Nat
  /-- destination file (index into `State.files`), offset and bytes -/
  file : Nat
  off : Nat
  data : List Nat
deriving Repr, DecidableEq, Inhabited

/-- `parallel`: `_write_parallel` (one job per tensor, `as_completed`, cancel on error).
    `shards`: `_write_external_tensors` 858-895 (one job per shard, futures read in order,
    `with executor` = shutdown without cancel). -/
inductive Mode
  | parallel | shards
deriving Repr, DecidableEq, Inhabited

structure Cfg where
  workers : Nat
  /-- `_ByteBudget._capacity` = `max(capacity, 1)` -/
  capacity : Nat
  /-- number of distinct tensor objects (`obj < nObjs`) -/
  nObjs : Nat
  mode : Mode
  tensors : List Tensor
  /-- first tensor index of every job; `nJobs = jobStarts.length` -/
  jobStarts : List Nat
  /-- initial file images (parallel: the preallocated zero file; shards: empty files) -/
  files : List (List Nat)
deriving Repr, Inhabited

namespace Cfg
def n (c : Cfg) : Nat := c.tensors.length
def nJobs (c : Cfg) : Nat := c.jobStarts.length
def size (c : Cfg) (i : Nat) : Nat := (c.tensors.getD i default).size
def obj (c : Cfg) (i : Nat) : Nat := (c.tensors.getD i default).obj
def fails (c : Cfg) (i : Nat) : Bool := (c.tensors.getD i default).fails
def cbFails (c : Cfg) (i : Nat) : Bool := (c.tensors.getD i default).cbFails
def job (c : Cfg) (i : Nat) : Nat := (c.tensors.getD i default).job
def file (c : Cfg) (i : Nat) : Nat := (c.tensors.getD i default).file
def off (c : Cfg) (i : Nat) : Nat := (c.tensors.getD i default).off
def data (c : Cfg) (i : Nat) : List Nat := (c.tensors.getD i default).data
/-- tensor `i` is followed by another tensor of the same job (same shard) -/
def hasNext (c : Cfg) (i : Nat) : Bool := decide (i + 1 < c.n) && (c.job (i + 1) == c.job i)
end Cfg

/-- program counter of the pool thread that runs tensor `i` (`_write_one` 630-636 /
    the loop body of `_write_serial` 578-586), or the before/after status of the tensor -/
inductive Pc
  | notStarted
  /-- about to `with self._tensor_write_locks[id(tensor)]` (`_write_tensor`): the outermost lock; the
      callback runs under it -/
  | tAcq
  /-- about to `with callback_lock` (single file) / the lock of `_locked_callback` (shards),
      holding the tensor lock -/
  | cbAcq
  /-- inside the callback, holding the tensor lock and the callback lock -/
  | cbBody
  /-- about to `budget.acquire`, holding the tensor lock -/
  | bAcq
  /-- inside `Condition.wait` (in the wait set, not notified) -/
  | waiting
  /-- notified; about to re-evaluate the `wait_for` predicate -/
  | woken
  /-- holding a reservation, inside `tensor.tofile` -/
  | write
  /-- in the `finally`: about to `budget.release`; `ok` = the write succeeded -/
  | bRel (ok : Bool)
  | done (ok : Bool)
deriving Repr, DecidableEq, Inhabited, Hashable

inductive Fut
  | pending | running | cancelled | ok | err
deriving Repr, DecidableEq, Inhabited, Hashable

inductive MainPc
  /-- about to `executor.submit` job `k` (640 / 877) -/
  | submit (k : Nat)
  /-- waiting in `as_completed` / `future.result()` (641-642 / 893-894) -/
  | collect
  /-- in `executor.shutdown(wait=True)` joining the pool threads (644 / 647 / exit of 875) -/
  | join (err : Bool)
  /-- returned to the caller (`err`: the exception reached the caller) -/
  | finished (err : Bool)
deriving Repr, DecidableEq, Inhabited, Hashable

structure State where
  main : MainPc
  /-- FIFO work queue of job ids -/
  queue : List Nat
  futs : List Fut
  /-- jobs whose future the main thread has already consumed -/
  collected : List Nat
  /-- pool threads blocked in `queue.get` -/
  idle : Nat
  /-- pool threads that have returned -/
  exited : Nat
  tasks : List Pc
  cbLock : Bool
  /-- per tensor object: lock held -/
  tLocks : List Bool
  inFlight : Nat
  oversized : Bool
  shutdown : Bool
  /-- callback log (tensor indices in call order) -/
  log : List Nat
  files : List (List Nat)
deriving Repr, DecidableEq, Inhabited, Hashable

inductive Label
  | main (c : Nat)
  | take
  | exit
  | task (i : Nat)
deriving Repr, DecidableEq, Inhabited

def init (cfg : Cfg) : State where
  main := .submit 0
  queue := []
  futs := List.replicate cfg.nJobs .pending
  collected := []
  idle := cfg.workers
  exited := 0
  tasks := List.replicate cfg.n .notStarted
  cbLock := false
  tLocks := List.replicate cfg.nObjs false
  inFlight := 0
  oversized := false
  shutdown := false
  log := []
  files := cfg.files

/-- `notify_all` on one member of the wait set -/
def wake : Pc → Pc
  | .waiting => .woken
  | p => p

/-- `file.seek(off); file.write(data)` on a file image; seeking past the end and then writing
    leaves a hole of zeros (576-577, 603-606); writing nothing changes nothing -/
def writeAt (f : List Nat) (off : Nat) (d : List Nat) : List Nat :=
  if d.isEmpty then f
  else
    let f' := f ++ List.replicate (off + d.length - f.length) 0
    f'.take off ++ d ++ f'.drop (off + d.length)

/-- `_write_tensor_at` (385-397) of tensor `i` on the file images -/
def writeTask (cfg : Cfg) (fs : List (List Nat)) (i : Nat) : List (List Nat) :=
  let t := cfg.tensors.getD i default
  fs.set t.file (writeAt (fs.getD t.file []) t.off t.data)

/-- the pool thread leaves tensor `i`: return value / exception of `_write_one` goes into the
    future (parallel), or `_write_serial` proceeds to the next tensor of the shard and only an
    exception or the end of the shard completes the future -/
def finishTask (cfg : Cfg) (s : State) (i : Nat) (ok : Bool) : State :=
  if ok && cfg.hasNext i then
    { s with tasks := (s.tasks.set i (.done ok)).set (i + 1) .tAcq }
  else
    { s with tasks := s.tasks.set i (.done ok)
             futs := s.futs.set (cfg.job i) (if ok then .ok else .err)
             idle := s.idle + 1 }

/-- `_ByteBudget.acquire` body under the condition lock (359-367), also the re-evaluation of the
    `wait_for` predicate after a wake-up: take the reservation or enter the wait set -/
def budgetTry (cfg : Cfg) (s : State) (i : Nat) : State :=
  if cfg.size i > cfg.capacity then
    if s.oversized then { s with tasks := s.tasks.set i .waiting }
    else { s with oversized := true, tasks := s.tasks.set i .write }
  else
    if s.inFlight + cfg.size i ≤ cfg.capacity then
      { s with inFlight := s.inFlight + cfg.size i, tasks := s.tasks.set i .write }
    else { s with tasks := s.tasks.set i .waiting }

/-- `_ByteBudget.release` (369-375) + exit of `with tensor lock` (564) + end of the task -/
def budgetRelease (cfg : Cfg) (s : State) (i : Nat) (ok : Bool) : State :=
  finishTask cfg
    { s with oversized := if cfg.size i > cfg.capacity then false else s.oversized
             inFlight := if cfg.size i > cfg.capacity then s.inFlight else s.inFlight - cfg.size i
             tasks := s.tasks.map wake
             tLocks := s.tLocks.set (cfg.obj i) false } i ok

def stepTask (cfg : Cfg) (s : State) (i : Nat) : Option State :=
  match s.tasks[i]? with
  | some .tAcq =>
      if s.tLocks.getD (cfg.obj i) false then none
      else some { s with tLocks := s.tLocks.set (cfg.obj i) true, tasks := s.tasks.set i .cbAcq }
  | some .cbAcq =>
      if s.cbLock then none
      else some { s with cbLock := true, tasks := s.tasks.set i .cbBody }
  | some .cbBody =>
      let s1 : State := { s with log := s.log ++ [i], cbLock := false }
      if cfg.cbFails i then
        -- the exception also leaves `with tensor lock`
        some (finishTask cfg { s1 with tLocks := s1.tLocks.set (cfg.obj i) false } i false)
      else some { s1 with tasks := s1.tasks.set i .bAcq }
  | some .bAcq => some (budgetTry cfg s i)
  | some .woken => some (budgetTry cfg s i)
  | some .write =>
      if cfg.fails i then some { s with tasks := s.tasks.set i (.bRel false) }
      else some { s with files := writeTask cfg s.files i, tasks := s.tasks.set i (.bRel true) }
  | some (.bRel ok) => some (budgetRelease cfg s i ok)
  | _ => none

/-- a future the main thread may consume now -/
def futDone (s : State) (j : Nat) : Option Bool :=
  match s.futs[j]? with
  | some .ok => some true
  | some .err => some false
  | _ => none

/-- the main thread consumed future `j` -/
def collectOne (cfg : Cfg) (s : State) (j : Nat) (ok : Bool) : State :=
  if ok then
    let col := j :: s.collected
    if col.length = cfg.nJobs then
      { s with collected := col, shutdown := true, main := .join false }
    else { s with collected := col }
  else
    match cfg.mode with
    | .parallel =>
        -- except BaseException: executor.shutdown(wait=True, cancel_futures=True) (643-645)
        { s with collected := j :: s.collected, shutdown := true, main := .join true
                 futs := s.queue.foldl (fun fs q => fs.set q .cancelled) s.futs
                 queue := [] }
    | .shards =>
        -- the exception leaves `with executor`: shutdown(wait=True), nothing cancelled (875)
        { s with collected := j :: s.collected, shutdown := true, main := .join true }

def stepMain (cfg : Cfg) (s : State) (c : Nat) : Option State :=
  match s.main with
  | .submit k =>
      if k < cfg.nJobs then
        some { s with queue := s.queue ++ [k]
                      main := if k + 1 < cfg.nJobs then .submit (k + 1) else .collect }
      else none
  | .collect =>
      match cfg.mode with
      | .parallel =>
          if s.collected.contains c then none
          else (futDone s c).map (collectOne cfg s c)
      | .shards =>
          let k := s.collected.length
          (futDone s k).map (collectOne cfg s k)
  | .join e =>
      if s.exited = cfg.workers then some { s with main := .finished e } else none
  | .finished _ => none

def step (cfg : Cfg) (s : State) : Label → Option State
  | .main c => stepMain cfg s c
  | .take =>
      match s.queue with
      | [] => none
      | j :: q =>
          if s.idle = 0 then none
          else some { s with queue := q, idle := s.idle - 1
                             futs := s.futs.set j .running
                             tasks := s.tasks.set (cfg.jobStarts.getD j 0) .tAcq }
  | .exit =>
      if s.queue.isEmpty && s.shutdown && decide (s.idle > 0) then
        some { s with idle := s.idle - 1, exited := s.exited + 1 }
      else none
  | .task i => stepTask cfg s i

def terminal (s : State) : Bool :=
  match s.main with
  | .finished _ => true
  | _ => false

/-- run a schedule; `none` when some label is not enabled -/
def run (cfg : Cfg) (s : State) : List Label → Option State
  | [] => some s
  | l :: ls => match step cfg s l with
    | none => none
    | some s' => run cfg s' ls

/-- states reachable from `init` by any schedule -/
inductive Reachable (cfg : Cfg) : State → Prop
  | init : Reachable cfg (init cfg)
  | step {s s' : State} (l : Label) : Reachable cfg s → step cfg s l = some s' → Reachable cfg s'

/-- the image a serial save produces: every tensor written in index order -/
def serialFiles (cfg : Cfg) : List (List Nat) :=
  (List.range cfg.n).foldl (writeTask cfg) cfg.files

/-- decidable well-formedness of a configuration (see `WF` in Lemmas/WriterInv.lean) -/
def wfb (cfg : Cfg) : Bool :=
  decide (0 < cfg.workers) && decide (0 < cfg.nJobs) &&
  (List.range cfg.nJobs).all (fun j =>
    decide (cfg.jobStarts.getD j 0 < cfg.n) && decide (cfg.job (cfg.jobStarts.getD j 0) = j) &&
    (List.range (cfg.jobStarts.getD j 0)).all (fun i => decide (cfg.job i ≠ j))) &&
  (List.range cfg.n).all (fun i => decide (cfg.job i < cfg.nJobs) && decide (cfg.obj i < cfg.nObjs)) &&
  (List.range cfg.n).all (fun k => (List.range k).all (fun i =>
    decide (cfg.job k = cfg.job i → cfg.job (i + 1) = cfg.job i)))

/-- decidable layout condition (see `Layout` in Lemmas/WriterFiles.lean): every tensor goes to an
    existing file and the byte ranges of different tensors in one file are disjoint -/
def layoutb (cfg : Cfg) : Bool :=
  (List.range cfg.n).all (fun i => decide (cfg.file i < cfg.files.length)) &&
  (List.range cfg.n).all (fun i => (List.range cfg.n).all (fun j =>
    decide (i ≠ j → cfg.file i = cfg.file j →
      cfg.off i + (cfg.data i).length ≤ cfg.off j ∨ cfg.off j + (cfg.data j).length ≤ cfg.off i)))

/-- all candidate labels of a configuration (for enumeration) -/
def labels (cfg : Cfg) : List Label :=
  (List.range (max cfg.nJobs 1)).map .main ++ [.take, .exit] ++ (List.range cfg.n).map .task

def enabled (cfg : Cfg) (s : State) : List Label :=
  (labels cfg).filter fun l => (step cfg s l).isSome

/-- decidable form of `Prealloc` (Lemmas/Writer*Files.lean): the initial images are all zeros
    and not longer than the largest end -/
def preallocb (cfg : Cfg) : Bool :=
  cfg.files.all (fun f => f.all (fun b => b == 0)) &&
  (List.range cfg.files.length).all (fun φ => (cfg.files.getD φ []).isEmpty ||
    (List.range cfg.n).any (fun i => decide (cfg.file i = φ) && !(cfg.data i).isEmpty &&
      decide ((cfg.files.getD φ []).length = cfg.off i + (cfg.data i).length)))

end IrVerif.Writer

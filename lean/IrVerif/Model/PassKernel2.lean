import IrVerif.Model.PassKernel
/-!
# Model/PassKernel2.lean - four more built-in passes as programs over C01's kernel (property C14, wave 5)

`CommonSubexpressionEliminationPass`, `LiftConstantsToInitializersPass`, `LiftSubgraphInitializersToMainGraphPass`
and `DeduplicateInitializersPass` / `DeduplicateHashedInitializersPass` written the way Model/PassKernel.lean writes
the first five: every mutation is a call of a public mutator or constructor that C01's kernel models
(`Value(name=...)`, `Value.const_value = t`, `Node(...)`, `graph.outputs[i] = v`, `graph.insert_before`,
`Value.name = ...`, `convenience.replace_all_uses_with`, `Value.replace_all_uses_with`, `Graph.remove(safe=True)`,
`graph.register_initializer`, `graph.initializers.pop`), decided by reading the CURRENT world (uses, flags, node
sequences, initializer dictionaries, names, attribute keys).

What these passes decide from data that is NOT part of C01's world - attribute values, tensor contents, tensor
sizes - enters as a parameter of the program (an arbitrary function; the theorems quantify over it, the harness reads
it off the real objects): the class of a node's (domain, overload, attribute values) for CSE, `tensor.size >= limit`
and 'the tensor carries the name of the initializer' for LiftConstants, the class of (dtype, shape, bytes) resp. of
(dtype, shape, sha512 digest) of an initializer for the two Deduplicate passes.  Each program also returns the
`modified` flag (resp. the count it is derived from).  Core Lean only.
-/
namespace IrVerif.PassKernel
open IrVerif.Kernel

/-! ## CommonSubexpressionEliminationPass (common_subexpression_elimination.py 40-234): the main graph, top level -/

/-- `_is_non_deterministic_op` (the domain of every node of the kernel world is "") -/
def cseNonDet (op : String) : Bool :=
  ["RandomUniform", "RandomNormal", "RandomUniformLike", "RandomNormalLike", "Multinomial", "Bernoulli"].contains op

/-- `node_info`: operator (op type + the class `akey` of domain, overload and attribute values), number of outputs,
    identities of the inputs -/
structure CseKey where
  op : String
  akey : Nat
  nout : Nat
  ins : List (Option Nat)
  deriving DecidableEq, Repr

/-- `existing_node_info_to_the_node` -/
abbrev CseDict := List (CseKey × Nat)

def cseLookup (d : CseDict) (k : CseKey) : Option Nat := (d.find? (fun p => decide (p.1 = k))).map (·.2)

/-- the loop over `enumerate(graph.outputs)` of `_remove_node_and_replace_values` (lines 173-215).  The second
    component is the dictionary `replaced`.  `dict(zip(remove_values, new_values))`: the last pair of a key wins. -/
def cseOutputsK (s : KSt) (g n : Nat) (rvs nvs : List Nat) : KSt :=
  ((enumFrom 0 (s.w.gr g).outputs).foldl (fun (p : KSt × List (Nat × Nat)) (io : Nat × Nat) =>
    if p.1.raised then p
    else
      match p.2.find? (fun q => q.1 = io.2) with
      | some q => (p.1.call (.one (.io g .out (.setItem (Int.ofNat io.1) q.2))), p.2)
      | none =>
        match (rvs.zip nvs).reverse.find? (fun q => q.1 = io.2) with
        | none => p
        | some q =>
          if (p.1.w.val q.2).isOut || (p.1.w.val q.2).isIn then
            -- `ir.Value(name=graph_output.name, ...)` is built first (an argument), then `ir.node("Identity", ...)`
            let v := p.1.w.vals.length
            let m := p.1.w.nodes.length
            let s1 := p.1.call (.one (.newValue (p.1.w.val io.2).name))
            let s2 := s1.call (.one (.newNode "Identity" none [some q.2] none (some [v]) none))
            let s3 := s2.call (.one (.io g .out (.setItem (Int.ofNat io.1) v)))
            (s3.call (.one (.insertBefore g n [m])), (io.2, v) :: p.2)
          else
            let s1 := p.1.call (.one (.setName q.2 (p.1.w.val io.2).name))
            (s1.call (.one (.io g .out (.setItem (Int.ofNat io.1) q.2))), (io.2, q.2) :: p.2)) (s, [])).1

/-- `_remove_node_and_replace_values`: graph outputs first (only when a removed value is a graph output), then
    `convenience.replace_all_uses_with(remove_values, new_values)` (graph outputs are not replaced there), then
    `graph.remove(remove_node, safe=True)` -/
def cseReplaceK (exact : Bool) (s : KSt) (g n : Nat) (rvs nvs : List Nat) : KSt :=
  let s1 := if rvs.any (fun v => (s.w.val v).isOut) then cseOutputsK s g n rvs nvs else s
  let s2 := s1.call (.conv (if exact then .rauwManyExact rvs nvs false else .rauwMany rvs nvs false))
  s2.call (.one (.remove g [n] true))

/-- one node of `for node in graph` (lines 64-149).  `akey n = none`: the node holds a graph attribute or a tensor
    larger than `size_limit` (skipped); `some c`: the class of its domain, overload and attribute values. -/
def cseStepK (exact : Bool) (akey : Nat → Option Nat) (g : Nat) (p : KSt × CseDict × Bool) (n : Nat) :
    KSt × CseDict × Bool :=
  if p.1.raised then p
  else
    match akey n with
    | none => p
    | some a =>
      if cseNonDet (p.1.w.node n).opType then p
      else
        let key : CseKey := ⟨(p.1.w.node n).opType, a, (p.1.w.node n).outputs.length, (p.1.w.node n).inputs⟩
        match cseLookup p.2.1 key with
        | some e => (cseReplaceK exact p.1 g n (p.1.w.node n).outputs (p.1.w.node e).outputs, p.2.1, true)
        | none => (p.1, p.2.1 ++ [(key, n)], p.2.2)

/-- `CommonSubexpressionEliminationPass.call`: the node sequence of the main graph is walked as a snapshot (the only
    node of it the pass removes during the walk is the current one; the Identity nodes it inserts come before the
    current node and are not visited).  Returns the final state and `modified`. -/
def cseModelK (exact : Bool) (akey : Nat → Option Nat) (w : World) (g : Nat) : KSt × Bool :=
  let r := (w.gr g).nodes.foldl (cseStepK exact akey g) (⟨w, false, []⟩, [], false)
  (r.1, r.2.2)

/-! ## LiftConstantsToInitializersPass (constant_manipulation.py 24-140) -/

/-- `_constant_node_attribute_to_tensor` as far as the attribute NAME decides: `none` = `raise ValueError`
    (unsupported attribute), `some false` = `return None` (not `value` and not `lift_all_constants`) -/
def lcAttr (liftAll : Bool) (attr : String) : Option Bool :=
  if !liftAll && attr != "value" then some false
  else if ["value", "value_int", "value_ints", "value_float", "value_floats", "value_string", "value_strings"].contains attr
    then some true
  else none

/-- one node of the walk (lines 41-84).  `big n`: the tensor made from the attribute has `size >= size_limit`;
    `tnamed n`: that tensor carries the name of the new initializer (always so for the tensors the pass builds from
    `value_int` ...; for `value` it is whatever the attribute's tensor is called - the harness generates `None` or the
    output's name).  `Value(name=nm, const_value=t)` with `t` named `nm` is written
    `Value(); .const_value = t'; .name = nm` (same world: a value without owner, its tensor named `nm`).
    The second component counts the lifted constants. -/
def lcNodeK (liftAll : Bool) (big tnamed : Nat → Bool) (p : KSt × Nat) (n : Nat) : KSt × Nat :=
  if p.1.raised then p
  else
    match (p.1.w.node n).graph with
    | none => (p.1.fail, p.2)
    | some g =>
      if (p.1.w.node n).opType != "Constant" then p
      else
        match (p.1.w.node n).outputs with
        | [] => (p.1.fail, p.2)
        | o :: _ =>
          if (p.1.w.val o).isOut then p
          else
            match (p.1.w.node n).attrs with
            | [a] =>
              match (p.1.w.val o).name with
              | none => (p.1.fail, p.2)
              | some nm =>
                match lcAttr liftAll a.1 with
                | none => (p.1.fail, p.2)
                | some false => p
                | some true =>
                  if !big n then p
                  else
                    let v := p.1.w.vals.length
                    let s1 :=
                      if tnamed n then
                        ((p.1.call (.one (.newValue none))).call (.one (.setConst v false))).call (.one (.setName v (some nm)))
                      else (p.1.call (.one (.newValue (some nm)))).call (.one (.setConst v false))
                    let s2 := s1.call (.one (.init g (.register v)))
                    let s3 := s2.call (.one (.rauw o v false))
                    (s3.call (.one (.remove g [n] true)), p.2 + 1)
            | _ => p

/-- `RecursiveGraphIterator(model.graph)`: a node, then the graphs its attributes hold (read when the iterator
    resumes), then the next node; `fuel` bounds the nesting depth -/
def lcGraphK (liftAll : Bool) (big tnamed : Nat → Bool) : Nat → KSt × Nat → Nat → KSt × Nat
  | 0, p, _ => p
  | fuel + 1, p, g =>
    (p.1.w.gr g).nodes.foldl (fun p n =>
      (((lcNodeK liftAll big tnamed p n).1.w.node n).attrs.foldl
        (fun p a => a.2.foldl (fun p sub => lcGraphK liftAll big tnamed fuel p sub) p)
        (lcNodeK liftAll big tnamed p n))) p

/-- `LiftConstantsToInitializersPass.call`: final state and `count` (`modified = bool(count)`) -/
def lcModelK (liftAll : Bool) (big tnamed : Nat → Bool) (fuel : Nat) (w : World) (g : Nat) : KSt × Nat :=
  lcGraphK liftAll big tnamed fuel (⟨w, false, []⟩, 0) g

/-! ## LiftSubgraphInitializersToMainGraphPass (constant_manipulation.py 143-213) -/

/-- `registered_initializer_names.get(name, 0)` -/
def ctrGet (c : List (String × Nat)) (k : String) : Nat := ((c.find? (fun p => p.1 = k)).map (·.2)).getD 0

def ctrSet (c : List (String × Nat)) (k : String) (v : Nat) : List (String × Nat) :=
  if c.any (fun p => p.1 = k) then c.map (fun p => if p.1 = k then (k, v) else p) else c ++ [(k, v)]

/-- the `while` loop of lines 187-196: the first of `name`, `name_<c+1>`, `name_<c+2>`, ... that is not blocked, `c`
    the per-name counter kept across the whole pass.  `fuel` = number of iterations allowed; `none` when it runs out
    (the callers give more than there are blocked names). -/
def lsiName (blocked : String → Bool) (name : String) : Nat → String → List (String × Nat) →
    Option (String × List (String × Nat))
  | 0, cur, c => if blocked cur then none else some (cur, c)
  | fuel + 1, cur, c =>
    if blocked cur then
      lsiName blocked name fuel (name ++ "_" ++ toString (ctrGet c name + 1)) (ctrSet c name (ctrGet c name + 1))
    else some (cur, c)

/-- truthy names -/
def truthy : Option String → List String
  | some s => if s = "" then [] else [s]
  | none => []

/-- one key of `tuple(graph.initializers)` of a graph below the main graph (lines 169-204).  State: the pass, the
    counters `registered_initializer_names`, `count`. -/
def lsiInitK (main g : Nat) (outN inN : List String) (p : KSt × List (String × Nat) × Nat) (key : String) :
    KSt × List (String × Nat) × Nat :=
  if p.1.raised then p
  else
    match lookupInit (p.1.w.gr g).inits key with
    | none => (p.1.fail, p.2)
    | some v =>
      if (p.1.w.val v).isIn then p
      else if (p.1.w.val v).isOut then p
      else
        let s1 := p.1.call (.one (.init g (.pop key)))
        let blocked := fun nm => (s1.w.gr main).inits.any (fun q => q.1 = nm) || outN.contains nm || inN.contains nm
        match lsiName blocked key ((s1.w.gr main).inits.length + outN.length + inN.length + 1) key p.2.1 with
        | none => (s1.fail, p.2)
        | some (nn, c) =>
          let s2 := s1.call (.one (.setName v (some nn)))
          (s2.call (.one (.init main (.register v))), c, p.2.2 + 1)

/-- `LiftSubgraphInitializersToMainGraphPass.call`: the name sets of the main graph are taken at the start;
    `model.graphs()` = the main graph (skipped) and `graph.subgraphs()`.  Final state and `count`. -/
def lsiModelK (fuel : Nat) (w : World) (g : Nat) : KSt × Nat :=
  let outN := (w.gr g).nodes.flatMap (fun n => (w.node n).outputs.flatMap (fun o => truthy (w.val o).name))
  let inN := (w.gr g).inputs.flatMap (fun v => truthy (w.val v).name)
  let r := ((subgraphsK fuel w g []).filter (· != g)).foldl (fun (p : KSt × List (String × Nat) × Nat) sub =>
    ((p.1.w.gr sub).inits.map Prod.fst).foldl (lsiInitK g sub outN inN) p) (⟨w, false, []⟩, [], 0)
  (r.1, r.2.2)

/-! ## DeduplicateInitializersPass / DeduplicateHashedInitializersPass (initializer_deduplication.py 21-181) -/

/-- one initializer of `tuple(graph.initializers.values())`.  `hkey v`: `none` when `const_value.size > size_limit`,
    else the class of the dictionary key - (dtype, shape, bytes) for the plain pass, (dtype, shape, sha512 digest) for
    the hashed one; `tkey v`: the class of `_tobytes(const_value)`, which the hashed pass compares when the digests
    agree (for the plain pass `tkey = hkey`: the comparison never fails).  State: the pass, the dictionary
    `initializers`, `modified`. -/
def ddInitK (hkey tkey : Nat → Option Nat) (g : Nat) (p : KSt × List (Nat × Nat) × Bool) (v : Nat) :
    KSt × List (Nat × Nat) × Bool :=
  if p.1.raised then p
  else if (p.1.w.val v).isIn || (p.1.w.val v).isOut then p
  else if (p.1.w.val v).const = none then p
  else
    match hkey v with
    | none => p
    | some h =>
      match p.2.1.find? (fun q => q.1 = h) with
      | none => (p.1, p.2.1 ++ [(h, v)], p.2.2)
      | some q =>
        if tkey q.2 != tkey v then p
        else
          let s1 := p.1.call (.one (.rauw v q.2 false))
          match (s1.w.val v).name with
          | none => (s1.fail, p.2.1, true)
          | some nm => (s1.call (.one (.init g (.pop nm))), p.2.1, true)

/-- one graph: a fresh dictionary, the initializer values as a snapshot -/
def ddGraphK (hkey tkey : Nat → Option Nat) (p : KSt × Bool) (g : Nat) : KSt × Bool :=
  let r := ((p.1.w.gr g).inits.map Prod.snd).foldl (ddInitK hkey tkey g) (p.1, [], p.2)
  (r.1, r.2.2)

/-- `Deduplicate(Hashed)InitializersPass.call`: `model.graphs()` = the main graph, then `graph.subgraphs()` (computed
    when the generator resumes, i.e. after the main graph was processed).  Final state and `modified`. -/
def ddModelK (hkey tkey : Nat → Option Nat) (fuel : Nat) (w : World) (g : Nat) : KSt × Bool :=
  let p1 := ddGraphK hkey tkey (⟨w, false, []⟩, false) g
  ((subgraphsK fuel p1.1.w g []).filter (· != g)).foldl (ddGraphK hkey tkey) p1

end IrVerif.PassKernel

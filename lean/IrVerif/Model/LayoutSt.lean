/-
Model of the safetensors container as `onnx_ir._safetensors` uses it (property C07, deepening
round): dtype tables, storage shape, the writer's ordering rule, header entries, header JSON, file
image, the reader `_read_safetensors`, `_replace_tensors` (by name) and `_migrate_tensor_shape_dtype`.

Transcribed from `src/onnx_ir/_safetensors/__init__.py`:
* 26-71 (`_SAFETENSORS_DTYPE_TO_IR_DTYPE`, `_IR_DTYPE_TO_SAFETENSORS_DTYPE`),
* 165-171 (`_get_tensor_storage_shape`), 141-162 (`_replace_tensors`), 174-300 (`_save_file`; shards are
  staged and moved into place after the last one was written, fix D432),
* 411-450 (`save_safetensors`: name checks incl. the reserved name `__metadata__`, fix D434),
* 468-508 (`_read_safetensors_header`, `_read_safetensors`), 511-545 (`_migrate_tensor_shape_dtype`).
The container format itself is the safetensors library's (0.7/0.8, `safetensors/src/tensor.rs`
`prepare` + `serialize_to_file`, python binding `view.rs`): 8-byte little-endian header length N,
N bytes of JSON (padded with spaces to a multiple of 8), then the byte buffer; tensors are ordered
by descending dtype (declaration order of the Rust enum `Dtype` = ascending alignment) and then
by name (byte order); `data_offsets` are `[begin, end)` relative to the byte buffer and contiguous.
That behaviour of the library is MODELLED here and compared with the real library on every run
(whole file images byte for byte); it is not verified.

Names are UTF-8 byte strings (`List Nat`).  Core Lean only.
-/
import IrVerif.Model.Layout
import IrVerif.Model.Pack
import IrVerif.Model.TensorRepr
namespace IrVerif.Layout
open IrVerif.TensorRepr (DType)

/-! ## dtype tables -/

/-- dtypes of the container format that the python binding can produce, in the declaration order
    of the Rust enum (`BOOL < F4 < U8 < ... < U64`): the writer sorts by this order, descending -/
inductive StDtype
  | BOOL | F4 | U8 | I8 | F8_E5M2 | F8_E4M3 | F8_E8M0 | I16 | U16 | F16 | BF16 | I32 | U32 | F32
  | C64 | F64 | I64 | U64
deriving Repr, DecidableEq, Inhabited

namespace StDtype

def all : List StDtype :=
  [BOOL, F4, U8, I8, F8_E5M2, F8_E4M3, F8_E8M0, I16, U16, F16, BF16, I32, U32, F32, C64, F64, I64,
   U64]

/-- position in the enum (the sort key) -/
def rank (d : StDtype) : Nat := all.idxOf d

/-- the dtype string of the JSON header -/
def headerName : StDtype → String
  | BOOL => "BOOL" | F4 => "F4" | U8 => "U8" | I8 => "I8" | F8_E5M2 => "F8_E5M2"
  | F8_E4M3 => "F8_E4M3" | F8_E8M0 => "F8_E8M0" | I16 => "I16" | U16 => "U16" | F16 => "F16"
  | BF16 => "BF16" | I32 => "I32" | U32 => "U32" | F32 => "F32" | C64 => "C64" | F64 => "F64"
  | I64 => "I64" | U64 => "U64"

/-- bits per element (`Dtype::bitsize`) -/
def bits : StDtype → Nat
  | BOOL => 8 | F4 => 4 | U8 => 8 | I8 => 8 | F8_E5M2 => 8 | F8_E4M3 => 8 | F8_E8M0 => 8
  | I16 => 16 | U16 => 16 | F16 => 16 | BF16 => 16 | I32 => 32 | U32 => 32 | F32 => 32
  | C64 => 64 | F64 => 64 | I64 => 64 | U64 => 64

end StDtype

/-- `_IR_DTYPE_TO_SAFETENSORS_DTYPE` (46-71), in dict order: the dtype name handed to the binding -/
def irToStName : List (DType × String) :=
  [(.bool, "bool"), (.float4e2m1, "float4_e2m1fn_x2"), (.float8e5m2, "float8_e5m2"),
   (.float8e4m3fn, "float8_e4m3fn"), (.float8e8m0, "float8_e8m0fnu"), (.float8e4m3fnuz, "uint8"),
   (.float8e5m2fnuz, "uint8"), (.bfloat16, "bfloat16"), (.float16, "float16"), (.float, "float32"),
   (.double, "float64"), (.int2, "uint8"), (.int4, "uint8"), (.int8, "int8"), (.int16, "int16"),
   (.int32, "int32"), (.int64, "int64"), (.uint2, "uint8"), (.uint4, "uint8"), (.uint8, "uint8"),
   (.uint16, "uint16"), (.uint32, "uint32"), (.uint64, "uint64"), (.complex64, "complex64")]

/-- the binding's dtype names (`bindings/python/src/view.rs`) -/
def stNameTable : List (String × StDtype) :=
  [("bool", .BOOL), ("float4_e2m1fn_x2", .F4), ("uint8", .U8), ("int8", .I8),
   ("float8_e5m2", .F8_E5M2), ("float8_e4m3fn", .F8_E4M3), ("float8_e8m0fnu", .F8_E8M0),
   ("int16", .I16), ("uint16", .U16), ("float16", .F16), ("bfloat16", .BF16), ("int32", .I32),
   ("uint32", .U32), ("float32", .F32), ("complex64", .C64), ("float64", .F64), ("int64", .I64),
   ("uint64", .U64)]

/-- the format dtype an ONNX dtype is stored as; `none` is the `KeyError` of `_save_file` -/
def stDtypeOf (d : DType) : Option StDtype :=
  (irToStName.lookup d).bind fun n => stNameTable.lookup n

/-- `_SAFETENSORS_DTYPE_TO_IR_DTYPE` (26-44), keyed by the header's dtype string, in dict order -/
def stToIr : List (String × DType) :=
  [("BOOL", .bool), ("F4", .float4e2m1), ("F8_E5M2", .float8e5m2), ("F8_E4M3", .float8e4m3fn),
   ("F8_E8M0", .float8e8m0), ("BF16", .bfloat16), ("F16", .float16), ("F32", .float),
   ("F64", .double), ("I8", .int8), ("I16", .int16), ("I32", .int32), ("I64", .int64),
   ("U8", .uint8), ("U16", .uint16), ("U32", .uint32), ("U64", .uint64), ("C64", .complex64)]

/-- the dtypes `_migrate_tensor_shape_dtype` (527-535) takes from the model tensor -/
def migrated : List DType :=
  [.float8e4m3fnuz, .float8e5m2fnuz, .float4e2m1, .int4, .int2, .uint4, .uint2]

/-! ## One tensor handed to the writer -/

/-- what `_save_file` knows about one tensor it saves: the INITIALIZER's name (UTF-8 bytes), the
    tensor's dtype and shape, `tensor.tobytes()` -/
structure StTensor where
  name : List Nat
  dtype : DType
  shape : List Nat
  bytes : List Nat
deriving Repr, DecidableEq, Inhabited

/-- `_get_tensor_storage_shape` (165-171): `[nbytes]` for sub-byte dtypes -/
def storageShape (t : StTensor) : List Nat :=
  match t.dtype.bitwidth with
  | some bw => if bw < 8 then [t.bytes.length] else t.shape
  | none => t.shape

/-- the binding doubles the last dimension of `float4_e2m1fn_x2` (two elements per byte) -/
def doubleLast : List Nat → List Nat
  | [] => []
  | [d] => [2 * d]
  | d :: ds => d :: doubleLast ds

def headerShape (sd : StDtype) (shape : List Nat) : List Nat :=
  if sd = .F4 then doubleLast shape else shape

def prodNat (xs : List Nat) : Nat := xs.foldl (· * ·) 1

/-- the library's validation of one view: the bit count is a whole number of bytes and equals
    the data length (`InvalidTensorView` / `MisalignedSlice` otherwise) -/
def stViewOk (sd : StDtype) (hshape : List Nat) (len : Nat) : Bool :=
  (prodNat hshape * sd.bits) % 8 = 0 && (prodNat hshape * sd.bits) / 8 = len

/-! ## Ordering rule -/

/-- lexicographic order on byte strings (`str::cmp`) -/
def bytesLe : List Nat → List Nat → Bool
  | [], _ => true
  | _ :: _, [] => false
  | a :: as, b :: bs => a < b || (a = b && bytesLe as bs)

/-- a tensor prepared for writing: name, format dtype, header shape, bytes -/
structure StView where
  name : List Nat
  sd : StDtype
  hshape : List Nat
  bytes : List Nat
deriving Repr, DecidableEq, Inhabited

/-- `right.dtype().cmp(&left.dtype()).then(lname.cmp(rname))`: `a` goes before or with `b` -/
def viewLe (a b : StView) : Bool :=
  b.sd.rank < a.sd.rank || (a.sd.rank = b.sd.rank && bytesLe a.name b.name)

def insertView (v : StView) : List StView → List StView
  | [] => [v]
  | w :: ws => if viewLe v w then v :: w :: ws else w :: insertView v ws

/-- the writer's order (a stable sort; names are unique, so the order is total on the input) -/
def sortViews : List StView → List StView
  | [] => []
  | v :: vs => insertView v (sortViews vs)

/-! ## Header entries and the file image -/

structure StEntry where
  name : List Nat
  sd : StDtype
  hshape : List Nat
  start : Nat   -- `data_offsets[0]`
  stop : Nat    -- `data_offsets[1]`
deriving Repr, DecidableEq, Inhabited

/-- contiguous `data_offsets` in writing order, from running offset `cur` -/
def entriesFrom : Nat → List StView → List StEntry
  | _, [] => []
  | cur, v :: vs => ⟨v.name, v.sd, v.hshape, cur, cur + v.bytes.length⟩ ::
      entriesFrom (cur + v.bytes.length) vs

/-- the view of one tensor (`U8` stands in for a dtype without table entry; such a save raises
    `KeyError` before it gets here, see `dtypesOk`) -/
def viewOfD (t : StTensor) : StView :=
  let sd := (stDtypeOf t.dtype).getD .U8
  ⟨t.name, sd, headerShape sd (storageShape t), t.bytes⟩

/-- every dtype has an entry in `_IR_DTYPE_TO_SAFETENSORS_DTYPE` (else `KeyError`) -/
def dtypesOk (ts : List StTensor) : Bool := ts.all fun t => (stDtypeOf t.dtype).isSome

/-- the views of one shard, in the writer's order -/
def shardViewsD (ts : List StTensor) : List StView := sortViews (ts.map viewOfD)

def shardViews (ts : List StTensor) : Option (List StView) :=
  if dtypesOk ts then some (shardViewsD ts) else none

def stEntries (vs : List StView) : List StEntry := entriesFrom 0 vs

/-- the byte buffer: the tensors' bytes in writing order -/
def stBuffer (vs : List StView) : List Nat := (vs.map (·.bytes)).flatten

def hexDigitLower (n : Nat) : Nat := if n < 10 then 48 + n else 87 + n

/-- JSON string escaping of `serde_json` on the UTF-8 bytes of a name -/
def jsonEscape : List Nat → List Nat
  | [] => []
  | b :: bs =>
    (if b = 0x22 then [0x5c, 0x22]
     else if b = 0x5c then [0x5c, 0x5c]
     else if b = 0x08 then [0x5c, 0x62]
     else if b = 0x0c then [0x5c, 0x66]
     else if b = 0x0a then [0x5c, 0x6e]
     else if b = 0x0d then [0x5c, 0x72]
     else if b = 0x09 then [0x5c, 0x74]
     else if b < 0x20 then [0x5c, 0x75, 0x30, 0x30, hexDigitLower (b / 16), hexDigitLower (b % 16)]
     else [b]) ++ jsonEscape bs

def asciiBytes (s : String) : List Nat := s.toList.map (·.toNat)
def natBytes (n : Nat) : List Nat := (digits n).map (·.toNat)

def commaSep : List (List Nat) → List Nat
  | [] => []
  | [x] => x
  | x :: xs => x ++ 0x2c :: commaSep xs

/-- `"name":{"dtype":"F32","shape":[2,3],"data_offsets":[0,24]}` -/
def entryJson (e : StEntry) : List Nat :=
  [0x22] ++ jsonEscape e.name ++ asciiBytes "\":{\"dtype\":\"" ++ asciiBytes e.sd.headerName
    ++ asciiBytes "\",\"shape\":[" ++ commaSep (e.hshape.map natBytes)
    ++ asciiBytes "],\"data_offsets\":[" ++ natBytes e.start ++ [0x2c] ++ natBytes e.stop
    ++ asciiBytes "]}"

/-- the JSON header, padded with spaces to a multiple of 8 bytes -/
def stHeader (es : List StEntry) : List Nat :=
  let j := [0x7b] ++ commaSep (es.map entryJson) ++ [0x7d]
  j ++ List.replicate ((8 - j.length % 8) % 8) 0x20

/-- a file with header bytes `hdr` (whatever they are) and byte buffer `buf` -/
def stFileOf (hdr buf : List Nat) : List Nat := Pack.leBytes 8 hdr.length ++ hdr ++ buf

/-- the file `serialize_file` writes for the views `vs` (already in writing order) -/
def stFile (vs : List StView) : List Nat := stFileOf (stHeader (stEntries vs)) (stBuffer vs)

/-! ## Reading back -/

/-- `_read_safetensors` (489-508) for one header entry of a file whose header is `n` bytes long:
    `(offset, length)` of the ExternalTensor it creates -/
def stRange (n : Nat) (e : StEntry) : Nat × Nat := (e.start + n + 8, e.stop - e.start)

/-- dtype and shape of the tensor a value holds after `_replace_tensors`
    (`_migrate_tensor_shape_dtype` 511-545): taken from the model tensor for the dtypes the format
    cannot express, else from the header -/
def reloadedDtypeShape (t : StTensor) (e : StEntry) : Option (DType × List Nat) :=
  if t.dtype ∈ migrated then some (t.dtype, t.shape)
  else (stToIr.lookup e.sd.headerName).map fun d => (d, e.hshape)

/-! ## The whole save -/

/-- index of the last element equal to `x` (the value `value_map = {value.name: value}` keeps) -/
def lastIdxOf : List (List Nat) → List Nat → Option Nat
  | [], _ => none
  | y :: ys, x =>
    match lastIdxOf ys x with
    | some j => some (j + 1)
    | none => if y = x then some 0 else none

/-- the shards of a save, each as its views in writing order; `saved` = `tensors_to_save` in
    declaration order.  Nothing is written when nothing is saved (`if tensors_to_save:`). -/
def stShardViewsD (saved : List StTensor) (maxShard : Option Nat) : List (List StView) :=
  if saved = [] then []
  else (shardSt (fun t => t.bytes.length) maxShard saved).map shardViewsD

/-- `none`: some dtype has no table entry (`KeyError`; with staged shards no file is replaced) -/
def stShardViews (saved : List StTensor) (maxShard : Option Nat) : Option (List (List StView)) :=
  if dtypesOk saved then some (stShardViewsD saved maxShard) else none

/-- the files of a save (shards are staged and moved into place after the last one) -/
def stFiles (saved : List StTensor) (maxShard : Option Nat) : Option (List (List Nat)) :=
  (stShardViews saved maxShard).map (·.map stFile)

/-- the assignments `_replace_tensors` performs, file after file, entry after entry in header
    order: (name, record) -/
def stAssignments (shards : List (List StView)) : List (List Nat × Placement) :=
  (shards.zipIdx).flatMap fun (vs, i) =>
    (stEntries vs).map fun e =>
      let r := stRange (stHeader (stEntries vs)).length e
      (e.name, ⟨i, shards.length, r.1, r.2⟩)

/-- `_replace_tensors` over all files: the value found under the entry's name (the LAST value of
    that name in `values_to_save`) is re-pointed; `names` are the names of `values_to_save` -/
def stReplace (names : List (List Nat)) (assigns : List (List Nat × Placement)) :
    List (Option Placement) :=
  assigns.foldl (fun st a =>
    match lastIdxOf names a.1 with
    | some j => st.set j (some a.2)
    | none => st) (List.replicate names.length none)

/-- the names `save_safetensors` (411-450) accepts: no duplicate and not the reserved header key
    among the initializers that hold a non-string tensor -/
def stNamesOk (names : List (List Nat)) : Bool :=
  decide names.Nodup && !names.contains (asciiBytes "__metadata__")

/-! ## Tensors shared by several initializers -/

/-- declaration-ordered initializers as (tensor object id); `obj` maps an object to its bytes:
    every position is written with the bytes of ITS object (both backends save a shared object
    once per initializer) -/
def bytesOfObjects (obj : Nat → List Nat) (ids : List Nat) : List (List Nat) := ids.map obj

end IrVerif.Layout

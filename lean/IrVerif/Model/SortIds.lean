/-
Line-by-line transcription of steps 1-4 of `Graph.sort` (src/onnx_ir/_core.py:4085-4169) with the
dictionaries KEYED BY NODE IDENTITY, as in the code -- not by position in the universe as in
`Model/Sort.lean`.  `nodes` (a list) may contain a node several times (a Graph object reachable
through two attributes: `RecursiveGraphIterator` walks it once per path); the dicts
`node_depth`, `node_predecessors`, `neg_node_index` then have ONE entry per distinct node, while
every `for node in nodes` loop visits the node once per occurrence.

  node_depth          `Nat -> Int`       (Python ints: a counter could go below zero)
  node_predecessors   `Nat -> List Nat`
  neg_node_index      `Nat -> Nat`       (the position; the code stores its negative: a later
                                          occurrence overwrites an earlier one)
  priority_queue      `List (Nat × Nat)` `(position, node)`; `heappop` = the entry with the largest
                                          position (smallest negative).  Entries with equal
                                          positions would make `heapq` compare two `Node` objects;
                                          `C12_ids_*` show the queue never holds a node twice.

Theorems (Props/C12.lean): with distinct identities this model and `sortModel` coincide
(`C12_ids_refines`); with a duplicated node it raises (`C12_ids_shared_raises`) -- which is the
derivation of the `sharedGraph` branch of `sortModel`.

Only core Lean is imported (linked into `irdriver`).
-/
import IrVerif.Model.Sort

namespace IrVerif.Sort

/-- `predecessor in node_depth` (_core.py:4106): is `p` one of the nodes of the universe? -/
def inU (u : List Ent) (p : Nat) : Bool := u.any (fun e => e.id == p)

/-- the arguments of the `add_predecessor(node, ...)` calls of one pass through the body of
    `for node in nodes:` that get past the two early returns (_core.py:4117-4140): producers of the
    inputs, then the direct nodes of the attribute graphs, each only if it is in the universe -/
def predIds (u : List Ent) (e : Ent) : List Nat :=
  (e.inputs.filterMap (fun o => o)).filter (inU u) ++ e.subNodes.filter (inU u)

/-- `node_depth` and `node_predecessors` -/
structure Dicts where
  depth : Nat → Int
  preds : Nat → List Nat

/-- `node_predecessors[child].append(predecessor); node_depth[predecessor] += 1` (_core.py:4109-4110) -/
def addPred (c : Nat) (d : Dicts) (p : Nat) : Dicts :=
  ⟨fun x => if x = p then d.depth x + 1 else d.depth x,
   fun x => if x = c then d.preds x ++ [p] else d.preds x⟩

/-- step 1 (_core.py:4117-4140): `for node in nodes:` over the list WITH repetitions -/
def step1 (u : List Ent) : Dicts :=
  u.foldl (fun d e => (predIds u e).foldl (addPred e.id) d) ⟨fun _ => 0, fun _ => []⟩

/-- `neg_node_index = {node: -i for i, node in enumerate(nodes)}` (_core.py:4100), as positions -/
def nodeIndex (u : List Ent) : Nat → Nat :=
  (List.range u.length).foldl (fun f i =>
    match u[i]? with
    | some e => fun x => if x = e.id then i else f x
    | none => f) (fun _ => 0)

/-- step 2 (_core.py:4146-4149): `[(neg_node_index[node], node) for node in nodes if node_depth[node] == 0]` -/
def initHeapD (u : List Ent) (depth : Nat → Int) (idx : Nat → Nat) : List (Nat × Nat) :=
  (u.filter (fun e => depth e.id == 0)).map (fun e => (idx e.id, e.id))

/-- the entry `heappop` returns: largest position -/
def maxKey : List (Nat × Nat) → Option (Nat × Nat)
  | [] => none
  | x :: xs => match maxKey xs with
    | none => some x
    | some m => some (if m.1 ≤ x.1 then x else m)

structure DState where
  depth : Nat → Int
  heap : List (Nat × Nat)
  /-- popped nodes, most recent first; `num_of_sorted_nodes` is its length -/
  sorted : List Nat

/-- `node_depth[p] -= 1; if node_depth[p] == 0: heappush(...)` (_core.py:4160-4165) -/
def relaxD (idx : Nat → Nat) (s : (Nat → Int) × List (Nat × Nat)) (p : Nat) :
    (Nat → Int) × List (Nat × Nat) :=
  let d' : Nat → Int := fun x => if x = p then s.1 x - 1 else s.1 x
  if d' p = 0 then (d', (idx p, p) :: s.2) else (d', s.2)

/-- one iteration of `while priority_queue:` (_core.py:4153-4165) -/
def stepD (preds : Nat → List Nat) (idx : Nat → Nat) (s : DState) : Option DState :=
  match maxKey s.heap with
  | none => none
  | some x =>
    let r := (preds x.2).foldl (relaxD idx) (s.depth, s.heap.erase x)
    some ⟨r.1, r.2, x.2 :: s.sorted⟩

def loopD (preds : Nat → List Nat) (idx : Nat → Nat) : Nat → DState → DState
  | 0, s => s
  | f + 1, s => match stepD preds idx s with
    | none => s
    | some s' => loopD preds idx f s'

/-- steps 1-3; the loop gets `len(nodes)` iterations (`C12_ids_*`: the queue is empty then) -/
def kahnIds (u : List Ent) : DState :=
  let d := step1 u
  let idx := nodeIndex u
  loopD d.preds idx u.length ⟨d.depth, initHeapD u d.depth idx, []⟩

/-- `node.graph` of the node with identity `p` -/
def gidOfId (u : List Ent) (p : Nat) : Nat :=
  match u.find? (fun e => e.id == p) with
  | some e => e.gid
  | none => 0

/-- `reversed(sorted_nodes_by_graph[graph])` -/
def bucketD (u : List Ent) (sorted : List Nat) (k : Nat) : List Nat :=
  sorted.filter (fun p => gidOfId u p == k)

/-- `Graph.sort()` with identity-keyed dicts: `none` = `ValueError` of step 4 -/
def sortIds (g : MGraph) : Option (List (Nat × List Nat)) :=
  let u := nodesOf g
  let s := kahnIds u
  if s.sorted.length != u.length then none
  else some ((graphsOf g).map (fun gc => (gc.1, relink gc.2 (bucketD u s.sorted gc.1))))

end IrVerif.Sort

/-
The extended model of deserialization / serialization: `IrVerif.Model.Scope` / `ScopeFunc` PLUS the per-value
and per-node state whose placement depends on name resolution:

* `Value.metadata_props`, MERGED over every `deserialize_value_info_proto` that reaches the value
  (`value.metadata_props.update(...)`, serde.py 1025-1027) — creation entry, then every graph-output entry;
* quantization annotations (`GraphProto.quantization_annotation`; `{annotation.tensor_name: annotation}` 781-783:
  the last one wins), attached when a value is CREATED in the graph that carries the table: graph inputs
  (791-792), fresh initializer values (843-846), declared node outputs (945-946), placeholders (1372-1375) — not
  to initializers of inputs, empty-named outputs, graph outputs nothing produces, function values (`{}` 972);
  written back by `serialize_graph_into` 1902-1949 (inputs unless the name is an initializer key, initializers,
  node outputs that are not graph outputs, graph outputs; once per value object except in the node loop);
* the value a sharding spec of a node device configuration refers to (`_resolve_sharded_value` 1452-1471 over
  the scopes merged innermost-last, 1411-1413, AFTER the node inputs were resolved): the innermost binding of the
  name, else a fresh `Value(name=...)` that is entered nowhere; an empty tensor_name is no value.

The deserializer is a copy of the core one that threads the extension state `Ext` next to the store; erasing the
extension gives the core run (`Lemmas/ScopeExt.lean`: `deserGraphE_erase`), so the consistency theorems of the
core carry over.  A `ValueInfoProto` is now name + (type, shape, doc_string tokens) + metadata entries: in the
CORE image (`VInfoE.erase`) the documentation token is the doc_string alone.

What the core image cannot see: `_should_create_value_info_for_value` also looks at the merged metadata, so the
extended serializer `serGraphE` is NOT the core serializer with extras; it is a transcription of its own.
Core Lean only.
-/
import IrVerif.Model.ScopeMeta
namespace IrVerif.Scope

/-- `value.metadata_props.update({e.key: e.value for e in entries})` -/
def ssUpdate (d : SS) (es : SS) : SS := es.foldl (fun d e => ssSet d e.1 e.2) d

/-! ## proto side -/

/-- `ValueInfoProto`: name, type / shape / doc_string tokens, metadata_props -/
structure VInfoE where
  name : Name
  info : Info
  mprops : SS
deriving DecidableEq, Repr, Inhabited

def VInfoE.erase (v : VInfoE) : VInfoP := ⟨v.name, v.info⟩

/-- `TensorAnnotation`: tensor_name, quant_parameter_tensor_names -/
structure QuantP where
  name : Name
  params : SS
deriving DecidableEq, Repr, Inhabited

mutual
inductive NodeE where
  | mk (inputs : List Name) (outputs : List Name) (devs : List DevP) (subs : List GraphE)
inductive GraphE where
  | mk (inputs : List VInfoE) (inits : List TensorP) (vinfo : List VInfoE) (nodes : List NodeE)
      (outputs : List VInfoE) (quant : List QuantP)
end

instance : Inhabited GraphE := ⟨.mk [] [] [] [] [] []⟩
instance : Inhabited NodeE := ⟨.mk [] [] [] []⟩

def NodeE.outputs : NodeE → List Name | .mk _ o _ _ => o

mutual
def eraseG : GraphE → GraphP
  | .mk ins its vi ns outs _ => .mk (ins.map VInfoE.erase) its (vi.map VInfoE.erase) (eraseNs ns) (outs.map VInfoE.erase)
def eraseNs : List NodeE → List NodeP
  | [] => []
  | n :: ns => eraseN n :: eraseNs ns
def eraseN : NodeE → NodeP
  | .mk i o _ subs => .mk i o (eraseGs subs)
def eraseGs : List GraphE → List GraphP
  | [] => []
  | g :: gs => eraseG g :: eraseGs gs
end

/-! ## IR side: the extension state -/

/-- the value a sharding spec refers to -/
inductive ShardV where
  | none
  | val (v : Nat)
  | fresh (name : Name)
deriving DecidableEq, Repr, Inhabited

/-- `NodeDeviceConfiguration` with resolved sharding values -/
structure DevR where
  cfg : Option String
  stage : Option String
  specs : List (ShardV × String)
deriving DecidableEq, Repr, Inhabited

/-- per value: merged metadata_props, quantization parameters (`none`: no annotation, or an empty one);
    per node (creation index): device configurations -/
structure Ext where
  vmeta : Nat → SS := fun _ => []
  quant : Nat → Option SS := fun _ => none
  devs : Nat → List DevR := fun _ => []

instance : Inhabited Ext := ⟨{}⟩

def Ext.setMeta (x : Ext) (v : Nat) (m : SS) : Ext := { x with vmeta := fun i => if i = v then m else x.vmeta i }
def Ext.setQuant (x : Ext) (v : Nat) (q : Option SS) : Ext :=
  { x with quant := fun i => if i = v then q else x.quant i }
def Ext.setDevs (x : Ext) (n : Nat) (d : List DevR) : Ext := { x with devs := fun i => if i = n then d else x.devs i }

/-- `value.metadata_props.update(...)` when the entry has metadata (`if metadata_props is not None`) -/
def Ext.merge (x : Ext) (v : Nat) (es : SS) : Ext :=
  if es.isEmpty then x else x.setMeta v (ssUpdate (x.vmeta v) es)

/-- `{annotation.tensor_name: annotation}`: newest first, lookup takes the first match -/
def quantTable (q : List QuantP) : List (Name × SS) := (q.map fun a => (a.name, a.params)).reverse

/-- `_deserialize_quantization_annotation` when the name has an annotation: `None` for an empty map -/
def Ext.annotate (x : Ext) (qt : List (Name × SS)) (v : Nat) (n : Name) : Ext :=
  match qt.lookup n with
  | none => x
  | some ps => x.setQuant v (if ps.isEmpty then none else some (ssOfEntries ps))

/-- `{info.name: info for info in proto.value_info}` with the metadata -/
def vinfoTableE (vi : List VInfoE) : List (Name × Info × SS) := (vi.map fun i => (i.name, i.info, i.mprops)).reverse

def eraseVT (vt : List (Name × Info × SS)) : List (Name × Info) := vt.map fun e => (e.1, e.2.1)

/-! ## deserialization -/

/-- 785-792 -/
def deserInputsE (st : Store) (x : Ext) (qt : List (Name × SS)) : List VInfoE → Store × Ext × List Nat
  | [] => (st, x, [])
  | i :: is =>
    let (st1, v) := st.alloc { name := some i.name, info := i.info }
    let x1 := ((x.merge v i.mprops).annotate qt v i.name)
    let (st2, x2, vs) := deserInputsE st1 x1 qt is
    (st2, x2, v :: vs)

/-- the extension part of a fresh named value (initializer value, declared output, placeholder): metadata of its
    value_info entry, quantization annotation of its name -/
def Ext.newNamed (x : Ext) (vt : List (Name × Info × SS)) (qt : List (Name × SS)) (v : Nat) (n : Name) : Ext :=
  match vt.lookup n with
  | some e => (x.merge v e.2).annotate qt v n
  | none => x.annotate qt v n

/-- 803-848 -/
def deserInitsE (st : Store) (x : Ext) (tbl : Table) (vt : List (Name × Info × SS)) (qt : List (Name × SS)) :
    List TensorP → Store × Ext × Table × List Nat
  | [] => (st, x, tbl, [])
  | t :: ts =>
    if t.name = "" then deserInitsE st x tbl vt qt ts
    else
      let st1 := (st.allocTensor { name := some t.name, data := t.data, ty := t.ty, sh := t.sh }).1
      match tbl.lookup t.name with
      | some v =>
        let (st3, x3, tbl3, vs) := deserInitsE (st1.modify v fun c => { c with const := some st.nt }) x tbl vt qt ts
        (st3, x3, tbl3, v :: vs)
      | none =>
        let (st4, x4, tbl4, vs) := deserInitsE (newInit st1 (eraseVT vt) t st.nt) (x.newNamed vt qt st.nv t.name)
          ((t.name, st.nv) :: tbl) vt qt ts
        (st4, x4, tbl4, st.nv :: vs)

/-- `_declare_node_outputs` 921-946 -/
def declareOutputsE (st : Store) (x : Ext) (tbl : Table) (vt : List (Name × Info × SS)) (qt : List (Name × SS)) :
    List Name → Except Err (Store × Ext × Table)
  | [] => .ok (st, x, tbl)
  | n :: ns =>
    if n = "" then declareOutputsE st x tbl vt qt ns
    else
      match tbl.lookup n with
      | some _ => .error (.redeclared n)
      | none => declareOutputsE (newNamed st (eraseVT vt) n) (x.newNamed vt qt st.nv n) ((n, st.nv) :: tbl) vt qt ns

def declareNodesE (st : Store) (x : Ext) (tbl : Table) (vt : List (Name × Info × SS)) (qt : List (Name × SS)) :
    List NodeE → Except Err (Store × Ext × Table)
  | [] => .ok (st, x, tbl)
  | n :: ns =>
    match declareOutputsE st x tbl vt qt n.outputs with
    | .error e => .error e
    | .ok (st1, x1, tbl1) => declareNodesE st1 x1 tbl1 vt qt ns

/-- `_deserialize_node` 1331-1380 -/
def resolveInputsE (st : Store) (x : Ext) (top : Table) (outer : List Table) (vt : List (Name × Info × SS))
    (qt : List (Name × SS)) : List Name → Store × Ext × Table × List (Option Nat)
  | [] => (st, x, top, [])
  | n :: ns =>
    if n = "" then
      let (st1, x1, top1, vs) := resolveInputsE st x top outer vt qt ns
      (st1, x1, top1, none :: vs)
    else
      match resolve n (top :: outer) with
      | some v =>
        let (st1, x1, top1, vs) := resolveInputsE st x top outer vt qt ns
        (st1, x1, top1, some v :: vs)
      | none =>
        let (st3, x3, top3, vs) := resolveInputsE (newNamed st (eraseVT vt) n) (x.newNamed vt qt st.nv n)
          ((n, st.nv) :: top) outer vt qt ns
        (st3, x3, top3, some st.nv :: vs)

/-- 868-884: `deserialize_value_info_proto(info, value)` on a graph output MERGES the metadata -/
def deserOutputsE (st : Store) (x : Ext) (tbl : Table) : List VInfoE → Store × Ext × List Nat
  | [] => (st, x, [])
  | o :: os =>
    match tbl.lookup o.name with
    | some v =>
      let st1 := st.modify v fun c => { c with info := o.info }
      let (st2, x2, vs) := deserOutputsE st1 (x.merge v o.mprops) tbl os
      (st2, x2, v :: vs)
    | none =>
      let (st1, v) := st.alloc { name := some o.name, info := o.info }
      let (st2, x2, vs) := deserOutputsE st1 (x.merge v o.mprops) tbl os
      (st2, x2, v :: vs)

/-- `_resolve_sharded_value` on the merged scopes (inner scopes shadow outer ones) -/
def resolveShard (scopes : List Table) (n : Name) : ShardV :=
  if n = "" then .none
  else match resolve n scopes with
    | some v => .val v
    | none => .fresh n

/-- `deserialize_node_device_configuration` -/
def deserDevR (scopes : List Table) (d : DevP) : DevR :=
  ⟨nonEmpty d.cfg, d.stage, d.specs.map fun s => (resolveShard scopes s.1, s.2)⟩

mutual
def deserGraphE (st : Store) (x : Ext) (outer : List Table) : GraphE → Except Err (Store × Ext × GraphT)
  | .mk inputs inits vinfo nodes outputs quant =>
    let qt := quantTable quant
    let (st1, x1, ins) := deserInputsE st x qt inputs
    let tbl1 := inputTable (inputs.map VInfoE.erase) ins
    let vt := vinfoTableE vinfo
    let (st2, x2, tbl2, initVals) := deserInitsE st1 x1 tbl1 vt qt inits
    match declareNodesE st2 x2 tbl2 vt qt nodes with
    | .error e => .error e
    | .ok (st3, x3, tbl3) =>
      match deserNodesE st3 x3 tbl3 outer vt qt nodes with
      | .error e => .error e
      | .ok (st4, x4, tbl4, ns) =>
        let (st5, x5, outs) := deserOutputsE st4 x4 tbl4 outputs
        let r := mkGraph st5 ins outs ns initVals
        .ok (r.1, x5, r.2)
def deserNodesE (st : Store) (x : Ext) (top : Table) (outer : List Table) (vt : List (Name × Info × SS))
    (qt : List (Name × SS)) : List NodeE → Except Err (Store × Ext × Table × List NodeT)
  | [] => .ok (st, x, top, [])
  | n :: ns =>
    match deserNodeE st x top outer vt qt n with
    | .error e => .error e
    | .ok (st1, x1, top1, nt) =>
      match deserNodesE st1 x1 top1 outer vt qt ns with
      | .error e => .error e
      | .ok (st2, x2, top2, nts) => .ok (st2, x2, top2, nt :: nts)
def deserNodeE (st : Store) (x : Ext) (top : Table) (outer : List Table) (vt : List (Name × Info × SS))
    (qt : List (Name × SS)) : NodeE → Except Err (Store × Ext × Table × NodeT)
  | .mk inputs outputs devs subs =>
    let (st1, x1, top1, ins) := resolveInputsE st x top outer vt qt inputs
    match lookupOutputs st1 top1 outputs with
    | .error e => .error e
    | .ok (st2, outs) =>
      let dr := devs.map (deserDevR (top1 :: outer))
      match deserSubsE st2 x1 (top1 :: outer) subs with
      | .error e => .error e
      | .ok (st3, x3, gs) =>
        let r := mkNode st3 ins outs gs
        .ok (r.1, x3.setDevs st3.nn dr, top1, r.2)
def deserSubsE (st : Store) (x : Ext) (scopes : List Table) : List GraphE → Except Err (Store × Ext × List GraphT)
  | [] => .ok (st, x, [])
  | g :: gs =>
    match deserGraphE st x scopes g with
    | .error e => .error e
    | .ok (st1, x1, gt) =>
      match deserSubsE st1 x1 scopes gs with
      | .error e => .error e
      | .ok (st2, x2, gts) => .ok (st2, x2, gt :: gts)
end

/-- an IR graph with the extension state -/
structure WorldE where
  st : Store
  ext : Ext
  root : GraphT

def WorldE.core (w : WorldE) : World := ⟨w.st, w.root⟩

/-- `deserialize_graph(proto)` -/
def deserializeE (p : GraphE) : Except Err WorldE :=
  match deserGraphE {} {} [] p with
  | .error e => .error e
  | .ok (st, x, g) => .ok ⟨st, x, g⟩

/-! ## serialization -/

/-- what serialization reads of a value: the cell and the merged metadata -/
def presentE (c : ValueS) (m : SS) : Bool := c.info.present || !m.isEmpty

/-- `_should_create_value_info_for_value` -/
def shouldCreateE (c : ValueS) (m : SS) : Bool := presentE c m && nameTruthy c.name

/-- `serialize_value_into`: metadata sorted by key (nothing for an empty dict) -/
def serValueE (c : ValueS) (m : SS) : Except SErr VInfoE :=
  match c.name with
  | none => .error .nameNone
  | some n => .ok ⟨n, c.info.emit, ssSorted m⟩

def serValuesE (vals : Nat → ValueS) (x : Ext) : List Nat → Except SErr (List VInfoE)
  | [] => .ok []
  | v :: vs =>
    match serValueE (vals v) (x.vmeta v) with
    | .error e => .error e
    | .ok p =>
      match serValuesE vals x vs with
      | .error e => .error e
      | .ok ps => .ok (p :: ps)

/-- `_maybe_add_quantization_annotation`: nothing for a falsy entry; `tensor_name = value.name` raises on `None` -/
def quantOfE (vals : Nat → ValueS) (x : Ext) (v : Nat) : Except SErr (List QuantP) :=
  match x.quant v with
  | none => .ok []
  | some ps =>
    if ps.isEmpty then .ok []
    else match (vals v).name with
      | none => .error .nameNone
      | some n => .ok [⟨n, ssSorted ps⟩]

/-- 1905-1910: the annotations of the input loop; `seen` = ids already annotated -/
def quantInputsE (vals : Nat → ValueS) (x : Ext) (initKeys : List Name) :
    List Nat → List Nat → Except SErr (List QuantP × List Nat)
  | [], seen => .ok ([], seen)
  | v :: vs, seen =>
    if !(match (vals v).name with | some n => initKeys.contains n | none => false) && !seen.contains v then
      match quantOfE vals x v with
      | .error e => .error e
      | .ok q =>
        match quantInputsE vals x initKeys vs (v :: seen) with
        | .error e => .error e
        | .ok (r, seen') => .ok (q ++ r, seen')
    else quantInputsE vals x initKeys vs seen

/-- 1914-1916 (initializers) -/
def quantOnceE (vals : Nat → ValueS) (x : Ext) : List Nat → List Nat → Except SErr (List QuantP × List Nat)
  | [], seen => .ok ([], seen)
  | v :: vs, seen =>
    if !seen.contains v then
      match quantOfE vals x v with
      | .error e => .error e
      | .ok q =>
        match quantOnceE vals x vs (v :: seen) with
        | .error e => .error e
        | .ok (r, seen') => .ok (q ++ r, seen')
    else quantOnceE vals x vs seen

/-- 1935-1944: node outputs that are not graph outputs: annotation (no `annotated` check), value_info.
    `annot = false`: the node loop of `serialize_function_into` (2024-2035), which writes no annotations -/
def nodeOutsE (vals : Nat → ValueS) (x : Ext) (annot : Bool) (gouts : List Nat) :
    List Nat → Except SErr (List QuantP × List VInfoE)
  | [] => .ok ([], [])
  | v :: vs =>
    if gouts.contains v then nodeOutsE vals x annot gouts vs
    else
      match (if annot then quantOfE vals x v else .ok []) with
      | .error e => .error e
      | .ok q =>
        match nodeOutsE vals x annot gouts vs with
        | .error e => .error e
        | .ok (qs, vis) =>
          let c := vals v
          .ok (q ++ qs, if shouldCreateE c (x.vmeta v) then ⟨c.name.getD "", c.info.emit, ssSorted (x.vmeta v)⟩ :: vis else vis)

/-- 1913-1927: the initializer loop without the annotations -/
def serInitsE (vals : Nat → ValueS) (x : Ext) (td : TData) (inputNames : List (Option Name)) :
    List (Name × Nat) → List VInfoE × List TensorP × Writes
  | [] => ([], [], [])
  | (_, v) :: r =>
    let c := vals v
    let vi := if shouldCreateE c (x.vmeta v) && !(inputNames.contains c.name) then
      [(⟨c.name.getD "", c.info.emit, ssSorted (x.vmeta v)⟩ : VInfoE)] else []
    let (vis, ts, ws) := serInitsE vals x td inputNames r
    match c.const with
    | none => (vi ++ vis, ts, ws)
    | some t => (vi ++ vis, ⟨c.name.getD "", (td t).1, (td t).2.1, (td t).2.2⟩ :: ts, (t, c.name) :: ws)

inductive EErr where
  | name
  | dev (e : DErr)
deriving DecidableEq, Repr, Inhabited

def liftS {α : Type} : Except SErr α → Except EErr α
  | .ok a => .ok a
  | .error _ => .error .name

/-- `_serialize_sharding_spec`: the name of the value (raises without a value / without a name) -/
def specName (vals : Nat → ValueS) : ShardV → Option String
  | .none => none
  | .val v => (vals v).name
  | .fresh n => some n

def serDevR (vals : Nat → ValueS) (d : DevR) : Except DErr DevP :=
  serDev ⟨d.cfg, d.stage, d.specs.map fun s => (specName vals s.1, s.2)⟩

def serDevRs (vals : Nat → ValueS) : List DevR → Except DErr (List DevP)
  | [] => .ok []
  | d :: r =>
    match serDevR vals d with
    | .error e => .error e
    | .ok p => match serDevRs vals r with
      | .error e => .error e
      | .ok ps => .ok (p :: ps)

/-- `_serialize_node_multi_device_into`; `ver = none`: `serialize_graph` without a model (no gate) -/
def serDevRsGated (vals : Nat → ValueS) (ver : Option Int) (ds : List DevR) : Except DErr (List DevP) :=
  match ver with
  | some v => if v < 11 then .ok [] else serDevRs vals ds
  | none => serDevRs vals ds

mutual
/-- `serialize_graph_into` -/
def serGraphE (vals : Nat → ValueS) (x : Ext) (td : TData) (ver : Option Int) :
    GraphT → Except EErr (GraphE × Writes)
  | .mk _ inputs inits nodes outputs =>
    match liftS (serValuesE vals x inputs) with
    | .error e => .error e
    | .ok insP =>
      match liftS (quantInputsE vals x (inits.map (·.1)) inputs []) with
      | .error e => .error e
      | .ok (qIn, seen1) =>
        let inputNames := inputs.map fun v => (vals v).name
        match liftS (quantOnceE vals x (inits.map (·.2)) seen1) with
        | .error e => .error e
        | .ok (qInit, seen2) =>
          let (vis1, tps, ws1) := serInitsE vals x td inputNames inits
          match serNodesE vals x td ver true outputs nodes with
          | .error e => .error e
          | .ok (nps, qNodes, vis2, ws2) =>
            match liftS (serValuesE vals x outputs) with
            | .error e => .error e
            | .ok outsP =>
              match liftS (quantOnceE vals x outputs seen2) with
              | .error e => .error e
              | .ok (qOut, _) =>
                .ok (.mk insP tps (vis1 ++ vis2) nps outsP (qIn ++ qInit ++ qNodes ++ qOut), ws1 ++ ws2)
def serNodesE (vals : Nat → ValueS) (x : Ext) (td : TData) (ver : Option Int) (annot : Bool) (gouts : List Nat) :
    List NodeT → Except EErr (List NodeE × List QuantP × List VInfoE × Writes)
  | [] => .ok ([], [], [], [])
  | n :: ns =>
    match serNodeE vals x td ver annot gouts n with
    | .error e => .error e
    | .ok (np, q, vi, ws1) =>
      match serNodesE vals x td ver annot gouts ns with
      | .error e => .error e
      | .ok (nps, qs, vis, ws2) => .ok (np :: nps, q ++ qs, vi ++ vis, ws1 ++ ws2)
/-- `serialize_node_into` (inputs, outputs, attributes, device configurations), then the loop over its outputs -/
def serNodeE (vals : Nat → ValueS) (x : Ext) (td : TData) (ver : Option Int) (annot : Bool) (gouts : List Nat) :
    NodeT → Except EErr (NodeE × List QuantP × List VInfoE × Writes)
  | .mk id _ inputs outputs subs =>
    match liftS (serInputs vals inputs) with
    | .error e => .error e
    | .ok ins =>
      match liftS (serOutNames vals (stripTrailing vals outputs)) with
      | .error e => .error e
      | .ok outs =>
        match serSubsE vals x td ver subs with
        | .error e => .error e
        | .ok (gps, ws) =>
          match serDevRsGated vals ver (x.devs id) with
          | .error e => .error (.dev e)
          | .ok ds =>
            match liftS (nodeOutsE vals x annot gouts outputs) with
            | .error e => .error e
            | .ok (q, vi) => .ok (.mk ins outs ds gps, q, vi, ws)
def serSubsE (vals : Nat → ValueS) (x : Ext) (td : TData) (ver : Option Int) :
    List GraphT → Except EErr (List GraphE × Writes)
  | [] => .ok ([], [])
  | g :: gs =>
    match serGraphE vals x td ver g with
    | .error e => .error e
    | .ok (gp, ws1) =>
      match serSubsE vals x td ver gs with
      | .error e => .error e
      | .ok (gps, ws2) => .ok (gp :: gps, ws1 ++ ws2)
end

/-- `serialize_graph(graph)` with the IR version of the model (`none` outside a model) -/
def serializeE (ver : Option Int) (w : WorldE) : Except EErr (WorldE × GraphE) :=
  match serGraphE w.st.vals w.ext w.st.tdata ver w.root with
  | .error e => .error e
  | .ok (p, ws) => .ok (⟨w.st.writes ws, w.ext, w.root⟩, p)

/-! ## functions (IR version >= 10 format) and models -/

/-- `FunctionProto`: no quantization annotations (`quantization_annotations={}`, 972-976) -/
structure FuncE where
  id : FId
  inputs : List Name
  outputs : List Name
  vinfo : List VInfoE
  nodes : List NodeE

def FuncE.erase (f : FuncE) : FuncP := ⟨f.id, f.inputs, f.outputs, f.vinfo.map VInfoE.erase, eraseNs f.nodes⟩

structure ModelE where
  graph : GraphE
  funcs : List FuncE

def eraseM (p : ModelE) : ModelP := ⟨eraseG p.graph, p.funcs.map FuncE.erase⟩

/-- 959-965: the function inputs, with the metadata of their value_info entry -/
def deserFInputsE (st : Store) (x : Ext) (vt : List (Name × Info × SS)) : List Name → Store × Ext × List Nat
  | [] => (st, x, [])
  | n :: ns =>
    ((deserFInputsE (newNamed st (eraseVT vt) n) (x.newNamed vt [] st.nv n) vt ns).1,
      (deserFInputsE (newNamed st (eraseVT vt) n) (x.newNamed vt [] st.nv n) vt ns).2.1,
      st.nv :: (deserFInputsE (newNamed st (eraseVT vt) n) (x.newNamed vt [] st.nv n) vt ns).2.2)

/-- `deserialize_function` -/
def deserFunctionE (st : Store) (x : Ext) (f : FuncE) : Except Err (Store × Ext × GraphT) :=
  let vt := vinfoTableE f.vinfo
  let r1 := deserFInputsE st x vt f.inputs
  match declareNodesE r1.1 r1.2.1 (finputTable f.inputs r1.2.2) vt [] f.nodes with
  | .error e => .error e
  | .ok (st2, x2, tbl2) =>
    match deserNodesE st2 x2 tbl2 [] vt [] f.nodes with
    | .error e => .error e
    | .ok (st3, x3, tbl3, ns) =>
      match deserFOutputs tbl3 f.outputs with
      | .error e => .error e
      | .ok outs => .ok ((mkGraph st3 r1.2.2 outs ns []).1, x3, (mkGraph st3 r1.2.2 outs ns []).2)

def deserFuncsE (st : Store) (x : Ext) (d : List (FId × GraphT)) :
    List FuncE → Except Err (Store × Ext × List (FId × GraphT))
  | [] => .ok (st, x, d)
  | f :: fs =>
    match deserFunctionE st x f with
    | .error e => .error e
    | .ok (st1, x1, g) => deserFuncsE st1 x1 (fdictInsert d f.id g) fs

/-- an IR model with functions and the extension state -/
structure MWorldE where
  st : Store
  ext : Ext
  root : GraphT
  funcs : List (FId × GraphT)

def MWorldE.core (w : MWorldE) : MWorld := ⟨w.st, w.root, w.funcs⟩

/-- `deserialize_model` (main graph, functions) -/
def deserializeME (p : ModelE) : Except Err MWorldE :=
  match deserGraphE {} {} [] p.graph with
  | .error e => .error e
  | .ok (st, x, g) =>
    match deserFuncsE st x [] p.funcs with
    | .error e => .error e
    | .ok (st1, x1, fs) => .ok ⟨st1, x1, g, fs⟩

/-- 2006-2013 -/
def serFInputsE (vals : Nat → ValueS) (x : Ext) : List Nat → Except SErr (List Name × List VInfoE)
  | [] => .ok ([], [])
  | v :: vs =>
    match (vals v).name with
    | none => .error .nameNone
    | some n =>
      match serFInputsE vals x vs with
      | .error e => .error e
      | .ok (ns, vis) =>
        .ok (n :: ns, if shouldCreateE (vals v) (x.vmeta v) then ⟨n, (vals v).info.emit, ssSorted (x.vmeta v)⟩ :: vis else vis)

/-- `serialize_function_into` (IR version >= 10): no annotations, value_info for the inputs and for every node
    output that has something to say -/
def serFunctionE (vals : Nat → ValueS) (x : Ext) (td : TData) (ver : Option Int) (f : FId × GraphT) :
    Except EErr (FuncE × Writes) :=
  match f with
  | (id, .mk _ inputs _ nodes outputs) =>
    match liftS (serFInputsE vals x inputs) with
    | .error e => .error e
    | .ok (ins, vis1) =>
      match liftS (serOutNames vals outputs) with
      | .error e => .error e
      | .ok outs =>
        match serNodesE vals x td ver false [] nodes with
        | .error e => .error e
        | .ok (nps, _, vis2, ws) => .ok (⟨id, ins, outs, vis1 ++ vis2, nps⟩, ws)

def serFuncsE (vals : Nat → ValueS) (x : Ext) (td : TData) (ver : Option Int) :
    List (FId × GraphT) → Except EErr (List FuncE × Writes)
  | [] => .ok ([], [])
  | f :: fs =>
    match serFunctionE vals x td ver f with
    | .error e => .error e
    | .ok (fp, ws1) =>
      match serFuncsE vals x td ver fs with
      | .error e => .error e
      | .ok (fps, ws2) => .ok (fp :: fps, ws1 ++ ws2)

/-- `serialize_model` (IR version >= 10) -/
def serializeME (ver : Option Int) (w : MWorldE) : Except EErr (MWorldE × ModelE) :=
  match serGraphE w.st.vals w.ext w.st.tdata ver w.root with
  | .error e => .error e
  | .ok (p, ws1) =>
    match serFuncsE w.st.vals w.ext w.st.tdata ver w.funcs with
    | .error e => .error e
    | .ok (fps, ws2) => .ok (⟨w.st.writes (ws1 ++ ws2), w.ext, w.root, w.funcs⟩, ⟨p, fps⟩)

end IrVerif.Scope

/-
Model of the multi-device (IR version 11) annotations of onnx_ir — property C19.

A small object store: values, `ModelConfiguration` objects, nodes and models live in heaps
indexed by creation order (the index is the object identity, `is` in Python = `=` on ids).
Transcribed from

* `src/onnx_ir/_core.py` 2548-2684 `Node.shard`, 2686-2699 `sharding_of`,
  2701-2724 `_drop_sharding_for_value`, 2726-2768 `set_pipeline_stage`,
  2385-2398 `replace_input_with`, 2341-2364 `resize_inputs`, 2455-2492 `resize_outputs`,
  3838-3877 `Graph.remove(safe=)`, 4377-4435 `Model.add_device_configuration`,
  4437-4516 `Model.remove_device_configuration(cascade=)`, `Model.clone` (graph and functions),
  `Graph.clone(allow_outer_scope_values=)`, `Function.clone`;
* `src/onnx_ir/_cloner.py` `_clone_or_get_value`, `clone_node` (inputs incl. the outer-scope and
  `_pending_outputs` branches, attributes, outputs, the node-local `io_map` remap of fix D350),
  `_remap_device_configurations`, `clone_graph`;
* `src/onnx_ir/serde.py` 1620-1664 (serialization of specs and node configurations by *name*),
  2058-2095 (IR version gate), 1667-1696, 611-696 (`deserialize_model`,
  `_resolve_node_device_configurations`), 764-935 (scopes of value names), 1391-1401,
  1430-1524 (`_resolve_sharded_value`, placeholders);
* `src/onnx_ir/_multi_device.py` 243-382 `_check_device_configurations`.

Graphs nest: a node may own subgraphs (`NodeS.subgraphs`, the GRAPH attributes in order) whose
nodes may use values of the enclosing graphs.  A model has functions (`ModelS.funcs`, the body graphs
of `model.functions.values()`; a function body is a graph without initializers and without enclosing
scope).  A model keeps, besides its root graph, the flat lists of all its graphs and all its nodes -
those of the functions included (what `Model.graphs()` / `graph.all_nodes()` plus every function's
`graph` / `subgraphs()` / `all_nodes()` enumerate, which is what the checker, the cascade and the
deserializer's resolution pass walk; the harness compares them as sets with the real enumeration
after every operation).

What is NOT represented here (the harness keeps its inputs inside this fragment and says so):
graph / function outputs and call nodes (they exist only in the side table of the model of `InlinePass`,
`Model/DeviceInl.lean`), function attributes, hand-built
`NodeDeviceConfiguration`/`ShardingSpec` records (`value=None`, `configuration=None`, several
`simple_shardings` per axis, `index_to_device_group_map`) — every record is one that `shard` /
`set_pipeline_stage` can produce —, node/value attributes other than name and shape, and the
use lists of values (`Value.uses()` is computed from the inputs of all nodes of the heap, which
is what the use lists contain in every state reachable through the public API).
`None` and `""` names are both represented by `""` (every check in the anchored code is
`if not name`).  The serialization round trip is modelled only as far as the annotations depend on
it: resolution of value and configuration names through the deserializer's scopes, the IR-version
gate, trailing unnamed outputs; value shapes are assumed to survive (every value carries a type).

Besides the operations the file holds the operation alphabet (`Op`, `step`, `run`), the invariant
`DevOK` / `Named` and the in-alphabet condition `Pre` as decidable propositions: the driver
evaluates them after every operation and the harness compares them with its own evaluation of the
same facts on the real objects.  Only core Lean is imported (linked into `irdriver`).
-/
namespace IrVerif.Device

abbrev VId := Nat
abbrev CId := Nat
abbrev NId := Nat
abbrev GId := Nat
abbrev MId := Nat

/-- a dimension: `int`, `SymbolicDim("s")`, `SymbolicDim(None)` -/
inductive Dim where
  | int (n : Int)
  | sym (s : String)
  | unk
deriving DecidableEq, Repr, Inhabited

structure ValueS where
  name : String := ""
  shape : Option (List Dim) := none
deriving DecidableEq, Repr, Inhabited

/-- `ShardedDim(axis, (SimpleShardedDim(dim, num_shards),))` -/
structure SDim where
  axis : Int
  dim : Dim
  numShards : Int
deriving DecidableEq, Repr

/-- `ShardingSpec(value, device, sharded_dims)` -/
structure Spec where
  value : VId
  device : List Int
  dims : List SDim
deriving DecidableEq, Repr

/-- `NodeDeviceConfiguration(configuration, sharding_specs, pipeline_stage)` -/
structure NodeCfg where
  cfg : CId
  specs : List Spec
  stage : Option Int
deriving DecidableEq, Repr

structure NodeS where
  inputs : List (Option VId) := []
  outputs : List VId := []
  dev : List NodeCfg := []
  /-- the graphs held by the node's GRAPH attributes, in attribute order -/
  subgraphs : List GId := []
deriving DecidableEq, Repr, Inhabited

/-- a graph: its input values and its own nodes in order (nested nodes live in the subgraphs) -/
structure GraphS where
  inputs : List VId := []
  nodes : List NId := []
  /-- the initializer values (`graph.initializers.values()`, in dict order) -/
  inits : List VId := []
deriving DecidableEq, Repr, Inhabited

/-- `ModelConfiguration(name, num_devices, device_names)` (frozen) -/
structure CfgS where
  name : String := ""
  numDevices : Int := 0
  deviceNames : List String := []
deriving DecidableEq, Repr, Inhabited

/-- a model: root graph, all graphs (`Model.graphs()`), all nodes (`graph.all_nodes()`),
    registered configurations -/
structure ModelS where
  graph : GId := 0
  graphs : List GId := []
  nodes : List NId := []
  cfgs : List CId := []
  irVersion : Nat := 11
  /-- the body graphs of `model.functions.values()`, in dict order; their graphs and nodes are listed in
      `graphs` / `nodes` too (the checker, the cascade and the deserializer's resolution pass all walk
      `graph.all_nodes()` followed by every function's `all_nodes()`) -/
  funcs : List GId := []
deriving DecidableEq, Repr, Inhabited

/-- the root graphs of a model: the main graph, then the function bodies -/
def ModelS.roots (ms : ModelS) : List GId := ms.graph :: ms.funcs

structure World where
  values : List ValueS := []
  cfgs : List CfgS := []
  nodes : List NodeS := []
  graphs : List GraphS := []
  models : List ModelS := []
deriving DecidableEq, Repr, Inhabited

inductive Res where
  | ok
  | raised
deriving DecidableEq, Repr

def World.value (w : World) (v : VId) : ValueS := w.values.getD v {}
def World.cfg (w : World) (c : CId) : CfgS := w.cfgs.getD c {}
def World.node (w : World) (n : NId) : NodeS := w.nodes.getD n {}
def World.graph (w : World) (g : GId) : GraphS := w.graphs.getD g {}
def World.model (w : World) (m : MId) : ModelS := w.models.getD m {}

def World.setNode (w : World) (n : NId) (nd : NodeS) : World := { w with nodes := w.nodes.set n nd }
def World.setModel (w : World) (m : MId) (ms : ModelS) : World :=
  { w with models := w.models.set m ms }
def World.setGraph (w : World) (g : GId) (gs : GraphS) : World :=
  { w with graphs := w.graphs.set g gs }

/-- `len(value.shape) if value.shape is not None else None` -/
def rankOf (vs : ValueS) : Option Nat := vs.shape.map List.length

/-- `value in set(node._inputs) | set(node._outputs)` -/
def InIO (nd : NodeS) (v : VId) : Prop := some v ∈ nd.inputs ∨ v ∈ nd.outputs

instance (nd : NodeS) (v : VId) : Decidable (InIO nd v) := by unfold InIO; infer_instance

/-- `_normalize_axis` (`_core.py` 2628-2630, `_multi_device.py` 338-339) -/
def normAxis (rank : Option Nat) (a : Int) : Int :=
  match rank with
  | some r => if a < 0 then a + (r : Int) else a
  | none => a

/-- `rank is not None and not -rank <= axis < rank` -/
def AxisBad (rank : Option Nat) (a : Int) : Prop :=
  match rank with
  | some r => ¬ (-(r : Int) ≤ a ∧ a < (r : Int))
  | none => False

instance (rank : Option Nat) (a : Int) : Decidable (AxisBad rank a) := by
  unfold AxisBad; cases rank <;> infer_instance

/-- `shape[axis]` for an axis already known to be in range (Python negative indexing) -/
def shapeAt (sh : List Dim) (axis : Int) : Dim :=
  sh.getD (normAxis (some sh.length) axis).toNat .unk

/-! ### `Node.shard` -/

/-- inner loop of `shard` over `existing.sharding_specs` (`_core.py` 2647-2671); `none` = raise -/
def mergeSpecs (rank : Option Nat) (v : VId) (axis : Int) (devs : List Int) (newDim : SDim) :
    List Spec → Option (List Spec)
  | [] => some [{ value := v, device := devs, dims := [newDim] }]
  | s :: rest =>
    if s.value = v then
      if ∃ d ∈ s.dims, normAxis rank d.axis = normAxis rank axis then none
      else some ({ s with device := s.device ++ devs.filter (fun d => decide (d ∉ s.device)),
                          dims := s.dims ++ [newDim] } :: rest)
    else (mergeSpecs rank v axis devs newDim rest).map (s :: ·)

/-- `pipeline_stage is not None and existing.pipeline_stage is not None and they differ` -/
def StageConflict (new old : Option Int) : Prop :=
  match new, old with
  | some a, some b => a ≠ b
  | _, _ => False

instance (a b : Option Int) : Decidable (StageConflict a b) := by
  unfold StageConflict; cases a <;> cases b <;> infer_instance

/-- outer loop of `shard` over `self.device_configurations` (`_core.py` 2632-2683) -/
def shardCfgs (rank : Option Nat) (v : VId) (c : CId) (axis : Int) (devs : List Int)
    (newDim : SDim) (stage : Option Int) : List NodeCfg → Option (List NodeCfg)
  | [] => some [{ cfg := c, specs := [{ value := v, device := devs, dims := [newDim] }],
                  stage := stage }]
  | e :: rest =>
    if e.cfg = c then
      if StageConflict stage e.stage then none
      else
        match mergeSpecs rank v axis devs newDim e.specs with
        | none => none
        | some sp => some ({ e with specs := sp, stage := stage <|> e.stage } :: rest)
    else (shardCfgs rank v c axis devs newDim stage rest).map (e :: ·)

/-- the validation prefix of `shard` (`_core.py` 2601-2617), `true` = raises -/
def ShardArgsBad (nd : NodeS) (vs : ValueS) (v : VId) (axis numShards : Int)
    (stage : Option Int) : Prop :=
  ¬ InIO nd v ∨ numShards < 1 ∨ (∃ s, stage = some s ∧ s < 0) ∨ AxisBad (rankOf vs) axis

instance (nd : NodeS) (vs : ValueS) (v : VId) (axis numShards : Int) (stage : Option Int) :
    Decidable (ShardArgsBad nd vs v axis numShards stage) := by
  unfold ShardArgsBad
  have : Decidable (∃ s, stage = some s ∧ s < 0) := by
    cases stage with
    | none => exact isFalse (by simp)
    | some s => exact decidable_of_iff (s < 0) (by simp)
  infer_instance

/-- the new `device_configurations` tuple computed by `shard`, or `none` when it raises -/
def shardDev (nd : NodeS) (vs : ValueS) (v : VId) (c : CId) (axis numShards : Int)
    (devs : List Int) (stage : Option Int) : Option (List NodeCfg) :=
  if ShardArgsBad nd vs v axis numShards stage then none
  else
    let dim := match vs.shape with
      | some sh => shapeAt sh axis
      | none => Dim.unk
    shardCfgs (rankOf vs) v c axis devs ⟨axis, dim, numShards⟩ stage nd.dev

/-- `node.shard(...)` without the validation of the device indices -/
def shardCore (w : World) (n : NId) (v : VId) (c : CId) (axis numShards : Int) (devs : List Int)
    (stage : Option Int) : World × Res :=
  match shardDev (w.node n) (w.value v) v c axis numShards devs stage with
  | none => (w, .raised)
  | some d => (w.setNode n { (w.node n) with dev := d }, .ok)

/-- the device-index check of `shard` raises (`for device_index in device_indices: if not
    0 <= device_index < configuration.num_devices: raise ValueError`) -/
def DevsBad (w : World) (c : CId) (devs : List Int) : Prop :=
  ∃ d ∈ devs, ¬ (0 ≤ d ∧ d < (w.cfg c).numDevices)

instance (w : World) (c : CId) (devs : List Int) : Decidable (DevsBad w c devs) := by
  unfold DevsBad; infer_instance

/-- `node.shard(value, configuration=c, axis=, num_shards=, device_indices=, pipeline_stage=)`:
    everything is computed on a local list; the only assignment is the last statement. -/
def shard (w : World) (n : NId) (v : VId) (c : CId) (axis numShards : Int) (devs : List Int)
    (stage : Option Int) : World × Res :=
  if DevsBad w c devs then (w, .raised) else shardCore w n v c axis numShards devs stage

/-- `node.sharding_of(value)` -/
def shardingOf (nd : NodeS) (v : VId) : List Spec :=
  (nd.dev.map (fun nc => nc.specs.filter (fun s => decide (s.value = v)))).flatten

/-! ### `Node.set_pipeline_stage` -/

def setStageCfgs (c : CId) (stage : Int) : List NodeCfg → List NodeCfg
  | [] => [{ cfg := c, specs := [], stage := some stage }]
  | e :: rest =>
    if e.cfg = c then { e with stage := some stage } :: rest
    else e :: setStageCfgs c stage rest

def setStage (w : World) (n : NId) (c : CId) (stage : Int) : World × Res :=
  if stage < 0 then (w, .raised)
  else (w.setNode n { (w.node n) with dev := setStageCfgs c stage (w.node n).dev }, .ok)

/-! ### drop on detach -/

/-- `Node._drop_sharding_for_value` (`_core.py` 2701-2724) -/
def dropSharding (nd : NodeS) (v : VId) : NodeS :=
  if nd.dev = [] then nd
  else if InIO nd v then nd
  else { nd with dev := nd.dev.map (fun nc =>
          { nc with specs := nc.specs.filter (fun s => decide (s.value ≠ v)) }) }

/-- `Node.replace_input_with(index, value)` on the node record, index already checked -/
def replaceInputNode (nd : NodeS) (i : Nat) (val : Option VId) : NodeS :=
  let old := nd.inputs.getD i none
  let nd1 := { nd with inputs := nd.inputs.set i val }
  match old with
  | some o => if old ≠ val then dropSharding nd1 o else nd1
  | none => nd1

def replaceInput (w : World) (n : NId) (i : Int) (val : Option VId) : World × Res :=
  if i < 0 ∨ i ≥ ((w.node n).inputs.length : Int) then (w, .raised)
  else (w.setNode n (replaceInputNode (w.node n) i.toNat val), .ok)

/-- `Node.resize_inputs(new_size)` on the node record -/
def resizeInputsNode (nd : NodeS) (k : Nat) : NodeS :=
  let cur := nd.inputs.length
  if k = cur then nd
  else if k < cur then
    let nd1 := (List.range' k (cur - k)).foldl (fun a i => replaceInputNode a i none) nd
    { nd1 with inputs := nd1.inputs.take k }
  else { nd with inputs := nd.inputs ++ List.replicate (k - cur) none }

def resizeInputs (w : World) (n : NId) (k : Nat) : World × Res :=
  (w.setNode n (resizeInputsNode (w.node n) k), .ok)

/-- `bool(value.uses())`: some node of the heap has the value as an input -/
def HasUses (w : World) (v : VId) : Prop := ∃ nd ∈ w.nodes, some v ∈ nd.inputs

instance (w : World) (v : VId) : Decidable (HasUses w v) := by unfold HasUses; infer_instance

/-- `Node.resize_outputs(new_size)` (`_core.py` 2455-2492); new outputs are anonymous values -/
def resizeOutputs (w : World) (n : NId) (k : Nat) : World × Res :=
  let nd := w.node n
  let cur := nd.outputs.length
  if k = cur then (w, .ok)
  else if k < cur then
    let removed := nd.outputs.drop k
    if ∃ o ∈ removed, HasUses w o then (w, .raised)
    else
      let nd1 := { nd with outputs := nd.outputs.take k }
      (w.setNode n (removed.foldl dropSharding nd1), .ok)
  else
    let base := w.values.length
    let w1 := { w with values := w.values ++ List.replicate (k - cur) ({} : ValueS) }
    (w1.setNode n { nd with outputs := nd.outputs ++ List.range' base (k - cur) }, .ok)

/-! ### renames, construction, node removal -/

/-- `value.name = s` (`_core.py` Value.name setter): nothing when the name is unchanged; an
    initializer cannot be renamed to an empty name or to the name of another initializer of its
    graph (checked before anything is written); renaming an initializer re-inserts it at the end of
    the initializer dict -/
def rename (w : World) (v : VId) (s : String) : World × Res :=
  if (w.value v).name = s then (w, .ok)
  else if ∃ gs ∈ w.graphs, v ∈ gs.inits ∧ (s = "" ∨ ∃ v' ∈ gs.inits, v' ≠ v ∧ (w.value v').name = s) then
    (w, .raised)
  else
    ({ w with values := w.values.set v { (w.value v) with name := s },
              graphs := w.graphs.map (fun gs =>
                if v ∈ gs.inits then { gs with inits := gs.inits.filter (fun x => decide (x ≠ v)) ++ [v] }
                else gs) }, .ok)

/-- `value.shape = Shape(...)` (shapes are not touched by any annotation code) -/
def setShape (w : World) (v : VId) (shape : Option (List Dim)) : World × Res :=
  ({ w with values := w.values.set v { (w.value v) with shape := shape } }, .ok)

/-- `model.functions[id] = Function(domain, fresh, graph=Graph([], [], nodes=[]), attributes=[])`: a new
    function with an empty body -/
def newFunction (w : World) (m : MId) : World × Res :=
  let g := w.graphs.length
  let ms := w.model m
  (({ w with graphs := w.graphs ++ [{}] } : World).setModel m
    { ms with graphs := ms.graphs ++ [g], funcs := ms.funcs ++ [g] }, .ok)

/-- a new empty model (`Model(Graph([], [], nodes=[]), ir_version=)`) -/
def newModel (w : World) (ir : Nat) : World × Res :=
  let g := w.graphs.length
  ({ w with graphs := w.graphs ++ [{}],
            models := w.models ++ [{ graph := g, graphs := [g], irVersion := ir }] }, .ok)

/-- `graph.inputs.append(Value(name, shape))` for the graph `g` (root graph or subgraph) -/
def newInput (w : World) (g : GId) (name : String) (shape : Option (List Dim)) : World × Res :=
  let v := w.values.length
  let w1 := { w with values := w.values ++ [({ name := name, shape := shape } : ValueS)] }
  (w1.setGraph g { (w.graph g) with inputs := (w.graph g).inputs ++ [v] }, .ok)

/-- `g.register_initializer(Value(name, shape, const_value=tensor))` with a fresh value -/
def newInit (w : World) (g : GId) (name : String) (shape : Option (List Dim)) : World × Res :=
  if name = "" then (w, .raised)
  else if ∃ v ∈ (w.graph g).inits, (w.value v).name = name then (w, .raised)
  else
    let v := w.values.length
    let w1 := { w with values := w.values ++ [({ name := name, shape := shape } : ValueS)] }
    (w1.setGraph g { (w.graph g) with inits := (w.graph g).inits ++ [v] }, .ok)

/-- `node.attributes.add(AttrGraph(name, Graph([], [], nodes=[])))`: a new empty subgraph of node
    `n`; it becomes a graph of every model that enumerates `n` -/
def newSubgraph (w : World) (n : NId) : World × Res :=
  let g := w.graphs.length
  let w1 : World := { w with
    graphs := w.graphs ++ [{}],
    models := w.models.map (fun ms => if n ∈ ms.nodes then { ms with graphs := ms.graphs ++ [g] } else ms) }
  (w1.setNode n { (w.node n) with subgraphs := (w.node n).subgraphs ++ [g] }, .ok)

/-- `g.append(Node(..., inputs, outputs=[Value(name, shape), ...]))` for a root graph or a
    subgraph `g`; the node is enumerated by every model that owns `g` -/
def newNode (w : World) (g : GId) (inputs : List (Option VId))
    (outs : List (String × Option (List Dim))) : World × Res :=
  let base := w.values.length
  let n := w.nodes.length
  let w1 : World := { w with
    values := w.values ++ outs.map (fun o => ({ name := o.1, shape := o.2 } : ValueS)),
    nodes := w.nodes ++ [{ inputs := inputs, outputs := List.range' base outs.length, dev := [] }],
    models := w.models.map (fun ms => if g ∈ ms.graphs then { ms with nodes := ms.nodes ++ [n] } else ms) }
  (w1.setGraph g { (w.graph g) with nodes := (w.graph g).nodes ++ [n] }, .ok)

/-- the nodes and graphs nested under node `n` (what leaves `all_nodes()` / `graphs()` with it) -/
def subtreeF : Nat → World → NId → List NId × List GId
  | 0, _, _ => ([], [])
  | f + 1, w, n =>
    (w.node n).subgraphs.foldl (fun acc g =>
      (w.graph g).nodes.foldl (fun a k =>
        let r := subtreeF f w k
        (a.1 ++ k :: r.1, a.2 ++ r.2)) (acc.1, acc.2 ++ [g])) ([], [])

/-- `g.remove(node, safe=)` (`_core.py` 3838-3877, 3488-3521; no graph outputs here) -/
def removeNode (w : World) (g : GId) (n : NId) (safe : Bool) : World × Res :=
  let gs := w.graph g
  if n ∉ gs.nodes then (w, .raised)
  else
    let nd := w.node n
    if safe = true ∧ (∃ o ∈ nd.outputs, ∃ k, k < w.nodes.length ∧ k ≠ n ∧ some o ∈ (w.node k).inputs) then
      (w, .raised)
    else
      let nd1 := if safe then
          (List.range' 0 nd.inputs.length).foldl (fun a i => replaceInputNode a i none) nd
        else nd
      let sub := subtreeF (w.nodes.length + 1) w n
      let w1 := (w.setNode n nd1).setGraph g { gs with nodes := gs.nodes.filter (fun k => decide (k ≠ n)) }
      ({ w1 with models := w1.models.map (fun ms =>
          if g ∈ ms.graphs then
            { ms with nodes := ms.nodes.filter (fun k => decide (k ≠ n ∧ k ∉ sub.1)),
                      graphs := ms.graphs.filter (fun k => decide (k ∉ sub.2)) }
          else ms) }, .ok)

/-! ### `Model.add_device_configuration` / `remove_device_configuration` -/

def addCfg (w : World) (m : MId) (name : String) (numDevices : Option Int)
    (names : List String) : World × Res :=
  let ms := w.model m
  if name = "" then (w, .raised)
  else if ∃ c ∈ ms.cfgs, (w.cfg c).name = name then (w, .raised)
  else
    let nd : Int := numDevices.getD names.length
    if nd < 1 then (w, .raised)
    else if names ≠ [] ∧ (names.length : Int) ≠ nd then (w, .raised)
    else
      let c := w.cfgs.length
      let w1 := { w with cfgs := w.cfgs ++ [({ name := name, numDevices := nd, deviceNames := names } : CfgS)] }
      (w1.setModel m { ms with cfgs := ms.cfgs ++ [c] }, .ok)

inductive CfgRef where
  | byName (s : String)
  | byObj (c : CId)
deriving DecidableEq, Repr

/-- the `target` of `remove_device_configuration` or `none` (raises) -/
def removeTarget (w : World) (ms : ModelS) : CfgRef → Option CId
  | .byName s => ms.cfgs.find? (fun c => decide ((w.cfg c).name = s))
  | .byObj c => if c ∈ ms.cfgs then some c else none

def CfgRef.isByName : CfgRef → Bool
  | .byName _ => true
  | .byObj _ => false

/-- `_is_target` of the cascade (`_core.py` 4496-4501) -/
def IsTarget (w : World) (byName : Bool) (t : CId) (nc : NodeCfg) : Prop :=
  nc.cfg = t ∨ (byName = true ∧ (w.cfg nc.cfg).name = (w.cfg t).name)

instance (w : World) (b : Bool) (t : CId) (nc : NodeCfg) : Decidable (IsTarget w b t nc) := by
  unfold IsTarget; infer_instance

def removeCfg (w : World) (m : MId) (r : CfgRef) (cascade : Bool) : World × Res :=
  let ms := w.model m
  match removeTarget w ms r with
  | none => (w, .raised)
  | some t =>
    let w1 := w.setModel m { ms with cfgs := ms.cfgs.filter (fun c => decide (c ≠ t)) }
    if cascade then
      ({ w1 with nodes := w1.nodes.mapIdx (fun i nd =>
          if i ∈ ms.nodes then
            { nd with dev := nd.dev.filter (fun nc => decide (¬ IsTarget w r.isByName t nc)) }
          else nd) }, .ok)
    else (w1, .ok)

/-! ### re-attaching a node, direct assignment of the annotation tuples -/

/-- a node that belongs to a graph other than `g` (`node.graph is not None and node.graph is not g`) -/
def InOtherGraph (w : World) (g : GId) (n : NId) : Prop :=
  ∃ g', g' < w.graphs.length ∧ g' ≠ g ∧ n ∈ (w.graph g').nodes

instance (w : World) (g : GId) (n : NId) : Decidable (InOtherGraph w g n) := by
  unfold InOtherGraph; infer_instance

/-- `g.append(node)` for an existing node (`_check_node_can_be_added`: a node that belongs to another
    graph is rejected; a node of `g` itself is moved to the end); a detached node and everything
    nested under it is enumerated again by the models owning `g` -/
def attachNode (w : World) (g : GId) (n : NId) : World × Res :=
  if InOtherGraph w g n then (w, .raised)
  else if n ∈ (w.graph g).nodes then
    (w.setGraph g { (w.graph g) with nodes := (w.graph g).nodes.filter (fun k => decide (k ≠ n)) ++ [n] }, .ok)
  else
    let sub := subtreeF (w.nodes.length + 1) w n
    let w1 := w.setGraph g { (w.graph g) with nodes := (w.graph g).nodes ++ [n] }
    ({ w1 with models := w1.models.map (fun ms =>
        if g ∈ ms.graphs then
          { ms with nodes := ms.nodes ++ n :: sub.1, graphs := ms.graphs ++ sub.2 }
        else ms) }, .ok)

/-- `node.device_configurations = (...)` with records of the shape `shard` produces -/
def setDev (w : World) (n : NId) (dev : List NodeCfg) : World × Res :=
  (w.setNode n { (w.node n) with dev := dev }, .ok)

/-- `model.device_configurations = (...)` with existing configuration objects -/
def setModelCfgs (w : World) (m : MId) (cfgs : List CId) : World × Res :=
  (w.setModel m { (w.model m) with cfgs := cfgs }, .ok)

/-! ### the operations as Python-ordered micro-steps

Every call that can raise after touching an *existing* object is also written as the sequence of its
checks (each raising on the condition the Python code tests, evaluated on the current state) and
writes, in code order; `runMicro` stops at the first failing check and returns the state reached so
far (no roll-back).  `step` runs these programs; the functions above are their denotations
(`Lemmas/Device.lean` proves the two agree). -/

inductive Micro where
  | check (bad : World → Bool)
  | write (f : World → World)

def runMicro : World → List Micro → World × Res
  | w, [] => (w, .ok)
  | w, .check bad :: rest => if bad w then (w, .raised) else runMicro w rest
  | w, .write f :: rest => runMicro (f w) rest

def Micro.isWrite : Micro → Bool
  | .write _ => true
  | .check _ => false

/-- no check comes after a write -/
def ChecksFirst : List Micro → Prop
  | [] => True
  | .check _ :: rest => ChecksFirst rest
  | .write _ :: rest => ∀ m ∈ rest, m.isWrite = true

/-- the record of `self.device_configurations` the `shard` loop stops at -/
def firstCfg (dev : List NodeCfg) (c : CId) : Option NodeCfg := dev.find? (fun e => decide (e.cfg = c))

/-- raise point 1 of the `shard` loop: conflicting `pipeline_stage` on the record of `configuration` -/
def conflictBad (dev : List NodeCfg) (c : CId) (stage : Option Int) : Bool :=
  match firstCfg dev c with
  | some e => decide (StageConflict stage e.stage)
  | none => false

/-- raise point 2 of the `shard` loop: the value is already sharded along the (normalised) axis -/
def repeatBad (dev : List NodeCfg) (c : CId) (v : VId) (rank : Option Nat) (axis : Int) : Bool :=
  match firstCfg dev c with
  | some e =>
    match e.specs.find? (fun s => decide (s.value = v)) with
    | some s => decide (∃ d ∈ s.dims, normAxis rank d.axis = normAxis rank axis)
    | none => false
  | none => false

/-- `stage is not None and stage < 0` -/
def stageNeg (stage : Option Int) : Bool :=
  match stage with
  | some s => decide (s < 0)
  | none => false

/-- `Node.shard` (`_core.py`): the validation prefix, then the two raise points inside the loops (both
    before anything is assigned: the loops work on local lists), then the single assignment -/
def shardProg (n : NId) (v : VId) (c : CId) (axis numShards : Int) (devs : List Int)
    (stage : Option Int) : List Micro :=
  [ .check (fun w => decide (¬ InIO (w.node n) v)),
    .check (fun _ => decide (numShards < 1)),
    .check (fun _ => stageNeg stage),
    .check (fun w => decide (DevsBad w c devs)),
    .check (fun w => decide (AxisBad (rankOf (w.value v)) axis)),
    .check (fun w => conflictBad (w.node n).dev c stage),
    .check (fun w => repeatBad (w.node n).dev c v (rankOf (w.value v)) axis),
    .write (fun w => match shardDev (w.node n) (w.value v) v c axis numShards devs stage with
      | some d => w.setNode n { (w.node n) with dev := d }
      | none => w) ]

def setStageProg (n : NId) (c : CId) (stage : Int) : List Micro :=
  [ .check (fun _ => decide (stage < 0)),
    .write (fun w => w.setNode n { (w.node n) with dev := setStageCfgs c stage (w.node n).dev }) ]

def replaceInputProg (n : NId) (i : Int) (val : Option VId) : List Micro :=
  [ .check (fun w => decide (i < 0 ∨ i ≥ ((w.node n).inputs.length : Int))),
    .write (fun w => w.setNode n (replaceInputNode (w.node n) i.toNat val)) ]

def resizeOutputsProg (n : NId) (k : Nat) : List Micro :=
  [ .check (fun w => decide (k < (w.node n).outputs.length ∧ ∃ o ∈ (w.node n).outputs.drop k, HasUses w o)),
    .write (fun w => (resizeOutputs w n k).1) ]

def removeNodeProg (g : GId) (n : NId) (safe : Bool) : List Micro :=
  [ .check (fun w => decide (n ∉ (w.graph g).nodes)),
    .check (fun w => decide (safe = true ∧
        (∃ o ∈ (w.node n).outputs, ∃ k, k < w.nodes.length ∧ k ≠ n ∧ some o ∈ (w.node k).inputs))),
    .write (fun w => (removeNode w g n safe).1) ]

def renameProg (v : VId) (s : String) : List Micro :=
  [ .check (fun w => decide ((w.value v).name ≠ s ∧ ∃ gs ∈ w.graphs, v ∈ gs.inits ∧
        (s = "" ∨ ∃ v' ∈ gs.inits, v' ≠ v ∧ (w.value v').name = s))),
    .write (fun w => (rename w v s).1) ]

def newInitProg (g : GId) (name : String) (shape : Option (List Dim)) : List Micro :=
  [ .check (fun _ => decide (name = "")),
    .check (fun w => decide (∃ v ∈ (w.graph g).inits, (w.value v).name = name)),
    .write (fun w => (newInit w g name shape).1) ]

def attachNodeProg (g : GId) (n : NId) : List Micro :=
  [ .check (fun w => decide (InOtherGraph w g n)),
    .write (fun w => (attachNode w g n).1) ]

def addCfgProg (m : MId) (name : String) (numDevices : Option Int) (names : List String) : List Micro :=
  [ .check (fun _ => decide (name = "")),
    .check (fun w => decide (∃ c ∈ (w.model m).cfgs, (w.cfg c).name = name)),
    .check (fun _ => decide (numDevices.getD (names.length : Int) < 1)),
    .check (fun _ => decide (names ≠ [] ∧ (names.length : Int) ≠ numDevices.getD (names.length : Int))),
    .write (fun w => (addCfg w m name numDevices names).1) ]

def removeCfgProg (m : MId) (r : CfgRef) (cascade : Bool) : List Micro :=
  [ .check (fun w => (removeTarget w (w.model m) r).isNone),
    .write (fun w => (removeCfg w m r cascade).1) ]

/-! ### clone -/

abbrev VMap := List (VId × VId)

/-- `self._value_map[v]` / `v in self._value_map`; insertion is at the head so a later
    assignment to the same key shadows the earlier one as in a dict -/
def vlookup (vm : VMap) (v : VId) : Option VId := (vm.find? (fun p => decide (p.1 = v))).map (·.2)

/-- `Cloner._clone_or_get_value` -/
def cloneValue (st : World × VMap) (v : VId) : World × VMap :=
  match vlookup st.2 v with
  | some _ => st
  | none =>
    let w := st.1
    ({ w with values := w.values ++ [w.value v] }, (v, w.values.length) :: st.2)

/-- `Cloner._remap_device_configurations(device_configurations, value_map)` (the map never holds `None`
    for a graph clone; an entry `v -> v` - an outer-scope value passed through - leaves the spec as it is) -/
def remapDev (vm : VMap) (dev : List NodeCfg) : List NodeCfg :=
  dev.map (fun nc => { nc with specs := nc.specs.map (fun s =>
    match vlookup vm s.value with
    | some v' => { s with value := v' }
    | none => s) })

/-- inputs of the cloned node (`_cloner.py` clone_node, first loop); `none` = raises: an input that
    is not in the value map is an outer-scope value — an error with allow_outer_scope_values=False, an
    error when it is an output of a not yet cloned node of a graph being cloned (`_pending_outputs`),
    and passed through unchanged otherwise -/
def cloneInputs (allow : Bool) (pending : List VId) (vm : VMap) : List (Option VId) → Option (List (Option VId))
  | [] => some []
  | none :: rest => (cloneInputs allow pending vm rest).map (none :: ·)
  | some v :: rest =>
    match vlookup vm v with
    | none =>
      if allow = true ∧ v ∉ pending then (cloneInputs allow pending vm rest).map (some v :: ·) else none
    | some v' => (cloneInputs allow pending vm rest).map (some v' :: ·)

/-- state of a `Cloner`: the world, the value map, the nodes and graphs created so far,
    `allow_outer_scope_values` and `_pending_outputs` -/
structure CSt where
  w : World
  vm : VMap := []
  newNodes : List NId := []
  newGraphs : List GId := []
  allow : Bool := false
  pending : List VId := []
deriving Repr

/-- `io_map` of `clone_node` (`_cloner.py` 243-248): old input -> new input for every input that is not
    `None`, then old output -> new output (a later assignment to the same key wins: lookup finds the
    first entry, so the list is in reverse order of assignment) -/
def ioMap (ins newIns : List (Option VId)) (outs newOuts : List VId) : VMap :=
  (outs.zip newOuts).reverse ++
  ((ins.zip newIns).filterMap (fun p => match p with
    | (some a, some b) => some (a, b)
    | _ => none)).reverse

/-- `clone_attr` over the GRAPH attributes of a node; `rec` is `clone_graph` -/
def cloneSubgraphs (rec : CSt → GId → Option (CSt × GId)) : CSt → List GId → Option (CSt × List GId)
  | st, [] => some (st, [])
  | st, g :: rest =>
    match rec st g with
    | none => none
    | some (st1, g') => (cloneSubgraphs rec st1 rest).map (fun r => (r.1, g' :: r.2))

/-- `Cloner.clone_node` of the node `nd` of the source world: inputs through the value map, then
    the attributes (subgraphs, recursively), then the new node and its outputs, then the remap of the
    annotations through the node-local `io_map` (fix D350: not through the global value map, except for
    specs that target a value outside the node, D340 / D341) -/
def cloneNode (rec : CSt → GId → Option (CSt × GId)) (st : CSt) (nd : NodeS) : Option (CSt × NId) :=
  match cloneInputs st.allow st.pending st.vm nd.inputs with
  | none => none
  | some ins =>
    match cloneSubgraphs rec st nd.subgraphs with
    | none => none
    | some (st1, subs) =>
      let w := st1.w
      let newOuts := List.range' w.values.length nd.outputs.length
      let vm := (nd.outputs.zip newOuts).reverse ++ st1.vm
      -- D340: a spec whose value is not an input / output of the node follows the global value map;
      -- D341: with allow_outer_scope_values=False such a spec without an entry there raises
      let io := ioMap nd.inputs ins nd.outputs newOuts ++ vm
      if st.allow = false ∧ ∃ nc ∈ nd.dev, ∃ s ∈ nc.specs, vlookup io s.value = none then none else
      let w1 : World := { w with
        values := w.values ++ nd.outputs.map w.value,
        nodes := w.nodes ++ [{ inputs := ins, outputs := newOuts,
                               dev := remapDev io nd.dev,
                               subgraphs := subs }] }
      some ({ st1 with
              w := w1, vm := vm,
              pending := st1.pending.filter (fun v => decide (v ∉ nd.outputs)),
              newNodes := st1.newNodes ++ [w.nodes.length] }, w.nodes.length)

/-- the nodes of one graph, in order (`src` is the world being cloned: source objects are not
    mutated by a clone) -/
def cloneNodes (rec : CSt → GId → Option (CSt × GId)) (src : World) :
    CSt → List NId → List NId → Option (CSt × List NId)
  | st, [], acc => some (st, acc.reverse)
  | st, n :: rest, acc =>
    match cloneNode rec st (src.node n) with
    | none => none
    | some (st1, k) => cloneNodes rec src st1 rest (k :: acc)

/-- `Cloner.clone_graph`: inputs, initializers, nodes, then the new `Graph` -/
def cloneGraphBody (rec : CSt → GId → Option (CSt × GId)) (src : World) (st : CSt) (g : GId) :
    Option (CSt × GId) :=
  let gs := src.graph g
  let r := (gs.inputs ++ gs.inits).foldl cloneValue (st.w, st.vm)
  let newIns := gs.inputs.filterMap (vlookup r.2)
  let newInits := gs.inits.filterMap (vlookup r.2)
  let st0 : CSt := { st with w := r.1, vm := r.2,
                             pending := st.pending ++ (gs.nodes.map (fun n => (src.node n).outputs)).flatten }
  match cloneNodes rec src st0 gs.nodes [] with
  | none => none
  | some (st2, ns) =>
    let g' := st2.w.graphs.length
    some ({ st2 with
            w := { st2.w with graphs := st2.w.graphs ++ [{ inputs := newIns, nodes := ns, inits := newInits }] },
            newGraphs := st2.newGraphs ++ [g'] }, g')

/-- `clone_graph` with the nesting depth bounded by `fuel` (`none` when exhausted) -/
def cloneGraphF (src : World) : Nat → CSt → GId → Option (CSt × GId)
  | 0, _, _ => none
  | f + 1, st, g => cloneGraphBody (cloneGraphF src f) src st g

/-- one `Cloner` per root graph (`Graph.clone` of the main graph, then `Function.clone` of every
    function in dict order): the value map starts empty for each of them, the world and the
    bookkeeping are threaded through -/
def cloneRoots (src : World) (fuel : Nat) : CSt → List GId → Option (CSt × List GId)
  | st, [] => some (st, [])
  | st, g :: rest =>
    match cloneGraphF src fuel { st with vm := [], pending := [] } g with
    | none => none
    | some (st1, g') => (cloneRoots src fuel st1 rest).map (fun r => (r.1, g' :: r.2))

/-- `Model.clone()` (`_core.py` 4686-4718: the graph, then every function, each with its own `Cloner`;
    the configuration objects are shared) -/
def cloneModel (w : World) (m : MId) : World × Res :=
  let ms := w.model m
  match cloneRoots w (w.graphs.length + 1) { w := w } ms.roots with
  | none => (w, .raised)
  | some (st, gs') =>
    ({ st.w with models := st.w.models ++
        [{ graph := gs'.headD 0, graphs := st.newGraphs, nodes := st.newNodes, cfgs := ms.cfgs,
           irVersion := ms.irVersion, funcs := gs'.tail }] }, .ok)


/-- `f2 = list(model.functions.values())[i].clone()` (`_core.py` 4905-4937: a fresh `Cloner`, outer-scope
    values not allowed) registered on the same model under a new name
    (`f2.name = fresh; model.functions[f2.identifier()] = f2`) -/
def cloneFunc (w : World) (m : MId) (i : Nat) : World × Res :=
  let ms := w.model m
  match ms.funcs[i]? with
  | none => (w, .raised)
  | some g =>
    match cloneGraphF w (w.graphs.length + 1) { w := w } g with
    | none => (w, .raised)
    | some (st, g') =>
      (st.w.setModel m { ms with nodes := ms.nodes ++ st.newNodes, graphs := ms.graphs ++ st.newGraphs,
                                 funcs := ms.funcs ++ [g'] }, .ok)

/-- `g2 = graph.clone(allow_outer_scope_values=True)` (`_core.py` 3907-3950) attached to node `n` as a
    further GRAPH attribute (`n.attributes.add(AttrGraph(fresh, g2))`); the new nodes and graphs are
    enumerated by every model that enumerates `n` -/
def cloneSub (w : World) (n : NId) (g : GId) : World × Res :=
  match cloneGraphF w (w.graphs.length + 1) { w := w, allow := true } g with
  | none => (w, .raised)
  | some (st, g') =>
    let w1 : World := { st.w with models := st.w.models.map (fun ms =>
      if n ∈ ms.nodes then { ms with nodes := ms.nodes ++ st.newNodes, graphs := ms.graphs ++ st.newGraphs }
      else ms) }
    (w1.setNode n { (w1.node n) with subgraphs := (w1.node n).subgraphs ++ [g'] }, .ok)

/-! ### the inliner's instantiation of a function-body node

`InlinePass._instantiate_call` (`passes/common/inliner.py` 232-262) builds a `Cloner` whose value map sends
every formal parameter of the function to the actual argument of the call node - or to `None` when the
argument is missing / `None` - and calls `clone_node` for every node of the body.  The value map is
`Option`-valued here; `clone_node` is the same code as above (`_cloner.py`): inputs through the map
(`None` stays `None`, a mapped-to-`None` formal becomes a missing input, an input without entry raises),
outputs fresh, and the annotations through the node-local `io_map`, where an entry `None` *drops* the spec
(`_remap_device_configurations`: "the value was dropped from the clone").  Only this step of the pass is
modelled (body nodes without subgraphs); the rest of the pass re-wires uses (`replace_input_with`, i.e.
`replaceInput` above) and removes the call node (`removeNode`). -/

abbrev OMap := List (VId × Option VId)

/-- `value in value_map` / `value_map[value]` for a map that may hold `None` -/
def olookup (om : OMap) (v : VId) : Option (Option VId) := (om.find? (fun p => decide (p.1 = v))).map (·.2)

/-- `_remap_device_configurations(device_configurations, value_map)`: no entry: the spec is kept; entry
    `None`: the spec is dropped; entry `v'`: the spec is retargeted -/
def remapDevO (om : OMap) (dev : List NodeCfg) : List NodeCfg :=
  dev.map (fun nc => { nc with specs := nc.specs.filterMap (fun s =>
    match olookup om s.value with
    | none => some s
    | some none => none
    | some (some v') => some { s with value := v' }) })

/-- the new inputs of `clone_node` (allow_outer_scope_values=False): `none` = raises -/
def cloneInputsO (vm : OMap) : List (Option VId) → Option (List (Option VId))
  | [] => some []
  | none :: rest => (cloneInputsO vm rest).map (none :: ·)
  | some v :: rest =>
    match olookup vm v with
    | none => none
    | some t => (cloneInputsO vm rest).map (t :: ·)

/-- `io_map` of `clone_node` with possibly-`None` new inputs -/
def ioMapO (ins newIns : List (Option VId)) (outs newOuts : List VId) : OMap :=
  ((outs.zip newOuts).map (fun p => (p.1, some p.2))).reverse ++
  ((ins.zip newIns).filterMap (fun p => match p.1 with
    | some a => some (a, p.2)
    | none => none)).reverse

/-- `Cloner(value_map=vm, ...).clone_node(nd)` for a body node without subgraphs; the new outputs are the
    values `base, base+1, ...` -/
def instNode (vm : OMap) (nd : NodeS) (base : Nat) : Option NodeS :=
  match cloneInputsO vm nd.inputs with
  | none => none
  | some ins =>
    let newOuts := List.range' base nd.outputs.length
    -- D340 / D341: a spec on a value that is not an input / output of the node follows the inliner's value
    -- map; without an entry there it raises (the inliner's cloner does not allow outer-scope values)
    let io := ioMapO nd.inputs ins nd.outputs newOuts ++ vm
    if ∃ nc ∈ nd.dev, ∃ s ∈ nc.specs, olookup io s.value = none then none else
    some { inputs := ins, outputs := newOuts, dev := remapDevO io nd.dev, subgraphs := [] }

/-! ### serialization by name, deserialization by name -/

structure PSpec where
  tensor : String
  device : List Int
  dims : List SDim
deriving DecidableEq, Repr

structure PCfg where
  id : String
  specs : List PSpec
  stage : Option Int
deriving DecidableEq, Repr

def optAll {α : Type} : List (Option α) → Option (List α)
  | [] => some []
  | none :: _ => none
  | some a :: rest => (optAll rest).map (a :: ·)

/-- `_serialize_sharding_spec`: `tensor_name` is the *current* name; raises on an empty name -/
def serSpec (w : World) (s : Spec) : Option PSpec :=
  if (w.value s.value).name = "" then none
  else some { tensor := (w.value s.value).name, device := s.device, dims := s.dims }

/-- `serialize_node_device_configuration` -/
def serCfg (w : World) (nc : NodeCfg) : Option PCfg :=
  if (w.cfg nc.cfg).name = "" then none
  else (optAll (nc.specs.map (serSpec w))).map
    (fun sp => { id := (w.cfg nc.cfg).name, specs := sp, stage := nc.stage })

/-- `_serialize_node_multi_device_into`; `gate` = the IR version gate applies (nothing is written) -/
def serNodeDev (w : World) (gate : Bool) (nd : NodeS) : Option (List PCfg) :=
  if gate then some [] else optAll (nd.dev.map (serCfg w))

/-- The IR version gate (`model_ir_version < 11`): `serialize_node_into` receives the model's IR
    version for every node, nested ones included (the version is threaded through
    `serialize_attribute_into` to the subgraphs). -/
def nodeGated (_w : World) (ms : ModelS) (_n : NId) : Bool :=
  decide (ms.irVersion < 11)

/-- the `device_configurations` field of every NodeProto of the model (all nodes, nested ones
    included), `none` = raises -/
def serModelDev (w : World) (m : MId) : Option (List (List PCfg)) :=
  optAll ((w.model m).nodes.map (fun n => serNodeDev w (nodeGated w (w.model m) n) (w.node n)))

/-- `_remove_trailing_outputs`: trailing outputs with empty names are not serialized -/
def serOutputs (w : World) (nd : NodeS) : List VId :=
  (nd.outputs.reverse.dropWhile (fun o => decide ((w.value o).name = ""))).reverse

abbrev Scope := List (String × VId)

def slookup (sc : Scope) (s : String) : Option VId :=
  (sc.find? (fun p => decide (p.1 = s))).map (·.2)

/-! The deserializer keeps a stack of name scopes, one dict per enclosing graph.  Here `cur` is the
dict of the graph being deserialized (the only one that is written) and `outer` the enclosing dicts
merged with inner ones first, so that "look the name up from the innermost scope outwards" and
"merge all scopes, inner shadowing outer" are both `slookup (cur ++ outer)`. -/

/-- `values = {v.name: v for v in inputs}` after creating one value per graph input (a later input
    of the same name shadows an earlier one) -/
def declareInputs (w : World) : World × Scope → List VId → World × Scope
  | st, [] => st
  | st, v :: rest =>
    let w1 := st.1
    declareInputs w ({ w1 with values := w1.values ++ [w.value v] },
      ((w.value v).name, w1.values.length) :: st.2) rest

/-- the initializers of a graph: an initializer named like a graph input *is* that input, any
    other gets a new value entered into the current scope (`_deserialize_graph`) -/
def declareInits (w : World) : World × Scope → List VId → World × Scope
  | st, [] => st
  | st, v :: rest =>
    let name := (w.value v).name
    if name = "" ∨ (slookup st.2 name).isSome then declareInits w st rest
    else
      let w1 := st.1
      declareInits w ({ w1 with values := w1.values ++ [w.value v] },
        (name, w1.values.length) :: st.2) rest

/-- `_declare_node_outputs` over all nodes of the graph: `none` = "redeclared in the current
    graph scope" (only the current scope is consulted) -/
def declareOutputs (w : World) : World × Scope → List VId → Option (World × Scope)
  | st, [] => some st
  | st, o :: rest =>
    let name := (w.value o).name
    if name = "" then declareOutputs w st rest
    else if (slookup st.2 name).isSome then none
    else
      let w1 := st.1
      declareOutputs w ({ w1 with values := w1.values ++ [w.value o] },
        (name, w1.values.length) :: st.2) rest

/-- node inputs by name (`_deserialize_node`): `""` is a missing input; the name is searched from
    the innermost scope outwards; an unknown name creates a value in the *current* scope -/
def deserInputs (w : World) (outer : Scope) : World × Scope → List (Option VId) →
    World × Scope × List (Option VId)
  | st, [] => (st.1, st.2, [])
  | st, none :: rest =>
    let r := deserInputs w outer st rest
    (r.1, r.2.1, none :: r.2.2)
  | st, some v :: rest =>
    let name := (w.value v).name
    if name = "" then
      let r := deserInputs w outer st rest
      (r.1, r.2.1, none :: r.2.2)
    else
      match slookup (st.2 ++ outer) name with
      | some v' =>
        let r := deserInputs w outer st rest
        (r.1, r.2.1, some v' :: r.2.2)
      | none =>
        let w1 := st.1
        let v' := w1.values.length
        let r := deserInputs w outer ({ w1 with values := w1.values ++ [({ name := name, shape := none } : ValueS)] },
          (name, v') :: st.2) rest
        (r.1, r.2.1, some v' :: r.2.2)

/-- node outputs by name, from the current scope only: `""` gives a fresh anonymous value,
    otherwise the declared one -/
def deserOutputs (w : World) (sc : Scope) : World → List VId → World × List VId
  | w1, [] => (w1, [])
  | w1, o :: rest =>
    let name := (w.value o).name
    match (if name = "" then none else slookup sc name) with
    | some v' =>
      let r := deserOutputs w sc w1 rest
      (r.1, v' :: r.2)
    | none =>
      let v' := w1.values.length
      let r := deserOutputs w sc { w1 with values := w1.values ++ [({ name := name, shape := none } : ValueS)] } rest
      (r.1, v' :: r.2)

/-- `_resolve_sharded_value` for every spec of one node configuration, against the merge of all
    scopes: a placeholder value (NOT entered into any scope) when the name is unknown -/
def deserSpecs (sc : Scope) : World → List PSpec → World × List Spec
  | w1, [] => (w1, [])
  | w1, p :: rest =>
    match slookup sc p.tensor with
    | some v' =>
      let r := deserSpecs sc w1 rest
      (r.1, { value := v', device := p.device, dims := p.dims } :: r.2)
    | none =>
      let v' := w1.values.length
      let r := deserSpecs sc { w1 with values := w1.values ++ [({ name := p.tensor, shape := none } : ValueS)] } rest
      (r.1, { value := v', device := p.device, dims := p.dims } :: r.2)

/-- `deserialize_node_device_configuration` + `_resolve_node_device_configurations` (which visits
    `model.graph.all_nodes()`, nested nodes included): `known` maps a configuration name to the
    registered object of the new model (last one wins, as in the dict comprehension); an unknown id
    keeps a placeholder object with 0 devices -/
def deserCfgs (sc : Scope) (known : List (String × CId)) : World → List PCfg → World × List NodeCfg
  | w1, [] => (w1, [])
  | w1, p :: rest =>
    let r1 := deserSpecs sc w1 p.specs
    match (known.find? (fun q => decide (q.1 = p.id))).map (·.2) with
    | some c =>
      let r := deserCfgs sc known r1.1 rest
      (r.1, { cfg := c, specs := r1.2, stage := p.stage } :: r.2)
    | none =>
      let w2 := r1.1
      let c := w2.cfgs.length
      let r := deserCfgs sc known { w2 with cfgs := w2.cfgs ++ [({ name := p.id, numDevices := 0 } : CfgS)] } rest
      (r.1, { cfg := c, specs := r1.2, stage := p.stage } :: r.2)

/-- state of the deserializer: the world, the nodes / graphs created so far and, as bookkeeping
    that does not influence the result, the source node each new node was read from -/
structure DSt where
  w : World
  newNodes : List NId := []
  newGraphs : List GId := []
  srcNodes : List NId := []
deriving Repr

/-- the GRAPH attributes of a node; `rec` is `_deserialize_graph`, `outer` the merged enclosing scopes -/
def deserSubgraphs (rec : DSt → Scope → GId → Option (DSt × GId)) (outer : Scope) :
    DSt → List GId → Option (DSt × List GId)
  | st, [] => some (st, [])
  | st, g :: rest =>
    match rec st outer g with
    | none => none
    | some (st1, g') => (deserSubgraphs rec outer st1 rest).map (fun r => (r.1, g' :: r.2))

/-- `_deserialize_node` for node `n` of the source world `w`: inputs, outputs, device configurations
    (resolved against all scopes), and only then the attributes (subgraphs), then the node -/
def deserNode (rec : DSt → Scope → GId → Option (DSt × GId)) (w : World) (gate : Bool)
    (known : List (String × CId)) (outer : Scope) (st : DSt) (cur : Scope) (n : NId) :
    Option (DSt × Scope × NId) :=
  let nd := w.node n
  let r1 := deserInputs w outer (st.w, cur) nd.inputs
  let r2 := deserOutputs w r1.2.1 r1.1 (serOutputs w nd)
  let r3 := deserCfgs (r1.2.1 ++ outer) known r2.1 ((serNodeDev w gate nd).getD [])
  match deserSubgraphs rec (r1.2.1 ++ outer) { st with w := r3.1 } nd.subgraphs with
  | none => none
  | some (st4, subs) =>
    let w4 := st4.w
    let k := w4.nodes.length
    some ({ st4 with
            w := { w4 with nodes := w4.nodes ++
              [{ inputs := r1.2.2, outputs := r2.2, dev := r3.2, subgraphs := subs }] },
            newNodes := st4.newNodes ++ [k], srcNodes := st4.srcNodes ++ [n] }, r1.2.1, k)

/-- all nodes of one graph, in order; the current scope is threaded through -/
def deserNodes (rec : DSt → Scope → GId → Option (DSt × GId)) (w : World) (gate : Bool)
    (known : List (String × CId)) (outer : Scope) :
    DSt → Scope → List NId → List NId → Option (DSt × List NId)
  | st, _, [], acc => some (st, acc.reverse)
  | st, cur, n :: rest, acc =>
    match deserNode rec w gate known outer st cur n with
    | none => none
    | some (st1, cur1, k) => deserNodes rec w gate known outer st1 cur1 rest (k :: acc)

/-- `_deserialize_graph(proto, scoped_values)`: a new scope with the graph inputs, all node
    outputs of this graph declared, then the nodes; the scope is dropped on exit -/
def deserGraphBody (rec : DSt → Scope → GId → Option (DSt × GId)) (w : World) (gate : Bool)
    (known : List (String × CId)) (st : DSt) (outer : Scope) (g : GId) : Option (DSt × GId) :=
  let gs := w.graph g
  let newIns := List.range' st.w.values.length gs.inputs.length
  let r0 := declareInits w (declareInputs w (st.w, []) gs.inputs) gs.inits
  let newInits := gs.inits.filterMap (fun v => slookup r0.2 (w.value v).name)
  match declareOutputs w r0 ((gs.nodes.map (fun n => serOutputs w (w.node n))).flatten) with
  | none => none
  | some r1 =>
    match deserNodes rec w gate known outer { st with w := r1.1 } r1.2 gs.nodes [] with
    | none => none
    | some (st2, ns) =>
      let g' := st2.w.graphs.length
      some ({ st2 with
              w := { st2.w with graphs := st2.w.graphs ++ [{ inputs := newIns, nodes := ns, inits := newInits }] },
              newGraphs := st2.newGraphs ++ [g'] }, g')

/-- `_deserialize_graph` of a subgraph, the nesting depth bounded by `fuel` -/
def deserGraphF (w : World) (gate : Bool) (known : List (String × CId)) :
    Nat → DSt → Scope → GId → Option (DSt × GId)
  | 0, _, _, _ => none
  | f + 1, st, outer, g => deserGraphBody (deserGraphF w gate known f) w gate known st outer g

/-- `deserialize_model`: the main graph, then `deserialize_function` for every function, each with a
    scope stack of its own (`serde.py` 620-626, 950-1000: function inputs, all node outputs declared,
    then the nodes — a graph without initializers and without enclosing scopes) -/
def deserRoots (w : World) (gate : Bool) (known : List (String × CId)) (fuel : Nat) :
    DSt → List GId → Option (DSt × List GId)
  | st, [] => some (st, [])
  | st, g :: rest =>
    match deserGraphF w gate known fuel st [] g with
    | none => none
    | some (st1, g') => (deserRoots w gate known fuel st1 rest).map (fun r => (r.1, g' :: r.2))

/-- the configurations that reach the proto: none below IR version 11 -/
def rtRegs (ms : ModelS) : List CId := if 11 ≤ ms.irVersion then ms.cfgs else []

/-- ids of the `ModelConfiguration` objects `deserialize_model` creates -/
def rtNewCfgs (w : World) (ms : ModelS) : List CId := List.range' w.cfgs.length (rtRegs ms).length

/-- `known_configs = {config.name: config}` of `_resolve_node_device_configurations` (last wins) -/
def rtKnown (w : World) (ms : ModelS) : List (String × CId) :=
  (((rtRegs ms).map (fun c => (w.cfg c).name)).zip (rtNewCfgs w ms)).reverse

/-- the world after the model configurations have been created -/
def rtWorld0 (w : World) (ms : ModelS) : World :=
  { w with cfgs := w.cfgs ++ (rtRegs ms).map w.cfg }

def rtFinish (w3 : World) (newm : ModelS) : World := { w3 with models := w3.models ++ [newm] }

/-- `deserialize_model` of the serialized model, restricted to what the annotations depend on;
    `none` = raises.  Object creation order per heap — configurations: the registered ones, then
    placeholders; values, per graph: graph inputs, all declared node outputs, then per node unknown
    inputs, anonymous outputs, placeholder values, then the node's subgraphs; nodes and graphs:
    after their contents. -/
def deserModel (w : World) (m : MId) : Option World :=
  let ms := w.model m
  match deserRoots w (decide (ms.irVersion < 11)) (rtKnown w ms) (w.graphs.length + 1)
      { w := rtWorld0 w ms } ms.roots with
  | none => none
  | some (st, gs') =>
    some (rtFinish st.w {
      graph := gs'.headD 0, graphs := st.newGraphs, nodes := st.newNodes,
      cfgs := rtNewCfgs w ms, irVersion := ms.irVersion, funcs := gs'.tail })

/-- `deserialize_model(parse(serialize_model(model).SerializeToString()))` -/
def roundTrip (w : World) (m : MId) : World × Res :=
  match serModelDev w m with
  | none => (w, .raised)
  | some _ =>
    match deserModel w m with
    | none => (w, .raised)
    | some w' => (w', .ok)

/-! ### the internal checker `_check_device_configurations` -/

inductive Err where
  | cfgEmptyName | cfgNotDeclared | cfgImposter
  | valEmptyName | valNotIO | axisRange | axisRepeat | numShards | deviceRange
deriving DecidableEq, Repr

/-- the axis loop of `_check_sharding_spec` (`_multi_device.py` 341-362) -/
def checkDims (rank : Option Nat) : List Int → List SDim → List Err
  | _, [] => []
  | seen, d :: rest =>
    let shardErr := if d.numShards < 1 then [Err.numShards] else []
    if AxisBad rank d.axis then
      Err.axisRange :: shardErr ++ checkDims rank seen rest
    else
      let a := normAxis rank d.axis
      (if a ∈ seen then [Err.axisRepeat] else []) ++ shardErr ++ checkDims rank (a :: seen) rest

/-- `_check_sharding_spec`; `numDevices` is never `None` here (every node configuration
    references a configuration object) and there is no group map -/
def checkSpec (w : World) (nd : NodeS) (numDevices : Int) (s : Spec) : List Err :=
  (if (w.value s.value).name = "" then [Err.valEmptyName] else []) ++
  (if InIO nd s.value then [] else [Err.valNotIO]) ++
  checkDims (rankOf (w.value s.value)) [] s.dims ++
  (s.device.filter (fun d => decide (¬ (0 ≤ d ∧ d < numDevices)))).map (fun _ => Err.deviceRange)

/-- `known_configs.get(name)` where `known_configs = {c.name: c for c in model.device_configurations}` -/
def knownCfg (w : World) (ms : ModelS) (name : String) : Option CId :=
  ms.cfgs.reverse.find? (fun c => decide ((w.cfg c).name = name))

def checkCfg (w : World) (ms : ModelS) (nd : NodeS) (nc : NodeCfg) : List Err :=
  let name := (w.cfg nc.cfg).name
  let hd : List Err × Int :=
    if name = "" then ([Err.cfgEmptyName], (w.cfg nc.cfg).numDevices)
    else match knownCfg w ms name with
      | none => ([Err.cfgNotDeclared], (w.cfg nc.cfg).numDevices)
      | some r => if nc.cfg ≠ r then ([Err.cfgImposter], (w.cfg r).numDevices)
                  else ([], (w.cfg r).numDevices)
  hd.1 ++ (nc.specs.map (checkSpec w nd hd.2)).flatten

def checkNode (w : World) (ms : ModelS) (nd : NodeS) : List Err :=
  (nd.dev.map (checkCfg w ms nd)).flatten

/-- `_check_device_configurations(model)` as a list of violation kinds, in order -/
def check (w : World) (m : MId) : List Err :=
  ((w.model m).nodes.map (fun n => checkNode w (w.model m) (w.node n))).flatten

/-! ### the operation alphabet -/

inductive Op where
  | newModel (ir : Nat)
  | newInput (g : GId) (name : String) (shape : Option (List Dim))
  | newSubgraph (n : NId)
  | newNode (g : GId) (ins : List (Option VId)) (outs : List (String × Option (List Dim)))
  | removeNode (g : GId) (n : NId) (safe : Bool)
  | attachNode (g : GId) (n : NId)
  | newInit (g : GId) (name : String) (shape : Option (List Dim))
  | setShape (v : VId) (shape : Option (List Dim))
  | setDev (n : NId) (dev : List NodeCfg)
  | setModelCfgs (m : MId) (cfgs : List CId)
  | rename (v : VId) (s : String)
  | addCfg (m : MId) (name : String) (num : Option Int) (names : List String)
  | removeCfg (m : MId) (r : CfgRef) (cascade : Bool)
  | shard (n : NId) (v : VId) (c : CId) (axis k : Int) (devs : List Int) (stage : Option Int)
  | setStage (n : NId) (c : CId) (stage : Int)
  | replaceInput (n : NId) (i : Int) (val : Option VId)
  | resizeInputs (n : NId) (k : Nat)
  | resizeOutputs (n : NId) (k : Nat)
  | clone (m : MId)
  | roundTrip (m : MId)
  | newFunction (m : MId)
  | cloneFunc (m : MId) (i : Nat)
  | cloneSub (n : NId) (g : GId)
deriving Repr

/-- the micro-step program of the operations that have raise points -/
def progOf : Op → Option (List Micro)
  | .removeNode g n safe => some (removeNodeProg g n safe)
  | .attachNode g n => some (attachNodeProg g n)
  | .newInit g name shape => some (newInitProg g name shape)
  | .rename v s => some (renameProg v s)
  | .addCfg m name num names => some (addCfgProg m name num names)
  | .removeCfg m r cascade => some (removeCfgProg m r cascade)
  | .shard n v c axis k devs stage => some (shardProg n v c axis k devs stage)
  | .setStage n c stage => some (setStageProg n c stage)
  | .replaceInput n i val => some (replaceInputProg n i val)
  | .resizeOutputs n k => some (resizeOutputsProg n k)
  | _ => none

/-- the denotation of every operation -/
def stepD (w : World) : Op → World × Res
  | .newModel ir => newModel w ir
  | .newInput g name shape => newInput w g name shape
  | .newSubgraph n => newSubgraph w n
  | .newNode g ins outs => newNode w g ins outs
  | .removeNode g n safe => removeNode w g n safe
  | .attachNode g n => attachNode w g n
  | .newInit g name shape => newInit w g name shape
  | .setShape v shape => setShape w v shape
  | .setDev n dev => setDev w n dev
  | .setModelCfgs m cfgs => setModelCfgs w m cfgs
  | .rename v s => rename w v s
  | .addCfg m name num names => addCfg w m name num names
  | .removeCfg m r cascade => removeCfg w m r cascade
  | .shard n v c axis k devs stage => shard w n v c axis k devs stage
  | .setStage n c stage => setStage w n c stage
  | .replaceInput n i val => replaceInput w n i val
  | .resizeInputs n k => resizeInputs w n k
  | .resizeOutputs n k => resizeOutputs w n k
  | .clone m => cloneModel w m
  | .roundTrip m => roundTrip w m
  | .newFunction m => newFunction w m
  | .cloneFunc m i => cloneFunc w m i
  | .cloneSub n g => cloneSub w n g

/-- one operation: its micro-step program when it has raise points (clone and round trip only create
    new objects; what they return on a raise is the untouched world), its denotation otherwise -/
def step (w : World) (op : Op) : World × Res :=
  match progOf op with
  | some p => runMicro w p
  | none => stepD w op

/-- run a history from a world, collecting the outcomes -/
def run : World → List Op → World × List Res
  | w, [] => (w, [])
  | w, op :: rest =>
    let r := step w op
    let rr := run r.1 rest
    (rr.1, r.2 :: rr.2)

/-! ### the invariant and the in-alphabet condition (specification, evaluated by the driver too) -/

/-- every value id a node mentions exists -/
def NodeIds (w : World) (nd : NodeS) : Prop :=
  (∀ o ∈ nd.inputs, ∀ v, o = some v → v < w.values.length) ∧ (∀ v ∈ nd.outputs, v < w.values.length)

/-- the shape-relative part of a spec: axes in range for a known rank, not repeated after
    normalisation, at least one shard per axis, device indices inside the configuration -/
def SpecWF (w : World) (numDev : Int) (s : Spec) : Prop :=
  (∀ d ∈ s.dims, ¬ AxisBad (rankOf (w.value s.value)) d.axis) ∧
  (s.dims.map (fun d => normAxis (rankOf (w.value s.value)) d.axis)).Nodup ∧
  (∀ d ∈ s.dims, 1 ≤ d.numShards) ∧
  (∀ d ∈ s.device, 0 ≤ d ∧ d < numDev)

/-- one node: ids exist; every spec targets a current input or output of the node and is well
    formed; stages are non-negative; one record per configuration and one spec per value -/
def NodeOK (w : World) (nd : NodeS) : Prop :=
  NodeIds w nd ∧
  (nd.dev.map (·.cfg)).Nodup ∧
  ∀ nc ∈ nd.dev,
    nc.cfg < w.cfgs.length ∧
    (∀ st, nc.stage = some st → 0 ≤ st) ∧
    (nc.specs.map (·.value)).Nodup ∧
    ∀ s ∈ nc.specs, InIO nd s.value ∧ SpecWF w (w.cfg nc.cfg).numDevices s

/-- one model: its nodes exist and reference only configurations registered on it (by identity);
    registered configurations exist, have non-empty, pairwise different names -/
def ModelOK (w : World) (ms : ModelS) : Prop :=
  (∀ n ∈ ms.nodes, n < w.nodes.length ∧ ∀ nc ∈ (w.node n).dev, nc.cfg ∈ ms.cfgs) ∧
  (∀ c ∈ ms.cfgs, c < w.cfgs.length ∧ (w.cfg c).name ≠ "") ∧
  (ms.cfgs.map (fun c => (w.cfg c).name)).Nodup

/-- **DevOK** -/
def DevOK (w : World) : Prop :=
  (∀ nd ∈ w.nodes, NodeOK w nd) ∧ (∀ ms ∈ w.models, ModelOK w ms)

/-- every sharded value has a non-empty name (what serialization needs) -/
def Named (w : World) : Prop :=
  ∀ nd ∈ w.nodes, ∀ nc ∈ nd.dev, ∀ s ∈ nc.specs, (w.value s.value).name ≠ ""

instance (w : World) (nd : NodeS) : Decidable (NodeIds w nd) := by
  unfold NodeIds
  have : ∀ o : Option VId, Decidable (∀ v, o = some v → v < w.values.length) := by
    intro o
    cases o with
    | none => exact isTrue (by simp)
    | some x => exact decidable_of_iff (x < w.values.length) (by simp)
  infer_instance
instance (w : World) (k : Int) (s : Spec) : Decidable (SpecWF w k s) := by
  unfold SpecWF; infer_instance
instance (w : World) (nd : NodeS) : Decidable (NodeOK w nd) := by
  unfold NodeOK
  have : ∀ o : Option Int, Decidable (∀ st, o = some st → 0 ≤ st) := by
    intro o
    cases o with
    | none => exact isTrue (by simp)
    | some x => exact decidable_of_iff (0 ≤ x) (by simp)
  infer_instance
instance (w : World) (ms : ModelS) : Decidable (ModelOK w ms) := by unfold ModelOK; infer_instance
instance (w : World) : Decidable (DevOK w) := by unfold DevOK; infer_instance
instance (w : World) : Decidable (Named w) := by unfold Named; infer_instance

/-- the configuration is registered on every model whose graph contains the node -/
def RegOn (w : World) (n : NId) (c : CId) : Prop := ∀ ms ∈ w.models, n ∈ ms.nodes → c ∈ ms.cfgs

instance (w : World) (n : NId) (c : CId) : Decidable (RegOn w n c) := by unfold RegOn; infer_instance

/-- the values a model's graphs mention -/
def modelValues (w : World) (ms : ModelS) : List VId :=
  (ms.graphs.map (fun g => (w.graph g).inputs ++ (w.graph g).inits)).flatten ++
  (ms.nodes.map (fun n => (w.node n).inputs.filterMap id ++ (w.node n).outputs)).flatten

/-- distinct named values mentioned by the graph have distinct names -/
def NamesUnique (w : World) (ms : ModelS) : Prop :=
  ∀ a ∈ modelValues w ms, ∀ b ∈ modelValues w ms,
    (w.value a).name = (w.value b).name → (w.value a).name ≠ "" → a = b

instance (w : World) (ms : ModelS) : Decidable (NamesUnique w ms) := by
  unfold NamesUnique; infer_instance

/-- the nodes under graph `g`, nested ones included, each node after the nodes of its subgraphs
    (the order in which a deserializer / cloner finishes them); nesting depth bounded by the fuel -/
def allNodesF (w : World) : Nat → GId → List NId
  | 0, _ => []
  | f + 1, g =>
    ((w.graph g).nodes.map (fun n => ((w.node n).subgraphs.map (allNodesF w f)).flatten ++ [n])).flatten

/-- the model's flat lists of graphs and nodes agree with the nesting structure: the root graph is
    listed, the nodes of listed graphs are listed, the subgraphs of listed nodes are listed, and every
    listed node is reachable from the root (what `Model.graphs()` / `graph.all_nodes()` guarantee) -/
def Closed (w : World) (ms : ModelS) : Prop :=
  (∀ g ∈ ms.roots, g ∈ ms.graphs) ∧ (∀ g ∈ ms.graphs, ∀ n ∈ (w.graph g).nodes, n ∈ ms.nodes) ∧
  (∀ n ∈ ms.nodes, ∀ g ∈ (w.node n).subgraphs, g ∈ ms.graphs) ∧
  (∀ n ∈ ms.nodes, n ∈ (ms.roots.map (allNodesF w (w.graphs.length + 1))).flatten)

instance (w : World) (ms : ModelS) : Decidable (Closed w ms) := by unfold Closed; infer_instance

/-- distinct named values of the list have distinct names -/
def UniqueOn (w : World) (vals : List VId) : Prop :=
  ∀ a ∈ vals, ∀ b ∈ vals, (w.value a).name = (w.value b).name → (w.value a).name ≠ "" → a = b

instance (w : World) (vals : List VId) : Decidable (UniqueOn w vals) := by unfold UniqueOn; infer_instance

/-- the values a graph declares or uses itself: inputs, initializers, inputs and outputs of its own nodes -/
def ownVals (w : World) (g : GId) : List VId :=
  (w.graph g).inputs ++ (w.graph g).inits ++
  ((w.graph g).nodes.map (fun n => (w.node n).inputs.filterMap id ++ (w.node n).outputs)).flatten

/-- for graph `g` entered with the values `ov` of its enclosing graphs, and for every graph nested under it: the
    values of its scope chain (own values and those of all enclosing graphs); nesting depth bounded by the fuel -/
def chainsF (w : World) : Nat → List VId → GId → List (List VId)
  | 0, _, _ => []
  | f + 1, ov, g =>
    (ov ++ ownVals w g) ::
      ((w.graph g).nodes.map (fun n => ((w.node n).subgraphs.map (chainsF w f (ov ++ ownVals w g))).flatten)).flatten

/-- **per-scope-chain uniqueness of names** (what ONNX asks for): for every graph of the model, the named values
    of the graph itself and of all its enclosing graphs have pairwise different names.  Sibling subgraphs (the
    branches of an `If`), different function bodies, a function body and the main graph may use the same names;
    a subgraph may not reuse (shadow) a name of one of its enclosing graphs. -/
def NamesChain (w : World) (ms : ModelS) : Prop :=
  ∀ r ∈ ms.roots, ∀ vs ∈ chainsF w (w.graphs.length + 1) [] r, UniqueOn w vs

instance (w : World) (ms : ModelS) : Decidable (NamesChain w ms) := by unfold NamesChain; infer_instance

/-- **the in-alphabet condition** of an operation (hypothesis of `C19_step`): ids exist; the
    configuration passed to an annotation call is registered on the node's model and the device
    indices are inside it; a configuration is removed with `cascade=True`; clone and round trip are
    taken of a model whose node / graph lists are `Closed` (so are `Function.clone` and
    `Graph.clone(allow_outer_scope_values=True)`, the latter of a graph of every model that lists the
    node the clone is attached to); a round trip is taken at IR version >= 11
    of a model whose named values have unique names along every scope chain (`NamesChain`: a graph together
    with its enclosing graphs; sibling subgraphs, function bodies and the main graph may reuse names).  Everything else is unrestricted — in particular every
    *invalid* annotation request is in the alphabet.  A node is re-attached only to models that
    register the configurations it (and everything nested under it) references; a shape is edited
    only on a value that is not sharded; a directly assigned annotation tuple / configuration tuple is
    itself well formed. -/
def Pre (w : World) : Op → Prop
  | .newNode _ ins _ => ∀ o ∈ ins, ∀ v, o = some v → v < w.values.length
  | .replaceInput _ _ val => ∀ v, val = some v → v < w.values.length
  | .shard n _ c _ _ _ _ => RegOn w n c ∧ c < w.cfgs.length
  | .setStage n c _ => RegOn w n c ∧ c < w.cfgs.length
  | .removeCfg _ _ cascade => cascade = true
  | .attachNode g n => ∀ ms ∈ w.models, g ∈ ms.graphs →
      ∀ k ∈ n :: (subtreeF (w.nodes.length + 1) w n).1, k < w.nodes.length ∧ ∀ nc ∈ (w.node k).dev, nc.cfg ∈ ms.cfgs
  | .setShape v _ => ∀ nd ∈ w.nodes, ∀ nc ∈ nd.dev, ∀ s ∈ nc.specs, s.value ≠ v
  | .setDev n dev => NodeOK w { (w.node n) with dev := dev } ∧ ∀ nc ∈ dev, RegOn w n nc.cfg
  | .setModelCfgs m cfgs => ModelOK w { (w.model m) with cfgs := cfgs }
  | .clone m => Closed w (w.model m)
  | .roundTrip m => 11 ≤ (w.model m).irVersion ∧ Closed w (w.model m) ∧ NamesChain w (w.model m)
  | .cloneFunc m _ => Closed w (w.model m)
  | .cloneSub n g => (∃ ms ∈ w.models, n ∈ ms.nodes) ∧ ∀ ms ∈ w.models, n ∈ ms.nodes → g ∈ ms.graphs ∧ Closed w ms
  | _ => True

instance (w : World) (op : Op) : Decidable (Pre w op) := by
  have h : ∀ o : Option VId, Decidable (∀ v, o = some v → v < w.values.length) := by
    intro o
    cases o with
    | none => exact isTrue (by simp)
    | some x => exact decidable_of_iff (x < w.values.length) (by simp)
  cases op <;> unfold Pre <;> infer_instance

end IrVerif.Device

/-
Executable form of the certificates `Reloadable` / `ReloadableE` (hypotheses of `C03_roundtrip_reloadable` and
`C03_roundtrip_ext_partial`): the scope discipline of the deserializer re-run over an IR model with Boolean checks,
so that the driver can evaluate the hypotheses on every generated model.  Soundness (`= true` implies the
certificate) is proved in `Lemmas/ScopeCert.lean`.  Core Lean only.
-/
import IrVerif.Model.ScopeExt
import IrVerif.Model.ScopeSer
namespace IrVerif.Scope

/-- result of one phase: the scope afterwards, the values introduced, the checks -/
structure CR where
  tbl : Table
  new : List Nat
  ok : Bool

def cnm (V : Nat → ValueS) (v : Nat) : Name := ((V v).name).getD ""

def cTblIns (V : Nat → ValueS) (ins : List Nat) : Table := (ins.map fun v => (cnm V v, v)).reverse

def cInits (V : Nat → ValueS) (gouts : List Nat) : Table → List (Name × Nat) → CR
  | T, [] => ⟨T, [], true⟩
  | T, (k, v) :: r =>
    let base := (V v).name == some k && k != "" && (V v).const.isSome
    match T.lookup k with
    | some u =>
      let c := cInits V gouts T r
      ⟨c.tbl, c.new, base && u == v && c.ok⟩
    | none =>
      let c := cInits V gouts ((k, v) :: T) r
      ⟨c.tbl, v :: c.new, base && (gouts.contains v || ((V v).info.ty.isSome && (V v).info.sh.isSome)) && c.ok⟩

def cDecl (V : Nat → ValueS) : Table → List Nat → CR
  | T, [] => ⟨T, [], true⟩
  | T, v :: r =>
    if nameTruthy (V v).name then
      let c := cDecl V ((cnm V v, v) :: T) r
      ⟨c.tbl, v :: c.new, (T.lookup (cnm V v)).isNone && c.ok⟩
    else
      let c := cDecl V T r
      ⟨c.tbl, c.new, (V v).name.isSome && c.ok⟩

def cRes (V : Nat → ValueS) (outer : List Table) : Table → List (Option Nat) → CR
  | T, [] => ⟨T, [], true⟩
  | T, none :: r => cRes V outer T r
  | T, some v :: r =>
    match resolve (cnm V v) (T :: outer) with
    | some u =>
      let c := cRes V outer T r
      ⟨c.tbl, c.new, nameTruthy (V v).name && u == v && c.ok⟩
    | none =>
      let c := cRes V outer ((cnm V v, v) :: T) r
      ⟨c.tbl, v :: c.new, nameTruthy (V v).name && c.ok⟩

def cOuts (V : Nat → ValueS) (T : Table) : List Nat → CR
  | [] => ⟨T, [], true⟩
  | v :: r =>
    let c := cOuts V T r
    match T.lookup (cnm V v) with
    | some u => ⟨T, c.new, (V v).name.isSome && u == v && c.ok⟩
    | none => ⟨T, v :: c.new, (V v).name.isSome && c.ok⟩

def cLive (V : Nat → ValueS) : NodeT → List Nat
  | .mk _ _ _ outs _ => stripTrailing V outs

def cRoles (V : Nat → ValueS) (ins : List Nat) (inits : List (Name × Nat)) (nodes : List NodeT) (outs : List Nat) :
    List Nat :=
  ins ++ inits.map (·.2) ++ (nodes.flatMap (cLive V)).filter (fun v => nameTruthy (V v).name) ++ outs

mutual
/-- `replG` and `extG` together -/
def cG (V : Nat → ValueS) (x : Ext) (outer : List Table) : GraphT → CR
  | .mk _ ins inits nodes outs =>
    let ci := cInits V outs (cTblIns V ins) inits
    let cd := cDecl V ci.tbl (nodes.flatMap (cLive V))
    let cn := cNs V x outer cd.tbl nodes
    let co := cOuts V cn.tbl outs
    let roles := cRoles V ins inits nodes outs
    ⟨[], ins ++ ci.new ++ cd.new ++ cn.new ++ co.new,
      ins.all (fun v => (V v).name.isSome) && nodupNamesB (inits.map (·.1)) && ci.ok && cd.ok && cn.ok && co.ok &&
      roles.all (fun a => roles.all fun b => !((V a).name == (V b).name) || x.quant a == x.quant b) &&
      co.new.all (fun v => (x.quant v).isNone)⟩
def cNs (V : Nat → ValueS) (x : Ext) (outer : List Table) : Table → List NodeT → CR
  | T, [] => ⟨T, [], true⟩
  | T, n :: ns =>
    let c1 := cN V x outer T n
    let c2 := cNs V x outer c1.tbl ns
    ⟨c2.tbl, c1.new ++ c2.new, c1.ok && c2.ok⟩
def cN (V : Nat → ValueS) (x : Ext) (outer : List Table) : Table → NodeT → CR
  | T, .mk _ _ ins outs subs =>
    let cr := cRes V outer T ins
    let cs := cGs V x (cr.tbl :: outer) subs
    ⟨cr.tbl, cr.new ++ (stripTrailing V outs).filter (fun v => !nameTruthy (V v).name) ++ cs.new,
      cr.ok && (stripTrailing V outs).all (fun v => (V v).name.isSome) &&
      (stripTrailing V outs).all (fun v => !nameTruthy (V v).name || cr.tbl.lookup (cnm V v) == some v) && cs.ok &&
      outs.all (fun v => nameTruthy (V v).name || (x.quant v).isNone)⟩
def cGs (V : Nat → ValueS) (x : Ext) (scopes : List Table) : List GraphT → CR
  | [] => ⟨[], [], true⟩
  | g :: gs =>
    let c1 := cG V x scopes g
    let c2 := cGs V x scopes gs
    ⟨[], c1.new ++ c2.new, c1.ok && c2.ok⟩
end

def ssKeysNodupB (d : SS) : Bool := nodupNamesB (d.map (·.1))

/-- the representation invariant of the extension state on the allocated values -/
def extWFB (n : Nat) (x : Ext) : Bool :=
  (List.range n).all fun v => ssKeysNodupB (x.vmeta v) &&
    match x.quant v with
    | none => true
    | some ps => ssKeysNodupB ps && !ps.isEmpty

/-- the decision procedure for `ReloadableE` (for an extension state that is blank above the allocation counter,
    which holds by construction of the worlds the driver builds) -/
def reloadableEB (w : WorldE) : Bool :=
  (cG w.st.vals w.ext [] w.root).ok && nodupB (cG w.st.vals w.ext [] w.root).new && extWFB w.st.nv w.ext

end IrVerif.Scope

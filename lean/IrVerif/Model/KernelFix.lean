import IrVerif.Model.Kernel
/-!
# Model variants of PROPOSED fixes (C06), not part of the alphabet

`replace_nodes_and_values` (known finding D83) has no small exact validate-first fix (`proposed_fixes/D83.md`).  The
partial fix `proposed_fixes/D83-partial.diff` moves in front of the first write every rejection whose answer the
copying steps cannot change: the length / ownership check of `replace_all_uses_with`, "the insertion point is not in
this graph", "a new node belongs to another graph", "an old node is not in this graph".  This file is the model of the
function WITH that patch; the driver takes it for `"hoisted": true`, which the harness sends when a probe of the real
function finds the patch applied.  It is not a constructor of `ConvOp` (the theorems of C01 / C06 do not quantify over
it) until the patch is in /repo.
-/
namespace IrVerif.Kernel

/-- the rejections `D83-partial.diff` checks before anything is written (`_convenience/__init__.py`, patched) -/
def rnvPreBad (w : World) (g ip : Nat) (oldNodes newNodes oldVals newVals : List Nat) : Bool :=
  decide ((rauwManyExact w oldVals newVals true).2 ≠ .ok) || decide ((w.node ip).graph ≠ some g) ||
    newNodes.any (fun n => !nodeAddable w g n) || oldNodes.any (fun n => decide ((w.node n).graph ≠ some g))

/-- `replace_nodes_and_values` with `D83-partial.diff`: the hoisted checks, then the unchanged sequence of calls -/
def replaceNodesAndValuesHoisted (w : World) (g ip : Nat) (oldNodes newNodes oldVals newVals : List Nat) :
    World × Outcome :=
  if rnvPreBad w g ip oldNodes newNodes oldVals newVals then (w, .raised "ValueError")
  else replaceNodesAndValuesExact w g ip oldNodes newNodes oldVals newVals

end IrVerif.Kernel

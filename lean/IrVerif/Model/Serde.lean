import IrVerif.Model.Proto
/-
Model of `src/onnx_ir/serde.py`: `deserialize_*` (proto -> IR) and `serialize_*_into` (IR -> proto),
transcribed function by function, plus `norm*`, the documented normalisations of C02.

IR side (names `IR*`): what `_core.py` objects hold after deserialization, as far as serde.py
reads it back.  Object identity of `Value`s is modelled per scope: every graph owns a `table` of the
`Value` objects that were registered in its `values` dict, in creation order (inputs, initializer
values, declared node outputs, placeholders for undeclared inputs); a node input is a `Ref`
(`up` scopes outwards, index into that table).  `Value` objects that are never registered (outputs
named "", graph outputs nobody produces, sharding placeholders) are carried inline.

Defects D27/D28/D29/D120/D320 are modelled as FIXED (see /verif/proposed_fixes/D27..D29.diff, D120.diff;
D320 = /repo commit f0d2984).
Python exceptions are `Except.error <kind>`; the correspondence only compares ok/raised.
Only core Lean is imported.
-/
namespace IrVerif.Serde
open IrVerif.Proto

abbrev Err := String

/-! ## dict / map helpers (CPython `dict`: insertion ordered, assignment keeps the position) -/

abbrev Dict := List (String × String)

/-- `d[k] = v` -/
def dictSet : Dict → String → String → Dict
  | [], k, v => [(k, v)]
  | (k', v') :: d, k, v => if k' = k then (k', v) :: d else (k', v') :: dictSet d k v

/-- `d.update(u)` -/
def dictUpdate (d : Dict) : Dict → Dict
  | [] => d
  | (k, v) :: u => dictUpdate (dictSet d k v) u

/-- `{entry.key: entry.value for entry in proto}` (serde.py:1182-1188; `None` = `[]`) -/
def dictOfEntries (es : List Entry) : Dict := dictUpdate [] (es.map fun e => (e.key, e.value))

def dictGet (d : Dict) (k : String) : Option String := (d.find? (·.1 = k)).map (·.2)

def insertEntry (e : Entry) : List Entry → List Entry
  | [] => [e]
  | x :: xs => if e.key < x.key then e :: x :: xs else x :: insertEntry e xs

/-- `for key in sorted(from_): add(key, from_[key])` (serde.py:1790-1804) -/
def sortEntries : Dict → List Entry
  | [] => []
  | (k, v) :: d => insertEntry ⟨k, v⟩ (sortEntries d)

/-- deserialize + serialize of a string-string map: what C02 calls "entries may be reordered" -/
def normEntries (es : List Entry) : List Entry := sortEntries (dictOfEntries es)

/-- generic "dict comprehension keyed by `key`": first position, last value -/
def dictByKey {α : Type} (key : α → String) : List α → List α → List α
  | acc, [] => acc
  | acc, x :: xs =>
    dictByKey key (if acc.any (fun y => key y = key x) then acc.map (fun y => if key y = key x then x else y)
                   else acc ++ [x]) xs

/-- `{opset.domain: opset.version for opset in protos}` then `.items()` (serde.py:568-579, 1775-1787) -/
def opsetDict (os : List OpsetP) : List OpsetP := dictByKey (·.domain) [] os

/-- last element satisfying `p` (a dict built by a comprehension keeps the last duplicate) -/
def findLast? {α : Type} (p : α → Bool) : List α → Option α
  | [] => none
  | x :: xs => match findLast? p xs with
    | some y => some y
    | none => if p x then some x else none

/-! ## dimensions, shapes, types (serde.py:1030-1147, 2318-2399) -/

inductive IRDim where
  | int (v : Int)
  | sym (s : Option String)
deriving DecidableEq, Repr, Inhabited

/-- `_core.Shape`: dims paired with their denotations ("" = None) -/
abbrev IRShape := List (IRDim × String)

inductive IRType where
  | tensor (dtype : Int) (den : String)
  | sparse (dtype : Int) (den : String)
  | sequence (elem : IRType) (den : String)
  | optional (elem : IRType) (den : String)
deriving DecidableEq, Repr, Inhabited

/-- `_enums.DataType(n)` succeeds -/
def validDType (n : Int) : Bool := 0 ≤ n && n ≤ 26

/-- `deserialize_dimension` serde.py:1127-1147 -/
def desDimVal : DimVal → IRDim
  | .value v => .int v
  | .param s => .sym (some s)
  | .unset => .sym none

def desDim (d : DimP) : IRDim × String := (desDimVal d.val, d.den)

/-- `serialize_dimension_into` serde.py:2383-2399 -/
def serDimVal : IRDim → DimVal
  | .int v => .value v
  | .sym (some s) => .param s
  | .sym none => .unset

def serDim (d : IRDim × String) : DimP := ⟨serDimVal d.1, d.2⟩

/-- `deserialize_tensor_shape` serde.py:1030-1047 -/
def desShape (s : ShapeP) : IRShape := s.map desDim
def serShape (s : IRShape) : ShapeP := s.map serDim

/-- `deserialize_type_proto_for_shape` serde.py:1050-1080 -/
def desTypeForShape : TypeP → Except Err (Option IRShape)
  | .unset _ => .ok none
  | .tensor _ sh _ => .ok (sh.map desShape)
  | .sparse _ sh _ => .ok (sh.map desShape)
  | .sequence e _ => desTypeForShape e
  | .optional e _ => desTypeForShape e
  | .map _ => .error "NotImplementedError"

/-- `deserialize_type_proto_for_type` serde.py:1083-1124 -/
def desTypeForType : TypeP → Except Err (Option IRType)
  | .unset _ => .ok none
  | .tensor none _ _ => .ok none
  | .tensor (some e) _ den => if validDType e then .ok (some (.tensor e den)) else .error "ValueError"
  | .sparse none _ _ => .ok none
  | .sparse (some e) _ den => if validDType e then .ok (some (.sparse e den)) else .error "ValueError"
  | .sequence e den => do
    match ← desTypeForType e with
    | none => .error "ValueError"
    | some t => .ok (some (.sequence t den))
  | .optional e den => do
    match ← desTypeForType e with
    | none => .error "ValueError"
    | some t => .ok (some (.optional t den))
  | .map _ => .error "NotImplementedError"

/-- `serialize_type_into` serde.py:2318-2335 (into a fresh TypeProto) -/
def serType : IRType → TypeP
  | .tensor dt den => .tensor (some dt) none den
  | .sparse dt den => .sparse (some dt) none den
  | .sequence e den => .sequence (serType e) den
  | .optional e den => .optional (serType e) den

/-- `serialize_shape_into` serde.py:2352-2380: walk to the leaf that has `elem_type : int`,
replace its `shape`; nothing is written when a level has no `value` set. -/
def serShapeInto : TypeP → IRShape → TypeP
  | .unset den, _ => .unset den
  | .tensor e _ den, s => .tensor e (some (serShape s)) den
  | .sparse e _ den, s => .sparse e (some (serShape s)) den
  | .sequence e den, s => .sequence (serShapeInto e s) den
  | .optional e den, s => .optional (serShapeInto e s) den
  | .map den, _ => .map den

/-- the pair written by `serialize_value_into` / TYPE_PROTO attributes: type first, then shape -/
def serTypeAndShape (ty : Option IRType) (sh : Option IRShape) : TypeP :=
  let p := match ty with
    | some t => serType t
    | none => .unset ""
  match sh with
  | some s => serShapeInto p s
  | none => p

/-! ## tensors (serde.py:311-345, 1150-1179, 2111-2144) -/

/-- what `deserialize_tensor` returns: `TensorProtoTensor` (keeps the proto), `ExternalTensor`,
`StringTensor` -/
inductive IRTensor where
  | protoBacked (p : TensorP) (mprops : Dict)
  | external (location : String) (offset length : Option Nat) (checksum : Option String)
      (dtype : Int) (name doc : String) (shape : List Int) (mprops : Dict)
  | strings (data : List Bytes) (shape : List Int) (name doc : String) (mprops : Dict)
deriving DecidableEq, Repr, Inhabited

def digitVal (c : Char) : Option Nat :=
  if '0' ≤ c ∧ c ≤ '9' then some (c.toNat - '0'.toNat) else none

def parseDigits : List Char → Nat → Option Nat
  | [], acc => some acc
  | c :: cs, acc => match digitVal c with
    | some d => parseDigits cs (acc * 10 + d)
    | none => none

/-- Python `int(s)` restricted to `[+-]?[0-9]+` (whitespace / underscores / non-ASCII digits are
outside the modelled domain; the generators do not produce them) -/
def parseInt (s : String) : Option Int :=
  match s.toList with
  | [] => none
  | '-' :: cs => if cs.isEmpty then none else (parseDigits cs 0).map fun n => -(n : Int)
  | '+' :: cs => if cs.isEmpty then none else (parseDigits cs 0).map fun n => (n : Int)
  | cs => (parseDigits cs 0).map fun n => (n : Int)

/-- `onnx.external_data_helper.ExternalDataInfo`: last entry per allowed key -/
def extGet (es : List Entry) (k : String) : Option String :=
  (findLast? (fun e => e.key = k) es).map (·.value)

/-- offset / length: `int(value)`, must be non-negative -/
def extNat (es : List Entry) (k : String) : Except Err (Option Nat) :=
  match extGet es k with
  | none => .ok none
  | some s => match parseInt s with
    | none => .error "ValueError"
    | some i => if i < 0 then .error "ValueError" else .ok (some i.toNat)

def IRTensor.name : IRTensor → String
  | .protoBacked p _ => p.name
  | .external _ _ _ _ _ n _ _ _ => n
  | .strings _ _ n _ _ => n

/-- `tensor.dtype` (for a proto-backed tensor `DataType(proto.data_type)` may raise) -/
def IRTensor.dtype : IRTensor → Except Err Int
  | .protoBacked p _ => if validDType p.dataType then .ok p.dataType else .error "ValueError"
  | .external _ _ _ _ dt _ _ _ _ => .ok dt
  | .strings .. => .ok 8

def IRTensor.shape : IRTensor → List Int
  | .protoBacked p _ => p.dims
  | .external _ _ _ _ _ _ _ sh _ => sh
  | .strings _ sh _ _ _ => sh

/-- `tensor.name = value` -/
def IRTensor.setName : IRTensor → String → IRTensor
  | .protoBacked p m, n => .protoBacked { p with name := n } m
  | .external l o len c dt _ d sh m, n => .external l o len c dt n d sh m
  | .strings data sh _ d m, n => .strings data sh n d m

/-- `deserialize_tensor` serde.py:1150-1179 -/
def desTensor (p : TensorP) : Except Err IRTensor :=
  if p.dataLocation = 1 then do
    let offset ← extNat p.externalData "offset"
    let length ← extNat p.externalData "length"
    if validDType p.dataType then
      .ok (.external ((extGet p.externalData "location").getD "") offset length
        (extGet p.externalData "checksum") p.dataType p.name p.doc p.dims (dictOfEntries p.metadata))
    else .error "ValueError"
  else if p.dataType = 8 then
    .ok (.strings p.stringData p.dims p.name p.doc (dictOfEntries p.metadata))
  else .ok (.protoBacked p (dictOfEntries p.metadata))

def emptyTensorP : TensorP :=
  { name := "", doc := "", dataType := 0, dims := [], dataLocation := 0, rawData := none,
    floatData := [], int32Data := [], stringData := [], int64Data := [], doubleData := [],
    uint64Data := [], externalData := [], metadata := [] }

def optEntry (k : String) : Option String → List Entry
  | none => []
  | some v => [⟨k, v⟩]

/-- `serialize_tensor_into` serde.py:2111-2144 (D27 and D28 fixed) -/
def serTensor : IRTensor → TensorP
  | .protoBacked p m => if m.isEmpty then p else { p with metadata := sortEntries m }
  | .external loc off len ck dt n d sh m =>
    { emptyTensorP with
      name := n, doc := d, dataType := dt, dims := sh, dataLocation := 1,
      externalData := [⟨"location", loc⟩] ++ optEntry "offset" (off.map toString)
        ++ optEntry "length" (len.map toString) ++ optEntry "checksum" ck,
      metadata := sortEntries m }
  | .strings data sh n d m =>
    { emptyTensorP with
      name := n, doc := d, dataType := 8, dims := sh, stringData := data, metadata := sortEntries m }

/-- canonical order of the external entries: location, offset, length, checksum -/
def normExternal (es : List Entry) : List Entry :=
  ["location", "offset", "length", "checksum"].filterMap fun k => es.find? (·.key = k)

/-- documented normalisation of a tensor: metadata (and external entries) reordered -/
def normTensor (p : TensorP) : TensorP :=
  { p with
    externalData := if p.dataLocation = 1 then normExternal p.externalData else p.externalData,
    metadata := normEntries p.metadata }

/-! ## values (serde.py:993-1027, 1699-1719, 2289-2315) -/

/-- a `_core.Value` as far as serde.py reads/writes it.  `quant` is
`Value.meta["quant_parameter_tensor_names"]` (`[]` = absent / None). -/
structure IRValue where
  name : String
  type : Option IRType
  shape : Option IRShape
  doc : String
  mprops : Dict
  quant : Dict
  const : Option IRTensor
deriving DecidableEq, Repr, Inhabited

/-- `_core.Value(name=n)` -/
def IRValue.blank (n : String) : IRValue :=
  { name := n, type := none, shape := none, doc := "", mprops := [], quant := [], const := none }

/-- `deserialize_value_info_proto(proto, value)` serde.py:993-1014 -/
def applyInfo (v : IRValue) (vi : ValueInfoP) : Except Err IRValue := do
  let sh ← desTypeForShape vi.type
  let ty ← desTypeForType vi.type
  .ok { v with shape := sh, type := ty, mprops := dictUpdate v.mprops (dictOfEntries vi.metadata),
               doc := vi.doc }

/-- `_should_create_value_info_for_value` serde.py:1699-1719 -/
def shouldCreateVI (v : IRValue) : Bool :=
  !(v.type.isNone && v.mprops.isEmpty && v.doc.isEmpty) && !v.name.isEmpty

/-- `serialize_value_into(proto, value, name=...)` serde.py:2289-2315 -/
def serValueAs (name : String) (v : IRValue) : ValueInfoP :=
  { name := if name.isEmpty then v.name else name,
    type := serTypeAndShape v.type v.shape,
    doc := v.doc,
    metadata := sortEntries v.mprops }

def serValue (v : IRValue) : ValueInfoP := serValueAs "" v

/-- documented normalisation of a value-info: metadata reordered -/
def normValueInfo (vi : ValueInfoP) : ValueInfoP := { vi with metadata := normEntries vi.metadata }

/-! ## multi-device configuration (serde.py:1417-1524, 1584-1696, 2058-2094) -/

/-- reference to a `Value` object: table index `idx` of the scope `up` levels outwards -/
structure Ref where
  up : Nat
  idx : Nat
deriving DecidableEq, Repr, Inhabited

structure IRSimpleShard where
  dim : IRDim
  numShards : Int
deriving DecidableEq, Repr, Inhabited

structure IRShardedDim where
  axis : Int
  simple : List IRSimpleShard
deriving DecidableEq, Repr, Inhabited

/-- `ShardingSpec.value`: None (empty tensor_name), a registered value, or a fresh placeholder
`Value(name=...)` (`_resolve_sharded_value` serde.py:1430-1449) -/
inductive IRShardValue where
  | none
  | ref (r : Ref)
  | fresh (name : String)
deriving DecidableEq, Repr, Inhabited

structure IRShardingSpec where
  value : IRShardValue
  device : List Int
  groupMap : List IntListEntryP
  dims : List IRShardedDim
deriving DecidableEq, Repr, Inhabited

/-- `NodeDeviceConfiguration`; `configuration` is the placeholder/real `ModelConfiguration`, of
which serde.py only reads `.name` back (`_resolve_node_device_configurations` swaps the object
for the model's one of the same name: not observable through `to_proto`). -/
structure IRNodeDevCfg where
  configuration : Option String
  specs : List IRShardingSpec
  pipelineStage : Option Int
deriving DecidableEq, Repr, Inhabited

/-- `ModelConfiguration` -/
structure IRModelCfg where
  name : String
  numDevices : Int
  deviceNames : List String
deriving DecidableEq, Repr, Inhabited

def desModelCfg (c : DevCfgP) : IRModelCfg := ⟨c.name, c.numDevices, c.device⟩
def serModelCfg (c : IRModelCfg) : DevCfgP := ⟨c.name, c.numDevices, c.deviceNames⟩

def desSimpleShard (s : SimpleShardP) : IRSimpleShard := ⟨desDimVal s.dim, s.numShards⟩
def serSimpleShard (s : IRSimpleShard) : SimpleShardP := ⟨serDimVal s.dim, s.numShards⟩
def desShardedDim (d : ShardedDimP) : IRShardedDim := ⟨d.axis, d.simple.map desSimpleShard⟩
def serShardedDim (d : IRShardedDim) : ShardedDimP := ⟨d.axis, d.simple.map serSimpleShard⟩

/-! ## scopes -/

/-- the stack `scoped_values`, innermost scope first; a scope = the names of its table -/
abbrev Scopes := List (List String)

/-- `name in values` / `values[name]`: the entry a dict keeps is the last one created with that name -/
def lookupLast : List String → String → Option Nat
  | [], _ => none
  | x :: xs, n => match lookupLast xs n with
    | some i => some (i + 1)
    | none => if x = n then some 0 else none

/-- `for values in reversed(scoped_values): if name in values` serde.py:1322-1331 -/
def resolve : Scopes → String → Option Ref
  | [], _ => none
  | sc :: rest, n => match lookupLast sc n with
    | some i => some ⟨0, i⟩
    | none => (resolve rest n).map fun r => ⟨r.up + 1, r.idx⟩

/-- `value.name` of a reference -/
def refName (scopes : Scopes) (r : Ref) : String := ((scopes.getD r.up []).getD r.idx "")

def desShardingSpec (scopes : Scopes) (s : ShardingSpecP) : IRShardingSpec :=
  { value := if s.tensorName.isEmpty then .none else
      match resolve scopes s.tensorName with
      | some r => .ref r
      | none => .fresh s.tensorName,
    device := s.device, groupMap := s.groupMap, dims := s.dims.map desShardedDim }

/-- `deserialize_node_device_configuration` serde.py:1492-1524 -/
def desNodeDevCfg (scopes : Scopes) (c : NodeDevCfgP) : IRNodeDevCfg :=
  { configuration := if c.configurationId.isEmpty then none else some c.configurationId,
    specs := c.specs.map (desShardingSpec scopes), pipelineStage := c.pipelineStage }

/-- `_serialize_sharding_spec` serde.py:1620-1642 -/
def serShardingSpec (scopes : Scopes) (s : IRShardingSpec) : Except Err ShardingSpecP :=
  let mk (n : String) : Except Err ShardingSpecP :=
    if n.isEmpty then .error "ValueError" else
      .ok { tensorName := n, device := s.device, groupMap := s.groupMap, dims := s.dims.map serShardedDim }
  match s.value with
  | .none => .error "ValueError"
  | .ref r => mk (refName scopes r)
  | .fresh n => mk n

def serShardingSpecs (scopes : Scopes) : List IRShardingSpec → Except Err (List ShardingSpecP)
  | [] => .ok []
  | s :: ss => do
    let p ← serShardingSpec scopes s
    let ps ← serShardingSpecs scopes ss
    .ok (p :: ps)

/-- `serialize_node_device_configuration` serde.py:1645-1664 -/
def serNodeDevCfg (scopes : Scopes) (c : IRNodeDevCfg) : Except Err NodeDevCfgP :=
  match c.configuration with
  | none => .error "ValueError"
  | some n => if n.isEmpty then .error "ValueError" else do
    let specs ← serShardingSpecs scopes c.specs
    .ok { configurationId := n, specs := specs, pipelineStage := c.pipelineStage }

def serNodeDevCfgs (scopes : Scopes) : List IRNodeDevCfg → Except Err (List NodeDevCfgP)
  | [] => .ok []
  | c :: cs => do
    let p ← serNodeDevCfg scopes c
    let ps ← serNodeDevCfgs scopes cs
    .ok (p :: ps)

/-- `_serialize_node_multi_device_into` serde.py:2058-2094: the IR-version-11 gate -/
def serNodeDevCfgsGated (scopes : Scopes) (ver : Option Int) (cs : List IRNodeDevCfg) :
    Except Err (List NodeDevCfgP) :=
  match ver with
  | some v => if v < 11 then .ok [] else serNodeDevCfgs scopes cs
  | none => serNodeDevCfgs scopes cs

/-! ## attributes, nodes, graphs -/

/-- graph output: a registered value of the graph's own table, or a `Value` created for an output
nobody produces (serde.py:857-873) -/
inductive IRGOut where
  | tbl (idx : Nat)
  | dangling (v : IRValue)
deriving DecidableEq, Repr, Inhabited

mutual
/-- `_core.Attr` / `RefAttr` -/
inductive IRAttr where
  | ref (name doc refName : String) (type : Int)
  | int (name doc : String) (i : Int)
  | float (name doc : String) (bits : Nat)
  | string (name doc : String) (s : BStr)
  | ints (name doc : String) (xs : List Int)
  | floats (name doc : String) (xs : List Nat)
  | strings (name doc : String) (xs : List String)
  | tensor (name doc : String) (t : IRTensor)
  | tensors (name doc : String) (ts : List IRTensor)
  | graph (name doc : String) (g : IRGraph)
  | graphs (name doc : String) (gs : List IRGraph)
  | typeProto (name doc : String) (ty : Option IRType) (sh : Option IRShape)
  | typeProtos (name doc : String) (tps : List (Option IRType × Option IRShape))
  | undefined (name doc : String)

/-- `_core.Node`.  `inputs`: None or a value; `outputs`: a registered value of the current
scope or (`none`) a fresh `Value(name="")`.  `attrs` is the `Attributes` dict (keyed by name). -/
inductive IRNode where
  | mk (domain opType overload name doc : String) (inputs : List (Option Ref))
      (outputs : List (Option Nat)) (attrs : List IRAttr) (mprops : Dict)
      (devcfgs : List IRNodeDevCfg)

/-- `_core.Graph`.  `table`: the `Value` objects of this scope (final state); `inputs` and
`initializers` index it. -/
inductive IRGraph where
  | mk (table : List IRValue) (inputs : List Nat) (initializers : List Nat) (nodes : List IRNode)
      (outputs : List IRGOut) (name doc : String) (opsets : List OpsetP) (mprops : Dict)
end

instance : Inhabited IRGraph := ⟨.mk [] [] [] [] [] "" "" [] []⟩
instance : Inhabited IRAttr := ⟨.undefined "" ""⟩
instance : Inhabited IRNode := ⟨.mk "" "" "" "" "" [] [] [] [] []⟩

namespace IRAttr
def name : IRAttr → String
  | ref n .. | int n .. | float n .. | string n .. | ints n .. | floats n .. | strings n ..
  | tensor n .. | tensors n .. | graph n .. | graphs n .. | typeProto n .. | typeProtos n ..
  | undefined n .. => n
/-- `attr.value is None` (RefAttr and valueless attributes) -/
def hasValue : IRAttr → Bool
  | ref .. | undefined .. => false
  | _ => true
end IRAttr

namespace IRNode
def outputs : IRNode → List (Option Nat) | mk _ _ _ _ _ _ o .. => o
def inputs : IRNode → List (Option Ref) | mk _ _ _ _ _ i .. => i
end IRNode

namespace IRGraph
def table : IRGraph → List IRValue | mk t .. => t
def inputs : IRGraph → List Nat | mk _ i .. => i
def initializers : IRGraph → List Nat | mk _ _ i .. => i
def nodes : IRGraph → List IRNode | mk _ _ _ n .. => n
def outputs : IRGraph → List IRGOut | mk _ _ _ _ o .. => o
def name : IRGraph → String | mk _ _ _ _ _ n .. => n
def doc : IRGraph → String | mk _ _ _ _ _ _ d .. => d
def opsets : IRGraph → List OpsetP | mk _ _ _ _ _ _ _ o _ => o
def mprops : IRGraph → Dict | mk _ _ _ _ _ _ _ _ m => m
end IRGraph

/-- `Attributes({attr.name: attr for attr in attrs})` _graph_containers.py:412-419 -/
def attrDict (as : List IRAttr) : List IRAttr := dictByKey IRAttr.name [] as

/-- names in order of first occurrence -/
def dedupStr : List String → List String
  | [] => []
  | x :: xs => x :: (dedupStr xs).filter (· ≠ x)

/-- the attributes `as` (distinct names) in the order in which their names first occur in `names` -/
def orderByFirst (names : List String) (as : List IRAttr) : List IRAttr :=
  (dedupStr names).filterMap fun n => as.find? (fun a => a.name = n)

def tableNames (tbl : List IRValue) : List String := tbl.map (·.name)

/-- annotation for a tensor name: `{a.tensor_name: a for a in ...}` keeps the last -/
def findAnnot (q : List AnnotP) (n : String) : Option AnnotP := findLast? (fun a => a.tensorName = n) q

def findVI (vis : List ValueInfoP) (n : String) : Option ValueInfoP := findLast? (fun v => v.name = n) vis

/-- `_deserialize_quantization_annotation` if the name is annotated (serde.py:1017-1027) -/
def applyQuant (q : List AnnotP) (v : IRValue) : IRValue :=
  match findAnnot q v.name with
  | some a => { v with quant := dictOfEntries a.params }
  | none => v

/-- a fresh `Value(name=n)` filled from `value_info` and the annotations when they mention it
(serde.py:921-935 and 1352-1359) -/
def newValue (vis : List ValueInfoP) (q : List AnnotP) (n : String) : Except Err IRValue := do
  let v ← match findVI vis n with
    | some vi => applyInfo (IRValue.blank n) vi
    | none => .ok (IRValue.blank n)
  .ok (applyQuant q v)

/-- node inputs, serde.py:1315-1364.  The table of the current scope grows by a placeholder for
every name that no scope declares. -/
def desNodeInputs (outer : Scopes) (vis : List ValueInfoP) (q : List AnnotP) :
    List String → List IRValue → Except Err (List (Option Ref) × List IRValue)
  | [], tbl => .ok ([], tbl)
  | n :: ns, tbl =>
    if n = "" then do
      let (rs, tbl') ← desNodeInputs outer vis q ns tbl
      .ok (none :: rs, tbl')
    else match resolve (tableNames tbl :: outer) n with
      | some r => do
        let (rs, tbl') ← desNodeInputs outer vis q ns tbl
        .ok (some r :: rs, tbl')
      | none => do
        let v ← newValue vis q n
        let (rs, tbl') ← desNodeInputs outer vis q ns (tbl ++ [v])
        .ok (some ⟨0, tbl.length⟩ :: rs, tbl')

/-- node outputs, serde.py:1366-1390 -/
def desNodeOutputs (names : List String) : List String → Except Err (List (Option Nat))
  | [] => .ok []
  | n :: ns =>
    if n = "" then do
      let os ← desNodeOutputs names ns
      .ok (none :: os)
    else match lookupLast names n with
      | some i => do
        let os ← desNodeOutputs names ns
        .ok (some i :: os)
      | none => .error "AssertionError"

def desBStrs : List BStr → Except Err (List String)
  | [] => .ok []
  | .utf8 s :: xs => do
    let r ← desBStrs xs
    .ok (s :: r)
  | .raw _ :: _ => .error "UnicodeDecodeError"

def desTensors : List TensorP → Except Err (List IRTensor)
  | [] => .ok []
  | t :: ts => do
    let x ← desTensor t
    let xs ← desTensors ts
    .ok (x :: xs)

def desTypeAndShape (tp : TypeP) : Except Err (Option IRType × Option IRShape) := do
  let ty ← desTypeForType tp
  let sh ← desTypeForShape tp
  .ok (ty, sh)

def desTypeAndShapes : List TypeP → Except Err (List (Option IRType × Option IRShape))
  | [] => .ok []
  | t :: ts => do
    let x ← desTypeAndShape t
    let xs ← desTypeAndShapes ts
    .ok (x :: xs)

/-- `_declare_node_outputs` serde.py:889-935 for one node -/
def declareOutputs (vis : List ValueInfoP) (q : List AnnotP) :
    List String → List IRValue → Except Err (List IRValue)
  | [], tbl => .ok tbl
  | n :: ns, tbl =>
    if n = "" then declareOutputs vis q ns tbl
    else match lookupLast (tableNames tbl) n with
      | some _ => .error "ValueError"
      | none => do
        let v ← newValue vis q n
        declareOutputs vis q ns (tbl ++ [v])

def declareAll (vis : List ValueInfoP) (q : List AnnotP) :
    List NodeP → List IRValue → Except Err (List IRValue)
  | [], tbl => .ok tbl
  | n :: ns, tbl => do
    let tbl' ← declareOutputs vis q n.outputs tbl
    declareAll vis q ns tbl'

/-- graph inputs serde.py:784-794 -/
def desGraphInputs (q : List AnnotP) : List ValueInfoP → Except Err (List IRValue)
  | [] => .ok []
  | vi :: vis => do
    let v ← applyInfo (IRValue.blank vi.name) vi
    let vs ← desGraphInputs q vis
    .ok (applyQuant q v :: vs)

def listSet {α : Type} : List α → Nat → α → List α
  | [], _, _ => []
  | _ :: xs, 0, a => a :: xs
  | x :: xs, i + 1, a => x :: listSet xs i a

/-- the `Value` created for an initializer that is not a graph input: type and shape from the
tensor (serde.py:819-829) -/
def initV0 (t : IRTensor) (dt : Int) : IRValue :=
  { IRValue.blank t.name with
    type := some (.tensor dt ""), shape := some (t.shape.map fun d => (IRDim.int d, "")),
    const := some t }

/-- a value_info without type / shape does not erase what the tensor tells (serde.py:830-837) -/
def fillFrom (v0 v : IRValue) : IRValue :=
  { v with type := v.type <|> v0.type, shape := v.shape <|> v0.shape }

def newInitValue (vis : List ValueInfoP) (q : List AnnotP) (t : IRTensor) (dt : Int) :
    Except Err IRValue := do
  let v1 ← match findVI vis t.name with
    | some vi => do
      let v ← applyInfo (initV0 t dt) vi
      .ok (fillFrom (initV0 t dt) v)
    | none => .ok (initV0 t dt)
  .ok (applyQuant q v1)

/-- initializers serde.py:802-837: returns (table, initializer indices in proto order) -/
def desInitializers (vis : List ValueInfoP) (q : List AnnotP) :
    List IRTensor → List IRValue → Except Err (List IRValue × List Nat)
  | [], tbl => .ok (tbl, [])
  | t :: ts, tbl =>
    if t.name = "" then desInitializers vis q ts tbl
    else do
      -- element type (and shape) of every named initializer are decoded up front (serde.py:813-816)
      let dt ← t.dtype
      match lookupLast (tableNames tbl) t.name with
      | some i => do
        let v := tbl.getD i (IRValue.blank "")
        let (tbl', is) ← desInitializers vis q ts (listSet tbl i { v with const := some t })
        .ok (tbl', i :: is)
      | none => do
        let v ← newInitValue vis q t dt
        let (tbl', is) ← desInitializers vis q ts (tbl ++ [v])
        .ok (tbl', tbl.length :: is)

/-- graph outputs serde.py:857-873 -/
def desGraphOutputs : List ValueInfoP → List IRValue → Except Err (List IRGOut × List IRValue)
  | [], tbl => .ok ([], tbl)
  | vi :: vis, tbl =>
    match lookupLast (tableNames tbl) vi.name with
    | some i => do
      let v ← applyInfo (tbl.getD i (IRValue.blank "")) vi
      let (os, tbl') ← desGraphOutputs vis (listSet tbl i v)
      .ok (.tbl i :: os, tbl')
    | none => do
      let v ← applyInfo (IRValue.blank vi.name) vi
      let (os, tbl') ← desGraphOutputs vis tbl
      .ok (.dangling v :: os, tbl')

/-- keep the first occurrence (a dict keyed by name: same name = same table index here) -/
def dedupNat : List Nat → List Nat
  | [] => []
  | x :: xs => x :: (dedupNat xs).filter (· ≠ x)

/-- `_normalize_domain` _core.py:2058-2060 -/
def normDomain (d : String) : String := if d = "ai.onnx" then "" else d

mutual
/-- `_deserialize_attribute` serde.py:1206-1284 -/
def desAttr (scopes : Scopes) : AttrP → Except Err IRAttr
  | .unknown .. => .error "ValueError"
  | .ref n d r t => if 0 ≤ t ∧ t ≤ 14 then .ok (.ref n d r t) else .error "ValueError"
  | .int n d i => .ok (.int n d i)
  | .float n d b => .ok (.float n d b)
  | .string n d s => .ok (.string n d s)
  | .ints n d xs => .ok (.ints n d xs)
  | .floats n d xs => .ok (.floats n d xs)
  | .strings n d xs => do
    let ys ← desBStrs xs
    .ok (.strings n d ys)
  | .tensor n d t => do
    let x ← desTensor t
    .ok (.tensor n d x)
  | .tensors n d ts => do
    let xs ← desTensors ts
    .ok (.tensors n d xs)
  | .graph n d g => do
    let x ← desGraph scopes g
    .ok (.graph n d x)
  | .graphs n d gs => do
    let xs ← desGraphs scopes gs
    .ok (.graphs n d xs)
  | .typeProto n d tp => do
    let (ty, sh) ← desTypeAndShape tp
    .ok (.typeProto n d ty sh)
  | .typeProtos n d tps => do
    let xs ← desTypeAndShapes tps
    .ok (.typeProtos n d xs)
  | .undefined n d => .ok (.undefined n d)
  | .sparse .. => .error "NotImplementedError"

def desGraphs (scopes : Scopes) : List GraphP → Except Err (List IRGraph)
  | [] => .ok []
  | g :: gs => do
    let x ← desGraph scopes g
    let xs ← desGraphs scopes gs
    .ok (x :: xs)

def desAttrs (scopes : Scopes) : List AttrP → Except Err (List IRAttr)
  | [] => .ok []
  | a :: as => do
    let x ← desAttr scopes a
    let xs ← desAttrs scopes as
    .ok (x :: xs)

/-- node attributes: only the last attribute of every name is deserialized (serde.py:1417-1423,
`{a.name: a for a in proto.attribute}.values()`); `orderByFirst` then restores the dict order -/
def desAttrsLast (scopes : Scopes) : List AttrP → Except Err (List IRAttr)
  | [] => .ok []
  | a :: as =>
    if as.any (fun b => b.name = a.name) then desAttrsLast scopes as
    else do
      let x ← desAttr scopes a
      let xs ← desAttrsLast scopes as
      .ok (x :: xs)

/-- `_deserialize_node` serde.py:1308-1414; `tbl` is the current scope's table (state) -/
def desNode (outer : Scopes) (vis : List ValueInfoP) (q : List AnnotP) (tbl : List IRValue) :
    NodeP → Except Err (IRNode × List IRValue)
  | .mk inputs outputs name opType domain overload doc attrs metadata devcfgs => do
    let (ins, tbl') ← desNodeInputs outer vis q inputs tbl
    let scopes := tableNames tbl' :: outer
    let outs ← desNodeOutputs (tableNames tbl') outputs
    let dcs := devcfgs.map (desNodeDevCfg scopes)
    let as ← desAttrsLast scopes attrs
    .ok (.mk (normDomain domain) opType overload name doc ins outs
          (orderByFirst (attrs.map AttrP.name) as) (dictOfEntries metadata) dcs, tbl')

def desNodes (outer : Scopes) (vis : List ValueInfoP) (q : List AnnotP) :
    List NodeP → List IRValue → Except Err (List IRNode × List IRValue)
  | [], tbl => .ok ([], tbl)
  | n :: ns, tbl => do
    let (x, tbl') ← desNode outer vis q tbl n
    let (xs, tbl'') ← desNodes outer vis q ns tbl'
    .ok (x :: xs, tbl'')

/-- `_deserialize_graph(proto, scoped_values)` serde.py:763-886; `outer` = the enclosing scopes -/
def desGraph (outer : Scopes) : GraphP → Except Err IRGraph
  | .mk name doc nodes initializers inputs outputs valueInfo quant metadata => do
    let tbl0 ← desGraphInputs quant inputs
    let tensors ← desTensors initializers
    let (tbl1, inits) ← desInitializers valueInfo quant tensors tbl0
    let tbl2 ← declareAll valueInfo quant nodes tbl1
    let (ns, tbl3) ← desNodes outer valueInfo quant nodes tbl2
    let (outs, tbl4) ← desGraphOutputs outputs tbl3
    .ok (.mk tbl4 (List.range inputs.length) (dedupNat inits) ns outs name doc []
          (dictOfEntries metadata))
end

/-! ## serialization of attributes, nodes, graphs (serde.py:1830-2094, 2147-2273) -/

/-- `_remove_trailing_outputs` serde.py:2004-2018 -/
def trimTrailingEmpty : List String → List String
  | [] => []
  | x :: xs => match trimTrailingEmpty xs with
    | [] => if x = "" then [] else [x]
    | r => x :: r

def serBStrs (xs : List String) : List BStr := xs.map .utf8

def serTypeAndShapes (tps : List (Option IRType × Option IRShape)) : List TypeP :=
  tps.map fun x => serTypeAndShape x.1 x.2

/-- table indices that are graph outputs: `value.is_graph_output()` for values of this scope -/
def outIdxs : List IRGOut → List Nat
  | [] => []
  | .tbl i :: os => i :: outIdxs os
  | .dangling _ :: os => outIdxs os

/-- `_maybe_add_quantization_annotation` serde.py:1810-1827 -/
def quantOf (v : IRValue) : List AnnotP :=
  if v.quant.isEmpty then [] else [⟨v.name, sortEntries v.quant⟩]

/-- annotations of the input loop (serde.py:1865-1869, D29 fixed: once per value object).
Returns the annotations and the indices already annotated. -/
def quantInputs (tbl : List IRValue) (initNames : List String) :
    List Nat → List Nat → List AnnotP × List Nat
  | [], seen => ([], seen)
  | i :: is, seen =>
    let v := tbl.getD i (IRValue.blank "")
    if !initNames.contains v.name && !seen.contains i then
      let (r, seen') := quantInputs tbl initNames is (i :: seen)
      (quantOf v ++ r, seen')
    else quantInputs tbl initNames is seen

/-- annotations of the initializer and of the output loop (serde.py:1872-1873, 1899-1901) -/
def quantOnce (tbl : List IRValue) : List Nat → List Nat → List AnnotP × List Nat
  | [], seen => ([], seen)
  | i :: is, seen =>
    if !seen.contains i then
      let (r, seen') := quantOnce tbl is (i :: seen)
      (quantOf (tbl.getD i (IRValue.blank "")) ++ r, seen')
    else quantOnce tbl is seen

def quantOutputs (tbl : List IRValue) : List IRGOut → List Nat → List AnnotP
  | [], _ => []
  | .tbl i :: os, seen =>
    if !seen.contains i then quantOf (tbl.getD i (IRValue.blank "")) ++ quantOutputs tbl os (i :: seen)
    else quantOutputs tbl os seen
  | .dangling v :: os, seen => quantOf v ++ quantOutputs tbl os seen

/-- value_info and initializer tensors written by the initializer loop serde.py:1872-1884 -/
def serInitVIs (tbl : List IRValue) (inputNames : List String) : List Nat → List ValueInfoP
  | [] => []
  | i :: is =>
    let v := tbl.getD i (IRValue.blank "")
    (if shouldCreateVI v && !inputNames.contains v.name then [serValue v] else [])
      ++ serInitVIs tbl inputNames is

def serInitTensors (tbl : List IRValue) : List Nat → List TensorP
  | [] => []
  | i :: is =>
    let v := tbl.getD i (IRValue.blank "")
    (match v.const with
     | some t => [serTensor (t.setName v.name)]
     | none => []) ++ serInitTensors tbl is

/-- per node: annotations and value_info of the outputs that are not graph outputs
(serde.py:1889-1898) -/
def nodeOutQuant (tbl : List IRValue) (outIs : List Nat) : List (Option Nat) → List AnnotP
  | [] => []
  | none :: os => nodeOutQuant tbl outIs os
  | some j :: os =>
    (if outIs.contains j then [] else quantOf (tbl.getD j (IRValue.blank "")))
      ++ nodeOutQuant tbl outIs os

def nodeOutVIs (tbl : List IRValue) (outIs : List Nat) : List (Option Nat) → List ValueInfoP
  | [] => []
  | none :: os => nodeOutVIs tbl outIs os
  | some j :: os =>
    let v := tbl.getD j (IRValue.blank "")
    (if outIs.contains j then [] else if shouldCreateVI v then [serValue v] else [])
      ++ nodeOutVIs tbl outIs os

def serGOut (tbl : List IRValue) : IRGOut → ValueInfoP
  | .tbl i => serValue (tbl.getD i (IRValue.blank ""))
  | .dangling v => serValue v

mutual
/-- `serialize_attribute_into` / `serialize_reference_attribute_into` serde.py:2221-2330.
Subgraphs are serialized with the model's IR version (the multi-device gate applies to their
nodes as well). -/
def serAttr (scopes : Scopes) (ver : Option Int) : IRAttr → Except Err AttrP
  | .ref n d r t => .ok (.ref n d r t)
  | .int n d i => .ok (.int n d i)
  | .float n d b => .ok (.float n d b)
  | .string n d s => .ok (.string n d s)
  | .ints n d xs => .ok (.ints n d xs)
  | .floats n d xs => .ok (.floats n d xs)
  | .strings n d xs => .ok (.strings n d (serBStrs xs))
  | .tensor n d t => .ok (.tensor n d (serTensor t))
  | .tensors n d ts => .ok (.tensors n d (ts.map serTensor))
  | .graph n d g => do
    let x ← serGraph scopes ver g
    .ok (.graph n d x)
  | .graphs n d gs => do
    let xs ← serGraphs scopes ver gs
    .ok (.graphs n d xs)
  | .typeProto n d ty sh => .ok (.typeProto n d (serTypeAndShape ty sh))
  | .typeProtos n d tps => .ok (.typeProtos n d (serTypeAndShapes tps))
  | .undefined .. => .error "TypeError"

def serGraphs (scopes : Scopes) (ver : Option Int) : List IRGraph → Except Err (List GraphP)
  | [] => .ok []
  | g :: gs => do
    let x ← serGraph scopes ver g
    let xs ← serGraphs scopes ver gs
    .ok (x :: xs)

def serAttrs (scopes : Scopes) (ver : Option Int) : List IRAttr → Except Err (List AttrP)
  | [] => .ok []
  | a :: as => do
    let x ← serAttr scopes ver a
    let xs ← serAttrs scopes ver as
    .ok (x :: xs)

/-- `serialize_node_into` serde.py:2021-2055; `scopes` = current scope names :: outer -/
def serNode (scopes : Scopes) (ver : Option Int) : IRNode → Except Err NodeP
  | .mk domain opType overload name doc inputs outputs attrs mprops devcfgs => do
    let ins := inputs.map fun
      | none => ""
      | some r => refName scopes r
    let outs := trimTrailingEmpty (outputs.map fun
      | none => ""
      | some j => refName scopes ⟨0, j⟩)
    let as ← serAttrs scopes ver attrs
    let dcs ← if devcfgs.isEmpty then .ok [] else serNodeDevCfgsGated scopes ver devcfgs
    .ok (.mk ins outs name opType domain overload doc as (sortEntries mprops) dcs)

def serNodes (scopes : Scopes) (ver : Option Int) : List IRNode → Except Err (List NodeP)
  | [] => .ok []
  | n :: ns => do
    let x ← serNode scopes ver n
    let xs ← serNodes scopes ver ns
    .ok (x :: xs)

/-- `serialize_graph_into` serde.py:1855-1903 (D29 fixed) -/
def serGraph (outer : Scopes) (ver : Option Int) : IRGraph → Except Err GraphP
  | .mk tbl inputs inits nodes outputs name doc _ mprops => do
    let scopes := tableNames tbl :: outer
    let getV := fun i => tbl.getD i (IRValue.blank "")
    let initNames := inits.map fun i => (getV i).name
    let inputNames := inputs.map fun i => (getV i).name
    let outIs := outIdxs outputs
    let (qIn, seen1) := quantInputs tbl initNames inputs []
    let (qInit, seen2) := quantOnce tbl inits seen1
    let ns ← serNodes scopes ver nodes
    let nodeOuts := nodes.flatMap IRNode.outputs
    let qNodes := nodeOutQuant tbl outIs nodeOuts
    let qOut := quantOutputs tbl outputs seen2
    .ok (.mk name doc ns (serInitTensors tbl inits)
          (inputs.map fun i => serValue (getV i))
          (outputs.map (serGOut tbl))
          (serInitVIs tbl inputNames inits ++ nodeOutVIs tbl outIs nodeOuts)
          (qIn ++ qInit ++ qNodes ++ qOut)
          (sortEntries mprops))
end

/-! ## functions (serde.py:938-990, 1906-1987) -/

/-- `_core.Function` (its `graph` holds inputs/outputs/nodes/doc/opsets/metadata) -/
structure IRFunction where
  domain : String
  name : String
  overload : String
  graph : IRGraph
  attrs : List IRAttr

def functionOutputs (names : List String) : List String → Except Err (List IRGOut)
  | [] => .ok []
  | n :: ns => match lookupLast names n with
    | some i => do
      let r ← functionOutputs names ns
      .ok (.tbl i :: r)
    | none => .error "KeyError"

/-- function inputs: `Value(name=...)`, filled from `value_info` when it mentions the input
(D120 fixed, see /verif/proposed_fixes/D120.diff) -/
def functionInputs (vis : List ValueInfoP) : List String → Except Err (List IRValue)
  | [] => .ok []
  | n :: ns => do
    let v ← newValue vis [] n
    let vs ← functionInputs vis ns
    .ok (v :: vs)

/-- `deserialize_function` serde.py:938-990 -/
def desFunction (f : FunctionP) : Except Err IRFunction := do
  let tbl0 ← functionInputs f.valueInfo f.inputs
  let tbl1 ← declareAll f.valueInfo [] f.nodes tbl0
  let (ns, tbl2) ← desNodes [] f.valueInfo [] f.nodes tbl1
  let outs ← functionOutputs (tableNames tbl2) f.outputs
  let as ← desAttrs [] f.attrProtos
  let gname := if f.overload.isEmpty then "" else f.name ++ "_" ++ f.domain ++ "__" ++ f.overload
  .ok { domain := f.domain, name := f.name, overload := f.overload,
        graph := .mk tbl2 (List.range f.inputs.length) [] ns outs gname f.doc (opsetDict f.opsetImport)
                   (dictOfEntries f.metadata),
        attrs := attrDict (as ++ f.attrNames.map fun n => IRAttr.undefined n "") }

def valuesVI (tbl : List IRValue) (createVI : Bool) : List Nat → List ValueInfoP
  | [] => []
  | i :: is =>
    let v := tbl.getD i (IRValue.blank "")
    (if shouldCreateVI v && createVI then [serValue v] else []) ++ valuesVI tbl createVI is

def optNats : List (Option Nat) → List Nat
  | [] => []
  | none :: xs => optNats xs
  | some i :: xs => i :: optNats xs

/-- default attribute values of a function: serialized without `model_ir_version` (serde.py:2015) -/
def serFunctionAttrs (as : List IRAttr) : Except Err (List AttrP) :=
  serAttrs [] none (as.filter IRAttr.hasValue)

/-- `serialize_function_into` serde.py:1923-1987 -/
def serFunction (ver : Option Int) (createVI : Bool) (f : IRFunction) : Except Err FunctionP := do
  let tbl := f.graph.table
  let scopes : Scopes := [tableNames tbl]
  let aps ← serFunctionAttrs f.attrs
  let ns ← serNodes scopes ver f.graph.nodes
  .ok { name := f.name, domain := f.domain, overload := f.overload, doc := f.graph.doc,
        inputs := f.graph.inputs.map fun i => refName scopes ⟨0, i⟩,
        outputs := (outIdxs f.graph.outputs).map fun i => refName scopes ⟨0, i⟩,
        attrNames := (f.attrs.filter fun a => !a.hasValue).map IRAttr.name,
        attrProtos := aps,
        nodes := ns,
        opsetImport := f.graph.opsets,
        valueInfo := valuesVI tbl createVI f.graph.inputs
          ++ valuesVI tbl createVI (optNats (f.graph.nodes.flatMap IRNode.outputs)),
        metadata := sortEntries f.graph.mprops }

/-! ## models (serde.py:611-745, 1530-1581, 1722-1772) -/

structure IRModel where
  graph : IRGraph
  irVersion : Int
  producerName : String
  producerVersion : String
  domain : String
  modelVersion : Int
  doc : String
  functions : List IRFunction
  mprops : Dict
  configs : List IRModelCfg

def fnKey (f : IRFunction) : String × String × String := (f.domain, f.name, f.overload)

/-- `{func.identifier(): func for func in functions}` -/
def functionDict : List IRFunction → List IRFunction → List IRFunction
  | acc, [] => acc
  | acc, f :: fs =>
    functionDict (if acc.any (fun g => fnKey g = fnKey f) then acc.map (fun g => if fnKey g = fnKey f then f else g)
                  else acc ++ [f]) fs

/-- `str.partition(sep)` on character lists: split at the first occurrence of `sep` -/
def partitionChars (sep : List Char) : List Char → Option (List Char × List Char)
  | [] => if sep.isEmpty then some ([], []) else none
  | c :: cs =>
    if sep.isPrefixOf (c :: cs) then some ([], (c :: cs).drop sep.length)
    else (partitionChars sep cs).map fun ab => (c :: ab.1, ab.2)

def partitionStr (sep s : String) : Option (String × String) :=
  (partitionChars sep.toList s.toList).map fun ab => (String.ofList ab.1, String.ofList ab.2)

/-- `_parse_experimental_function_value_info_name` serde.py:582-609: split at the first "::",
then at the first "/" -/
def parseExperimentalName (name : String) : Option (String × String × String) :=
  match partitionStr "::" name with
  | none => none
  | some (d, rest) => match partitionStr "/" rest with
    | none => none
    | some (n, vn) => some (d, n, vn)

/-- `format_name` serde.py:1765-1766 -/
def experimentalName (d n vn : String) : String := d ++ "::" ++ n ++ "/" ++ vn

/-- the entries of the main graph's value_info that address function `(d, n, "")`, by value name
(later entries replace earlier ones) -/
def experimentalFor (vis : List ValueInfoP) (d n : String) : List (String × ValueInfoP) :=
  vis.filterMap fun vi => match parseExperimentalName vi.name with
    | some (d', n', vn) => if d' = d ∧ n' = n then some (vn, vi) else none
    | none => none

def applyExperimental (m : List (String × ValueInfoP)) :
    List Nat → List IRValue → Except Err (List IRValue)
  | [], tbl => .ok tbl
  | i :: is, tbl =>
    let v := tbl.getD i (IRValue.blank "")
    match findLast? (fun e => e.1 = v.name) m with
    | some e => do
      let v' ← applyInfo v e.2
      applyExperimental m is (listSet tbl i v')
    | none => applyExperimental m is tbl

/-- `_deserialized_experimental_value_info_for_function_ir9` serde.py:699-745 for one function -/
def applyExperimentalFn (vis : List ValueInfoP) (f : IRFunction) : Except Err IRFunction :=
  if f.overload = "" then
    match f.graph with
    | .mk tbl ins inits nodes outs name doc opsets mprops => do
      let m := experimentalFor vis f.domain f.name
      let tbl' ← applyExperimental m (ins ++ optNats (nodes.flatMap IRNode.outputs)) tbl
      .ok { f with graph := .mk tbl' ins inits nodes outs name doc opsets mprops }
  else .ok f

def applyExperimentalAll (vis : List ValueInfoP) : List IRFunction → Except Err (List IRFunction)
  | [] => .ok []
  | f :: fs => do
    let x ← applyExperimentalFn vis f
    let xs ← applyExperimentalAll vis fs
    .ok (x :: xs)

def desFunctions : List FunctionP → Except Err (List IRFunction)
  | [] => .ok []
  | f :: fs => do
    let x ← desFunction f
    let xs ← desFunctions fs
    .ok (x :: xs)

/-- `graph.opset_imports.update(...)` on the freshly built main graph (serde.py:621) -/
def IRGraph.setOpsets : IRGraph → List OpsetP → IRGraph
  | .mk t i n ns o name doc _ mp, ops => .mk t i n ns o name doc ops mp

/-- `deserialize_model` serde.py:611-655 -/
def desModel (m : ModelP) : Except Err IRModel := do
  let g ← desGraph [] m.graph
  let g := g.setOpsets (opsetDict m.opsetImport)
  let fs ← desFunctions m.functions
  let fs := functionDict [] fs
  let fs ← if m.irVersion < 10 then applyExperimentalAll m.graph.valueInfo fs else .ok fs
  .ok { graph := g, irVersion := m.irVersion, producerName := m.producerName,
        producerVersion := m.producerVersion, domain := m.domain, modelVersion := m.modelVersion,
        doc := m.doc, functions := fs, mprops := dictOfEntries m.metadata,
        configs := m.configuration.map desModelCfg }

/-- what `_serialize_experimental_value_info_for_function_ir9_into` writes for one value of the
function `d::n` (serde.py:1777-1808) -/
def expEmit (d n : String) (v : IRValue) : List ValueInfoP :=
  if v.name.isEmpty then [] else
  if shouldCreateVI v then
    -- `can_be_parsed_back` serde.py:1768-1775: unrepresentable names are skipped
    if parseExperimentalName (experimentalName d n v.name) = some (d, n, v.name)
    then [serValueAs (experimentalName d n v.name) v] else []
  else []

/-- `_serialize_experimental_value_info_for_function_ir9_into` serde.py:1737-1808 -/
def serExperimental (f : IRFunction) : List ValueInfoP :=
  if !f.overload.isEmpty then [] else
  let tbl := f.graph.table
  let go := fun (is : List Nat) => is.flatMap fun i =>
    expEmit f.domain f.name (tbl.getD i (IRValue.blank ""))
  go f.graph.inputs ++ go (optNats (f.graph.nodes.flatMap IRNode.outputs))

/-- the names the main graph's value_info entries are looked up with when the model is loaded
(serde.py:1593-1602, D320 fixed): the names of the inputs and outputs of the top-level nodes and of
the initializers -/
def reservedNames : IRGraph → List String
  | .mk tbl _ inits nodes _ _ _ _ _ =>
    let scopes : Scopes := [tableNames tbl]
    ((nodes.flatMap fun n =>
        (n.inputs.filterMap fun r => r.map (refName scopes)) ++
        (n.outputs.filterMap fun j => j.map fun i => refName scopes ⟨0, i⟩)).filter (· ≠ ""))
      ++ ((inits.map fun i => (tbl.getD i (IRValue.blank "")).name).filter (· ≠ ""))

/-- `can_be_parsed_back` with `reserved_names` (serde.py:1782-1793, D320 fixed): an experimental entry
whose formatted name is also the name of a value of the main graph is not written (it would be
attached to that value too when the model is loaded) -/
def expEmitR (reserved : List String) (d n : String) (v : IRValue) : List ValueInfoP :=
  if reserved.contains (experimentalName d n v.name) then [] else expEmit d n v

/-- `_serialize_experimental_value_info_for_function_ir9_into(graph, func, reserved_names=...)` -/
def serExperimentalR (reserved : List String) (f : IRFunction) : List ValueInfoP :=
  if !f.overload.isEmpty then [] else
  let tbl := f.graph.table
  let go := fun (is : List Nat) => is.flatMap fun i =>
    expEmitR reserved f.domain f.name (tbl.getD i (IRValue.blank ""))
  go f.graph.inputs ++ go (optNats (f.graph.nodes.flatMap IRNode.outputs))

def serFunctions (ver : Int) : List IRFunction → Except Err (List FunctionP)
  | [] => .ok []
  | f :: fs => do
    let x ← serFunction (some ver) (decide (ver ≥ 10)) f
    let xs ← serFunctions ver fs
    .ok (x :: xs)

def GraphP.addValueInfo : GraphP → List ValueInfoP → GraphP
  | .mk n d ns i ins outs vi q m, extra => .mk n d ns i ins outs (vi ++ extra) q m

/-- `serialize_model_into` serde.py:1570-1615 (D320 fixed: reserved names) -/
def serModel (m : IRModel) : Except Err ModelP := do
  let g ← serGraph [] (some m.irVersion) m.graph
  let fs ← serFunctions m.irVersion m.functions
  let g := if m.irVersion ≥ 10 then g
    else GraphP.addValueInfo g (m.functions.flatMap (serExperimentalR (reservedNames m.graph)))
  .ok { irVersion := m.irVersion, producerName := m.producerName, producerVersion := m.producerVersion,
        domain := m.domain, modelVersion := m.modelVersion, doc := m.doc,
        opsetImport := m.graph.opsets, metadata := sortEntries m.mprops, graph := g, functions := fs,
        configuration := if m.irVersion < 11 then [] else m.configs.map serModelCfg }

/-- `deserialize_node` serde.py:1287-1305 (stand-alone node: its own outputs are the scope) -/
def desNodeAlone (n : NodeP) : Except Err (IRNode × List IRValue) := do
  let tbl ← declareOutputs [] [] n.outputs []
  desNode [] [] [] tbl n

/-! ## `norm`: the documented normalisations of C02, as a canonical form

* node domain "ai.onnx" -> ""; trailing empty node outputs trimmed;
* every string-string map (metadata_props, quant parameter names) sorted by key; the entries of
  `external_data` in the order location, offset, length, checksum;
* value_info: entries for names that are neither an initializer (that is not a graph input) nor a
  node output (that is not a graph output) are dropped, entries carrying no information are
  dropped, an entry (element type and dims of the tensor) is added for every initializer without
  one, the entry of an initializer is completed from the tensor (type, leaf shape) where it says
  nothing, and the list is put in the order initializers, node outputs;
* the entries of a value that is both a graph input and a graph output (pass-through) are merged:
  one `Value` carries one type / shape / doc / metadata, the output entry wins (`mergeVI`);
* quantization annotations are put in the order inputs, initializers, node outputs, graph outputs
  (an annotation list is a map keyed by tensor name; only its order changes; a value listed several
  times among the outputs is annotated once);
* below IR version 10 a function's value_info lives in the main graph under
  `domain::name/value` names (the experimental encoding, serde.py:700-745, 1737-1808): those
  entries are kept (after the graph's own, in the order functions / inputs / node outputs).
Nothing else is touched. -/

def viIsUnset : TypeP → Bool
  | .unset _ => true
  | _ => false

/-- the value-info carries information (`_should_create_value_info_for_value` on the proto side) -/
def viHasInfo (vi : ValueInfoP) : Bool :=
  !(viIsUnset vi.type && vi.metadata.isEmpty && vi.doc.isEmpty)

/-- the value-info serde.py derives from an initializer tensor (serde.py:819-829) -/
def defaultVI (t : TensorP) : ValueInfoP :=
  { name := t.name, type := .tensor (some t.dataType) (some (t.dims.map fun d => ⟨.value d, ""⟩)) "",
    doc := "", metadata := [] }

/-- One `Value` carries one type / shape / doc string / metadata dict.  When a graph output names a
graph input (pass-through) the input entry and the output entry describe the SAME value:
serde.py:857-873 applies the output entry on top of the input entry (type, shape and doc string of
the output entry win, metadata is merged with `dict.update`), and both entries are written from
that value. -/
def mergeVI (vi vo : ValueInfoP) : ValueInfoP :=
  { name := vo.name, type := vo.type, doc := vo.doc,
    metadata := sortEntries (dictUpdate (dictOfEntries vi.metadata) (dictOfEntries vo.metadata)) }

/-- canonical form of a graph input entry -/
def normInputVI (outputs : List ValueInfoP) (vi : ValueInfoP) : ValueInfoP :=
  match findVI outputs vi.name with
  | some vo => mergeVI vi vo
  | none => normValueInfo vi

/-- canonical form of a graph output entry -/
def normOutputVI (inputs : List ValueInfoP) (vo : ValueInfoP) : ValueInfoP :=
  match findVI inputs vo.name with
  | some vi => mergeVI vi vo
  | none => normValueInfo vo

def normAnnot (a : AnnotP) : AnnotP := { a with params := normEntries a.params }

/-- non-empty output names of all nodes, in order -/
def nodeOutNames (ns : List NodeP) : List String := (ns.flatMap NodeP.outputs).filter (· ≠ "")

/-- the leaf tensor type gets `dims` as its shape when it has none -/
def fillLeafShape (dims : ShapeP) : TypeP → TypeP
  | .tensor e none den => .tensor e (some dims) den
  | .sparse e none den => .sparse e (some dims) den
  | .sequence e den => .sequence (fillLeafShape dims e) den
  | .optional e den => .optional (fillLeafShape dims e) den
  | t => t

/-- value-info of an initializer, completed from the tensor: type when it has none, shape when it
has none (serde.py:819-837) -/
def fillFromTensor (vi : ValueInfoP) (t : TensorP) : ValueInfoP :=
  { vi with type := match vi.type with
      | .unset _ => (defaultVI t).type
      | tp => fillLeafShape (t.dims.map fun d => ⟨.value d, ""⟩) tp }

/-- canonical value-info of the initializers that are not graph inputs.  An initializer that is
itself a graph output takes the info of the output entry (serde.py:857-873 overrides what the
tensor says); an entry without information is not written. -/
def normInitVIs (vis outputs : List ValueInfoP) (inputNames : List String) :
    List TensorP → List ValueInfoP
  | [] => []
  | t :: ts =>
    (if inputNames.contains t.name then [] else
      match findVI outputs t.name with
      | some vo => if viHasInfo vo then [normValueInfo vo] else []
      | none =>
        match findVI vis t.name with
        | some vi => [normValueInfo (fillFromTensor vi t)]
        | none => [defaultVI t]) ++ normInitVIs vis outputs inputNames ts

def normNodeVIs (vis : List ValueInfoP) (outputNames : List String) : List String → List ValueInfoP
  | [] => []
  | n :: ns =>
    (if outputNames.contains n then [] else
      match findVI vis n with
      | some vi => if viHasInfo vi then [normValueInfo vi] else []
      | none => []) ++ normNodeVIs vis outputNames ns

def normQuantFor (q : List AnnotP) : List String → List AnnotP
  | [] => []
  | n :: ns =>
    (match findAnnot q n with
     | some a => if a.params.isEmpty then [] else [normAnnot a]
     | none => []) ++ normQuantFor q ns

mutual
def normAttr : AttrP → AttrP
  | .tensor n d t => .tensor n d (normTensor t)
  | .tensors n d ts => .tensors n d (ts.map normTensor)
  | .graph n d g => .graph n d (normGraph g)
  | .graphs n d gs => .graphs n d (normGraphs gs)
  | a => a

def normGraphs : List GraphP → List GraphP
  | [] => []
  | g :: gs => normGraph g :: normGraphs gs

def normAttrs : List AttrP → List AttrP
  | [] => []
  | a :: as => normAttr a :: normAttrs as

def normNode : NodeP → NodeP
  | .mk inputs outputs name opType domain overload doc attrs metadata devcfgs =>
    .mk inputs (trimTrailingEmpty outputs) name opType (normDomain domain) overload doc
      (normAttrs attrs) (normEntries metadata) devcfgs

def normNodes : List NodeP → List NodeP
  | [] => []
  | n :: ns => normNode n :: normNodes ns

def normGraph : GraphP → GraphP
  | .mk name doc nodes initializers inputs outputs valueInfo quant metadata =>
    let inputNames := inputs.map (·.name)
    let outputNames := outputs.map (·.name)
    let initNames := initializers.map (·.name)
    let outs := nodeOutNames nodes
    .mk name doc (normNodes nodes) (initializers.map normTensor)
      (inputs.map (normInputVI outputs)) (outputs.map (normOutputVI inputs))
      (normInitVIs valueInfo outputs inputNames initializers ++ normNodeVIs valueInfo outputNames outs)
      (normQuantFor quant
        (inputNames.filter (fun n => !initNames.contains n) ++ initNames
          ++ outs.filter (fun n => !outputNames.contains n)
          ++ (dedupStr outputNames).filter (fun n => !inputNames.contains n && !initNames.contains n)))
      (normEntries metadata)
end

/-- function value_info in canonical order: inputs, then node outputs (serde.py:1958-1987) -/
def normFnVIs (vis : List ValueInfoP) : List String → List ValueInfoP
  | [] => []
  | n :: ns =>
    (match findVI vis n with
     | some vi => if viHasInfo vi then [normValueInfo vi] else []
     | none => []) ++ normFnVIs vis ns

def normFunction (createVI : Bool) (f : FunctionP) : FunctionP :=
  { f with
    nodes := normNodes f.nodes,
    attrProtos := normAttrs f.attrProtos,
    valueInfo := if createVI then normFnVIs f.valueInfo (f.inputs ++ nodeOutNames f.nodes) else [],
    metadata := normEntries f.metadata }

/-- the entry of the main graph's value_info that addresses value `vn` of function `f` in the
experimental encoding (serde.py:700-745: the last one wins), normalised; none when it carries no
information -/
def expEntry (V : List ValueInfoP) (f : FunctionP) (vn : String) : Option ValueInfoP :=
  match findLast? (fun e => parseExperimentalName e.name = some (f.domain, f.name, vn)) V with
  | some e => if viHasInfo e then some (normValueInfo e) else none
  | none => none

/-- the experimental entries `domain::name/value` a model below IR version 10 carries for `f`, in
the order the serializer writes them: inputs, then node outputs -/
def experimentalVIs (V : List ValueInfoP) (f : FunctionP) : List ValueInfoP :=
  if !f.overload.isEmpty then [] else
  (f.inputs ++ nodeOutNames f.nodes).filterMap (expEntry V f)

def normModel (m : ModelP) : ModelP :=
  let g := normGraph m.graph
  { m with
    metadata := normEntries m.metadata,
    graph := if m.irVersion ≥ 10 then g
             else GraphP.addValueInfo g (m.functions.flatMap (experimentalVIs m.graph.valueInfo)),
    functions := m.functions.map (normFunction (decide (m.irVersion ≥ 10))) }

/-! ## `WFproto`: the explicit, decidable well-formedness C02 quantifies over -/

def nodupStr : List String → Bool
  | [] => true
  | x :: xs => !xs.contains x && nodupStr xs

def wfEntries (es : List Entry) : Bool := nodupStr (es.map (·.key))

/-- a TypeProto below a sequence/optional, or with a denotation: the `value` oneof is set, element
types are set and valid, no map type -/
def wfTypeSet : TypeP → Bool
  | .unset _ => false
  | .tensor (some e) _ _ => validDType e
  | .sparse (some e) _ _ => validDType e
  | .tensor none _ _ => false
  | .sparse none _ _ => false
  | .sequence e _ => wfTypeSet e
  | .optional e _ => wfTypeSet e
  | .map _ => false

/-- a TypeProto of a value-info / TYPE_PROTO attribute: nothing at all, or `wfTypeSet` -/
def wfType : TypeP → Bool
  | .unset den => den.isEmpty
  | t => wfTypeSet t

def wfVI (vi : ValueInfoP) : Bool := wfType vi.type && wfEntries vi.metadata

def isNatStr (s : String) : Bool :=
  match parseInt s with
  | some i => 0 ≤ i && toString i.toNat = s
  | none => false

def noPayload (t : TensorP) : Bool :=
  t.rawData.isNone && t.floatData.isEmpty && t.int32Data.isEmpty && t.int64Data.isEmpty
    && t.doubleData.isEmpty && t.uint64Data.isEmpty

/-- a supported TensorProto: any proto-backed tensor; a string tensor carries only `string_data`;
an external tensor carries only its entries (location required; offset/length canonical decimals;
checksum optional; distinct keys) -/
def wfTensor (t : TensorP) : Bool :=
  wfEntries t.metadata &&
  (if t.dataLocation = 1 then
    validDType t.dataType && noPayload t && t.stringData.isEmpty
      && wfEntries t.externalData
      && t.externalData.all (fun e => ["location", "offset", "length", "checksum"].contains e.key)
      && t.externalData.any (fun e => e.key = "location")
      && t.externalData.all (fun e => (e.key = "offset" || e.key = "length") → isNatStr e.value)
   else if t.dataType = 8 then noPayload t && t.externalData.isEmpty && t.dataLocation = 0
   else t.dataLocation = 0)

def wfShardingSpec (s : ShardingSpecP) : Bool := !s.tensorName.isEmpty

def wfNodeDevCfg (c : NodeDevCfgP) : Bool :=
  !c.configurationId.isEmpty && c.specs.all wfShardingSpec

def bstrIsUtf8 : BStr → Bool
  | .utf8 _ => true
  | .raw _ => false

/-- several graph output entries may carry one name (E4): serde.py:869-884 applies every entry of a
name to the ONE `Value` of that name and writes every entry from that value, so entries with one name
must say the same (`canon` makes them so, see `Model/SerdeWide.lean`): same name -> identical entry -/
def consOutputs : List ValueInfoP → Bool
  | [] => true
  | vo :: vos => vos.all (fun w => decide (w.name = vo.name → w = vo)) && consOutputs vos

/-- names declared by a graph scope: inputs, initializers that are not inputs, node outputs -/
def scopeNames (inputNames initNames outs : List String) : List String :=
  inputNames ++ initNames.filter (fun n => !inputNames.contains n) ++ outs

mutual
def wfAttr (scopes : Scopes) : AttrP → Bool
  | .ref _ _ r t => !r.isEmpty && decide (0 ≤ t ∧ t ≤ 14)
  | .int .. | .float .. | .string .. | .ints .. | .floats .. => true
  | .strings _ _ xs => xs.all bstrIsUtf8
  | .tensor _ _ t => wfTensor t
  | .tensors _ _ ts => ts.all wfTensor
  | .graph _ _ g => wfGraph scopes g
  | .graphs _ _ gs => wfGraphs scopes gs
  | .typeProto _ _ tp => wfType tp
  | .typeProtos _ _ tps => tps.all wfType
  | .undefined .. | .sparse .. | .unknown .. => false

def wfGraphs (scopes : Scopes) : List GraphP → Bool
  | [] => true
  | g :: gs => wfGraph scopes g && wfGraphs scopes gs

def wfAttrs (scopes : Scopes) : List AttrP → Bool
  | [] => true
  | a :: as => wfAttr scopes a && wfAttrs scopes as

/-- node: inputs resolvable in the scope chain, outputs declared in the current scope, attribute
names distinct, multi-device references resolvable -/
def wfNode (scopes : Scopes) : NodeP → Bool
  | .mk inputs outputs _ _ _ _ _ attrs metadata devcfgs =>
    inputs.all (fun n => n.isEmpty || (resolve scopes n).isSome)
      && outputs.all (fun n => n.isEmpty || (scopes.headD []).contains n)
      && nodupStr (attrs.map AttrP.name) && wfAttrs scopes attrs && wfEntries metadata
      && devcfgs.all wfNodeDevCfg

def wfNodes (scopes : Scopes) : List NodeP → Bool
  | [] => true
  | n :: ns => wfNode scopes n && wfNodes scopes ns

/-- graph: single assignment per scope (inputs, initializers, node outputs pairwise distinct and
non-empty; an initializer may name an input), value_info only for non-input non-output names,
graph output entries with one name identical (`consOutputs`; distinct names is the special case);
an output may be a graph input (pass-through, see `mergeVI`)
or an initializer (constant output); annotations for declared names only. -/
def wfGraph (outer : Scopes) : GraphP → Bool
  | .mk _ _ nodes initializers inputs outputs valueInfo quant metadata =>
    let inputNames := inputs.map (·.name)
    let outputNames := outputs.map (·.name)
    let initNames := initializers.map (·.name)
    let outs := nodeOutNames nodes
    let names := scopeNames inputNames initNames outs
    nodupStr names && names.all (fun n => !n.isEmpty) && nodupStr initNames
      && inputs.all wfVI && outputs.all wfVI && valueInfo.all wfVI
      && nodupStr (valueInfo.map (·.name))
      && valueInfo.all (fun vi => !inputNames.contains vi.name && !outputNames.contains vi.name)
      && consOutputs outputs
      && initializers.all (fun t => wfTensor t && validDType t.dataType)
      && nodupStr (quant.map (·.tensorName))
      && quant.all (fun a => names.contains a.tensorName && !a.params.isEmpty && wfEntries a.params)
      && wfEntries metadata
      && wfNodes (names :: outer) nodes
end

/-- function identifiers `(domain, name, overload)` pairwise distinct -/
def nodupKeys : List (String × String × String) → Bool
  | [] => true
  | x :: xs => !xs.contains x && nodupKeys xs

def wfFunction (ver : Int) (f : FunctionP) : Bool :=
  let outs := nodeOutNames f.nodes
  let names := f.inputs ++ outs
  nodupStr names && names.all (fun n => !n.isEmpty)
    && f.outputs.all names.contains
    && nodupStr (f.attrNames ++ f.attrProtos.map AttrP.name)
    && wfAttrs [] f.attrProtos
    && f.attrProtos.all (fun a => match a with | .ref .. => false | _ => true)
    && f.valueInfo.all wfVI && nodupStr (f.valueInfo.map (·.name))
    && f.valueInfo.all (fun vi => names.contains vi.name)
    && nodupStr (f.opsetImport.map (·.domain))
    && wfEntries f.metadata
    && wfNodes [names] f.nodes
    && (decide (ver ≥ 10) || f.valueInfo.isEmpty)

mutual
def attrHasDevCfg : AttrP → Bool
  | .graph _ _ g => graphHasDevCfg g
  | .graphs _ _ gs => graphsHaveDevCfg gs
  | _ => false
def graphsHaveDevCfg : List GraphP → Bool
  | [] => false
  | g :: gs => graphHasDevCfg g || graphsHaveDevCfg gs
def attrsHaveDevCfg : List AttrP → Bool
  | [] => false
  | a :: as => attrHasDevCfg a || attrsHaveDevCfg as
def nodeHasDevCfg : NodeP → Bool
  | .mk _ _ _ _ _ _ _ attrs _ devcfgs => !devcfgs.isEmpty || attrsHaveDevCfg attrs
def nodesHaveDevCfg : List NodeP → Bool
  | [] => false
  | n :: ns => nodeHasDevCfg n || nodesHaveDevCfg ns
def graphHasDevCfg : GraphP → Bool
  | .mk _ _ nodes .. => nodesHaveDevCfg nodes
end

/-- model: well-formed graph and functions, distinct function identifiers / opset domains; the
multi-device fields only from IR version 11 on; below IR version 10 functions carry no value_info
of their own (it lives in the main graph in the experimental `domain::name/value` encoding) and no
value of the main graph itself has a name of that form. -/
def wfModel (m : ModelP) : Bool :=
  wfGraph [] m.graph && m.functions.all (wfFunction m.irVersion)
    && wfEntries m.metadata
    && nodupStr (m.opsetImport.map (·.domain))
    && nodupKeys (m.functions.map fun f => (f.domain, f.name, f.overload))
    && (decide (m.irVersion ≥ 11) ||
        (m.configuration.isEmpty && !graphHasDevCfg m.graph
          && m.functions.all (fun f => !nodesHaveDevCfg f.nodes)))
    && (decide (m.irVersion ≥ 10) ||
        (scopeNames (m.graph.inputs.map (·.name)) (m.graph.initializers.map (·.name))
            (nodeOutNames m.graph.nodes)).all (fun n => (parseExperimentalName n).isNone))

/-! ### IR version < 10 with graph values named like experimental entries (E8, D320)

Below IR version 10 the value-info of a function value `vn` of `domain::name` lives in the main graph's
`value_info` under the name `domain::name/vn`.  A value of the main graph itself may carry such a name.
`serialize_model_into` (serde.py:1593-1615, /repo commit f0d2984) then does not write the function's entry:
the names of the inputs / outputs of the top-level nodes and of the initializers are reserved.  `normModel9` is
`normModel` with that rule; `wfModel9` is `wfModel` without "no value of the main graph has a name of the
experimental form". -/

/-- the reserved names on the proto (serde.py:1593-1602) -/
def reservedP : GraphP → List String
  | .mk _ _ nodes initializers _ _ _ _ _ =>
    ((nodes.flatMap fun n => n.inputs ++ n.outputs).filter (· ≠ ""))
      ++ ((initializers.map (·.name)).filter (· ≠ ""))

/-- `experimentalVIs` with the reserved names: the entry of a function value whose formatted name is the name of
a value of the main graph is not written -/
def experimentalVIsR (R : List String) (V : List ValueInfoP) (f : FunctionP) : List ValueInfoP :=
  if !f.overload.isEmpty then [] else
  (f.inputs ++ nodeOutNames f.nodes).filterMap fun vn =>
    if R.contains (experimentalName f.domain f.name vn) then none else expEntry V f vn

def normModel9 (m : ModelP) : ModelP :=
  let g := normGraph m.graph
  { m with
    metadata := normEntries m.metadata,
    graph := if m.irVersion ≥ 10 then g
             else GraphP.addValueInfo g
               (m.functions.flatMap (experimentalVIsR (reservedP m.graph) m.graph.valueInfo)),
    functions := m.functions.map (normFunction (decide (m.irVersion ≥ 10))) }

/-- `wfModel` without its last conjunct -/
def wfModel9 (m : ModelP) : Bool :=
  wfGraph [] m.graph && m.functions.all (wfFunction m.irVersion)
    && wfEntries m.metadata
    && nodupStr (m.opsetImport.map (·.domain))
    && nodupKeys (m.functions.map fun f => (f.domain, f.name, f.overload))
    && (decide (m.irVersion ≥ 11) ||
        (m.configuration.isEmpty && !graphHasDevCfg m.graph
          && m.functions.all (fun f => !nodesHaveDevCfg f.nodes)))

/-! ### stand-alone entry points: `from_proto(NodeProto)`, `from_proto(FunctionProto)` -/

/-- the placeholder values `deserialize_node` creates for the inputs of a stand-alone node: every
non-empty input name that is not yet known (first occurrence), in order -/
def placeholderNames : List String → List String → List String
  | _, [] => []
  | names, n :: ns =>
    if n = "" || names.contains n then placeholderNames names ns
    else n :: placeholderNames (names ++ [n]) ns

/-- a stand-alone node: its scope is made of its own outputs and the placeholders of its inputs
(subgraphs in its attributes may capture exactly these) -/
def wfNodeAlone (n : NodeP) : Bool :=
  let outs := n.outputs.filter (· ≠ "")
  nodupStr outs && wfNode [outs ++ placeholderNames outs n.inputs] n

/-- a stand-alone function is serialized with its value_info and without a `model_ir_version` -/
def wfFunctionAlone (f : FunctionP) : Bool := wfFunction 10 f

end IrVerif.Serde

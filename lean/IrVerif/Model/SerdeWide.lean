import IrVerif.Model.Serde
/-
C02, deepening round: the part of the "edge" families E1-E7 of `harness/c02.py` that is a documented
normalisation of the round trip, as an executable `fold` in front of `norm`, and the field-level
model of `serialize_tensor_into`.

`fold*` removes from a proto exactly the entries that `serde.py` never reads (line numbers of
/repo/src/onnx_ir/serde.py at HEAD 5d8ed23):

* E6  several `value_info` entries with one name: `value_info = {info.name: info for info in
      proto.value_info}` (serde.py:803) keeps the LAST one; `dedupLastVI`.
      The same for `FunctionProto.value_info` (serde.py:968).
* E2  a `value_info` entry that names a graph input: the value of an input is created from the input
      entry (serde.py:786-792) and `value_info[...]` is only consulted for names that are not yet in
      `values` (serde.py:826-841 initializers, 919-947 node outputs, 1367-1376 placeholders), so the
      entry is never read; `foldVIs` drops it.
* E5  `opset_import` with a repeated domain: `{opset.domain: opset.version for ...}`
      (serde.py:569-580) keeps one entry per domain, first position, last version; `opsetDict`.
* E7  `external_data`: `onnx.external_data_helper.ExternalDataInfo` does `setattr(self, key, value)`
      entry by entry, serde.py:1172-1176 reads `location / offset / length / checksum` only: the last
      entry per key counts, other keys are never read; `foldExternal`.

E3 (a value_info entry for a graph output produced in the graph: its metadata is merged into the
output entry) is handled by `merge*` below, under a well-formedness hypothesis; E4 (several output
entries with one name) by `outdup*` further below (second deepening round).  NOT handled (oracle +
correspondence only, see the report): IR<10 graph values named like `domain::name/value` (E8).

Everything here is reachable through the driver (`serde.*` answers carry `wfw`, `normw`, `thmw`, `wfx`,
`thmx`, `wfd`, `thmd`, `subd`, `unreadd`; `serde.tensor` also `rf`, `fields`).  Only core Lean is imported.
-/
namespace IrVerif.Serde
open IrVerif.Proto

/-! ## fold -/

/-- keep, of every key, only the last element (a dict comprehension / repeated `setattr`) -/
def dedupLastBy {α : Type} (key : α → String) : List α → List α
  | [] => []
  | v :: vs => if vs.any (fun w => key w = key v) then dedupLastBy key vs else v :: dedupLastBy key vs

/-- keep, of every name, only the last entry (a dict comprehension keyed by `name`) -/
def dedupLastVI (vs : List ValueInfoP) : List ValueInfoP := dedupLastBy (fun v => v.name) vs

/-- the `value_info` entries a graph with inputs `inputNames` can read (E6, E2) -/
def foldVIs (inputNames : List String) (vis : List ValueInfoP) : List ValueInfoP :=
  (dedupLastVI vis).filter fun v => !inputNames.contains v.name

/-- the four keys of the ONNX specification, in the order `serialize_tensor_into` writes them
(serde.py:2187-2192) -/
def extKeys : List String := ["location", "offset", "length", "checksum"]

/-- the entries `ExternalDataInfo` + `deserialize_tensor` read: the last one per specified key, in
their original order (E7) -/
def foldExternal (es : List Entry) : List Entry :=
  (dedupLastBy (fun e => e.key) es).filter fun e => extKeys.contains e.key

def foldTensor (t : TensorP) : TensorP :=
  if t.dataLocation = 1 then { t with externalData := foldExternal t.externalData } else t

mutual
def foldAttr : AttrP → AttrP
  | .tensor n d t => .tensor n d (foldTensor t)
  | .tensors n d ts => .tensors n d (ts.map foldTensor)
  | .graph n d g => .graph n d (foldGraph g)
  | .graphs n d gs => .graphs n d (foldGraphs gs)
  | a => a

def foldGraphs : List GraphP → List GraphP
  | [] => []
  | g :: gs => foldGraph g :: foldGraphs gs

def foldAttrs : List AttrP → List AttrP
  | [] => []
  | a :: as => foldAttr a :: foldAttrs as

def foldNode : NodeP → NodeP
  | .mk inputs outputs name opType domain overload doc attrs metadata devcfgs =>
    .mk inputs outputs name opType domain overload doc (foldAttrs attrs) metadata devcfgs

def foldNodes : List NodeP → List NodeP
  | [] => []
  | n :: ns => foldNode n :: foldNodes ns

def foldGraph : GraphP → GraphP
  | .mk name doc nodes initializers inputs outputs valueInfo quant metadata =>
    .mk name doc (foldNodes nodes) (initializers.map foldTensor) inputs outputs
      (foldVIs (inputs.map (·.name)) valueInfo) quant metadata
end

def foldFunction (f : FunctionP) : FunctionP :=
  { f with
    nodes := foldNodes f.nodes,
    attrProtos := foldAttrs f.attrProtos,
    opsetImport := opsetDict f.opsetImport,
    valueInfo := dedupLastVI f.valueInfo }

def foldModel (m : ModelP) : ModelP :=
  { m with
    opsetImport := opsetDict m.opsetImport,
    graph := foldGraph m.graph,
    functions := m.functions.map foldFunction }

/-! ## the widened `WFproto` and `norm` -/

def wfTensorW (t : TensorP) : Bool := wfTensor (foldTensor t)
def normTensorW (t : TensorP) : TensorP := normTensor (foldTensor t)

def wfGraphW (outer : Scopes) (g : GraphP) : Bool := wfGraph outer (foldGraph g)
def normGraphW (g : GraphP) : GraphP := normGraph (foldGraph g)

def wfFunctionAloneW (f : FunctionP) : Bool := wfFunctionAlone (foldFunction f)
def normFunctionW (createVI : Bool) (f : FunctionP) : FunctionP := normFunction createVI (foldFunction f)

/-- below IR version 10 the main graph's `value_info` list is read a second time, by the
experimental function value-info decoding (serde.py:700-746), which selects entries by parsing their
names as `domain::name/value`: an entry naming a graph input may only be dropped when that name is
not of this form (implied by `wfModel` below IR version 10) -/
def inputsPlain (g : GraphP) : Bool :=
  g.inputs.all fun vi => (parseExperimentalName vi.name).isNone

def wfModelW (m : ModelP) : Bool := wfModel (foldModel m)

def normModelW (m : ModelP) : ModelP := normModel (foldModel m)

/-- E8 (IR < 10, a value of the main graph named like an experimental entry; `wfModel9` / `normModel9` in
`Model/Serde.lean`) in front of the fold (E2 E5 E6 E7): the fold drops `value_info` entries naming graph inputs,
which the experimental decoding would read when such a name has the experimental form (`inputsPlain`) -/
def wfModel9W (m : ModelP) : Bool :=
  wfModel9 (foldModel m) && (decide (m.irVersion ≥ 10) || inputsPlain m.graph)

def normModel9W (m : ModelP) : ModelP := normModel9 (foldModel m)

/-! ## merge (E3): a `value_info` entry that names a graph output produced in the graph

`_deserialize_graph` creates the value of an initializer / node output from its `value_info` entry
(serde.py:826-841, 919-947) and later applies the graph output entry to the SAME value
(serde.py:861-878): type, shape and doc string of the output entry replace what the `value_info`
entry said, the metadata dicts are united with `dict.update` (output entry wins per key); the value
is then a graph output, so no `value_info` entry is written for it (serde.py:1937-1945).  `merge*`
does this on the proto: the entry is dropped and its metadata is united into the output entry.
Unlike `fold` this changes what `deserialize` reads, so `deserialize (merge g) = deserialize g` is a
theorem only for `WFproto (merge g)` (`C02_merge_deserialize*`).  Entries that are not well formed
themselves, that name an output nobody produces, or whose output entry has repeated metadata keys
are left alone (such a graph stays outside the widened `WFproto`). -/

def entriesOfDict (d : Dict) : List Entry := d.map fun kv => ⟨kv.1, kv.2⟩

/-- `vo` names a value declared in this graph (initializer that is not an input, or node output) -/
def mergeApplies (declared inputNames : List String) (vo : ValueInfoP) : Bool :=
  declared.contains vo.name && !inputNames.contains vo.name && wfEntries vo.metadata

def mergeOutVI (declared inputNames : List String) (vis : List ValueInfoP) (vo : ValueInfoP) : ValueInfoP :=
  if mergeApplies declared inputNames vo then
    match findVI vis vo.name with
    | some vi =>
      if wfVI vi then
        { vo with metadata :=
            entriesOfDict (dictUpdate (dictOfEntries vi.metadata) (dictOfEntries vo.metadata)) }
      else vo
    | none => vo
  else vo

/-- the `value_info` entries that stay: all but the well-formed ones naming a declared output -/
def mergeVIs (declared inputNames outputNames : List String) (vis : List ValueInfoP) : List ValueInfoP :=
  vis.filter fun vi =>
    !(outputNames.contains vi.name && declared.contains vi.name && !inputNames.contains vi.name && wfVI vi)

mutual
def mergeAttr : AttrP → AttrP
  | .graph n d g => .graph n d (mergeGraph g)
  | .graphs n d gs => .graphs n d (mergeGraphs gs)
  | a => a

def mergeGraphs : List GraphP → List GraphP
  | [] => []
  | g :: gs => mergeGraph g :: mergeGraphs gs

def mergeAttrs : List AttrP → List AttrP
  | [] => []
  | a :: as => mergeAttr a :: mergeAttrs as

def mergeNode : NodeP → NodeP
  | .mk inputs outputs name opType domain overload doc attrs metadata devcfgs =>
    .mk inputs outputs name opType domain overload doc (mergeAttrs attrs) metadata devcfgs

def mergeNodes : List NodeP → List NodeP
  | [] => []
  | n :: ns => mergeNode n :: mergeNodes ns

def mergeGraph : GraphP → GraphP
  | .mk name doc nodes initializers inputs outputs valueInfo quant metadata =>
    let inputNames := inputs.map (·.name)
    let declared := initializers.map (·.name) ++ nodeOutNames nodes
    .mk name doc (mergeNodes nodes) initializers inputs
      (outputs.map (mergeOutVI declared inputNames valueInfo))
      (mergeVIs declared inputNames (outputs.map (·.name)) valueInfo) quant metadata
end

def mergeFunction (f : FunctionP) : FunctionP :=
  { f with nodes := mergeNodes f.nodes, attrProtos := mergeAttrs f.attrProtos }

def mergeModel (m : ModelP) : ModelP :=
  { m with graph := mergeGraph m.graph, functions := m.functions.map mergeFunction }

/-- the canonical pre-form of the second widening: fold (E2 E5 E6 E7), then merge (E3) -/
def canonGraph (g : GraphP) : GraphP := mergeGraph (foldGraph g)
def canonFunction (f : FunctionP) : FunctionP := mergeFunction (foldFunction f)
def canonModel (m : ModelP) : ModelP := mergeModel (foldModel m)

def wfGraphX (outer : Scopes) (g : GraphP) : Bool := wfGraph outer (canonGraph g)
def normGraphX (g : GraphP) : GraphP := normGraph (canonGraph g)
def wfFunctionAloneX (f : FunctionP) : Bool := wfFunctionAlone (canonFunction f)
def normFunctionX (createVI : Bool) (f : FunctionP) : FunctionP := normFunction createVI (canonFunction f)
def wfModelX (m : ModelP) : Bool := wfModel (canonModel m)
def normModelX (m : ModelP) : ModelP := normModel (canonModel m)

/-! ## outdup (E4): several graph output entries with one name

`_deserialize_graph` looks every output entry up in `values` (serde.py:869-884) and applies it to the ONE
`Value` of that name, one entry after the other: type, shape and doc string of the LAST entry of a name
stay, the metadata dicts are united with `dict.update` (later entry wins per key).  `graph.outputs` then
lists that value once per entry, and `serialize_graph_into` (serde.py:1921-1923) writes every entry from
it: the entries of one name come back identical, their number and positions are kept.  `outdup*` does
this on the proto: every entry of a name that the graph declares (input, initializer, node output) is
replaced by the union of the entries of that name.  Entries of a name nobody declares are separate
values (serde.py:872-878) and stay as they are; a group with a malformed entry is left alone (such a
graph stays outside `WFproto`).  `WFproto` itself (`consOutputs` in `wfGraph`) admits entries with one
name when they are identical. -/

/-- the union of the metadata of entries applied one after the other (`dict.update`, later wins) -/
def unionMd (es : List ValueInfoP) : Dict :=
  es.foldl (fun D e => dictUpdate D (dictOfEntries e.metadata)) []

/-- the output entries named like `vo` -/
def sameName (outputs : List ValueInfoP) (vo : ValueInfoP) : List ValueInfoP :=
  outputs.filter fun w => w.name = vo.name

def outdupApplies (scope : List String) (outputs : List ValueInfoP) (vo : ValueInfoP) : Bool :=
  scope.contains vo.name && (sameName outputs vo).all wfVI

def outdupVI (scope : List String) (outputs : List ValueInfoP) (vo : ValueInfoP) : ValueInfoP :=
  if outdupApplies scope outputs vo then
    match findVI outputs vo.name with
    | some last => { last with metadata := entriesOfDict (unionMd (sameName outputs vo)) }
    | none => vo
  else vo

mutual
def outdupAttr : AttrP → AttrP
  | .graph n d g => .graph n d (outdupGraph g)
  | .graphs n d gs => .graphs n d (outdupGraphs gs)
  | a => a

def outdupGraphs : List GraphP → List GraphP
  | [] => []
  | g :: gs => outdupGraph g :: outdupGraphs gs

def outdupAttrs : List AttrP → List AttrP
  | [] => []
  | a :: as => outdupAttr a :: outdupAttrs as

def outdupNode : NodeP → NodeP
  | .mk inputs outputs name opType domain overload doc attrs metadata devcfgs =>
    .mk inputs outputs name opType domain overload doc (outdupAttrs attrs) metadata devcfgs

def outdupNodes : List NodeP → List NodeP
  | [] => []
  | n :: ns => outdupNode n :: outdupNodes ns

def outdupGraph : GraphP → GraphP
  | .mk name doc nodes initializers inputs outputs valueInfo quant metadata =>
    let scope := scopeNames (inputs.map (·.name)) (initializers.map (·.name)) (nodeOutNames nodes)
    .mk name doc (outdupNodes nodes) initializers inputs
      (outputs.map (outdupVI scope outputs)) valueInfo quant metadata
end

def outdupFunction (f : FunctionP) : FunctionP :=
  { f with nodes := outdupNodes f.nodes, attrProtos := outdupAttrs f.attrProtos }

def outdupModel (m : ModelP) : ModelP :=
  { m with graph := outdupGraph m.graph, functions := m.functions.map outdupFunction }

/-- the canonical pre-form of the third widening: fold (E2 E5 E6 E7), outdup (E4), merge (E3) -/
def canonDAttr (a : AttrP) : AttrP := mergeAttr (outdupAttr (foldAttr a))
def canonDNode (n : NodeP) : NodeP := mergeNode (outdupNode (foldNode n))
def canonDGraph (g : GraphP) : GraphP := mergeGraph (outdupGraph (foldGraph g))
def canonDFunction (f : FunctionP) : FunctionP := mergeFunction (outdupFunction (foldFunction f))
def canonDModel (m : ModelP) : ModelP := mergeModel (outdupModel (foldModel m))

def wfGraphD (outer : Scopes) (g : GraphP) : Bool := wfGraph outer (canonDGraph g)
def normGraphD (g : GraphP) : GraphP := normGraph (canonDGraph g)
def wfFunctionAloneD (f : FunctionP) : Bool := wfFunctionAlone (canonDFunction f)
def normFunctionD (createVI : Bool) (f : FunctionP) : FunctionP := normFunction createVI (canonDFunction f)
def wfModelD (m : ModelP) : Bool := wfModel (canonDModel m)
def normModelD (m : ModelP) : ModelP := normModel (canonDModel m)
def wfNodeAloneD (n : NodeP) : Bool := wfNodeAlone (canonDNode n)
def wfAttrD (scopes : Scopes) (a : AttrP) : Bool := wfAttr scopes (canonDAttr a)

/-- E8 in front of `canonD` (E8 together with E2-E7): below IR version 10 the `value_info` entries that `fold`
and `merge` drop name graph inputs / declared graph outputs; the experimental decoding must not read them, so
no graph input and no graph output that the graph declares (initializer, node output) has a name of the
experimental form (the values INSIDE the graph may) -/
def outputsPlain (g : GraphP) : Bool :=
  g.outputs.all fun vo =>
    !(g.initializers.map (·.name) ++ nodeOutNames g.nodes).contains vo.name
      || (parseExperimentalName vo.name).isNone

def wfModel9D (m : ModelP) : Bool :=
  wfModel9 (canonDModel m) &&
    (decide (m.irVersion ≥ 10) || (inputsPlain m.graph && outputsPlain m.graph))

def normModel9D (m : ModelP) : ModelP := normModel9 (canonDModel m)

/-! ## `serialize_tensor_into`, field by field (serde.py:2164-2205) -/

/-- protobuf `MergeFrom` on a TensorProto: a singular field that is set in `src` overwrites, repeated
fields are appended.  Presence follows the convention of `Model/Proto.lean`: a singular scalar is
set iff it differs from its default, `raw_data` carries explicit presence. -/
def mergeTensorP (dst src : TensorP) : TensorP :=
  { name := if src.name = "" then dst.name else src.name,
    doc := if src.doc = "" then dst.doc else src.doc,
    dataType := if src.dataType = 0 then dst.dataType else src.dataType,
    dims := dst.dims ++ src.dims,
    dataLocation := if src.dataLocation = 0 then dst.dataLocation else src.dataLocation,
    rawData := match src.rawData with
      | some b => some b
      | none => dst.rawData,
    floatData := dst.floatData ++ src.floatData,
    int32Data := dst.int32Data ++ src.int32Data,
    stringData := dst.stringData ++ src.stringData,
    int64Data := dst.int64Data ++ src.int64Data,
    doubleData := dst.doubleData ++ src.doubleData,
    uint64Data := dst.uint64Data ++ src.uint64Data,
    externalData := dst.externalData ++ src.externalData,
    metadata := dst.metadata ++ src.metadata }

/-- `tensor_proto.CopyFrom(from_.raw)` into the fresh TensorProto of `serialize_tensor`
(serde.py:2158, 2169): `Clear()` then `MergeFrom` -/
def copyFromTensorP (src : TensorP) : TensorP := mergeTensorP emptyTensorP src

/-- `serialize_tensor_into` written out per tensor class and per field.
* `TensorProtoTensor` (serde.py:2167-2176): CopyFrom, then `del metadata_props[:]` unconditionally
  and the tensor's dict written back sorted (D27 fixed);
* otherwise (serde.py:2178-2205): `name` / `doc_string` when truthy, `data_type`, `dims.extend`,
  then `ExternalTensor`: `data_location = EXTERNAL` and the entries location / offset / length /
  checksum that are not None (D28 fixed); `StringTensor`: `string_data.extend`; then the metadata. -/
def serTensorF : IRTensor → TensorP
  | .protoBacked p m => { copyFromTensorP p with metadata := sortEntries m }
  | .external loc off len ck dt n d sh m =>
    { name := n, doc := d, dataType := dt, dims := [] ++ sh, dataLocation := 1, rawData := none,
      floatData := [], int32Data := [], stringData := [], int64Data := [], doubleData := [],
      uint64Data := [],
      externalData := [⟨"location", loc⟩] ++ optEntry "offset" (off.map toString)
        ++ optEntry "length" (len.map toString) ++ optEntry "checksum" ck,
      metadata := sortEntries m }
  | .strings data sh n d m =>
    { name := n, doc := d, dataType := 8, dims := [] ++ sh, dataLocation := 0, rawData := none,
      floatData := [], int32Data := [], stringData := [] ++ data, int64Data := [], doubleData := [],
      uint64Data := [], externalData := [], metadata := sortEntries m }

/-- what `C02_tensor_fields` says about `q = serialize (deserialize p)`: every field of the
TensorProto, one by one.  The payload lives in exactly the storage field it came in (`raw_data` stays
`raw_data`, typed fields stay typed: nothing is re-encoded); `external_data` keeps, for each of the
four specified keys, the value `deserialize_tensor` read, and has no other entry; `metadata_props` is
the same finite map (`normEntries`: sorted by key, see `C02_maps`). -/
def tensorFieldsKept (q p : TensorP) : Bool :=
  q.name == p.name && q.doc == p.doc && q.dataType == p.dataType && q.dims == p.dims
    && q.dataLocation == p.dataLocation
    && q.rawData == p.rawData && q.floatData == p.floatData && q.int32Data == p.int32Data
    && q.stringData == p.stringData && q.int64Data == p.int64Data && q.doubleData == p.doubleData
    && q.uint64Data == p.uint64Data
    && (if p.dataLocation = 1 then
          extKeys.all (fun k => extGet q.externalData k == extGet p.externalData k)
            && q.externalData.all (fun e => extKeys.contains e.key)
            && nodupStr (q.externalData.map (·.key))
        else q.externalData == p.externalData)
    && q.metadata == normEntries p.metadata

end IrVerif.Serde

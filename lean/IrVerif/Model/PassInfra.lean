import IrVerif.Model.Sort
/-
Model of the pass infrastructure of onnx_ir (property C14).

* `guard`, `Pass`, `Pass.run`, `runSeq`, `mgrLoop` transcribe
  `src/onnx_ir/passes/_pass_infra.py`: `PassBase.__call__` (lines 112-158), `Sequential`
  (212-262), `PassManager` (265-329), `functionalize` (332-353).
* `traverse` / `countingPass`: the shape shared by the counting passes in
  `src/onnx_ir/passes/common/` (`count += 1` per rewrite, `modified = bool(count)`), over an
  abstract rewrite system.  `ClearMeta` is a concrete transcription of
  `clear_metadata_and_docstring.py` (20-60); `sortFlag` of `topological_sort.py` (22-44).
* `CApi`: `src/onnx_ir/passes/common/_c_api_utils.py` `call_onnx_api` (23-93) as an effect
  sequence in which every step may raise, with `checkerCall` (`onnx_checker.py` 43-57) and
  `shapeInferenceCall` (`shape_inference.py` 75-92) on top.

Core Lean only (linked into `irdriver`).
-/
namespace IrVerif.PassInfra

/-! ## PassBase.__call__, Sequential, PassManager, functionalize -/

/-- The exception classes the infrastructure distinguishes.  `other` is whatever a pass's own
    `call` raised. -/
inductive Exc where
  | precondition | postcondition | passError | typeError | other
  deriving DecidableEq, Repr, Inhabited

/-- Identity of a model object (creation index). -/
abbrev ModelId := Nat

/-- `PassResult(model, modified)`. -/
structure PassResult where
  model : ModelId
  modified : Bool
  deriving DecidableEq, Repr, Inhabited

/-- What a pass's `call` method hands back to `__call__`. -/
inductive CallRet where
  | result (r : PassResult)
  | notResult
  | raised (e : Exc)
  deriving Repr, Inhabited

abbrev Res (W : Type) := W × Except Exc PassResult

/-- `PassBase.__call__` (lines 112-158) for a pass with declared `in_place = ip` and the three hooks.
    `requires` raising anything becomes PreconditionError, `ensures` raising anything becomes
    PostconditionError (it is called on `result.model`), a non-PassResult is a TypeError, and the
    declared in-place property is enforced on the object identity of the returned model. -/
def guard {W : Type} (ip : Bool)
    (requires : W → ModelId → W × Bool)
    (call : W → ModelId → W × CallRet)
    (ensures : W → ModelId → W × Bool)
    (w : W) (m : ModelId) : Res W :=
  match requires w m with
  | (w1, true) => (w1, .error .precondition)
  | (w1, false) =>
    match call w1 m with
    | (w2, .raised e) => (w2, .error e)
    | (w2, .notResult) => (w2, .error .typeError)
    | (w2, .result r) =>
      match ensures w2 r.model with
      | (w3, true) => (w3, .error .postcondition)
      | (w3, false) =>
        if ip && r.model != m then (w3, .error .passError)
        else if !ip && r.model == m then (w3, .error .passError)
        else (w3, .ok r)

/-- default `requires` / `ensures`: `del model` -/
def noHook {W : Type} (w : W) (_m : ModelId) : W × Bool := (w, false)

/-- A user-defined (leaf) pass over an abstract world `W`: its declaration and its three hooks.
    A hook returns `true` when it raises. -/
structure Leaf (W : Type) where
  inPlace : Bool
  requires : W → ModelId → W × Bool
  call : W → ModelId → W × CallRet
  ensures : W → ModelId → W × Bool

/-- Pass expressions: user passes, `Sequential(*ps)`, `PassManager(ps, steps, early_stop)`,
    `functionalize(p)`. -/
inductive Pass (W : Type) where
  | leaf (l : Leaf W)
  | seq (ps : List (Pass W))
  | mgr (ps : List (Pass W)) (steps : Nat) (earlyStop : Bool)
  | func (p : Pass W)

/-- turn the outcome of an inner `call` into what `__call__` sees -/
def toCallRet {W : Type} : Res W → W × CallRet
  | (w, .ok r) => (w, .result r)
  | (w, .error e) => (w, .raised e)

/-- `PassManager.call` (lines 313-329) over an arbitrary round function (`Sequential.call` of the
    manager's passes).  Third component (ghost, not in the Python): the `modified` flag of every
    executed round, in order. -/
def mgrLoop {W : Type} (round : W → ModelId → Res W) (earlyStop : Bool) :
    Nat → W → ModelId → Bool → W × Except Exc PassResult × List Bool
  | 0, w, m, overall => (w, .ok ⟨m, overall⟩, [])
  | n + 1, w, m, overall =>
    match round w m with
    | (w1, .error _) => (w1, .error .passError, [])
    | (w1, .ok r) =>
      let overall' := overall || r.modified
      if !r.modified && earlyStop then (w1, .ok ⟨r.model, overall'⟩, [r.modified])
      else
        let rest := mgrLoop round earlyStop n w1 r.model overall'
        (rest.1, rest.2.1, r.modified :: rest.2.2)

/-- drop the ghost component -/
def mgrCall {W : Type} (round : W → ModelId → Res W) (earlyStop : Bool) (steps : Nat)
    (w : W) (m : ModelId) : Res W :=
  let out := mgrLoop round earlyStop steps w m false
  (out.1, out.2.1)

mutual
/-- `Sequential.in_place` (line 232): all passes are in place; a functionalized pass never is. -/
def Pass.inPlace {W : Type} : Pass W → Bool
  | .leaf l => l.inPlace
  | .seq ps => allInPlace ps
  | .mgr ps _ _ => allInPlace ps
  | .func _ => false
def allInPlace {W : Type} : List (Pass W) → Bool
  | [] => true
  | p :: ps => p.inPlace && allInPlace ps
end

mutual
/-- `p(model)`, i.e. `PassBase.__call__` of the pass expression.  `cl` is `Model.clone`. -/
def Pass.run {W : Type} (cl : W → ModelId → W × ModelId) : Pass W → W → ModelId → Res W
  | .leaf l => guard l.inPlace l.requires l.call l.ensures
  | .seq ps => guard (allInPlace ps) noHook (fun w m => toCallRet (runSeq cl ps w m false)) noHook
  | .mgr ps steps es =>
      guard (allInPlace ps) noHook
        (fun w m => toCallRet (mgrCall (fun w m => runSeq cl ps w m false) es steps w m)) noHook
  | .func p =>
      guard false noHook (fun w m => let (w1, c) := cl w m; toCallRet (p.run cl w1 c)) noHook
/-- `Sequential.call` (lines 246-262): every exception of a step is re-raised as PassError. -/
def runSeq {W : Type} (cl : W → ModelId → W × ModelId) :
    List (Pass W) → W → ModelId → Bool → Res W
  | [], w, m, modified => (w, .ok ⟨m, modified⟩)
  | p :: ps, w, m, modified =>
    match p.run cl w m with
    | (w1, .error _) => (w1, .error .passError)
    | (w1, .ok r) => runSeq cl ps w1 r.model (modified || r.modified)
end

/-- `Sequential.__init__` raises ValueError for an empty pass list (line 229-230). -/
def ctorOk {W : Type} : Pass W → Bool
  | .leaf _ => true
  | .seq ps => !ps.isEmpty
  | .mgr ps _ _ => !ps.isEmpty
  | .func _ => true

/-! ## Counting passes over an abstract rewrite system -/

/-- One traversal of a counting pass: the sites are visited in order; `rw x s = some s'` when the
    site is rewritten (`count += 1`), `none` when it is left alone. -/
def traverse {S σ : Type} (rw : σ → S → Option S) : List σ → S → Nat → S × Nat
  | [], s, c => (s, c)
  | x :: xs, s, c =>
    match rw x s with
    | none => traverse rw xs s c
    | some s' => traverse rw xs s' (c + 1)

/-- `return PassResult(model, modified=bool(count))` -/
def countingPass {S σ : Type} (sites : S → List σ) (rw : σ → S → Option S) (s : S) : S × Bool :=
  let out := traverse rw (sites s) s 0
  (out.1, out.2 != 0)

/-- a counting pass as an in-place user pass (world = the abstract state, the model object is
    returned as is), so that it can be put under `Sequential` / `PassManager` -/
def countingLeaf {S σ : Type} (sites : S → List σ) (rw : σ → S → Option S) : Leaf S where
  inPlace := true
  requires := noHook
  call := fun s m => ((countingPass sites rw s).1, .result ⟨m, (countingPass sites rw s).2⟩)
  ensures := noHook

/-! ### RemoveInitializersFromInputsPass / AddInitializersToInputsPass
(constant_manipulation.py 214-262) as instances of `countingPass` -/
namespace InitInputs

/-- one graph: its inputs and its initializer values (value identities) -/
structure Gr where
  inputs : List Nat
  inits : List Nat
  deriving DecidableEq, Repr, Inhabited

/-- the graphs the passes visit: since the fix "only touch the main graph" this is `[model.graph]` -/
abbrev St := List Gr

def sitesOf (sel : Gr → List Nat) : List Gr → Nat → List (Nat × Nat)
  | [], _ => []
  | g :: gs, k => (sel g).map (fun x => (k, x)) ++ sitesOf sel gs (k + 1)

/-- every input occurrence of every graph is looked at once (lines 226-235) -/
def rmSites (s : St) : List (Nat × Nat) := sitesOf (·.inputs) s 0

/-- an input (still listed) that is an initializer is dropped from the inputs (`count += 1`) -/
def rmRw (site : Nat × Nat) (s : St) : Option St :=
  match s[site.1]? with
  | none => none
  | some g =>
    if g.inits.contains site.2 && g.inputs.contains site.2 then
      some (s.set site.1 { g with inputs := g.inputs.erase site.2 })
    else none

def removeInitializersFromInputs (s : St) : St × Bool := countingPass rmSites rmRw s

/-- every initializer of every graph is looked at once (lines 250-257) -/
def addSites (s : St) : List (Nat × Nat) := sitesOf (·.inits) s 0

/-- an initializer that is not an input is appended to the inputs (`count += 1`) -/
def addRw (site : Nat × Nat) (s : St) : Option St :=
  match s[site.1]? with
  | none => none
  | some g =>
    if g.inputs.contains site.2 then none
    else some (s.set site.1 { g with inputs := g.inputs ++ [site.2] })

def addInitializersToInputs (s : St) : St × Bool := countingPass addSites addRw s

/-- measure for the removal pass: number of input slots -/
def rmSize (s : St) : Nat := (s.map (·.inputs.length)).sum

end InitInputs

/-! ### RemoveUnusedNodesPass on a graph without subgraphs (unused_removal.py 82-141)
as an instance of `countingPass`.  The schema-driven removal of unused optional outputs
(lines 21-79) is not modelled. -/
namespace Dce

structure Node where
  id : Nat
  inputs : List (Option Nat)
  outputs : List Nat
  deriving DecidableEq, Repr, Inhabited

/-- nodes in graph order, graph outputs, graph inputs, initializer values (value identities) -/
structure St where
  nodes : List Node
  outs : List Nat
  ins : List Nat
  inits : List Nat
  deriving DecidableEq, Repr, Inhabited

inductive Site where
  | node (id : Nat)
  | init (v : Nat)
  deriving Repr

/-- `bool(value.uses())` -/
def used (s : St) (v : Nat) : Bool := s.nodes.any (fun n => n.inputs.contains (some v))

/-- lines 98-102: no output is a graph output or has a use -/
def removable (s : St) (n : Node) : Bool := n.outputs.all (fun o => !s.outs.contains o && !used s o)

/-- `_remove_trailing_empty_inputs` (lines 82-93) -/
def trimmed (l : List (Option Nat)) : List (Option Nat) := (l.reverse.dropWhile (· == none)).reverse

/-- `reversed(graph)` (line 97), then `list(initializers.values())` (line 131) -/
def sites (s : St) : List Site :=
  s.nodes.reverse.map (fun n => Site.node n.id) ++ s.inits.map Site.init

def rw : Site → St → Option St
  | .node id, s =>
    match s.nodes.find? (fun n => n.id == id) with
    | none => none
    | some n =>
      if removable s n then some { s with nodes := s.nodes.filter (fun m => m.id != id) }
      else if (trimmed n.inputs).length < n.inputs.length then
        some { s with nodes := s.nodes.map (fun m => if m.id == id then { m with inputs := trimmed m.inputs } else m) }
      else none
  | .init v, s =>
    if s.inits.contains v && !used s v && !s.outs.contains v && !s.ins.contains v then
      some { s with inits := s.inits.erase v }
    else none

def removeUnusedNodes (s : St) : St × Bool := countingPass sites rw s

/-- the measure: nodes + initializers + input slots -/
def size (s : St) : Nat :=
  s.nodes.length + s.inits.length + (s.nodes.map (fun n => n.inputs.length)).sum

end Dce

/-! ### ClearMetadataAndDocStringPass (clear_metadata_and_docstring.py 20-60) -/
namespace ClearMeta

/-- what the pass looks at: number of metadata entries and whether the doc string is non-empty -/
structure Item where
  nmeta : Nat
  doc : Bool
  deriving DecidableEq, Repr, Inhabited

/-- nodes in `RecursiveGraphIterator` order, each with the index of its owning graph -/
structure St where
  nodes : List (Nat × Item)
  graphs : List Item
  deriving DecidableEq, Repr, Inhabited

def Item.dirty (i : Item) : Bool := i.nmeta != 0 || i.doc
def clean : Item := ⟨0, false⟩

/-- the loop of `_clear_graph_or_function_metadata_and_docstring` (lines 38-60); `checked` is the
    set of graphs already cleaned.  Returns the cleaned nodes, the graphs and `modified`. -/
def loop : List (Nat × Item) → List Item → List Nat → Bool → List (Nat × Item) × List Item × Bool
  | [], gs, _, modified => ([], gs, modified)
  | (g, it) :: rest, gs, checked, modified =>
    let modified := if it.dirty then true else modified
    let gi := gs.getD g clean
    if !checked.contains g && gi.dirty then
      let rest := loop rest (gs.set g clean) (g :: checked) true
      ((g, clean) :: rest.1, rest.2.1, rest.2.2)
    else
      let rest := loop rest gs checked modified
      ((g, clean) :: rest.1, rest.2.1, rest.2.2)

def pass (s : St) : St × Bool :=
  let out := loop s.nodes s.graphs [] false
  (⟨out.1, out.2.1⟩, out.2.2)

def itemSize (i : Item) : Nat := i.nmeta + (if i.doc then 1 else 0)
/-- the measure: metadata entries plus doc strings, over nodes and graphs -/
def size (s : St) : Nat :=
  (s.nodes.map (fun p => itemSize p.2)).sum + (s.graphs.map itemSize).sum

end ClearMeta

/-- `TopologicalSortPass.call` (topological_sort.py 22-44): `modified` is computed by comparing, for
    every graph that `sort()` may reorder, the node order before and after position by position
    (`zip` stops at the shorter list). -/
def sortFlag (before after : List (List Nat)) : Bool :=
  (before.zip after).any (fun p => (p.1.zip p.2).any (fun q => q.1 != q.2))

/-- all node sequences of a list of per-graph-like container snapshots, in the order in which
    `TopologicalSortPass.call` collects `graph_likes` (main graph, its subgraphs, each function, its
    subgraphs) -/
def flatOrders (x : List (List (Nat × List Nat))) : List (List Nat) := x.flatten.map (·.2)

/-- `TopologicalSortPass.call` on C12's model of the pass (`Sort.passEffect`, `[main] ++ functions`):
    the flag it returns when the sort does not raise -/
def sortPassFlag (gs : List Sort.MGraph) : Bool :=
  sortFlag (flatOrders (gs.map Sort.graphsOf)) (flatOrders (Sort.passEffect gs).2)

/-! ## call_onnx_api (`_c_api_utils.py` 23-93) -/
namespace CApi

/-- a tensor object: identity, `nbytes`, and opaque tokens for its `shape` and `dtype` -/
structure Tensor where
  id : Nat
  nbytes : Nat
  shape : Nat
  dtype : Nat
  /-- serializing it raises (e.g. a LazyTensor whose function fails) -/
  bad : Bool
  deriving DecidableEq, Repr, Inhabited

/-- the fields of a `Value` that the function reads or writes -/
structure Val where
  name : String
  const : Option Tensor
  shape : Option Nat
  type : Option Nat
  deriving DecidableEq, Repr, Inhabited

/-- the part of the model that the function can touch: the value store (by creation index), the
    ordered initializer mapping of the main graph and its input list -/
structure G where
  val : Nat → Val
  inits : List (String × Nat)
  inputs : List Nat
  /-- `tensor.name` of every tensor object (by tensor identity): the one thing serialization writes -/
  tname : Nat → String

def setVal (g : G) (i : Nat) (v : Val) : G :=
  { g with val := fun j => if j = i then v else g.val j }

/-- `dict.pop(key)` on the ordered mapping -/
def popKey (l : List (String × Nat)) (k : String) : List (String × Nat) := l.filter (fun p => p.1 != k)

/-- `GraphInitializers.add(value)`, i.e. `self[value.name] = value`: an existing key keeps its
    position, a new key goes to the end -/
def setKey : List (String × Nat) → String → Nat → List (String × Nat)
  | [], k, i => [(k, i)]
  | (k', i') :: l, k, i => if k' = k then (k, i) :: l else (k', i') :: setKey l k i

/-- the primitive effects of the strip loop -/
inductive Prim where
  | setShape (v s : Nat)      -- initializer.shape = const_value.shape
  | setDtype (v d : Nat)      -- initializer.dtype = const_value.dtype   (type was None)
  | appendInput (v : Nat)     -- graph.inputs.append(initializer)
  | clearConst (v : Nat)      -- initializer.const_value = None
  | popInit (k : String)      -- graph.initializers.pop(name)
  deriving Repr

def Prim.apply (g : G) : Prim → G
  | .setShape v s => setVal g v { g.val v with shape := some s }
  | .setDtype v d => setVal g v { g.val v with type := some d }
  | .appendInput v => { g with inputs := g.inputs ++ [v] }
  | .clearConst v => setVal g v { g.val v with const := none }
  | .popInit k => { g with inits := popKey g.inits k }

/-- where a step raises: the index of the primitive effect (in execution order) and whether the
    effect had already been applied when the exception left it -/
structure Fault where
  idx : Nat
  after : Bool
  deriving Repr

/-- interpreter state: the graph, the index of the next primitive effect, "an exception is
    propagating", and (ghost) the primitives attempted so far, newest first -/
structure St where
  g : G
  k : Nat
  raised : Bool
  log : List Prim

def doPrim (f : Option Fault) (p : Prim) (s : St) : St :=
  if s.raised then s
  else match f with
    | some ⟨a, after⟩ =>
      if a = s.k then ⟨if after then p.apply s.g else s.g, s.k + 1, true, p :: s.log⟩
      else ⟨p.apply s.g, s.k + 1, false, p :: s.log⟩
    | none => ⟨p.apply s.g, s.k + 1, false, p :: s.log⟩

def BIG : Nat := 1000

/-- lines 52-54: `if const_value is not None and shape is None: shape = const_value.shape` -/
def stageShape (f : Option Fault) (i : Nat) (s : St) : St :=
  if s.raised then s else
  match (s.g.val i).const with
  | some t => if (s.g.val i).shape.isNone then doPrim f (.setShape i t.shape) s else s
  | none => s

/-- lines 55-56: `if const_value is not None and dtype is None: dtype = const_value.dtype` -/
def stageDtype (f : Option Fault) (i : Nat) (s : St) : St :=
  if s.raised then s else
  match (s.g.val i).const with
  | some t => if (s.g.val i).type.isNone then doPrim f (.setDtype i t.dtype) s else s
  | none => s

/-- lines 57-58: `if initializer not in graph.inputs: graph.inputs.append(initializer)` -/
def stageInput (f : Option Fault) (i : Nat) (s : St) : St :=
  if s.raised then s else
  if !s.g.inputs.contains i then doPrim f (.appendInput i) s else s

/-- lines 59-70: no tensor: pop; big tensor: clear the tensor, then pop (`doPrim` does nothing once
    an exception is propagating) -/
def stagePop (f : Option Fault) (i : Nat) (s : St) : St :=
  if s.raised then s else
  match (s.g.val i).const with
  | none => doPrim f (.popInit (s.g.val i).name) s
  | some t =>
    if t.nbytes > BIG then doPrim f (.popInit (s.g.val i).name) (doPrim f (.clearConst i) s)
    else s

/-- the body of the strip loop for one initializer (lines 50-70) -/
def stripOne (f : Option Fault) (i : Nat) (s : St) : St :=
  stagePop f i (stageInput f i (stageDtype f i (stageShape f i s)))

def strip (f : Option Fault) (ids : List Nat) (s : St) : St :=
  ids.foldl (fun s i => stripOne f i s) s

/-- what is saved of initializer `i` before anything is touched (lines 41-44) -/
def fieldsOf (g : G) (i : Nat) : Nat × Option Tensor × Option Nat × Option Nat :=
  (i, (g.val i).const, (g.val i).shape, (g.val i).type)

/-- lines 78-81: put the three saved fields of one initializer back -/
def stepV (g : G) (p : Nat × Option Tensor × Option Nat × Option Nat) : G :=
  setVal g p.1 { g.val p.1 with const := p.2.1, shape := p.2.2.1, type := p.2.2.2 }

/-- line 87: `graph.initializers.add(initializer)` -/
def stepK (g : G) (p : Nat × Option Tensor × Option Nat × Option Nat) : G :=
  { g with inits := setKey g.inits (g.val p.1).name p.1 }

/-- the `finally` block (lines 76-91): put the three saved fields back, rebuild the mapping in the
    original order (`clear()` then `add` each), put the original inputs back -/
def restore (saved : List (Nat × Option Tensor × Option Nat × Option Nat)) (inputs0 : List Nat)
    (g : G) : G :=
  let g1 := saved.foldl stepV g
  let g2 := saved.foldl stepK { g1 with inits := [] }
  { g2 with inputs := inputs0 }

inductive Outcome (R : Type) where
  | ok (r : R)
  | raised
  deriving Repr

/-- The side effect of `serialize_model` on the model (serde.py `serialize_graph_into`: "make sure the
    tensor's name is the same as the value's name", `value.const_value.name = value.name`, executed
    for an initializer just before its tensor is serialized): the tensors of the first `n`
    initializers that still carry one get the name of their value.  `n` = how far serialization got. -/
def renamePrefix : Nat → List (String × Nat) → G → G
  | 0, _, g => g
  | _, [], g => g
  | n + 1, (_, i) :: l, g =>
    match (g.val i).const with
    | none => renamePrefix (n + 1) l g
    | some t =>
      renamePrefix n l { g with tname := fun j => if j = t.id then (g.val i).name else g.tname j }

/-- `call_onnx_api(func, model)`.  `ser` is `ir.serde.serialize_model` and `func` the wrapped ONNX
    call; either may raise (`none`).  `reach` says how many initializer tensors the serializer got to
    (whether it then finished or raised).  `f` makes one primitive step of the strip loop raise. -/
def callOnnxApi {P R : Type} (f : Option Fault) (reach : G → Nat) (ser : G → Option P)
    (func : P → Option R) (g : G) : G × Outcome R :=
  let ids := g.inits.map (·.2)
  let saved := ids.map (fieldsOf g)
  let inputs0 := g.inputs
  let s := strip f ids ⟨g, 0, false, []⟩
  let out : Outcome R :=
    if s.raised then .raised
    else match ser s.g with
      | none => .raised
      | some proto =>
        match func proto with
        | none => .raised
        | some r => .ok r
  let g2 := if s.raised then s.g else renamePrefix (reach s.g) s.g.inits s.g
  (restore saved inputs0 g2, out)

/-- `CheckerPass.call` (onnx_checker.py 43-57): the exception of the call propagates, success
    returns `PassResult(model, False)` -/
def checkerCall {P : Type} (f : Option Fault) (reach : G → Nat) (ser : G → Option P)
    (check : P → Option Unit) (g : G) (m : ModelId) : G × CallRet :=
  match callOnnxApi f reach ser check g with
  | (g', .ok _) => (g', .result ⟨m, false⟩)
  | (g', .raised) => (g', .raised .other)

/-- `ShapeInferencePass.call` (shape_inference.py 75-92): any exception of `call_onnx_api` is
    swallowed and `(model, False)` returned; otherwise `_merge_func` (22-50) first deserializes the
    inferred proto (`deser`; it raises e.g. for a proto that re-declares a name, and that exception
    propagates - nothing has been written at that point) and then merges (`merge` returns the new
    graph and whether anything was written). -/
def shapeInferenceCall {P Q : Type} (f : Option Fault) (reach : G → Nat) (ser : G → Option P)
    (infer : P → Option P) (deser : P → Option Q) (merge : G → Q → G × Bool) (g : G) (m : ModelId) :
    G × CallRet :=
  match callOnnxApi f reach ser infer g with
  | (g', .raised) => (g', .result ⟨m, false⟩)
  | (g', .ok p) =>
    match deser p with
    | none => (g', .raised .other)
    | some q => ((merge g' q).1, .result ⟨m, (merge g' q).2⟩)

/-- one value of the inferred model: name, shape token, dtype token -/
abbrev Inferred := List (String × Option Nat × Option Nat)

/-- lines 40-42: `if value.shape != inferred.shape and inferred.shape is not None: value.shape = ...` -/
def mergeShape (sh : Option Nat) (st : G × Bool) (i : Nat) : G × Bool :=
  if (st.1.val i).shape != sh && sh.isSome then (setVal st.1 i { st.1.val i with shape := sh }, true)
  else st

/-- lines 43-45: the same for the dtype -/
def mergeType (dt : Option Nat) (st : G × Bool) (i : Nat) : G × Bool :=
  if (st.1.val i).type != dt && dt.isSome then (setVal st.1 i { st.1.val i with type := dt }, true)
  else st

/-- the body of the loop of `_merge_func` (lines 37-50) for the original value `i` -/
def mergeOne (inf : Inferred) (st : G × Bool) (i : Nat) : G × Bool :=
  match inf.lookup (st.1.val i).name with
  | none => st
  | some (sh, dt) => mergeType dt (mergeShape sh st i) i

/-- `_merge_func` on the values `ids` of the original graph (in the order of `create_value_mapping`) -/
def mergeVals (ids : List Nat) (g : G) (inf : Inferred) : G × Bool :=
  ids.foldl (mergeOne inf) (g, false)

/-- what `serialize_model` puts into the proto, as far as the strip is concerned: initializer names
    (in order) with their tensor ids, and the graph inputs with name, shape and type tokens -/
structure ProtoView where
  inits : List (String × Nat)
  inputs : List (String × Option Nat × Option Nat)
  deriving DecidableEq, Repr

/-- concrete serialization used by the driver: raises when a tensor that is still an initializer
    cannot be serialized; initializers without a tensor are skipped (serde.py 1872-1884) -/
def serView (g : G) : Option ProtoView :=
  if g.inits.any (fun p => match (g.val p.2).const with | some t => t.bad | none => false) then none
  else some {
    inits := g.inits.filterMap (fun p => (g.val p.2).const.map (fun t => (p.1, t.id)))
    inputs := g.inputs.map (fun i => ((g.val i).name, (g.val i).shape, (g.val i).type)) }

/-- how far the concrete serialization gets: through the first tensor that cannot be serialized
    (it is renamed before it is written), or through all of them -/
def serReach (g : G) : Nat :=
  let ts := g.inits.filterMap (fun p => (g.val p.2).const)
  match ts.findIdx? (·.bad) with
  | some k => k + 1
  | none => ts.length

end CApi

end IrVerif.PassInfra

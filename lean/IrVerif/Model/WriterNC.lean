/-
The concurrent writer when `callback=None` (the default of every public entry point), as a transition
system over the SAME states as `IrVerif.WriterN`, whose steps are macro steps of that model.

What the code does without a callback (`src/onnx_ir/external_data.py`):
* `_write_parallel` still passes its `callback_lock` to `_write_tensor`, which takes it around
  `_invoke_callback`; `_invoke_callback` returns at once (`if self._callback is None: return`): the lock
  is acquired (a blocking operation, so a synchronisation point) and released again without any
  user code in between.  For the single-file writer this is the lock the model calls `cbLock`
  (`cbAcq`), for the inner writer of a shard it is `cbIn` (`cbAcqIn`).
* the sharded path passes `callback=None` on (`_locked_callback` is not applied, 880-882), so no outer lock
  is ever taken; a serial shard driver (`_write_serial`, `callback_lock=None`) takes no callback lock at
  all: after the tensor lock the next blocking operation is `budget.acquire`.

So one step of the real thread is: the model's step at that program counter followed by the model's
callback steps that involve no blocking operation of the real code (`fuse`).  Every schedule of this
system is a schedule of `IrVerif.WriterN` (`Lemmas/WriterNC.lean`), so all its safety theorems apply; the
callback log of the model then lists the tensors that passed the (empty) callback point, the real log is
empty.  Only core Lean is imported.
-/
import IrVerif.Model.WriterN
namespace IrVerif.WriterN

def isCbPc : Pc → Bool
  | .cbAcqIn | .cbAcq | .cbBody => true
  | _ => false

/-- run tensor `i` through what is left of its callback section (at most `k` model steps) -/
def fuse (cfg : Cfg) (i : Nat) : Nat → State → Option State
  | 0, s => some s
  | k + 1, s =>
    match s.tasks[i]? with
    | some p => if isCbPc p then (step cfg s (.task i)).bind (fuse cfg i k) else some s
    | none => some s

/-- one step of the writer without a callback -/
def stepNC (cfg : Cfg) (s : State) : Label → Option State
  | .task i =>
    match s.tasks[i]? with
    | some .tAcq =>
        (step cfg s (.task i)).bind fun s1 =>
          -- a parallel writer now blocks on its callback lock; a serial one goes on to the budget
          if (cfg.pool (cfg.poolOf i)).asCompleted then some s1 else fuse cfg i 3 s1
    | some .cbAcqIn => fuse cfg i 3 s
    | some .cbAcq => fuse cfg i 3 s
    | some .cbBody => none
    | _ => step cfg s (.task i)
  | l => step cfg s l

def runNC (cfg : Cfg) (s : State) : List Label → Option State
  | [] => some s
  | l :: ls => match stepNC cfg s l with
    | none => none
    | some s' => runNC cfg s' ls

inductive ReachableNC (cfg : Cfg) : State → Prop
  | init : ReachableNC cfg (init cfg)
  | step {s s' : State} (l : Label) : ReachableNC cfg s → stepNC cfg s l = some s' → ReachableNC cfg s'

/-- no callback can fail when there is none -/
def ncb (cfg : Cfg) : Bool := (List.range cfg.n).all fun i => !cfg.cbFails i

end IrVerif.WriterN

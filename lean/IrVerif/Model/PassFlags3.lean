import IrVerif.Model.PassFlags2
import IrVerif.Model.Inline
/-!
# Model/PassFlags3.lean - the `modified` flag and the measure of InlinePass (property C14, second deepening)

C05's model of the pass (`Model/Inline.lean`, imported read-only) already carries the counter: `ISt.count` is
incremented exactly where inliner.py increments `inlined_count` (line 354, after `replace_nodes_and_values`) and
is threaded through nested graphs and through the nodes inserted for a call the way `sub_inlined` /
`total_inlined` are (lines 358-363, 170, 181); `InlinePass.call` returns `modified=bool(total_inlined)`
(line 189).  Core Lean only.
-/
namespace IrVerif.PassFlags
open IrVerif.Sem IrVerif.Passes IrVerif.Inline

/-- inliner.py 331-333: the node is a call that the pass inlines - its operator identifier is a key of
    `model.functions` and `criteria` is None or accepts the function -/
@[reducible] def inlAccepted (tbl : List Func) (crit : OpId → Bool) : OpId → Bool :=
  fun op => crit op && (findFunc tbl op).isSome

/-- ... and its negation, in the form in which `Inline.inlAt` and `Inline.noAccepted` spell it -/
@[reducible] def inlClean (tbl : List Func) (crit : OpId → Bool) : OpId → Bool :=
  fun op => !(crit op && (findFunc tbl op).isSome)

/-- `InlinePass(criteria).call(model).modified` = `bool(total_inlined)` -/
def inlFlag (crit : OpId → Bool) (m : FModel) : Bool := (inlineRun crit m).st.count != 0

mutual
/-- number of nodes (deep) whose operator satisfies `p` -/
def opCntG (p : OpId → Bool) : FGraph → Nat
  | .mk _ _ _ nodes => opCntNodes p nodes
def opCntNodes (p : OpId → Bool) : List FNode → Nat
  | [] => 0
  | n :: ns => opCntN p n + opCntNodes p ns
def opCntN (p : OpId → Bool) : FNode → Nat
  | .mk op _ _ _ bodies => (if p op then 1 else 0) + opCntBodies p bodies
def opCntBodies (p : OpId → Bool) : List FGraph → Nat
  | [] => 0
  | b :: bs => opCntG p b + opCntBodies p bs
end

/-- the measure of the pass: the number of call nodes that the pass would inline (calls to model-local
    functions accepted by the criteria), in the main graph and in every function, nested graphs included -/
def inlCalls (crit : OpId → Bool) (m : FModel) : Nat :=
  opCntG (inlAccepted m.funcs crit) m.graph +
    (m.funcs.map (fun f => opCntNodes (inlAccepted m.funcs crit) f.nodes)).sum

/-- `model.functions` is a dictionary: the identifiers are distinct (hypothesis of the flag theorem) -/
def funcIdsNodup (m : FModel) : Bool := decide ((m.funcs.map (·.id)).Nodup)

/-! ## CommonSubexpressionEliminationPass: a measure that also decreases in "stalled" rounds

A stalled rewrite turns `o = Identity(x)` into `o = Identity(z)` where `z = Identity(x)` is the node that was kept:
the graph output `o` hangs one link deeper in a chain of Identity nodes.  The total chain depth of the one-input
one-output Identity nodes of the main graph therefore grows in a round all of whose rewrites are stalled, while the
weighted node count `cseW` (which bounds it by its square) does not grow. -/

/-- the shape `y = Identity(x)` (`Passes.ieCandidate`: domain "", one present input, one output) -/
def idShape (n : Node) : Option (VId × VId) := ieCandidate n.op n.ins n.outs

/-- chain depth of the values defined so far (newest first; a value without an entry has depth 0) -/
abbrev DMap := List (VId × Nat)
def dget (δ : DMap) (v : VId) : Nat := (δ.lookup v).getD 0

/-- the values a node defines: one deeper than its input for `y = Identity(x)`, depth 0 for every other node -/
def dstep (δ : DMap) (n : Node) : DMap :=
  match idShape n with
  | some (x, y) => (y, dget δ x + 1) :: δ
  | none => n.outs.map (fun v => (v, 0)) ++ δ

def dcontrib (δ : DMap) (n : Node) : Nat :=
  match idShape n with
  | some (x, _) => dget δ x + 1
  | none => 0

/-- total chain depth of a node list (top level, in order) -/
def phiSum : DMap → List Node → Nat
  | _, [] => 0
  | δ, n :: ns => dcontrib δ n + phiSum (dstep δ n) ns

def cseDepth (m : Model) : Nat := phiSum [] m.graph.nodes

/-- the measure of CSE: lexicographic (weighted node count, then `W*W - depth`) packed into one number -/
def cseMu (m : Model) : Nat :=
  cseW m.graph.nodes * (cseW m.graph.nodes * cseW m.graph.nodes + 1) +
    (cseW m.graph.nodes * cseW m.graph.nodes - cseDepth m)

end IrVerif.PassFlags

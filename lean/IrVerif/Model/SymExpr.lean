/-
Model for C16: symbolic dimension expressions.

* `Expr` / `eval` / `subst` / `free`: the expressions `SymbolicDim` builds through its operator
  overloads (`src/onnx_ir/_core.py` 1484-1647) with an exact rational evaluator.  Python / SymPy
  semantics: `a // b = floor(a / b)`, `a % b = a - b * floor(a / b)` (sign of the divisor),
  `trunc x = sign x * floor |x|`, `none` when a value is not a finite rational (division by zero,
  `max()` / `min()` of nothing, a non-integer power).
* `tokenize`: transcription of `_ExpressionTokenizer.get_token`
  (`src/onnx_ir/_symbolic_shapes.py` 32-107) for ASCII input.
* `parseExpr` ... `parsePrimary`: transcription of `_ExpressionParser`
  (`src/onnx_ir/_symbolic_shapes.py` 110-283) WITH the repairs D24 (unary minus binds looser than
  `**`), D25 (`ceiling`), D26 (`Abs`, `sign`) of `proposed_fixes/D24.diff` ... `D26.diff`:

      expr    -> term (('+' | '-') term)*
      term    -> unary (('*' | '/' | '//' | '%') unary)*
      unary   -> '-' unary | power
      power   -> primary ('**' unary)?
      primary -> NUMBER | IDENT | IDENT '(' args ')' | '(' expr ')'
      args    -> (expr (',' expr)*)?

  Every recursive call spends one unit of fuel (fuel bounds the recursion depth); `parseTokens`
  starts with `5 * length + 8`, which `Props/C16.lean` proves is always enough.
* `parseChars`: `parse_symbolic_expression` (286-313) including the `isidentifier` fast path.
* `intFrag` / `evalInt`: the integer fragment (no true division, no power) with Python's integer
  arithmetic (`Int.fdiv`, `Int.fmod`), the reference `eval` is proved equal to there.
* `D`, `D.flatten`, `D.sem`: derivation trees of the documented grammar, the sentence a tree
  derives and its standard meaning (the specification the parser is proved against).
* `pp`: a printer with minimal parentheses into tokens, `render` tokens to characters.

Core Lean only (linked into the `irdriver` executable).
-/
namespace IrVerif.SymExpr

/-! ## Expressions and exact evaluation -/

inductive BinOp where
  | add | sub | mul | div | fdiv | mod | pow | max | min
  deriving Repr, DecidableEq, Inhabited

inductive UnOp where
  | neg | floor | ceil | trunc | abs | sign | sqrt
  deriving Repr, DecidableEq, Inhabited

inductive Expr where
  | num (n : Int)
  | sym (s : String)
  /-- `sympy.Max()` is `-oo` (`inf true`), `sympy.Min()` is `oo` (`inf false`). -/
  | inf (negative : Bool)
  | un (o : UnOp) (a : Expr)
  | bin (o : BinOp) (a b : Expr)
  deriving Repr, DecidableEq, Inhabited

/-- bindings: symbol name to integer -/
abbrev Env := String → Option Int

def Env.empty : Env := fun _ => none

def Env.ofList (l : List (String × Int)) : Env := fun s => l.lookup s

/-- `b1 ∪ b2`, `b1` wins -/
def Env.union (b1 b2 : Env) : Env := fun s =>
  match b1 s with
  | some v => some v
  | none => b2 s

/-- truncation toward zero (`math.trunc`) -/
def ratTrunc (x : Rat) : Int := Int.tdiv x.num x.den

def ratSign (x : Rat) : Rat := if x < 0 then -1 else if x = 0 then 0 else 1

def ratAbs (x : Rat) : Rat := if x < 0 then -x else x

/-- exact square root of a rational, when it is rational -/
def ratSqrt (x : Rat) : Option Rat :=
  if x < 0 then none
  else
    let n := x.num.toNat
    let rn := Nat.sqrt n
    let rd := Nat.sqrt x.den
    if rn * rn = n ∧ rd * rd = x.den then some ((rn : Rat) / (rd : Rat)) else none

def evalUn : UnOp → Rat → Option Rat
  | .neg, x => some (-x)
  | .floor, x => some (x.floor : Rat)
  | .ceil, x => some ((-((-x).floor) : Int) : Rat)
  | .trunc, x => some (ratTrunc x : Rat)
  | .abs, x => some (ratAbs x)
  | .sign, x => some (ratSign x)
  | .sqrt, x => ratSqrt x

/-- `x ** y` for an integer exponent; a negative power of zero and non-integer exponents are
    outside the finite rationals. -/
def ratPow (x y : Rat) : Option Rat :=
  if y.den = 1 then
    if 0 ≤ y.num then some (x ^ y.num.toNat)
    else if x = 0 then none
    else some ((x ^ (-y.num).toNat)⁻¹)
  else none

def evalBin : BinOp → Rat → Rat → Option Rat
  | .add, x, y => some (x + y)
  | .sub, x, y => some (x - y)
  | .mul, x, y => some (x * y)
  | .div, x, y => if y = 0 then none else some (x / y)
  | .fdiv, x, y => if y = 0 then none else some ((x / y).floor : Rat)
  | .mod, x, y => if y = 0 then none else some (x - y * ((x / y).floor : Rat))
  | .pow, x, y => ratPow x y
  | .max, x, y => some (if x ≤ y then y else x)
  | .min, x, y => some (if x ≤ y then x else y)

/-- Exact evaluation; `none` = no finite rational value. -/
def eval (env : Env) : Expr → Option Rat
  | .num n => some (n : Rat)
  | .sym s => match env s with
    | some v => some (v : Rat)
    | none => none
  | .inf _ => none
  | .un o a => match eval env a with
    | some x => evalUn o x
    | none => none
  | .bin o a b => match eval env a, eval env b with
    | some x, some y => evalBin o x y
    | _, _ => none

/-- The integer fragment: what can be built from dimensions and integers with
    `+ - * // %`, negation, floor, ceil, trunc, abs, sign, max, min (no true division, no power). -/
def intFrag : Expr → Bool
  | .num _ => true
  | .sym _ => true
  | .inf _ => false
  | .un .sqrt _ => false
  | .un _ a => intFrag a
  | .bin .div _ _ => false
  | .bin .pow _ _ => false
  | .bin _ a b => intFrag a && intFrag b

/-- Python integer arithmetic on the integer fragment: `//` is `Int.fdiv`, `%` is `Int.fmod`
    (`ZeroDivisionError` = `none`); floor, ceil and trunc of an `int` are the identity. -/
def evalInt (env : Env) : Expr → Option Int
  | .num n => some n
  | .sym s => env s
  | .inf _ => none
  | .un o a =>
    match evalInt env a with
    | none => none
    | some x =>
      match o with
      | .neg => some (-x)
      | .floor => some x
      | .ceil => some x
      | .trunc => some x
      | .abs => some (x.natAbs : Int)
      | .sign => some x.sign
      | .sqrt => none
  | .bin o a b =>
    match evalInt env a, evalInt env b with
    | some x, some y =>
      match o with
      | .add => some (x + y)
      | .sub => some (x - y)
      | .mul => some (x * y)
      | .div => none
      | .fdiv => if y = 0 then none else some (Int.fdiv x y)
      | .mod => if y = 0 then none else some (Int.fmod x y)
      | .pow => none
      | .max => some (if x ≤ y then y else x)
      | .min => some (if x ≤ y then x else y)
    | _, _ => none

/-- Substitution of the bound symbols (what a partial `evaluate` does, without SymPy's
    re-simplification). -/
def subst (b : Env) : Expr → Expr
  | .num n => .num n
  | .sym s => match b s with
    | some v => .num v
    | none => .sym s
  | .inf n => .inf n
  | .un o a => .un o (subst b a)
  | .bin o x y => .bin o (subst b x) (subst b y)

/-- free symbols, in order of occurrence (with repetitions) -/
def free : Expr → List String
  | .num _ => []
  | .sym s => [s]
  | .inf _ => []
  | .un _ a => free a
  | .bin _ a b => free a ++ free b

/-! ## Tokens and the tokenizer -/

inductive Op where
  | plus | minus | star | slash | dslash | percent | dstar
  deriving Repr, DecidableEq, Inhabited

inductive Tok where
  | num (n : Nat)
  | ident (s : String)
  | op (o : Op)
  | lparen | rparen | comma
  deriving Repr, DecidableEq, Inhabited

/-- `str.isdigit` on ASCII -/
def isDigit (c : Char) : Bool := '0' ≤ c && c ≤ '9'
/-- `str.isalpha` on ASCII -/
def isAlpha (c : Char) : Bool := ('a' ≤ c && c ≤ 'z') || ('A' ≤ c && c ≤ 'Z')
def isAlnum (c : Char) : Bool := isAlpha c || isDigit c
/-- `str.isspace` on ASCII: TAB LF VT FF CR, FS GS RS US, SPACE -/
def isSpace (c : Char) : Bool :=
  let n := c.toNat
  (9 ≤ n && n ≤ 13) || (28 ≤ n && n ≤ 32)
def isAscii (c : Char) : Bool := c.toNat < 128

def identStart (c : Char) : Bool := isAlpha c || c == '_'
/-- continuation of an IDENT token: alnum, `_` or `.` (line 78-80) -/
def identCont (c : Char) : Bool := isAlnum c || c == '_' || c == '.'

/-- `str.isidentifier` on ASCII (Python keywords are identifiers for this method) -/
def isIdentifier : List Char → Bool
  | [] => false
  | c :: cs => identStart c && cs.all (fun d => isAlnum d || d == '_')

def digitVal (c : Char) : Nat := c.toNat - '0'.toNat

/-- consume digits, accumulating `int(text[start:pos])` -/
def takeDigits : Nat → List Char → Nat × List Char
  | acc, [] => (acc, [])
  | acc, c :: cs => if isDigit c then takeDigits (acc * 10 + digitVal c) cs else (acc, c :: cs)

def takeIdent : List Char → List Char → List Char × List Char
  | acc, [] => (acc.reverse, [])
  | acc, c :: cs => if identCont c then takeIdent (c :: acc) cs else (acc.reverse, c :: cs)

/-- all tokens of the text (`get_token` until it returns `None`); `none` = it raises.
    Fuel: one unit per token, `length + 1` suffices. -/
def tokenizeAux : Nat → List Char → Option (List Tok)
  | 0, _ => none
  | _ + 1, [] => some []
  | f + 1, c :: cs =>
    if isSpace c then tokenizeAux f cs
    else if isDigit c then
      let (n, rest) := takeDigits 0 (c :: cs)
      (tokenizeAux f rest).map (Tok.num n :: ·)
    else if identStart c then
      let (name, rest) := takeIdent [] (c :: cs)
      (tokenizeAux f rest).map (Tok.ident (String.ofList name) :: ·)
    else
      match c, cs with
      | '/', '/' :: rest => (tokenizeAux f rest).map (Tok.op .dslash :: ·)
      | '*', '*' :: rest => (tokenizeAux f rest).map (Tok.op .dstar :: ·)
      | '+', rest => (tokenizeAux f rest).map (Tok.op .plus :: ·)
      | '-', rest => (tokenizeAux f rest).map (Tok.op .minus :: ·)
      | '*', rest => (tokenizeAux f rest).map (Tok.op .star :: ·)
      | '/', rest => (tokenizeAux f rest).map (Tok.op .slash :: ·)
      | '%', rest => (tokenizeAux f rest).map (Tok.op .percent :: ·)
      | '(', rest => (tokenizeAux f rest).map (Tok.lparen :: ·)
      | ')', rest => (tokenizeAux f rest).map (Tok.rparen :: ·)
      | ',', rest => (tokenizeAux f rest).map (Tok.comma :: ·)
      | _, _ => none

def tokenize (cs : List Char) : Option (List Tok) := tokenizeAux (cs.length + 1) cs

/-! ## The recursive-descent parser (repaired grammar) -/

/-- `_ALLOWED_FUNCTIONS` applied to the parsed argument list; `none` = unknown name
    (ValueError) or an arity SymPy rejects (TypeError). -/
def applyFn (name : String) (args : List Expr) : Option Expr :=
  let un1 (o : UnOp) : Option Expr :=
    match args with
    | [a] => some (.un o a)
    | _ => none
  let fold (o : BinOp) (emptyNeg : Bool) : Option Expr :=
    match args with
    | [] => some (.inf emptyNeg)
    | a :: rest => some (rest.foldl (fun acc x => .bin o acc x) a)
  if name = "max" ∨ name = "Max" then fold .max true
  else if name = "min" ∨ name = "Min" then fold .min false
  else if name = "floor" then un1 .floor
  else if name = "ceiling" then un1 .ceil
  else if name = "sqrt" then un1 .sqrt
  else if name = "Abs" then un1 .abs
  else if name = "sign" then un1 .sign
  else if name = "mod" ∨ name = "Mod" then
    match args with
    | [a, b] => some (.bin .mod a b)
    | _ => none
  else none

abbrev Res := Option (Expr × List Tok)

/-- the `+` / `-` test of the loop in `_parse_expr`: the operator and the remaining tokens -/
def addOpOf : List Tok → Option (BinOp × List Tok)
  | .op .plus :: ts => some (.add, ts)
  | .op .minus :: ts => some (.sub, ts)
  | _ => none

/-- the `*` `/` `//` `%` test of the loop in `_parse_term` -/
def mulOpOf : List Tok → Option (BinOp × List Tok)
  | .op .star :: ts => some (.mul, ts)
  | .op .slash :: ts => some (.div, ts)
  | .op .dslash :: ts => some (.fdiv, ts)
  | .op .percent :: ts => some (.mod, ts)
  | _ => none

mutual
/-- `_parse_expr` -/
def parseExpr : Nat → List Tok → Res
  | 0, _ => none
  | f + 1, ts =>
    match parseTerm f ts with
    | some (l, r) => exprLoop f l r
    | none => none
/-- the `while` loop of `_parse_expr` -/
def exprLoop : Nat → Expr → List Tok → Res
  | 0, _, _ => none
  | f + 1, l, ts =>
    match addOpOf ts with
    | some (o, ts') =>
      match parseTerm f ts' with
      | some (r, ts'') => exprLoop f (.bin o l r) ts''
      | none => none
    | none => some (l, ts)
/-- `_parse_term` -/
def parseTerm : Nat → List Tok → Res
  | 0, _ => none
  | f + 1, ts =>
    match parseUnary f ts with
    | some (l, r) => termLoop f l r
    | none => none
/-- the `while` loop of `_parse_term` -/
def termLoop : Nat → Expr → List Tok → Res
  | 0, _, _ => none
  | f + 1, l, ts =>
    match mulOpOf ts with
    | some (o, ts') =>
      match parseUnary f ts' with
      | some (r, ts'') => termLoop f (.bin o l r) ts''
      | none => none
    | none => some (l, ts)
/-- `_parse_unary` -/
def parseUnary : Nat → List Tok → Res
  | 0, _ => none
  | f + 1, .op .minus :: ts =>
    match parseUnary f ts with
    | some (e, r) => some (.un .neg e, r)
    | none => none
  | f + 1, ts => parsePower f ts
/-- `_parse_power` -/
def parsePower : Nat → List Tok → Res
  | 0, _ => none
  | f + 1, ts =>
    match parsePrimary f ts with
    | some (b, .op .dstar :: ts') =>
      match parseUnary f ts' with
      | some (e, r) => some (.bin .pow b e, r)
      | none => none
    | some (b, r) => some (b, r)
    | none => none
/-- `_parse_primary` and `_parse_function_call` -/
def parsePrimary : Nat → List Tok → Res
  | 0, _ => none
  | _ + 1, [] => none
  | _ + 1, .num n :: ts => some (.num n, ts)
  | f + 1, .ident name :: .lparen :: ts =>
    -- `_parse_function_call`: unknown names raise before the arguments are parsed; the result
    -- is the same `none` either way
    match ts with
    | .rparen :: r =>
      match applyFn name [] with
      | some e => some (e, r)
      | none => none
    | _ =>
      match parseExpr f ts with
      | some (a, r) =>
        match argsLoop f [a] r with
        | some (args, .rparen :: r') =>
          match applyFn name args with
          | some e => some (e, r')
          | none => none
        | _ => none
      | none => none
  | _ + 1, .ident name :: ts => some (.sym name, ts)
  | f + 1, .lparen :: ts =>
    match parseExpr f ts with
    | some (e, .rparen :: r) => some (e, r)
    | _ => none
  | _ + 1, _ => none
/-- the `while ... COMMA` loop of `_parse_function_call` -/
def argsLoop : Nat → List Expr → List Tok → Option (List Expr × List Tok)
  | 0, _, _ => none
  | f + 1, acc, .comma :: ts =>
    match parseExpr f ts with
    | some (a, r) => argsLoop f (acc ++ [a]) r
    | none => none
  | _ + 1, acc, ts => some (acc, ts)
end

def fuelFor (ts : List Tok) : Nat := 5 * ts.length + 8

/-- `_ExpressionParser(text).parse()` on the token list -/
def parseTokens (ts : List Tok) : Option Expr :=
  match parseExpr (fuelFor ts) ts with
  | some (e, []) => some e
  | _ => none

/-- `parse_symbolic_expression` (ASCII text) -/
def parseChars (cs : List Char) : Option Expr :=
  if isIdentifier cs then some (.sym (String.ofList cs))
  else
    match tokenize cs with
    | some ts => parseTokens ts
    | none => none

/-! ## The documented grammar as derivation trees

    expr     -> term exprTail          exprTail -> ε | ('+' | '-') term exprTail
    term     -> unary termTail         termTail -> ε | ('*' | '/' | '//' | '%') unary termTail
    unary    -> '-' unary | power
    power    -> primary | primary '**' unary
    primary  -> NUMBER | IDENT | '(' expr ')' | FN1 '(' expr ')' | FN2 '(' expr ',' expr ')'
              | FNN '(' args ')'
    args     -> ε | expr argsTail      argsTail -> ε | ',' expr argsTail

  (`x (op x)*` of the docstring is the tail form; the function table with its arities is
  `_ALLOWED_FUNCTIONS` plus what SymPy accepts.) -/

inductive NT where
  | expr | exprTail | term | termTail | unary | power | primary | args | argsTail
  deriving Repr, DecidableEq

inductive AddOp where
  | plus | minus
  deriving Repr, DecidableEq

inductive MulOp where
  | star | slash | dslash | percent
  deriving Repr, DecidableEq

inductive Fn1 where
  | floor | ceiling | abs | sign | sqrt
  deriving Repr, DecidableEq

inductive Fn2 where
  | mod | Mod
  deriving Repr, DecidableEq

inductive FnN where
  | max | Max | min | Min
  deriving Repr, DecidableEq

def AddOp.tok : AddOp → Tok
  | .plus => .op .plus | .minus => .op .minus
def AddOp.bin : AddOp → BinOp
  | .plus => .add | .minus => .sub
def MulOp.tok : MulOp → Tok
  | .star => .op .star | .slash => .op .slash | .dslash => .op .dslash | .percent => .op .percent
def MulOp.bin : MulOp → BinOp
  | .star => .mul | .slash => .div | .dslash => .fdiv | .percent => .mod
def Fn1.name : Fn1 → String
  | .floor => "floor" | .ceiling => "ceiling" | .abs => "Abs" | .sign => "sign" | .sqrt => "sqrt"
def Fn1.un : Fn1 → UnOp
  | .floor => .floor | .ceiling => .ceil | .abs => .abs | .sign => .sign | .sqrt => .sqrt
def Fn2.name : Fn2 → String
  | .mod => "mod" | .Mod => "Mod"
def FnN.name : FnN → String
  | .max => "max" | .Max => "Max" | .min => "min" | .Min => "Min"
def FnN.bin : FnN → BinOp
  | .max => .max | .Max => .max | .min => .min | .Min => .min
/-- `sympy.Max()` is `-oo`, `sympy.Min()` is `oo` -/
def FnN.emptyNeg : FnN → Bool
  | .max => true | .Max => true | .min => false | .Min => false

/-- `Max(*args)` / `Min(*args)` as nested binary operations, left to right -/
def FnN.apply (f : FnN) : List Expr → Expr
  | [] => Expr.inf f.emptyNeg
  | a :: rest => rest.foldl (fun acc x => Expr.bin f.bin acc x) a

/-- derivation trees, indexed by the nonterminal they derive -/
inductive D : NT → Type where
  | expr (t : D .term) (tl : D .exprTail) : D .expr
  | etNil : D .exprTail
  | etCons (o : AddOp) (t : D .term) (tl : D .exprTail) : D .exprTail
  | term (u : D .unary) (tl : D .termTail) : D .term
  | ttNil : D .termTail
  | ttCons (o : MulOp) (u : D .unary) (tl : D .termTail) : D .termTail
  | neg (u : D .unary) : D .unary
  | upow (p : D .power) : D .unary
  | prim (p : D .primary) : D .power
  | pow (b : D .primary) (e : D .unary) : D .power
  | num (n : Nat) : D .primary
  | ident (s : String) : D .primary
  | paren (e : D .expr) : D .primary
  | call1 (f : Fn1) (a : D .expr) : D .primary
  | call2 (f : Fn2) (a b : D .expr) : D .primary
  | callN (f : FnN) (args : D .args) : D .primary
  | argsNil : D .args
  | argsCons (e : D .expr) (tl : D .argsTail) : D .args
  | atNil : D .argsTail
  | atCons (e : D .expr) (tl : D .argsTail) : D .argsTail

/-- the sentence (token list) a derivation tree derives -/
def D.flatten : D n → List Tok
  | .expr t tl => t.flatten ++ tl.flatten
  | .etNil => []
  | .etCons o t tl => o.tok :: (t.flatten ++ tl.flatten)
  | .term u tl => u.flatten ++ tl.flatten
  | .ttNil => []
  | .ttCons o u tl => o.tok :: (u.flatten ++ tl.flatten)
  | .neg u => .op .minus :: u.flatten
  | .upow p => p.flatten
  | .prim p => p.flatten
  | .pow b e => b.flatten ++ .op .dstar :: e.flatten
  | .num n => [.num n]
  | .ident s => [.ident s]
  | .paren e => .lparen :: (e.flatten ++ [.rparen])
  | .call1 f a => .ident f.name :: .lparen :: (a.flatten ++ [.rparen])
  | .call2 f a b => .ident f.name :: .lparen :: (a.flatten ++ .comma :: (b.flatten ++ [.rparen]))
  | .callN f args => .ident f.name :: .lparen :: (args.flatten ++ [.rparen])
  | .argsNil => []
  | .argsCons e tl => e.flatten ++ tl.flatten
  | .atNil => []
  | .atCons e tl => .comma :: (e.flatten ++ tl.flatten)

/-- what a derivation denotes: an expression; for the tails a function of the accumulated left
    operand (left-associative); for argument lists the list of argument expressions -/
@[reducible] def Den : NT → Type
  | .exprTail => Expr → Expr
  | .termTail => Expr → Expr
  | .args => List Expr
  | .argsTail => List Expr
  | _ => Expr

/-- the standard arithmetic meaning of a derivation tree -/
def D.sem : (d : D n) → Den n
  | .expr t tl => (tl.sem : Expr → Expr) (t.sem : Expr)
  | .etNil => fun (acc : Expr) => acc
  | .etCons o t tl => fun (acc : Expr) => (tl.sem : Expr → Expr) (.bin o.bin acc (t.sem : Expr))
  | .term u tl => (tl.sem : Expr → Expr) (u.sem : Expr)
  | .ttNil => fun (acc : Expr) => acc
  | .ttCons o u tl => fun (acc : Expr) => (tl.sem : Expr → Expr) (.bin o.bin acc (u.sem : Expr))
  | .neg u => Expr.un .neg (u.sem : Expr)
  | .upow p => (p.sem : Expr)
  | .prim p => (p.sem : Expr)
  | .pow b e => Expr.bin .pow (b.sem : Expr) (e.sem : Expr)
  | .num n => Expr.num n
  | .ident s => Expr.sym s
  | .paren e => (e.sem : Expr)
  | .call1 f a => Expr.un f.un (a.sem : Expr)
  | .call2 _ a b => Expr.bin .mod (a.sem : Expr) (b.sem : Expr)
  | .callN f args => f.apply (args.sem : List Expr)
  | .argsNil => ([] : List Expr)
  | .argsCons e tl => ((e.sem : Expr) :: (tl.sem : List Expr) : List Expr)
  | .atNil => ([] : List Expr)
  | .atCons e tl => ((e.sem : Expr) :: (tl.sem : List Expr) : List Expr)

/-! ## Printer (minimal parentheses) -/

/-- binding level of the outermost construct:
    0 = expr (`+ -`), 1 = term (`* / // %`), 2 = unary (`-`), 3 = power (`**`), 4 = primary -/
def level : Expr → Nat
  | .num n => if n < 0 then 2 else 4
  | .sym _ => 4
  | .inf _ => 4
  | .un .neg _ => 2
  | .un .trunc _ => 1
  | .un _ _ => 4
  | .bin .add _ _ => 0
  | .bin .sub _ _ => 0
  | .bin .mul _ _ => 1
  | .bin .div _ _ => 1
  | .bin .fdiv _ _ => 1
  | .bin .mod _ _ => 1
  | .bin .pow _ _ => 3
  | .bin .max _ _ => 4
  | .bin .min _ _ => 4

def paren (ts : List Tok) : List Tok := .lparen :: ts ++ [.rparen]

def call (name : String) (args : List Tok) : List Tok := .ident name :: .lparen :: args ++ [.rparen]

/-- parenthesise the tokens `ts` of `a` when `a` binds looser than level `k` -/
def wrap (k : Nat) (a : Expr) (ts : List Tok) : List Tok :=
  if k ≤ level a then ts else paren ts

/-- tokens of `e`, no outer parentheses -/
def pp : Expr → List Tok
  | .num n => if n < 0 then [.op .minus, .num n.natAbs] else [.num n.natAbs]
  | .sym s => [.ident s]
  | .inf true => call "max" []
  | .inf false => call "min" []
  | .un .neg a => .op .minus :: wrap 2 a (pp a)
  | .un .floor a => call "floor" (pp a)
  | .un .ceil a => call "ceiling" (pp a)
  | .un .abs a => call "Abs" (pp a)
  | .un .sign a => call "sign" (pp a)
  | .un .sqrt a => call "sqrt" (pp a)
  | .un .trunc a => call "sign" (pp a) ++ .op .star :: call "floor" (call "Abs" (pp a))
  | .bin .add a b => wrap 0 a (pp a) ++ .op .plus :: wrap 1 b (pp b)
  | .bin .sub a b => wrap 0 a (pp a) ++ .op .minus :: wrap 1 b (pp b)
  | .bin .mul a b => wrap 1 a (pp a) ++ .op .star :: wrap 2 b (pp b)
  | .bin .div a b => wrap 1 a (pp a) ++ .op .slash :: wrap 2 b (pp b)
  | .bin .fdiv a b => wrap 1 a (pp a) ++ .op .dslash :: wrap 2 b (pp b)
  | .bin .mod a b => wrap 1 a (pp a) ++ .op .percent :: wrap 2 b (pp b)
  | .bin .pow a b => wrap 4 a (pp a) ++ .op .dstar :: wrap 2 b (pp b)
  | .bin .max a b => call "max" (pp a ++ .comma :: pp b)
  | .bin .min a b => call "min" (pp a ++ .comma :: pp b)

/-- what `parseTokens (pp e)` returns: negative literals become negations, `trunc` is spelled
    with `sign`, `floor`, `Abs` -/
def norm : Expr → Expr
  | .num n => if n < 0 then .un .neg (.num n.natAbs) else .num n
  | .sym s => .sym s
  | .inf n => .inf n
  | .un .trunc a => .bin .mul (.un .sign (norm a)) (.un .floor (.un .abs (norm a)))
  | .un o a => .un o (norm a)
  | .bin o a b => .bin o (norm a) (norm b)

def opChars : Op → List Char
  | .plus => ['+'] | .minus => ['-'] | .star => ['*'] | .slash => ['/']
  | .dslash => ['/', '/'] | .percent => ['%'] | .dstar => ['*', '*']

def tokChars : Tok → List Char
  | .num n => Nat.toDigits 10 n
  | .ident s => s.toList
  | .op o => opChars o
  | .lparen => ['('] | .rparen => [')'] | .comma => [',']

/-- tokens separated by single spaces -/
def render : List Tok → List Char
  | [] => []
  | [t] => tokChars t
  | t :: ts => tokChars t ++ ' ' :: render ts

end IrVerif.SymExpr

/-
Second part of the model `IrVerif.Clone` (Model/Clone.lean): the walker's verdict on `Model.clone`
(`modelVerdict`), added in deepening round 3b.  Only core Lean is imported (linked into `irdriver`).
-/
import IrVerif.Model.Clone
namespace IrVerif.Clone

def wModelCell (w : World) (i : Nat) : WRes ModelS :=
  (wCell w i).bind fun c => match c with
    | .model v => .ok v
    | _ => .err (.unsupported "not a model")

/-- the walker's verdict on `model.clone()` (`Model.clone`, `_core.py`): the main graph under a
    fresh value map with `allow_outer_scope_values=False`, then every function under its own fresh
    value map (`funcVerdict`), in order, all read off the SOURCE heap; then the `metadata_props`
    container of the model must be a dict -/
def modelVerdict (fuel : Nat) (w : World) (m : Nat) : WRes Unit :=
  (wModelCell w m).bind fun ms =>
  (cloneVerdict fuel false w ms.graph).bind fun _ =>
  (wAll (fun f => (funcVerdict fuel w f).bind fun _ => .ok ()) ms.funcs).bind fun _ =>
  wDict w ms.props

end IrVerif.Clone

/-
Second part of the model `IrVerif.Clone` (Model/Clone.lean): the walker's verdict on `Model.clone`
(`modelVerdict`), added in deepening round 3b.  Only core Lean is imported (linked into `irdriver`).
-/
import IrVerif.Model.Clone
import IrVerif.Model.Sort
namespace IrVerif.Clone

def wModelCell (w : World) (i : Nat) : WRes ModelS :=
  (wCell w i).bind fun c => match c with
    | .model v => .ok v
    | _ => .err (.unsupported "not a model")

/-- the walker's verdict on `model.clone()` (`Model.clone`, `_core.py`): the main graph under a
    fresh value map with `allow_outer_scope_values=False`, then every function under its own fresh
    value map (`funcVerdict`), in order, all read off the SOURCE heap; then the `metadata_props`
    container of the model must be a dict -/
def modelVerdict (fuel : Nat) (w : World) (m : Nat) : WRes Unit :=
  (wModelCell w m).bind fun ms =>
  (cloneVerdict fuel false w ms.graph).bind fun _ =>
  (wAll (fun f => (funcVerdict fuel w f).bind fun _ => .ok ()) ms.funcs).bind fun _ =>
  wDict w ms.props


/-! ### `functionalize` of ANY pass: pipelines (`Sequential`, `PassManager`) of stages that edit the
model they are handed and / or return a new `ir.Model` built around its objects
(`passes/_pass_infra.py`) -/

/-- the two flags a pass DECLARES (`PassBase.in_place`, `PassBase.changes_input`) -/
structure Decl where
  inPlace : Bool
  changesInput : Bool
  deriving DecidableEq, Repr

/-- what a pass does with the model it is handed: a history of editing calls (which may depend on the
    model and on the heap it finds); `rewrap` then returns a NEW model object built around the
    objects of its input, `ir.Model(model.graph, functions=list(model.functions.values()),
    metadata_props=dict(model.metadata_props), ...)` with header fields `header` -/
inductive Stage where
  | inPlace (edits : Nat → World → List Edit2)
  | rewrap (edits : Nat → World → List Edit2) (header : Nat)

def Stage.edits : Stage → Nat → World → List Edit2
  | .inPlace e => e
  | .rewrap e _ => e

/-- `ir.Model(model.graph, ..., functions=list(model.functions.values()),
    metadata_props=dict(model.metadata_props))`: graph, functions and device configurations are the
    SAME objects; `metadata_props` is a new dict with the same entries, `meta` a new empty store -/
def rewrapModel (header : Nat) (m : Nat) : M Nat := do
  let ms ← readModel m
  let props ← copyProps ms.props
  let mstore ← alloc (.dict {})
  alloc (.model { graph := ms.graph, funcs := ms.funcs, header := header, dev := ms.dev, props := props,
                  mstore := mstore })

/-- the checks of `PassBase.__call__` after `call` returned: the declared `in_place` must agree with
    the identity of the returned model (`PassError` otherwise; the heap keeps what the pass did) -/
def callChecked (d : Decl) (m : Nat) : Except Err Nat × World → Except Err Nat × World
  | (.ok m1, w1) =>
    if d.inPlace && m1 != m then (.error (.raised "declared in-place but returned another model object"), w1)
    else if !d.inPlace && m1 == m then (.error (.raised "declared not in-place but returned the input model object"), w1)
    else (.ok m1, w1)
  | r => r

/-- `pass_(model)` for one stage -/
def runStage (d : Decl) (st : Stage) (m : Nat) (w : World) : Except Err Nat × World :=
  callChecked d m (match st with
    | .inPlace edits => (.ok m, (runHistory2 (edits m w) w).2)
    | .rewrap edits header => run (rewrapModel header m) (runHistory2 (edits m w) w).2)

/-- `Sequential.call`: every pass on the model the previous one returned -/
def runStages : List (Decl × Stage) → Nat → World → Except Err Nat × World
  | [], m, w => (.ok m, w)
  | p :: rest, m, w =>
    match runStage p.1 p.2 m w with
    | (.ok m1, w1) => runStages rest m1 w1
    | (.error e, w1) => (.error e, w1)

/-- `Sequential.__init__`: `in_place = all(p.in_place for p in passes)`,
    `changes_input = passes[0].changes_input or passes[0].in_place` — a DERIVED DECLARATION: a
    pipeline that starts with a functional pass and goes on with in-place passes declares itself
    functional -/
def seqDecl (ps : List (Decl × Stage)) : Decl :=
  { inPlace := ps.all (·.1.inPlace),
    changesInput := match ps with
      | [] => false
      | p :: _ => p.1.changesInput || p.1.inPlace }

/-- `Sequential(*passes)(model)` (`steps = 1`) / `PassManager(passes, steps, early_stop=False)(model)`:
    `PassBase.__call__` around `call`, which runs the passes `steps` times -/
def runPipeline (ps : List (Decl × Stage)) (steps : Nat) (m : Nat) (w : World) : Except Err Nat × World :=
  callChecked (seqDecl ps) m (runStages (List.replicate steps ps).flatten m w)

/-- `functionalize(pipeline)(model)`.  `_FunctionalPassWrapper.call` is
    `return self._inner_pass(model.clone())`: the model is ALWAYS cloned, whatever the inner pass
    declares about itself; the wrapper is a `FunctionalPass` (declared not in place). -/
def functionalizeAny (fuel : Nat) (ps : List (Decl × Stage)) (steps : Nat) (m : Nat) (w : World) :
    Except Err Nat × World :=
  match run (modelClone fuel m) w with
  | (.ok m', w1) => callChecked ⟨false, false⟩ m (runPipeline ps steps m' w1)
  | (.error e, w1) => (.error e, w1)


/-! ### the third editing alphabet (round 3b): `Graph.sort` on graphs with subgraphs, slice assignment
on `graph.inputs` / `graph.outputs`, `initializers.pop / clear / update`, `Graph.extend`,
`Graph.remove(safe=True)`, `convenience.replace_all_uses_with` (several pairs),
`convenience.rename_values` (`_core.py`, `_graph_containers.py`, `_linked_list.py`,
`_convenience/__init__.py`) -/

/-- the producer of a value, as `Graph.sort` reads it (`input_value.producer()`) -/
def producerOf (w : World) : Option Nat → Option Nat
  | none => none
  | some v => match w[v]? with
    | some (.val vs) => vs.producer
    | _ => none

/-- the graphs held by the attributes of a node, in `node.attributes.values()` order (a `GRAPHS`
    attribute contributes its graphs in order; reference attributes and plain ones none) -/
def attrGraphs (w : World) : List (String × Nat) → Option (List Nat)
  | [] => some []
  | ka :: rest =>
    match w[ka.2]?, attrGraphs w rest with
    | some (.attr a), some r =>
      (match a.v with
        | .graph g => some (g :: r)
        | .graphs gs => some (gs ++ r)
        | _ => some r)
    | _, _ => none

/-- the nodes of a graph as `Sort.MNode`s; `rec` builds a nested graph -/
def treeNodes (w : World) (rec : Nat → Option Sort.MGraph) : List Nat → Option (List Sort.MNode)
  | [] => some []
  | n :: ns =>
    match w[n]? with
    | some (.node x) =>
      match (attrGraphs w x.attrs).bind (fun gs => gs.mapM rec), treeNodes w rec ns with
      | some subs, some rest => some (Sort.MNode.mk n (x.inputs.map (producerOf w)) subs :: rest)
      | _, _ => none
    | _ => none

/-- the tree `Graph.sort` walks (`RecursiveGraphIterator`), in the vocabulary of property C12's model
    (Model/Sort.lean); `none`: a pointer of the wrong kind, or nesting deeper than the fuel -/
def treeOf (w : World) : Nat → Nat → Option Sort.MGraph
  | 0, _ => none
  | f + 1, g =>
    match w[g]? with
    | some (.graph gs) => (treeNodes w (treeOf w f) gs.nodes).map fun ns => (g, ns)
    | _ => none

/-- the conditions under which the model follows `graph.extend(reversed(sorted_nodes))` for one graph
    of the nest (see `sortOrder`): a `Graph` whose nodes say they belong to it, no node listed twice,
    every node re-addable without the name authority -/
def sortGraphOk (w : World) (g : Nat) : Except Err Unit :=
  match w[g]? with
  | some (.graph gs) =>
    if gs.view then .error (.unsupported "view")
    else if !(gs.nodes.all fun n => match w[n]? with
        | some (.node ns) => ns.graph == some g
        | _ => false) then .error (.unsupported "inconsistent node.graph")
    else if !(gs.nodes.eraseDups.length == gs.nodes.length) then .error (.unsupported "duplicate node")
    else gs.nodes.foldl (fun (r : Except Err Unit) n =>
        match r with
        | .ok () => nodeAddable w g n
        | e => e) (.ok ())
  | _ => .error (.unsupported "not a graph")

/-- write the new node order of one graph -/
def setNodeOrder (p : Nat × List Nat) : M Unit := do
  let gs ← readGraph p.1
  setCell p.1 (.graph { gs with nodes := p.2 })

/-- `_maybe_unset_graph` for the removed values of a slice, in order, against the reference counter
    (`data`: what the list still holds): a value that is still listed only loses one reference -/
def unsetSeq (g : Nat) (clear : ValueS → ValueS) : List Nat → List Nat → M Unit
  | _, [] => pure ()
  | data, v :: rest => do
    (if (data.erase v).contains v then assertOwner g v else unsetOwner g clear v)
    unsetSeq g clear (data.erase v) rest

/-- `name = value.name or name`, then `name and key != name` -/
def itemNameBad (vs : ValueS) (pending : Option String) (key : String) : Bool :=
  match (if vs.name = none || vs.name = some "" then pending else vs.name) with
  | some n => n != "" && n != key
  | none => false

/-- `GraphInitializers._check_item(key, value, name)` (`name`: what the same `update` call is about to
    call the value) -/
def checkItem (g : Nat) (key : String) (v : Nat) (pending : Option String) : M Unit := do
  let vs ← readVal v
  if key = "" then raise "empty key"
  else if itemNameBad vs pending key then raise "key does not match the name of the value"
  else if vs.producer.isSome then raise "produced by a node"
  else if vs.graph.isSome && vs.graph != some g then raise "value owned by a different graph"
  else pure ()

/-- `pending_names.setdefault(id(value), key)` for a value without a name -/
def pendAdd' (pend : List (Nat × String)) (vs : ValueS) (v : Nat) (key : String) : List (Nat × String) :=
  if (vs.name = none || vs.name = some "") && (pend.lookup v).isNone then (v, key) :: pend else pend

/-- the checking pass of `GraphInitializers.update`: every entry, with the names the call is going to
    give (`pending_names`, first key wins) -/
def updChecks (g : Nat) : List (Nat × String) → List (String × Nat) → M Unit
  | _, [] => pure ()
  | pend, kv :: rest => do
    checkItem g kv.1 kv.2 (pend.lookup kv.2)
    let vs ← readVal kv.2
    updChecks g (pendAdd' pend vs kv.2 kv.1) rest

/-- `MutableMapping.clear` on the initializers: `popitem()` (first key) until empty -/
def clearInitsLoop (g : Nat) : Nat → M Unit
  | 0 => pure ()
  | f + 1 => do
    let gs ← readGraph g
    match gs.inits with
    | [] => pure ()
    | e :: _ => do
      applyEdit2 (.delInit g e.1)
      clearInitsLoop g f

/-- `_check_node_safe_to_remove` preceded by the membership test of `Graph.remove` -/
def checkRemovable (g : Nat) (toRemove outputs : List Nat) (n : Nat) : M Unit := do
  let x ← readNode n
  if x.graph != some g then raise "node does not belong to this graph"
  else forM' (fun o => do
      let os ← readVal o
      if outputs.contains o then raise "node output is an output of the graph"
      else if os.uses.any (fun u => !toRemove.contains u.1) then raise "output still used by nodes that stay"
      else pure ()) x.outputs

/-- detach, un-own and unlink one node (`Graph.remove(.., safe=True)`, second loop) -/
def removeOneSafe (g n : Nat) : M Unit := do
  let x ← readNode n
  forM' (fun i => applyEdit0 (.replaceInput n i none)) (List.range x.inputs.length)
  let x ← readNode n
  setCell n (.node { x with graph := none })
  let gs ← readGraph g
  setCell g (.graph { gs with nodes := gs.nodes.filter (· != n) })

/-- ownership as `convenience.replace_all_uses_with` simulates it: (is a graph output, owning graph) -/
def ownershipOf (sim : List (Nat × (Bool × Option Nat))) (v : Nat) : M (Bool × Option Nat) :=
  match sim.lookup v with
  | some x => pure x
  | none => do
    let vs ← readVal v
    pure (vs.isOut, vs.graph)

/-- the checking pass of `convenience.replace_all_uses_with` (after fix c936126): every pair is
    validated, simulating the ownership effect of the earlier pairs, before the first is applied -/
def rauwChecks (outs : Bool) : List (Nat × (Bool × Option Nat)) → List (Nat × Nat) → M Unit
  | _, [] => pure ()
  | sim, p :: rest => do
    let o ← ownershipOf sim p.1
    if !o.1 then rauwChecks outs sim rest
    else if !outs then raise "value is a graph output"
    else do
      let r ← ownershipOf sim p.2
      if r.2.isSome && r.2 != o.2 then raise "value owned by a different graph"
      else if p.2 != p.1 then do
        let vs ← readVal p.1
        let still := vs.isIn || vs.isInit
        rauwChecks outs ((p.1, (false, if still then o.2 else none)) :: (p.2, (true, o.2)) :: sim) rest
      else rauwChecks outs sim rest

/-- `rename_values`, step 1: one target per value (a repeated pair is dropped, a conflicting one raises) -/
def renameDedup : List (Nat × String) → List (Nat × String) → Except Err (List (Nat × String))
  | acc, [] => .ok acc.reverse
  | acc, p :: rest =>
    match acc.lookup p.1 with
    | some nm => if nm != p.2 then .error (.raised "conflicting target names") else renameDedup acc rest
    | none => renameDedup (p :: acc) rest

/-- the (value, target) pairs of the initializers, grouped by owning graph in first-seen order -/
def groupInits : List (Nat × List (Nat × String)) → List (Nat × String) → M (List (Nat × List (Nat × String)))
  | acc, [] => pure acc
  | acc, p :: rest => do
    let vs ← readVal p.1
    if !vs.isInit then groupInits acc rest
    else match vs.graph with
      | none => unsupported "initializer without a graph (assert)"
      | some g =>
        if acc.any (·.1 == g) then
          groupInits (acc.map fun e => if e.1 == g then (g, e.2 ++ [p]) else e) rest
        else groupInits (acc ++ [(g, [p])]) rest

/-- another value of the rename set already targets the name -/
def seenClash (seen : List (String × Nat)) (p : Nat × String) : Bool :=
  match seen.lookup p.2 with
  | some x => x != p.1
  | none => false

/-- the per-graph checks of `rename_values` (`seen`: targets met so far in this graph) -/
def renameGroupChecks (g : Nat) (group : List (Nat × String)) : List (String × Nat) → List (Nat × String) → M Unit
  | _, [] => pure ()
  | seen, p :: rest => do
    if p.2 = "" then raise "empty initializer name"
    else if seenClash seen p then raise "two initializers of the rename set target the same name"
    else do
      let gs ← readGraph g
      match gs.inits.lookup p.2 with
      | some ex =>
        if ex != p.1 && !(group.any (·.1 == ex)) then raise "an initializer with that name already exists"
        else renameGroupChecks g group ((p.2, p.1) :: seen) rest
      | none => renameGroupChecks g group ((p.2, p.1) :: seen) rest

/-- `tensor.name = name` for the backing tensor of a value whose name changes -/
def renameBacking (p : Nat × String) : M Unit := do
  let vs ← readVal p.1
  if vs.name != some p.2 then renameTensor vs.const (some p.2) else pure ()

/-- `graph.initializers.pop(value.name)` -/
def popByName (g : Nat) (v : Nat) : M Unit := do
  let vs ← readVal v
  match vs.name with
  | none => unsupported "initializer without a name (assert)"
  | some nm => applyEdit2 (.delInit g nm)

/-- `graph.initializers.add(value)`: `self[value.name] = value` -/
def addByName (g : Nat) (v : Nat) : M Unit := do
  let vs ← readVal v
  match vs.name with
  | none => raise "key must be a string"
  | some nm => setInitCore g nm v

/-- `graph.remove(nodes, safe=True)` -/
def removeSafeM (g : Nat) (ns : List Nat) : M Unit := do
  let gs ← readGraph g
  if gs.view then unsupported "view"
  else do
    forM' (checkRemovable g ns.eraseDups gs.outputs) ns.eraseDups
    forM' (removeOneSafe g) ns.eraseDups

/-- `replace_nodes_and_values`, first loop: the new value takes over the type OBJECT, the shape OBJECT
    and the constant tensor of the old one (when the old one has them), then its name (through the
    `Value.name` setter) -/
def copyInfo (p : Nat × Nat) : M Unit := do
  let ov ← readVal p.1
  let nv ← readVal p.2
  setCell p.2 (.val { nv with type := if ov.type.isSome then ov.type else nv.type,
                              shape := if ov.shape.isSome then ov.shape else nv.shape,
                              const := if ov.const.isSome then ov.const else nv.const })
  applyEdit0 (.setName p.2 (if ov.name.isSome then ov.name else nv.name))

/-- `convenience.replace_nodes_and_values(g, n, [n], [n'], n.outputs, n'.outputs)` for a node `n'` that
    was just built (`mkNodeFor`): info copies, `replace_all_uses_with(.., replace_graph_outputs=True)`,
    `g.insert_after(n, [n'])`, `g.remove([n], safe=True)` -/
def replaceWith (g n n' : Nat) (olds news : List Nat) : M Unit := do
  forM' copyInfo (olds.zip news)
  if olds.length != news.length then raise "the number of values and replacements must match"
  else do
    rauwChecks true [] (olds.zip news)
    forM' (fun p => applyEdit2 (.replaceAllUses p.1 p.2 true)) (olds.zip news)
    insertNode true g n n'
    removeSafeM g [n]

inductive Edit3 where
  /-- an editing call of the second alphabet -/
  | base2 (e : Edit2)
  /-- `graph.sort()` on a graph whose nodes hold subgraphs; `nest`: the graphs nested in it at any
      depth, in the order of `RecursiveGraphIterator` (they are re-linked too) -/
  | sortDeep (g : Nat) (nest : List Nat)
  /-- `graph.inputs[a:b] = vs` (`_GraphIO.__setitem__`, plain slice, `0 ≤ a ≤ b ≤ len`) -/
  | setInputsSlice (g a b : Nat) (vs : List Nat)
  /-- `graph.outputs[a:b] = vs` -/
  | setOutputsSlice (g a b : Nat) (vs : List Nat)
  /-- `graph.initializers.pop(key)` -/
  | popInit (g : Nat) (key : String)
  /-- `graph.initializers.clear()` -/
  | clearInits (g : Nat)
  /-- `graph.initializers.update([(k, v), ...])` -/
  | updateInits (g : Nat) (items : List (String × Nat))
  /-- `graph.extend([n, ...])` with existing nodes -/
  | extendNodes (g : Nat) (ns : List Nat)
  /-- `graph.remove([n, ...], safe=True)` -/
  | removeSafe (g : Nat) (ns : List Nat)
  /-- `convenience.replace_all_uses_with(values, replacements, replace_graph_outputs=outs)` -/
  | rauwMulti (pairs : List (Nat × Nat)) (outs : Bool)
  /-- `convenience.rename_values(values, names)` -/
  | renameValues (pairs : List (Nat × String))
  /-- `n' = Node("", op, inputs, name=name, num_outputs=len(outNames))`, name the outputs, then
      `convenience.replace_nodes_and_values(g, n, [n], [n'], n.outputs, n'.outputs)` -/
  | replaceNode (g n : Nat) (name op : String) (inputs : List (Option Nat)) (outNames : List String)

def Edit3.args : Edit3 → List Nat
  | .base2 e => e.args
  | .sortDeep g nest => g :: nest
  | .setInputsSlice g _ _ vs => g :: vs
  | .setOutputsSlice g _ _ vs => g :: vs
  | .popInit g _ => [g]
  | .clearInits g => [g]
  | .updateInits g items => g :: items.map (·.2)
  | .extendNodes g ns => g :: ns
  | .removeSafe g ns => g :: ns
  | .rauwMulti pairs _ => pairs.flatMap fun p => [p.1, p.2]
  | .renameValues pairs => pairs.map (·.1)
  | .replaceNode g n _ _ inputs _ => g :: n :: inputs.filterMap id

/-- `graph.inputs[a:b] = vs` / `graph.outputs[a:b] = vs` (`_GraphIO.__setitem__` with a slice): all
    checks first, then the removed values are released, the new ones taken, the list spliced.
    `check` / `clear` / `mark` / `get` / `put` say which of the two lists it is. -/
def setSliceG (check : Nat → M Unit) (clear mark : ValueS → ValueS) (get : GraphS → List Nat)
    (put : GraphS → List Nat → GraphS) (g a b : Nat) (vs : List Nat) : M Unit := do
  let gs ← readGraph g
  if gs.view then unsupported "view"
  else if !(a ≤ b && b ≤ (get gs).length) then unsupported "slice out of the modelled range"
  else do
    forM' check vs
    unsetSeq g clear (get gs) (((get gs).drop a).take (b - a))
    forM' (fun v => do
      check v
      setValueOwner g mark v) vs
    let gs2 ← readGraph g
    setCell g (.graph (put gs2 ((get gs).take a ++ vs ++ (get gs).drop b)))

/-- the checks and the re-linking of `graph.sort()` once the tree is known -/
def sortDeepWith (w : World) (g : Nat) (nest : List Nat) (t : Sort.MGraph) : M Unit :=
  if (Sort.allGraphs t).map (·.1) != g :: nest then unsupported "sort: the nest is not the expected one"
  else match Sort.sortModel t with
    | none => raise "Graph contains a cycle"
    | some orders => do
      forM' (fun gi => liftE (sortGraphOk w gi)) (g :: nest)
      forM' setNodeOrder orders

def applyEdit3 : Edit3 → M Unit
  | .base2 e => applyEdit2 e
  | .sortDeep g nest => do
    let w ← getWorld
    match treeOf w 32 g with
    | none => unsupported "sort: not a tree of graphs within the depth bound"
    | some t => sortDeepWith w g nest t
  | .setInputsSlice g a b vs =>
    setSliceG (checkInput g) (fun x => { x with isIn := false }) (fun x => { x with isIn := true })
      (fun gs => gs.inputs) (fun gs l => { gs with inputs := l }) g a b vs
  | .setOutputsSlice g a b vs =>
    setSliceG (checkOwned g) (fun x => { x with isOut := false }) (fun x => { x with isOut := true })
      (fun gs => gs.outputs) (fun gs l => { gs with outputs := l }) g a b vs
  | .popInit g key => applyEdit2 (.delInit g key)
  | .clearInits g => do
    let gs ← readGraph g
    if gs.view then unsupported "view" else clearInitsLoop g gs.inits.length
  | .updateInits g items => do
    let gs ← readGraph g
    if gs.view then unsupported "view"
    else do
      updChecks g [] items
      forM' (fun kv => setInitCore g kv.1 kv.2) items
  | .extendNodes g ns => do
    let gs ← readGraph g
    if gs.view then unsupported "view"
    else do
      let w ← getWorld
      forM' (fun n => liftE (nodeAddable w g n)) ns
      forM' (fun n => do
        let x ← readNode n
        setCell n (.node { x with graph := some g })) ns
      let gs2 ← readGraph g
      setCell g (.graph { gs2 with nodes := ns.foldl Sort.appendMove gs2.nodes })
  | .removeSafe g ns => removeSafeM g ns
  | .replaceNode g n name op inputs outNames => do
    let gs ← readGraph g
    if gs.view then unsupported "view"
    else do
      let x ← readNode n
      let props ← alloc (.dict {})
      let mstore ← alloc (.dict {})
      let n' ← alloc (.node { name := some name, opType := op, inputs := inputs, props := props,
                              mstore := mstore })
      let outs ← mkOutputs n' 0 outNames.length
      let nn ← readNode n'
      setCell n' (.node { nn with outputs := outs })
      addUses n' 0 inputs
      setOutputNames outs outNames
      replaceWith g n n' x.outputs outs
  | .rauwMulti pairs outs => do
    rauwChecks outs [] pairs
    forM' (fun p => applyEdit2 (.replaceAllUses p.1 p.2 outs)) pairs
  | .renameValues pairs => do
    let ordered ← liftE (renameDedup [] pairs)
    let groups ← groupInits [] ordered
    forM' (fun (e : Nat × List (Nat × String)) => renameGroupChecks e.1 e.2 [] e.2) groups
    forM' renameBacking ordered
    forM' (fun (e : Nat × List (Nat × String)) => forM' (fun p => popByName e.1 p.1) e.2) groups
    forM' (fun p => applyEdit0 (.setName p.1 (some p.2))) ordered
    forM' (fun (e : Nat × List (Nat × String)) => forM' (fun p => addByName e.1 p.1) e.2) groups

/-- an edit history over the third alphabet (see `runHistory`) -/
def runHistory3 : List Edit3 → World → List (Except Err Unit) × World
  | [], w => ([], w)
  | e :: es, w =>
    match run (applyEdit3 e) w with
    | (r, w1) =>
      match runHistory3 es w1 with
      | (rs, w2) => (r :: rs, w2)

/-- `functionalize` with a wrapped pass that uses the third alphabet -/
def functionalize3 (fuel : Nat) (pass : Nat → World → List Edit3) (m : Nat) (w : World) :
    Except Err Nat × World :=
  match run (modelClone fuel m) w with
  | (.ok m', w1) => (.ok m', (runHistory3 (pass m' w1) w1).2)
  | (.error e, w1) => (.error e, w1)

/-! ### round 4: the cloners' final value maps of `Function.clone` / `Model.clone`, hooks of the pass
infrastructure -/

/-- the body of `Function.clone` (`_core.py`) under its cloner: `funcClone = withFreshMap funcCloneCore`
    by definition, so the state it ends in holds the cloner's FINAL value map -/
def funcCloneCore (fuel f : Nat) : M Nat := do
  let fs ← readFunc f
  let g' ← cloneGraph false fuel fs.graph
  let attrs ← mapM' (fun ka => do
      let as ← readAttr ka.2
      cloneAttr (cloneGraph false fuel) as.name ka.2) fs.attrs
  alloc (.func { domain := fs.domain, name := fs.name, overload := fs.overload, graph := g',
                 attrs := dictOf attrs })

/-- `m` under a fresh cloner (`withFreshMap`), also returning that cloner's final value map -/
def withFreshMapVm (m : M α) : M (α × List (Nat × Nat)) := fun s =>
  match m { s with vm := [], pend := [], created := [] } with
  | (.ok a, s') => (.ok (a, s'.vm), { s' with vm := s.vm, pend := s.pend, created := s.created })
  | (.error e, s') => (.error e, { s' with vm := s.vm, pend := s.pend, created := s.created })

/-- `Model.clone` (`modelClone`) step by step, with the final value map of every cloner it makes
    (main graph first, then one per function); the driver checks on every request that clone and heap
    are those of `modelClone` -/
def modelCloneTrace (fuel : Nat) (m : Nat) : M (Nat × List (List (Nat × Nat))) := do
  let ms ← readModel m
  let g ← withFreshMapVm (cloneGraph false fuel ms.graph)
  let fs ← mapM' (fun f => withFreshMapVm (funcCloneCore fuel f)) ms.funcs
  let props ← copyProps ms.props
  let mstore ← alloc (.dict {})
  let m' ← alloc (.model { graph := g.1, funcs := fs.map (·.1), header := ms.header, dev := ms.dev,
                           props := props, mstore := mstore })
  pure (m', g.2 :: fs.map (·.2))

/-- `requires(model)` / `ensures(model)` of a pass (`PassBase`, `passes/_pass_infra.py`): user code
    that is handed the model.  Whatever it does to the model is a history of editing calls (a
    well-behaved hook performs none); then it returns or raises. -/
structure Hook where
  edits : Nat → World → List Edit2
  raises : Nat → World → Bool

/-- a pass with its hooks and the `modified` flag it reports in its `PassResult` -/
structure PassH where
  decl : Decl
  requires : Hook
  stage : Stage
  ensures : Hook
  modified : Nat → World → Bool

/-- a hook call inside `PassBase.__call__`: an exception becomes `PreconditionError` /
    `PostconditionError`; the heap keeps what the hook did -/
def runHook (why : String) (h : Hook) (m : Nat) (w : World) : Except Err Unit × World :=
  if h.raises m w then (.error (.raised why), (runHistory2 (h.edits m w) w).2)
  else (.ok (), (runHistory2 (h.edits m w) w).2)

/-- `call(model)` of one stage -/
def stageCall (st : Stage) (m : Nat) (w : World) : Except Err Nat × World :=
  match st with
  | .inPlace edits => (.ok m, (runHistory2 (edits m w) w).2)
  | .rewrap edits header => run (rewrapModel header m) (runHistory2 (edits m w) w).2

/-- `PassBase.__call__`: `requires(model)`, `call(model)`, `ensures(result.model)`, then the checks
    of the declared `in_place` against the identity of the returned model -/
def callPassH (p : PassH) (m : Nat) (w : World) : Except Err (Nat × Bool) × World :=
  match runHook "PreconditionError" p.requires m w with
  | (.error e, w1) => (.error e, w1)
  | (.ok _, w1) =>
    match stageCall p.stage m w1 with
    | (.error e, w2) => (.error e, w2)
    | (.ok m1, w2) =>
      match runHook "PostconditionError" p.ensures m1 w2 with
      | (.error e, w3) => (.error e, w3)
      | (.ok _, w3) =>
        match callChecked p.decl m (.ok m1, w3) with
        | (.ok m2, w4) => (.ok (m2, p.modified m w1), w4)
        | (.error e, w4) => (.error e, w4)

/-- `Sequential.call`: `model = pass_result.model; modified = modified or pass_result.modified` -/
def runStagesH : List PassH → Nat → Bool → World → Except Err (Nat × Bool) × World
  | [], m, md, w => (.ok (m, md), w)
  | p :: rest, m, md, w =>
    match callPassH p m w with
    | (.ok r, w1) => runStagesH rest r.1 (md || r.2) w1
    | (.error e, w1) => (.error e, w1)

/-- `PassManager.call`: up to `steps` rounds; `if not modified and self.early_stop: break` -/
def runRoundsH (ps : List PassH) (earlyStop : Bool) : Nat → Nat → Bool → World → Except Err (Nat × Bool) × World
  | 0, m, md, w => (.ok (m, md), w)
  | k + 1, m, md, w =>
    match runStagesH ps m false w with
    | (.ok r, w1) =>
      if !r.2 && earlyStop then (.ok (r.1, md || r.2), w1)
      else runRoundsH ps earlyStop k r.1 (md || r.2) w1
    | (.error e, w1) => (.error e, w1)

def seqDeclH (ps : List PassH) : Decl :=
  { inPlace := ps.all (·.decl.inPlace),
    changesInput := match ps with
      | [] => false
      | p :: _ => p.decl.changesInput || p.decl.inPlace }

/-- `functionalize(P)(model)` for `P = Sequential(*passes)` (`steps = 1`) or
    `PassManager(passes, steps, early_stop)`, every pass and the pipeline object itself with
    `requires` / `ensures` hooks.  `_FunctionalPassWrapper` (a private class: its own hooks are the
    no-op defaults) clones the model and calls `P` on the clone: `P.requires(clone)`, the rounds,
    `P.ensures(result.model)`, the identity checks of `P` and of the wrapper. -/
def functionalizeHooks (fuel : Nat) (ps : List PassH) (outerReq outerEns : Hook) (steps : Nat)
    (earlyStop : Bool) (m : Nat) (w : World) : Except Err Nat × World :=
  match run (modelClone fuel m) w with
  | (.error e, w1) => (.error e, w1)
  | (.ok m', w1) =>
    match runHook "PreconditionError" outerReq m' w1 with
    | (.error e, w2) => (.error e, w2)
    | (.ok _, w2) =>
      match runRoundsH ps earlyStop steps m' false w2 with
      | (.error e, w3) => (.error e, w3)
      | (.ok r, w3) =>
        match runHook "PostconditionError" outerEns r.1 w3 with
        | (.error e, w4) => (.error e, w4)
        | (.ok _, w4) => callChecked ⟨false, false⟩ m (callChecked (seqDeclH ps) m' (.ok r.1, w4))

/-- every pointer field of a cell that the cloner / the scope walker follows -/
def Cell.ptrs : Cell → List Nat
  | .val v => v.type.toList ++ v.shape.toList ++ [v.props, v.mstore]
  | .node n => n.inputs.filterMap id ++ n.outputs ++ n.attrs.map (·.2) ++ [n.props, n.mstore]
  | .graph g => g.inputs ++ g.outputs ++ g.inits.map (·.2) ++ g.nodes ++ [g.props, g.mstore]
  | .attr a => match a.v with
    | .graph g => [g]
    | .graphs gs => gs
    | _ => []
  | .func f => f.graph :: f.attrs.map (·.2)
  | .model m => m.graph :: m.funcs ++ [m.props, m.mstore]
  | _ => []

/-- no pointer field of any cell dangles (true of every heap abstracted from live Python objects;
    stronger than `wellFormed2` on the fields `followed` / `followed2` do not list: node lists,
    attribute objects and the graphs they hold, function and model fields) -/
def closedW (w : World) : Bool := w.all fun c => c.ptrs.all (· < w.length)

end IrVerif.Clone

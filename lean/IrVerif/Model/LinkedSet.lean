/-
Pointer-faithful model of `src/onnx_ir/_linked_list.py` (`_LinkBox`, `DoublyLinkedSet`) and of the
suspended generators returned by `__iter__` / `__reversed__`, plus the abstract "list with gaps"
machine (`Spec`) that the concrete structure is proved to refine (Props/C11.lean).

Objects are identified by creation order: a value (an `onnx_ir.Node`) is a `Nat`, a `_LinkBox` is
its index in `boxes` (box 0 is `self._root`).  Only core Lean is imported (linked into `irdriver`).

Ghost state (not present in the Python, never read by any operation): `Box.stamp` / `LSet.clock`
record *when* a box was erased; they exist only so that the tombstone invariant can be stated.
-/
namespace IrVerif.LinkedSet

/-- `_LinkBox` (_linked_list.py:13-64): `prev`, `next`, `value` (`none` = erased, or the root),
    `owning_list` (`own` = "is this list").  `stamp` is ghost.
    `own` is set to `true` by the only constructor call (`pushBox`) and never written again, exactly
    as in the Python, where every box reachable from a list was created by that list: the check of
    line 118 (`Res.raised` below) is defensive code that no sequence of public calls can reach —
    that is what `C11_terminates` proves for the model. -/
structure Box where
  prev : Nat
  next : Nat
  value : Option Nat
  own : Bool
  stamp : Nat
deriving Repr, DecidableEq

/-- what a dangling box reference reads as (never happens in a well-formed state) -/
def Box.dflt : Box := ⟨0, 0, none, true, 0⟩

/-- `DoublyLinkedSet` (_linked_list.py:94-104): `_root` is box 0, `_value_ids_to_boxes` is `index`
    (insertion-ordered association list `id(value) -> box`), `_length`.  `clock` is ghost. -/
structure LSet where
  boxes : Array Box
  index : List (Nat × Nat)
  length : Nat
  clock : Nat
deriving Repr

/-- `DoublyLinkedSet()` (lines 96-102): root box linked to itself, empty dict, length 0. -/
def empty : LSet := ⟨#[⟨0, 0, none, true, 0⟩], [], 0, 1⟩

def size (s : LSet) : Nat := s.boxes.size
def box (s : LSet) (b : Nat) : Box := s.boxes.getD b Box.dflt
def nx (s : LSet) (b : Nat) : Nat := (box s b).next
def pv (s : LSet) (b : Nat) : Nat := (box s b).prev
def val (s : LSet) (b : Nat) : Option Nat := (box s b).value
def own (s : LSet) (b : Nat) : Bool := (box s b).own
def stp (s : LSet) (b : Nat) : Nat := (box s b).stamp

def setBox (s : LSet) (b : Nat) (x : Box) : LSet := { s with boxes := s.boxes.setIfInBounds b x }
/-- `box.next = n` -/
def setNext (s : LSet) (b n : Nat) : LSet := setBox s b { box s b with next := n }
/-- `box.prev = p` -/
def setPrev (s : LSet) (b p : Nat) : LSet := setBox s b { box s b with prev := p }
/-- `box.value = None` together with the ghost erase stamp -/
def setErased (s : LSet) (b : Nat) : LSet :=
  { setBox s b { box s b with value := none, stamp := s.clock } with clock := s.clock + 1 }
/-- `_LinkBox(self, v)` (lines 36-48): `prev = next = self` -/
def pushBox (s : LSet) (v : Nat) : LSet :=
  { s with boxes := s.boxes.push ⟨s.boxes.size, s.boxes.size, some v, true, 0⟩ }

/-- `id(value) in self._value_ids_to_boxes` / `self._value_ids_to_boxes[id(value)]` -/
def lookup (s : LSet) (v : Nat) : Option Nat := s.index.lookup v
/-- `del d[k]` -/
def dictDel (ix : List (Nat × Nat)) (v : Nat) : List (Nat × Nat) := ix.filter (fun e => e.1 != v)
/-- `d[k] = b` (an existing key keeps its position) -/
def dictSet (ix : List (Nat × Nat)) (v b : Nat) : List (Nat × Nat) :=
  if (ix.lookup v).isSome then ix.map (fun e => if e.1 == v then (v, b) else e) else ix ++ [(v, b)]

/-- `_LinkBox.erase` (lines 54-62).  `none` = `ValueError("already erased")`, raised before any
    write.  `prev.next, next_.prev = next_, prev` are two sequential stores; the erased box keeps
    its own `prev`/`next`. -/
def eraseBox (s : LSet) (b : Nat) : Option LSet :=
  if (val s b).isNone then none
  else
    let p := pv s b
    let n := nx s b
    let s := setNext s p n
    let s := setPrev s n p
    some (setErased s b)

/-- `DoublyLinkedSet.remove` (lines 228-238).  Result: state and `true` = returned normally,
    `false` = raised (`ValueError`), in which case nothing was written. -/
def remove (s : LSet) (v : Nat) : LSet × Bool :=
  match lookup s v with
  | none => (s, false)
  | some b =>
    match eraseBox s b with
    | none => (s, false)
    | some s' => ({ s' with length := s'.length - 1, index := dictDel s'.index v }, true)

/-- lines 201-216 of `_insert_one_after`: create the box for `v` and link it in after `b`
    (`original_next = box.next; box.next = new_box; new_box.prev = box; new_box.next =
    original_next; original_next.prev = new_box`), then `_length += 1` and the dict entry. -/
def linkNew (s : LSet) (b v : Nat) : LSet × Nat :=
  let m := size s
  let s := pushBox s v
  let on := nx s b
  let s := setNext s b m
  let s := setPrev s m b
  let s := setNext s m on
  let s := setPrev s on m
  ({ s with length := s.length + 1, index := dictSet s.index v m }, m)

/-- `_insert_one_after(box, new_value)` (lines 169-216).  Result: state and `some box` = the box
    returned (`none` = raised; all raise points precede the first write of this call).
    Order as in the Python: same-value no-op, owner check, remove-if-present, then `linkNew`. -/
def insertOneAfter (s : LSet) (b v : Nat) : LSet × Option Nat :=
  if val s b = some v then (s, some b)
  else if !(own s b) then (s, none)
  else
    let r := if (lookup s v).isSome then remove s v else (s, true)
    if !r.2 then (r.1, none)
    else
      let r2 := linkNew r.1 b v
      (r2.1, some r2.2)

/-- `_insert_many_after` (lines 218-226): the insertion point advances to the returned box.
    `false` = one of the calls raised (the earlier ones stay applied). -/
def insertManyAfter (s : LSet) (b : Nat) : List Nat → LSet × Bool
  | [] => (s, true)
  | v :: vs =>
    match insertOneAfter s b v with
    | (s', none) => (s', false)
    | (s', some b') => insertManyAfter s' b' vs

/-- `append` (lines 240-242): `_insert_one_after(self._root.prev, value)` -/
def append (s : LSet) (v : Nat) : LSet × Bool :=
  let r := insertOneAfter s (pv s 0) v
  (r.1, r.2.isSome)

/-- `extend` (lines 244-249) -/
def extend (s : LSet) : List Nat → LSet × Bool
  | [] => (s, true)
  | v :: vs =>
    match append s v with
    | (s', false) => (s', false)
    | (s', true) => extend s' vs

/-- `insert_after` (lines 251-265) -/
def insertAfter (s : LSet) (a : Nat) (vs : List Nat) : LSet × Bool :=
  match lookup s a with
  | none => (s, false)
  | some b => insertManyAfter s b vs

/-- `insert_before` (lines 267-281): the insertion point is `box.prev` -/
def insertBefore (s : LSet) (a : Nat) (vs : List Nat) : LSet × Bool :=
  match lookup s a with
  | none => (s, false)
  | some b => insertManyAfter s (pv s b) vs

/-! ### Iterators: suspended generators as explicit cursors -/

inductive Dir | fwd | rev
deriving Repr, DecidableEq

/-- Where a generator created by `__iter__` / `__reversed__` is suspended: before its first
    statement, at the `yield` for box `b`, or finished. -/
inductive Cursor
  | notStarted
  | at (b : Nat)
  | done
deriving Repr, DecidableEq

/-- outcome of one `next()` call; `fuel` = the model's step bound was hit (proved impossible) -/
inductive Res
  | yield (v : Nat)
  | stop
  | raised
  | fuel
deriving Repr, DecidableEq

/-- `box.next` resp. `box.prev`, read when the generator resumes -/
def hop (s : LSet) : Dir → Nat → Nat
  | .fwd, b => nx s b
  | .rev, b => pv s b

/-- The `while box is not self._root` loop (lines 117-123 / 128-132) from `box` on, until the next
    `yield`, the end of the loop, or the `RuntimeError` of line 119 (forward only). -/
def scan (s : LSet) (d : Dir) : Nat → Nat → Cursor × Res
  | 0, _ => (.done, .fuel)
  | f + 1, b =>
    if b = 0 then (.done, .stop)
    else if d = .fwd && !(own s b) then (.done, .raised)
    else match val s b with
      | some v => (.at b, .yield v)
      | none => scan s d f (hop s d b)

/-- the box a cursor is parked on (`notStarted`: the first statement reads `self._root.next`) -/
def Cursor.pos : Cursor → Nat
  | .at b => b
  | _ => 0

/-- one `next()` on the generator -/
def iterNext (s : LSet) (d : Dir) (c : Cursor) : Cursor × Res :=
  match c with
  | .done => (.done, .stop)
  | c => scan s d (size s + 1) (hop s d c.pos)

/-- run a generator to exhaustion (`list(it)`): the values yielded and how it ended (`stop` =
    StopIteration; `fuel` also when more than the given number of values were yielded) -/
def drain (s : LSet) (d : Dir) : Nat → Cursor → List Nat × Res
  | 0, _ => ([], .fuel)
  | f + 1, c =>
    match iterNext s d c with
    | (c', .yield v) => let r := drain s d f c'; (v :: r.1, r.2)
    | (_, r) => ([], r)

/-- what a cursor would still yield if no edit happened any more -/
def rest (s : LSet) (d : Dir) (c : Cursor) : List Nat := (drain s d (size s + 1) c).1

/-- `list(self)` -/
def toList (s : LSet) : List Nat := rest s .fwd .notStarted
/-- `list(reversed(self))` -/
def toListRev (s : LSet) : List Nat := rest s .rev .notStarted

/-- `__len__` (lines 134-138); `none` = the `assert` fired -/
def len (s : LSet) : Option Nat := if s.length = s.index.length then some s.length else none

/-- `item = next(it)` repeated `n + 1` times on a fresh generator; `none` = `StopIteration`
    (or any other failure) escaped -/
def iterNth (s : LSet) (d : Dir) : Nat → Cursor → Option Nat
  | 0, c =>
    match iterNext s d c with
    | (_, .yield v) => some v
    | _ => none
  | n + 1, c =>
    match iterNext s d c with
    | (c', .yield _) => iterNth s d n c'
    | _ => none

/-- `__getitem__(int)` (lines 145-167); `none` = raised (`IndexError`, ...) -/
def getItem (s : LSet) (i : Int) : Option Nat :=
  if i ≥ (s.length : Int) ∨ i < -(s.length : Int) then none
  else if i < 0 then iterNth s .rev (-i - 1).toNat .notStarted
  else iterNth s .fwd i.toNat .notStarted

/-- `value in self` (`Sequence.__contains__`: linear search over `iter(self)`, identity compare) -/
def contains (s : LSet) (v : Nat) : Bool := (toList s).contains v

/-- the public editing alphabet -/
inductive Op
  | append (v : Nat)
  | extend (vs : List Nat)
  | insertAfter (a : Nat) (vs : List Nat)
  | insertBefore (a : Nat) (vs : List Nat)
  | remove (v : Nat)
deriving Repr

/-- state after the call and whether it returned normally -/
def apply (s : LSet) : Op → LSet × Bool
  | .append v => append s v
  | .extend vs => extend s vs
  | .insertAfter a vs => insertAfter s a vs
  | .insertBefore a vs => insertBefore s a vs
  | .remove v => remove s v

/-- the values an operation inserts, moves or removes (anchors are not touched) -/
def touched : Op → List Nat
  | .append v => [v]
  | .extend vs => vs
  | .insertAfter _ vs => vs
  | .insertBefore _ vs => vs
  | .remove v => [v]

/-- one event of a history as seen by one generator: an edit of the container, or a `next()` on
    this generator (`next()` on other generators does not change the container) -/
inductive Ev
  | op (o : Op)
  | next
deriving Repr

/-- run a history with one tracked generator: final state, final cursor, values it yielded -/
def runHist (d : Dir) : LSet → Cursor → List Ev → LSet × Cursor × List Nat
  | s, c, [] => (s, c, [])
  | s, c, .op o :: es => runHist d (apply s o).1 c es
  | s, c, .next :: es =>
    match iterNext s d c with
    | (c', .yield v) => let r := runHist d s c' es; (r.1, r.2.1, v :: r.2.2)
    | (c', _) => runHist d s c' es

/-- every value touched by some edit of the history that returned normally (an edit that raises
    writes nothing and touches nothing) -/
def touchedRun (d : Dir) : LSet → Cursor → List Ev → List Nat
  | _, _, [] => []
  | s, c, .op o :: es => (if (apply s o).2 then touched o else []) ++ touchedRun d (apply s o).1 c es
  | s, c, .next :: es => touchedRun d s (iterNext s d c).1 es

/-- `l` restricted to the elements not in `T` -/
def untouched (T : List Nat) (l : List Nat) : List Nat := l.filter (fun y => decide (y ∉ T))

/-! ### Ghost functions used by the abstraction (executable so that the refinement statement can
be tested through the driver before and after it is proved) -/

/-- the box the scan loop would stop at, started at `b` (0 = the root) -/
def target (s : LSet) (d : Dir) : Nat → Nat → Nat
  | 0, _ => 0
  | f + 1, b => if b = 0 then 0 else if (val s b).isSome then b else target s d f (hop s d b)

/-- live boxes in list order (boxes visited by a fresh forward generator) -/
def liveFrom (s : LSet) : Nat → Nat → List Nat
  | 0, _ => []
  | f + 1, b => if b = 0 then [] else
      if (val s b).isSome then b :: liveFrom s f (nx s b) else liveFrom s f (nx s b)
def liveBoxes (s : LSet) : List Nat := liveFrom s (size s + 1) (nx s 0)

/-! ### Abstract machine: a list with gaps -/
namespace Spec

/-- Abstract cursor over a list `L`.  Forward: `att k` / `gap k` still yield `L.drop k`; reverse:
    they still yield `(L.take k).reverse`.  `att` = parked on an element (or not started), `gap` =
    parked where a removed element used to be.  They differ only in how an insertion exactly at
    `k` is seen. -/
inductive ACur
  | att (k : Nat)
  | gap (k : Nat)
  | done
deriving Repr, DecidableEq

def start (L : List Nat) : Dir → ACur
  | .fwd => .att 0
  | .rev => .att L.length

def rest (L : List Nat) : Dir → ACur → List Nat
  | _, .done => []
  | .fwd, .att k => L.drop k
  | .fwd, .gap k => L.drop k
  | .rev, .att k => (L.take k).reverse
  | .rev, .gap k => (L.take k).reverse

/-- `next()`: the new cursor and what is yielded (`none` = StopIteration) -/
def next (L : List Nat) : Dir → ACur → ACur × Option Nat
  | _, .done => (.done, none)
  | .fwd, .att k | .fwd, .gap k =>
      match L[k]? with
      | some v => (.att (k + 1), some v)
      | none => (.done, none)
  | .rev, .att k | .rev, .gap k =>
      if k = 0 then (.done, none) else
      match L[k - 1]? with
      | some v => (.att (k - 1), some v)
      | none => (.done, none)

/-- the element at index `i` is removed -/
def curRemove : Dir → Nat → ACur → ACur
  | _, _, .done => .done
  | .fwd, i, .att k => if i + 1 = k then .gap i else if i < k then .att (k - 1) else .att k
  | .rev, i, .att k => if i = k then .gap k else if i < k then .att (k - 1) else .att k
  | _, i, .gap k => if i < k then .gap (k - 1) else .gap k

/-- a new element is inserted and gets index `p` -/
def curInsert : Dir → Nat → ACur → ACur
  | _, _, .done => .done
  | .fwd, p, .att k => if p < k then .att (k + 1) else .att k
  | .fwd, p, .gap k => if p ≤ k then .gap (k + 1) else .gap k
  | .rev, p, .att k => if p ≤ k then .att (k + 1) else .att k
  | .rev, p, .gap k => if p < k then .gap (k + 1) else .gap k

/-- abstract state: the sequence and one cursor (every cursor is transformed independently) -/
structure St where
  L : List Nat
  d : Dir
  c : ACur
deriving Repr

def removeIdx (st : St) (i : Nat) : St := { st with L := st.L.eraseIdx i, c := curRemove st.d i st.c }
def insertIdx (st : St) (p x : Nat) : St := { st with L := st.L.insertIdx p x, c := curInsert st.d p st.c }

def remove (st : St) (x : Nat) : St × Bool :=
  if x ∈ st.L then (removeIdx st (st.L.idxOf x), true) else (st, false)

/-- anchor `none` = the front of the list (the root box) -/
def insertOneAfter (st : St) (anchor : Option Nat) (x : Nat) : St × Option Nat :=
  if anchor = some x then (st, anchor)
  else
    let st1 := if x ∈ st.L then removeIdx st (st.L.idxOf x) else st
    let p := match anchor with
      | none => 0
      | some a => st1.L.idxOf a + 1
    (insertIdx st1 p x, some x)

def insertManyAfter (st : St) (anchor : Option Nat) : List Nat → St
  | [] => st
  | x :: xs => let r := insertOneAfter st anchor x; insertManyAfter r.1 r.2 xs

def append (st : St) (x : Nat) : St := (insertOneAfter st st.L.getLast? x).1

def extend (st : St) : List Nat → St
  | [] => st
  | x :: xs => extend (append st x) xs

def insertAfter (st : St) (a : Nat) (xs : List Nat) : St × Bool :=
  if a ∈ st.L then (insertManyAfter st (some a) xs, true) else (st, false)

/-- element before `a` in `L` (`none` when `a` is first) -/
def predOf (L : List Nat) (a : Nat) : Option Nat :=
  let i := L.idxOf a
  if i = 0 then none else L[i - 1]?

def insertBefore (st : St) (a : Nat) (xs : List Nat) : St × Bool :=
  if a ∈ st.L then (insertManyAfter st (predOf st.L a) xs, true) else (st, false)

def step (st : St) : St × Option Nat :=
  let r := next st.L st.d st.c
  ({ st with c := r.1 }, r.2)

/-- the abstract counterpart of `LinkedSet.apply` (`false` = the call raises and nothing changes) -/
def apply (st : St) : Op → St × Bool
  | .append v => (append st v, true)
  | .extend vs => (extend st vs, true)
  | .insertAfter a vs => insertAfter st a vs
  | .insertBefore a vs => insertBefore st a vs
  | .remove v => remove st v

end Spec

/-- abstraction of a concrete cursor (ghost): index arithmetic over `liveBoxes` -/
def absCur (s : LSet) (d : Dir) (c : Cursor) : Spec.ACur :=
  let bs := liveBoxes s
  match c with
  | .done => .done
  | c =>
    let b := c.pos
    match d with
    | .fwd =>
      if b = 0 then .att 0
      else if (val s b).isSome then .att (bs.idxOf b + 1)
      else .gap (bs.idxOf (target s .fwd (size s + 1) (nx s b)))
    | .rev =>
      if b = 0 then .att bs.length
      else if (val s b).isSome then .att (bs.idxOf b)
      else
        let t := target s .rev (size s + 1) (pv s b)
        .gap (if t = 0 then 0 else bs.idxOf t + 1)

/-! ### slices: `DoublyLinkedSet.__getitem__(slice)` is `tuple(self)[index]` (_linked_list.py:151-152)

The tuple is built by a complete forward iteration of the pointer structure; the slice is CPython's
tuple slicing (`PySlice_Unpack`, `PySlice_AdjustIndices`, then `src[start + i * step]`). -/

/-- `PySlice_AdjustIndices` for one bound -/
def sliceClip (n : Nat) (k x : Int) : Int :=
  if x < 0 then (if x + n < 0 then (if k < 0 then -1 else 0) else x + n)
  else if x ≥ n then (if k < 0 then (n : Int) - 1 else n) else x

def sliceStart (n : Nat) (k : Int) : Option Int → Int
  | none => if k < 0 then (n : Int) - 1 else 0
  | some x => sliceClip n k x

def sliceStop (n : Nat) (k : Int) : Option Int → Int
  | none => if k < 0 then -1 else (n : Int)
  | some x => sliceClip n k x

/-- the slice length computed by `PySlice_AdjustIndices` -/
def sliceCount (a b k : Int) : Nat :=
  if k < 0 then (if b < a then ((a - b - 1) / (-k) + 1).toNat else 0)
  else (if a < b then ((b - a - 1) / k + 1).toNat else 0)

/-- `slice(start, stop, step).indices(n)` with the count of selected positions:
    `none` = `ValueError("slice step cannot be zero")` -/
def sliceIndices (n : Nat) (start stop step : Option Int) : Option (Int × Int × Nat) :=
  let k := step.getD 1
  if k = 0 then none else
  some (sliceStart n k start, k, sliceCount (sliceStart n k start) (sliceStop n k stop) k)

/-- tuple slicing of a list -/
def pySlice (L : List Nat) (start stop step : Option Int) : Option (List Nat) :=
  match sliceIndices L.length start stop step with
  | none => none
  | some (a, k, cnt) => some ((List.range cnt).filterMap fun (i : Nat) => L[(a + (i : Int) * k).toNat]?)

/-- `self[start:stop:step]`: `tuple(self)` is a fresh forward generator run to exhaustion -/
def getSlice (s : LSet) (start stop step : Option Int) : Option (List Nat) :=
  pySlice (rest s .fwd .notStarted) start stop step

/-! ### Executable form of the invariants (tested through the driver; proved in Props/C11) -/

def allBelow (s : LSet) : Bool :=
  (List.range (size s)).all fun b => nx s b < size s && pv s b < size s && own s b && stp s b < s.clock

def linksOk (s : LSet) : Bool :=
  let cyc := 0 :: liveBoxes s
  cyc.all fun b => pv s (nx s b) = b && nx s (pv s b) = b

def tombOk (s : LSet) : Bool :=
  (List.range (size s)).all fun b =>
    b = 0 || (val s b).isSome ||
      ((let n := nx s b; n = 0 || (val s n).isSome || stp s b < stp s n) &&
       (let p := pv s b; p = 0 || (val s p).isSome || stp s b < stp s p))

def indexOk (s : LSet) : Bool :=
  let bs := liveBoxes s
  s.length = bs.length && s.index.length = bs.length && s.clock + s.length = size s &&
  bs.all (fun b => match val s b with
    | some v => s.index.lookup v = some b
    | none => false) &&
  (List.range (size s)).all (fun b => b = 0 || bs.contains b || (val s b).isNone) &&
  (val s 0).isNone

def invOk (s : LSet) : Bool := allBelow s && linksOk s && tombOk s && indexOk s

/-! ### `traversal.RecursiveGraphIterator` (traversal.py:63-118): a stack of list cursors

The nested generators (`_recursive_node_iter` of a graph, `_iterate_subgraphs` of a node, the
`RecursiveGraphIterator` of a subgraph, ...) are modelled as an explicit stack of frames, one per
graph currently being iterated.  A world is a family of node containers (graph id = position in
`sets`) plus, per node, its graph-valued attributes in dict order; attributes are read when the
generator resumes after yielding the node.  Callbacks (`enter_graph`, `exit_graph`, the
`recursive` predicate) appear as events in the output stream, in call order. -/

/-- a graph-valued attribute of a node: `GRAPH` or `GRAPHS` -/
inductive Attr
  | graph (g : Nat)
  | graphs (gs : List Nat)
deriving Repr

structure RWorld where
  sets : List LSet
  attrs : List (Nat × List Attr)
  /-- `recursive=None` (`none`) or a predicate, given by the nodes on which it returns False -/
  recf : Option (List Nat)
deriving Repr

def RWorld.setOf (w : RWorld) (g : Nat) : LSet := w.sets.getD g empty
def RWorld.attrsOf (w : RWorld) (v : Nat) : List Attr := (w.attrs.lookup v).getD []

/-- the subgraphs `_iterate_subgraphs(node)` enters, in order (lines 81-109: attributes in dict
    order; a `GRAPHS` list reversed when iterating in reverse) -/
def RWorld.visit (w : RWorld) (d : Dir) (v : Nat) : List Nat :=
  (w.attrsOf v).flatMap fun a =>
    match a with
    | .graph h => [h]
    | .graphs hs => if d = .rev then hs.reverse else hs

/-- line 73: `self._recursive is None or self._recursive(node)` -/
def RWorld.recurse (w : RWorld) (v : Nat) : Bool :=
  match w.recf with
  | none => true
  | some l => !l.contains v

/-- what the iterator does that is visible outside: yields and callback calls -/
inductive Out
  | yield (g v : Nat)
  | enter (g : Nat)
  | exit (g : Nat)
  | pred (v : Nat)
deriving Repr, DecidableEq

/-- `_recursive_node_iter(g)` suspended in its `for node in iterable` loop (`c` = the container
    generator; `notStarted` = the body has not run yet), possibly delegating to
    `_iterate_subgraphs(last node)`: `last` = node just yielded whose attributes have not been
    read yet, `pending` = subgraphs still to enter. -/
structure RFrame where
  g : Nat
  c : Cursor
  last : Option Nat
  pending : List Nat
deriving Repr, DecidableEq

def RFrame.fresh (g : Nat) : RFrame := ⟨g, .notStarted, none, []⟩

/-- `RecursiveGraphIterator(g)` before its first `next()` -/
def recStart (g : Nat) : List RFrame := [RFrame.fresh g]

/-- One step of the generator stack.  `some r` = the pending `next()` call returns with `r`
    (a yield, StopIteration, or an error of the container generator); `none` = keep running. -/
def recStep (w : RWorld) (d : Dir) : List RFrame → List RFrame × List Out × Option Res
  | [] => ([], [], some .stop)
  | fr :: rest =>
    match fr.last with
    | some v =>
      -- resumed after `yield node` (lines 73-75): predicate, then the attributes are read
      let evs := if w.recf.isSome then [Out.pred v] else []
      ({ fr with last := none, pending := if w.recurse v then w.visit d v else [] } :: rest, evs, none)
    | none =>
      match fr.pending with
      | h :: ps =>
        -- `_iterate_subgraphs`: enter callback (lines 85/99), then `yield from RecursiveGraphIterator(h)`
        (RFrame.fresh h :: { fr with pending := ps } :: rest, [Out.enter h], none)
      | [] =>
        -- the `for node in iterable` loop (line 71); the first resume calls enter_graph (line 68)
        let evs := if fr.c = .notStarted then [Out.enter fr.g] else []
        match iterNext (w.setOf fr.g) d fr.c with
        | (c', .yield v) => ({ fr with c := c', last := some v } :: rest, evs ++ [Out.yield fr.g v], some (.yield v))
        | (_, .stop) =>
          -- loop over: exit_graph (line 78); back in the parent's `_iterate_subgraphs`: exit (95/109)
          (rest, evs ++ [Out.exit fr.g] ++ (if rest.isEmpty then [] else [Out.exit fr.g]), none)
        | (c', r) => ({ fr with c := c' } :: rest, evs, some r)

/-- one `next()` on the recursive iterator: run until it returns -/
def recNext (w : RWorld) (d : Dir) : Nat → List RFrame → List RFrame × List Out × Res
  | 0, st => (st, [], .fuel)
  | f + 1, st =>
    match recStep w d st with
    | (st', o, some r) => (st', o, r)
    | (st', o, none) => let r := recNext w d f st'; (r.1, o ++ r.2.1, r.2.2)

/-- run the recursive iterator to exhaustion: everything it yields and calls, and how it ends -/
def recDrain (w : RWorld) (d : Dir) : Nat → List RFrame → List Out × Res
  | 0, _ => ([], .fuel)
  | f + 1, st =>
    match recStep w d st with
    | (st', o, none) => let r := recDrain w d f st'; (o ++ r.1, r.2)
    | (st', o, some (.yield _)) => let r := recDrain w d f st'; (o ++ r.1, r.2)
    | (_, o, some r) => (o, r)

/-- edit the node container of graph `g` -/
def RWorld.applyAt (w : RWorld) (g : Nat) (op : Op) : RWorld × Bool :=
  let r := apply (w.setOf g) op
  ({ w with sets := w.sets.set g r.1 }, r.2)

/-! #### the pre-order specification -/

/-- nodes of graph `g` in the order a fresh generator yields them -/
def RWorld.nodesOf (w : RWorld) (d : Dir) (g : Nat) : List Nat := rest (w.setOf g) d .notStarted

/-- after `yield node`: predicate call, then the node's subgraphs (each visited by `V`) -/
def specAfter (V : Nat → List Out) (w : RWorld) (d : Dir) (v : Nat) : List Out :=
  (if w.recf.isSome then [Out.pred v] else []) ++ (if w.recurse v then (w.visit d v).flatMap V else [])

/-- the rest of `_recursive_node_iter(g)`'s loop over `nodes`, then its `exit_graph(g)` -/
def specLoop (V : Nat → List Out) (w : RWorld) (d : Dir) (g : Nat) (nodes : List Nat) : List Out :=
  nodes.flatMap (fun v => Out.yield g v :: specAfter V w d v) ++ [Out.exit g]

/-- everything one visit of subgraph `h` from `_iterate_subgraphs` produces, for nesting depth
    `< k`: enter (caller), enter (callee), the nodes in order each followed by its subgraphs,
    exit (callee), exit (caller) -/
def specVisit (w : RWorld) (d : Dir) : Nat → Nat → List Out
  | 0, _ => []
  | k + 1, h => [Out.enter h, Out.enter h] ++ specLoop (specVisit w d k) w d h (w.nodesOf d h) ++ [Out.exit h]

/-- the whole run of `RecursiveGraphIterator(g)` -/
def specTop (w : RWorld) (d : Dir) (k : Nat) (g : Nat) : List Out :=
  Out.enter g :: specLoop (specVisit w d k) w d g (w.nodesOf d g)

/-! #### decidable shape of the nesting (what `Ranked` / `StaticRanked` of Props/C11 are derived from)

The nesting relation "graph `g` has a node from which subgraph `h` is entered" is given by a
function `kids : graph -> list of subgraphs`.  `hgtG kids k g` is the length of the longest
nesting chain below `g`, capped at `k`.  When one more unit of fuel does not change it for any
graph that has subgraphs at all, no graph is nested in itself and the height is a rank. -/

def hgtG (kids : Nat → List Nat) : Nat → Nat → Nat
  | 0, _ => 0
  | k + 1, g => (kids g).foldr (fun h m => max (hgtG kids k h + 1) m) 0

/-- no graph among `gs` reaches itself: one more unit of fuel does not change any height -/
def stableG (kids : Nat → List Nat) (n : Nat) (gs : List Nat) : Bool :=
  gs.all fun g => hgtG kids n g == hgtG kids (n + 1) g

/-- the subgraphs entered from the nodes `vs` (those on which the `recursive` predicate holds) -/
def RWorld.kidsOf (w : RWorld) (d : Dir) (vs : List Nat) : List Nat :=
  (vs.filter w.recurse).flatMap (w.visit d)

/-- current nesting: the subgraphs entered from the present members of graph `g` -/
def RWorld.kids (w : RWorld) (d : Dir) (g : Nat) : List Nat := w.kidsOf d (toList (w.setOf g))

def RWorld.hgt (w : RWorld) (d : Dir) (g : Nat) : Nat := hgtG (w.kids d) w.sets.length g

/-- **no graph is nested in itself** (through the present members of the graphs) -/
def RWorld.acyclic (w : RWorld) (d : Dir) : Bool :=
  stableG (w.kids d) w.sets.length (List.range w.sets.length)

/-- static nesting: the subgraphs hanging under the nodes whose home graph is `g`, whether or not
    they are currently members of it (edits of node sequences do not change it) -/
def RWorld.skids (w : RWorld) (d : Dir) (home : Nat → Nat) (g : Nat) : List Nat :=
  w.kidsOf d ((w.attrs.map (·.1)).filter (fun v => home v == g))

def RWorld.shgt (w : RWorld) (d : Dir) (home : Nat → Nat) (g : Nat) : Nat :=
  hgtG (w.skids d home) w.attrs.length g

def RWorld.acyclicStatic (w : RWorld) (d : Dir) (home : Nat → Nat) : Bool :=
  stableG (w.skids d home) w.attrs.length (w.attrs.map (fun p => home p.1))

/-- every node is a member of its home graph only -/
def RWorld.homedOk (w : RWorld) (home : Nat → Nat) : Bool :=
  (List.range w.sets.length).all fun g => (toList (w.setOf g)).all fun v => home v == g

/-- **each graph hangs under at most one attribute position**: the list of all subgraph
    references of all attribute entries has no duplicates, and the root `g0` is not referenced -/
def RWorld.unshared (w : RWorld) (g0 : Nat) : Bool :=
  let refs := w.attrs.flatMap fun p => p.2.flatMap fun a =>
    match a with
    | .graph h => [h]
    | .graphs hs => hs
  decide refs.Nodup && !refs.contains g0

/-- the tree-shape predicate evaluated on every generated case -/
def RWorld.treeShape (w : RWorld) (home : Nat → Nat) (g0 : Nat) : Bool :=
  w.acyclicStatic .fwd home && w.acyclic .fwd && w.unshared g0 && w.homedOk home

end IrVerif.LinkedSet

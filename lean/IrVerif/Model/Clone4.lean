/-
Fourth part of the model `IrVerif.Clone`: the fourth editing alphabet `Edit4` (deepening round 4).
Item-level calls on `graph.inputs` / `graph.outputs` (`insert`, `remove`, `del lst[i]`, `lst[i] = v`,
`extend`, `clear`), `graph.initializers.setdefault`, extended slices (`lst[a:b:s] = vs`,
`del lst[a:b:s]`, any bounds, negative or omitted) and `convenience.replace_nodes_and_values` with
several old nodes and several freshly built new nodes.  Only core Lean is imported (linked into
`irdriver`).  Python: `_graph_containers.py` (`_GraphIO`, `GraphInputs`, `GraphOutputs`,
`GraphInitializers`), `_core.py` (`Graph.insert_after`, `Graph.remove`), `_convenience/__init__.py`
(`replace_nodes_and_values`), CPython `list` / `slice` (`PySlice_Unpack`, `PySlice_AdjustIndices`),
`collections.abc.MutableMapping.setdefault`.
-/
import IrVerif.Model.Clone2
namespace IrVerif.Clone

/-! ### the two tracked lists of a graph -/

/-- what distinguishes `graph.inputs` (`GraphInputs`) from `graph.outputs` (`GraphOutputs`):
    `_check_value`, the flag `_maybe_unset_graph` clears, the flag `_set_graph` sets, the list -/
structure IOSel where
  check : Nat → Nat → M Unit
  clear : ValueS → ValueS
  mark : ValueS → ValueS
  get : GraphS → List Nat
  put : GraphS → List Nat → GraphS

/-- `true`: `graph.inputs`, `false`: `graph.outputs` -/
def ioSel : Bool → IOSel
  | true => { check := checkInput, clear := fun x => { x with isIn := false },
              mark := fun x => { x with isIn := true }, get := fun gs => gs.inputs,
              put := fun gs l => { gs with inputs := l } }
  | false => { check := checkOwned, clear := fun x => { x with isOut := false },
               mark := fun x => { x with isOut := true }, get := fun gs => gs.outputs,
               put := fun gs l => { gs with outputs := l } }

/-! ### Python's index arithmetic -/

/-- `list[i]`: a negative index counts from the end; `none`: `IndexError` -/
def normIdx (len : Nat) (i : Int) : Option Nat :=
  let j := if i < 0 then i + len else i
  if 0 ≤ j ∧ j < len then some j.toNat else none

/-- `list.insert(i, x)`: the position is clamped to `[0, len]` (`ins1` in `listobject.c`) -/
def insertPos (len : Nat) (i : Int) : Nat :=
  let j := if i < 0 then i + len else i
  if j < 0 then 0 else if j > len then len else j.toNat

/-- `PySlice_AdjustIndices` for one bound (`dflt`: what an omitted bound stands for) -/
def adjIdx (len : Nat) (s : Int) (dflt : Int) : Option Int → Int
  | none => dflt
  | some x =>
    if x < 0 then (if x + len < 0 then (if s < 0 then -1 else 0) else x + len)
    else if x ≥ len then (if s < 0 then (len : Int) - 1 else len)
    else x

def sliceStart (len : Nat) (a : Option Int) (s : Int) : Int :=
  adjIdx len s (if s < 0 then (len : Int) - 1 else 0) a

def sliceStop (len : Nat) (b : Option Int) (s : Int) : Int :=
  adjIdx len s (if s < 0 then -1 else len) b

/-- the positions `lst[a:b:s]` selects, in the order of `range(*slice(a, b, s).indices(len))`
    (`s ≠ 0`) -/
def slicePositions (len : Nat) (a b : Option Int) (s : Int) : List Nat :=
  let st := sliceStart len a s
  let sp := sliceStop len b s
  let n : Nat :=
    if s < 0 then (if sp < st then ((st - sp - 1) / (-s)).toNat + 1 else 0)
    else (if st < sp then ((sp - st - 1) / s).toNat + 1 else 0)
  (List.range n).map fun (k : Nat) => (st + (k : Int) * s).toNat

/-- the list without the elements at the positions `idx` (`k`: position of the head) -/
def dropAt (idx : List Nat) : Nat → List Nat → List Nat
  | _, [] => []
  | k, x :: xs => if idx.contains k then dropAt idx (k + 1) xs else x :: dropAt idx (k + 1) xs

/-- the elements at the positions `idx`, in that order (`self.data[i]` for a slice) -/
def pickAt (data : List Nat) (idx : List Nat) : List Nat := idx.filterMap fun p => data[p]?

/-- `data[p] = v` for every pair, in order (`list_ass_subscript` for an extended slice) -/
def setAt (data : List Nat) (pv : List (Nat × Nat)) : List Nat :=
  pv.foldl (fun l p => l.set p.1 p.2) data

/-! ### `_GraphIO` -/

/-- the removing calls (`__delitem__`, `remove`): the list is written FIRST (`super().__delitem__(i)`
    / `super().remove(item)`), then `_maybe_unset_graph` runs on every removed value, in order,
    against the reference counter (which still counts the removed ones) -/
def delIdxG (sel : IOSel) (g : Nat) (gs : GraphS) (idx : List Nat) : M Unit := do
  setCell g (.graph (sel.put gs (dropAt idx 0 (sel.get gs))))
  unsetSeq g sel.clear (sel.get gs) (pickAt (sel.get gs) idx)

/-- `lst.insert(i, v)` (`_GraphIO.insert`): `_set_graph(v)` (check, count, flag, owner), then
    `list.insert`; nothing is released: the slice `[p:p]` takes `[v]` -/
def ioInsert (sel : IOSel) (g : Nat) (i : Int) (v : Nat) : M Unit := do
  let gs ← readGraph g
  if gs.view then unsupported "view"
  else
    let p := insertPos (sel.get gs).length i
    setSliceG (sel.check g) sel.clear sel.mark sel.get sel.put g p p [v]

/-- `lst.remove(v)` (`_GraphIO.remove`): `list.remove` (first occurrence; `ValueError` when absent),
    then `_maybe_unset_graph(v)` -/
def ioRemove (sel : IOSel) (g : Nat) (v : Nat) : M Unit := do
  let gs ← readGraph g
  if gs.view then unsupported "view"
  else if !(sel.get gs).contains v then raise "list.remove(x): x not in list"
  else delIdxG sel g gs [(sel.get gs).idxOf v]

/-- `del lst[i]` (`_GraphIO.__delitem__`, integer index) -/
def ioDelAt (sel : IOSel) (g : Nat) (i : Int) : M Unit := do
  let gs ← readGraph g
  if gs.view then unsupported "view"
  else match normIdx (sel.get gs).length i with
    | none => raise "list index out of range"
    | some p => delIdxG sel g gs [p]

/-- `lst[i] = v` (`_GraphIO.__setitem__`, integer index): `old = data[i]` (`IndexError`),
    `_check_value(v)`, `_maybe_unset_graph(old)`, `_set_graph(v)`, `data[i] = v` -/
def ioSetAt (sel : IOSel) (g : Nat) (i : Int) (v : Nat) : M Unit := do
  let gs ← readGraph g
  if gs.view then unsupported "view"
  else match normIdx (sel.get gs).length i with
    | none => raise "list index out of range"
    | some p => setSliceG (sel.check g) sel.clear sel.mark sel.get sel.put g p (p + 1) [v]

/-- `lst.extend(vs)` (`_GraphIO.extend`): every check, then every `_set_graph`, then `list.extend` -/
def ioExtend (sel : IOSel) (g : Nat) (vs : List Nat) : M Unit := do
  let gs ← readGraph g
  if gs.view then unsupported "view"
  else
    let n := (sel.get gs).length
    setSliceG (sel.check g) sel.clear sel.mark sel.get sel.put g n n vs

/-- `lst.clear()` (`_GraphIO.clear`): `_maybe_unset_graph` on every value of the list, in order,
    then `list.clear` -/
def ioClear (sel : IOSel) (g : Nat) : M Unit := do
  let gs ← readGraph g
  if gs.view then unsupported "view"
  else setSliceG (sel.check g) sel.clear sel.mark sel.get sel.put g 0 (sel.get gs).length []

/-- `lst[a:b:s] = vs` (`_GraphIO.__setitem__` with a slice): every check; `self.data.copy()[i] = item`
    (`ValueError` for a zero step, and for an extended slice whose size differs from `len(vs)`); the
    selected values are released in the order of the slice, the new ones taken, the list written.
    A step of 1 is the plain slice of `setSliceG` with CPython's bounds (`stop` is raised to `start`). -/
def ioSetStep (sel : IOSel) (g : Nat) (a b : Option Int) (s : Int) (vs : List Nat) : M Unit := do
  let gs ← readGraph g
  if gs.view then unsupported "view"
  else if s = 1 then
    let st := (sliceStart (sel.get gs).length a 1).toNat
    setSliceG (sel.check g) sel.clear sel.mark sel.get sel.put g st
      (max st (sliceStop (sel.get gs).length b 1).toNat) vs
  else do
    forM' (sel.check g) vs
    if s = 0 then raise "slice step cannot be zero"
    else
      let idx := slicePositions (sel.get gs).length a b s
      if idx.length != vs.length then raise "attempt to assign a sequence to an extended slice of another size"
      else do
        unsetSeq g sel.clear (sel.get gs) (pickAt (sel.get gs) idx)
        forM' (fun v => do
          sel.check g v
          setValueOwner g sel.mark v) vs
        let gs2 ← readGraph g
        setCell g (.graph (sel.put gs2 (setAt (sel.get gs) (idx.zip vs))))

/-- `del lst[a:b:s]` (`_GraphIO.__delitem__` with a slice; `removed = self.data[i]` raises for a
    zero step) -/
def ioDelStep (sel : IOSel) (g : Nat) (a b : Option Int) (s : Int) : M Unit := do
  let gs ← readGraph g
  if gs.view then unsupported "view"
  else if s = 0 then raise "slice step cannot be zero"
  else delIdxG sel g gs (slicePositions (sel.get gs).length a b s)

/-! ### `replace_nodes_and_values` with several nodes -/

/-- an input of a node that is about to be built: nothing, a value of the heap, or output `j` of the
    `k`-th node built before it in the same call -/
inductive InRef where
  | absent
  | old (v : Nat)
  | fresh (k j : Nat)
  deriving Repr, DecidableEq

def InRef.arg : InRef → Option Nat
  | .old v => some v
  | _ => none

/-- `Node("", op, inputs, name=name, num_outputs=len(outNames))` with named outputs -/
structure NewNode where
  name : String
  op : String
  inputs : List InRef
  outNames : List String
  deriving Repr

def resolveRef (built : List (Nat × List Nat)) : InRef → Option (Option Nat)
  | .absent => some none
  | .old v => some (some v)
  | .fresh k j =>
    match built[k]? with
    | some b => (b.2[j]?).map some
    | none => none

def resolveRefs (built : List (Nat × List Nat)) : List InRef → Option (List (Option Nat))
  | [] => some []
  | r :: rest =>
    match resolveRef built r, resolveRefs built rest with
    | some x, some xs => some (x :: xs)
    | _, _ => none

/-- build one node (as `Edit3.replaceNode` does): the two dicts, the node, its outputs, the usage
    records of its inputs, the names of the outputs; answers the node and its outputs -/
def buildNode (built : List (Nat × List Nat)) (nn : NewNode) : M (Nat × List Nat) :=
  match resolveRefs built nn.inputs with
  | none => unsupported "input refers to a node that is not built yet"
  | some inputs => do
    let props ← alloc (.dict {})
    let mstore ← alloc (.dict {})
    let n' ← alloc (.node { name := some nn.name, opType := nn.op, inputs := inputs, props := props,
                            mstore := mstore })
    let outs ← mkOutputs n' 0 nn.outNames.length
    let x ← readNode n'
    setCell n' (.node { x with outputs := outs })
    addUses n' 0 inputs
    setOutputNames outs nn.outNames
    pure (n', outs)

def buildNodes : List (Nat × List Nat) → List NewNode → M (List (Nat × List Nat))
  | built, [] => pure built
  | built, nn :: rest => do
    let b ← buildNode built nn
    buildNodes (built ++ [b]) rest

/-- `graph.insert_after(anchor, news)` (`Graph.insert_after`, `DoublyLinkedSet.insert_after`) for
    nodes that are not in the list yet: the anchor must belong to the graph, every new node must be
    addable (all checks first), every new node gets `node.graph = graph`, then the nodes are linked
    in after the anchor (`ValueError` when the anchor is not in the list) -/
def insertManyAfter (g anchor : Nat) (news : List Nat) : M Unit := do
  let gs ← readGraph g
  if gs.view then unsupported "view" else
  let as ← readNode anchor
  if as.graph != some g then raise "the anchor does not belong to this graph" else
  if news.any (fun n => gs.nodes.contains n || n == anchor) || news.eraseDups.length != news.length then
    unsupported "insert_after: a node that is already linked"
  else do
    let w ← getWorld
    forM' (fun n => liftE (nodeAddable w g n)) news
    forM' (fun n => do
      let x ← readNode n
      setCell n (.node { x with graph := some g })) news
    let gs2 ← readGraph g
    if gs2.nodes.contains anchor then
      setCell g (.graph { gs2 with nodes := gs2.nodes.flatMap fun x => if x = anchor then x :: news else [x] })
    else raise "anchor is not in the list"

/-- `convenience.replace_nodes_and_values(g, ip, olds, news, oldVals, newVals)`: the info copies over
    `zip(oldVals, newVals)`, `replace_all_uses_with(oldVals, newVals, replace_graph_outputs=True)`
    (length check, every pair checked, then every pair applied), `g.insert_after(ip, news)`,
    `g.remove(olds, safe=True)` -/
def replaceMany (g ip : Nat) (olds news oldVals newVals : List Nat) : M Unit := do
  forM' copyInfo (oldVals.zip newVals)
  if oldVals.length != newVals.length then raise "the number of values and replacements must match"
  else do
    rauwChecks true [] (oldVals.zip newVals)
    forM' (fun p => applyEdit2 (.replaceAllUses p.1 p.2 true)) (oldVals.zip newVals)
    insertManyAfter g ip news
    removeSafeM g olds

/-- the new values of the call: output `j` of the `k`-th new node -/
def outRef (built : List (Nat × List Nat)) (r : Nat × Nat) : Option Nat :=
  match built[r.1]? with
  | some b => b.2[r.2]?
  | none => none

def resolveOuts (built : List (Nat × List Nat)) : List (Nat × Nat) → Option (List Nat)
  | [] => some []
  | r :: rest =>
    match outRef built r, resolveOuts built rest with
    | some x, some xs => some (x :: xs)
    | _, _ => none

/-! ### the alphabet -/

inductive Edit4 where
  /-- an editing call of the third alphabet -/
  | base3 (e : Edit3)
  /-- `graph.inputs.insert(i, v)` (`inp = true`) / `graph.outputs.insert(i, v)` -/
  | ioInsert (inp : Bool) (g : Nat) (i : Int) (v : Nat)
  /-- `graph.inputs.remove(v)` / `graph.outputs.remove(v)` -/
  | ioRemove (inp : Bool) (g v : Nat)
  /-- `del graph.inputs[i]` / `del graph.outputs[i]` -/
  | ioDelAt (inp : Bool) (g : Nat) (i : Int)
  /-- `graph.inputs[i] = v` / `graph.outputs[i] = v` -/
  | ioSetAt (inp : Bool) (g : Nat) (i : Int) (v : Nat)
  /-- `graph.inputs.extend(vs)` / `graph.outputs.extend(vs)` -/
  | ioExtend (inp : Bool) (g : Nat) (vs : List Nat)
  /-- `graph.inputs.clear()` / `graph.outputs.clear()` -/
  | ioClear (inp : Bool) (g : Nat)
  /-- `graph.initializers.setdefault(key, v)` (`MutableMapping.setdefault`: `self[key]`, on
      `KeyError` `self[key] = v`) -/
  | setdefaultInit (g : Nat) (key : String) (v : Nat)
  /-- `graph.inputs[a:b:s] = vs` / `graph.outputs[a:b:s] = vs` (any bounds, any step) -/
  | ioSetStep (inp : Bool) (g : Nat) (a b : Option Int) (s : Int) (vs : List Nat)
  /-- `del graph.inputs[a:b:s]` / `del graph.outputs[a:b:s]` -/
  | ioDelStep (inp : Bool) (g : Nat) (a b : Option Int) (s : Int)
  /-- build the nodes `news` (in order; a later one may use outputs of an earlier one), then
      `convenience.replace_nodes_and_values(g, ip, olds, news, oldVals, newVals)` where `newVals`
      names outputs of the new nodes -/
  | replaceNodes (g ip : Nat) (olds : List Nat) (news : List NewNode) (oldVals : List Nat)
      (newVals : List (Nat × Nat))

def Edit4.args : Edit4 → List Nat
  | .base3 e => e.args
  | .ioInsert _ g _ v => [g, v]
  | .ioRemove _ g v => [g, v]
  | .ioDelAt _ g _ => [g]
  | .ioSetAt _ g _ v => [g, v]
  | .ioExtend _ g vs => g :: vs
  | .ioClear _ g => [g]
  | .setdefaultInit g _ v => [g, v]
  | .ioSetStep _ g _ _ _ vs => g :: vs
  | .ioDelStep _ g _ _ _ => [g]
  | .replaceNodes g ip olds news oldVals _ =>
    g :: ip :: (olds ++ oldVals ++ news.flatMap fun nn => nn.inputs.filterMap InRef.arg)

def applyEdit4 : Edit4 → M Unit
  | .base3 e => applyEdit3 e
  | .ioInsert inp g i v => ioInsert (ioSel inp) g i v
  | .ioRemove inp g v => ioRemove (ioSel inp) g v
  | .ioDelAt inp g i => ioDelAt (ioSel inp) g i
  | .ioSetAt inp g i v => ioSetAt (ioSel inp) g i v
  | .ioExtend inp g vs => ioExtend (ioSel inp) g vs
  | .ioClear inp g => ioClear (ioSel inp) g
  | .setdefaultInit g key v => do
    let gs ← readGraph g
    if gs.view then unsupported "view"
    else match gs.inits.lookup key with
      | some _ => pure ()
      | none => setInitCore g key v
  | .ioSetStep inp g a b s vs => ioSetStep (ioSel inp) g a b s vs
  | .ioDelStep inp g a b s => ioDelStep (ioSel inp) g a b s
  | .replaceNodes g ip olds news oldVals newVals => do
    let gs ← readGraph g
    if gs.view then unsupported "view"
    else do
      let built ← buildNodes [] news
      match resolveOuts built newVals with
      | none => unsupported "new value refers to an output that does not exist"
      | some nvs => replaceMany g ip olds (built.map (·.1)) oldVals nvs

/-- an edit history over the fourth alphabet (see `runHistory`) -/
def runHistory4 : List Edit4 → World → List (Except Err Unit) × World
  | [], w => ([], w)
  | e :: es, w =>
    match run (applyEdit4 e) w with
    | (r, w1) =>
      match runHistory4 es w1 with
      | (rs, w2) => (r :: rs, w2)

/-- `functionalize` with a wrapped pass that uses the fourth alphabet -/
def functionalize4 (fuel : Nat) (pass : Nat → World → List Edit4) (m : Nat) (w : World) :
    Except Err Nat × World :=
  match run (modelClone fuel m) w with
  | (.ok m', w1) => (.ok m', (runHistory4 (pass m' w1) w1).2)
  | (.error e, w1) => (.error e, w1)

end IrVerif.Clone

/-
Model of the LIFECYCLE of one `_core.ExternalTensor` object (property C04, deepening round):
`src/onnx_ir/_core.py` 664-716 (`__init__`), 718-730 (`base_dir` getter and setter), 843-890
(`_load`), 892-897 (`__array__`), 917-926 (`numpy`), 928-947 (`tobytes`), 949-1026 (`tofile`),
1028-1053 (`valid`, `_check_validity`, `invalidate`, `release`).

The object keeps state between calls: `_valid`, `_base_dir`, `raw` (the `mmap` of the WHOLE data
file, made by the first read) and `_array` (the numpy array built over that mapping, for the 2- and
4-bit types an unpacked copy).  This file transcribes that state machine AS THE CODE IS, including

* `_load` assigns `self.raw` BEFORE `np.frombuffer` checks the size, so a failed load leaves a
  mapping without an array (D143: `tobytes` must not slice that mapping; it loads again);
* a mapping, once made, is reused by `numpy()` / `__array__` / `tobytes()` until `release()` or a
  `base_dir` re-assignment, while `tofile()` opens the path afresh on every call -- so when the
  data file is REPLACED on disk (a new inode: `os.replace`, or `unlink`) under a live mapping the
  mapping-based entry points keep answering from the old file (finding D380);
* `release()` first drops `_array`, then closes the mapping, which raises `BufferError` while the
  caller still holds an array that exports the mapping's buffer; the mapping then stays in `raw`.

The world around the object is a map from directories (the possible values of `base_dir`, as ids)
to the content of the file `location` inside them; the environment may replace (atomically, new
inode) or remove that file between calls.  In-place modification or truncation of a mapped file is
OUTSIDE the model (the mapping would see it; truncation kills the process with SIGBUS).
`_check_path_containment` is C10's subject and is modelled as passing (regular, singly linked files
inside `base_dir`).

What a FRESH object answers for given file content is `TensorRepr.Ext.numpy / tobytes / tofile`
(the stateless model the C04 agreement theorems are about); the theorems of this round tie every
call of every history to those.  Core Lean only.
-/
import IrVerif.Model.TensorRepr
namespace IrVerif.ExtLife
open IrVerif.Pack IrVerif.TensorRepr

/-! ## The file system seen through `(base_dir, location)` -/

/-- directory id ↦ content of the file `location` in that directory (first entry wins) -/
abbrev FS := List (Nat × List Nat)

def fsGet (fs : FS) (d : Nat) : Option (List Nat) := fs.lookup d

/-- create or atomically replace the file (a new inode: existing mappings keep the old content) -/
def fsPut (fs : FS) (d : Nat) (c : List Nat) : FS := (d, c) :: fs

/-- unlink the file (existing mappings stay valid) -/
def fsDel (fs : FS) (d : Nat) : FS := fs.filter (fun p => p.1 != d)

/-! ## Object state -/

/-- the mutable slots of an `ExternalTensor` (`__slots__`, `_core.py` 651-662) that the read paths
    use.  `raw`: the content of the mapped inode.  `arr`: the storage units of `_array`.
    `pinned`: the caller holds an array that exports the buffer of the mapping in `raw`. -/
structure St where
  valid : Bool := true
  baseDir : Nat
  raw : Option (List Nat) := none
  arr : Option (List Nat) := none
  pinned : Bool := false
  deriving Repr, DecidableEq

structure World where
  fs : FS
  st : St
  deriving Repr

/-- `ExternalTensor(location, offset, length, dtype, shape=..., base_dir=d)` -/
def init (fs : FS) (d : Nat) : World := { fs := fs, st := { baseDir := d } }

/-- the part of `_load` after the file was mapped (`_core.py` 859-890): `np.frombuffer` with its
    bounds check, then unpack / reshape -/
def decode (e : Ext) (bytes : List Nat) : R (List Nat) :=
  match e.dtype.bitwidth with
  | none => .error "TypeError"
  | some bw =>
    let n := prod e.dims
    let w := if e.dtype.extSubByte then 1 else bw / 8
    let count := if e.dtype.extSubByte then nbytes n bw else n
    let off := e.offset.getD 0
    if off + count * w > bytes.length then .error "ValueError"
    else
      let buf := (bytes.drop off).take (count * w)
      if bw = 4 then .ok (unpack4 buf n)
      else if bw = 2 then .ok (unpack2 buf n)
      else reshape (fromLE w buf) n

/-- `_load()` (`_core.py` 843-890) on the file currently named by the path: the new state and the
    exception, if any.  Order of effects as in the code: validity, (containment), the assert, the
    zero-size shortcut, `open` (FileNotFoundError), `mmap` (ValueError for an empty file),
    `self.raw = ...`, then `frombuffer` / unpack. -/
def load (e : Ext) (file : Option (List Nat)) (s : St) : St × Option String :=
  if !s.valid then (s, some "ValueError")
  else if s.arr.isSome then (s, some "AssertionError")
  else if prod e.dims = 0 then
    if e.dtype.npName.isSome then ({ s with arr := some [] }, none) else (s, some "TypeError")
  else match file with
    | none => (s, some "FileNotFoundError")
    | some bytes =>
      if bytes = [] then (s, some "ValueError")
      else
        -- the previous mapping object (if any) is dropped; the caller's arrays keep IT alive
        let s1 := { s with raw := some bytes, pinned := false }
        match decode e bytes with
        | .ok u => ({ s1 with arr := some u }, none)
        | .error err => (s1, some err)

/-! ## Calls -/

inductive Entry where
  | numpy | asarray | tobytes | tofile
  deriving DecidableEq, Repr

inductive Op where
  /-- a read; `hold`: the caller keeps the returned array alive (only arrays can be kept) -/
  | read (en : Entry) (hold : Bool)
  | release
  | invalidate
  | setBaseDir (d : Nat)
  /-- the caller drops every array it kept -/
  | dropHolds
  /-- the environment creates / atomically replaces the file in directory `d` -/
  | put (d : Nat) (c : List Nat)
  /-- the environment removes the file in directory `d` -/
  | del (d : Nat)
  deriving Repr

inductive Obs where
  | units (u : List Nat)
  | bytes (b : List Nat)
  /-- `tofile`: the bytes that reached the destination and whether the call then raised -/
  | wrote (b : List Nat) (raised : Bool)
  | raised (err : String)
  | done
  deriving DecidableEq, Repr

/-- whether an array returned by `numpy()` exports the buffer of the mapping: the whole-byte
    types return a view of `np.frombuffer(self.raw, ...)`; the 2- and 4-bit types an unpacked copy;
    a zero-size tensor has no mapping -/
def pins (e : Ext) (s : St) : Bool := s.raw.isSome && !e.dtype.extSubByte

/-- `numpy()` and `__array__()` (`_core.py` 892-897, 917-926) -/
def doNumpy (e : Ext) (file : Option (List Nat)) (s : St) (hold : Bool) : St × Obs :=
  if !s.valid then (s, .raised "ValueError")
  else
    let r := if s.arr.isNone then load e file s else (s, none)
    match r.2, r.1.arr with
    | some err, _ => (r.1, .raised err)
    | none, some u => ({ r.1 with pinned := r.1.pinned || (hold && pins e r.1) }, .units u)
    | none, none => (r.1, .raised "AssertionError")

/-- `tobytes()` (`_core.py` 928-947) -/
def doTobytes (e : Ext) (file : Option (List Nat)) (s : St) : St × Obs :=
  if !s.valid then (s, .raised "ValueError")
  else if prod e.dims = 0 then (s, .bytes [])
  else
    let r := if s.raw.isNone || s.arr.isNone then load e file s else (s, none)
    match r.2 with
    | some err => (r.1, .raised err)
    | none =>
      match r.1.raw, e.byteCount with
      | some bytes, .ok len => (r.1, .bytes ((bytes.drop (e.offset.getD 0)).take len))
      | none, _ => (r.1, .raised "AssertionError")
      | _, .error err => (r.1, .raised err)

/-- `tofile(file)` (`_core.py` 949-1026): opens the path on every call and never touches the
    mapping; what is delivered is `Ext.tofile` of the CURRENT file -/
def doTofile (e : Ext) (file : Option (List Nat)) (s : St) : St × Obs :=
  if !s.valid then (s, .raised "ValueError")
  else match e.tofile file with
    | .ok (b, r) => (s, .wrote b r)
    | .error err => (s, .raised err)

/-- `release()` (`_core.py` 1048-1053): `_array = None`, then `raw.close()` (BufferError while
    exported pointers exist, `raw` is then NOT reset), then `raw = None` -/
def doRelease (s : St) : St × Obs :=
  let s1 := { s with arr := none }
  match s1.raw with
  | none => (s1, .done)
  | some _ => if s1.pinned then (s1, .raised "BufferError") else ({ s1 with raw := none }, .done)

/-- the `base_dir` setter (`_core.py` 723-730): a different value releases first; when that raises
    the assignment does not happen -/
def doSetBaseDir (s : St) (d : Nat) : St × Obs :=
  if d ≠ s.baseDir then
    let r := doRelease s
    match r.2 with
    | .raised err => (r.1, .raised err)
    | _ => ({ r.1 with baseDir := d }, .done)
  else ({ s with baseDir := d }, .done)

/-- the file currently named by `(base_dir, location)` -/
def cur (w : World) : Option (List Nat) := fsGet w.fs w.st.baseDir

def step (e : Ext) (w : World) : Op → World × Obs
  | .read en hold =>
    let r := match en with
      | .numpy => doNumpy e (cur w) w.st hold
      | .asarray => doNumpy e (cur w) w.st hold
      | .tobytes => doTobytes e (cur w) w.st
      | .tofile => doTofile e (cur w) w.st
    ({ w with st := r.1 }, r.2)
  | .release => let r := doRelease w.st; ({ w with st := r.1 }, r.2)
  | .invalidate => ({ w with st := { w.st with valid := false } }, .done)
  | .setBaseDir d => let r := doSetBaseDir w.st d; ({ w with st := r.1 }, r.2)
  | .dropHolds => ({ w with st := { w.st with pinned := false } }, .done)
  | .put d c => ({ w with fs := fsPut w.fs d c }, .done)
  | .del d => ({ w with fs := fsDel w.fs d }, .done)

/-- a whole call history: the final world and the observation of every call -/
def run (e : Ext) (w : World) : List Op → World × List Obs
  | [] => (w, [])
  | op :: ops =>
    let r := step e w op
    let rest := run e r.1 ops
    (rest.1, r.2 :: rest.2)

/-! ## What the theorems compare with -/

/-- the answer of a FRESH tensor object for the given file content, through each entry point -/
def fresh (e : Ext) (en : Entry) (file : Option (List Nat)) : Obs :=
  match en with
  | .numpy | .asarray =>
    match e.numpy file with
    | .ok u => .units u
    | .error err => .raised err
  | .tobytes =>
    match e.tobytes file with
    | .ok b => .bytes b
    | .error err => .raised err
  | .tofile =>
    match e.tofile file with
    | .ok (b, r) => .wrote b r
    | .error err => .raised err

/-- the object holds a complete load (mapping and array) -/
def loaded (s : St) : Bool := s.arr.isSome && s.raw.isSome

/-- the file content the mapping-based entry points answer from: the mapped inode while a complete
    load is held, otherwise the file currently named by the path -/
def seen (w : World) : Option (List Nat) :=
  match w.st.arr, w.st.raw with
  | some _, some b => some b
  | _, _ => cur w

/-- no complete load is held, or the mapped inode is still the file the path names -/
def coherent (w : World) : Bool :=
  match w.st.arr, w.st.raw with
  | some _, some b => cur w == some b
  | _, _ => true

/-- the environment changes the file the path currently names while a complete load is held -/
def Op.disturbs (w : World) : Op → Bool
  | .put d _ => loaded w.st && d == w.st.baseDir
  | .del d => loaded w.st && d == w.st.baseDir
  | _ => false

/-- no call of the history replaces or removes the named file under a held load -/
def quiet (e : Ext) (w : World) : List Op → Bool
  | [] => true
  | op :: ops => !op.disturbs w && quiet e (step e w op).1 ops

end IrVerif.ExtLife

/-
Executable form of the serializability predicate of `IrVerif.Scope` (hypothesis of `C03_roundtrip`),
so that it can be evaluated by the model driver and compared with the harness' own predicate.
Core Lean only.
-/
import IrVerif.Model.Scope
namespace IrVerif.Scope

/-- the outputs of a node that are written to the proto -/
def liveOuts (V : Nat → ValueS) : NodeT → List Nat
  | .mk _ _ _ outs _ => stripTrailing V outs

/-- the values a graph defines (and that exist after a round trip): inputs, initializer values
    that are not inputs, node outputs up to the trailing empty-named ones -/
def defsOf (V : Nat → ValueS) : GraphT → List Nat
  | .mk _ ins inits nodes _ =>
    ins ++ (inits.map (·.2)).filter (fun v => !ins.contains v) ++ nodes.flatMap (liveOuts V)

def namesUniqueB (V : Nat → ValueS) (vis : List Nat) : Bool :=
  vis.all fun a => vis.all fun b => !(nameTruthy (V a).name) || !((V a).name == (V b).name) || a == b

def nodupB (l : List Nat) : Bool :=
  match l with
  | [] => true
  | a :: r => !r.contains a && nodupB r

def nodupNamesB (l : List Name) : Bool :=
  match l with
  | [] => true
  | a :: r => !r.contains a && nodupNamesB r

mutual
def serGB (V : Nat → ValueS) (od : List Nat) : GraphT → Bool
  | .mk i ins inits nodes outs =>
    let D := defsOf V (.mk i ins inits nodes outs)
    D.all (fun v => !od.contains v) && namesUniqueB V (D ++ od) &&
    ins.all (fun v => nameTruthy (V v).name) &&
    inits.all (fun kv => (V kv.2).name == some kv.1 && kv.1 != "" && (V kv.2).const.isSome) &&
    nodupNamesB (inits.map (·.1)) && nodupB (inits.map (·.2)) &&
    outs.all (fun v => D.contains v && nameTruthy (V v).name) &&
    serNsB V (D ++ od) nodes
def serNsB (V : Nat → ValueS) (vis : List Nat) : List NodeT → Bool
  | [] => true
  | n :: ns => serNB V vis n && serNsB V vis ns
def serNB (V : Nat → ValueS) (vis : List Nat) : NodeT → Bool
  | .mk _ _ ins outs subs =>
    ins.all (fun o => match o with | none => true | some v => vis.contains v && nameTruthy (V v).name) &&
    outs.all (fun v => (V v).name.isSome) && serGsB V vis subs
def serGsB (V : Nat → ValueS) (vis : List Nat) : List GraphT → Bool
  | [] => true
  | g :: gs => serGB V vis g && serGsB V vis gs
end

mutual
def allDefsG (V : Nat → ValueS) : GraphT → List Nat
  | .mk i ins inits nodes outs => defsOf V (.mk i ins inits nodes outs) ++ allDefsNs V nodes
def allDefsNs (V : Nat → ValueS) : List NodeT → List Nat
  | [] => []
  | n :: ns => allDefsN V n ++ allDefsNs V ns
def allDefsN (V : Nat → ValueS) : NodeT → List Nat
  | .mk _ _ _ _ subs => allDefsGs V subs
def allDefsGs (V : Nat → ValueS) : List GraphT → List Nat
  | [] => []
  | g :: gs => allDefsG V g ++ allDefsGs V gs
end

mutual
def infoGB (V : Nat → ValueS) : GraphT → Bool
  | .mk _ ins inits nodes outs =>
    inits.all (fun kv => ins.contains kv.2 || outs.contains kv.2 ||
      ((V kv.2).info.ty.isSome && (V kv.2).info.sh.isSome)) && infoNsB V nodes
def infoNsB (V : Nat → ValueS) : List NodeT → Bool
  | [] => true
  | n :: ns => infoNB V n && infoNsB V ns
def infoNB (V : Nat → ValueS) : NodeT → Bool
  | .mk _ _ _ outs subs =>
    (stripTrailing V outs).all (fun v => nameTruthy (V v).name ||
      ((V v).info.ty.isNone && (V v).info.doc.isNone)) && infoGsB V subs
def infoGsB (V : Nat → ValueS) : List GraphT → Bool
  | [] => true
  | g :: gs => infoGB V g && infoGsB V gs
end

/-- the decision procedure for `Serializable` -/
def serializableB (w : World) : Bool :=
  nodupB (allDefsG w.st.vals w.root) && serGB w.st.vals [] w.root && infoGB w.st.vals w.root

end IrVerif.Scope

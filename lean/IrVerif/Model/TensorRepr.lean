/-
Model of the tensor representations of onnx_ir (property C04).

* element-type tables of `src/onnx_ir/_enums.py` (lines 40-71, 382-474) as literals;
* `TensorBase.size / nbytes` (`_core.py` 172-181);
* `_create_np_array_for_byte_representation`, `Tensor.tobytes/tofile` (`_core.py` 408-432, 578-613);
* `ExternalTensor._load / numpy / tobytes / tofile` (`_core.py` 817-992);
* `LazyTensor` (`_core.py` 1177-1230), `PackedTensor` (`_core.py` 1245-1383);
* `serde.TensorProtoTensor.numpy / tobytes` (`serde.py` 364-556), `deserialize_tensor`
  (`serde.py` 1151-1179), `serialize_tensor_into` (`serde.py` 2112-2146);
* `tensor_adapters.TorchTensor.numpy / tobytes / tofile` (`tensor_adapters.py` 153-210).

Elements are bit patterns (`Nat`).  The value of `numpy()` is the flat list of storage units of the
returned array (one unit per element: the `w`-byte little-endian item for whole-byte types, one
byte for the 2- and 4-bit types); shapes are kept beside it.  Exceptions are `Except.error` with
the Python exception type as text (information only).  String tensors have no byte form and are
outside this model.  Big-endian hosts (`_IS_LITTLE_ENDIAN` false) are outside this model.

Three defects of the unchanged tree are modelled as FIXED (see /verif/proposed_fixes):
D20 (`PackedTensor.numpy` unpacked 2-bit data as 4-bit), D21 (`ExternalTensor._load` read
`ceil(n/2)` bytes for 2-bit types), D22 (zero-size `ExternalTensor.tobytes` asserted); and two more
found by this check: D44 (`ExternalTensor.tofile` into an append-mode file raised EBADF) and D45
(`TorchTensor.tobytes/tofile` did not pack 2-bit data).
-/
import IrVerif.Model.Pack
namespace IrVerif.TensorRepr
open IrVerif.Pack

/-! ## Element types (`_enums.DataType`) -/

inductive DType where
  | undefined | float | uint8 | int8 | uint16 | int16 | int32 | int64 | string | bool
  | float16 | double | uint32 | uint64 | complex64 | complex128 | bfloat16
  | float8e4m3fn | float8e4m3fnuz | float8e5m2 | float8e5m2fnuz | uint4 | int4
  | float4e2m1 | float8e8m0 | uint2 | int2
  deriving DecidableEq, Repr, Inhabited

namespace DType

/-- the members in the order of their integer values 0..26 (`_enums.py` 45-71) -/
def all : List DType :=
  [undefined, float, uint8, int8, uint16, int16, int32, int64, string, bool, float16, double,
   uint32, uint64, complex64, complex128, bfloat16, float8e4m3fn, float8e4m3fnuz, float8e5m2,
   float8e5m2fnuz, uint4, int4, float4e2m1, float8e8m0, uint2, int2]

/-- the integer value of the enum member -/
def code (d : DType) : Nat := all.idxOf d

/-- `DataType(n)`; `none` is Python's `ValueError` -/
def ofCode (n : Nat) : Option DType := all[n]?

/-- the member names, used only for display -/
def names : List String :=
  ["UNDEFINED", "FLOAT", "UINT8", "INT8", "UINT16", "INT16", "INT32", "INT64", "STRING", "BOOL",
   "FLOAT16", "DOUBLE", "UINT32", "UINT64", "COMPLEX64", "COMPLEX128", "BFLOAT16", "FLOAT8E4M3FN",
   "FLOAT8E4M3FNUZ", "FLOAT8E5M2", "FLOAT8E5M2FNUZ", "UINT4", "INT4", "FLOAT4E2M1", "FLOAT8E8M0",
   "UINT2", "INT2"]

/-- `_BITWIDTH_MAP` (`_enums.py` 382-408), in dict order -/
def bitwidthTable : List (DType × Nat) :=
  [(float, 32), (uint8, 8), (int8, 8), (uint16, 16), (int16, 16), (int32, 32), (int64, 64),
   (bool, 8), (float16, 16), (double, 64), (uint32, 32), (uint64, 64), (complex64, 64),
   (complex128, 128), (bfloat16, 16), (float8e4m3fn, 8), (float8e4m3fnuz, 8), (float8e5m2, 8),
   (float8e5m2fnuz, 8), (uint4, 4), (int4, 4), (float4e2m1, 4), (float8e8m0, 8), (int2, 2),
   (uint2, 2)]

/-- `DataType.bitwidth`; `none` is the `TypeError` -/
def bitwidth (d : DType) : Option Nat := bitwidthTable.lookup d

/-- `_NP_TYPE_TO_DATA_TYPE` (`_enums.py` 412-439), keys by `np.dtype.name`, in dict order -/
def npTable : List (String × DType) :=
  [("bool", bool), ("complex128", complex128), ("complex64", complex64), ("float16", float16),
   ("float32", float), ("float64", double), ("int16", int16), ("int32", int32), ("int64", int64),
   ("int8", int8), ("object", string), ("uint16", uint16), ("uint32", uint32), ("uint64", uint64),
   ("uint8", uint8), ("bfloat16", bfloat16), ("float8_e4m3fn", float8e4m3fn),
   ("float8_e4m3fnuz", float8e4m3fnuz), ("float8_e5m2", float8e5m2),
   ("float8_e5m2fnuz", float8e5m2fnuz), ("float8_e8m0fnu", float8e8m0), ("int4", int4),
   ("uint4", uint4), ("float4_e2m1fn", float4e2m1), ("int2", int2), ("uint2", uint2)]

/-- `DataType.from_numpy` restricted to the table (first branch, `_enums.py` 80-81) -/
def ofNpName (s : String) : Option DType := npTable.lookup s

/-- `_DATA_TYPE_TO_NP_TYPE = {v: k for k, v in _NP_TYPE_TO_DATA_TYPE.items()}` (a later key
    overwrites an earlier one) and `DataType.numpy()`; `none` is the `TypeError` -/
def npName (d : DType) : Option String := (npTable.reverse.find? (fun p => p.2 = d)).map (·.1)

/-- `np.dtype(name).itemsize` for the numpy / ml_dtypes types of the table (a fact about numpy and
    ml_dtypes, compared with the installed packages on every run) -/
def npItemsizeTable : List (String × Nat) :=
  [("bool", 1), ("complex128", 16), ("complex64", 8), ("float16", 2), ("float32", 4),
   ("float64", 8), ("int16", 2), ("int32", 4), ("int64", 8), ("int8", 1), ("object", 8),
   ("uint16", 2), ("uint32", 4), ("uint64", 8), ("uint8", 1), ("bfloat16", 2),
   ("float8_e4m3fn", 1), ("float8_e4m3fnuz", 1), ("float8_e5m2", 1), ("float8_e5m2fnuz", 1),
   ("float8_e8m0fnu", 1), ("int4", 1), ("uint4", 1), ("float4_e2m1fn", 1), ("int2", 1),
   ("uint2", 1)]

def npItemsize (s : String) : Option Nat := npItemsizeTable.lookup s

/-- `_DATA_TYPE_TO_SHORT_NAME` (`_enums.py` 444-472), in dict order -/
def shortNameTable : List (DType × String) :=
  [(undefined, "undefined"), (bfloat16, "bf16"), (double, "f64"), (float, "f32"), (float16, "f16"),
   (float8e4m3fn, "f8e4m3fn"), (float8e5m2, "f8e5m2"), (float8e4m3fnuz, "f8e4m3fnuz"),
   (float8e5m2fnuz, "f8e5m2fnuz"), (float8e8m0, "f8e8m0"), (float4e2m1, "f4e2m1"),
   (complex64, "c64"), (complex128, "c128"), (int2, "i2"), (int4, "i4"), (int8, "i8"),
   (int16, "i16"), (int32, "i32"), (int64, "i64"), (bool, "b8"), (uint2, "u2"), (uint4, "u4"),
   (uint8, "u8"), (uint16, "u16"), (uint32, "u32"), (uint64, "u64"), (string, "s")]

/-- `DataType.short_name()`; `none` is the `TypeError` -/
def shortName (d : DType) : Option String := shortNameTable.lookup d

/-- `_SHORT_NAME_TO_DATA_TYPE = {v: k for k, v in ...}` and `DataType.from_short_name` -/
def ofShortName (s : String) : Option DType :=
  (shortNameTable.reverse.find? (fun p => p.2 = s)).map (·.1)

/-- `is_floating_point` (`_enums.py` 307-320) -/
def isFloatingPoint (d : DType) : Bool :=
  d ∈ [float, float16, double, bfloat16, float8e4m3fn, float8e4m3fnuz, float8e5m2, float8e5m2fnuz,
       float4e2m1, float8e8m0]

/-- `is_integer` (`_enums.py` 322-340) -/
def isInteger (d : DType) : Bool :=
  d ∈ [uint8, int8, uint16, int16, int32, int64, uint32, uint64, uint4, int4, int2, uint2]

/-- `is_signed` (`_enums.py` 342-366) -/
def isSigned (d : DType) : Bool :=
  d ∈ [float, int8, int16, int32, int64, float16, double, complex64, complex128, bfloat16,
       float8e4m3fn, float8e4m3fnuz, float8e5m2, float8e5m2fnuz, int4, float4e2m1, float8e8m0,
       int2]

/-- the literal set in `_create_np_array_for_byte_representation` (`_core.py` 415-419) -/
def bytePack4 (d : DType) : Bool := d ∈ [int4, uint4, float4e2m1]
/-- the literal set in `_create_np_array_for_byte_representation` (`_core.py` 422-425) -/
def bytePack2 (d : DType) : Bool := d ∈ [int2, uint2]
/-- the literal set in `ExternalTensor._load` (`_core.py` 833-839) -/
def extSubByte (d : DType) : Bool := d ∈ [int4, uint4, float4e2m1, int2, uint2]
/-- the `assert dtype in {...}` of the `int32_data` branch (`serde.py` 412-431) -/
def int32Legal (d : DType) : Bool :=
  d ∈ [bfloat16, bool, float16, float4e2m1, float8e4m3fn, float8e4m3fnuz, float8e5m2,
       float8e5m2fnuz, float8e8m0, int16, int32, int2, int4, int8, uint16, uint2, uint4, uint8]
/-- the 16-bit set of `tobytes` (`serde.py` 513-518) -/
def int32Bytes16 (d : DType) : Bool := d ∈ [int16, uint16, float16, bfloat16]
/-- the 8-bit set of `tobytes` (`serde.py` 520-534) -/
def int32Bytes8 (d : DType) : Bool :=
  d ∈ [int8, uint8, bool, float8e4m3fn, float8e4m3fnuz, float8e5m2, float8e5m2fnuz, float8e8m0,
       int2, int4, uint2, uint4, float4e2m1]
/-- keys of `_TORCH_DTYPE_TO_ONNX` with torch >= 2.7 (`tensor_adapters.py` 59-87); UINT4, INT4 and
    FLOAT4E2M1 have no entry -/
def torchMapped (d : DType) : Bool :=
  d ∈ [bfloat16, bool, complex128, complex64, float16, float, double, float8e4m3fn,
       float8e4m3fnuz, float8e5m2, float8e5m2fnuz, int16, int32, int64, int8, uint8, uint16,
       uint32, uint64, float8e8m0, int2, uint2]

end DType

/-! ## Shared helpers -/

abbrev R := Except String

/-- `math.prod(shape)` -/
def prod (dims : List Nat) : Nat := dims.foldr (· * ·) 1

/-- `dtype.bitwidth` with its `TypeError` -/
def bitwidthE (d : DType) : R Nat :=
  match d.bitwidth with
  | some bw => .ok bw
  | none => .error "TypeError"

/-- `TensorBase.nbytes` = `math.ceil(dtype.itemsize * size)` (`_core.py` 177-181) -/
def nbytesOf (d : DType) (dims : List Nat) : R Nat :=
  match d.bitwidth with
  | some bw => .ok (nbytes (prod dims) bw)
  | none => .error "TypeError"

/-- `ndarray.reshape(shape)` on flat data: `ValueError` unless the sizes agree -/
def reshape (xs : List Nat) (n : Nat) : R (List Nat) :=
  if xs.length = n then .ok xs else .error "ValueError"

/-- the items of `np.frombuffer(bs, dtype='<u{w}')` for a buffer whose length is a multiple of w -/
def fromLE (w : Nat) (bs : List Nat) : List Nat :=
  if _h : w = 0 ∨ (bs.take w).length < w then [] else ofLeBytes (bs.take w) :: fromLE w (bs.drop w)
termination_by bs.length
decreasing_by simp only [List.length_take, List.length_drop] at *; omega

/-- `np.frombuffer(bs, dtype)` for an item size of `w` bytes (`ValueError` when the buffer size is
    not a multiple of the item size) -/
def fromBuffer (w : Nat) (bs : List Nat) : R (List Nat) :=
  if w = 0 then .error "ValueError"
  else if bs.length % w = 0 then .ok (fromLE w bs) else .error "ValueError"

/-- `array.astype(np.uint{k})` of a signed integer: two's complement wrap -/
def wrap (k : Nat) (x : Int) : Nat := (x % ((2 : Int) ^ k)).toNat

/-- `array.view(np.complex64 / np.complex128)` of a flat float array: consecutive pairs become one
    element whose little-endian bytes are those of the real part followed by the imaginary part;
    `ValueError` for an odd count.  `hb` is the bit width of one part. -/
def pairUp (hb : Nat) : List Nat → R (List Nat)
  | [] => .ok []
  | [_] => .error "ValueError"
  | re :: im :: rest =>
    match pairUp hb rest with
    | .ok r => .ok ((re + im * 2 ^ hb) :: r)
    | .error e => .error e

/-- unpack by bit width (4 or 2) -/
def unpackBits (bw : Nat) (bs : List Nat) (n : Nat) : List Nat :=
  if bw = 4 then unpack4 bs n else unpack2 bs n

/-- the canonical little-endian packed byte form of logical elements `xs` of a type of `bw` bits:
    what every representation must return from `tobytes()` -/
def packLE (bw : Nat) (xs : List Nat) : List Nat := tobytes bw xs

/-- what the check observes of `numpy()`: the storage units masked to the bit width (ml_dtypes
    keeps a 2/4-bit element in one byte whose upper bits are not significant) -/
def obsBits (bw : Nat) (xs : List Nat) : List Nat := xs.map (· % 2 ^ bw)

/-! ## Array-backed tensor (`_core.Tensor`) and the torch adapter -/

/-- `_create_np_array_for_byte_representation(tensor).tobytes()` given `tensor.numpy()` as storage
    units (`_core.py` 408-432, 590-598); `itemBytes` is `array.itemsize` -/
def arrayBytes (d : DType) (itemBytes : Nat) (elems : List Nat) : R (List Nat) :=
  if d.bytePack4 then .ok (pack4 elems)
  else if d.bytePack2 then .ok (pack2 elems)
  else match d.bitwidth with
    | none => .error "TypeError"
    | some bw =>
      -- assert tensor.dtype.itemsize == array.itemsize
      if bw = 8 * itemBytes then .ok (elems.flatMap (leBytes itemBytes)) else .error "AssertionError"

/-- `array.itemsize` of the numpy type of `d` -/
def npItemBytes (d : DType) : Nat :=
  match d.npName with
  | some s => (DType.npItemsize s).getD 0
  | none => 0

/-- the storage units a contiguous torch view of `n` elements at `storage_offset = k` denotes:
    `_get_cbytes` reads `element_size * numel` bytes at `tensor.data_ptr()`, which is the storage
    base plus `k` items (`tensor_adapters.py` 180-198); `numpy()` reads the same elements -/
def torchView (storage : List Nat) (k n : Nat) : List Nat := (storage.drop k).take n

/-- `TorchTensor.tobytes` (`tensor_adapters.py` 200-205), D45 fixed: the tensor memory
    (`element_size * numel` bytes, one storage unit per element) except for the 2-bit types, which
    are packed through `Tensor.tobytes` -/
def torchBytes (d : DType) (elems : List Nat) : R (List Nat) :=
  if !d.torchMapped then .error "TypeError"
  else if d.bytePack2 then .ok (pack2 elems)
  else match d.bitwidth with
    | none => .error "TypeError"
    | some bw => .ok (elems.flatMap (leBytes (bw / 8)))

/-! ## Proto-backed tensor (`serde.TensorProtoTensor`) -/

/-- the fields of `onnx.TensorProto` that carry numeric data.  `rawData = none` means
    `not HasField("raw_data")`.  `floatData` / `doubleData` hold IEEE bit patterns.  `external`
    is `data_location == EXTERNAL` with the parsed `offset` / `length` entries. -/
structure Proto where
  dataType : Nat
  dims : List Nat
  rawData : Option (List Nat) := none
  int32Data : List Int := []
  int64Data : List Int := []
  uint64Data : List Nat := []
  floatData : List Nat := []
  doubleData : List Nat := []
  external : Option (Option Nat × Option Nat) := none
  deriving Repr

/-- `TensorProtoTensor.dtype`: `DataType(proto.data_type)` -/
def Proto.dtype (p : Proto) : R DType :=
  match DType.ofCode p.dataType with
  | some d => .ok d
  | none => .error "ValueError"

/-- the `int32_data` branch of `numpy()` (`serde.py` 411-450) -/
def int32Numpy (d : DType) (ys : List Int) (n : Nat) : R (List Nat) :=
  if !d.int32Legal then .error "AssertionError"
  else match d.bitwidth with
    | none => .error "TypeError"
    | some bw =>
      if bw = 32 then reshape (ys.map (wrap 32)) n
      else if bw = 16 then reshape (ys.map (wrap 16)) n
      else if bw = 8 then reshape (ys.map (wrap 8)) n
      else if bw = 4 then .ok (unpack4 (ys.map (wrap 8)) n)
      else if bw = 2 then .ok (unpack2 (ys.map (wrap 8)) n)
      else .error "ValueError"

/-- `TensorProtoTensor.numpy()` (`serde.py` 364-487), storage units of the result -/
def Proto.numpy (p : Proto) : R (List Nat) :=
  match p.dtype with
  | .error e => .error e
  | .ok d =>
  if d = .undefined then .error "ValueError"
  else if p.external.isSome then .error "ValueError"
  else
    let n := prod p.dims
    match p.rawData with
    | some raw =>
      match d.bitwidth with
      | none => .error "TypeError"
      | some bw =>
        if bw = 4 then .ok (unpack4 raw n)
        else if bw = 2 then .ok (unpack2 raw n)
        else match fromBuffer (bw / 8) raw with
          | .ok xs => reshape xs n
          | .error e => .error e
    | none =>
      if d = .string then .error "string tensors are outside the model"
      else if p.int32Data ≠ [] then int32Numpy d p.int32Data n
      else if p.int64Data ≠ [] then
        if d = .int64 then reshape (p.int64Data.map (wrap 64)) n else .error "AssertionError"
      else if p.uint64Data ≠ [] then
        if d = .uint32 then reshape (p.uint64Data.map (· % 2 ^ 32)) n
        else if d = .uint64 then reshape p.uint64Data n
        else .error "AssertionError"
      else if p.floatData ≠ [] then
        if d = .complex64 then
          match pairUp 32 p.floatData with
          | .ok xs => reshape xs n
          | .error e => .error e
        else if d = .float then reshape p.floatData n
        else .error "AssertionError"
      else if p.doubleData ≠ [] then
        if d = .complex128 then
          match pairUp 64 p.doubleData with
          | .ok xs => reshape xs n
          | .error e => .error e
        else if d = .double then reshape p.doubleData n
        else .error "AssertionError"
      else
        -- np.zeros(shape, dtype=dtype.numpy())
        .ok (List.replicate n 0)

/-- `TensorProtoTensor.tobytes()` (`serde.py` 489-556); note the field order differs from
    `numpy()` and only some branches check the element type -/
def Proto.tobytes (p : Proto) : R (List Nat) :=
  if p.external.isSome then .error "ValueError"
  else match p.dtype with
  | .error e => .error e
  | .ok d =>
  if d = .string then .error "ValueError"
  else if d = .undefined then .error "ValueError"
  else match p.rawData with
  | some raw => .ok raw
  | none =>
    if p.floatData ≠ [] then .ok (p.floatData.flatMap (leBytes 4))
    else if p.int32Data ≠ [] then
      if d.int32Bytes16 then .ok ((p.int32Data.map (wrap 16)).flatMap (leBytes 2))
      else if d.int32Bytes8 then .ok ((p.int32Data.map (wrap 8)).flatMap (leBytes 1))
      else if d = .int32 then .ok ((p.int32Data.map (wrap 32)).flatMap (leBytes 4))
      else .error "AssertionError"
    else if p.int64Data ≠ [] then .ok ((p.int64Data.map (wrap 64)).flatMap (leBytes 8))
    else if p.doubleData ≠ [] then .ok (p.doubleData.flatMap (leBytes 8))
    else if p.uint64Data ≠ [] then
      if d = .uint32 then .ok ((p.uint64Data.map (· % 2 ^ 32)).flatMap (leBytes 4))
      else if d = .uint64 then .ok (p.uint64Data.flatMap (leBytes 8))
      else .error "AssertionError"
    else .ok []

/-! ## External tensor (`_core.ExternalTensor`) -/

/-- `offset` / `length` as given to the constructor (`None` allowed) -/
structure Ext where
  dtype : DType
  dims : List Nat
  offset : Option Nat
  length : Option Nat
  deriving Repr

/-- `ExternalTensor._load` + `numpy()` (`_core.py` 817-863, 890-899) on the content of the data
    file (`none`: the file does not exist).  D21 fixed: the sub-byte types read `nbytes` bytes. -/
def Ext.numpy (e : Ext) (file : Option (List Nat)) : R (List Nat) :=
  let n := prod e.dims
  if n = 0 then
    -- np.empty(shape, dtype=self.dtype.numpy())
    if e.dtype.npName.isSome then .ok [] else .error "TypeError"
  else match file with
  | none => .error "FileNotFoundError"
  | some bytes =>
    if bytes = [] then .error "ValueError"   -- cannot mmap an empty file
    else match e.dtype.bitwidth with
    | none => .error "TypeError"
    | some bw =>
      let w := if e.dtype.extSubByte then 1 else bw / 8
      let count := if e.dtype.extSubByte then nbytes n bw else n
      let off := e.offset.getD 0
      -- np.frombuffer(raw, dtype=dt, offset=off, count=count)
      if off + count * w > bytes.length then .error "ValueError"
      else
        let buf := (bytes.drop off).take (count * w)
        if bw = 4 then .ok (unpack4 buf n)
        else if bw = 2 then .ok (unpack2 buf n)
        else reshape (fromLE w buf) n

/-- `self._length or self.nbytes` -/
def Ext.byteCount (e : Ext) : R Nat :=
  match e.length with
  | some (l + 1) => .ok (l + 1)
  | _ => nbytesOf e.dtype e.dims

/-- `ExternalTensor.tobytes()` (`_core.py` 901-915).  D22 fixed: a zero-size tensor has no bytes
    and touches no file. -/
def Ext.tobytes (e : Ext) (file : Option (List Nat)) : R (List Nat) :=
  if prod e.dims = 0 then .ok []
  else match e.numpy file with   -- `_load()` maps the file and builds the array first
  | .error err => .error err
  | .ok _ =>
    match file, e.byteCount with
    | some bytes, .ok len => .ok ((bytes.drop (e.offset.getD 0)).take len)   -- mmap slice
    | _, .error err => .error err
    | none, _ => .error "FileNotFoundError"

/-- `ExternalTensor.tofile(file)` (`_core.py` 917-992): the bytes that reach the destination and
    whether the call then raised (`OSError` when the data file is shorter than expected).  Both
    the `copy_file_range` path and the chunked path deliver the same bytes; D44 fixed: an
    append-mode destination falls back to the chunked path. -/
def Ext.tofile (e : Ext) (file : Option (List Nat)) : R (List Nat × Bool) :=
  match file with
  | none => .error "FileNotFoundError"
  | some bytes =>
    match e.byteCount with
    | .error err => .error err
    | .ok len =>
      let avail := (bytes.drop (e.offset.getD 0)).take len
      .ok (avail, avail.length < len)

/-! ## Packed tensor (`_core.PackedTensor`) -/

structure Packed where
  dtype : DType
  dims : List Nat
  raw : List Nat      -- the uint8 view of the packed array
  deriving Repr

/-- the checks of `PackedTensor.__init__` (`_core.py` 1275-1298) for a uint8/int8 array -/
def Packed.valid (t : Packed) : R Unit :=
  match t.dtype.bitwidth with
  | none => .error "TypeError"
  | some bw =>
    if bw ≠ 2 ∧ bw ≠ 4 then .error "TypeError"
    else if t.raw.length ≠ nbytes (prod t.dims) bw then .error "ValueError"
    else .ok ()

/-- `PackedTensor.numpy()` (`_core.py` 1331-1355), D20 fixed: unpack by the bit width -/
def Packed.numpy (t : Packed) : R (List Nat) :=
  match t.valid with
  | .error e => .error e
  | .ok _ =>
    match t.dtype.bitwidth with
    | none => .error "TypeError"
    | some bw => .ok (unpackBits bw t.raw (prod t.dims))

/-- `PackedTensor.tobytes()` (`_core.py` 1357-1366) -/
def Packed.tobytes (t : Packed) : R (List Nat) :=
  match t.valid with
  | .error e => .error e
  | .ok _ => .ok t.raw

/-- byte swap: every `w`-byte item of a buffer reversed -/
def swapItems (w : Nat) (bs : List Nat) : List Nat :=
  if _h : w = 0 ∨ (bs.take w).length < w then [] else (bs.take w).reverse ++ swapItems w (bs.drop w)
termination_by bs.length
decreasing_by simp only [List.length_take, List.length_drop] at *; omega

/-- the elements (as bit patterns) held by the C-contiguous memory `mem` of an array of a
    whole-byte numpy type whose dtype is little-endian / native (`be = false`) or explicitly
    big-endian (`be = true`, e.g. `'>f4'`), and whether the holder is a real `ndarray`.
    `Tensor.__init__` (`_core.py` 517-531) looks an ndarray's dtype up in `_NP_TYPE_TO_DATA_TYPE`,
    whose keys are native-order dtypes, so a big-endian ndarray is rejected with `TypeError`; the
    data behind any other array-compatible object is not checked. -/
def arrayMemElems (d : DType) (mem : List Nat) (be nd : Bool) : R (List Nat) :=
  if nd && be then .error "TypeError"
  else match d.bitwidth with
    | none => .error "TypeError"
    | some bw =>
      if bw < 8 then .error "sub-byte storage is modelled by Rep.array"
      else
        -- numpy swaps the real and the imaginary part of a complex item separately
        let part := if d = .complex64 ∨ d = .complex128 then bw / 16 else bw / 8
        fromBuffer (bw / 8) (if be then swapItems part mem else mem)

/-- `tobytes()` of a tensor over such memory (`_core.py` 408-432, D140 fixed): the little-endian
    items of the ELEMENTS, whatever the byte order of the memory -/
def arrayMemBytes (d : DType) (mem : List Nat) (be nd : Bool) : R (List Nat) :=
  match arrayMemElems d mem be nd with
  | .error e => .error e
  | .ok elems => arrayBytes d (npItemBytes d) elems

/-! ## All representations -/

inductive Rep where
  /-- `_core.Tensor` over a numpy array: storage units of the array -/
  | array (d : DType) (dims : List Nat) (elems : List Nat)
  /-- `_core.Tensor` over the memory bytes of an array(-compatible object) of a whole-byte type,
      with the byte order of its dtype (`bigEndian`: `'>f4'`, `'>i8'`, ...) and whether it is a real
      `ndarray` -/
  | arrayMem (d : DType) (dims : List Nat) (mem : List Nat) (bigEndian : Bool) (ndarray : Bool)
  /-- `tensor_adapters.TorchTensor`: storage units of the torch tensor -/
  | torch (d : DType) (dims : List Nat) (elems : List Nat)
  | packed (t : Packed)
  | proto (p : Proto)
  /-- `_core.ExternalTensor` with the content of its data file -/
  | external (e : Ext) (file : Option (List Nat))
  /-- `_core.LazyTensor(func, dtype, shape)` where `func()` returns `inner` -/
  | lazy (d : DType) (dims : List Nat) (inner : Rep)

namespace Rep

def dtype : Rep → R DType
  | array d _ _ => .ok d
  | arrayMem d _ _ be nd => if nd && be then .error "TypeError" else .ok d
  | torch d _ _ => if d.torchMapped then .ok d else .error "TypeError"
  | packed t => .ok t.dtype
  | proto p => p.dtype
  | external e _ => .ok e.dtype
  | lazy d _ _ => .ok d

def shape : Rep → List Nat
  | array _ dims _ => dims
  | arrayMem _ dims _ _ _ => dims
  | torch _ dims _ => dims
  | packed t => t.dims
  | proto p => p.dims
  | external e _ => e.dims
  | lazy _ dims _ => dims

/-- `TensorBase.nbytes` from the reported dtype and shape -/
def nbytes (r : Rep) : R Nat :=
  match r.dtype with
  | .ok d => nbytesOf d r.shape
  | .error e => .error e

/-- storage units of `numpy()` -/
def numpy : Rep → R (List Nat)
  | array _ _ elems => .ok elems
  | arrayMem d _ mem be nd => arrayMemElems d mem be nd
  | torch d _ elems => if d.torchMapped then .ok elems else .error "TypeError"
  | packed t => t.numpy
  | proto p => p.numpy
  | external e file => e.numpy file
  | lazy _ _ inner => inner.numpy

def tobytes : Rep → R (List Nat)
  | array d _ elems => arrayBytes d (npItemBytes d) elems
  | arrayMem d _ mem be nd => arrayMemBytes d mem be nd
  | torch d _ elems => torchBytes d elems
  | packed t => t.tobytes
  | proto p => p.tobytes
  | external e file => e.tobytes file
  | lazy _ _ inner => inner.tobytes

/-- a `tofile` that writes `tobytes()` in one piece -/
def wrote (r : R (List Nat)) : R (List Nat × Bool) :=
  match r with
  | .ok bs => .ok (bs, false)
  | .error e => .error e

/-- the bytes `tofile(file)` delivers to the destination, and whether it raised afterwards.
    Every class writes exactly `tobytes()` (`Tensor.tofile`, `PackedTensor.tofile`,
    `TensorBase.tofile`, `TorchTensor.tofile`) except `ExternalTensor`, which copies from the data
    file; `LazyTensor.tofile` delegates. -/
def tofile : Rep → R (List Nat × Bool)
  | external e file => e.tofile file
  | lazy _ _ inner => inner.tofile
  | array d dims elems => wrote (array d dims elems).tobytes
  | arrayMem d dims mem be nd => wrote (arrayMem d dims mem be nd).tobytes
  | torch d dims elems => wrote (torch d dims elems).tobytes
  | packed t => wrote (packed t).tobytes
  | proto p => wrote (proto p).tobytes

/-- the mechanism `tofile(file)` uses to deliver the bytes -/
inductive Path where
  /-- `file.write(self.tobytes())` (`TensorBase.tofile`, `TorchTensor.tofile`, the fallbacks) -/
  | write
  /-- `ndarray.tofile(file)` (`Tensor.tofile` / `PackedTensor.tofile` when the raw value is an
      ndarray and the file has a descriptor, `_core.py` 608-611, 1399-1404) -/
  | ndarray
  /-- `os.copy_file_range` + `file.seek`, then the chunk loop (`ExternalTensor.tofile`, regular files) -/
  | copyRange
  /-- the 1 MiB chunk loop of `ExternalTensor.tofile` alone -/
  | chunks
  deriving DecidableEq, Repr

/-- which mechanism is used; `regular`: the destination is a regular file with a descriptor -/
def tofilePath : Rep → Bool → Path
  | array _ _ _, regular => if regular then .ndarray else .write
  | arrayMem _ _ _ _ nd, regular => if nd && regular then .ndarray else .write
  | packed _, regular => if regular then .ndarray else .write
  | external _ _, regular => if regular then .copyRange else .chunks
  | lazy _ _ inner, regular => inner.tofilePath regular
  | torch _ _ _, _ => .write
  | proto _, _ => .write

end Rep

/-! ## Destination files -/

/-- overwrite `data` at absolute offset `off` of a file image, zero-filling a gap past the end;
    writing nothing changes nothing -/
def splice (img : List Nat) (off : Nat) (data : List Nat) : List Nat :=
  if data = [] then img
  else img.take off ++ List.replicate (off - img.length) 0 ++ data ++ img.drop (off + data.length)

/-- a binary file opened for writing: its content, the position of the Python file object, whether
    it was opened in append mode (every `write` goes to the end) and whether it is a regular file
    with a descriptor (`False`: an in-memory buffer) -/
structure Dest where
  img : List Nat
  pos : Nat
  append : Bool := false
  regular : Bool := false
  deriving Repr

/-- a positioned write that does not move the file position (`copy_file_range(offset_dst=...)`,
    or the duplicated descriptor numpy writes through) -/
def Dest.pwrite (f : Dest) (off : Nat) (data : List Nat) : Dest := { f with img := splice f.img off data }

/-- `file.seek(p)` -/
def Dest.seek (f : Dest) (p : Nat) : Dest := { f with pos := p }

/-- `file.write(data)`: at the position (at the end in append mode), then the position is just
    behind the data -/
def Dest.write (f : Dest) (data : List Nat) : Dest :=
  if data = [] then f
  else
    let p := if f.append then f.img.length else f.pos
    (f.pwrite p data).seek (p + data.length)

/-- `for chunk in chunks: file.write(chunk)` -/
def Dest.writeAll (f : Dest) (chunks : List (List Nat)) : Dest := chunks.foldl Dest.write f

/-- the pieces `src.read(min(size, remaining))` returns -/
def chunk (size : Nat) (data : List Nat) : List (List Nat) :=
  if _h : size = 0 ∨ data = [] then [] else data.take size :: chunk size (data.drop size)
termination_by data.length
decreasing_by
  have : data.length ≠ 0 := by
    intro h; exact _h (Or.inr (List.eq_nil_of_length_eq_zero h))
  simp only [List.length_drop]; omega

/-- `_EXTERNAL_TENSOR_COPY_CHUNK_SIZE` -/
def copyChunkSize : Nat := 1024 * 1024

/-- `ndarray.tofile(file)`: numpy flushes the file, duplicates its descriptor, positions the
    duplicate at `file.tell()` (an O_APPEND descriptor writes at the end anyway), writes the bytes
    through it and finally seeks the Python file object to where the duplicate ended -/
def Dest.ndTofile (f : Dest) (data : List Nat) : Dest :=
  if data = [] then f.seek f.pos
  else
    let q := if f.append then f.img.length else f.pos
    (f.pwrite q data).seek (q + data.length)

/-- the `while copied < bytes_to_copy` loop of `ExternalTensor.tofile` (`_core.py` 952-962): in
    each round the kernel copies up to `r` of the remaining bytes to `destination_offset + copied`
    without moving the file position; a round that copies nothing ends the loop -/
def copyRounds (f : Dest) (d : Nat) (data : List Nat) : List Nat → Nat → Dest × Nat
  | [], copied => (f, copied)
  | r :: rs, copied =>
    if data.length ≤ copied then (f, copied)
    else if min r (data.length - copied) = 0 then (f, copied)
    else
      copyRounds (f.pwrite (d + copied) ((data.drop copied).take (min r (data.length - copied)))) d data rs
        (copied + min r (data.length - copied))

/-- `ExternalTensor.tofile` into a regular file (`_core.py` 939-992): `file.flush()`,
    `destination_offset = file.tell()`, the kernel-copy rounds (an append-mode descriptor fails
    with EBADF before anything is copied, D44), `finally: file.seek(destination_offset + copied)`,
    then the remaining bytes through the chunk loop -/
def Dest.copyRange (f : Dest) (data : List Nat) (rounds : List Nat) : Dest :=
  let d := f.pos
  let gc := if f.append then (f, 0) else copyRounds f d data rounds 0
  (gc.1.seek (d + gc.2)).writeAll (chunk copyChunkSize (data.drop gc.2))

/-- deliver `data` through the given mechanism -/
def Dest.deliver (f : Dest) (path : Rep.Path) (data : List Nat) : Dest :=
  match path with
  | .write => f.write data
  | .ndarray => f.ndTofile data
  | .copyRange => f.copyRange data [2 ^ 30, 2 ^ 30, 2 ^ 30, 2 ^ 30]
  | .chunks => f.writeAll (chunk copyChunkSize data)

/-- `tensor.tofile(f)` -/
def Rep.tofileAt (r : Rep) (f : Dest) : R (Dest × Bool) :=
  match r.tofile with
  | .ok (bs, raised) => .ok (f.deliver (r.tofilePath f.regular) bs, raised)
  | .error e => .error e

/-! ## serialize / deserialize (`serde.py` 1151-1179, 2112-2146) -/

/-- `deserialize_tensor(proto)` for non-string protos; the external data file is supplied by the
    caller (it is found through `base_path` and `location`) -/
def deserialize (p : Proto) (file : Option (List Nat)) : R Rep :=
  match p.external with
  | some (off, len) =>
    match p.dtype with
    | .ok d => .ok (.external { dtype := d, dims := p.dims, offset := off, length := len } file)
    | .error e => .error e
  | none => .ok (.proto p)

/-- `serialize_tensor(tensor)` for non-string tensors -/
def serializeRaw (r : Rep) : R Proto :=
  match r.dtype, r.tobytes with
  | .ok d, .ok bs => .ok { dataType := d.code, dims := r.shape, rawData := some bs }
  | .error e, _ => .error e
  | _, .error e => .error e

def serialize : Rep → R Proto
  | .proto p => .ok p                     -- CopyFrom
  | .external e _ =>
    .ok { dataType := e.dtype.code, dims := e.dims, external := some (e.offset, e.length) }
  | .array d dims elems => serializeRaw (.array d dims elems)    -- raw_data = tobytes()
  | .arrayMem d dims mem be nd => serializeRaw (.arrayMem d dims mem be nd)
  | .torch d dims elems => serializeRaw (.torch d dims elems)
  | .packed t => serializeRaw (.packed t)
  | .lazy d dims inner => serializeRaw (.lazy d dims inner)

end IrVerif.TensorRepr

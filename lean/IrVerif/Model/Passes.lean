import IrVerif.Model.Sem
/-!
# Model/Passes.lean — executable models of the built-in passes (property C05)

Transcribed from /repo/src/onnx_ir/passes/common/*.py on the value-id graph IR of Model/Sem.lean.
Names, metadata, shapes and types are not part of this IR (they do not enter the denotation).
Core Lean only.
-/
namespace IrVerif.Passes
open IrVerif.Sem

/-! ## RemoveUnusedNodesPass (unused_removal.py:88-136), without the schema-driven
`_remove_unused_optional_outputs` (differential only) -/

/-- unused_removal.py:77-85 `_remove_trailing_empty_inputs` -/
abbrev trimTrailingNone := trimNone

/-- unused_removal.py:93-97: a node is removable iff no output is a graph output or has uses -/
def dceRemovable (used : List VId) (outs : List VId) : Bool := outs.all (fun o => !used.contains o)

mutual
/-- `_remove_unused_nodes_in_graph_like` (unused_removal.py:88-111).  Returns the processed graph and
    the "ghost" uses: node inputs of nodes nested inside removed nodes.  `Graph.remove(safe=True)`
    (_core.py:3910-3917) detaches only the removed node's own inputs, so uses held by nodes of its
    subgraphs stay registered in `Value.uses()` and keep their producers alive. -/
def dceG : Graph → Graph × List VId
  | .mk inputs outputs inits nodes =>
    (.mk inputs outputs inits (dceNodes outputs [] nodes).1, (dceNodes outputs [] nodes).2)
/-- reverse iteration (`for node in reversed(graph)`): the tail is processed first.  `pre` = uses held
    by the not yet visited nodes in front (they count in `output.uses()`). -/
def dceNodes (gouts : List VId) : List VId → List Node → List Node × List VId
  | _, [] => ([], [])
  | pre, .mk op attrs ins outs bodies :: ns =>
    let r := dceNodes gouts (pre ++ usesN (.mk op attrs ins outs bodies)) ns
    if dceRemovable (gouts ++ (pre ++ usesN (.mk op attrs ins outs bodies)) ++ usesNodes r.1 ++ r.2) outs then
      (r.1, usesBodies bodies ++ r.2)
    else
      ((.mk op attrs (trimTrailingNone ins) outs (dceBodies bodies).1) :: r.1, (dceBodies bodies).2 ++ r.2)
def dceBodies : List Graph → List Graph × List VId
  | [] => ([], [])
  | b :: bs => ((dceG b).1 :: (dceBodies bs).1, (dceG b).2 ++ (dceBodies bs).2)
end

/-- `RemoveUnusedNodesPass.call` (unused_removal.py:122-136): main graph, then unused initializers of
    the main graph, then every function body. -/
def dceModel (m : Model) : Model :=
  let g := (dceG m.graph).1
  let used := usesG g ++ (dceG m.graph).2
  let inits' := g.inits.filter (fun p => used.contains p.1 || g.outputs.contains p.1 || g.inputs.contains p.1)
  { graph := .mk g.inputs g.outputs inits' g.nodes, funcs := m.funcs.map (fun f => (dceG f).1) }

/-! ## IdentityEliminationPass (identity_elimination.py:43-121) -/

/-- the accumulated effect of `replace_all_uses_with(output, input)` calls: newest first -/
abbrev Subst := List (VId × VId)
def Subst.app (σ : Subst) (v : VId) : VId := (σ.lookup v).getD v
def substIns (σ : Subst) (ins : List (Option VId)) : List (Option VId) := ins.map (Option.map σ.app)

mutual
/-- `Value.replace_all_uses_with` seen on the whole nest: every node input is mapped (graph outputs
    are not uses) -/
def substG (σ : Subst) : Graph → Graph
  | .mk inputs outputs inits nodes => .mk inputs outputs inits (substNodes σ nodes)
def substNodes (σ : Subst) : List Node → List Node
  | [] => []
  | n :: ns => substN σ n :: substNodes σ ns
def substN (σ : Subst) : Node → Node
  | .mk op attrs ins outs bodies => .mk op attrs (substIns σ ins) outs (substBodies σ bodies)
def substBodies (σ : Subst) : List Graph → List Graph
  | [] => []
  | b :: bs => substG σ b :: substBodies σ bs
end

/-- result of processing a node list: new nodes, new graph outputs, substitution so far -/
structure IeRes where
  nodes : List Node
  outs : List VId
  σ : Subst

/-- identity_elimination.py:78-89: an `Identity` (domain "") with exactly one present input and one output -/
def ieCandidate (op : OpId) (ins : List (Option VId)) (outs : List VId) : Option (VId × VId) :=
  if isIdentityOp op then
    match ins, outs with
    | [some x], [y] => some (x, y)
    | _, _ => none
  else none

mutual
/-- one graph; `σ` = replacements already made in enclosing graphs (uses inside subgraphs are replaced
    too); replacements made inside stay inside (their values are bound inside). -/
def ieG (ii : List VId) (σ : Subst) : Graph → Graph
  | .mk inputs outputs inits nodes =>
    .mk inputs (ieNodes ii (inputs ++ inits.map Prod.fst ++ outsTop nodes) σ outputs nodes).outs inits
      (ieNodes ii (inputs ++ inits.map Prod.fst ++ outsTop nodes) σ outputs nodes).nodes
/-- `RecursiveGraphIterator` order: a node, then its subgraphs, then the next node.  `ii` = every graph
    input and initializer of the model (`is_graph_input() or is_initializer()`); `loc` = the values
    owned by this graph (`input_value.graph is graph_like`); `outs` = current outputs of this graph
    (`is_graph_output()`). -/
def ieNodes (ii loc : List VId) : Subst → List VId → List Node → IeRes
  | σ, outs, [] => ⟨[], outs, σ⟩
  | σ, outs, .mk op attrs ins nouts bodies :: ns =>
    match ieCandidate op (substIns σ ins) nouts with
    | some (x, y) =>
      if outs.contains y && (ii.contains x || !loc.contains x || outs.contains x) then
        -- case 3 / 3b / 3c (identity_elimination.py:99-117): the output is a graph output and the input
        -- is a graph input, an initializer, a value of an outer scope or itself a graph output: keep
        let r := ieNodes ii loc σ outs ns
        ⟨.mk op attrs (substIns σ ins) nouts (ieBodies ii σ bodies) :: r.nodes, r.outs, r.σ⟩
      else
        -- replace all uses and graph outputs, remove the node (identity_elimination.py:105-121)
        ieNodes ii loc ((y, x) :: σ) (outs.map (fun o => if o = y then x else o)) ns
    | none =>
      let r := ieNodes ii loc σ outs ns
      ⟨.mk op attrs (substIns σ ins) nouts (ieBodies ii σ bodies) :: r.nodes, r.outs, r.σ⟩
def ieBodies (ii : List VId) (σ : Subst) : List Graph → List Graph
  | [] => []
  | b :: bs => ieG ii σ b :: ieBodies ii σ bs
end

mutual
/-- every graph input and initializer in the nest -/
def iiG : Graph → List VId
  | .mk inputs _ inits nodes => inputs ++ inits.map Prod.fst ++ iiNodes nodes
def iiNodes : List Node → List VId
  | [] => []
  | .mk _ _ _ _ bodies :: ns => iiBodies bodies ++ iiNodes ns
def iiBodies : List Graph → List VId
  | [] => []
  | b :: bs => iiG b ++ iiBodies bs
end

/-- `IdentityEliminationPass.call`: main graph, then every function -/
def ieModel (m : Model) : Model :=
  let ii := iiG m.graph ++ m.funcs.flatMap iiG
  { graph := ieG ii [] m.graph, funcs := m.funcs.map (ieG ii []) }

/-! ## CommonSubexpressionEliminationPass (common_subexpression_elimination.py) — main graph only -/

/-! The value stored in the dictionary key for one attribute is `(type, value)` with floats keyed by
their bit pattern, tensors by (shape, dtype, bytes) and string tensors by their strings: two keys are equal
iff the attribute values are equal. -/

/-- common_subexpression_elimination.py `_is_non_deterministic_op` (RandomUniform, RandomNormal,
    RandomUniformLike, RandomNormalLike, Multinomial, Bernoulli; domain "") -/
def isNonDeterministicOp (op : OpId) : Bool :=
  ["RandomUniform", "RandomNormal", "RandomUniformLike", "RandomNormalLike", "Multinomial", "Bernoulli"].contains
    op.name && op.domain == ""

/-- control-flow node, tensor attribute above the size limit, or random op: never a candidate -/
def cseSkip (limit : Nat) (op : OpId) (attrs : List (String × AttrData)) (bodies : List Graph) : Bool :=
  !bodies.isEmpty ||
  attrs.any (fun p => match p.2 with
    | .tensor t => decide (t.shape.foldl (· * ·) 1 > limit)
    | _ => false) ||
  isNonDeterministicOp op

/-- the dictionary keys (operator id, number of outputs, input identities, attribute values) of two
    nodes are equal -/
def cseKeyMatch (n1 n : Node) : Bool :=
  n1.op == n.op && n1.outs.length == n.outs.length && n1.ins == n.ins && n1.attrs == n.attrs

def identityNode (x y : VId) : Node := .mk ⟨"", "Identity", ""⟩ [] [some x] [y] []

/-- `_remove_node_and_replace_values`, the walk over the graph outputs: an output produced by the
    removed node becomes the kept node's value or — if that value already is a graph output/input —
    the output of a new Identity node (the new value takes over the name of the removed one; here it
    takes over its id).  `rep` = the `replaced` dictionary: every occurrence of a value gets the same
    replacement.  Returns the new outputs and the new Identity nodes. -/
def cseFixOuts (gins : List VId) (pairs : List (VId × VId)) :
    List (VId × VId) → List VId → List VId → List VId × List Node
  | _, done, [] => (done, [])
  | rep, done, o :: rest =>
    match rep.lookup o with
    | some w => cseFixOuts gins pairs rep (done ++ [w]) rest
    | none =>
      match pairs.lookup o with
      | some z =>
        if (done ++ rest).contains z || gins.contains z then
          let r := cseFixOuts gins pairs ((o, o) :: rep) (done ++ [o]) rest
          (r.1, identityNode z o :: r.2)
        else cseFixOuts gins pairs ((o, z) :: rep) (done ++ [z]) rest
      | none => cseFixOuts gins pairs rep (done ++ [o]) rest

/-- `_eliminate_common_subexpression`.  `tbl` = the dictionary (kept candidates, oldest first). -/
def cseNodes (limit : Nat) (gins : List VId) : List Node → Subst → List VId → List Node → IeRes
  | _, σ, outs, [] => ⟨[], outs, σ⟩
  | tbl, σ, outs, .mk op attrs ins nouts bodies :: ns =>
    let n' : Node := .mk op attrs (substIns σ ins) nouts (substBodies σ bodies)
    if cseSkip limit op attrs bodies then
      let r := cseNodes limit gins tbl σ outs ns
      ⟨n' :: r.nodes, r.outs, r.σ⟩
    else
      match tbl.find? (fun n1 => cseKeyMatch n1 n') with
      | some n1 =>
        let fx := cseFixOuts gins (nouts.zip n1.outs) [] [] outs
        let r := cseNodes limit gins tbl (nouts.zip n1.outs ++ σ) fx.1 ns
        ⟨fx.2 ++ r.nodes, r.outs, r.σ⟩
      | none =>
        let r := cseNodes limit gins (tbl ++ [n']) σ outs ns
        ⟨n' :: r.nodes, r.outs, r.σ⟩

/-- `CommonSubexpressionEliminationPass(size_limit).call`: the main graph only -/
def cseModel (limit : Nat) (m : Model) : Model :=
  match m.graph with
  | .mk inputs outputs inits nodes =>
    let r := cseNodes limit inputs [] [] outputs nodes
    { graph := .mk inputs r.outs inits r.nodes, funcs := m.funcs }

/-! ## RemoveInitializersFromInputsPass / AddInitializersToInputsPass
(constant_manipulation.py:199-251): the main graph only (the inputs of a subgraph are bound by position by
the operator that owns it) -/

/-- rewrite the input list of one graph: `f inputs initializerIds` -/
def mapInputsTop (f : List VId → List VId → List VId) : Graph → Graph
  | .mk inputs outputs inits nodes => .mk (f inputs (inits.map Prod.fst)) outputs inits nodes

/-- constant_manipulation.py:209-222 -/
def removeInitsFromInputs (inputs initIds : List VId) : List VId :=
  inputs.filter (fun v => !initIds.contains v)
/-- constant_manipulation.py:238-248 -/
def addInitsToInputs (inputs initIds : List VId) : List VId :=
  inputs ++ initIds.filter (fun v => !inputs.contains v)

def rmInitInputsModel (m : Model) : Model :=
  { graph := mapInputsTop removeInitsFromInputs m.graph, funcs := m.funcs }
def addInitInputsModel (m : Model) : Model :=
  { graph := mapInputsTop addInitsToInputs m.graph, funcs := m.funcs }

/-! ## LiftConstantsToInitializersPass (constant_manipulation.py:23-141): main graph and subgraphs -/

def numel (t : Tensor) : Nat := t.shape.foldl (· * ·) 1

/-- constant_manipulation.py:39-66 and `_constant_node_attribute_to_tensor` (95-141): the Constant
    node (domain "" / "onnx.ai") whose single output `y` is not a graph output, with exactly one
    attribute, convertible to a tensor with at least `limit` elements.  The new initializer value
    takes over the name of `y`; here it takes over its id. -/
def liftCandidate (liftAll : Bool) (limit : Nat) (gouts : List VId) (op : OpId)
    (attrs : List (String × AttrData)) (outs : List VId) : Option (VId × Tensor) :=
  match outs, constOf op attrs with
  | [y], some t =>
    if gouts.contains y || (!liftAll && attrs.any (fun p => p.1 != "value")) || decide (numel t < limit)
    then none else some (y, t)
  | _, _ => none

mutual
def liftG (liftAll : Bool) (limit : Nat) : Graph → Graph
  | .mk inputs outputs inits nodes =>
    .mk inputs outputs (inits ++ (liftNodes liftAll limit outputs nodes).2) (liftNodes liftAll limit outputs nodes).1
/-- returns the remaining nodes and the new initializers of this graph (registration order) -/
def liftNodes (liftAll : Bool) (limit : Nat) (gouts : List VId) : List Node → List Node × List (VId × Tensor)
  | [] => ([], [])
  | .mk op attrs ins outs bodies :: ns =>
    match liftCandidate liftAll limit gouts op attrs outs with
    | some p => ((liftNodes liftAll limit gouts ns).1, p :: (liftNodes liftAll limit gouts ns).2)
    | none =>
      (.mk op attrs ins outs (liftBodies liftAll limit bodies) :: (liftNodes liftAll limit gouts ns).1,
        (liftNodes liftAll limit gouts ns).2)
def liftBodies (liftAll : Bool) (limit : Nat) : List Graph → List Graph
  | [] => []
  | b :: bs => liftG liftAll limit b :: liftBodies liftAll limit bs
end

def liftConstModel (liftAll : Bool) (limit : Nat) (m : Model) : Model :=
  { graph := liftG liftAll limit m.graph, funcs := m.funcs }

/-! ## DeduplicateInitializersPass / DeduplicateHashedInitializersPass
(initializer_deduplication.py:19-179): every graph of `model.graphs()` = main graph and its subgraphs.
The hashed variant keys on a SHA-512 digest of the same content and re-checks it; assuming no digest
collision it is the same function with another default size limit. -/

/-- initializer_deduplication.py `_tobytes` and the key `(dtype, shape, _tobytes)`: raw bytes for numeric
    tensors, the tuple of strings for string tensors — the key is the tensor -/
abbrev DedupKey := Nat × List Nat × List Nat × List (List Nat)
def dedupKey (t : Tensor) : DedupKey := (t.dtype, t.shape, t.bytes, t.strs)

/-- one graph's initializers in order (initializer_deduplication.py:19-45, 93-119).  `io` = inputs
    and outputs of the graph (skipped), `seen` = key ↦ first initializer.  Returns the remaining
    initializers and the replacements (duplicate, kept). -/
def dedupInits (limit : Nat) (io : List VId) :
    List (DedupKey × VId) → List (VId × Tensor) → List (VId × Tensor) × Subst
  | _, [] => ([], [])
  | seen, (v, t) :: rest =>
    if io.contains v || decide (numel t > limit) then
      ((v, t) :: (dedupInits limit io seen rest).1, (dedupInits limit io seen rest).2)
    else
      match seen.lookup (dedupKey t) with
      | some k => ((dedupInits limit io seen rest).1, (v, k) :: (dedupInits limit io seen rest).2)
      | none =>
        ((v, t) :: (dedupInits limit io ((dedupKey t, v) :: seen) rest).1,
          (dedupInits limit io ((dedupKey t, v) :: seen) rest).2)

mutual
/-- `σ` = replacements made in enclosing graphs (uses inside subgraphs are replaced too) -/
def dedupG (limit : Nat) (σ : Subst) : Graph → Graph
  | .mk inputs outputs inits nodes =>
    .mk inputs outputs (dedupInits limit (inputs ++ outputs) [] inits).1
      (dedupNodes limit ((dedupInits limit (inputs ++ outputs) [] inits).2 ++ σ) nodes)
def dedupNodes (limit : Nat) (σ : Subst) : List Node → List Node
  | [] => []
  | .mk op attrs ins outs bodies :: ns =>
    .mk op attrs (substIns σ ins) outs (dedupBodies limit σ bodies) :: dedupNodes limit σ ns
def dedupBodies (limit : Nat) (σ : Subst) : List Graph → List Graph
  | [] => []
  | b :: bs => dedupG limit σ b :: dedupBodies limit σ bs
end

def dedupModel (limit : Nat) (m : Model) : Model :=
  { graph := dedupG limit [] m.graph, funcs := m.funcs }

/-! ## OutputFixPass (output_fix.py:25-143): main graph, functions and all of their subgraphs -/

/-- `_alias_multi_used_outputs` for one graph (output_fix.py:76-105): the second and later
    occurrences of a value in the output list are replaced by the output of a new Identity node
    appended to the graph.  `next` = fresh value id.  Returns outputs, new nodes, next fresh id. -/
def ofixMulti : List VId → List VId → Nat → List VId × List Node × Nat
  | _, [], next => ([], [], next)
  | seen, o :: rest, next =>
    if seen.contains o then
      (next :: (ofixMulti seen rest (next + 1)).1,
        identityNode o next :: (ofixMulti seen rest (next + 1)).2.1, (ofixMulti seen rest (next + 1)).2.2)
    else
      (o :: (ofixMulti (o :: seen) rest next).1, (ofixMulti (o :: seen) rest next).2.1,
        (ofixMulti (o :: seen) rest next).2.2)

/-- `_alias_direct_outputs` for one graph (output_fix.py:114-141): an output that is a graph input
    (`is_graph_input()`, `gi` = every graph input of the model) is replaced by the output of a new
    Identity node appended to the graph -/
def ofixDirect (gi : List VId) : List VId → Nat → List VId × List Node × Nat
  | [], next => ([], [], next)
  | o :: rest, next =>
    if gi.contains o then
      (next :: (ofixDirect gi rest (next + 1)).1,
        identityNode o next :: (ofixDirect gi rest (next + 1)).2.1, (ofixDirect gi rest (next + 1)).2.2)
    else
      (o :: (ofixDirect gi rest next).1, (ofixDirect gi rest next).2.1, (ofixDirect gi rest next).2.2)

/-- `output.name = f"{output.name}_orig"` (output_fix.py:132) on a value that is also an initializer
    re-keys it in the initializer dictionary (`Value.name` setter, _core.py:3290-3298: pop, then
    insert): the entry moves to the end -/
def moveToEnd (o : VId) (inits : List (VId × Tensor)) : List (VId × Tensor) :=
  inits.filter (fun p => p.1 != o) ++ inits.filter (fun p => !(p.1 != o))

/-- the values the direct-output Identity nodes read, in the order they were fixed -/
def fixedInputs (ns : List Node) : List VId := ns.filterMap (fun n => n.ins.head?.join)

mutual
/-- per graph the multi-use Identity nodes are appended before the direct-output ones (the pass runs
    `_alias_multi_used_outputs` over all graphs, then `_alias_direct_outputs`) -/
def ofixG (gi : List VId) (next : Nat) : Graph → Graph × Nat
  | .mk inputs outputs inits nodes =>
    let rn := ofixNodes gi next nodes
    let r1 := ofixMulti [] outputs rn.2
    let r2 := ofixDirect gi r1.1 r1.2.2
    (.mk inputs r2.1 ((fixedInputs r2.2.1).foldl (fun acc o => moveToEnd o acc) inits)
      (rn.1 ++ r1.2.1 ++ r2.2.1), r2.2.2)
def ofixNodes (gi : List VId) (next : Nat) : List Node → List Node × Nat
  | [] => ([], next)
  | .mk op attrs ins outs bodies :: ns =>
    let rb := ofixBodies gi next bodies
    let rn := ofixNodes gi rb.2 ns
    (.mk op attrs ins outs rb.1 :: rn.1, rn.2)
def ofixBodies (gi : List VId) (next : Nat) : List Graph → List Graph × Nat
  | [] => ([], next)
  | b :: bs =>
    let r := ofixG gi next b
    let rs := ofixBodies gi r.2 bs
    (r.1 :: rs.1, rs.2)
end

mutual
/-- every graph input in the nest -/
def ginsG : Graph → List VId
  | .mk inputs _ _ nodes => inputs ++ ginsNodes nodes
def ginsNodes : List Node → List VId
  | [] => []
  | .mk _ _ _ _ bodies :: ns => ginsBodies bodies ++ ginsNodes ns
def ginsBodies : List Graph → List VId
  | [] => []
  | b :: bs => ginsG b ++ ginsBodies bs
end

/-- a value id above every id of the model -/
def freshId (m : Model) : Nat :=
  1 + (refsG m.graph ++ defsG m.graph ++ refsBodies m.funcs ++ defsBodies m.funcs).foldl max 0

def ofixModel (m : Model) : Model :=
  let gi := ginsG m.graph ++ ginsBodies m.funcs
  let r := ofixG gi (freshId m) m.graph
  { graph := r.1, funcs := (ofixBodies gi r.2 m.funcs).1 }

/-! ## LiftSubgraphInitializersToMainGraphPass (constant_manipulation.py:144-196) -/

mutual
/-- a graph below the main graph: its initializers that are neither its inputs nor its outputs are
    removed and returned (own ones first, then those of nested graphs: the order of `model.graphs()`) -/
def lsiG : Graph → Graph × List (VId × Tensor)
  | .mk inputs outputs inits nodes =>
    (.mk inputs outputs (inits.filter (fun p => inputs.contains p.1 || outputs.contains p.1)) (lsiNodes nodes).1,
      inits.filter (fun p => !(inputs.contains p.1 || outputs.contains p.1)) ++ (lsiNodes nodes).2)
def lsiNodes : List Node → List Node × List (VId × Tensor)
  | [] => ([], [])
  | .mk op attrs ins outs bodies :: ns =>
    (.mk op attrs ins outs (lsiBodies bodies).1 :: (lsiNodes ns).1, (lsiBodies bodies).2 ++ (lsiNodes ns).2)
def lsiBodies : List Graph → List Graph × List (VId × Tensor)
  | [] => ([], [])
  | b :: bs => ((lsiG b).1 :: (lsiBodies bs).1, (lsiG b).2 ++ (lsiBodies bs).2)
end

/-- the lifted initializers are registered in the main graph (appended; renaming on a name clash
    does not change identities) -/
def lsiModel (m : Model) : Model :=
  match m.graph with
  | .mk inputs outputs inits nodes =>
    { graph := .mk inputs outputs (inits ++ (lsiNodes nodes).2) (lsiNodes nodes).1, funcs := m.funcs }

/-! ## TopologicalSortPass (topological_sort.py, `Graph.sort` _core.py:3988-4089) as a permutation

The sort algorithm itself (Kahn's algorithm over the whole nest, stability) is the subject of C12.
For C05 the pass is modelled by the relation "`g'` is `g` with the node list of every graph of the
nest permuted" (`reorderG g g'`, decidable; the driver evaluates it on the real result): the theorem
says that ANY such reordering that is again topologically ordered denotes the same function. -/

mutual
def reorderG : Graph → Graph → Bool
  | .mk inputs outputs inits nodes, g' =>
    inputs == g'.inputs && outputs == g'.outputs && inits == g'.inits && reorderNodes nodes g'.nodes
/-- every node of the first list has a counterpart (same outputs, operator, attributes, inputs,
    bodies reordered) in the second list, which has no other nodes -/
def reorderNodes : List Node → List Node → Bool
  | [], ns' => ns'.isEmpty
  | .mk op attrs ins outs bodies :: ns, ns' =>
    match ns'.findIdx? (fun n' => n'.outs == outs) with
    | some k =>
      (match ns'[k]? with
       | some n' => n'.op == op && n'.attrs == attrs && n'.ins == ins && reorderBodies bodies n'.bodies
       | none => false) && reorderNodes ns (ns'.eraseIdx k)
    | none => false
def reorderBodies : List Graph → List Graph → Bool
  | [], bs' => bs'.isEmpty
  | b :: bs, bs' =>
    match bs' with
    | b' :: rest => reorderG b b' && reorderBodies bs rest
    | [] => false
end

def reorderModel (m m' : Model) : Bool :=
  reorderG m.graph m'.graph && reorderBodies m.funcs m'.funcs

/-- on a model whose graphs are topologically ordered (part of `validModel`) the stable sort leaves
    every node list as it is (C12: stability): in pass sequences the pass is the identity -/
def topoSortModel (m : Model) : Model := m

/-! ## ClearMetadataAndDocStringPass, NameFixPass: they change only metadata, doc strings and names,
none of which is part of this IR (value identity is the id): the identity on it.  What is checked
for them is the correspondence (the structure of the real result is the structure of the input)
and the evaluation oracle. -/
def clearMetaModel (m : Model) : Model := m
def nameFixModel (m : Model) : Model := m

/-! ## pass sequences (PassManager / Sequential: one pass after the other on the same model) -/

inductive PassId where
  | dce
  | identity
  | cse (limit : Nat)
  | dedup (limit : Nat)
  | liftConst (liftAll : Bool) (limit : Nat)
  | liftSubInits
  | rmInitInputs
  | addInitInputs
  | outputFix
  | clearMeta
  | nameFix
  | topoSort
deriving Repr, DecidableEq

def PassId.run : PassId → Model → Model
  | .dce => dceModel
  | .identity => ieModel
  | .cse limit => cseModel limit
  | .dedup limit => dedupModel limit
  | .liftConst a l => liftConstModel a l
  | .liftSubInits => lsiModel
  | .rmInitInputs => rmInitInputsModel
  | .addInitInputs => addInitInputsModel
  | .outputFix => ofixModel
  | .clearMeta => clearMetaModel
  | .nameFix => nameFixModel
  | .topoSort => topoSortModel

/-- what the theorem about the pass assumes of its input model (decidable; evaluated by the driver
    before every step of every generated sequence) -/
def PassId.pre : PassId → Model → Bool
  | .rmInitInputs, _ | .addInitInputs, _ | .clearMeta, _ | .nameFix, _ => true
  | .topoSort, m => validModel m
  | _, m => validModel m

def runPasses : List PassId → Model → Model
  | [], m => m
  | p :: ps, m => runPasses ps (p.run m)

/-- every pass of the sequence meets a model that satisfies its assumptions -/
def chainOK : List PassId → Model → Bool
  | [], _ => true
  | p :: ps, m => p.pre m && chainOK ps (p.run m)

end IrVerif.Passes

/-
Functions of a model (`ModelProto.functions`, `_core.Function`), on top of `IrVerif.Model.Scope`.

Python anchors (onnx/ir-py, `src/onnx_ir/serde.py`):
* `deserialize_function`      949-1004  (own scope, no enclosing scope; `FunctionProto.value_info` read for the
                                          inputs and the node outputs; `values[name]` for the outputs: KeyError)
* `deserialize_model`         612-660   (`functions.append(deserialize_function(func))`, then
                                          `{func.identifier(): func for func in functions}` in `_core.Model`)
* `serialize_function_into`   1974-2035 (IR version >= 10: value_info inside the function, for the inputs and
                                          for EVERY node output that has something to say)
* `serialize_model_into`      1590-1602

What is abstracted: the function's attributes, opset imports, doc string and metadata; the IR < 10 format
(value info of function values stored under `domain::name/value` in the main graph) is covered by the
correspondence check and the oracle only.  A function is a graph without initializers whose scope stack is
empty.  Core Lean only.
-/
import IrVerif.Model.Scope
namespace IrVerif.Scope

/-- `OperatorIdentifier`: (domain, name, overload) -/
structure FId where
  domain : String
  name : String
  overload : String
deriving DecidableEq, Repr, Inhabited

/-- `FunctionProto` (IR version >= 10) -/
structure FuncP where
  id : FId
  inputs : List Name
  outputs : List Name
  vinfo : List VInfoP
  nodes : List NodeP

instance : Inhabited FuncP := ⟨⟨default, [], [], [], []⟩⟩

/-- `ModelProto`: the main graph and the functions -/
structure ModelP where
  graph : GraphP
  funcs : List FuncP

/-- 968-973: one `Value(name=x)` per function input, then the `value_info` entry of that name, if any -/
def deserFInputs (st : Store) (vi : List (Name × Info)) : List Name → Store × List Nat
  | [] => (st, [])
  | x :: xs => ((deserFInputs (newNamed st vi x) vi xs).1, st.nv :: (deserFInputs (newNamed st vi x) vi xs).2)

/-- 969: `{v.name: v for v in inputs}` -/
def finputTable (xs : List Name) (vs : List Nat) : Table := (xs.zip vs).reverse

/-- 988: `[values[name] for name in proto.output]` -/
def deserFOutputs (tbl : Table) : List Name → Except Err (List Nat)
  | [] => .ok []
  | x :: xs =>
    match tbl.lookup x with
    | none => .error (.keyError x)
    | some v =>
      match deserFOutputs tbl xs with
      | .error e => .error e
      | .ok vs => .ok (v :: vs)

/-- `deserialize_function` -/
def deserFunction (st : Store) (f : FuncP) : Except Err (Store × GraphT) :=
  let vi := vinfoTable f.vinfo
  let r1 := deserFInputs st vi f.inputs
  match declareNodes r1.1 (finputTable f.inputs r1.2) vi f.nodes with
  | .error e => .error e
  | .ok (st2, tbl2) =>
    match deserNodes st2 tbl2 [] vi f.nodes with
    | .error e => .error e
    | .ok (st3, tbl3, ns) =>
      match deserFOutputs tbl3 f.outputs with
      | .error e => .error e
      | .ok outs => .ok (mkGraph st3 r1.2 outs ns [])

/-- `{func.identifier(): func for func in functions}`: first position, last value -/
def fdictInsert (d : List (FId × GraphT)) (k : FId) (g : GraphT) : List (FId × GraphT) :=
  match d with
  | [] => [(k, g)]
  | (k', g') :: r => if k' = k then (k', g) :: r else (k', g') :: fdictInsert r k g

/-- the functions of a model, in proto order; every function is deserialized, the dict keeps the last
    one of an identifier -/
def deserFuncs (st : Store) (d : List (FId × GraphT)) : List FuncP → Except Err (Store × List (FId × GraphT))
  | [] => .ok (st, d)
  | f :: fs =>
    match deserFunction st f with
    | .error e => .error e
    | .ok (st1, g) => deserFuncs st1 (fdictInsert d f.id g) fs

/-- an IR model with functions -/
structure MWorld where
  st : Store
  root : GraphT
  funcs : List (FId × GraphT)

/-- `deserialize_model` (main graph and functions) on an empty heap -/
def deserializeM (p : ModelP) : Except Err MWorld :=
  match deserGraph {} [] p.graph with
  | .error e => .error e
  | .ok (st, g) =>
    match deserFuncs st [] p.funcs with
    | .error e => .error e
    | .ok (st1, fs) => .ok ⟨st1, g, fs⟩

/-- 2006-2013: `function_proto.input.append(input_.name)` (raises on `None`) and the value_info entry -/
def serFInputs (vals : Nat → ValueS) : List Nat → Except SErr (List Name × List VInfoP)
  | [] => .ok ([], [])
  | v :: vs =>
    match (vals v).name with
    | none => .error .nameNone
    | some n =>
      match serFInputs vals vs with
      | .error e => .error e
      | .ok (ns, vis) =>
        .ok (n :: ns, if shouldCreate (vals v) then ⟨n, (vals v).info.emit⟩ :: vis else vis)

/-- `serialize_function_into` (IR version >= 10).  The node loop is `serNodes` with no graph outputs to
    skip: every node output that has something to say gets a value_info entry. -/
def serFunction (vals : Nat → ValueS) (td : TData) (f : FId × GraphT) : Except SErr (FuncP × Writes) :=
  match f with
  | (id, .mk _ inputs _ nodes outputs) =>
    match serFInputs vals inputs with
    | .error e => .error e
    | .ok (ins, vis1) =>
      match serOutNames vals outputs with
      | .error e => .error e
      | .ok outs =>
        match serNodes vals td [] nodes with
        | .error e => .error e
        | .ok (nps, vis2, ws) => .ok (⟨id, ins, outs, vis1 ++ vis2, nps⟩, ws)

def serFuncs (vals : Nat → ValueS) (td : TData) : List (FId × GraphT) → Except SErr (List FuncP × Writes)
  | [] => .ok ([], [])
  | f :: fs =>
    match serFunction vals td f with
    | .error e => .error e
    | .ok (fp, ws1) =>
      match serFuncs vals td fs with
      | .error e => .error e
      | .ok (fps, ws2) => .ok (fp :: fps, ws1 ++ ws2)

/-- `serialize_model`: the IR afterwards (tensor names of initializers aligned) and the proto -/
def serializeM (w : MWorld) : Except SErr (MWorld × ModelP) :=
  match serGraph w.st.vals w.st.tdata w.root with
  | .error e => .error e
  | .ok (p, ws1) =>
    match serFuncs w.st.vals w.st.tdata w.funcs with
    | .error e => .error e
    | .ok (fps, ws2) => .ok (⟨w.st.writes (ws1 ++ ws2), w.root, w.funcs⟩, ⟨p, fps⟩)

end IrVerif.Scope

import IrVerif.Model.ScopeSerdeBridge
/-!
Definitions of the C02 bridge WITH nested graphs (`IrVerif/Lemmas/ScopeSerdeBridgeSub*.lean` prove the theorems):
`absGFull` (proto abstraction), `absIRFull` (IR abstraction, creation-order numbering across nested graphs), the
decidable fragments `sharedFull` / `sharedSFull` and the decidable side condition `GOKFull`.  Core Lean only.
-/
namespace IrVerif.Bridge
open IrVerif.Proto IrVerif.Serde

/-! ## proto abstraction -/

mutual
/-- the graphs of one attribute: GRAPH -> one graph, GRAPHS -> its graphs -/
def subsAttr : AttrP → List Scope.GraphP
  | .graph _ _ g => [absGFull g]
  | .graphs _ _ gs => absGsFull gs
  | .ref .. | .int .. | .float .. | .string .. | .ints .. | .floats .. | .strings .. | .tensor .. | .tensors ..
  | .typeProto .. | .typeProtos .. | .undefined .. | .sparse .. | .unknown .. => []
def absGsFull : List GraphP → List Scope.GraphP
  | [] => []
  | g :: gs => absGFull g :: absGsFull gs
/-- `Scope.NodeP.subs`: the graphs of the GRAPH / GRAPHS attributes in attribute order -/
def subsAttrs : List AttrP → List Scope.GraphP
  | [] => []
  | a :: as => subsAttr a ++ subsAttrs as
def absNFull : NodeP → Scope.NodeP
  | .mk inputs outputs _ _ _ _ _ attrs _ _ => .mk inputs outputs (subsAttrs attrs)
def absNsFull : List NodeP → List Scope.NodeP
  | [] => []
  | n :: ns => absNFull n :: absNsFull ns
def absGFull : GraphP → Scope.GraphP
  | .mk _ _ nodes inits inputs outputs vis _ _ =>
    .mk (inputs.map absVI) (inits.map absT) (vis.map absVI) (absNsFull nodes) (outputs.map absVI)
end

/-- the shared fragment with nested graphs: C02's well-formedness -/
def sharedFull (g : GraphP) : Bool := wfGraph [] g

/-! ## IR abstraction: cells, counters, tree -/

mutual
def cellsAttr : IRAttr → List Cell
  | .graph _ _ g => cellsG g
  | .graphs _ _ gs => cellsGs gs
  | .ref .. | .int .. | .float .. | .string .. | .ints .. | .floats .. | .strings .. | .tensor .. | .tensors ..
  | .typeProto .. | .typeProtos .. | .undefined .. => []
def cellsGs : List IRGraph → List Cell
  | [] => []
  | g :: gs => cellsG g ++ cellsGs gs
def cellsAttrs : List IRAttr → List Cell
  | [] => []
  | a :: as => cellsAttr a ++ cellsAttrs as
/-- the values a node creates: its anonymous outputs, then the values of its nested graphs -/
def cellsNode : IRNode → List Cell
  | .mk _ _ _ _ _ _ outs attrs _ _ => List.replicate (numNone outs) blankCell ++ cellsAttrs attrs
def cellsNodes : List IRNode → List Cell
  | [] => []
  | n :: ns => cellsNode n ++ cellsNodes ns
/-- the values a graph creates, in creation order: table, nodes, unbound graph outputs -/
def cellsG : IRGraph → List Cell
  | .mk tbl _ _ nodes outs _ _ _ _ => tbl.map absCell ++ cellsNodes nodes ++ dangCells outs
end

mutual
def nnAttr : IRAttr → Nat
  | .graph _ _ g => nnG g
  | .graphs _ _ gs => nnGs gs
  | .ref .. | .int .. | .float .. | .string .. | .ints .. | .floats .. | .strings .. | .tensor .. | .tensors ..
  | .typeProto .. | .typeProtos .. | .undefined .. => 0
def nnGs : List IRGraph → Nat
  | [] => 0
  | g :: gs => nnG g + nnGs gs
def nnAttrs : List IRAttr → Nat
  | [] => 0
  | a :: as => nnAttr a + nnAttrs as
def nnNode : IRNode → Nat
  | .mk _ _ _ _ _ _ _ attrs _ _ => nnAttrs attrs + 1
def nnNodes : List IRNode → Nat
  | [] => 0
  | n :: ns => nnNode n + nnNodes ns
/-- number of nodes created while a graph is deserialized -/
def nnG : IRGraph → Nat
  | .mk _ _ _ nodes _ _ _ _ _ => nnNodes nodes
end

mutual
def ngAttr : IRAttr → Nat
  | .graph _ _ g => ngG g
  | .graphs _ _ gs => ngGs gs
  | .ref .. | .int .. | .float .. | .string .. | .ints .. | .floats .. | .strings .. | .tensor .. | .tensors ..
  | .typeProto .. | .typeProtos .. | .undefined .. => 0
def ngGs : List IRGraph → Nat
  | [] => 0
  | g :: gs => ngG g + ngGs gs
def ngAttrs : List IRAttr → Nat
  | [] => 0
  | a :: as => ngAttr a + ngAttrs as
def ngNode : IRNode → Nat
  | .mk _ _ _ _ _ _ _ attrs _ _ => ngAttrs attrs
def ngNodes : List IRNode → Nat
  | [] => 0
  | n :: ns => ngNode n + ngNodes ns
/-- number of graphs created while a graph is deserialized (itself included) -/
def ngG : IRGraph → Nat
  | .mk _ _ _ nodes _ _ _ _ _ => ngNodes nodes + 1
end

/-- creation index of the value a reference denotes: `bases` = value-counter bases of the enclosing graphs,
    innermost first -/
def refId (bases : List Nat) (r : Ref) : Nat := bases.getD r.up 0 + r.idx

def absInsB (bases : List Nat) (rs : List (Option Ref)) : List (Option Nat) := rs.map fun r => r.map (refId bases)

/-- node outputs: table value `j` of the graph entered at `b`; an anonymous output gets the next fresh index -/
def absOutsB (b : Nat) : Nat → List (Option Nat) → List Nat
  | _, [] => []
  | k, some j :: r => (b + j) :: absOutsB b k r
  | k, none :: r => k :: absOutsB b (k + 1) r

def absGOutsB (b : Nat) : Nat → List IRGOut → List Nat
  | _, [] => []
  | k, .tbl i :: r => (b + i) :: absGOutsB b k r
  | k, .dangling _ :: r => k :: absGOutsB b (k + 1) r

mutual
def treeAttr (bases : List Nat) (k nn ng : Nat) : IRAttr → List Scope.GraphT
  | .graph _ _ g => [treeG bases k nn ng g]
  | .graphs _ _ gs => treeGs bases k nn ng gs
  | .ref .. | .int .. | .float .. | .string .. | .ints .. | .floats .. | .strings .. | .tensor .. | .tensors ..
  | .typeProto .. | .typeProtos .. | .undefined .. => []
def treeGs (bases : List Nat) (k nn ng : Nat) : List IRGraph → List Scope.GraphT
  | [] => []
  | g :: gs => treeG bases k nn ng g :: treeGs bases (k + (cellsG g).length) (nn + nnG g) (ng + ngG g) gs
def treeAttrs (bases : List Nat) (k nn ng : Nat) : List IRAttr → List Scope.GraphT
  | [] => []
  | a :: as =>
    treeAttr bases k nn ng a ++ treeAttrs bases (k + (cellsAttr a).length) (nn + nnAttr a) (ng + ngAttr a) as
/-- a node of a graph entered at `bases.head`; `k` / `nn` / `ng` = the counters when the node is reached -/
def treeNode (bases : List Nat) (k nn ng : Nat) : IRNode → Scope.NodeT
  | .mk _ _ _ _ _ ins outs attrs _ _ =>
    .mk (nn + nnAttrs attrs) none (absInsB bases ins) (absOutsB (bases.headD 0) k outs)
      (treeAttrs bases (k + numNone outs) nn ng attrs)
def treeNodes (bases : List Nat) (k nn ng : Nat) : List IRNode → List Scope.NodeT
  | [] => []
  | n :: ns =>
    treeNode bases k nn ng n :: treeNodes bases (k + (cellsNode n).length) (nn + nnNode n) (ng + ngNode n) ns
/-- a graph entered at value counter `k`, node counter `nn`, graph counter `ng`; `bases` = bases of the
    enclosing graphs -/
def treeG (bases : List Nat) (k nn ng : Nat) : IRGraph → Scope.GraphT
  | .mk tbl inputs inits nodes outs _ _ _ _ =>
    .mk (ng + ngNodes nodes) (inputs.map (k + ·))
      (inits.map fun i => ((tbl.getD i (IRValue.blank "")).name, k + i))
      ((treeNodes (k :: bases) (k + tbl.length) nn ng nodes).map (Scope.NodeT.setGraph (ng + ngNodes nodes)))
      (absGOutsB k (k + tbl.length + (cellsNodes nodes).length) outs)
end

/-- the Scope world (without derived links) of a top-level C02 graph, nested graphs included -/
def absIRFull (g : IRGraph) : Core := ⟨cellsG g, treeG [] 0 0 0 g⟩

/-! ## the decidable side condition -/

/-- a reference points into a table of the scope chain; `lens` = table lengths, innermost first -/
def refOKF (lens : List Nat) : Option Ref → Bool
  | none => true
  | some r => decide (r.idx < lens.getD r.up 0)

mutual
def okAttr (lens : List Nat) : IRAttr → Bool
  | .graph _ _ g => okG lens g
  | .graphs _ _ gs => okGs lens gs
  | .ref .. | .int .. | .float .. | .string .. | .ints .. | .floats .. | .strings .. | .tensor .. | .tensors ..
  | .typeProto .. | .typeProtos .. | .undefined .. => true
def okGs (lens : List Nat) : List IRGraph → Bool
  | [] => true
  | g :: gs => okG lens g && okGs lens gs
def okAttrs (lens : List Nat) : List IRAttr → Bool
  | [] => true
  | a :: as => okAttr lens a && okAttrs lens as
/-- `lens.head` = length of the table of the node's graph -/
def okNode (lens : List Nat) : IRNode → Bool
  | .mk _ _ _ _ _ ins outs attrs _ _ =>
    ins.all (refOKF lens) && outs.all (outOK (lens.headD 0)) && okAttrs lens attrs
def okNodes (lens : List Nat) : List IRNode → Bool
  | [] => true
  | n :: ns => okNode lens n && okNodes lens ns
/-- `GOK` with nested graphs; `lens` = table lengths of the enclosing graphs -/
def okG (lens : List Nat) : IRGraph → Bool
  | .mk tbl inputs inits nodes outs _ _ _ _ =>
    tbl.all (fun v => valOK v && tensOK v) && inputs.all (fun i => decide (i < tbl.length)) &&
      inits.all (fun i => decide (i < tbl.length)) && okNodes (tbl.length :: lens) nodes &&
      outs.all (goutOK tbl.length)
end

/-- what the simulation of serialization needs from a C02 IR graph, nested graphs included (decidable) -/
def GOKFull (g : IRGraph) : Bool := okG [] g

/-! ## graphs without nested graphs (IR side) -/

def irHasGraph : IRAttr → Bool
  | .graph .. | .graphs .. => true
  | _ => false

def attrsOf : IRNode → List IRAttr
  | .mk _ _ _ _ _ _ _ a _ _ => a

/-- no node of the IR graph holds a graph -/
def noSubIR (g : IRGraph) : Bool := g.nodes.all fun n => (attrsOf n).all fun a => !irHasGraph a

/-! ## the fragment of the serialization bridge, nested graphs included -/

mutual
/-- `f` holds of every graph nested in the attribute -/
def allAttr (f : GraphP → Bool) : AttrP → Bool
  | .graph _ _ g => allG f g
  | .graphs _ _ gs => allGs f gs
  | .ref .. | .int .. | .float .. | .string .. | .ints .. | .floats .. | .strings .. | .tensor .. | .tensors ..
  | .typeProto .. | .typeProtos .. | .undefined .. | .sparse .. | .unknown .. => true
def allGs (f : GraphP → Bool) : List GraphP → Bool
  | [] => true
  | g :: gs => allG f g && allGs f gs
def allAttrs (f : GraphP → Bool) : List AttrP → Bool
  | [] => true
  | a :: as => allAttr f a && allAttrs f as
def allNode (f : GraphP → Bool) : NodeP → Bool
  | .mk _ _ _ _ _ _ _ attrs _ _ => allAttrs f attrs
def allNodes (f : GraphP → Bool) : List NodeP → Bool
  | [] => true
  | n :: ns => allNode f n && allNodes f ns
/-- `f` holds of the graph and of every graph nested in it (at any depth) -/
def allG (f : GraphP → Bool) : GraphP → Bool
  | .mk name doc nodes inits inputs outputs vis quant metadata =>
    f (.mk name doc nodes inits inputs outputs vis quant metadata) && allNodes f nodes
end

/-- no value-level metadata_props on inputs / outputs / value_info of the graph and of every nested graph -/
def noValueMetaFull (g : GraphP) : Bool := allG noValueMeta g

/-- every initializer tensor of the graph and of every nested graph is in canonical form -/
def canonTensorsFull (g : GraphP) : Bool := allG canonTensors g

/-- the fragment of the serialization bridge, nested graphs included (decidable) -/
def sharedSFull (g : GraphP) : Bool := wfGraph [] g && noValueMetaFull g && canonTensorsFull g

end IrVerif.Bridge

/-
Model of `src/onnx_ir/_cloner.py` (class `Cloner`: value map, `_clone_or_get_value`, `clone_attr`,
`clone_meta`, `clone_node`, `_remap_device_configurations`, `clone_graph`), of the constructors it
calls (`Value.__init__`, `Node.__init__`, `Graph.__init__` with the `_graph_containers` ownership
checks) and of the clone entry points `Graph.clone`, `GraphView.clone`, `Function.clone`,
`Model.clone` (`src/onnx_ir/_core.py`) and `passes/_pass_infra.py` `_FunctionalPassWrapper.call`.
The second part is the editing alphabet used by the frame theorem (setters of `Value`, `Node`,
`Graph`, `Shape`, the type objects and the metadata containers: `Edit`, 31 calls), the third the
extended alphabet `Edit2` (graph inputs, initializer mapping, `sort`, `insert_before/after`,
`replace_all_uses_with`, `resize_inputs/outputs`, `model.functions`; `_core.py`,
`_graph_containers.py`, `_linked_list.py`), the last the scope walker `cloneVerdict` (when does
`clone` succeed / raise).

Objects live in ONE heap (`World = List Cell`) indexed by creation order.  Everything Python shares
by reference is a separate cell: values, nodes, graphs, *type objects*, *shape objects*, *metadata
containers* (`metadata_props` dicts and `meta` stores) and *attribute objects*.  So "the clone's
value has the same type object as the original's" is expressible (and is what D32 was).  Tensors,
attribute payloads and device-configuration payloads are opaque shared ids (`Nat`).

Deliberate abstractions (all stated in harness/c13.py ASSUMPTIONS):
* metadata containers are allocated together with their owner (Python creates them lazily on first
  access; not observable through the public API);
* a type object is ONE cell holding its wrapper chain (`Sequence(Optional(Tensor(dt)))`); sharing of
  an *inner* type object between two different outer type objects is not expressible;
* `meta` values are opaque atoms (so `deep_copy=True` is the same function in the model);
* the inliner-only parameters of `Cloner` (`attr_map`, `resolve_ref_attrs`, `metadata_props`,
  `post_process`, value map entries that are `None`) are fixed to what the clone entry points pass;
* values and nodes whose name is `None` make `Graph.__init__` invent names (`_name_authority.py`,
  property C15): `mkGraph` answers `unsupported` for them instead of modelling the name authority;
* the type object is COPIED by the cloner (behaviour after the fix of defect D32; the unfixed code
  passed `type=value.type` through).

Only core Lean is imported (linked into `irdriver`).
-/
namespace IrVerif.Clone


/-- a dimension of `Shape._dims`: `int` or `SymbolicDim(value)` -/
inductive Dim where
  | int (n : Int)
  | sym (s : Option String)
  deriving DecidableEq, Repr, Inhabited

/-- `ShardingSpec` (frozen dataclass): only `value` is an object reference -/
structure DevSpec where
  value : Option Nat
  payload : Nat
  deriving DecidableEq, Repr

/-- `NodeDeviceConfiguration` (frozen dataclass) -/
structure DevCfg where
  cfg : Nat
  specs : List DevSpec
  deriving DecidableEq, Repr

inductive AttrV where
  | plain (payload : Nat)
  | ref (payload : Nat)
  | graph (g : Nat)
  | graphs (gs : List Nat)
  deriving DecidableEq, Repr

structure ValueS where
  name : Option String := none
  doc : Option String := none
  producer : Option Nat := none
  index : Option Nat := none
  /-- `_uses`: insertion-ordered dict of `Usage(node, idx)` -/
  uses : List (Nat × Nat) := []
  graph : Option Nat := none
  isIn : Bool := false
  isOut : Bool := false
  isInit : Bool := false
  type : Option Nat := none
  shape : Option Nat := none
  /-- `const_value`: a tensor cell -/
  const : Option Nat := none
  props : Nat
  mstore : Nat
  deriving DecidableEq, Repr

structure NodeS where
  name : Option String := none
  doc : Option String := none
  domain : String := ""
  opType : String := ""
  overload : String := ""
  version : Option Int := none
  inputs : List (Option Nat) := []
  outputs : List Nat := []
  /-- `Attributes` (ordered dict name -> Attr object) -/
  attrs : List (String × Nat) := []
  graph : Option Nat := none
  dev : List DevCfg := []
  props : Nat
  mstore : Nat
  deriving DecidableEq, Repr

structure GraphS where
  name : Option String := none
  doc : Option String := none
  inputs : List Nat := []
  outputs : List Nat := []
  /-- `GraphInitializers` (ordered dict name -> Value) -/
  inits : List (String × Nat) := []
  nodes : List Nat := []
  opsets : List (String × Int) := []
  props : Nat
  mstore : Nat
  /-- `GraphView` (owns nothing) rather than `Graph` -/
  view : Bool := false
  deriving DecidableEq, Repr

/-- a type object: wrappers outer to inner (2 = Sequence, 3 = Optional, each with its denotation),
    then the leaf (0 = Tensor, 1 = SparseTensor) with dtype and denotation -/
structure TypeS where
  wrap : List (Nat × Option String) := []
  leaf : Nat := 0
  dtype : Nat := 0
  denot : Option String := none
  deriving DecidableEq, Repr

structure ShapeS where
  dims : List Dim := []
  denots : List (Option String) := []
  frozen : Bool := false
  deriving DecidableEq, Repr

/-- `metadata_props` dict (then `invalid = []`) or `MetadataStore` -/
structure DictS where
  data : List (String × String) := []
  invalid : List String := []
  deriving DecidableEq, Repr

structure AttrS where
  name : String
  doc : Option String := none
  v : AttrV
  deriving DecidableEq, Repr

/-- `Function`: everything but identifier and attributes delegates to the graph -/
structure FuncS where
  domain : String := ""
  name : String := ""
  overload : String := ""
  graph : Nat
  attrs : List (String × Nat) := []
  deriving DecidableEq, Repr

/-- `Model` (scalar header fields are one opaque payload) -/
structure ModelS where
  graph : Nat
  funcs : List Nat := []
  header : Nat := 0
  dev : Nat := 0
  props : Nat
  mstore : Nat
  deriving DecidableEq, Repr

inductive Cell where
  | val (v : ValueS)
  | node (n : NodeS)
  | graph (g : GraphS)
  | type (t : TypeS)
  | shape (s : ShapeS)
  | dict (d : DictS)
  | attr (a : AttrS)
  | func (f : FuncS)
  | model (m : ModelS)
  /-- a tensor object (`TensorProtocol`): shared between a value and its clones; only its mutable
      `name` is modelled (`Value.name = ...` writes through to it) -/
  | tensor (name : Option String)
  deriving DecidableEq, Repr

abbrev World := List Cell

inductive Err where
  | raised (why : String)
  | fuel
  | unsupported (why : String)
  deriving DecidableEq, Repr

/-- cloner state: the heap and `Cloner._value_map` (latest binding first) -/
structure St where
  w : World
  vm : List (Nat × Nat) := []
  /-- `Cloner._pending_outputs`: outputs of nodes of the graphs being cloned that are not cloned yet -/
  pend : List Nat := []
  /-- `Cloner._created_nodes`: every node created by this cloner, in creation order -/
  created : List Nat := []

/-- state survives an exception (as the Python heap does) -/
def M (α : Type) := St → Except Err α × St

@[inline] def M.pure (a : α) : M α := fun s => (.ok a, s)
@[inline] def M.bind (m : M α) (f : α → M β) : M β := fun s =>
  match m s with
  | (.ok a, s') => f a s'
  | (.error e, s') => (.error e, s')

instance : Monad M where
  pure := M.pure
  bind := M.bind

def fail (e : Err) : M α := fun s => (.error e, s)
def raise (why : String) : M α := fail (.raised why)
def unsupported (why : String) : M α := fail (.unsupported why)

def alloc (c : Cell) : M Nat := fun s => (.ok s.w.length, { s with w := s.w ++ [c] })
def nextId : M Nat := fun s => (.ok s.w.length, s)
def setCell (i : Nat) (c : Cell) : M Unit := fun s => (.ok (), { s with w := s.w.set i c })
def vmGet (v : Nat) : M (Option Nat) := fun s => (.ok (s.vm.lookup v), s)
def vmSet (a b : Nat) : M Unit := fun s => (.ok (), { s with vm := (a, b) :: s.vm })
def pendHas (v : Nat) : M Bool := fun s => (.ok (s.pend.contains v), s)
def pendAdd (vs : List Nat) : M Unit := fun s => (.ok (), { s with pend := s.pend ++ vs })
def pendDiscard (v : Nat) : M Unit := fun s => (.ok (), { s with pend := s.pend.filter (· != v) })
def createdAdd (n : Nat) : M Unit := fun s => (.ok (), { s with created := s.created ++ [n] })

def readVal (i : Nat) : M ValueS := fun s =>
  match s.w[i]? with
  | some (.val v) => (.ok v, s)
  | _ => (.error (.unsupported "not a value"), s)
def readNode (i : Nat) : M NodeS := fun s =>
  match s.w[i]? with
  | some (.node v) => (.ok v, s)
  | _ => (.error (.unsupported "not a node"), s)
def readGraph (i : Nat) : M GraphS := fun s =>
  match s.w[i]? with
  | some (.graph v) => (.ok v, s)
  | _ => (.error (.unsupported "not a graph"), s)
def readType (i : Nat) : M TypeS := fun s =>
  match s.w[i]? with
  | some (.type v) => (.ok v, s)
  | _ => (.error (.unsupported "not a type"), s)
def readShape (i : Nat) : M ShapeS := fun s =>
  match s.w[i]? with
  | some (.shape v) => (.ok v, s)
  | _ => (.error (.unsupported "not a shape"), s)
def readDict (i : Nat) : M DictS := fun s =>
  match s.w[i]? with
  | some (.dict v) => (.ok v, s)
  | _ => (.error (.unsupported "not a dict"), s)
def readAttr (i : Nat) : M AttrS := fun s =>
  match s.w[i]? with
  | some (.attr v) => (.ok v, s)
  | _ => (.error (.unsupported "not an attr"), s)
def readFunc (i : Nat) : M FuncS := fun s =>
  match s.w[i]? with
  | some (.func v) => (.ok v, s)
  | _ => (.error (.unsupported "not a function"), s)
def readTensor (i : Nat) : M (Option String) := fun s =>
  match s.w[i]? with
  | some (.tensor nm) => (.ok nm, s)
  | _ => (.error (.unsupported "not a tensor"), s)
def readModel (i : Nat) : M ModelS := fun s =>
  match s.w[i]? with
  | some (.model v) => (.ok v, s)
  | _ => (.error (.unsupported "not a model"), s)

/-- `for x in xs: ys.append(f(x))` -/
def mapM' (f : α → M β) : List α → M (List β)
  | [] => pure []
  | a :: as => do
    let b ← f a
    let bs ← mapM' f as
    pure (b :: bs)

def forM' (f : α → M Unit) : List α → M Unit
  | [] => pure ()
  | a :: as => do
    f a
    forM' f as

/-! ### pieces of `_cloner.py` -/

/-- `value.shape.copy() if value.shape is not None else None` (`Shape.copy`: a new, unfrozen
    `Shape` with the same dims and denotations; `_core.py` `Shape.copy`) -/
def copyShape : Option Nat → M (Option Nat)
  | none => pure none
  | some sh => do
    let s ← readShape sh
    let i ← alloc (.shape { s with frozen := false })
    pure (some i)

/-- the type object is copied (D32 fixed) -/
def copyType : Option Nat → M (Option Nat)
  | none => pure none
  | some t => do
    let ts ← readType t
    let i ← alloc (.type ts)
    pure (some i)

/-- `new.metadata_props.update(old.metadata_props)` into a fresh (empty) dict -/
def copyProps (old : Nat) : M Nat := do
  let d ← readDict old
  alloc (.dict { data := d.data, invalid := [] })

/-- `Cloner.clone_meta` into a fresh (empty) store (`_cloner.py` 152-164): every item is set
    (`__setitem__` un-invalidates the key), then every invalid key is invalidated again -/
def copyMeta (old : Nat) : M Nat := do
  let d ← readDict old
  alloc (.dict { data := d.data, invalid := d.invalid })

/-- `Cloner._clone_or_get_value` (`_cloner.py` 84-107) -/
def cloneOrGetValue (v : Nat) : M Nat := do
  match ← vmGet v with
  | some v' => pure v'
  | none =>
    let vs ← readVal v
    let sh ← copyShape vs.shape
    let ty ← copyType vs.type
    let props ← copyProps vs.props
    let mstore ← copyMeta vs.mstore
    let v' ← alloc (.val { name := vs.name, doc := vs.doc, type := ty, shape := sh,
                           const := vs.const, props := props, mstore := mstore })
    vmSet v v'
    pure v'

/-- `Value._add_usage` -/
def addUse (v : Nat) (n : Nat) (i : Nat) : M Unit := do
  let vs ← readVal v
  setCell v (.val { vs with uses := if vs.uses.contains (n, i) then vs.uses else vs.uses ++ [(n, i)] })

def addUses (n : Nat) : Nat → List (Option Nat) → M Unit
  | _, [] => pure ()
  | i, none :: rest => addUses n (i + 1) rest
  | i, some v :: rest => do
    addUse v n i
    addUses n (i + 1) rest

/-- `Value(self, index=i)` for `i in range(num_outputs)` -/
def mkOutputs (n : Nat) : Nat → Nat → M (List Nat)
  | _, 0 => pure []
  | i, k + 1 => do
    let props ← alloc (.dict {})
    let mstore ← alloc (.dict {})
    let v ← alloc (.val { producer := some n, index := some i, props := props, mstore := mstore })
    let rest ← mkOutputs n (i + 1) k
    pure (v :: rest)

/-- the node-input loop of `clone_node` (`_cloner.py` 169-188) -/
def mapInputs (allow : Bool) : List (Option Nat) → M (List (Option Nat))
  | [] => pure []
  | none :: rest => do
    let r ← mapInputs allow rest
    pure (none :: r)
  | some v :: rest => do
    match ← vmGet v with
    | some v' =>
      let r ← mapInputs allow rest
      pure (some v' :: r)
    | none =>
      if allow then do
        if ← pendHas v then raise "value defined by a later node of the graph being cloned"
        else
          let r ← mapInputs allow rest
          pure (some v :: r)
      else raise "outer-scope value"

/-- Python `dict` assignment `d[k] = v`: an existing key keeps its position -/
def dictSet (d : List (String × β)) (k : String) (v : β) : List (String × β) :=
  if d.any (fun e => e.1 == k) then d.map (fun e => if e.1 == k then (k, v) else e)
  else d ++ [(k, v)]

/-- `{x.name: x for x in xs}` -/
def dictOf (xs : List (String × β)) : List (String × β) :=
  xs.foldl (fun d e => dictSet d e.1 e.2) []

/-- `Cloner.clone_attr` with `resolve_ref_attrs = False` (`_cloner.py` 109-150); `rec` clones a
    nested graph.  The result is paired with the attribute object's own name, which is the key the
    `Attributes` container of the new node files it under (`{attr.name: attr for attr in attrs}`). -/
def cloneAttr (rec : Nat → M Nat) (key : String) (a : Nat) : M (String × Nat) := do
  let as ← readAttr a
  match as.v with
  | .graph g =>
    let g' ← rec g
    let a' ← alloc (.attr { name := key, doc := as.doc, v := .graph g' })
    pure (key, a')
  | .graphs gs =>
    let gs' ← mapM' rec gs
    let a' ← alloc (.attr { name := key, doc := as.doc, v := .graphs gs' })
    pure (key, a')
  | _ => pure (as.name, a)

/-- the clone of one node output: `Value(self, index=i)` in `Node.__init__` followed by "Copy
    output properties" (`_cloner.py` 211-222).  The model allocates the value with its final
    content (Python creates it blank and assigns the fields next; no error point lies between, and
    the only reader of the intermediate state is the cloner itself); the producer link is set by
    `setProducer` once the node cell exists. -/
def cloneOutput (i : Nat) (o : Nat) : M Nat := do
  let os ← readVal o
  let sh ← copyShape os.shape
  let ty ← copyType os.type
  let props ← copyProps os.props
  let mstore ← copyMeta os.mstore
  let o' ← alloc (.val { name := os.name, doc := os.doc, index := some i, type := ty, shape := sh,
                         const := os.const, props := props, mstore := mstore })
  vmSet o o'
  pendDiscard o
  pure o'

def cloneOutputs : Nat → List Nat → M (List Nat)
  | _, [] => pure []
  | i, o :: os => do
    let o' ← cloneOutput i o
    let rest ← cloneOutputs (i + 1) os
    pure (o' :: rest)

/-- `Value._producer = node` -/
def setProducer (n : Nat) (v : Nat) : M Unit := do
  let vs ← readVal v
  setCell v (.val { vs with producer := some n })

/-- `Cloner._remap_device_configurations` (`_cloner.py`) with no `None` entries in the map.  Since
    the fix of D350 `clone_node` passes the correspondence of the node's OWN inputs and outputs
    (`ioMap`), and since the fix of D340 that map is completed by the cloner's global value map for
    spec values that are neither (lookup order: `ioMap` first). -/
def remapSpec (vm : List (Nat × Nat)) (sp : DevSpec) : DevSpec :=
  match sp.value with
  | none => sp
  | some v =>
    match vm.lookup v with
    | none => sp
    | some v' => { sp with value := some v' }

def remapDev (vm : List (Nat × Nat)) (d : List DevCfg) : List DevCfg :=
  d.map fun c => { c with specs := c.specs.map (remapSpec vm) }

def getVm : M (List (Nat × Nat)) := fun s => (.ok s.vm, s)

/-- `io_map` of `clone_node`: `io_map[input] = new_input` for every non-`None` input, then
    `io_map[output] = new_output` (a later assignment wins: outputs first in this lookup list) -/
def ioMap (ins newIns : List (Option Nat)) (outs newOuts : List Nat) : List (Nat × Nat) :=
  outs.zip newOuts ++ (ins.zip newIns).filterMap fun p =>
    match p.1, p.2 with
    | some a, some b => some (a, b)
    | _, _ => none

/-- a spec whose value is neither an input nor an output of its node (`spec.value not in io_map`)
    nor bound in the cloner's global value map -/
def specOuter (ns : NodeS) (vm : List (Nat × Nat)) (sp : DevSpec) : Bool :=
  match sp.value with
  | none => false
  | some v => !ns.inputs.contains (some v) && !ns.outputs.contains v && (vm.lookup v).isNone

/-- `clone_node` since the fixes of D340 / D341: a spec on a value outside the node's inputs and
    outputs follows the global value map; when it is in neither map and outer-scope values are
    not allowed the clone raises (like an outer-scope node input); with `allow` it is kept.
    Python raises after the new node object exists (it is detached and dropped by `clone_graph`'s
    handler); the model raises before allocating the node cell: the abandoned node is garbage in
    both, and with `allow = false` it consumes no pre-existing value, so nothing observable differs. -/
def checkSpecs (allow : Bool) (ns : NodeS) (vm : List (Nat × Nat)) : M Unit :=
  if !allow && ns.dev.any (fun c => c.specs.any (specOuter ns vm)) then
    raise "sharding spec targets an outer-scope value"
  else pure ()

/-- `new_node = _core.Node(...)`; `self._created_nodes.append(new_node)` -/
def allocNode (c : NodeS) : M Nat := do
  let n' ← alloc (.node c)
  createdAdd n'
  pure n'

/-- `Cloner.clone_node` (`_cloner.py` 166-231) followed by nothing (`post_process` is the identity
    for the clone entry points).  Cells are allocated in their final form: outputs first (see
    `cloneOutput`), then the node with its outputs and its remapped device configurations
    (`_remap_device_configurations` runs after the outputs are in the value map, as here). -/
def cloneNode (allow : Bool) (rec : Nat → M Nat) (n : Nat) : M Nat := do
  let ns ← readNode n
  let newInputs ← mapInputs allow ns.inputs
  let newAttrs ← mapM' (fun ka => cloneAttr rec ka.1 ka.2) ns.attrs
  let props ← copyProps ns.props
  let mstore ← copyMeta ns.mstore
  let outs ← cloneOutputs 0 ns.outputs
  let vm ← getVm
  checkSpecs allow ns vm
  let n' ← allocNode { name := ns.name, doc := ns.doc, domain := ns.domain, opType := ns.opType,
                       overload := ns.overload, version := ns.version, inputs := newInputs,
                       outputs := outs, attrs := dictOf newAttrs,
                       dev := remapDev (ioMap ns.inputs newInputs ns.outputs outs ++ vm) ns.dev,
                       props := props, mstore := mstore }
  forM' (setProducer n') outs
  addUses n' 0 newInputs
  pure n'

/-- `Cloner._get_value` for the graph outputs: `KeyError` (wrapped in `RuntimeError`) -/
def getMapped (v : Nat) : M Nat := do
  match ← vmGet v with
  | some v' => pure v'
  | none => raise "graph output is not in the value map"

/-! ### `Graph.__init__` (`_core.py`) on freshly created values and nodes -/

def setValueOwner (g : Nat) (f : ValueS → ValueS) (v : Nat) : M Unit := do
  let vs ← readVal v
  setCell v (.val (f { vs with graph := some g }))

/-- `GraphInputs._check_value` -/
def checkInput (g : Nat) (v : Nat) : M Unit := do
  let vs ← readVal v
  if vs.graph.isSome && vs.graph != some g then raise "input owned by a different graph"
  else if vs.producer.isSome then raise "input is produced by a node"
  else pure ()

/-- `GraphOutputs._check_value`, `GraphInitializers._check_value` -/
def checkOwned (g : Nat) (v : Nat) : M Unit := do
  let vs ← readVal v
  if vs.graph.isSome && vs.graph != some g then raise "value owned by a different graph"
  else pure ()

/-- `{initializer.name: initializer for initializer in initializers}` -/
def initEntries : List (String × Nat) → List Nat → M (List (String × Nat))
  | acc, [] => pure acc
  | acc, v :: rest => do
    let vs ← readVal v
    match vs.name with
    | none => raise "initializer without a name"
    | some nm => initEntries (dictSet acc nm v) rest

/-- the checks of `GraphInitializers.__setitem__` -/
def checkInitEntry (e : String × Nat) : M Unit := do
  let vs ← readVal e.2
  if e.1 = "" then raise "initializer with an empty name"
  else if vs.producer.isSome then raise "initializer produced by a node"
  else pure ()

/-- `Graph._check_node_can_be_added`.  A node named `None` is given a name by the name authority in
    `extend()` and `clone_graph` resets it to `None` right after constructing the graph
    (`_cloner.py`, "an anonymous node of the original stays anonymous"): no net effect. -/
def checkNodeFree (g : Nat) (n : Nat) : M Unit := do
  let ns ← readNode n
  if ns.graph.isSome && ns.graph != some g then raise "node belongs to another graph"
  else pure ()

def checkNamed (v : Nat) : M Unit := do
  let vs ← readVal v
  if vs.name.isNone then unsupported "unnamed value (name authority)" else pure ()

def setNodeGraph (g : Nat) (n : Nat) : M Unit := do
  let ns ← readNode n
  forM' checkNamed ns.outputs
  setCell n (.node { ns with graph := some g })

/-- `Graph(inputs, outputs, nodes=, initializers=, doc_string=, opset_imports=, name=)` followed by
    the metadata copies at the end of `clone_graph`.  The graph cell is allocated with its final
    content; then the ownership checks and flags of `GraphInputs`, `GraphOutputs`,
    `GraphInitializers`, the name authority and `extend(nodes)` run in Python's order (a raising
    check leaves garbage that nothing refers to, in Python and here). -/
def mkGraph (src : GraphS) (inputs outputs nodes inits : List Nat) : M Nat := do
  let entries ← initEntries [] inits
  let props ← copyProps src.props
  let mstore ← copyMeta src.mstore
  let g ← alloc (.graph { name := src.name, doc := src.doc, inputs := inputs, outputs := outputs,
                          inits := entries, nodes := nodes, opsets := src.opsets,
                          props := props, mstore := mstore })
  -- GraphInputs
  forM' (checkInput g) inputs
  forM' (setValueOwner g (fun v => { v with isIn := true })) inputs
  -- GraphOutputs
  forM' (checkOwned g) outputs
  forM' (setValueOwner g (fun v => { v with isOut := true })) outputs
  -- GraphInitializers
  forM' (checkOwned g) (entries.map (·.2))
  forM' (setValueOwner g (fun v => { v with isInit := true })) (entries.map (·.2))
  forM' checkInitEntry entries
  -- name authority over inputs and initializers, then `extend(nodes)`
  forM' checkNamed inputs
  forM' (checkNodeFree g) nodes
  forM' (setNodeGraph g) nodes
  pure g

/-- `for node in graph for output in node.outputs` -/
def allOutputs : List Nat → M (List Nat)
  | [] => pure []
  | n :: ns => do
    let x ← readNode n
    let r ← allOutputs ns
    pure (x.outputs ++ r)

/-- `Cloner._clone_graph`; `rec` is the call for nested graphs -/
def cloneGraphStep (allow : Bool) (rec : Nat → M Nat) (g : Nat) : M Nat := do
  let gs ← readGraph g
  let inputs ← mapM' cloneOrGetValue gs.inputs
  let inits ← mapM' cloneOrGetValue (gs.inits.map (·.2))
  pendAdd (← allOutputs gs.nodes)
  let nodes ← mapM' (cloneNode allow rec) gs.nodes
  let outputs ← mapM' getMapped gs.outputs
  mkGraph gs inputs outputs nodes inits

/-- `value._uses.pop(Usage(node, i))` for the input positions `i` of a node that is being thrown
    away.  The records a node has on a value are exactly those of the positions where it consumes
    the value (the cloner registered them itself), so the model drops every record of the node on
    the value at once; a reference that is not a value cell has no records. -/
def unUse (v n : Nat) : M Unit := fun s =>
  match s.w[v]? with
  | some (.val vs) => (.ok (), { s with w := s.w.set v (.val { vs with uses := vs.uses.filter (fun u => u.1 != n) }) })
  | _ => (.ok (), s)

def unUses (n : Nat) : List (Option Nat) → M Unit
  | [] => pure ()
  | none :: rest => unUses n rest
  | some v :: rest => do
    unUse v n
    unUses n rest

/-- `for i in range(len(new_node.inputs)): new_node.replace_input_with(i, None)`: the usage
    records go, the inputs become `None`, sharding specs of values that are no longer inputs are
    dropped (`Node._drop_sharding_for_value`) -/
def detachNode (n : Nat) : M Unit := do
  let ns ← readNode n
  unUses n ns.inputs
  let ns ← readNode n
  setCell n (.node { ns with
    inputs := ns.inputs.map (fun _ => none),
    dev := ns.dev.map fun c => { c with specs := c.specs.filter fun sp =>
      match sp.value with
      | some v => !ns.inputs.contains (some v) || ns.outputs.contains v
      | none => true } })

/-- `try: ... except Exception: <handler>; raise` -/
def onError (m : M α) (handler : M Unit) : M α := fun s =>
  match m s with
  | (.ok a, s') => (.ok a, s')
  | (.error e, s') => (.error e, (handler s').2)

/-- `Cloner.clone_graph`: when cloning fails, the nodes created since the call began (at any
    depth) are detached from the values they use and forgotten -/
def guarded (body : M Nat) : M Nat := fun s =>
  onError body (fun s' =>
    match forM' detachNode (s'.created.drop s.created.length) s' with
    | (r, s'') => (r, { s'' with created := s''.created.take s.created.length })) s

/-- Python recursion made explicit; `fuel` = nesting depth allowed (CPython raises
    `RecursionError` on absurd depth; the model reports `fuel`) -/
def cloneGraph (allow : Bool) : Nat → Nat → M Nat
  | 0 => fun _ => fail .fuel
  | f + 1 => fun g => guarded (cloneGraphStep allow (cloneGraph allow f) g)

/-! ### entry points -/

/-- a fresh `Cloner(value_map={})` -/
def withFreshMap (m : M α) : M α := fun s =>
  match m { s with vm := [], pend := [], created := [] } with
  | (r, s') => (r, { s' with vm := s.vm, pend := s.pend, created := s.created })

/-- `Graph.clone(allow_outer_scope_values)` and `GraphView.clone()` (`_core.py`) -/
def graphClone (fuel : Nat) (allow : Bool) (g : Nat) : M Nat :=
  withFreshMap (cloneGraph allow fuel g)

/-- `Function.clone` (`_core.py`): one cloner for the body and the attribute parameters -/
def funcClone (fuel : Nat) (f : Nat) : M Nat :=
  withFreshMap do
    let fs ← readFunc f
    let g' ← cloneGraph false fuel fs.graph
    let attrs ← mapM' (fun ka => do
        let as ← readAttr ka.2
        cloneAttr (cloneGraph false fuel) as.name ka.2) fs.attrs
    alloc (.func { domain := fs.domain, name := fs.name, overload := fs.overload, graph := g',
                   attrs := dictOf attrs })

/-- `Model.clone` (`_core.py`): graph, then every function, then `Model(...)` with
    `metadata_props=dict(self.metadata_props)`; `meta` is not copied -/
def modelClone (fuel : Nat) (m : Nat) : M Nat := do
  let ms ← readModel m
  let g' ← graphClone fuel false ms.graph
  let fs ← mapM' (funcClone fuel) ms.funcs
  let props ← copyProps ms.props
  let mstore ← alloc (.dict {})
  alloc (.model { graph := g', funcs := fs, header := ms.header, dev := ms.dev, props := props,
                  mstore := mstore })


/-! ### the editing alphabet (used by the frame theorem and compared with the real setters) -/

inductive Which where
  | props
  | mstore
  deriving DecidableEq, Repr

inductive Edit where
  /-- `value.name = s` (`Value.name` setter incl. the initializer rename) -/
  | setName (v : Nat) (s : Option String)
  /-- `value.type = <new type object>` / `= None` -/
  | setType (v : Nat) (t : Option TypeS)
  /-- `value.dtype = d` (`Value.dtype` setter: writes through the type object) -/
  | setDtype (v : Nat) (d : Nat)
  /-- `value.type.denotation = s` -/
  | setTypeDenot (v : Nat) (s : Option String)
  /-- `value.shape = Shape(dims)` / `= None` -/
  | setShape (v : Nat) (s : Option ShapeS)
  /-- `value.shape[i] = d` -/
  | setDim (v : Nat) (i : Nat) (d : Dim)
  /-- `value.shape.set_denotation(i, s)` -/
  | setDimDenot (v : Nat) (i : Nat) (s : Option String)
  /-- `value.const_value = t` -/
  | setConst (v : Nat) (t : Option Nat)
  /-- `value.doc_string = s` -/
  | setDoc (v : Nat) (s : Option String)
  /-- `owner.metadata_props[k] = x` / `owner.meta[k] = x` for a value, node, graph or model -/
  | dictSet (owner : Nat) (which : Which) (k x : String)
  /-- `del owner.metadata_props[k]` / `del owner.meta[k]` -/
  | dictDel (owner : Nat) (which : Which) (k : String)
  /-- `owner.meta.invalidate(k)` -/
  | metaInvalidate (owner : Nat) (k : String)
  /-- `node.replace_input_with(i, v)` -/
  | replaceInput (n : Nat) (i : Nat) (v : Option Nat)
  /-- `node.name = s` -/
  | setNodeName (n : Nat) (s : Option String)
  /-- `node.op_type = s` -/
  | setOpType (n : Nat) (s : String)
  /-- `node.attributes[k] = Attr(k, ..)` with a new attribute object -/
  | setAttr (n : Nat) (k : String) (payload : Nat)
  /-- `del node.attributes[k]` -/
  | delAttr (n : Nat) (k : String)
  /-- `graph.name = s` -/
  | setGraphName (g : Nat) (s : Option String)
  /-- `graph.opset_imports[dom] = ver` -/
  | setOpset (g : Nat) (dom : String) (ver : Int)
  /-- `graph.remove(node)` (`safe=False`) -/
  | removeNode (g : Nat) (n : Nat)
  /-- `n = Node("", op, inputs, name=name, num_outputs=len(outNames))`, name the outputs,
      `graph.append(n)` -/
  | appendNode (g : Nat) (name op : String) (inputs : List (Option Nat)) (outNames : List String)
  /-- `graph.outputs.append(v)` -/
  | appendOutput (g : Nat) (v : Nat)
  /-- `graph.outputs.pop()` -/
  | popOutput (g : Nat)
  /-- `node.domain = s` -/
  | setNodeDomain (n : Nat) (s : String)
  /-- `node.overload = s` -/
  | setNodeOverload (n : Nat) (s : String)
  /-- `node.version = k` -/
  | setNodeVersion (n : Nat) (k : Option Int)
  /-- `node.doc_string = s` -/
  | setNodeDoc (n : Nat) (s : Option String)
  /-- `graph.doc_string = s` -/
  | setGraphDoc (g : Nat) (s : Option String)
  /-- `node.device_configurations = (...)` -/
  | setDev (n : Nat) (d : List DevCfg)
  /-- `function.name = s` -/
  | setFuncName (f : Nat) (s : String)
  /-- a header field of the model (`producer_name = ..`, `doc_string = ..`, ...): the header is one
      opaque payload -/
  | setModelHeader (m : Nat) (payload : Nat)
  deriving Repr


/-- the objects an edit is applied to / given as operands -/
def Edit.args : Edit → List Nat
  | .setName v _ => [v]
  | .setType v _ => [v]
  | .setDtype v _ => [v]
  | .setTypeDenot v _ => [v]
  | .setShape v _ => [v]
  | .setDim v _ _ => [v]
  | .setDimDenot v _ _ => [v]
  | .setConst v t => v :: t.toList
  | .setDoc v _ => [v]
  | .dictSet o _ _ _ => [o]
  | .dictDel o _ _ => [o]
  | .metaInvalidate o _ => [o]
  | .replaceInput n _ v => n :: v.toList
  | .setNodeName n _ => [n]
  | .setOpType n _ => [n]
  | .setAttr n _ _ => [n]
  | .delAttr n _ => [n]
  | .setGraphName g _ => [g]
  | .setOpset g _ _ => [g]
  | .removeNode g n => [g, n]
  | .appendNode g _ _ inputs _ => g :: inputs.filterMap id
  | .appendOutput g v => [g, v]
  | .popOutput g => [g]
  | .setNodeDomain n _ => [n]
  | .setNodeOverload n _ => [n]
  | .setNodeVersion n _ => [n]
  | .setNodeDoc n _ => [n]
  | .setGraphDoc g _ => [g]
  | .setDev n d => n :: d.flatMap (fun c => c.specs.filterMap (·.value))
  | .setFuncName f _ => [f]
  | .setModelHeader m _ => [m]

def dictErase (d : List (String × β)) (k : String) : List (String × β) :=
  d.filter (fun e => e.1 != k)

def dictHas (d : List (String × β)) (k : String) : Bool := d.any (fun e => e.1 == k)

/-- the metadata container of a value, node, graph or model -/
def ownerDict (owner : Nat) (which : Which) : M Nat := fun s =>
  match s.w[owner]? with
  | some (.val v) => (.ok (match which with | .props => v.props | .mstore => v.mstore), s)
  | some (.node v) => (.ok (match which with | .props => v.props | .mstore => v.mstore), s)
  | some (.graph v) => (.ok (match which with | .props => v.props | .mstore => v.mstore), s)
  | some (.model v) => (.ok (match which with | .props => v.props | .mstore => v.mstore), s)
  | _ => (.error (.unsupported "no metadata container"), s)

/-- `Value._remove_usage` (`dict.pop`: `KeyError` when absent) -/
def removeUse (v : Nat) (n : Nat) (i : Nat) : M Unit := do
  let vs ← readVal v
  if vs.uses.contains (n, i) then
    setCell v (.val { vs with uses := vs.uses.filter (fun u => u != (n, i)) })
  else raise "usage not recorded"

/-- `Node._drop_sharding_for_value` -/
def dropSharding (ns : NodeS) (v : Nat) : NodeS :=
  if ns.inputs.contains (some v) || ns.outputs.contains v then ns
  else { ns with dev := ns.dev.map fun c =>
          { c with specs := c.specs.filter (fun sp => sp.value != some v) } }

/-- `if old_input is not None: old_input._remove_usage(self, index)` -/
def removeUseOpt (old : Option Nat) (n i : Nat) : M Unit :=
  match old with
  | some o => removeUse o n i
  | none => pure ()

/-- `if value is not None: value._add_usage(self, index)` -/
def addUseOpt (v : Option Nat) (n i : Nat) : M Unit :=
  match v with
  | some x => addUse x n i
  | none => pure ()

/-- `if old_input is not None and old_input is not value: self._drop_sharding_for_value(old_input)` -/
def dropShardingStep (n : Nat) (old v : Option Nat) : M Unit :=
  match old with
  | some o =>
    if old != v then do
      let nn ← readNode n
      setCell n (.node (dropSharding nn o))
    else pure ()
  | none => pure ()

/-- `if self._const_value is not None: self._const_value.name = value` (`Value.name` setter): the
    tensor object is shared with every clone of the value -/
def renameTensor (t : Option Nat) (s : Option String) : M Unit :=
  match t with
  | none => pure ()
  | some i => do
    let _ ← readTensor i
    setCell i (.tensor s)

def setOutputNames : List Nat → List String → M Unit
  | v :: vs, nm :: nms => do
    let x ← readVal v
    setCell v (.val { x with name := some nm })
    setOutputNames vs nms
  | _, _ => pure ()

def applyEdit0 : Edit → M Unit
  | .setName v s => do
    let vs ← readVal v
    if vs.name = s then pure ()
    else if vs.isInit then
      match s, vs.graph, vs.name with
      | some nm, some g, some old => do
        if nm = "" then raise "empty initializer name" else
        let gs ← readGraph g
        if (gs.inits.lookup nm).isSome && gs.inits.lookup nm != some v then
          raise "initializer name taken"
        else do
          renameTensor vs.const s
          setCell v (.val { vs with name := some nm })
          if dictHas gs.inits old then
            setCell g (.graph { gs with inits := dictErase gs.inits old ++ [(nm, v)] })
          else raise "initializer entry missing"
      | _, _, _ => raise "initializer rename rejected"
    else do
      renameTensor vs.const s
      setCell v (.val { vs with name := s })
  | .setType v t => do
    let vs ← readVal v
    match t with
    | none => setCell v (.val { vs with type := none })
    | some ts => do
      let i ← alloc (.type ts)
      setCell v (.val { vs with type := some i })
  | .setDtype v d => do
    let vs ← readVal v
    match vs.type with
    | none => do
      let i ← alloc (.type { dtype := d })
      setCell v (.val { vs with type := some i })
    | some t => do
      let ts ← readType t
      setCell t (.type { ts with dtype := d })
  | .setTypeDenot v s => do
    let vs ← readVal v
    match vs.type with
    | none => raise "no type"
    | some t => do
      let ts ← readType t
      match ts.wrap with
      | [] => setCell t (.type { ts with denot := s })
      | (k, _) :: rest => setCell t (.type { ts with wrap := (k, s) :: rest })
  | .setShape v sh => do
    let vs ← readVal v
    match sh with
    | none => setCell v (.val { vs with shape := none })
    | some ss => do
      let i ← alloc (.shape ss)
      setCell v (.val { vs with shape := some i })
  | .setDim v i d => do
    let vs ← readVal v
    match vs.shape with
    | none => raise "no shape"
    | some sh => do
      let ss ← readShape sh
      if ss.frozen then raise "frozen shape"
      else if i < ss.dims.length then setCell sh (.shape { ss with dims := ss.dims.set i d })
      else raise "index out of range"
  | .setDimDenot v i dn => do
    let vs ← readVal v
    match vs.shape with
    | none => raise "no shape"
    | some sh => do
      let ss ← readShape sh
      if i < ss.denots.length then setCell sh (.shape { ss with denots := ss.denots.set i dn })
      else raise "index out of range"
  | .setConst v t => do
    let vs ← readVal v
    setCell v (.val { vs with const := t })
  | .setDoc v d => do
    let vs ← readVal v
    setCell v (.val { vs with doc := d })
  | .dictSet owner which k x => do
    let di ← ownerDict owner which
    let d ← readDict di
    setCell di (.dict { data := dictSet d.data k x, invalid := d.invalid.filter (· != k) })
  | .dictDel owner which k => do
    let di ← ownerDict owner which
    let d ← readDict di
    if dictHas d.data k then setCell di (.dict { d with data := dictErase d.data k })
    else raise "KeyError"
  | .metaInvalidate owner k => do
    let di ← ownerDict owner .mstore
    let d ← readDict di
    setCell di (.dict { d with invalid := if d.invalid.contains k then d.invalid else d.invalid ++ [k] })
  | .replaceInput n i v => do
    let ns ← readNode n
    if i < ns.inputs.length then do
      let old := (ns.inputs[i]?).join
      setCell n (.node { ns with inputs := ns.inputs.set i v })
      removeUseOpt old n i
      addUseOpt v n i
      dropShardingStep n old v
    else raise "index out of range"
  | .setNodeName n s => do
    let ns ← readNode n
    setCell n (.node { ns with name := s })
  | .setOpType n s => do
    let ns ← readNode n
    setCell n (.node { ns with opType := s })
  | .setAttr n k payload => do
    let ns ← readNode n
    let a ← alloc (.attr { name := k, v := .plain payload })
    setCell n (.node { ns with attrs := dictSet ns.attrs k a })
  | .delAttr n k => do
    let ns ← readNode n
    if dictHas ns.attrs k then setCell n (.node { ns with attrs := dictErase ns.attrs k })
    else raise "KeyError"
  | .setGraphName g s => do
    let gs ← readGraph g
    setCell g (.graph { gs with name := s })
  | .setOpset g dom ver => do
    let gs ← readGraph g
    setCell g (.graph { gs with opsets := dictSet gs.opsets dom ver })
  | .removeNode g n => do
    let gs ← readGraph g
    let ns ← readNode n
    if gs.view then unsupported "view" else
    if ns.graph != some g then raise "node does not belong to this graph"
    else do
      setCell n (.node { ns with graph := none })
      setCell g (.graph { gs with nodes := gs.nodes.filter (· != n) })
  | .appendNode g name op inputs outNames => do
    let gs ← readGraph g
    if gs.view then unsupported "view" else
    let props ← alloc (.dict {})
    let mstore ← alloc (.dict {})
    let n ← alloc (.node { name := some name, opType := op, inputs := inputs, props := props,
                           mstore := mstore })
    let outs ← mkOutputs n 0 outNames.length
    let nn ← readNode n
    setCell n (.node { nn with outputs := outs })
    addUses n 0 inputs
    setOutputNames outs outNames
    let nn ← readNode n
    setCell n (.node { nn with graph := some g })
    let gs ← readGraph g
    setCell g (.graph { gs with nodes := gs.nodes ++ [n] })
  | .appendOutput g v => do
    let gs ← readGraph g
    if gs.view then unsupported "view" else
    let vs ← readVal v
    if vs.graph.isSome && vs.graph != some g then raise "value owned by a different graph"
    else do
      setCell v (.val { vs with isOut := true, graph := some g })
      setCell g (.graph { gs with outputs := gs.outputs ++ [v] })
  | .popOutput g => do
    let gs ← readGraph g
    if gs.view then unsupported "view" else
    match gs.outputs.getLast? with
    | none => raise "pop from empty list"
    | some v => do
      let rest := gs.outputs.dropLast
      setCell g (.graph { gs with outputs := rest })
      if rest.contains v then pure ()
      else do
        let vs ← readVal v
        let vs := { vs with isOut := false }
        setCell v (.val (if vs.isIn || vs.isInit then vs else { vs with graph := none }))
  | _ => unsupported "handled by applyEdit"

/-- the editing alphabet: `applyEdit0` plus the plain field setters -/
def applyEdit : Edit → M Unit
  | .setNodeDomain n x => do
    let ns ← readNode n
    setCell n (.node { ns with domain := x })
  | .setNodeOverload n x => do
    let ns ← readNode n
    setCell n (.node { ns with overload := x })
  | .setNodeVersion n x => do
    let ns ← readNode n
    setCell n (.node { ns with version := x })
  | .setNodeDoc n x => do
    let ns ← readNode n
    setCell n (.node { ns with doc := x })
  | .setGraphDoc g x => do
    let gs ← readGraph g
    setCell g (.graph { gs with doc := x })
  | .setDev n d => do
    let ns ← readNode n
    setCell n (.node { ns with dev := d })
  | .setFuncName f x => do
    let fs ← readFunc f
    setCell f (.func { fs with name := x })
  | .setModelHeader m x => do
    let ms ← readModel m
    setCell m (.model { ms with header := x })
  | e => applyEdit0 e

def applyEdits : List Edit → M Unit
  | [] => pure ()
  | e :: es => do
    applyEdit e
    applyEdits es

def run (m : M α) (w : World) : Except Err α × World :=
  match m { w := w } with
  | (r, s) => (r, s.w)


/-- an edit history: every edit is attempted in order; an edit that raises leaves whatever it had
    already written (as in Python) and the history goes on -/
def runHistory : List Edit → World → List (Except Err Unit) × World
  | [], w => ([], w)
  | e :: es, w =>
    match run (applyEdit e) w with
    | (r, w1) =>
      match runHistory es w1 with
      | (rs, w2) => (r :: rs, w2)

/-- `passes.functionalize(p)(model)` (`_pass_infra.py` `_FunctionalPassWrapper.call`):
    `return self._inner_pass(model.clone())`.  The wrapped in-place pass is modelled by the edit
    history it performs, which may depend on the clone it is handed and on the heap it finds. -/
def functionalize (fuel : Nat) (pass : Nat → World → List Edit) (m : Nat) (w : World) :
    Except Err Nat × World :=
  match run (modelClone fuel m) w with
  | (.ok m', w1) => (.ok m', (runHistory (pass m' w1) w1).2)
  | (.error e, w1) => (.error e, w1)

/-- the pointers editing calls follow from a cell (to find the cells they write) -/
def followed : Cell → List Nat
  | .val v => v.type.toList ++ v.shape.toList ++ [v.props, v.mstore] ++ v.graph.toList ++ v.const.toList
  | .node n => n.inputs.filterMap id ++ [n.props, n.mstore]
  | .graph g => g.outputs ++ [g.props, g.mstore]
  | .model m => [m.props, m.mstore]
  | _ => []

/-- every `const_value` is a tensor object -/
def constTyped (w : World) : Bool :=
  w.all fun c => match c with
    | .val v => match v.const with
      | some t => match w[t]? with
        | some (.tensor _) => true
        | _ => false
      | none => true
    | _ => true

/-- every usage record names an existing cell -/
def usesBounded (w : World) : Bool :=
  w.all fun c => match c with
    | .val v => v.uses.all fun u => u.1 < w.length
    | _ => true

/-- no dangling pointers and well-typed tensor references: what holds of every heap abstracted
    from live Python objects -/
def wellFormed (w : World) : Bool :=
  (w.all fun c => (followed c).all fun p => p < w.length) && constTyped w

/-! ### what serialization observes (used by C13_faithful_serialize; `clone.ser` in the driver) -/

/-- a cell without the back links (users, owning graph, ownership flags, producer) -/
def Cell.core : Cell → Cell
  | .val v => .val { v with uses := [], graph := none, isIn := false, isOut := false, isInit := false,
                            producer := none }
  | .node n => .node { n with graph := none }
  | c => c

def coreAt (w : World) (i : Nat) : Option Cell := (w[i]?).map Cell.core


/-- what can be observed of a value besides its connections: name, doc string, constant tensor,
    the content of its type and shape objects, of `metadata_props` and of `meta` -/
structure VInfo where
  name : Option String
  doc : Option String
  const : Option Nat
  type : Option TypeS
  shape : Option (List Dim × List (Option String))
  props : List (String × String)
  mdata : List (String × String)
  minvalid : List String

def cType (w : World) (i : Nat) : Option TypeS :=
  match coreAt w i with | some (.type t) => some t | _ => none
def cShape (w : World) (i : Nat) : Option ShapeS :=
  match coreAt w i with | some (.shape t) => some t | _ => none
def cDict (w : World) (i : Nat) : Option DictS :=
  match coreAt w i with | some (.dict t) => some t | _ => none
def cVal (w : World) (i : Nat) : Option ValueS :=
  match coreAt w i with | some (.val t) => some t | _ => none
def cNode (w : World) (i : Nat) : Option NodeS :=
  match coreAt w i with | some (.node t) => some t | _ => none
def cGraph (w : World) (i : Nat) : Option GraphS :=
  match coreAt w i with | some (.graph t) => some t | _ => none
def cAttr (w : World) (i : Nat) : Option AttrS :=
  match coreAt w i with | some (.attr t) => some t | _ => none
def cFunc (w : World) (i : Nat) : Option FuncS :=
  match coreAt w i with | some (.func t) => some t | _ => none
def cModel (w : World) (i : Nat) : Option ModelS :=
  match coreAt w i with | some (.model t) => some t | _ => none

def optType (w : World) : Option Nat → Option (Option TypeS)
  | none => some none
  | some t => (cType w t).map some

def optShape (w : World) : Option Nat → Option (Option (List Dim × List (Option String)))
  | none => some none
  | some t => (cShape w t).map fun s => some (s.dims, s.denots)

def vinfo (w : World) (v : Nat) : Option VInfo :=
  match cVal w v with
  | none => none
  | some vs =>
    match optType w vs.type, optShape w vs.shape, cDict w vs.props, cDict w vs.mstore with
    | some ty, some sh, some p, some m =>
      some { name := vs.name, doc := vs.doc, const := vs.const, type := ty, shape := sh,
             props := p.data, mdata := m.data, minvalid := m.invalid }
    | _, _, _, _ => none


mutual
/-- `GraphProto` as far as the IR determines it (value infos carry the whole observation) -/
inductive SGraph where
  | mk (name doc : Option String) (opsets : List (String × Int)) (inputs inits : List VInfo)
      (nodes : List SNode) (outputs : List VInfo) (props mdata : List (String × String))
      (minvalid : List String)
/-- `NodeProto`: inputs by name (`none` = omitted input) -/
inductive SNode where
  | mk (name doc : Option String) (domain opType overload : String) (version : Option Int)
      (inputs : List (Option (Option String))) (outputs : List VInfo) (attrs : List SAttr)
      (props mdata : List (String × String)) (minvalid : List String)
      (dev : List (Nat × List (Nat × Option (Option String))))
/-- `AttributeProto` -/
inductive SAttr where
  | plain (name : String) (doc : Option String) (v : AttrV)
  | graph (name : String) (doc : Option String) (g : SGraph)
  | graphs (name : String) (doc : Option String) (gs : List SGraph)
end

def optMapM {α β : Type} (f : α → Option β) : List α → Option (List β)
  | [] => some []
  | a :: as =>
    match f a, optMapM f as with
    | some b, some bs => some (b :: bs)
    | _, _ => none

def distinct : List String → Bool
  | [] => true
  | a :: as => !as.contains a && distinct as

/-- name of a referenced value (`""`/absent for `None`) -/
def serRef (w : World) : Option Nat → Option (Option (Option String))
  | none => some none
  | some v => (cVal w v).map fun x => some x.name

def serDev (w : World) (d : List DevCfg) : Option (List (Nat × List (Nat × Option (Option String)))) :=
  optMapM (fun c => (optMapM (fun sp => (serRef w sp.value).map fun r => (sp.payload, r)) c.specs).map
    fun specs => (c.cfg, specs)) d

/-- the attribute container is consistent: every attribute is filed under its own name, once -/
def attrsOk (w : World) (attrs : List (String × Nat)) : Bool :=
  distinct (attrs.map (·.1)) &&
  attrs.all fun ka => match cAttr w ka.2 with
    | some as => as.name == ka.1
    | none => false

def serAttr (rec : Nat → Option SGraph) (w : World) (a : Nat) : Option SAttr :=
  match cAttr w a with
  | none => none
  | some as =>
    match as.v with
    | .graph g => (rec g).map fun x => .graph as.name as.doc x
    | .graphs gs => (optMapM rec gs).map fun xs => .graphs as.name as.doc xs
    | v => some (.plain as.name as.doc v)

def serNode (rec : Nat → Option SGraph) (w : World) (n : Nat) : Option SNode :=
  match cNode w n with
  | none => none
  | some ns =>
    if attrsOk w ns.attrs then
      match optMapM (serRef w) ns.inputs, optMapM (vinfo w) ns.outputs,
            optMapM (fun ka => serAttr rec w ka.2) ns.attrs, cDict w ns.props, cDict w ns.mstore,
            serDev w ns.dev with
      | some ins, some outs, some attrs, some p, some m, some dev =>
        some (.mk ns.name ns.doc ns.domain ns.opType ns.overload ns.version ins outs attrs p.data
          m.data m.invalid dev)
      | _, _, _, _, _, _ => none
    else none

/-- names of the initializers: all present and pairwise different -/
def initsOk (w : World) (vs : List Nat) : Bool :=
  match optMapM (fun v => (cVal w v).bind (·.name)) vs with
  | some names => distinct names
  | none => false

def serGraphStep (rec : Nat → Option SGraph) (w : World) (g : Nat) : Option SGraph :=
  match cGraph w g with
  | none => none
  | some gs =>
    if initsOk w (gs.inits.map (·.2)) then
      match optMapM (vinfo w) gs.inputs, optMapM (vinfo w) (gs.inits.map (·.2)),
            optMapM (serNode rec w) gs.nodes, optMapM (vinfo w) gs.outputs,
            cDict w gs.props, cDict w gs.mstore with
      | some ins, some inits, some nodes, some outs, some p, some m =>
        some (.mk gs.name gs.doc gs.opsets ins inits nodes outs p.data m.data m.invalid)
      | _, _, _, _, _, _ => none
    else none

/-- what the serializer writes for graph `g` (nesting depth bounded by the fuel) -/
def serGraph : Nat → World → Nat → Option SGraph
  | 0, _, _ => none
  | k + 1, w, g => serGraphStep (serGraph k w) w g


/-! ### the extended editing alphabet (deepening round 3): graph inputs, the initializer mapping,
`sort`, `insert_before/after`, `replace_all_uses_with`, `resize_inputs/outputs`, `model.functions` -/

inductive Edit2 where
  /-- an editing call of the first alphabet -/
  | base (e : Edit)
  /-- `graph.inputs.append(v)` (`_graph_containers.py` `_GraphIO.append`, `GraphInputs._set_graph`) -/
  | appendInput (g v : Nat)
  /-- `graph.inputs.pop()` (`_GraphIO.pop`, `GraphInputs._maybe_unset_graph`) -/
  | popInput (g : Nat)
  /-- `graph.initializers[key] = v` (`GraphInitializers.__setitem__`) -/
  | setInit (g : Nat) (key : String) (v : Nat)
  /-- `del graph.initializers[key]` (`GraphInitializers.__delitem__`) -/
  | delInit (g : Nat) (key : String)
  /-- `graph.register_initializer(v)` (`_core.py` `Graph.register_initializer`) -/
  | registerInit (g v : Nat)
  /-- `graph.sort()` (`_core.py` `Graph.sort`) on a graph whose nodes hold no subgraphs -/
  | sort (g : Nat)
  /-- `graph.insert_before(anchor, n)` -/
  | insertBefore (g anchor n : Nat)
  /-- `graph.insert_after(anchor, n)` -/
  | insertAfter (g anchor n : Nat)
  /-- `v.replace_all_uses_with(r, replace_graph_outputs=outs)` (`_core.py` `Value.replace_all_uses_with`) -/
  | replaceAllUses (v r : Nat) (outs : Bool)
  /-- `node.resize_inputs(k)` -/
  | resizeInputs (n k : Nat)
  /-- `node.resize_outputs(k)` -/
  | resizeOutputs (n k : Nat)
  /-- `model.functions[f.identifier()] = f`: `idx` = position of that key in the dict, `none` when new -/
  | putFunc (m : Nat) (idx : Option Nat) (f : Nat)
  /-- `del model.functions[key]`: `idx` = position of the key (out of range: `KeyError`) -/
  | delFunc (m : Nat) (idx : Nat)
  deriving Repr

def Edit2.args : Edit2 → List Nat
  | .base e => e.args
  | .appendInput g v => [g, v]
  | .popInput g => [g]
  | .setInit g _ v => [g, v]
  | .delInit g _ => [g]
  | .registerInit g v => [g, v]
  | .sort g => [g]
  | .insertBefore g a n => [g, a, n]
  | .insertAfter g a n => [g, a, n]
  | .replaceAllUses v r _ => [v, r]
  | .resizeInputs n _ => [n]
  | .resizeOutputs n _ => [n]
  | .putFunc m _ f => [m, f]
  | .delFunc m _ => [m]

/-- `_maybe_unset_graph` once the value is no longer listed: clear the flag, and forget the graph
    unless the value is still an input, output or initializer (`Value._owned_by_graph`) -/
def unsetOwner (g : Nat) (clear : ValueS → ValueS) (v : Nat) : M Unit := do
  let vs ← readVal v
  if vs.graph != some g then unsupported "value does not belong to the graph (assert)" else
  let vs := clear vs
  setCell v (.val (if vs.isIn || vs.isOut || vs.isInit then vs else { vs with graph := none }))

/-- `assert value._graph is self._graph` -/
def assertOwner (g v : Nat) : M Unit := do
  let vs ← readVal v
  if vs.graph != some g then unsupported "value does not belong to the graph (assert)" else pure ()

/-- `name and key != name` -/
def nameMismatch (vs : ValueS) (key : String) : Bool :=
  match vs.name with
  | some nm => nm != "" && nm != key
  | none => false

/-- `if not value.name: value.name = key` -/
def renameIfUnnamed (v : Nat) (key : String) (vs : ValueS) : M Unit :=
  if vs.name = none || vs.name = some "" then applyEdit0 (.setName v (some key)) else pure ()

/-- `if key in self.data: self._maybe_unset_graph(self.data[key])` -/
def unsetOldInit (g : Nat) (key : String) : M Unit := do
  let gs ← readGraph g
  match gs.inits.lookup key with
  | some old => unsetOwner g (fun x => { x with isInit := false }) old
  | none => pure ()

/-- `self._set_graph(value); super().__setitem__(key, value)` -/
def setInitFinish (g : Nat) (key : String) (v : Nat) : M Unit := do
  let vs ← readVal v
  if vs.graph.isSome && vs.graph != some g then raise "value owned by a different graph"
  else do
    setCell v (.val { vs with isInit := true, graph := some g })
    let gs ← readGraph g
    setCell g (.graph { gs with inits := dictSet gs.inits key v })

/-- `GraphInitializers._check_item` followed by `__setitem__` -/
def setInitCore (g : Nat) (key : String) (v : Nat) : M Unit := do
  let gs ← readGraph g
  if gs.view then unsupported "view" else
  let vs ← readVal v
  if key = "" then raise "empty key"
  else if nameMismatch vs key then raise "key does not match the name of the value"
  else if vs.producer.isSome then raise "produced by a node"
  else if vs.graph.isSome && vs.graph != some g then raise "value owned by a different graph"
  else do
    renameIfUnnamed v key vs
    unsetOldInit g key
    setInitFinish g key v

/-- position of a node in the node list -/
def posOf (l : List Nat) (n : Nat) : Nat := l.findIdx (· == n)

/-- the direct predecessors of a node (`Graph.sort` step 1, no subgraphs): the producer of every
    input, with multiplicity, when it is a node of the list -/
def sortPreds (w : World) (nodes : List Nat) (n : Nat) : List Nat :=
  match w[n]? with
  | some (.node ns) => ns.inputs.filterMap fun o =>
      match o with
      | none => none
      | some v => match w[v]? with
        | some (.val vs) => match vs.producer with
          | some p => if nodes.contains p then some p else none
          | none => none
        | _ => none
  | _ => []

/-- `heapq.heappop` on `(-index, node)`: the queued node with the largest original index -/
def popMax (nodes : List Nat) : List Nat → Option Nat
  | [] => none
  | q :: qs => some (qs.foldl (fun a b => if posOf nodes b > posOf nodes a then b else a) q)

/-- steps 2-3 of `Graph.sort`: Kahn's algorithm from the sinks, largest index first -/
def sortLoop (w : World) (nodes : List Nat) :
    Nat → (depth : List (Nat × Nat)) → (queue : List Nat) → (sorted : List Nat) → List Nat
  | 0, _, _, sorted => sorted
  | fuel + 1, depth, queue, sorted =>
    match popMax nodes queue with
    | none => sorted
    | some cur =>
      let queue := queue.filter (· != cur)
      let step := (sortPreds w nodes cur).foldl (fun (acc : List (Nat × Nat) × List Nat) p =>
        let d := (acc.1.lookup p).getD 0 - 1
        let depth' := acc.1.map (fun e => if e.1 == p then (p, d) else e)
        (depth', if d == 0 then acc.2 ++ [p] else acc.2)) (depth, queue)
      sortLoop w nodes fuel step.1 step.2 (sorted ++ [cur])

def hasGraphAttr (w : World) (n : Nat) : Bool :=
  match w[n]? with
  | some (.node ns) => ns.attrs.any fun ka =>
      match w[ka.2]? with
      | some (.attr a) => (match a.v with | .graph _ => true | .graphs _ => true | _ => false)
      | _ => true
  | _ => true

/-- a node the graph can (re-)add without inventing a name: it belongs to `g` or to no graph, and
    it and its outputs are named -/
def nodeAddable (w : World) (g : Nat) (n : Nat) : Except Err Unit :=
  match w[n]? with
  | some (.node ns) =>
    if ns.graph.isSome && ns.graph != some g then .error (.raised "node belongs to another graph")
    else if ns.name.isNone then .error (.unsupported "unnamed node (name authority)")
    else if ns.outputs.all (fun o => match w[o]? with
        | some (.val vs) => vs.name.isSome
        | _ => false) then .ok ()
    else .error (.unsupported "unnamed output (name authority)")
  | _ => .error (.unsupported "not a node")

/-- what `graph.sort()` leaves in `graph._nodes`: `sorted` is in reversed topological order, the
    graph is re-extended with `reversed(sorted)` -/
def sortOrder (w : World) (g : Nat) (gs : GraphS) : Except Err (List Nat) :=
  let nodes := gs.nodes
  if gs.view then .error (.unsupported "view")
  else if nodes.any (hasGraphAttr w) then .error (.unsupported "sort with subgraphs")
  else if !(nodes.all fun n => match w[n]? with
      | some (.node ns) => ns.graph == some g
      | _ => false) then .error (.unsupported "inconsistent node.graph")
  else if !(nodes.eraseDups.length == nodes.length) then .error (.unsupported "duplicate node")
  else
    let preds := nodes.flatMap (sortPreds w nodes)
    let depth := nodes.map fun n => (n, preds.count n)
    let queue := nodes.filter fun n => preds.count n == 0
    let sorted := sortLoop w nodes (nodes.length + 1) depth queue []
    if sorted.length != nodes.length then .error (.raised "Graph contains a cycle")
    else match nodes.foldl (fun (r : Except Err Unit) n =>
        match r with
        | .ok () => nodeAddable w g n
        | e => e) (.ok ()) with
      | .ok () => .ok sorted.reverse
      | .error e => .error e

/-- `DoublyLinkedSet.insert_after(anchor, [n])` / `insert_before` on the list of nodes: a node that
    is already in the list is removed first; inserting a node next to itself changes nothing -/
def insertRel (after : Bool) (l : List Nat) (anchor n : Nat) : List Nat :=
  if n = anchor then l
  else
    let l' := l.filter (· != n)
    l'.flatMap fun x => if x = anchor then (if after then [x, n] else [n, x]) else [x]

/-- the heap, for read-only computations -/
def getWorld : M World := fun s => (.ok s.w, s)

def liftE : Except Err α → M α
  | .ok a => pure a
  | .error e => fail e

def insertNode (after : Bool) (g anchor n : Nat) : M Unit := do
  let gs ← readGraph g
  if gs.view then unsupported "view" else
  let as ← readNode anchor
  if as.graph != some g then raise "the anchor does not belong to this graph" else
  let w ← getWorld
  liftE (nodeAddable w g n)
  let ns ← readNode n
  setCell n (.node { ns with graph := some g })
  let gs ← readGraph g
  if gs.nodes.contains anchor then
    setCell g (.graph { gs with nodes := insertRel after gs.nodes anchor n })
  else raise "anchor is not in the list"

/-- `_maybe_unset_graph(v)` of `graph.outputs[i] = r`: when `v` is listed more than once only the
    reference count drops -/
def unsetOutput (g v : Nat) (still : Bool) : M Unit :=
  if still then assertOwner g v else unsetOwner g (fun x => { x with isOut := false }) v

/-- `_set_graph(r); data[i] = r` -/
def setOutputAt (g i r : Nat) : M Unit := do
  let rs ← readVal r
  if rs.graph.isSome && rs.graph != some g then raise "value owned by a different graph" else do
    setCell r (.val { rs with isOut := true, graph := some g })
    let gs ← readGraph g
    setCell g (.graph { gs with outputs := gs.outputs.set i r })

/-- `graph.outputs[i] = r` (`_GraphIO.__setitem__`, single item) where `outputs[i] is v` -/
def replaceOutputAt (g v r i : Nat) : M Unit := do
  let gs ← readGraph g
  let rs ← readVal r
  if rs.graph.isSome && rs.graph != some g then raise "value owned by a different graph" else do
    unsetOutput g v (gs.outputs.count v > 1)
    setOutputAt g i r

/-- `for i, output in enumerate(graph.outputs): if output is self: graph.outputs[i] = replacement` -/
def replaceOutputs (g v r : Nat) : List Nat → M Unit
  | [] => pure ()
  | i :: is => do
    let gs ← readGraph g
    if (gs.outputs[i]?) = some v then do
      replaceOutputAt g v r i
      replaceOutputs g v r is
    else replaceOutputs g v r is

/-- the graph-output part of `Value.replace_all_uses_with` -/
def rauwOutputs (v r : Nat) (outs : Bool) : M Unit := do
  let vs ← readVal v
  if vs.isOut then
    match vs.graph with
    | none => unsupported "graph output without a graph"
    | some g =>
      if !outs then raise "value is a graph output" else do
        let gs ← readGraph g
        replaceOutputs g v r (List.range gs.outputs.length)
  else pure ()

def clearProducer (v : Nat) : M Unit := do
  let vs ← readVal v
  setCell v (.val { vs with producer := none, index := none })

def dropShardingOf (n : Nat) (v : Nat) : M Unit := do
  let ns ← readNode n
  setCell n (.node (dropSharding ns v))

def checkNoUses (v : Nat) : M Unit := do
  let vs ← readVal v
  if vs.uses.isEmpty then pure () else raise "removed output has uses"

def applyEdit2 : Edit2 → M Unit
  | .base e => applyEdit e
  | .appendInput g v => do
    let gs ← readGraph g
    if gs.view then unsupported "view" else
    let vs ← readVal v
    if vs.graph.isSome && vs.graph != some g then raise "value owned by a different graph"
    else if vs.producer.isSome then raise "produced by a node"
    else do
      setCell v (.val { vs with isIn := true, graph := some g })
      setCell g (.graph { gs with inputs := gs.inputs ++ [v] })
  | .popInput g => do
    let gs ← readGraph g
    if gs.view then unsupported "view" else
    match gs.inputs.getLast? with
    | none => raise "pop from empty list"
    | some v => do
      let rest := gs.inputs.dropLast
      setCell g (.graph { gs with inputs := rest })
      if rest.contains v then assertOwner g v
      else unsetOwner g (fun x => { x with isIn := false }) v
  | .setInit g key v => setInitCore g key v
  | .delInit g key => do
    let gs ← readGraph g
    if gs.view then unsupported "view" else
    match gs.inits.lookup key with
    | none => raise "KeyError"
    | some v => do
      unsetOwner g (fun x => { x with isInit := false }) v
      let gs ← readGraph g
      setCell g (.graph { gs with inits := dictErase gs.inits key })
  | .registerInit g v => do
    let gs ← readGraph g
    let vs ← readVal v
    match vs.name with
    | none => raise "initializer must have a name"
    | some nm =>
      if nm = "" then raise "initializer must have a name"
      else if (gs.inits.lookup nm).isSome && gs.inits.lookup nm != some v then
        raise "initializer already registered"
      else if vs.const.isNone then raise "const_value not set"
      else setInitCore g nm v
  | .sort g => do
    let gs ← readGraph g
    let w ← getWorld
    let order ← liftE (sortOrder w g gs)
    setCell g (.graph { gs with nodes := order })
  | .insertBefore g anchor n => insertNode false g anchor n
  | .insertAfter g anchor n => insertNode true g anchor n
  | .replaceAllUses v r outs => do
    rauwOutputs v r outs
    let vs ← readVal v
    forM' (fun u => applyEdit0 (.replaceInput u.1 u.2 (some r))) vs.uses
  | .resizeInputs n k => do
    let ns ← readNode n
    if k = ns.inputs.length then pure ()
    else if k < ns.inputs.length then do
      forM' (fun i => applyEdit0 (.replaceInput n i none)) ((List.range ns.inputs.length).drop k)
      let ns ← readNode n
      setCell n (.node { ns with inputs := ns.inputs.take k })
    else setCell n (.node { ns with inputs := ns.inputs ++ List.replicate (k - ns.inputs.length) none })
  | .resizeOutputs n k => do
    let ns ← readNode n
    if k = ns.outputs.length then pure ()
    else if k < ns.outputs.length then do
      forM' checkNoUses (ns.outputs.drop k)
      forM' clearProducer (ns.outputs.drop k)
      let ns2 ← readNode n
      setCell n (.node { ns2 with outputs := ns2.outputs.take k })
      forM' (dropShardingOf n) (ns.outputs.drop k)
    else do
      let outs ← mkOutputs n ns.outputs.length (k - ns.outputs.length)
      let ns ← readNode n
      setCell n (.node { ns with outputs := ns.outputs ++ outs })
  | .putFunc m idx f => do
    let ms ← readModel m
    let _ ← readFunc f
    match idx with
    | none => setCell m (.model { ms with funcs := ms.funcs ++ [f] })
    | some i =>
      if i < ms.funcs.length then setCell m (.model { ms with funcs := ms.funcs.set i f })
      else unsupported "position out of range"
  | .delFunc m i => do
    let ms ← readModel m
    if i < ms.funcs.length then setCell m (.model { ms with funcs := ms.funcs.eraseIdx i })
    else raise "KeyError"

/-- an edit history over the extended alphabet (see `runHistory`) -/
def runHistory2 : List Edit2 → World → List (Except Err Unit) × World
  | [], w => ([], w)
  | e :: es, w =>
    match run (applyEdit2 e) w with
    | (r, w1) =>
      match runHistory2 es w1 with
      | (rs, w2) => (r :: rs, w2)

/-- `functionalize` with a wrapped pass that uses the extended alphabet -/
def functionalize2 (fuel : Nat) (pass : Nat → World → List Edit2) (m : Nat) (w : World) :
    Except Err Nat × World :=
  match run (modelClone fuel m) w with
  | (.ok m', w1) => (.ok m', (runHistory2 (pass m' w1) w1).2)
  | (.error e, w1) => (.error e, w1)

/-- every sharding spec of the node targets one of the node's own inputs or outputs -/
def devLocalB (n : NodeS) : Bool :=
  n.dev.all fun c => c.specs.all fun sp =>
    match sp.value with
    | some v => n.inputs.contains (some v) || n.outputs.contains v
    | none => true

/-- every node of the heap has only local sharding specs (decidable; checked on every abstracted
    real heap by the driver) -/
def devLocalW (w : World) : Bool :=
  w.all fun c => match c with
    | .node n => devLocalB n
    | _ => true

/-- the pointers the calls of the extended alphabet follow from a cell, on top of `followed`:
    graph inputs and initializers, node outputs, the users of a value -/
def followed2 : Cell → List Nat
  | .val v => v.uses.map (·.1)
  | .node n => n.outputs
  | .graph g => g.inputs ++ g.inits.map (·.2)
  | _ => []

/-- `wellFormed` for the extended alphabet -/
def wellFormed2 (w : World) : Bool :=
  wellFormed w && (w.all fun c => (followed2 c).all fun p => p < w.length)

/-! ### the scope walker: when does `clone` succeed / raise? (deepening round 3)

`wGraph` walks the SOURCE heap in the cloner's traversal order with a four-list abstract state
instead of a heap: which values are bound in the value map, which node outputs are still pending,
which bound values have a clone that a finished graph owns, which have a clone produced by a node.
It answers `ok` (the graph is well-formed, def-before-use sorted and well-scoped: `clone` returns),
`err e` (`clone` ends with exactly that error: the "clear errors" of the cloner and of the
`Graph(...)` constructor it calls, `unsupported` for what the model does not cover) or `irregular`
(no claim: a dangling pointer, a node output that is already bound, initializer names that are not
pairwise different).  Theorems `C13_clone_succeeds` / `C13_clone_raises_iff`. -/

structure Sc where
  bound : List Nat := []
  pend : List Nat := []
  owned : List Nat := []
  produced : List Nat := []
  deriving DecidableEq, Repr

inductive WRes (α : Type) where
  | ok (a : α)
  | err (e : Err)
  | irregular (why : String)
  deriving Repr

def WRes.bind {α β : Type} (x : WRes α) (f : α → WRes β) : WRes β :=
  match x with
  | .ok a => f a
  | .err e => .err e
  | .irregular why => .irregular why

instance : Monad WRes where
  pure := WRes.ok
  bind := WRes.bind

def wFold {α : Type} (f : α → Sc → WRes Sc) : List α → Sc → WRes Sc
  | [], A => .ok A
  | a :: as, A => (f a A).bind (wFold f as)

def wAll {α : Type} (f : α → WRes Unit) : List α → WRes Unit
  | [] => .ok ()
  | a :: as => (f a).bind fun _ => wAll f as

def wCell (w : World) (i : Nat) : WRes Cell :=
  match w[i]? with
  | some c => .ok c
  | none => .irregular "dangling pointer"

def wVal (w : World) (i : Nat) : WRes ValueS :=
  (wCell w i).bind fun c => match c with
    | .val v => .ok v
    | _ => .err (.unsupported "not a value")
def wNodeCell (w : World) (i : Nat) : WRes NodeS :=
  (wCell w i).bind fun c => match c with
    | .node v => .ok v
    | _ => .err (.unsupported "not a node")
def wGraphCell (w : World) (i : Nat) : WRes GraphS :=
  (wCell w i).bind fun c => match c with
    | .graph v => .ok v
    | _ => .err (.unsupported "not a graph")
def wAttrCell (w : World) (i : Nat) : WRes AttrS :=
  (wCell w i).bind fun c => match c with
    | .attr v => .ok v
    | _ => .err (.unsupported "not an attr")
def wDict (w : World) (i : Nat) : WRes Unit :=
  (wCell w i).bind fun c => match c with
    | .dict _ => .ok ()
    | _ => .err (.unsupported "not a dict")
def wShape (w : World) (i : Nat) : WRes Unit :=
  (wCell w i).bind fun c => match c with
    | .shape _ => .ok ()
    | _ => .err (.unsupported "not a shape")
def wType (w : World) (i : Nat) : WRes Unit :=
  (wCell w i).bind fun c => match c with
    | .type _ => .ok ()
    | _ => .err (.unsupported "not a type")
def wOptShape (w : World) : Option Nat → WRes Unit
  | none => .ok ()
  | some i => wShape w i
def wOptType (w : World) : Option Nat → WRes Unit
  | none => .ok ()
  | some i => wType w i

/-- the copies made for a cloned value: shape, type, `metadata_props`, `meta` -/
def wCopyVal (w : World) (vs : ValueS) : WRes Unit :=
  (wOptShape w vs.shape).bind fun _ => (wOptType w vs.type).bind fun _ =>
    (wDict w vs.props).bind fun _ => wDict w vs.mstore

/-- `_clone_or_get_value` -/
def wCloneOrGet (w : World) (v : Nat) (A : Sc) : WRes Sc :=
  if A.bound.contains v then .ok A
  else (wVal w v).bind fun vs => (wOptShape w vs.shape).bind fun _ => (wOptType w vs.type).bind fun _ =>
    (wDict w vs.props).bind fun _ => (wDict w vs.mstore).bind fun _ => .ok { A with bound := v :: A.bound }

/-- the node-input loop -/
def wMapInputs (allow : Bool) (A : Sc) : List (Option Nat) → WRes Unit
  | [] => .ok ()
  | none :: rest => wMapInputs allow A rest
  | some v :: rest =>
    if A.bound.contains v then wMapInputs allow A rest
    else if allow then
      if A.pend.contains v then .err (.raised "value defined by a later node of the graph being cloned")
      else wMapInputs allow A rest
    else .err (.raised "outer-scope value")

def wAttr (w : World) (rec : Nat → Sc → WRes Sc) (a : Nat) (A : Sc) : WRes Sc :=
  (wAttrCell w a).bind fun as => match as.v with
    | .graph g => rec g A
    | .graphs gs => wFold rec gs A
    | _ => .ok A

/-- the clone of one node output -/
def wOutput (w : World) (o : Nat) (A : Sc) : WRes Sc :=
  (wVal w o).bind fun os => (wOptShape w os.shape).bind fun _ => (wOptType w os.type).bind fun _ =>
    (wDict w os.props).bind fun _ => (wDict w os.mstore).bind fun _ =>
    if A.bound.contains o then .irregular "node output is already bound in the value map"
    else .ok { A with bound := o :: A.bound, pend := A.pend.filter (· != o) }

/-- `value._add_usage` on the inputs that were passed through: they must be values -/
def wPassthrough (w : World) (A : Sc) : List (Option Nat) → WRes Unit
  | [] => .ok ()
  | none :: rest => wPassthrough w A rest
  | some v :: rest =>
    if A.bound.contains v then wPassthrough w A rest
    else (wVal w v).bind fun _ => wPassthrough w A rest

/-- `clone_node` -/
def wNode (w : World) (allow : Bool) (rec : Nat → Sc → WRes Sc) (n : Nat) (A : Sc) : WRes Sc :=
  (wNodeCell w n).bind fun ns => (wMapInputs allow A ns.inputs).bind fun _ =>
    (wFold (fun (ka : String × Nat) => wAttr w rec ka.2) ns.attrs A).bind fun A1 =>
    (wDict w ns.props).bind fun _ => (wDict w ns.mstore).bind fun _ =>
    (wFold (wOutput w) ns.outputs A1).bind fun A2 =>
    (if !allow && ns.dev.any (fun c => c.specs.any fun sp => match sp.value with
        | none => false
        | some v => !ns.inputs.contains (some v) && !ns.outputs.contains v && !A2.bound.contains v)
      then WRes.err (.raised "sharding spec targets an outer-scope value") else WRes.ok ()).bind fun _ =>
    (wPassthrough w A ns.inputs).bind fun _ => .ok { A2 with produced := ns.outputs.reverse ++ A2.produced }

def wAllOutputs (w : World) : List Nat → WRes (List Nat)
  | [] => .ok []
  | n :: ns => (wNodeCell w n).bind fun x => (wAllOutputs w ns).bind fun r => .ok (x.outputs ++ r)

def wName (w : World) (v : Nat) : Option String :=
  match w[v]? with
  | some (.val vs) => vs.name
  | _ => none

/-- the constructor `Graph(inputs, outputs, nodes=, initializers=, ...)` on the clones, read off the
    source: the ownership checks of `GraphInputs` / `GraphOutputs` / `GraphInitializers`, the name
    authority -/
def wMkGraph (w : World) (gs : GraphS) (A : Sc) : WRes Sc :=
  let inits := gs.inits.map (·.2)
  (wAll (fun v => match wName w v with
      | none => .err (.raised "initializer without a name")
      | some _ => .ok ()) inits).bind fun _ =>
  (if distinct (inits.filterMap (wName w)) then WRes.ok () else WRes.irregular "initializer names not distinct").bind fun _ =>
  (wDict w gs.props).bind fun _ => (wDict w gs.mstore).bind fun _ =>
  (wAll (fun v => if A.owned.contains v then .err (.raised "input owned by a different graph")
      else if A.produced.contains v then .err (.raised "input is produced by a node") else .ok ()) gs.inputs).bind fun _ =>
  (wAll (fun v => if A.owned.contains v then .err (.raised "value owned by a different graph") else .ok ())
      gs.outputs).bind fun _ =>
  (wAll (fun v => if A.owned.contains v then .err (.raised "value owned by a different graph") else .ok ())
      inits).bind fun _ =>
  (wAll (fun v => if wName w v = some "" then .err (.raised "initializer with an empty name")
      else if A.produced.contains v then .err (.raised "initializer produced by a node") else .ok ()) inits).bind fun _ =>
  (wAll (fun v => if (wName w v).isNone then .err (.unsupported "unnamed value (name authority)") else .ok ())
      gs.inputs).bind fun _ =>
  (wAll (fun n => (wNodeCell w n).bind fun ns =>
      wAll (fun o => if (wName w o).isNone then .err (.unsupported "unnamed value (name authority)") else .ok ())
        ns.outputs) gs.nodes).bind fun _ =>
  .ok { A with owned := A.owned ++ gs.inputs ++ gs.outputs ++ inits }

/-- `_clone_graph` -/
def wGraphStep (w : World) (allow : Bool) (rec : Nat → Sc → WRes Sc) (g : Nat) (A : Sc) : WRes Sc :=
  (wGraphCell w g).bind fun gs =>
  (wFold (wCloneOrGet w) gs.inputs A).bind fun A1 =>
  (wFold (wCloneOrGet w) (gs.inits.map (·.2)) A1).bind fun A2 =>
  (wAllOutputs w gs.nodes).bind fun outs =>
  (wFold (wNode w allow rec) gs.nodes { A2 with pend := A2.pend ++ outs }).bind fun A4 =>
  (wAll (fun v => if A4.bound.contains v then .ok () else .err (.raised "graph output is not in the value map"))
      gs.outputs).bind fun _ =>
  wMkGraph w gs A4

def wGraph (w : World) (allow : Bool) : Nat → Nat → Sc → WRes Sc
  | 0 => fun _ _ => .err .fuel
  | f + 1 => fun g A => wGraphStep w allow (wGraph w allow f) g A

/-- the walker's verdict on `graph.clone(allow_outer_scope_values=allow)` -/
def cloneVerdict (fuel : Nat) (allow : Bool) (w : World) (g : Nat) : WRes Sc :=
  wGraph w allow fuel g {}

def wFuncCell (w : World) (i : Nat) : WRes FuncS :=
  (wCell w i).bind fun c => match c with
    | .func v => .ok v
    | _ => .err (.unsupported "not a function")

/-- the walker's verdict on `function.clone()`: the body, then the graph-valued defaults of the
    attribute declarations, all under one value map (`Function.clone`, `_core.py`) -/
def funcVerdict (fuel : Nat) (w : World) (f : Nat) : WRes Sc :=
  (wFuncCell w f).bind fun fs =>
    (wGraph w false fuel fs.graph {}).bind fun A1 =>
      wFold (fun (ka : String × Nat) A => (wAttrCell w ka.2).bind fun _ =>
        wAttr w (wGraph w false fuel) ka.2 A) fs.attrs A1

end IrVerif.Clone

import IrVerif.Model.AtomicSave
/-!
# C08, deepening round: symbolic links, the parallel writer's trace language, concurrent shards

Layered on `Model/AtomicSave.lean` (nothing there is changed).

## Symbolic links (external_data.py 453-471, 494-496, 503-504)

A path is a list of components below the root of the tree the save works in.  The link table maps the
*location* of a symbolic link (a real path: its parent directories are not links) to its text
(absolute = from the root, or relative to the directory that holds the link; `..` allowed).
`walk` is POSIX path resolution (what the kernel does for `open/stat/mkdtemp(dir=..)` and what
`os.path.realpath` computes, posixpath.py `_joinrealpath`): components are consumed left to right,
`.`/empty are skipped, `..` drops the last resolved component, a component that is a link is replaced
by its text (chains of any length, links in the middle of a path = symlinked directories); a component
that does not exist is kept (a dangling link resolves to its target name, as `realpath(strict=False)`).
Every step costs one unit of `gas`; running out of gas is ELOOP (a cycle) and yields `none`.

`entryOf` is the directory entry a path *names* (parents resolved, last component not followed): what
`lstat`/`os.path.islink` look at and what `os.replace(tmp, destination_path)` overwrites — if that entry
is a symbolic link, the link itself is replaced (`applyL`, effect `replace`, erases it from the table).

`destinationPathL` is lines 453-456; `saveL` runs the serial single-file save of `Model/AtomicSave.lean`
on a state that carries the link table, with the destination entry and the temporary directory's parent
computed the way the code and the kernel compute them.  External tensors spell their path any way they
like (`LExt.path`); `os.path.samefile` follows links on both sides.

## Parallel writer (external_data.py 606-666)

`parValid` decides membership of a writer trace in the trace language of `_write_parallel` (prelude
`open/truncate/close`, per worker one handle opened before use, tasks = `seekW` followed by the chunks,
every tensor exactly once, every call-back once, handles closed at the end).  `runMarked`/`saveMarked`
replay a writer block in which *any* subset of effects failed and the block nevertheless went on (the
other workers keep running until the pool is shut down; the `finally` closes the handles): the marks
are the faults of the block, `f` gives the faults outside it.

## Concurrent shard drivers (external_data.py 874-911)

`shardLoopAll`: the shard saves in the order the drivers ran them; a failing shard does not stop the
others (`with ThreadPoolExecutor(...)` waits for all of them), the exception is re-raised at the end.

Core Lean only (linked into the driver).
-/
namespace IrVerif.AtomicSave

abbrev Comps := List String

/-- Text of a symbolic link. -/
structure Link where
  /-- absolute text (resolution restarts at the root) or relative to the directory holding the link -/
  abs : Bool
  target : Comps
  deriving DecidableEq, Repr

/-- Link table: location of the link (a real path) and its text. -/
abbrev Links := List (Comps × Link)

/-- POSIX path resolution, following every link. `walk L gas done rest`: `done` is resolved already,
`rest` is still to be looked at. Returns the unused gas and the real path. -/
def walk (L : Links) : Nat → Comps → Comps → Option (Nat × Comps)
  | g, done, [] => some (g, done)
  | 0, _, _ :: _ => none
  | g + 1, done, c :: rest =>
    if c = "" ∨ c = "." then walk L g done rest
    else if c = ".." then walk L g done.dropLast rest
    else
      match L.lookup (done ++ [c]) with
      | some l => walk L g (if l.abs then [] else done) (l.target ++ rest)
      | none => walk L g (done ++ [c]) rest

/-- `os.path.realpath(p)`; also the file `open(p)`, `os.stat(p)`, `os.path.exists(p)` reach. -/
def realpathL (L : Links) (gas : Nat) (p : Comps) : Option Comps := (walk L gas [] p).map (·.2)

/-- The directory entry `p` names: parent directories resolved, last component kept. -/
def entryOf (L : Links) (gas : Nat) (p : Comps) : Option Comps :=
  match p.getLast? with
  | none => none
  | some b => (realpathL L gas p.dropLast).map (· ++ [b])

/-- `os.path.islink(p)`. -/
def isLinkL (L : Links) (gas : Nat) (p : Comps) : Bool :=
  match entryOf L gas p with
  | some e => (L.lookup e).isSome
  | none => false

/-- `destination_path` 453-456. `none`: `realpath` met a cycle (then Python returns a partly resolved
path; that case is not modelled, the harness keeps it oracle-only). -/
def destinationPathL (L : Links) (gas : Nat) (requested : Comps) : Option Comps :=
  if isLinkL L gas requested then realpathL L gas requested else some requested

/-- The real directory `tempfile.mkdtemp(dir=os.path.dirname(destination_path) or ".")` creates its
directory in, 457 and 467-470. -/
def tmpParentL (L : Links) (gas : Nat) (dest : Comps) : Option Comps := realpathL L gas dest.dropLast

/-- Name of a real path in the link-free file system of `Model/AtomicSave.lean`. -/
def nameOf (p : Comps) : String := "/".intercalate p

/-- A name no file has: what a path that cannot be resolved (ELOOP) is mapped to, so that
`os.path.samefile` on it is false (276-286 catch the OSError). -/
def unresolvable : String := "\x00"

/-- The file-system name a path reaches when every link is followed. -/
def followName (L : Links) (gas : Nat) (p : Comps) : String :=
  match realpathL L gas p with
  | some r => nameOf r
  | none => unresolvable

/-- `ExternalTensor` fields with the path as the tensor spells it. -/
structure LExt where
  path : Comps
  off : Nat
  len : Nat
  deriving Repr

structure LTensor where
  off : Nat
  chunks : List Bytes
  ext : Option LExt
  deriving Repr

structure LCfg where
  gas : Nat
  requested : Comps
  newMode : Nat
  tensors : List LTensor
  cb : Bool

def toTensor (L : Links) (gas : Nat) (t : LTensor) : Tensor :=
  ⟨t.off, t.chunks, t.ext.map fun e => ⟨followName L gas e.path, e.off, e.len⟩⟩

/-- The link-free configuration the effects work on once the destination entry is known. -/
def lower (L : Links) (c : LCfg) (entry : Comps) : Cfg :=
  ⟨⟨nameOf entry, c.newMode⟩, c.tensors.map (toTensor L c.gas), c.cb⟩

/-- State with the link table. -/
structure LSt where
  st : St
  links : Links

/-- Remove the link at location `k`. -/
def eraseKey (k : Comps) : Links → Links
  | [] => []
  | (a, l) :: r => if a = k then eraseKey k r else (a, l) :: eraseKey k r

/-- Effects on a file system with links. Only `os.replace` touches a directory entry the caller can
name: it overwrites the entry `entry` — a symbolic link there is gone afterwards. All other effects
work on the temporary paths, on inodes or on tensor objects, as in `apply`. -/
def applyL (env : Env) (entry : Comps) (s : LSt) : Eff → LSt
  | .replace =>
    ⟨apply env s.st .replace,
     if (s.st.fs.file .tmpFile).isSome then eraseKey entry s.links else s.links⟩
  | e => ⟨apply env s.st e, s.links⟩

def applyPartialL (env : Env) (s : LSt) (e : Eff) (p : Nat) : LSt := ⟨applyPartial env s.st e p, s.links⟩

structure LStep where
  eff : Eff
  failed : Bool
  st : LSt

structure LRes where
  steps : List LStep
  final : LSt
  faulted : Bool

/-- `runList` on states with links. -/
def runListL (env : Env) (entry : Comps) (f : Nat → Option Nat) : List Eff → Nat → LSt → LRes
  | [], _, s => ⟨[], s, false⟩
  | e :: es, n, s =>
    match f n with
    | some p => ⟨[⟨e, true, applyPartialL env s e p⟩], applyPartialL env s e p, true⟩
    | none =>
      let r := runListL env entry f es (n + 1) (applyL env entry s e)
      ⟨⟨e, false, applyL env entry s e⟩ :: r.steps, r.final, r.faulted⟩

/-- `saveWith` on states with links (same control flow, 467-513). -/
def saveWithL (env : Env) (entry : Comps) (body post : List Eff) (f : Nat → Option Nat) (n0 : Nat)
    (s0 : LSt) : LRes :=
  let a := runListL env entry f [.mkdtemp] n0 s0
  if a.faulted then a else
  let b := runListL env entry f (body ++ [.replace]) (n0 + 1) a.final
  let c := runListL env entry f [.removeTmp, .rmdirTmp] (n0 + 1 + b.steps.length) b.final
  if b.faulted || c.faulted then ⟨a.steps ++ b.steps ++ c.steps, c.final, true⟩ else
  let d := runListL env entry f post (n0 + 1 + b.steps.length + c.steps.length) c.final
  ⟨a.steps ++ b.steps ++ c.steps ++ d.steps, d.final, d.faulted⟩

/-- The destination entry `os.replace` overwrites for a request, 453-456 + kernel resolution. -/
def destEntryL (L : Links) (gas : Nat) (requested : Comps) : Option Comps :=
  (destinationPathL L gas requested).bind (entryOf L gas)

/-- The serial single-file save on a file system with links. `none`: the destination cannot be
resolved (cycle). -/
def saveL (L0 : Links) (c : LCfg) (f : Nat → Option Nat) (n0 : Nat) (s0 : St) : Option LRes :=
  match destEntryL L0 c.gas c.requested with
  | none => none
  | some entry =>
    let cfg := lower L0 c entry
    some (saveWithL cfg.env entry (tryBody cfg s0) (postEffs cfg s0) f n0 ⟨s0, L0⟩)

/-- The bytes reachable through path `p` (every link followed). -/
def reachL (L : Links) (gas : Nat) (s : St) (p : Comps) : Option Bytes :=
  (realpathL L gas p).bind fun r => (s.fs.file (.user (nameOf r))).map s.fs.data

/-- A proper file name: not empty, not `.` or `..`. -/
def properName (c : String) : Bool := c != "" && c != "." && c != ".."

/-- The requested path ends in a proper file name. -/
def properBase (p : Comps) : Bool :=
  match p.getLast? with
  | some b => properName b
  | none => false

/-! ## The parallel writer's trace language -/

/-- Split a writer trace's middle part into tasks per worker: every `seekW w off` starts a task on
`w`, the `writeW w` that follow on `w` are its chunks. Returns `none` if a write precedes any seek on
its worker. Tasks are accumulated in reverse order of their start. -/
def tasksOf : List Eff → List (Nat × Nat × List Bytes) → Option (List (Nat × Nat × List Bytes))
  | [], acc => some acc
  | .seekW w off :: r, acc => tasksOf r ((w, off, []) :: acc)
  | .writeW w bs :: r, acc =>
    match acc.span (fun t => t.1 != w) with
    | (before, (w', off, cs) :: after) => tasksOf r (before ++ (w', off, cs ++ [bs]) :: after)
    | (_, []) => none
  | _ :: r, acc => tasksOf r acc

/-- Workers' handles are opened once, before they are used, and closed once. -/
def handlesOk : List Eff → List Nat → Bool
  | [], _ => true
  | .openW w :: r, opened => !opened.contains w && handlesOk r (w :: opened)
  | .seekW w _ :: r, opened => opened.contains w && handlesOk r opened
  | .writeW w _ :: r, opened => opened.contains w && handlesOk r opened
  | _ :: r, opened => handlesOk r opened

def isMid : Eff → Bool
  | .openW _ | .seekW _ _ | .writeW _ _ | .callback _ => true
  | _ => false

def isCloseW : Eff → Bool
  | .closeW _ => true
  | _ => false

def countOcc {α : Type} [BEq α] (a : α) (l : List α) : Nat := (l.filter (· == a)).length

/-- Same elements with the same multiplicities. -/
def sameBag {α : Type} [BEq α] (a b : List α) : Bool :=
  a.length == b.length && a.all fun x => countOcc x a == countOcc x b

/-- `max(offset + length)` over the tensors, 617-620. -/
def totalSize (ts : List Tensor) : Nat := ts.foldl (fun m t => max m (t.off + t.chunks.flatten.length)) 0

/-- Membership in the trace language of `_write_parallel` for the tensors of `cfg` with at most
`maxWorkers` handles: `[open, truncate total, close]`, then the workers' effects in any interleaving,
then the handles are closed (664-666). -/
def parValid (cfg : Cfg) (maxWorkers : Nat) (trace : List Eff) : Bool :=
  match trace with
  | .openTmp :: .truncate n :: .closeTmp :: rest =>
    let mid := rest.takeWhile (fun e => !isCloseW e)
    let closes := rest.dropWhile (fun e => !isCloseW e)
    let opened := mid.filterMap fun e => match e with | .openW w => some w | _ => none
    let closed := closes.filterMap fun e => match e with | .closeW w => some w | _ => none
    let cbs := mid.filterMap fun e => match e with | .callback i => some i | _ => none
    n == totalSize cfg.tensors
      && mid.all isMid && closes.all isCloseW
      && handlesOk mid [] && opened.length ≤ maxWorkers
      && sameBag opened closed
      && sameBag cbs (if cfg.cb then List.range cfg.tensors.length else [])
      && (match tasksOf mid [] with
          | some tasks => sameBag (tasks.map fun t => (t.2.1, t.2.2)) (cfg.tensors.map fun t => (t.off, t.chunks))
          | none => false)
  | _ => false

/-- An effect of the writer block with its fate: `none` = it was executed, `some p` = it failed (a
write after `p` bytes). -/
abbrev Marked := Eff × Option Nat

/-- Replay a block in which failed effects do not end the block (the other workers run on; the
`finally` still closes the handles). -/
def runMarked (env : Env) : List Marked → St → List Step × St
  | [], s => ([], s)
  | (e, none) :: r, s =>
    let q := runMarked env r (apply env s e)
    (⟨e, false, apply env s e⟩ :: q.1, q.2)
  | (e, some p) :: r, s =>
    let q := runMarked env r (applyPartial env s e p)
    (⟨e, true, applyPartial env s e p⟩ :: q.1, q.2)

def allOk (m : List Marked) : Bool := m.all fun x => x.2.isNone

/-- The single-file save whose writer block is the marked trace `m` (what the block's threads did,
in the order they did it, with every failure inside the block). If nothing failed in the block this
is `saveWriter`; otherwise the exception leaves `writer.write()`, and the handlers 497-501 run. `f`
gives the faults outside the block (`mkdtemp`, release loop, `copymode`, `os.replace`, clean-up,
invalidation). -/
def saveMarked (cfg : Cfg) (m : List Marked) (f : Nat → Option Nat) (n0 : Nat) (s0 : St) : Res :=
  if allOk m then
    saveWriter cfg (m.map (·.1)) (fun k => if n0 < k ∧ k ≤ n0 + m.length then none else f k) n0 s0
  else
    let a := runList cfg.env f [.mkdtemp] n0 s0
    if a.faulted then a else
    let b := runMarked cfg.env m a.final
    let c := runList cfg.env f [.removeTmp, .rmdirTmp] (n0 + 1 + m.length) b.2
    ⟨a.steps ++ b.1 ++ c.steps, c.final, true⟩

/-! ## Concurrent shard drivers -/

/-- The shard saves in the order the drivers ran them (each save atomic with respect to the others:
the model has one temporary directory at a time); a failing shard does not stop the others, the
exception is re-raised when all are done (891-911). -/
def shardLoopAll (newMode : Nat) (cb : Bool) (f : Nat → Option Nat) :
    List (String × List Tensor) → Nat → St → Res
  | [], _, s => ⟨[], s, false⟩
  | (d, ts) :: rest, n, s =>
    let r := save ⟨⟨d, newMode⟩, ts, cb⟩ f n s
    let q := shardLoopAll newMode cb f rest (n + r.steps.length) r.final
    ⟨r.steps ++ q.steps, q.final, r.faulted || q.faulted⟩

def saveShardedAll (newMode : Nat) (cb : Bool) (jobs : List (String × List Tensor))
    (f : Nat → Option Nat) (s0 : St) : Res :=
  if jobs.any (fun j => existsP s0.fs (.user j.1)) then ⟨[], s0, true⟩
  else shardLoopAll newMode cb f jobs 0 s0

/-- Sharded save with links: the pre-flight `os.path.exists` follows links (307); each shard save
resolves its own destination (453-456). `none`: a shard destination cannot be resolved. Link tables
never change (see `C08_symlink_kept`), so the jobs are lowered against the initial table. -/
def lowerJobs (L : Links) (gas : Nat) : List (Comps × List LTensor) → Option (List (String × List Tensor))
  | [] => some []
  | (p, ts) :: r =>
    match destEntryL L gas p, lowerJobs L gas r with
    | some e, some q => some ((nameOf e, ts.map (toTensor L gas)) :: q)
    | _, _ => none

end IrVerif.AtomicSave
